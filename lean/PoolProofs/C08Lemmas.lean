import PoolModel.C08
/-! Helper lemmas for C08: the documented lifecycle relation, the record invariant (I1) and its
preservation by every primitive of the model. -/
set_option linter.unusedSimpArgs false
set_option linter.unusedVariables false
namespace Pool.C08
open Pool.Gen

/-- The documented lifecycle (account/interfaces.go state comments, `HandleAccount*` comments):
`Legal s t` = an account may move from `s` to `t`. Written by hand, independent of the switch tables. -/
def Legal : State → State → Bool
  | .initiated, t => t == .pendingOpen || t == .canceled || t == .closed
  | .pendingOpen, t => t == .open_ || t == .closed
  | .pendingUpdate, t => t == .open_ || t == .expiredPendingUpdate || t == .closed
  | .pendingBatch, t => t == .open_ || t == .expiredPendingUpdate || t == .closed || t == .pendingBatch
      || t == .pendingClosed
  | .open_, t => t == .pendingUpdate || t == .expired || t == .pendingClosed || t == .pendingBatch || t == .closed
  | .expired, t => t == .pendingUpdate || t == .pendingClosed || t == .closed || t == .pendingBatch
  | .expiredPendingUpdate, t => t == .expired || t == .closed || t == .pendingBatch || t == .pendingClosed
  | .pendingClosed, t => t == .closed
  | .closed, _ => false
  | .canceled, _ => false

/-- states in which the stored outpoint must be an output of the stored latest transaction -/
def State.live : State → Bool
  | .pendingOpen | .pendingUpdate | .pendingBatch | .open_ | .expired | .expiredPendingUpdate => true
  | _ => false

/-- **I1** for one record: in a live state the output at `outpoint.idx` of the latest transaction, whose
id is `outpoint.txid`, carries the stored value and script; while closing the latest transaction spends the
stored outpoint. -/
def RecOK0 (key : Nat) (a : Acct) : Prop :=
  (a.state.live = true → ∃ t, a.latestTx = some t ∧ t.id = a.outpoint.txid ∧
      t.outAt a.outpoint.idx = some (a.out key)) ∧
  (a.state = .pendingClosed → ∃ t, a.latestTx = some t ∧ a.outpoint ∈ t.spends)

/-- … and (clientdb) a stored record in `StateInitiated` carries no transaction. -/
def RecOK (key : Nat) (a : Acct) : Prop :=
  RecOK0 key a ∧ (a.state = .initiated → a.latestTx = none)

/-- transactions with at most one (account) output: what the model's wallet holds -/
def Tx.single (t : Tx) : Prop := t.outs.length ≤ 1

/-- **I1** for a machine state: the record and the staged copy are consistent; wallet transactions are
single-output (so that `locate` and `outAt` agree). -/
structure Inv1 (s : AState) : Prop where
  acctOK : ∀ a, s.acct = some a → RecOK s.key a
  stagedOK : ∀ a, s.staged = some a → RecOK s.key a
  walletOK : ∀ t ∈ s.wallet, t.single

theorem recOK_stored {key : Nat} {a : Acct} (h : RecOK0 key a) : RecOK key a.stored := by
  unfold Acct.stored
  split
  · rename_i hs
    refine ⟨⟨?_, ?_⟩, fun _ => rfl⟩
    · intro hl; rcases hs with hs | hs <;> simp [hs, State.live] at hl
    · intro hc; rcases hs with hs | hs <;> simp [hs] at hc
  · rename_i hs
    exact ⟨h, fun h0 => absurd (Or.inl h0) hs⟩

/-! ### frame lemmas: primitives that do not touch the record -/

@[simp] theorem write_acct (s : AState) (a : Acct) : (write s a).acct = some a.stored := rfl
@[simp] theorem write_staged (s : AState) (a : Acct) : (write s a).staged = s.staged := rfl
@[simp] theorem write_key (s : AState) (a : Acct) : (write s a).key = s.key := rfl
@[simp] theorem write_wallet (s : AState) (a : Acct) : (write s a).wallet = s.wallet := rfl

/-- "same record part": key, record, staged copy and wallet are unchanged -/
def SameRec (s s' : AState) : Prop :=
  s'.key = s.key ∧ s'.acct = s.acct ∧ s'.staged = s.staged ∧ s'.wallet = s.wallet

theorem SameRec.refl (s : AState) : SameRec s s := ⟨rfl, rfl, rfl, rfl⟩
theorem SameRec.trans {a b c : AState} (h1 : SameRec a b) (h2 : SameRec b c) : SameRec a c :=
  ⟨h2.1.trans h1.1, h2.2.1.trans h1.2.1, h2.2.2.1.trans h1.2.2.1, h2.2.2.2.trans h1.2.2.2⟩

theorem Inv1.of_same {s s' : AState} (h : SameRec s s') (i : Inv1 s) : Inv1 s' := by
  obtain ⟨hk, ha, hs, hw⟩ := h
  exact ⟨fun a e => hk ▸ i.acctOK a (ha ▸ e), fun a e => hk ▸ i.stagedOK a (hs ▸ e), fun t ht => i.walletOK t (hw ▸ ht)⟩

theorem same_maybeBroadcast (s : AState) (t : Tx) : SameRec s (maybeBroadcast s t) := by
  unfold maybeBroadcast; split <;> exact ⟨rfl, rfl, rfl, rfl⟩
theorem same_regConf (s : AState) (x : Nat) (sc : Script) : SameRec s (regConf s x sc) := ⟨rfl, rfl, rfl, rfl⟩
theorem same_regSpend (s : AState) (x : OutPoint) (sc : Script) : SameRec s (regSpend s x sc) := ⟨rfl, rfl, rfl, rfl⟩
theorem same_cancelConf (s : AState) : SameRec s (cancelConf s) := by
  unfold cancelConf; split <;> exact ⟨rfl, rfl, rfl, rfl⟩
theorem same_cancelSpend (s : AState) : SameRec s (cancelSpend s) := by
  unfold cancelSpend; split <;> exact ⟨rfl, rfl, rfl, rfl⟩

/-- writing a consistent record preserves I1 -/
theorem Inv1.write {s : AState} (i : Inv1 s) {a : Acct} (h : RecOK0 s.key a) : Inv1 (write s a) :=
  ⟨fun b e => by simp at e; subst e; exact recOK_stored h, i.stagedOK, i.walletOK⟩

/-- changing only the state of a record between states of the same kind keeps it consistent -/
theorem recOK_state {key : Nat} {a : Acct} (h : RecOK0 key a) (t : State)
    (hl : t.live = true → a.state.live = true) (hc : t = .pendingClosed → a.state = .pendingClosed) :
    RecOK0 key { a with state := t } := by
  refine ⟨fun h1 => ?_, fun h2 => ?_⟩
  · exact h.1 (hl h1)
  · exact h.2 (hc h2)

/-- the transitions of `HandleAccountExpiry` (regenerated table) lead from live states to live states and
never to `pendingClosed` -/
theorem expiryNext_live (s t : State) (h : expiryNext s = .to t) :
    (t.live = true → s.live = true) ∧ t ≠ .pendingClosed := by
  cases s <;> cases t <;> revert h <;> decide

theorem confNext_live (s t : State) (h : confNext s = some t) :
    (t.live = true → s.live = true) ∧ t ≠ .pendingClosed := by
  cases s <;> cases t <;> revert h <;> decide

theorem Inv1.handleExpiry {s : AState} (i : Inv1 s) : Inv1 (handleExpiry s) := by
  unfold Pool.C08.handleExpiry
  split
  · exact i
  · rename_i a ha
    split
    · rename_i t ht
      have := expiryNext_live _ _ ht
      exact i.write (recOK_state (i.acctOK a ha).1 t this.1 (fun h => absurd h this.2))
    · exact i

theorem Inv1.watchExpiration {s : AState} (i : Inv1 s) (e : Nat) : Inv1 (watchExpiration s e) := by
  unfold Pool.C08.watchExpiration
  split
  · exact Inv1.handleExpiry (Inv1.of_same (s := s) ⟨rfl, rfl, rfl, rfl⟩ i)
  · exact Inv1.of_same (s := s) ⟨rfl, rfl, rfl, rfl⟩ i

theorem Inv1.handleStateOpen {s : AState} (i : Inv1 s) (a : Acct) : Inv1 (handleStateOpen s a) := by
  unfold Pool.C08.handleStateOpen
  simp only []
  split <;> split <;>
    first
    | exact Inv1.watchExpiration (i.of_same (same_regSpend _ _ _)) _
    | exact i.of_same (same_regSpend _ _ _)
    | exact Inv1.watchExpiration i _
    | exact i

theorem Inv1.handleConf {s : AState} (i : Inv1 s) (h : Nat) : Inv1 (handleConf s h) := by
  unfold Pool.C08.handleConf
  split
  · exact i
  · rename_i a ha
    split
    · exact i
    · rename_i t ht
      have := confNext_live _ _ ht
      apply Inv1.handleStateOpen
      apply i.write
      have h0 := recOK_state (i.acctOK a ha).1 t this.1 (fun h => absurd h this.2)
      exact ⟨h0.1, h0.2⟩

theorem Inv1.completeOnly {s : AState} (i : Inv1 s) : Inv1 (completeOnly s) := by
  unfold Pool.C08.completeOnly
  split
  · exact i
  · rename_i b hb
    have := i.write (i.stagedOK b hb).1
    exact ⟨this.acctOK, fun a e => by simp at e, this.walletOK⟩

end Pool.C08

namespace Pool.C08

theorem Inv1.regConf {s : AState} (i : Inv1 s) (x : Nat) (sc : Script) : Inv1 (regConf s x sc) :=
  i.of_same (same_regConf _ _ _)
theorem Inv1.regSpend {s : AState} (i : Inv1 s) (x : OutPoint) (sc : Script) : Inv1 (regSpend s x sc) :=
  i.of_same (same_regSpend _ _ _)
theorem Inv1.maybeBroadcast {s : AState} (i : Inv1 s) (t : Tx) : Inv1 (maybeBroadcast s t) :=
  i.of_same (same_maybeBroadcast _ _)
theorem Inv1.cancelConf {s : AState} (i : Inv1 s) : Inv1 (cancelConf s) := i.of_same (same_cancelConf _)
theorem Inv1.cancelSpend {s : AState} (i : Inv1 s) : Inv1 (cancelSpend s) := i.of_same (same_cancelSpend _)

/-- closes goals of the shape `Inv1 (prim (prim … s))` -/
macro "inv1_prims" : tactic => `(tactic|
  repeat (first
    | assumption
    | apply Inv1.regConf
    | apply Inv1.regSpend
    | apply Inv1.maybeBroadcast
    | apply Inv1.handleStateOpen
    | apply Inv1.watchExpiration
    | apply Inv1.cancelConf
    | apply Inv1.cancelSpend))

theorem Inv1.rebroadcast {s : AState} (i : Inv1 s) (a : Acct) (r : Bool) (acts : List String) :
    Inv1 (rebroadcast s a r acts).1 := by
  unfold Pool.C08.rebroadcast
  repeat' split
  all_goals (simp only []; try inv1_prims)
  all_goals (split <;> simp only [] <;> inv1_prims)

theorem Inv1.watchers {s : AState} (i : Inv1 s) (a : Acct) (acts : List String) : Inv1 (watchers s a acts) := by
  unfold Pool.C08.watchers
  simp only []
  repeat' split
  all_goals (try inv1_prims)

theorem Inv1.expiryRearm {s : AState} (i : Inv1 s) (a : Acct) (acts : List String) :
    Inv1 (expiryRearm s a acts) := by
  unfold Pool.C08.expiryRearm; split
  · exact Inv1.watchExpiration i _
  · exact i

theorem Inv1.resumeRest {s : AState} (i : Inv1 s) (a : Acct) (r : Bool) : Inv1 (resumeRest s a r).1 := by
  unfold Pool.C08.resumeRest
  split
  · exact i
  · simp only []
    split
    · exact Inv1.expiryRearm (Inv1.watchers (Inv1.rebroadcast i _ _ _) _ _) _ _
    · exact Inv1.rebroadcast i _ _ _

end Pool.C08

namespace Pool.C08

theorem single_out {t : Tx} (hs : t.single) {sc : Script} {i v : Nat}
    (hl : t.locate sc = some i) (hv : (t.outAt i).map (·.value) = some v) :
    t.outAt i = some ⟨v, sc⟩ := by
  obtain ⟨id, spends, outs, signed, wit⟩ := t
  match outs, hs with
  | [], _ => simp [Tx.locate] at hl
  | [(j, o)], _ =>
    simp only [Tx.locate, List.find?] at hl
    by_cases hb : (o.script == sc) = true
    · simp [hb] at hl
      subst hl
      have hsc : o.script = sc := by simpa using hb
      simp [Tx.outAt, List.lookup] at hv ⊢
      cases o; simp_all
    · simp [hb] at hl
  | _ :: _ :: _, hs => simp [Tx.single] at hs

theorem txHasOutput_spec {t : Tx} {o : TxOut} (h : txHasOutput t o = true) :
    ∃ i, t.locate o.script = some i ∧ (t.outAt i).map (·.value) = some o.value := by
  unfold txHasOutput at h
  split at h
  · rename_i i hi; exact ⟨i, hi, by simpa using h⟩
  · simp at h

theorem locateTxByOutput_spec {wallet : List Tx} {o : TxOut} {full : Option Tx} {t : Tx}
    (h : locateTxByOutput wallet o full = some t) :
    txHasOutput t o = true ∧ (t ∈ wallet ∨ full = some t) := by
  unfold locateTxByOutput at h
  split at h
  · rename_i t0
    split at h
    · rename_i hh; simp at h; subst h; exact ⟨hh, Or.inr rfl⟩
    · have := List.find?_some h; exact ⟨this, Or.inl (List.mem_of_find?_eq_some h)⟩
  · have := List.find?_some h; exact ⟨this, Or.inl (List.mem_of_find?_eq_some h)⟩

theorem fundOrLocate_got {s s' : AState} {a : Acct} {r1 r2 fee : Bool} {f : Option (Nat × Nat)}
    {acts : List String} {t : Tx} (i : Inv1 s)
    (hfull : ∀ t, a.latestTx = some t → t.single)
    (h : fundOrLocate s a r1 r2 fee f acts = .got s' t) :
    Inv1 s' ∧ s'.key = s.key ∧ t.single ∧ txHasOutput t (a.out s.key) = true := by
  unfold fundOrLocate at h
  simp only [] at h
  split at h
  · rename_i t0 hloc
    split at h
    · simp at h
    simp at h
    obtain ⟨h1, h2⟩ := h
    subst h1; subst h2
    split at hloc
    · have := locateTxByOutput_spec hloc
      refine ⟨i, rfl, ?_, this.1⟩
      rcases this.2 with hw | hf
      · exact i.walletOK _ hw
      · exact hfull _ hf
    · simp at hloc
  · repeat' split at h
    all_goals (try (simp at h))
    rename_i id idx
    obtain ⟨h1, h2⟩ := h
    subst h1; subst h2
    refine ⟨⟨i.acctOK, i.stagedOK, ?_⟩, rfl, by simp [Tx.single], ?_⟩
    · intro t ht
      simp at ht
      rcases ht with ht | ht
      · exact i.walletOK t ht
      · subst ht; simp [Tx.single]
    · simp [txHasOutput, Tx.locate, Tx.outAt, List.lookup]

theorem Inv1.resume {s : AState} (i : Inv1 s) (a : Acct) (r1 r2 fee : Bool) (f : Option (Nat × Nat))
    (hfull : a.state = .initiated → ∀ t, a.latestTx = some t → t.single) :
    Inv1 (resume s a r1 r2 fee f).1 := by
  unfold Pool.C08.resume
  split
  · rename_i hinit
    split
    · exact i
    · rename_i acts _
      split
      · exact i
      · exact i.write ⟨fun h => by simp [State.live] at h, fun h => by simp at h⟩
      · rename_i s' t hg
        obtain ⟨i', hk, hs, ho⟩ := fundOrLocate_got i (hfull hinit) hg
        split
        · exact i'
        · rename_i idx hidx
          obtain ⟨j, hj, hv⟩ := txHasOutput_spec ho
          have hjk : t.locate (a.script s'.key) = some j := by rw [hk]; exact hj
          have hij : idx = j := by rw [hidx] at hjk; simpa using hjk
          subst hij
          have hout := single_out hs hj hv
          have hrec : RecOK0 s'.key { a with state := .pendingOpen, outpoint := ⟨t.id, idx⟩, latestTx := some t } := by
            refine ⟨fun _ => ⟨t, rfl, rfl, ?_⟩, fun h => by simp at h⟩
            simp only [Acct.out, Acct.script] at hout ⊢
            rw [hk]; exact hout
          have hw := i'.write hrec
          simp only []
          split
          · exact Inv1.resumeRest hw _ _
          · exact hw
  · exact Inv1.resumeRest i _ _

end Pool.C08

namespace Pool.C08

/-- a stored record satisfies the side condition of `Inv1.resume` -/
theorem stored_full {key : Nat} {a : Acct} (h : RecOK key a) :
    a.state = .initiated → ∀ t, a.latestTx = some t → t.single := by
  intro h0 t ht; rw [h.2 h0] at ht; simp at ht

theorem Inv1.modify {s : AState} (i : Inv1 s) (k : Kind) (m : ModArgs) : Inv1 (modify s k m).1 := by
  unfold Pool.C08.modify
  split
  · exact i
  · cases k <;> simp only [] <;> (repeat' split) <;> (try exact i)
    all_goals (
      first
      | (apply Inv1.watchExpiration; apply Inv1.maybeBroadcast; apply Inv1.write i
         refine ⟨fun _ => ⟨_, rfl, rfl, ?_⟩, fun h => by simp at h⟩
         simp [Tx.outAt, List.lookup, Acct.out, Acct.script])
      | (apply Inv1.maybeBroadcast; apply Inv1.write i
         refine ⟨fun _ => ⟨_, rfl, rfl, ?_⟩, fun h => by simp at h⟩
         simp [Tx.outAt, List.lookup, Acct.out, Acct.script]))

theorem Inv1.close {s : AState} (i : Inv1 s) (h t : Nat) (ok sg : Bool) : Inv1 (close s h t ok sg).1 := by
  unfold Pool.C08.close
  repeat' split
  all_goals (simp only []; try exact i)
  apply Inv1.maybeBroadcast; apply Inv1.write i
  exact ⟨fun h => by simp [State.live] at h, fun _ => ⟨_, rfl, by simp⟩⟩

theorem Inv1.bump {s : AState} (i : Inv1 s) : Inv1 (bump s).1 := by
  unfold Pool.C08.bump
  repeat' split
  all_goals exact i

theorem mem_of_lookup {α β : Type} [BEq α] [LawfulBEq α] {l : List (α × β)} {k : α} {v : β}
    (h : l.lookup k = some v) : (k, v) ∈ l := by
  induction l with
  | nil => simp [List.lookup] at h
  | cons p l ih =>
    obtain ⟨k', v'⟩ := p
    simp only [List.lookup] at h
    split at h
    · rename_i hk
      have : k = k' := by simpa using hk
      simp at h; subst h; subst this; exact List.mem_cons_self
    · exact List.mem_cons_of_mem _ (ih h)

/-- what the model needs of a row of the regenerated batch-storer table: a re-created output comes with the
new outpoint and a live state, a spent one keeps the outpoint and is not live -/
def storerRowOK (r : Nat × Nat × Bool × Bool) : Bool :=
  match State.ofNat? r.2.1 with
  | none => true
  | some st => st != .initiated && (if r.2.2.1 then st != .pendingClosed else !st.live)

theorem storer_rows : Pool.Gen.Lifecycle.storerEnding.all storerRowOK = true := by decide

theorem Inv1.stage {s : AState} (i : Inv1 s) (g : StageArgs) : Inv1 (stage s g).1 := by
  unfold Pool.C08.stage
  split
  · exact i
  · rename_i a ha
    split
    · exact i
    · rename_i stN hasOp hasInc hl
      split
      · exact i
      · rename_i st hst
        have hrow := List.all_eq_true.mp storer_rows _ (mem_of_lookup hl)
        simp only [storerRowOK, hst] at hrow
        refine ⟨i.acctOK, ?_, i.walletOK⟩
        intro b hb
        simp only [Option.some.injEq] at hb
        subst hb
        cases hasOp
        · simp at hrow
          refine ⟨⟨fun h => ?_, fun _ => ⟨_, rfl, by simp⟩⟩, fun h => ?_⟩
          · simp at h; rw [hrow.2] at h; simp at h
          · simp at h; exact absurd h hrow.1
        · simp at hrow
          refine ⟨⟨fun _ => ⟨_, rfl, rfl, ?_⟩, fun h => ?_⟩, fun h => ?_⟩
          · simp [Tx.outAt, List.lookup, Acct.out, Acct.script]
          · simp at h; exact absurd h hrow.2
          · simp at h; exact absurd h hrow.1

end Pool.C08

namespace Pool.C08
open Pool.Gen

theorem spendCloseState_closed : spendCloseState = .closed := by decide

theorem Inv1.handleSpend {s : AState} (i : Inv1 s) (t : Tx) (h : Nat) : Inv1 (handleSpend s t h).1 := by
  unfold Pool.C08.handleSpend
  split
  · exact i
  · simp only []
    split
    · apply i.write
      rw [spendCloseState_closed]
      exact ⟨fun h => by simp [State.live] at h, fun h => by simp at h⟩
    · split
      · have ic := Inv1.completeOnly i
        split
        · exact ic
        · rename_i a' ha'
          split
          · exact Inv1.resume ic _ _ _ _ _ (stored_full (ic.acctOK a' ha'))
          · apply ic.write
            rw [spendCloseState_closed]
            exact ⟨fun h => by simp [State.live] at h, fun h => by simp at h⟩
      · exact i

theorem Inv1.initAccount {s : AState} (i : Inv1 s) (v e ver h : Nat) (f : Option (Nat × Nat)) :
    Inv1 (initAccount s v e ver h f).1 := by
  unfold Pool.C08.initAccount
  simp only []
  apply Inv1.resume
  · apply i.write
    exact ⟨fun h => by simp [State.live] at h, fun h => by simp at h⟩
  · intro _ t ht; simp at ht

theorem Inv1.watchMatched {s : AState} (i : Inv1 s) : Inv1 (watchMatched s).1 := by
  unfold Pool.C08.watchMatched
  split
  · exact i
  · rename_i a ha
    exact Inv1.resume (Inv1.cancelConf (Inv1.cancelSpend i)) _ _ _ _ _ (stored_full (i.acctOK a ha))

/-- side conditions on the environment-supplied data of an op: a recovered record is what the
auctioneer reports – consistent with its own latest transaction – and the wallet's / the reported
transactions are single-output in the model's sense. -/
def OpOK (key : Nat) : Op → Prop
  | .recover a known => RecOK0 key a ∧ (∀ t ∈ known, t.single) ∧ (∀ t, a.latestTx = some t → t.single)
  | _ => True

theorem Inv1.setW {s : AState} (i : Inv1 s) (w : Watch) : Inv1 { s with w := w } :=
  ⟨i.acctOK, i.stagedOK, i.walletOK⟩
theorem Inv1.setBest {s : AState} (i : Inv1 s) (b : Nat) : Inv1 { s with best := b } :=
  ⟨i.acctOK, i.stagedOK, i.walletOK⟩
theorem Inv1.setWB {s : AState} (i : Inv1 s) (w : Watch) (b : Nat) : Inv1 { s with w := w, best := b } :=
  ⟨i.acctOK, i.stagedOK, i.walletOK⟩

theorem Inv1.step {s : AState} (i : Inv1 s) (op : Op) (hop : OpOK s.key op) : Inv1 (step s op).1 := by
  cases op with
  | init v e ver h f => exact Inv1.initAccount i _ _ _ _ _
  | modify k m => exact Inv1.modify i _ _
  | close h t ok sg => exact Inv1.close i _ _ _ _
  | bump => exact Inv1.bump i
  | conf pos h =>
    simp only [Pool.C08.step]
    split
    · exact i
    · apply Inv1.setW; apply Inv1.handleConf; exact Inv1.setW i _
  | confDirect h => exact Inv1.handleConf i _
  | spend pos k h =>
    simp only [Pool.C08.step]
    split
    · exact i
    · split
      · exact i
      · apply Inv1.setW; apply Inv1.handleSpend; exact Inv1.setW i _
  | consumeSpend pos =>
    simp only [Pool.C08.step]
    split
    · exact i
    · exact Inv1.setW i _
  | spendH t h =>
    simp only [Pool.C08.step]
    apply Inv1.setW; exact Inv1.handleSpend i _ _
  | spendDirect k h =>
    simp only [Pool.C08.step]
    split
    · exact i
    · exact Inv1.handleSpend i _ _
  | block h =>
    simp only [Pool.C08.step]
    split
    · split
      · apply Inv1.handleExpiry; exact Inv1.setWB i _ _
      · exact Inv1.setBest i _
    · exact Inv1.setBest i _
  | expiryDirect => exact Inv1.handleExpiry i
  | stage g => exact Inv1.stage i _
  | completeOnly => exact Inv1.completeOnly i
  | dropStage => exact ⟨i.acctOK, fun a e => by simp [Pool.C08.step] at e, i.walletOK⟩
  | watchMatched => exact Inv1.watchMatched i
  | restart feeOk f =>
    simp only [Pool.C08.step]
    have i0 : Inv1 { s with w := {}, best := 0 } := Inv1.setWB i _ _
    split
    · exact i0
    · rename_i a ha
      exact Inv1.resume i0 _ _ _ _ _ (stored_full (i.acctOK a ha))
  | flush => exact Inv1.setW i _
  | recover a known =>
    simp only [Pool.C08.step]
    obtain ⟨h1, h2, h3⟩ := hop
    apply Inv1.resume
    · exact Inv1.write (s := { s with wallet := known }) ⟨i.acctOK, i.stagedOK, h2⟩ h1
    · exact fun _ => h3

end Pool.C08
