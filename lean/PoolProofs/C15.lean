import PoolProofs.C15LemmasInst
import PoolProofs.C15LemmasStr
import PoolProofs.C15LemmasB58
import PoolProofs.C10
import PoolModel.Generated.C19State
import PoolProofs.C15LemmasStore
/-! # C15 — sidecar ticket encodings round-trip and reject damaged strings

Theorems about the model of sidecar/tlv.go and sidecar/codec.go (`Pool.Dec`).  SHA-256 is an arbitrary
function `H` returning at least `checksumLen` bytes. -/
namespace Pool.C15
open Pool.Dec

/-! ## binary form -/

/-- **Generic TLV round trip** (lnd `Stream.Encode` / `Stream.decode` as modelled): for ANY decoder
record list with strictly increasing types, ANY subset of those records present, each value within
the 65535 cap and each present record round-tripping on its own, decoding the encoding returns
exactly the per-record results in order and reports exactly the present types — for both the capped
and the uncapped decoder, with or without the parsed-types map. -/
theorem C15_stream_roundtrip {σ : Type} (p2p : Bool) (maxAlloc : Nat) (wt : Bool) (step : Nat → Bytes → σ → σ)
    (rs : List (Rec σ)) (vs : List (Option Bytes)) (s : σ)
    (hinc : IncFrom 0 rs) (hgood : Good step rs vs) :
    decodeLoop p2p maxAlloc wt ((encAligned rs vs).length + 1) rs 0 (encAligned rs vs) s []
      = .ok (stepAligned step rs vs s, typesAligned rs vs) := by
  have := decodeLoop_encAligned p2p maxAlloc wt step rs vs 0 s [] _ hinc hgood (Nat.lt_succ_self _)
  simpa using this

/-- execution part: `deserializeExecution (serializeExecution e) = e` -/
theorem C15_execution_roundtrip (cfg : Cfg) (e : Execution) (h : e.wf) :
    ∃ b, serializeExecution e = .ok b ∧ deserializeExecution cfg b = .ok e := by
  obtain ⟨b, h1, h2, _⟩ := execution_roundtrip cfg e h
  exact ⟨b, h1, h2⟩

example : Execution.wf { pendingChannelID := List.replicate 32 7 } := by unfold Execution.wf; decide

/-- order part, with or without the order signature (zero signature ↔ absent: a present signature
object must be non-zero with low S, as a signer produces it) -/
theorem C15_order_roundtrip (cfg : Cfg) (o : Order) (h : o.wf) :
    ∃ b, serializeOrder o = .ok b ∧ deserializeOrder cfg b = .ok o := by
  obtain ⟨b, h1, h2, _⟩ := order_roundtrip cfg o h
  exact ⟨b, h1, h2⟩

example : Order.wf { bidNonce := List.replicate 32 1, sigOrderDigest := some ⟨5, 9⟩ } :=
  ⟨by decide, by intro g hg; cases hg; decide⟩
example : Order.wf { bidNonce := List.replicate 32 0, sigOrderDigest := none } :=
  ⟨by decide, by intro g hg; cases hg⟩

/-- a high-S signature object does NOT round-trip: `ESig` writes the low-S twin (why `Sig.wf` asks for low S) -/
theorem C15_highS_sig_normalised :
    parseSig (sigBytes ⟨1, secpN - 1⟩) = some ⟨1, 1⟩ := by decide

/-- (regenerated facts) the decoder record lists of the model are those of the `tlv.NewStream` /
`decodeBytes` calls in the current sidecar/tlv.go, in the same order and with the same decoder kinds,
and the serialisers write the same set of types. -/
theorem C15_record_tables_match_source :
    (ticketRecs ⟨true, true, false, 0⟩).map (·.typ) = Pool.Gen.C15.DeserializeTicketTypes ∧
    offerRecs.map (·.typ) = Pool.Gen.C15.deserializeOfferTypes ∧
    recipientRecs.map (·.typ) = Pool.Gen.C15.deserializeRecipientTypes ∧
    orderRecs.map (·.typ) = Pool.Gen.C15.deserializeOrderTypes ∧
    executionRecs.map (·.typ) = Pool.Gen.C15.deserializeExecutionTypes ∧
    Pool.Gen.C15.SerializeTicketTypes = Pool.Gen.C15.DeserializeTicketTypes ∧
    (∀ t ∈ Pool.Gen.C15.serializeOfferTypes, t ∈ Pool.Gen.C15.deserializeOfferTypes) ∧
    Pool.Gen.C15.serializeRecipientTypes = Pool.Gen.C15.deserializeRecipientTypes ∧
    Pool.Gen.C15.serializeOrderTypes = Pool.Gen.C15.deserializeOrderTypes ∧
    Pool.Gen.C15.serializeExecutionTypes = Pool.Gen.C15.deserializeExecutionTypes ∧
    Pool.Gen.C15.DeserializeTicketKinds = ["static:8:EBytes8:DBytes8", "prim", "prim", "prim", "prim", "prim", "prim"] ∧
    Pool.Gen.C15.deserializeOfferKinds = ["prim", "prim", "prim", "prim", "static:64:ESig:DSig", "prim", "prim", "prim"] ∧
    Pool.Gen.C15.deserializeRecipientKinds = ["prim", "prim", "prim"] ∧
    Pool.Gen.C15.deserializeOrderKinds = ["prim", "static:64:ESig:DSig"] ∧
    Pool.Gen.C15.deserializeExecutionKinds = ["prim"] ∧
    Pool.Gen.C15.checksumLen = 4 ∧ prefixBytes.length = 7 ∧ encVersion = [0] := by decide

/-- (regenerated fact) The model treats `EncodeToString`, `SerializeTicket`, `DecodeString`,
`DeserializeTicket` as functions of their argument.  In the source, the intra-package call graph of these
four functions (incl. the encoders / decoders passed as values) mentions exactly two package-level
variables – the constants `encodingVersion` and `ZeroSignature` – and writes none: no pooled buffer, cache
or other shared mutable state that would make the result depend on other calls (sequential or concurrent). -/
theorem C15_codec_touches_no_mutable_state :
    Pool.Gen.C19.sidecarCodecVars = ["ZeroSignature : [64]byte", "encodingVersion : []byte"] ∧
    Pool.Gen.C19.parserStateWrites = [] ∧
    (∀ f ∈ ["EncodeToString", "SerializeTicket", "DecodeString", "DeserializeTicket", "serializeOffer",
             "serializeRecipient", "serializeOrder", "serializeExecution", "encodeBytes", "ESig", "EBytes8"],
        f ∈ Pool.Gen.C19.sidecarCodecCallGraph) := by decide

/-! ## string form -/

/-- the payload and checksum slices `DecodeString` takes from the base58-decoded bytes -/
def payloadOf (raw : Bytes) : Bytes := (raw.take (raw.length - 4)).drop 1
def checksumOf (raw : Bytes) : Bytes := raw.drop (raw.length - 4)
/-- first `checksumLen` bytes of the hash of prefix ‖ 0 ‖ payload -/
def chk (H : Bytes → Bytes) (payload : Bytes) : Bytes := (H (checksumInput payload)).take 4

/-- **Exact acceptance characterisation of `DecodeString`.**  A string decodes to ticket `t` iff it
starts with the exact prefix, the rest base58-decodes to at least 5 bytes `raw`, the last four bytes of
`raw` equal the truncated hash of prefix ‖ 0 ‖ payload (payload = `raw` without its first byte and its
last four), and the payload deserialises to `t`.  (The version byte `raw[0]` is NOT examined.) -/
theorem C15_accept_characterisation (H : Bytes → Bytes) (hH : ∀ x, 4 ≤ (H x).length) (cfg : Cfg) (s : Bytes)
    (t : Ticket) :
    decodeString H cfg s = .ok t ↔
      7 ≤ s.length ∧ s.take 7 = prefixBytes ∧
      ∃ raw, b58Decode cfg.maxAlloc (s.drop 7) = .ok raw ∧ 5 ≤ raw.length ∧
        checksumOf raw = chk H (payloadOf raw) ∧ deserializeTicket cfg (payloadOf raw) = .ok t := by
  rw [decodeString_eq H hH cfg s]
  unfold checksumOf chk payloadOf
  constructor
  · intro h
    split at h
    · cases h
    · rename_i hl
      split at h
      · cases h
      · cases h
      · rename_i raw hraw
        split at h
        · cases h
        · split at h
          · cases h
          · split at h
            · cases h
            · rename_i h5 hp hc
              refine ⟨by omega, by simpa using hp, raw, hraw, by omega, by simpa using hc, h⟩
  · rintro ⟨hl, hp, raw, hraw, h5, hc, hd⟩
    rw [if_neg (by omega), hraw]
    simp only
    rw [if_neg (by omega), if_neg (by simpa using hp), if_neg (by simpa using hc)]
    exact hd

/-- (regenerated facts) the two comparisons of `DecodeString` that the model mirrors as exact
(in)equalities are exact in the current codec.go.  The extractor classifies them by meaning: the prefix test
is "exact" for `x != sidecarPrefix`, `!(x == sidecarPrefix)` or `!strings.HasPrefix(s, sidecarPrefix)` with
the constant itself; the checksum test is "exact" for a negated `bytes.Equal` / `bytes.Compare(..) != 0`
whose operands are sliced at most up to `checksumLen`.  A source that compares in any other way
(case-insensitively, on a shorter slice, not at all) breaks this obligation, and with it the claim that
`C15_wrong_prefix_rejected` / `C15_accept_characterisation` speak about the code. -/
theorem C15_source_comparisons_exact :
    Pool.Gen.C15.decodeStringPrefixCompare = "exact" ∧ Pool.Gen.C15.decodeStringChecksumCompare = "exact" := by
  decide

/-- A string whose first seven bytes are not exactly the prefix is never accepted. -/
theorem C15_wrong_prefix_rejected (H : Bytes → Bytes) (hH : ∀ x, 4 ≤ (H x).length) (cfg : Cfg) (s : Bytes)
    (h : s.take 7 ≠ prefixBytes) (t : Ticket) : decodeString H cfg s ≠ .ok t := by
  intro hd
  exact h ((C15_accept_characterisation H hH cfg s t).1 hd).2.1

example : ([0x53, 0x69, 0x64, 0x65, 0x63, 0x61, 0x72, 0x31] : Bytes).take 7 ≠ prefixBytes := by decide

/-- Altering only checksum bytes is always rejected: two accepted strings with the same payload carry
the same checksum. -/
theorem C15_checksum_alteration_rejected (H : Bytes → Bytes) (hH : ∀ x, 4 ≤ (H x).length) (cfg : Cfg)
    (s s' raw raw' : Bytes) (t t' : Ticket)
    (h : decodeString H cfg s = .ok t) (h' : decodeString H cfg s' = .ok t')
    (hr : b58Decode cfg.maxAlloc (s.drop 7) = .ok raw) (hr' : b58Decode cfg.maxAlloc (s'.drop 7) = .ok raw')
    (hp : payloadOf raw' = payloadOf raw) : checksumOf raw' = checksumOf raw ∧ t' = t := by
  obtain ⟨_, _, r, e, _, hc, hd⟩ := (C15_accept_characterisation H hH cfg s t).1 h
  obtain ⟨_, _, r', e', _, hc', hd'⟩ := (C15_accept_characterisation H hH cfg s' t').1 h'
  rw [hr] at e; rw [hr'] at e'
  cases e; cases e'
  rw [hp] at hc' hd'
  refine ⟨by rw [hc, hc'], ?_⟩
  rw [hd] at hd'; cases hd'; rfl

/-- Altering the payload (checksum bytes kept) is accepted ONLY on a collision of the 4-byte truncated
hash: stated exactly, not assumed away. -/
theorem C15_payload_alteration_needs_collision (H : Bytes → Bytes) (hH : ∀ x, 4 ≤ (H x).length) (cfg : Cfg)
    (s s' raw raw' : Bytes) (t t' : Ticket)
    (h : decodeString H cfg s = .ok t) (h' : decodeString H cfg s' = .ok t')
    (hr : b58Decode cfg.maxAlloc (s.drop 7) = .ok raw) (hr' : b58Decode cfg.maxAlloc (s'.drop 7) = .ok raw')
    (hc : checksumOf raw' = checksumOf raw) : chk H (payloadOf raw') = chk H (payloadOf raw) := by
  obtain ⟨_, _, r, e, _, hc1, _⟩ := (C15_accept_characterisation H hH cfg s t).1 h
  obtain ⟨_, _, r', e', _, hc2, _⟩ := (C15_accept_characterisation H hH cfg s' t').1 h'
  rw [hr] at e; rw [hr'] at e'
  cases e; cases e'
  rw [← hc1, ← hc2, hc]

/-- Any accepted altered string that yields a DIFFERENT ticket has a different payload whose truncated
hash is its own last four bytes — i.e. the alteration produced a valid (payload, checksum) pair. -/
theorem C15_different_ticket_needs_valid_pair (H : Bytes → Bytes) (hH : ∀ x, 4 ≤ (H x).length) (cfg : Cfg)
    (s s' raw raw' : Bytes) (t t' : Ticket)
    (h : decodeString H cfg s = .ok t) (h' : decodeString H cfg s' = .ok t') (hne : t' ≠ t)
    (hr : b58Decode cfg.maxAlloc (s.drop 7) = .ok raw) (hr' : b58Decode cfg.maxAlloc (s'.drop 7) = .ok raw') :
    payloadOf raw' ≠ payloadOf raw ∧ checksumOf raw' = chk H (payloadOf raw') := by
  constructor
  · intro hp
    exact hne (C15_checksum_alteration_rejected H hH cfg s s' raw raw' t t' h h' hr hr' hp).2
  · obtain ⟨_, _, r', e', _, hc2, _⟩ := (C15_accept_characterisation H hH cfg s' t').1 h'
    rw [hr'] at e'; cases e'; exact hc2

/-! ## round trips -/

/-- **ticket_roundtrip**: every well-formed ticket (`Ticket.wf`: field sizes, numbers within their wire
width, keys the parser returns unchanged, signature objects non-zero with low S) – any state and version,
any subset of recipient / order / execution, optional keys and signatures, all flag combinations –
serialises, and the bytes deserialise to the same ticket. -/
theorem C15_ticket_roundtrip (cfg : Cfg) (hm : 1000 ≤ cfg.maxAlloc) (t : Ticket) (h : t.wf) :
    ∃ b, serializeTicket t = .ok b ∧ deserializeTicket cfg b = .ok t :=
  ⟨_, (ticket_roundtrip cfg hm t h).1, (ticket_roundtrip cfg hm t h).2⟩

/-- the secp256k1 generator, compressed: a key `ParsePubKey` accepts and returns unchanged -/
def gKey : Bytes := (2 : UInt8) :: toBE 32 0x79BE667EF9DCBBAC55A06295CE870B07029BFCDB2DCE28D959F2815B16F81798

set_option maxRecDepth 20000 in
theorem gKey_wf : keyWF gKey := by
  constructor
  · decide
  · decide +kernel

/-- a populated ticket used for non-vacuity -/
def exampleTicket : Ticket :=
  { id := List.replicate 8 1, version := 1, state := 4,
    offer := { capacity := 1000000, pushAmt := 5, leaseDuration := 2016, signPubKey := some gKey,
               sigOfferDigest := some ⟨5, 9⟩, auto := true, unannounced := true },
    recipient := some { nodePubKey := some gKey, multiSigKeyIndex := 7 },
    order := some { bidNonce := List.replicate 32 3, sigOrderDigest := some ⟨1, 1⟩ },
    execution := some { pendingChannelID := List.replicate 32 9 } }

/-- a well-formed ticket with recipient, order, execution and both signatures exists (non-vacuity) -/
theorem exampleTicket_wf : exampleTicket.wf := by
  unfold Ticket.wf
  refine ⟨by decide, by decide, by decide, ?_, ?_, ?_, ?_⟩
  · unfold Offer.wf
    refine ⟨by decide, by decide, by decide, ?_, ?_⟩
    · intro k hk; injection hk with hk; subst hk; exact gKey_wf
    · intro g hg; injection hg with hg; subst hg; decide
  · intro r hr; injection hr with hr; subst hr
    unfold Recipient.wf
    refine ⟨by decide, ?_, ?_⟩
    · intro k hk; injection hk with hk; subst hk; exact gKey_wf
    · intro k hk; cases hk
  · intro o ho; injection ho with ho; subst ho
    unfold Order.wf
    refine ⟨by decide, ?_⟩
    intro g hg; injection hg with hg; subst hg; decide
  · intro e he; injection he with he; subst he
    unfold Execution.wf; decide

example : ∃ b, serializeTicket exampleTicket = .ok b ∧
    deserializeTicket { p2pTop := true, p2pSub := true, maxAlloc := 65535 } b = .ok exampleTicket :=
  C15_ticket_roundtrip _ (by decide) _ exampleTicket_wf

/-- **base58_roundtrip** -/
theorem C15_base58_roundtrip (m : Nat) (b : Bytes) (hm : b.length ≤ m) : b58Decode m (b58Encode b) = .ok b :=
  b58_roundtrip m b hm

example : b58Decode 10 (b58Encode [0, 0, 1, 2, 3]) = .ok [0, 0, 1, 2, 3] := C15_base58_roundtrip 10 _ (by decide)

theorem payload_split (v : UInt8) (ser c : Bytes) (hc : c.length = 4) :
    payloadOf (v :: (ser ++ c)) = ser ∧ checksumOf (v :: (ser ++ c)) = c := by
  unfold payloadOf checksumOf
  have hl : (v :: (ser ++ c)).length - 4 = ser.length + 1 := by simp; omega
  rw [hl]
  constructor
  · rw [List.take_succ_cons, take_append_len ser c ser.length rfl]; rfl
  · rw [List.drop_succ_cons, drop_append_len ser c ser.length rfl]

theorem ticket_enc_length (cfg : Cfg) (t : Ticket) (h : t.wf) (_hm : 1000 ≤ cfg.maxAlloc) :
    (encAligned (ticketRecs cfg) (ticketVals t)).length ≤ 5000 := by
  have := encAligned_length_le (ticketRecs cfg) (ticketVals t)
  obtain ⟨hid, _, _, hoff, hr, ho, he⟩ := h
  have h1 := (offer_rt cfg t.offer hoff).2
  obtain ⟨id, ver, st, off, rcp, ord, exe⟩ := t
  simp only at hid h1 hr ho he
  cases rcp with
  | none =>
    cases ord with
    | none =>
      cases exe with
      | none => simp only [ticketVals, Option.map, boundAligned, hid, List.length_cons, List.length_nil] at this ⊢; omega
      | some e =>
        have := (execution_rt cfg e (he e rfl)).2
        simp only [ticketVals, Option.map, boundAligned, hid, List.length_cons, List.length_nil] at *; omega
    | some o =>
      have := (order_rt cfg o (ho o rfl)).2
      cases exe with
      | none => simp only [ticketVals, Option.map, boundAligned, hid, List.length_cons, List.length_nil] at *; omega
      | some e =>
        have := (execution_rt cfg e (he e rfl)).2
        simp only [ticketVals, Option.map, boundAligned, hid, List.length_cons, List.length_nil] at *; omega
  | some r =>
    have := (recipient_rt cfg r (hr r rfl)).2
    cases ord with
    | none =>
      cases exe with
      | none => simp only [ticketVals, Option.map, boundAligned, hid, List.length_cons, List.length_nil] at *; omega
      | some e =>
        have := (execution_rt cfg e (he e rfl)).2
        simp only [ticketVals, Option.map, boundAligned, hid, List.length_cons, List.length_nil] at *; omega
    | some o =>
      have := (order_rt cfg o (ho o rfl)).2
      cases exe with
      | none => simp only [ticketVals, Option.map, boundAligned, hid, List.length_cons, List.length_nil] at *; omega
      | some e =>
        have := (execution_rt cfg e (he e rfl)).2
        simp only [ticketVals, Option.map, boundAligned, hid, List.length_cons, List.length_nil] at *; omega

/-- **string_roundtrip**: `DecodeString (EncodeToString t) = t` for every well-formed ticket, for any
hash function `H` with at least 4 output bytes. -/
theorem C15_string_roundtrip (H : Bytes → Bytes) (hH : ∀ x, 4 ≤ (H x).length) (cfg : Cfg)
    (hm : 65535 ≤ cfg.maxAlloc) (t : Ticket) (h : t.wf) :
    ∃ s, encodeToString H t = .ok s ∧ decodeString H cfg s = .ok t := by
  have hm' : 1000 ≤ cfg.maxAlloc := by omega
  obtain ⟨hser, hdes⟩ := ticket_roundtrip cfg hm' t h
  let ser := encAligned (ticketRecs cfg) (ticketVals t)
  let c := (H (checksumInput ser)).take 4
  have hc : c.length = 4 := by simp [c]; have := hH (checksumInput ser); omega
  refine ⟨prefixBytes ++ b58Encode ((0 : UInt8) :: (ser ++ c)), ?_, ?_⟩
  · unfold encodeToString
    rw [hser]
    simp only
    rw [slice_ok _ 0 Pool.Gen.C15.checksumLen ⟨by omega, by have := hH (checksumInput ser); exact this⟩]
    rfl
  · rw [C15_accept_characterisation H hH cfg _ t]
    have hp : prefixBytes.length = 7 := prefix_len
    refine ⟨by simp only [List.length_append]; omega, take_append_len _ _ 7 hp, (0 : UInt8) :: (ser ++ c), ?_, ?_, ?_, ?_⟩
    · rw [drop_append_len _ _ 7 hp]
      apply C15_base58_roundtrip
      have hlen : ser.length ≤ 5000 := ticket_enc_length cfg t h hm'
      simp only [List.length_cons, List.length_append, hc]
      omega
    · simp only [List.length_cons, List.length_append, hc]; omega
    · rw [(payload_split 0 ser c hc).1, (payload_split 0 ser c hc).2]; rfl
    · rw [(payload_split 0 ser c hc).1]; exact hdes

/-! ## embedded in a stored bid

The trader database model of property C10 (`Pool.C10`, tag store) keeps the ticket of a bid as its
serialised bytes, decodes them with THIS model (`Pool.C10.readTicket` = `deserializeTicket (repoCfg …)` then
`serializeTicket`) when the order is loaded, and asks in `Order.WF` that the blob be canonical
(`ticketCanonical`).  `ticket_roundtrip` discharges exactly that for the serialisation of any well-formed
ticket, so the whole order bucket reads back as written (`Pool.C10.order_roundtrip`): -/

/-- **embedded_in_bid_roundtrip**: store any well-formed bid carrying the serialisation of a well-formed
ticket (clientdb `SubmitOrder` / `updateOrder`: keys `order`, `order-min-units-match`, `order-tlv`,
`order-tier`), load it (`GetOrder`): the bid comes back with exactly that blob, and the blob
deserialises to the same ticket. -/
theorem C15_embedded_in_bid_roundtrip (t : Ticket) (h : t.wf)
    (k : Pool.C10.Kit) (tier scb : Nat) (u z : Bool)
    (hk : k.WF) (ht : Pool.C10.WFu32 tier) (hs : Pool.C10.WFu64 scb) :
    ∃ blob, serializeTicket t = .ok blob ∧
      Pool.C10.loadOrder k.nonce (Pool.C10.storeOrder (.bid k tier scb (some blob) u z))
        = .ok (.bid k tier scb (some blob) u z) [] ∧
      deserializeTicket (repoCfg Pool.C10.maxAlloc) blob = .ok t := by
  have hm : 1000 ≤ (repoCfg Pool.C10.maxAlloc).maxAlloc := by
    simp [repoCfg, Pool.C10.maxAlloc]
  obtain ⟨hser, hdes⟩ := ticket_roundtrip (repoCfg Pool.C10.maxAlloc) hm t h
  refine ⟨_, hser, ?_, hdes⟩
  have hlen := ticket_enc_length (repoCfg Pool.C10.maxAlloc) t h hm
  have hwf : (Pool.C10.Order.bid k tier scb
      (some (encAligned (ticketRecs (repoCfg Pool.C10.maxAlloc)) (ticketVals t))) u z).WF := by
    refine ⟨hk, ht, hs, ?_⟩
    refine ⟨by omega, ?_⟩
    -- the blob is canonical: it decodes to `t`, and `t` serialises to the blob again
    simp [Pool.C10.ticketCanonical, Pool.C10.readTicket, hdes, hser]
  exact Pool.C10.order_roundtrip _ hwf

/-! ## the ticket store (clientdb/sidecar.go)

`AddSidecar` / `UpdateSidecar` write `SerializeTicket(ticket)` under `id ‖ offer key`; `Sidecar`,
`SidecarsByID`, `Sidecars` read with `DeserializeTicket`. -/

/-- **Read after write**: whatever was stored under the key before – a ticket with more parts, fewer parts,
another state – after a successful `UpdateSidecar t` (or `AddSidecar t`) of a well-formed ticket,
`Sidecar(t.ID, t.Offer.SignPubKey)` returns exactly `t`; every other key is untouched. -/
theorem C15_store_read_after_write (cfg : Cfg) (hm : 1000 ≤ cfg.maxAlloc) (b b' : SBucket) (t : Ticket) (h : t.wf)
    (k : Bytes) (hk : t.offer.signPubKey = some k)
    (hw : updateSidecar b t = .ok b' ∨ addSidecar b t = .ok b') :
    sidecarGet cfg b' t.id (some k) = .ok t ∧ ∀ key', key' ≠ t.id ++ k → b'.get key' = b.get key' := by
  obtain ⟨hser, hdes⟩ := ticket_roundtrip cfg hm t h
  have hb' : b' = b.put (t.id ++ k) (encAligned (ticketRecs cfg) (ticketVals t)) := by
    rcases hw with hw | hw
    · unfold updateSidecar at hw
      rw [hk] at hw
      simp only [getSidecarKey] at hw
      split at hw
      · split at hw
        · cases hw
        · unfold storeSidecar at hw; rw [hser] at hw; injection hw with hw; exact hw.symm
      · cases hw
    · unfold addSidecar at hw
      rw [hk] at hw
      simp only [getSidecarKey] at hw
      split at hw
      · split at hw
        · cases hw
        · unfold storeSidecar at hw; rw [hser] at hw; injection hw with hw; exact hw.symm
      · unfold storeSidecar at hw; rw [hser] at hw; injection hw with hw; exact hw.symm
  subst hb'
  constructor
  · simp only [sidecarGet, getSidecarKey, readSidecar, SBucket.get_put_same, hdes]
  · intro key' hne; exact SBucket.get_put_other _ _ _ _ hne

/-- `AddSidecarWithBid`: what is read back is the ticket with its order part replaced by the bid's nonce (and a
later `UpdateSidecar` – also one into a terminal state, which first drops the bid template – is covered by
`C15_store_read_after_write`: the stored value is the ticket given, nothing else). -/
theorem C15_store_add_with_bid (cfg : Cfg) (hm : 1000 ≤ cfg.maxAlloc) (b b' : SBucket) (t : Ticket) (h : t.wf)
    (k : Bytes) (hk : t.offer.signPubKey = some k) (n : Bytes) (hn : n.length = 32)
    (hw : addSidecarWithBid b t n = .ok b') :
    sidecarGet cfg b' t.id (some k) = .ok { t with order := some { bidNonce := n, sigOrderDigest := none } } := by
  have hwf : ({ t with order := some { bidNonce := n, sigOrderDigest := none } } : Ticket).wf := by
    obtain ⟨h1, h2, h3, h4, h5, _, h7⟩ := h
    refine ⟨h1, h2, h3, h4, h5, ?_, h7⟩
    intro o ho
    injection ho with ho
    subst ho
    exact ⟨hn, by intro g hg; cases hg⟩
  exact (C15_store_read_after_write cfg hm b b' _ hwf k hk (Or.inr hw)).1

/-- an update needs a stored ticket; an add refuses an occupied key -/
theorem C15_store_update_needs_entry (b : SBucket) (t : Ticket) (k : Bytes) (hk : t.offer.signPubKey = some k)
    (hn : b.get (t.id ++ k) = none) : ∃ r, updateSidecar b t = r ∧ (∀ b', r ≠ .ok b') := by
  refine ⟨_, rfl, ?_⟩
  intro b' h
  unfold updateSidecar at h
  rw [hk] at h
  simp only [getSidecarKey, hn] at h
  cases h

/-- non-vacuity: updating a stored entry with the fully populated example ticket succeeds -/
example : updateSidecar [(exampleTicket.id ++ gKey, [1])] exampleTicket =
    .ok [(exampleTicket.id ++ gKey,
          encAligned (ticketRecs { p2pTop := true, p2pSub := true, maxAlloc := 65535 }) (ticketVals exampleTicket))] := by
  have hser := (ticket_roundtrip { p2pTop := true, p2pSub := true, maxAlloc := 65535 } (by decide)
    exampleTicket exampleTicket_wf).1
  unfold updateSidecar storeSidecar
  rw [hser]
  rfl

/-! ## the property in full -/

/-- C15's round-trip and rejection clauses for the binary and the string form (the bid embedding is
`C15_embedded_in_bid_roundtrip` above). -/
def C15_full_statement : Prop :=
  (∀ (cfg : Cfg) t, Ticket.wf t → 1000 ≤ cfg.maxAlloc → ∃ b, serializeTicket t = .ok b ∧ deserializeTicket cfg b = .ok t) ∧
  (∀ m b, b.length ≤ m → b58Decode m (b58Encode b) = .ok b) ∧
  (∀ (H : Bytes → Bytes) (cfg : Cfg) t, (∀ x, 4 ≤ (H x).length) → Ticket.wf t → 65535 ≤ cfg.maxAlloc →
      ∃ s, encodeToString H t = .ok s ∧ decodeString H cfg s = .ok t) ∧
  (∀ (H : Bytes → Bytes) (cfg : Cfg) s t, (∀ x, 4 ≤ (H x).length) → s.take 7 ≠ prefixBytes → decodeString H cfg s ≠ .ok t)

theorem C15_full : C15_full_statement :=
  ⟨fun cfg t h hm => C15_ticket_roundtrip cfg hm t h, C15_base58_roundtrip,
   fun H cfg t hH h hm => C15_string_roundtrip H hH cfg hm t h,
   fun H cfg s t hH hp => C15_wrong_prefix_rejected H hH cfg s hp t⟩

end Pool.C15
