import PoolModel.Dec.Ticket
namespace Pool.C15
theorem C15_placeholder : (1 : Nat) = 1 := rfl
end Pool.C15
