//go:build verif

package clientdb

import (
	"bytes"

	"github.com/lightninglabs/pool/order"
)

// VerifC15BidTlvRoundTrip writes the additional (tlv) data of a bid the way it is
// stored with the order and reads it back into a fresh bid.
func VerifC15BidTlvRoundTrip(bid *order.Bid) (*order.Bid, []byte, error) {
	var buf bytes.Buffer
	if err := serializeOrderTlvData(&buf, bid); err != nil {
		return nil, nil, err
	}
	stored := append([]byte(nil), buf.Bytes()...)
	out := &order.Bid{}
	if err := deserializeOrderTlvData(bytes.NewReader(stored), out); err != nil {
		return nil, stored, err
	}
	return out, stored, nil
}
