//go:build verif

package clientdb

import (
	"bytes"
	"fmt"

	"github.com/lightninglabs/pool/account"
	"github.com/lightninglabs/pool/order"
	"go.etcd.io/bbolt"
)

// VerifC05PendingAccount reads the STAGED version of an account straight from
// the pending-accounts bucket of the committed database (not from the batch
// snapshot, which is built from the in-memory structs). Used by the C05
// harness only.
func (db *DB) VerifC05PendingAccount(key []byte) (*account.Account, error) {
	var a *account.Account
	err := db.View(func(tx *bbolt.Tx) error {
		bucket, err := getBucket(tx, batchBucketKey)
		if err != nil {
			return err
		}
		pending, err := getNestedBucket(bucket, pendingBatchAccountsBucketKey, false)
		if err != nil {
			return err
		}
		a, err = readAccount(pending, key)
		return err
	})
	return a, err
}

// VerifC05PendingOrder reads the STAGED version of an order from the
// pending-orders bucket of the committed database.
func (db *DB) VerifC05PendingOrder(nonce order.Nonce) (order.Order, error) {
	var o order.Order
	err := db.View(func(tx *bbolt.Tx) error {
		bucket, err := getBucket(tx, batchBucketKey)
		if err != nil {
			return err
		}
		pending, err := getNestedBucket(bucket, pendingBatchOrdersBucketKey, false)
		if err != nil {
			return err
		}
		return fetchOrderTX(pending, nonce, func(nonce order.Nonce, raw []byte,
			extra *extraOrderData) error {

			var err error
			o, err = DeserializeOrder(nonce, bytes.NewReader(raw))
			if err != nil {
				return err
			}
			if err := deserializeOrderTlvData(bytes.NewReader(extra.tlvData), o); err != nil {
				return err
			}
			o.Details().MinUnitsMatch = extra.minUnitsMatch
			return nil
		})
	})
	if err == nil && o == nil {
		err = fmt.Errorf("staged order not found")
	}
	return o, err
}
