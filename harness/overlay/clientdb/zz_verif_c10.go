//go:build verif

package clientdb

import (
	"bytes"
	"io"

	"github.com/lightninglabs/pool/account"
	"github.com/lightninglabs/pool/order"
	"go.etcd.io/bbolt"
)

// Export shim for the verification harness (never compiled without the
// `verif` build tag, never copied into the repository).

func VerifC10SerializeAccount(w *bytes.Buffer, a *account.Account) error {
	return serializeAccount(w, a)
}

func VerifC10DeserializeAccount(r io.Reader) (*account.Account, error) {
	return deserializeAccount(r)
}

func VerifC10SerializeOrderTlvData(w io.Writer, o order.Order) error {
	return serializeOrderTlvData(w, o)
}

func VerifC10DeserializeOrderTlvData(r io.Reader, o order.Order) error {
	return deserializeOrderTlvData(r, o)
}

func VerifC10SerializeLocalBatchSnapshot(w *bytes.Buffer, b *LocalBatchSnapshot) error {
	return serializeLocalBatchSnapshot(w, b)
}

func VerifC10DeserializeLocalBatchSnapshot(r io.Reader) (*LocalBatchSnapshot, error) {
	return deserializeLocalBatchSnapshot(r)
}

// VerifC10StorePendingBatchSnapshot writes the snapshot under the pending key in
// its own update transaction.
func (db *DB) VerifC10StorePendingBatchSnapshot(s *LocalBatchSnapshot) error {
	return db.Update(func(tx *bbolt.Tx) error {
		return storePendingBatchSnapshot(tx, s)
	})
}

// VerifC10FinalizeBatchSnapshot moves the pending snapshot to the sequence
// bucket under the given batch ID.
func (db *DB) VerifC10FinalizeBatchSnapshot(id order.BatchID) error {
	return db.Update(func(tx *bbolt.Tx) error {
		return finalizeBatchSnapshot(tx, id)
	})
}

// VerifC10RawAccount returns the raw bytes stored for an account key (nil if
// absent).
func (db *DB) VerifC10RawAccount(key []byte) []byte {
	var res []byte
	_ = db.View(func(tx *bbolt.Tx) error {
		b := tx.Bucket(accountBucketKey)
		if b == nil {
			return nil
		}
		if v := b.Get(key); v != nil {
			res = append([]byte{}, v...)
		}
		return nil
	})
	return res
}

// VerifC10RawOrder returns the four raw values of an order bucket (nil = key
// absent) and whether the bucket exists.
func (db *DB) VerifC10RawOrder(nonce order.Nonce) (base, minUnits, tlvData, tier []byte, ok bool) {
	_ = db.View(func(tx *bbolt.Tx) error {
		root := tx.Bucket(ordersBucketKey)
		if root == nil {
			return nil
		}
		base, minUnits, tlvData, tier, ok = verifC10RawOrderIn(root, nonce)
		return nil
	})
	return
}

func verifC10RawOrderIn(root *bbolt.Bucket, nonce order.Nonce) (base, minUnits, tlvData, tier []byte, ok bool) {
	ob := root.Bucket(nonce[:])
	if ob == nil {
		return
	}
	ok = true
	cp := func(v []byte) []byte {
		if v == nil {
			return nil
		}
		return append([]byte{}, v...)
	}
	base = cp(ob.Get(orderKey))
	minUnits = cp(ob.Get(orderMinUnitsMatchKey))
	tlvData = cp(ob.Get(orderTlvKey))
	tier = cp(ob.Get(orderTierKey))
	return
}

// VerifC10RawBidTemplate returns the raw values of a sidecar bid template.
func (db *DB) VerifC10RawBidTemplate(nonce order.Nonce) (base, minUnits, tlvData, tier []byte, ok bool) {
	_ = db.View(func(tx *bbolt.Tx) error {
		sc := tx.Bucket(sidecarsBucketKey)
		if sc == nil {
			return nil
		}
		bb := sc.Bucket(bidTemplateBucket)
		if bb == nil {
			return nil
		}
		base, minUnits, tlvData, tier, ok = verifC10RawOrderIn(bb, nonce)
		return nil
	})
	return
}

// VerifC10RawPendingSnapshot returns the raw pending snapshot bytes.
func (db *DB) VerifC10RawPendingSnapshot() []byte {
	var res []byte
	_ = db.View(func(tx *bbolt.Tx) error {
		b := tx.Bucket(batchSnapshotBucketKey)
		if b == nil {
			return nil
		}
		if v := b.Get(batchSnapshotPendingKey); v != nil {
			res = append([]byte{}, v...)
		}
		return nil
	})
	return res
}

// VerifC10RawSnapshot returns the raw finalized snapshot bytes of a batch ID.
func (db *DB) VerifC10RawSnapshot(id order.BatchID) []byte {
	var res []byte
	_ = db.View(func(tx *bbolt.Tx) error {
		top := tx.Bucket(batchSnapshotBucketKey)
		if top == nil {
			return nil
		}
		seqBucket := top.Bucket(batchSnapshotSeqBucketKey)
		indexBucket := top.Bucket(batchSnapshotBatchIDIndexBucketKey)
		if seqBucket == nil || indexBucket == nil {
			return nil
		}
		seq := indexBucket.Get(id[:])
		if seq == nil {
			return nil
		}
		sb := seqBucket.Bucket(seq)
		if sb == nil {
			return nil
		}
		if v := sb.Get(batchSnapshotBatchKey); v != nil {
			res = append([]byte{}, v...)
		}
		return nil
	})
	return res
}

// VerifC10RawPendingOrder returns the raw values of an order staged in the
// pending-batch orders bucket.
func (db *DB) VerifC10RawPendingOrder(nonce order.Nonce) (base, minUnits, tlvData, tier []byte, ok bool) {
	_ = db.View(func(tx *bbolt.Tx) error {
		bucket := tx.Bucket(batchBucketKey)
		if bucket == nil {
			return nil
		}
		pending := bucket.Bucket(pendingBatchOrdersBucketKey)
		if pending == nil {
			return nil
		}
		base, minUnits, tlvData, tier, ok = verifC10RawOrderIn(pending, nonce)
		return nil
	})
	return
}
