//go:build verif

package clientdb

import (
	"bytes"
	"io"

	"github.com/lightninglabs/pool/account"
	"github.com/lightninglabs/pool/order"
	"go.etcd.io/bbolt"
)

// Export shim for the verification harness (never compiled without the
// `verif` build tag, never copied into the repository).

func VerifSerializeAccount(w *bytes.Buffer, a *account.Account) error {
	return serializeAccount(w, a)
}

func VerifDeserializeAccount(r io.Reader) (*account.Account, error) {
	return deserializeAccount(r)
}

func VerifSerializeOrderTlvData(w io.Writer, o order.Order) error {
	return serializeOrderTlvData(w, o)
}

func VerifDeserializeOrderTlvData(r io.Reader, o order.Order) error {
	return deserializeOrderTlvData(r, o)
}

func VerifSerializeLocalBatchSnapshot(w *bytes.Buffer, b *LocalBatchSnapshot) error {
	return serializeLocalBatchSnapshot(w, b)
}

func VerifDeserializeLocalBatchSnapshot(r io.Reader) (*LocalBatchSnapshot, error) {
	return deserializeLocalBatchSnapshot(r)
}

// VerifStorePendingBatchSnapshot writes the snapshot under the pending key in
// its own update transaction.
func (db *DB) VerifStorePendingBatchSnapshot(s *LocalBatchSnapshot) error {
	return db.Update(func(tx *bbolt.Tx) error {
		return storePendingBatchSnapshot(tx, s)
	})
}

// VerifFinalizeBatchSnapshot moves the pending snapshot to the sequence
// bucket under the given batch ID.
func (db *DB) VerifFinalizeBatchSnapshot(id order.BatchID) error {
	return db.Update(func(tx *bbolt.Tx) error {
		return finalizeBatchSnapshot(tx, id)
	})
}

// VerifRawAccount returns the raw bytes stored for an account key (nil if
// absent).
func (db *DB) VerifRawAccount(key []byte) []byte {
	var res []byte
	_ = db.View(func(tx *bbolt.Tx) error {
		b, err := getBucket(tx, accountBucketKey)
		if err != nil {
			return err
		}
		if v := b.Get(key); v != nil {
			res = append([]byte{}, v...)
		}
		return nil
	})
	return res
}

// VerifRawOrder returns the four raw values of an order bucket (nil = key
// absent) and whether the bucket exists.
func (db *DB) VerifRawOrder(nonce order.Nonce) (base, minUnits, tlvData, tier []byte, ok bool) {
	_ = db.View(func(tx *bbolt.Tx) error {
		root, err := getBucket(tx, ordersBucketKey)
		if err != nil {
			return err
		}
		base, minUnits, tlvData, tier, ok = verifRawOrderIn(root, nonce)
		return nil
	})
	return
}

func verifRawOrderIn(root *bbolt.Bucket, nonce order.Nonce) (base, minUnits, tlvData, tier []byte, ok bool) {
	ob := root.Bucket(nonce[:])
	if ob == nil {
		return
	}
	ok = true
	cp := func(v []byte) []byte {
		if v == nil {
			return nil
		}
		return append([]byte{}, v...)
	}
	base = cp(ob.Get(orderKey))
	minUnits = cp(ob.Get(orderMinUnitsMatchKey))
	tlvData = cp(ob.Get(orderTlvKey))
	tier = cp(ob.Get(orderTierKey))
	return
}

// VerifRawBidTemplate returns the raw values of a sidecar bid template.
func (db *DB) VerifRawBidTemplate(nonce order.Nonce) (base, minUnits, tlvData, tier []byte, ok bool) {
	_ = db.View(func(tx *bbolt.Tx) error {
		sc, err := getBucket(tx, sidecarsBucketKey)
		if err != nil {
			return err
		}
		bb := sc.Bucket(bidTemplateBucket)
		if bb == nil {
			return nil
		}
		base, minUnits, tlvData, tier, ok = verifRawOrderIn(bb, nonce)
		return nil
	})
	return
}

// VerifRawPendingSnapshot returns the raw pending snapshot bytes.
func (db *DB) VerifRawPendingSnapshot() []byte {
	var res []byte
	_ = db.View(func(tx *bbolt.Tx) error {
		b, err := getBucket(tx, batchSnapshotBucketKey)
		if err != nil {
			return err
		}
		if v := b.Get(batchSnapshotPendingKey); v != nil {
			res = append([]byte{}, v...)
		}
		return nil
	})
	return res
}

// VerifRawSnapshot returns the raw finalized snapshot bytes of a batch ID.
func (db *DB) VerifRawSnapshot(id order.BatchID) []byte {
	var res []byte
	_ = db.View(func(tx *bbolt.Tx) error {
		_, seqBucket, indexBucket, err := getSnapshotBuckets(tx)
		if err != nil {
			return err
		}
		seq := indexBucket.Get(id[:])
		if seq == nil {
			return nil
		}
		sb := seqBucket.Bucket(seq)
		if sb == nil {
			return nil
		}
		if v := sb.Get(batchSnapshotBatchKey); v != nil {
			res = append([]byte{}, v...)
		}
		return nil
	})
	return res
}
