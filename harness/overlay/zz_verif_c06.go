//go:build verif

package pool

import (
	"github.com/lightninglabs/pool/account"
	"github.com/lightninglabs/pool/clientdb"
)

// VerifC06AccountStore wraps a trader database the way the daemon does for
// the account manager (accountStore: PendingBatch = PendingBatchSnapshot).
func VerifC06AccountStore(db *clientdb.DB) account.Store {
	return &accountStore{DB: db}
}
