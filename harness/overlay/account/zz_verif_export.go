//go:build verif

package account

import (
	"github.com/btcsuite/btcd/btcutil"
	"github.com/btcsuite/btcd/btcutil/psbt"
	"github.com/btcsuite/btcd/wire"
	"github.com/lightningnetwork/lnd/lnwallet/chainfee"
)

// Export shims for the /verif harness (compiled only with -tags verif through
// `go build -overlay`; nothing of this exists in /repo).

// VerifValueAfterAccountUpdate calls valueAfterAccountUpdate.
func VerifValueAfterAccountUpdate(value btcutil.Amount, outputs []*wire.TxOut,
	wt uint8, feeRate chainfee.SatPerKWeight) (btcutil.Amount, error) {

	return valueAfterAccountUpdate(
		&Account{Value: value}, outputs, witnessType(wt), feeRate,
	)
}

// VerifCloseOutputs calls FeeExpr.CloseOutputs.
func VerifCloseOutputs(f FeeExpr, value btcutil.Amount,
	wt uint8) ([]*wire.TxOut, error) {

	return f.CloseOutputs(value, witnessType(wt))
}

// VerifWitnessSize calls witnessType.witnessSize and IsExpirySpend.
func VerifWitnessSize(wt uint8) (int64, bool, error) {
	s, err := witnessType(wt).witnessSize()
	return int64(s), witnessType(wt).IsExpirySpend(), err
}

// VerifSanityCheck calls sanityCheckAccountSpendTx.
func VerifSanityCheck(a *Account, packet *psbt.Packet, wt uint8) error {
	return sanityCheckAccountSpendTx(a, packet, witnessType(wt))
}

// VerifValidateAccountExpiry calls validateAccountExpiry.
func VerifValidateAccountExpiry(expiry, best uint32) error {
	return validateAccountExpiry(expiry, best)
}

// VerifValidateAccountValue calls validateAccountValue.
func VerifValidateAccountValue(v, max btcutil.Amount) error {
	return validateAccountValue(v, max)
}

// VerifDetermineWitnessType calls determineWitnessType.
func VerifDetermineWitnessType(a *Account, best uint32) uint8 {
	return uint8(determineWitnessType(a, best))
}
