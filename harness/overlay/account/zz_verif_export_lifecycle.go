//go:build verif

package account

import "github.com/lightninglabs/pool/account/watcher"

// VerifLifecycleSetController replaces the watcher controller of a manager
// built by NewManager with the one mk returns for the manager's own event
// handlers. The C08/C20 harness uses it to interpose recorders between the
// real manager and the real watcher controller (handler completion signals,
// registration log); the handlers passed to mk are the real manager.
func VerifLifecycleSetController(m Manager,
	mk func(h watcher.EventHandler) watcher.Controller) {

	mm := m.(*manager)
	mm.watcherCtrl = mk(mm)
}
