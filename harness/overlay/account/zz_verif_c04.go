//go:build verif

package account

import "fmt"

// VerifC04DetermineWitnessType exposes determineWitnessType and the witnessType
// helpers to the verification harness.
func VerifC04DetermineWitnessType(version Version, state State, expiry,
	bestHeight uint32) (string, bool, int) {

	wt := determineWitnessType(&Account{
		Version: version, State: state, Expiry: expiry,
	}, bestHeight)
	name := fmt.Sprintf("bad-%d", wt)
	switch wt {
	case expiryWitness:
		name = "expiryWitness"
	case multiSigWitness:
		name = "multiSigWitness"
	case expiryTaproot:
		name = "expiryTaproot"
	case muSig2Taproot:
		name = "muSig2Taproot"
	}
	size, err := wt.witnessSize()
	if err != nil {
		size = 0
	}
	return name, wt.IsExpirySpend(), int(size)
}
