//go:build verif

package account

import (
	"github.com/btcsuite/btcd/btcutil"
	"github.com/btcsuite/btcd/btcutil/psbt"
	"github.com/btcsuite/btcd/wire"
	"github.com/lightningnetwork/lnd/lnwallet/chainfee"
)

// Export shims for the /verif harness (compiled only with -tags verif through
// `go build -overlay`; nothing of this exists in /repo).

// VerifC07ValueAfterAccountUpdate calls valueAfterAccountUpdate.
func VerifC07ValueAfterAccountUpdate(value btcutil.Amount, outputs []*wire.TxOut,
	wt uint8, feeRate chainfee.SatPerKWeight) (btcutil.Amount, error) {

	return valueAfterAccountUpdate(
		&Account{Value: value}, outputs, witnessType(wt), feeRate,
	)
}

// VerifC07CloseOutputs calls FeeExpr.CloseOutputs.
func VerifC07CloseOutputs(f FeeExpr, value btcutil.Amount,
	wt uint8) ([]*wire.TxOut, error) {

	return f.CloseOutputs(value, witnessType(wt))
}

// VerifC07WitnessSize calls witnessType.witnessSize and IsExpirySpend.
func VerifC07WitnessSize(wt uint8) (int64, bool, error) {
	s, err := witnessType(wt).witnessSize()
	return int64(s), witnessType(wt).IsExpirySpend(), err
}

// VerifC07SanityCheck calls sanityCheckAccountSpendTx.
func VerifC07SanityCheck(a *Account, packet *psbt.Packet, wt uint8) error {
	return sanityCheckAccountSpendTx(a, packet, witnessType(wt))
}

// VerifC07ValidateAccountExpiry calls validateAccountExpiry.
func VerifC07ValidateAccountExpiry(expiry, best uint32) error {
	return validateAccountExpiry(expiry, best)
}

// VerifC07ValidateAccountValue calls validateAccountValue.
func VerifC07ValidateAccountValue(v, max btcutil.Amount) error {
	return validateAccountValue(v, max)
}

// VerifC07DetermineWitnessType calls determineWitnessType.
func VerifC07DetermineWitnessType(a *Account, best uint32) uint8 {
	return uint8(determineWitnessType(a, best))
}
