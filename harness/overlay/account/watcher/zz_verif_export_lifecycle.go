//go:build verif

package watcher

import "github.com/btcsuite/btcd/btcec/v2"

// VerifLifecycleBest returns the expiry watcher's best height. NewBlock holds
// the same mutex for its whole body, so once the new height is visible here
// every expiry hand-off of that block has completed.
func VerifLifecycleBest(c Controller) uint32 {
	w := c.(*controller).watcher.(*expiryWatcher)
	w.expirationsMtx.Lock()
	defer w.expirationsMtx.Unlock()
	return w.bestHeight
}

// VerifLifecycleExpiry returns the expiry height tracked for the account.
func VerifLifecycleExpiry(c Controller, k *btcec.PublicKey) (uint32, bool) {
	w := c.(*controller).watcher.(*expiryWatcher)
	w.expirationsMtx.Lock()
	defer w.expirationsMtx.Unlock()
	var key [33]byte
	copy(key[:], k.SerializeCompressed())
	e, ok := w.expirations[key]
	if !ok {
		return 0, false
	}
	// tracked means: NewBlock(e) will hand the account to the expiry handler, i.e.
	// the account is (still) in the per-height request list of that height
	for _, tk := range w.expirationsPerHeight[e] {
		if tk != nil && tk.IsEqual(k) {
			return e, true
		}
	}
	return e, false
}

// VerifLifecycleHasCancel reports whether the controller holds a cancel handle
// of the given kind for the account.
func VerifLifecycleHasCancel(c Controller, k *btcec.PublicKey, conf bool) bool {
	ctl := c.(*controller)
	var key [33]byte
	copy(key[:], k.SerializeCompressed())
	ctl.cancelMtx.Lock()
	defer ctl.cancelMtx.Unlock()
	if conf {
		_, ok := ctl.confCancels[key]
		return ok
	}
	_, ok := ctl.spendCancels[key]
	return ok
}
