//go:build verif

package pool

import (
	"time"

	"github.com/btcsuite/btclog/v2"
	"github.com/lightninglabs/pool/auctioneer"
)

// This file is compiled into package pool only through `go build -overlay
// -tags verif` by /verif; it changes no behaviour.

// VerifC18UseRPCLogger replaces the logger of the RPC server subsystem (the
// only way to observe what serverHandler did with a stream error).
func VerifC18UseRPCLogger(l btclog.Logger) { rpcLog = l }

// VerifC18ServerHandler runs the REAL rpcServer.serverHandler event loop on
// top of the given auctioneer client (only its FromServerChan / StreamErrChan
// cases can fire: no block notifications are delivered and the scripted
// auctioneer sends no batch messages). `started` is called on the handler's
// goroutine before the loop starts. The returned function stops the loop and
// reports whether it ended within the timeout.
func VerifC18ServerHandler(client *auctioneer.Client,
	started func()) func(time.Duration) bool {

	s := &rpcServer{
		auctioneer: client,
		quit:       make(chan struct{}),
	}
	s.wg.Add(1)
	go func() {
		if started != nil {
			started()
		}
		s.serverHandler(make(chan int32), make(chan error))
	}()
	return func(timeout time.Duration) bool {
		close(s.quit)
		done := make(chan struct{})
		go func() { s.wg.Wait(); close(done) }()
		select {
		case <-done:
			return true
		case <-time.After(timeout):
			return false
		}
	}
}
