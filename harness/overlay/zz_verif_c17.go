//go:build verif

package pool

import (
	"context"

	"github.com/lightninglabs/lndclient"
	"github.com/lightninglabs/pool/order"
	"github.com/lightninglabs/pool/sidecar"
)

// VerifC17Accept calls the unexported acceptChannel callback of the real
// ChannelAcceptor.
func (s *ChannelAcceptor) VerifC17Accept(
	req *lndclient.AcceptorRequest) (*lndclient.AcceptorResponse, error) {

	return s.acceptChannel(context.Background(), req)
}

// VerifC17Expected returns the number of pending channel IDs the acceptor
// currently has an expectation for.
func (s *ChannelAcceptor) VerifC17Expected() int {
	s.expectedChansMtx.Lock()
	defer s.expectedChansMtx.Unlock()

	return len(s.expectedChans)
}

// VerifC17SidecarAsOrder runs the real SidecarAcceptor.getSidecarAsOrder on
// the given set of pending sidecar tickets.
func VerifC17SidecarAsOrder(pending map[order.Nonce]*sidecar.Ticket,
	o order.Nonce) (order.Order, error) {

	a := &SidecarAcceptor{pendingSidecarOrders: pending}
	return a.getSidecarAsOrder(o)
}
