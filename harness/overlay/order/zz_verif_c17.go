//go:build verif

package order

import (
	"context"

	"github.com/lightninglabs/lndclient"
	"github.com/lightninglabs/pool/account"
	"github.com/lightninglabs/pool/sidecar"
)

// VerifC17SidecarGate runs the real validateAndSignTicketForOrder, the check
// a sidecar bid has to pass before it is signed into the ticket and submitted
// to the auctioneer.
func VerifC17SidecarGate(signer lndclient.SignerClient, t *sidecar.Ticket,
	bid *Bid, acct *account.Account) error {

	m := &manager{cfg: ManagerConfig{Signer: signer}}
	return m.validateAndSignTicketForOrder(
		context.Background(), t, bid, acct,
	)
}
