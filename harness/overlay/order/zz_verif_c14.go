//go:build verif

package order

import (
	"context"

	"github.com/lightninglabs/pool/account"
	"github.com/lightninglabs/pool/sidecar"
)

// VerifC14ValidateAndSignTicket exposes the unexported
// manager.validateAndSignTicketForOrder to the verification harness (C14).
func VerifC14ValidateAndSignTicket(ctx context.Context, cfg *ManagerConfig,
	t *sidecar.Ticket, bid *Bid, acct *account.Account) error {

	return NewManager(cfg).validateAndSignTicketForOrder(ctx, t, bid, acct)
}
