//go:build verif

package order

import (
	"context"

	"github.com/lightninglabs/pool/account"
	"github.com/lightninglabs/pool/sidecar"
)

// VerifDigestValidateAndSignTicket exposes the unexported
// manager.validateAndSignTicketForOrder to the verification harness (C14).
func VerifDigestValidateAndSignTicket(ctx context.Context, cfg *ManagerConfig,
	t *sidecar.Ticket, bid *Bid, acct *account.Account) error {

	return NewManager(cfg).validateAndSignTicketForOrder(ctx, t, bid, acct)
}
