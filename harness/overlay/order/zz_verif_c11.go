//go:build verif

package order

import (
	"github.com/lightninglabs/pool/account"
	"github.com/lightninglabs/pool/terms"
)

// VerifC11ValidateOrder exposes manager.validateOrder of a manager created
// with NewManager (verification harness only; injected through -overlay).
func VerifC11ValidateOrder(m Manager, o Order, acct *account.Account,
	t *terms.AuctioneerTerms) error {

	return m.(*manager).validateOrder(o, acct, t)
}

// VerifC11MatchTally runs the real batchVerifier.validateMatchedOrder for one
// matched order pair and thereby updates the tally exactly as Verify does.
func VerifC11MatchTally(tally *AccountTally, ours Order, other *MatchedOrder,
	fs terms.FeeSchedule, clearingPrice FixedRatePremium) error {

	v := &batchVerifier{}
	return v.validateMatchedOrder(tally, ours, other, fs, clearingPrice)
}
