//go:build verif

package order

// VerifC01HeightHintPadding exposes the unexported window constant to the
// verification harness (compiled only with -tags verif through -overlay).
const VerifC01HeightHintPadding = heightHintPadding
