//go:build verif

package order

import (
	"github.com/btcsuite/btcd/btcec/v2"
	"github.com/lightninglabs/pool/account"
)

// VerifLifecycleBatchStorer builds the real batchStorer over the given stores.
func VerifLifecycleBatchStorer(store Store,
	get func(*btcec.PublicKey) (*account.Account, error)) BatchStorer {

	return &batchStorer{orderStore: store, getAccount: get}
}
