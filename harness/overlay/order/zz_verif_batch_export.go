//go:build verif

package order

// VerifHeightHintPadding exposes the unexported window constant to the
// verification harness (compiled only with -tags verif through -overlay).
const VerifHeightHintPadding = heightHintPadding
