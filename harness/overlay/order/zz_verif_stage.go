//go:build verif

package order

import (
	"github.com/btcsuite/btcd/btcec/v2"
	"github.com/lightninglabs/pool/account"
)

// VerifStageNewBatchStorer builds the real, unexported batchStorer the order
// manager uses, on top of the given store and account getter.
func VerifStageNewBatchStorer(store Store,
	getAccount func(*btcec.PublicKey) (*account.Account, error)) BatchStorer {

	return &batchStorer{orderStore: store, getAccount: getAccount}
}
