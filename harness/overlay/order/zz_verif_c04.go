//go:build verif

package order

import (
	"github.com/btcsuite/btcd/btcec/v2"
	"github.com/lightninglabs/lndclient"
	"github.com/lightninglabs/pool/account"
)

// VerifC04NewBatchSigner exposes the unexported batchSigner to the verification
// harness (compiled only with -tags verif through the build overlay).
func VerifC04NewBatchSigner(getAccount func(*btcec.PublicKey) (*account.Account, error),
	signer lndclient.SignerClient) BatchSigner {

	return &batchSigner{getAccount: getAccount, signer: signer}
}
