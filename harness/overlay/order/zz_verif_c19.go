//go:build verif

package order

import "net"

// VerifC19ParseOnionAddr exposes parseOnionAddr to the verification harness (used
// only to measure the address oracle bit, not through the parsers under test).
func VerifC19ParseOnionAddr(addr string) (net.Addr, error) {
	return parseOnionAddr(addr)
}
