//go:build verif

package order

import "net"

// VerifParseOnionAddr exposes parseOnionAddr to the verification harness (used
// only to measure the address oracle bit, not through the parsers under test).
func VerifParseOnionAddr(addr string) (net.Addr, error) {
	return parseOnionAddr(addr)
}
