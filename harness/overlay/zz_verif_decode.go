//go:build verif

package pool

import (
	"github.com/lightninglabs/pool/auctioneer"
	"github.com/lightninglabs/pool/auctioneerrpc"
	"github.com/lightninglabs/pool/order"
)

// verifOrderMgr is an order.Manager of which only the pending-batch accessors
// are usable.
type verifOrderMgr struct {
	order.Manager
	pending *order.Batch
}

func (m *verifOrderMgr) HasPendingBatch() bool      { return m.pending != nil }
func (m *verifOrderMgr) PendingBatch() *order.Batch { return m.pending }

// VerifRPCServerHandle runs the real rpcServer.handleServerMessage on a server
// that has only an auctioneer client and a pending batch (possibly nil).
func VerifRPCServerHandle(client *auctioneer.Client, pending *order.Batch,
	msg *auctioneerrpc.ServerAuctionMessage) error {

	s := &rpcServer{
		auctioneer:   client,
		orderManager: &verifOrderMgr{pending: pending},
	}
	return s.handleServerMessage(msg)
}

// VerifAcceptorHandle runs the real SidecarAcceptor.handleServerMessage on an
// acceptor that has only an auctioneer client and a pending batch (possibly
// nil).
func VerifAcceptorHandle(client *auctioneer.Client, pending *order.Batch,
	msg *auctioneerrpc.ServerAuctionMessage) error {

	a := &SidecarAcceptor{client: client, pendingBatch: pending}
	return a.handleServerMessage(msg)
}
