//go:build verif

package pool

import (
	"github.com/lightninglabs/pool/auctioneer"
	"github.com/lightninglabs/pool/auctioneerrpc"
	"github.com/lightninglabs/pool/clientdb"
	"github.com/lightninglabs/pool/funding"
	"github.com/lightninglabs/pool/order"
)

// VerifC05Handler exposes rpcServer.handleServerMessage on an rpcServer that
// is wired to the given (real) database, funding manager, order manager and
// auctioneer client. Used by the C05 harness only.
type VerifC05Handler struct {
	s *rpcServer
}

func VerifC05NewHandler(db *clientdb.DB, fm *funding.Manager,
	om order.Manager, ac *auctioneer.Client) *VerifC05Handler {

	return &VerifC05Handler{s: &rpcServer{
		server:       &Server{db: db, fundingManager: fm},
		auctioneer:   ac,
		orderManager: om,
		quit:         make(chan struct{}),
	}}
}

// Handle runs the real handleServerMessage.
func (h *VerifC05Handler) Handle(msg *auctioneerrpc.ServerAuctionMessage) error {
	return h.s.handleServerMessage(msg)
}
