//go:build verif

package pool

import (
	"context"

	"github.com/btcsuite/btcd/chaincfg"
	"github.com/lightninglabs/lndclient"
	"github.com/lightninglabs/pool/account"
	"github.com/lightninglabs/pool/auctioneer"
	"github.com/lightninglabs/pool/poolrpc"
)

// VerifC20RecoverAccounts runs the real rpcServer.RecoverAccounts
// (server-assisted path: key generation, Client.RecoverAccounts sweep, the
// RecoverAccount loop and AdvanceAccountDerivationIndex) on an rpcServer wired
// to the given real account manager, real auctioneer client and wallet. Used by
// the C20 harness only.
func VerifC20RecoverAccounts(ctx context.Context, mgr account.Manager,
	ac *auctioneer.Client, wallet lndclient.WalletKitClient,
	params *chaincfg.Params, target uint32) (uint32, error) {

	s := &rpcServer{
		accountManager: mgr,
		auctioneer:     ac,
		lndServices: &lndclient.LndServices{
			WalletKit: wallet, ChainParams: params,
		},
	}
	resp, err := s.RecoverAccounts(ctx, &poolrpc.RecoverAccountsRequest{
		AccountTarget: target,
	})
	if err != nil {
		return 0, err
	}
	return resp.NumRecoveredAccounts, nil
}
