//go:build verif

package pool

import (
	"context"
	"time"

	"github.com/lightninglabs/lndclient"
	"github.com/lightninglabs/pool/account"
	"github.com/lightninglabs/pool/order"
	"github.com/lightninglabs/pool/sidecar"
)

// Exports for the C16 verification harness (compiled only with -tags verif
// through `go build -overlay`; never part of the repository).

// VerifStepProvider calls the unexported stateStepProvider.
func (a *SidecarNegotiator) VerifStepProvider(ctx context.Context,
	pkt *SidecarPacket, bid *order.Bid,
	acct *account.Account) (*SidecarPacket, error) {

	return a.stateStepProvider(ctx, pkt, bid, acct)
}

// VerifStepRecipient calls the unexported stateStepRecipient.
func (a *SidecarNegotiator) VerifStepRecipient(ctx context.Context,
	pkt *SidecarPacket) (*SidecarPacket, error) {

	return a.stateStepRecipient(ctx, pkt)
}

// VerifTakeFinalization receives the hand-off of a spawned TicketExecuted
// goroutine the way the main loop would (used for single-step tests where no
// main loop runs).
func (a *SidecarNegotiator) VerifTakeFinalization(d time.Duration) (sidecar.State,
	bool, bool) {

	select {
	case f := <-a.ticketFinalized:
		return f.state, f.otherSide, true
	case <-time.After(d):
		return 0, false, false
	}
}

// VerifValidateOrderedTicket calls the unexported validateOrderedTicket.
func VerifValidateOrderedTicket(ctx context.Context, t *sidecar.Ticket,
	signer lndclient.SignerClient, db sidecar.Store) error {

	return validateOrderedTicket(ctx, t, signer, db)
}
