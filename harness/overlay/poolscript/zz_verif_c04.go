//go:build verif

package poolscript

import "github.com/btcsuite/btcd/wire"

// VerifHasAnnex exposes hasAnnex to the verification harness.
func VerifHasAnnex(w wire.TxWitness) bool { return hasAnnex(w) }
