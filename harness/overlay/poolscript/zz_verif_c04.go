//go:build verif

package poolscript

import "github.com/btcsuite/btcd/wire"

// VerifC04HasAnnex exposes hasAnnex to the verification harness.
func VerifC04HasAnnex(w wire.TxWitness) bool { return hasAnnex(w) }
