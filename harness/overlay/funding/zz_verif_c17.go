//go:build verif

package funding

import (
	"github.com/btcsuite/btcd/wire"
	"github.com/lightninglabs/pool/order"
	"github.com/lightningnetwork/lnd/lnrpc"
)

// VerifC17DeriveFundingShim exposes the unexported deriveFundingShim.
func (m *Manager) VerifC17DeriveFundingShim(ourOrder order.Order,
	matchedOrder *order.MatchedOrder, batchTx *wire.MsgTx,
	batchHeightHint uint32) (*lnrpc.FundingShim, [32]byte, error) {

	return m.deriveFundingShim(
		ourOrder, matchedOrder, batchTx, batchHeightHint,
	)
}
