//go:build verif

package pool

import (
	"github.com/lightninglabs/pool/auctioneer"
	"github.com/lightninglabs/pool/auctioneerrpc"
	"github.com/lightninglabs/pool/order"
	"github.com/lightninglabs/pool/sidecar"
)

// verifC19OrderMgr is an order.Manager of which only the pending-batch accessors
// are usable.
type verifC19OrderMgr struct {
	order.Manager
	pending *order.Batch
}

func (m *verifC19OrderMgr) HasPendingBatch() bool      { return m.pending != nil }
func (m *verifC19OrderMgr) PendingBatch() *order.Batch { return m.pending }

// VerifC19RPCServerHandle runs the real rpcServer.handleServerMessage on a server
// that has only an auctioneer client and a pending batch (possibly nil).
func VerifC19RPCServerHandle(client *auctioneer.Client, pending *order.Batch,
	msg *auctioneerrpc.ServerAuctionMessage) error {

	s := &rpcServer{
		auctioneer:   client,
		orderManager: &verifC19OrderMgr{pending: pending},
	}
	return s.handleServerMessage(msg)
}

// VerifC19AcceptorHandle runs the real SidecarAcceptor.handleServerMessage on an
// acceptor that has only an auctioneer client and a pending batch (possibly
// nil).
func VerifC19AcceptorHandle(client *auctioneer.Client, pending *order.Batch,
	msg *auctioneerrpc.ServerAuctionMessage) error {

	// The acceptor is in its usual working state: it expects a channel for
	// (at least) one pending sidecar order.
	var nonce order.Nonce
	nonce[0] = 0x19
	ticket := &sidecar.Ticket{
		ID: [8]byte{1, 9}, State: sidecar.StateExpectingChannel,
		Offer: sidecar.Offer{Capacity: 1_000_000, LeaseDurationBlocks: 2016},
		Order: &sidecar.Order{BidNonce: nonce},
	}
	a := &SidecarAcceptor{
		client: client, pendingBatch: pending,
		pendingSidecarOrders: map[order.Nonce]*sidecar.Ticket{nonce: ticket},
	}
	return a.handleServerMessage(msg)
}
