//go:build verif

package auctioneer

import "github.com/lightninglabs/pool/auctioneerrpc"

// VerifC12NewClient builds a Client around an already connected RPC stub so
// that the verification harness (C12) can run the real Client.SubmitOrder
// against an in-process gRPC auctioneer.
func VerifC12NewClient(cfg *Config,
	c auctioneerrpc.ChannelAuctioneerClient) *Client {

	return &Client{cfg: cfg, client: c}
}
