//go:build verif

package auctioneer

import "github.com/lightninglabs/pool/auctioneerrpc"

// VerifStageCheckPendingBatch runs the real, unexported Client.checkPendingBatch
// with the given batch source, cleaner and auctioneer RPC client.
func VerifStageCheckPendingBatch(src BatchSource, cl BatchCleaner,
	rpc auctioneerrpc.ChannelAuctioneerClient) error {

	c := &Client{
		cfg:    &Config{BatchSource: src, BatchCleaner: cl},
		client: rpc,
	}
	return c.checkPendingBatch()
}

// VerifC06Diverted reports whether an account subscription handshake is in
// progress (the error channel switch is diverted to it).
func (c *Client) VerifC06Diverted() bool {
	c.errChanSwitch.Lock()
	defer c.errChanSwitch.Unlock()
	return c.errChanSwitch.diverted
}
