//go:build verif

package auctioneer

import (
	"context"

	"github.com/lightninglabs/pool/auctioneerrpc"
	"github.com/lightninglabs/pool/order"
	"google.golang.org/grpc"
)

type verifC17Capture struct {
	auctioneerrpc.ChannelAuctioneerClient

	last *auctioneerrpc.ServerSubmitOrderRequest
}

func (c *verifC17Capture) SubmitOrder(_ context.Context,
	in *auctioneerrpc.ServerSubmitOrderRequest,
	_ ...grpc.CallOption) (*auctioneerrpc.ServerSubmitOrderResponse, error) {

	c.last = in
	return &auctioneerrpc.ServerSubmitOrderResponse{
		Details: &auctioneerrpc.ServerSubmitOrderResponse_Accepted{},
	}, nil
}

// VerifC17SubmitCapture runs the real Client.SubmitOrder against a capturing
// gRPC stub and returns the request the auctioneer would have received.
func VerifC17SubmitCapture(o order.Order,
	p *order.ServerOrderParams) (*auctioneerrpc.ServerSubmitOrderRequest,
	error) {

	capture := &verifC17Capture{}
	c := &Client{
		cfg: &Config{
			GenUserAgent: func(context.Context) string {
				return "verif"
			},
		},
		client: capture,
	}
	err := c.SubmitOrder(context.Background(), o, p)
	return capture.last, err
}
