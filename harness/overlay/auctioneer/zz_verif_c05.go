//go:build verif

package auctioneer

import "github.com/lightninglabs/pool/auctioneerrpc"

// VerifC05NewClient returns a Client whose server stream is the given
// (recording) stream, so that SendAuctionMessage hands every message to it.
// Used by the C05 harness only; never compiled without the `verif` tag.
func VerifC05NewClient(
	stream auctioneerrpc.ChannelAuctioneer_SubscribeBatchAuctionClient) *Client {

	return &Client{serverStream: stream}
}
