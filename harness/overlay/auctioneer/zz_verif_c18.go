//go:build verif

package auctioneer

import (
	"context"
	"errors"
	"sync"
	"time"

	"github.com/lightninglabs/lndclient"
	"github.com/lightninglabs/pool/auctioneerrpc"
	"github.com/lightninglabs/pool/order"
	"github.com/lightningnetwork/lnd/keychain"
	"google.golang.org/grpc"
	"google.golang.org/grpc/codes"
	"google.golang.org/grpc/status"
)

// This file is compiled into package auctioneer only through
// `go build -overlay -tags verif` by /verif; it exports unexported pieces to
// the verification harness and changes no behaviour.

// VerifC18Locked reports whether the switch's mutex is currently held (by run).
func (s *ErrChanSwitch) VerifC18Locked() bool {
	if s.TryLock() {
		s.Unlock()
		return false
	}
	return true
}

// VerifC18Authenticate runs the real acctSubscription.authenticate with the
// given message sender, signer and channels.
func VerifC18Authenticate(ctx context.Context, acctKey *keychain.KeyDescriptor,
	sendMsg func(*auctioneerrpc.ClientAuctionMessage) error,
	signer lndclient.SignerClient,
	msgChan chan *auctioneerrpc.ServerAuctionMessage,
	batchVersion order.BatchVersion, errChan chan error,
	quit chan struct{}) ([32]byte, error) {

	sub := &acctSubscription{
		acctKey:      acctKey,
		sendMsg:      sendMsg,
		signer:       signer,
		msgChan:      msgChan,
		batchVersion: batchVersion,
		errChan:      errChan,
		quit:         quit,
	}
	err := sub.authenticate(ctx)
	return sub.commitHash, err
}

// verifC18TermsClient fails the first `fails` Terms calls and opens a stream
// that stays silent until its context is cancelled.
type verifC18TermsClient struct {
	auctioneerrpc.ChannelAuctioneerClient
	mu       sync.Mutex
	fails    int
	attempts []time.Time
}

func (v *verifC18TermsClient) Terms(context.Context, *auctioneerrpc.TermsRequest,
	...grpc.CallOption) (*auctioneerrpc.TermsResponse, error) {

	v.mu.Lock()
	defer v.mu.Unlock()
	v.attempts = append(v.attempts, time.Now())
	if len(v.attempts) <= v.fails {
		return nil, errors.New("verif: connection refused")
	}
	return &auctioneerrpc.TermsResponse{}, nil
}

type verifC18SilentStream struct {
	auctioneerrpc.ChannelAuctioneer_SubscribeBatchAuctionClient
	ctx context.Context
}

func (s *verifC18SilentStream) Recv() (*auctioneerrpc.ServerAuctionMessage, error) {
	<-s.ctx.Done()
	return nil, status.Error(codes.Canceled, "context canceled")
}
func (s *verifC18SilentStream) CloseSend() error { return nil }

func (v *verifC18TermsClient) SubscribeBatchAuction(ctx context.Context,
	_ ...grpc.CallOption) (auctioneerrpc.ChannelAuctioneer_SubscribeBatchAuctionClient, error) {

	return &verifC18SilentStream{ctx: ctx}, nil
}

// VerifC18Connect runs the real Client.connectServerStream against a Terms RPC
// that fails `fails` times. It returns the returned error, whether a stream
// was opened, and the time of each connection attempt relative to the start.
func VerifC18Connect(initial, minB, maxB time.Duration, numRetries,
	fails int) (error, bool, []time.Duration) {

	tc := &verifC18TermsClient{fails: fails}
	c := &Client{
		cfg:             &Config{MinBackoff: minB, MaxBackoff: maxB},
		client:          tc,
		quit:            make(chan struct{}),
		errChanSwitch:   NewErrChanSwitch(make(chan error)),
		subscribedAccts: make(map[[33]byte]*acctSubscription),
	}
	start := time.Now()
	err := c.connectServerStream(initial, numRetries)
	opened := c.serverStream != nil
	if c.streamCancel != nil {
		c.streamCancel()
	}
	c.wg.Wait()
	var at []time.Duration
	for _, t := range tc.attempts {
		at = append(at, t.Sub(start))
	}
	return err, opened, at
}

// VerifC18Subscribed returns the keys of Client.subscribedAccts together with the
// commit hash of each subscription.
func (c *Client) VerifC18Subscribed() map[[33]byte][32]byte {
	c.subscribedAcctsMtx.Lock()
	defer c.subscribedAcctsMtx.Unlock()
	res := make(map[[33]byte][32]byte, len(c.subscribedAccts))
	for k, s := range c.subscribedAccts {
		res[k] = s.commitHash
	}
	return res
}

// VerifC18Connecting reports whether a connectServerStream call is in
// progress (it holds streamMutex for its whole retry loop, waits included) or
// a message is being sent.
func (c *Client) VerifC18Connecting() bool {
	if c.streamMutex.TryLock() {
		c.streamMutex.Unlock()
		return false
	}
	return true
}

// VerifC18Switch exposes the client's error channel switch.
func (c *Client) VerifC18Switch() *ErrChanSwitch { return c.errChanSwitch }
