//go:build verif

package auctioneer

import "github.com/lightninglabs/pool/auctioneerrpc"

// VerifC16ClientWith returns a Client whose RPCs go to the given (fake)
// auctioneer connection; only usable for plain request/response RPCs.
func VerifC16ClientWith(c auctioneerrpc.ChannelAuctioneerClient) *Client {
	return &Client{client: c}
}
