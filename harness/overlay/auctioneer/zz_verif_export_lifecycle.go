//go:build verif

package auctioneer

import (
	"github.com/lightninglabs/pool/account"
	"github.com/lightninglabs/pool/auctioneerrpc"
	"github.com/lightningnetwork/lnd/keychain"
)

// VerifLifecycleUnmarshalRecovered exposes unmarshallServerRecoveredAccount.
func VerifLifecycleUnmarshalRecovered(keyDesc *keychain.KeyDescriptor,
	a *auctioneerrpc.AuctionAccount) (*account.Account, error) {

	return unmarshallServerRecoveredAccount(keyDesc, a)
}
