//go:build verif

package auctioneer

import "github.com/lightninglabs/pool/auctioneerrpc"

// VerifC19ClientWithStream returns a Client whose outgoing message stream is s,
// so that the verification harness can observe what a handler sends.
func VerifC19ClientWithStream(
	s auctioneerrpc.ChannelAuctioneer_SubscribeBatchAuctionClient) *Client {

	return &Client{serverStream: s}
}
