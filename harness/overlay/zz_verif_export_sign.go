//go:build verif

package pool

import (
	"github.com/lightninglabs/pool/auctioneer"
	"github.com/lightninglabs/pool/auctioneerrpc"
	"github.com/lightninglabs/pool/clientdb"
	"github.com/lightninglabs/pool/funding"
	"github.com/lightninglabs/pool/order"
)

// VerifSignHandler exposes rpcServer.handleServerMessage on an rpcServer that
// is wired to the given (real) database, funding manager, order manager and
// auctioneer client. Used by the C05 harness only.
type VerifSignHandler struct {
	s *rpcServer
}

func NewVerifSignHandler(db *clientdb.DB, fm *funding.Manager,
	om order.Manager, ac *auctioneer.Client) *VerifSignHandler {

	return &VerifSignHandler{s: &rpcServer{
		server:       &Server{db: db, fundingManager: fm},
		auctioneer:   ac,
		orderManager: om,
		quit:         make(chan struct{}),
	}}
}

// Handle runs the real handleServerMessage.
func (h *VerifSignHandler) Handle(msg *auctioneerrpc.ServerAuctionMessage) error {
	return h.s.handleServerMessage(msg)
}
