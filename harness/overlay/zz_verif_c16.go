//go:build verif

package pool

import (
	"context"
	"time"

	"github.com/lightninglabs/lndclient"
	"github.com/lightninglabs/pool/account"
	"github.com/lightninglabs/pool/order"
	"github.com/lightninglabs/pool/sidecar"
)

// Exports for the C16 verification harness (compiled only with -tags verif
// through `go build -overlay`; never part of the repository).

// VerifC16StepProvider calls the unexported stateStepProvider.
func (a *SidecarNegotiator) VerifC16StepProvider(ctx context.Context,
	pkt *SidecarPacket, bid *order.Bid,
	acct *account.Account) (*SidecarPacket, error) {

	return a.stateStepProvider(ctx, pkt, bid, acct)
}

// VerifC16StepRecipient calls the unexported stateStepRecipient.
func (a *SidecarNegotiator) VerifC16StepRecipient(ctx context.Context,
	pkt *SidecarPacket) (*SidecarPacket, error) {

	return a.stateStepRecipient(ctx, pkt)
}

// VerifC16TakeFinalization receives the hand-off of a spawned TicketExecuted
// goroutine the way the main loop would (used for single-step tests where no
// main loop runs).
func (a *SidecarNegotiator) VerifC16TakeFinalization(d time.Duration) (sidecar.State,
	bool, bool) {

	select {
	case f := <-a.ticketFinalized:
		return f.state, f.otherSide, true
	case <-time.After(d):
		return 0, false, false
	}
}

// VerifC16ValidateOrderedTicket calls the unexported validateOrderedTicket.
func VerifC16ValidateOrderedTicket(ctx context.Context, t *sidecar.Ticket,
	signer lndclient.SignerClient, db sidecar.Store) error {

	return validateOrderedTicket(ctx, t, signer, db)
}

// VerifC16QuitClosed reports whether Stop() was called (quit is closed).
func (a *SidecarNegotiator) VerifC16QuitClosed() bool {
	select {
	case <-a.quit:
		return true
	default:
		return false
	}
}
