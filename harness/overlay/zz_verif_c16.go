//go:build verif

package pool

import (
	"context"
	"time"

	"github.com/lightninglabs/lndclient"
	"github.com/lightninglabs/pool/account"
	"github.com/lightninglabs/pool/auctioneer"
	"github.com/lightninglabs/pool/clientdb"
	"github.com/lightninglabs/pool/order"
	"github.com/lightninglabs/pool/poolrpc"
	"github.com/lightninglabs/pool/sidecar"
)

// Exports for the C16 verification harness (compiled only with -tags verif
// through `go build -overlay`; never part of the repository).

// VerifC16StepProvider calls the unexported stateStepProvider.
func (a *SidecarNegotiator) VerifC16StepProvider(ctx context.Context,
	pkt *SidecarPacket, bid *order.Bid,
	acct *account.Account) (*SidecarPacket, error) {

	return a.stateStepProvider(ctx, pkt, bid, acct)
}

// VerifC16StepRecipient calls the unexported stateStepRecipient.
func (a *SidecarNegotiator) VerifC16StepRecipient(ctx context.Context,
	pkt *SidecarPacket) (*SidecarPacket, error) {

	return a.stateStepRecipient(ctx, pkt)
}

// VerifC16TakeFinalization receives the hand-off of a spawned TicketExecuted
// goroutine the way the main loop would (used for single-step tests where no
// main loop runs).
func (a *SidecarNegotiator) VerifC16TakeFinalization(d time.Duration) (sidecar.State,
	bool, bool) {

	select {
	case f := <-a.ticketFinalized:
		return f.state, f.otherSide, true
	case <-time.After(d):
		return 0, false, false
	}
}

// VerifC16ValidateOrderedTicket calls the unexported validateOrderedTicket.
func VerifC16ValidateOrderedTicket(ctx context.Context, t *sidecar.Ticket,
	signer lndclient.SignerClient, db sidecar.Store) error {

	return validateOrderedTicket(ctx, t, signer, db)
}

// VerifC16QuitClosed reports whether Stop() was called (quit is closed).
func (a *SidecarNegotiator) VerifC16QuitClosed() bool {
	select {
	case <-a.quit:
		return true
	default:
		return false
	}
}

// VerifC16RPC is a minimal rpcServer over a real client database and a real
// SidecarAcceptor, for calling the REAL CancelSidecar / CancelOrder /
// setTicketStateForOrder of the RPC server.
type VerifC16RPC struct {
	s   *rpcServer
	Acc *SidecarAcceptor
}

// VerifC16NewRPC builds the minimal rpcServer. The acceptor only serves as
// the registry of running negotiators (FinalizeTicket).
func VerifC16NewRPC(db *clientdb.DB, auct *auctioneer.Client) *VerifC16RPC {
	acc := NewSidecarAcceptor(&SidecarAcceptorConfig{SidecarDB: db})
	return &VerifC16RPC{
		s:   &rpcServer{server: &Server{db: db, sidecarAcceptor: acc}, auctioneer: auct},
		Acc: acc,
	}
}

// Register enters a negotiator into the acceptor's registry the way
// CoordinateSidecar / AutoAcceptSidecar / Start do.
func (v *VerifC16RPC) Register(t *sidecar.Ticket, n *SidecarNegotiator) error {
	streamID, err := deriveRecipientStreamID(t)
	if err != nil {
		return err
	}
	v.Acc.Lock()
	v.Acc.negotiators[streamID] = n
	v.Acc.Unlock()
	return nil
}

// CancelSidecar calls the real rpcServer.CancelSidecar.
func (v *VerifC16RPC) CancelSidecar(id []byte) error {
	_, err := v.s.CancelSidecar(context.Background(), &poolrpc.CancelSidecarRequest{SidecarId: id})
	return err
}

// SetTicketStateForOrder calls the real rpcServer.setTicketStateForOrder (what
// the RPC server does when the batch of an order was finalized / an order was
// canceled).
func (v *VerifC16RPC) SetTicketStateForOrder(st sidecar.State, nonce order.Nonce) error {
	return v.s.setTicketStateForOrder(st, nonce)
}
