//go:build verif

package pool

import (
	"context"

	"github.com/lightninglabs/pool/account"
	"github.com/lightninglabs/pool/order"
	"github.com/lightninglabs/pool/poolrpc"
	"github.com/lightninglabs/pool/terms"
)

// VerifC11AvailableBalances runs the real marshaler over the given orders,
// terms and accounts (verification harness only; injected through -overlay).
func VerifC11AvailableBalances(orders []order.Order, t *terms.AuctioneerTerms,
	accts []*account.Account) ([]*poolrpc.Account, error) {

	m := NewMarshaler(&marshalerConfig{
		GetOrders: func() ([]order.Order, error) { return orders, nil },
		Terms: func(context.Context) (*terms.AuctioneerTerms, error) {
			return t, nil
		},
	})
	return m.MarshallAccountsWithAvailableBalance(context.Background(), accts)
}
