//go:build verif

package main

import (
	"context"
	"encoding/json"
	"fmt"
	"math/rand"
	"os"
	"os/exec"
	"path/filepath"
	"runtime/debug"
	"strings"
	"sync"
	"sync/atomic"
	"time"

	"github.com/lightninglabs/pool/account"
	"github.com/lightninglabs/pool/clientdb"
	"github.com/lightninglabs/pool/order"
)

// Concurrent readers vs writers on OTHER objects, on a real bbolt database.
//
// bbolt hands out slices that point into its memory map and are valid only
// inside the transaction; a read path that decodes them later may read
// foreign bytes or unmapped memory, which can kill the process. The scenario
// therefore runs in a child process (the harness binary re-executed with
// `-tier c10-conc`); the parent turns a crash of the child into a violation.

const c10ConcTier = "c10-conc"

type c10ConcCase struct {
	Seed int64 `json:"seed"`
}

// concParent spawns the child and imports its findings.
func (c *c10Run) concParent(seed int64) {
	r := c.r
	out := filepath.Join(c.dir, fmt.Sprintf("conc-%d", seed))
	ctx, cancel := context.WithTimeout(context.Background(), 90*time.Second)
	defer cancel()
	cmd := exec.CommandContext(ctx, os.Args[0], "-prop", "C10", "-seed", fmt.Sprint(seed), "-n", "1",
		"-tier", c10ConcTier, "-out", out)
	cmd.Env = append(os.Environ(), "GOMEMLIMIT=3GiB")
	var stderr strings.Builder
	cmd.Stderr = &stderr
	err := cmd.Run()
	r.Evaluations++
	r.Count("conc/child-run")
	replay := c10Case{Kind: "conc", Conc: &c10ConcCase{Seed: seed}}
	if err != nil {
		tail := stderr.String()
		if len(tail) > 600 {
			tail = tail[:600]
		}
		r.Count("oracle/violation")
		r.Violate("a read of the database crashed the process while other objects were being written: "+
			fmt.Sprint(err)+": "+tail, "C10/conc-crash", replay)
		return
	}
	b, err := os.ReadFile(filepath.Join(out, "report.json"))
	if err != nil {
		return
	}
	var rep struct {
		Histogram  map[string]int `json:"histogram"`
		Violations []Violation    `json:"violations"`
		Evals      int            `json:"evaluations"`
	}
	if json.Unmarshal(b, &rep) != nil {
		return
	}
	for k, v := range rep.Histogram {
		r.Hist[k] += v
	}
	r.Evaluations += rep.Evals
	for _, v := range rep.Violations {
		r.Count("oracle/violation")
		r.Violate(v.What, v.Key, replay)
	}
}

// concChild is the scenario itself: fixed objects (set A: orders, accounts,
// one finalized snapshot) are written once; then for a bounded time writers
// rewrite OTHER objects (set B orders in the same bucket, new accounts with a
// large transaction so that pages are recycled and the memory map grows) while
// readers call GetOrders / GetOrder / Accounts / Account /
// GetLocalBatchSnapshot(s). Every read must succeed and return exactly what
// was written for set A, and for set B one of the versions written.
func runC10ConcChild(r *Run) {
	r.Rule = "concurrent readers vs writers on other objects"
	debug.SetPanicOnFault(true)
	base := ""
	if st, e := os.Stat("/dev/shm"); e == nil && st.IsDir() {
		base = "/dev/shm"
	}
	dir, err := os.MkdirTemp(base, "store-c10-conc-")
	if err != nil {
		panic(err)
	}
	defer os.RemoveAll(dir)
	c := &c10Run{r: r, g: newC10Gen(r.Rng, false), dir: dir}
	db := c.openDB(dir)
	defer db.Close()

	const (
		nA       = 500
		nB       = 500
		duration = 2500 * time.Millisecond
	)
	var fail atomic.Value
	var stopOnce sync.Once
	stop := make(chan struct{})
	failf := func(key, format string, a ...interface{}) {
		fail.CompareAndSwap(nil, [2]string{key, fmt.Sprintf(format, a...)})
		stopOnce.Do(func() { close(stop) })
	}

	// ---- fixed objects ------------------------------------------------------------------
	wantOrder := map[order.Nonce]string{}
	var nonceA []order.Nonce
	for i := 0; i < nA; i++ {
		spec := c.g.orderSpec(i%2 == 0)
		o := spec.build()
		if _, dup := wantOrder[o.Nonce()]; dup || db.SubmitOrder(o) != nil {
			continue
		}
		wantOrder[o.Nonce()] = renderOrder(o)
		nonceA = append(nonceA, o.Nonce())
	}
	// set B: three admissible versions (states) each
	states := []order.State{order.StateSubmitted, order.StateCleared, order.StatePartiallyFilled}
	wantB := map[order.Nonce]map[string]bool{}
	var nonceB []order.Nonce
	for i := 0; i < nB; i++ {
		spec := c.g.orderSpec(false)
		spec.State = uint8(states[0])
		o := spec.build()
		if db.SubmitOrder(o) != nil {
			continue
		}
		vs := map[string]bool{}
		for _, st := range states {
			spec.State = uint8(st)
			vs[renderOrder(spec.build())] = true
		}
		wantB[o.Nonce()] = vs
		nonceB = append(nonceB, o.Nonce())
	}
	wantAcct := map[string]string{}
	var acctA []*account.Account
	for i := 0; i < 8; i++ {
		a := c.g.acct().build()
		if _, dup := wantAcct[string(a.TraderKey.PubKey.SerializeCompressed())]; dup {
			continue
		}
		if db.AddAccount(a) != nil {
			continue
		}
		wantAcct[string(a.TraderKey.PubKey.SerializeCompressed())] = renderAcct(a)
		acctA = append(acctA, a)
	}
	snapSpec := c.g.snap()
	snapSpec.Orders = nil
	wantSnap := ""
	var snapID order.BatchID
	if db.VerifC10StorePendingBatchSnapshot(snapSpec.build()) == nil {
		copy(snapID[:], unhexOr(snapSpec.BatchID))
		if db.VerifC10FinalizeBatchSnapshot(snapID) == nil {
			wantSnap = renderSnapshot(snapSpec.expected(false).build())
		}
	}
	if len(nonceA) < 10 || len(nonceB) < 10 || len(acctA) < 2 {
		return
	}

	var wg sync.WaitGroup
	var reads, writes int64

	// ---- writer: only set B and brand-new accounts -----------------------------------------
	wrng := rand.New(rand.NewSource(r.Seed + 1))
	wgen := newC10Gen(wrng, false)
	wg.Add(1)
	go func() {
		defer wg.Done()
		defer func() {
			if x := recover(); x != nil {
				failf("C10/conc-writer", "writer crashed: %v", x)
			}
		}()
		for i := 0; ; i++ {
			select {
			case <-stop:
				return
			default:
			}
			var ns []order.Nonce
			var mods [][]order.Modifier
			for j := 0; j < 20; j++ {
				ns = append(ns, nonceB[(i*20+j)%len(nonceB)])
				mods = append(mods, []order.Modifier{order.StateModifier(states[i%3])})
			}
			if err := db.UpdateOrders(ns, mods); err != nil {
				failf("C10/conc-writer", "writer: UpdateOrders: %v", err)
				return
			}
			a := wgen.acct()
			a.State = uint8(account.StateOpen)
			a.Tx = wgen.tx()
			for k := 0; k < 300; k++ {
				a.Tx.Out = append(a.Tx.Out, c10TxOut{Value: int64(k), Script: wgen.hexN(34)})
			}
			if err := db.AddAccount(a.build()); err != nil {
				failf("C10/conc-writer", "writer: AddAccount: %v", err)
				return
			}
			atomic.AddInt64(&writes, 1)
		}
	}()

	// ---- readers ----------------------------------------------------------------------------
	reader := func(id int) {
		defer wg.Done()
		debug.SetPanicOnFault(true)
		what := ""
		defer func() {
			if x := recover(); x != nil {
				failf("C10/conc-read-crash", "%s crashed while other objects were being written: %v", what, x)
			}
		}()
		rr := rand.New(rand.NewSource(r.Seed + 100 + int64(id)))
		for {
			select {
			case <-stop:
				return
			default:
			}
			atomic.AddInt64(&reads, 1)
			switch k := rr.Intn(10); {
			case k < 5:
				what = "GetOrders"
				os_, err := db.GetOrders()
				if err != nil {
					failf("C10/conc-get-orders", "GetOrders failed while other objects were being written: %v", err)
					return
				}
				seen := 0
				for _, o := range os_ {
					n := o.Nonce()
					if w, ok := wantOrder[n]; ok {
						seen++
						if got := renderOrder(o); got != w {
							failf("C10/conc-get-orders", "GetOrders returned an order nobody was writing changed: "+
								"wrote %s read %s", w, got)
							return
						}
					} else if vs, ok := wantB[n]; ok {
						if got := renderOrder(o); !vs[got] {
							failf("C10/conc-get-orders", "GetOrders returned an order in none of its written versions: %s", got)
							return
						}
					} else {
						failf("C10/conc-get-orders", "GetOrders returned an order that was never written: %s", renderOrder(o))
						return
					}
				}
				if seen != len(nonceA) {
					failf("C10/conc-get-orders", "GetOrders returned %d of the %d untouched orders", seen, len(nonceA))
					return
				}
			case k < 7:
				what = "GetOrder"
				n := nonceA[rr.Intn(len(nonceA))]
				o, err := db.GetOrder(n)
				if err != nil || renderOrder(o) != wantOrder[n] {
					failf("C10/conc-get-order", "GetOrder of an untouched order during unrelated writes: err %v", err)
					return
				}
			case k < 8:
				what = "Accounts"
				as, err := db.Accounts()
				if err != nil {
					failf("C10/conc-accounts", "Accounts failed while other objects were being written: %v", err)
					return
				}
				seen := 0
				for _, a := range as {
					if w, ok := wantAcct[string(a.TraderKey.PubKey.SerializeCompressed())]; ok {
						seen++
						if renderAcct(a) != w {
							failf("C10/conc-accounts", "Accounts returned an untouched account changed")
							return
						}
					}
				}
				if seen != len(acctA) {
					failf("C10/conc-accounts", "Accounts returned %d of %d untouched accounts", seen, len(acctA))
					return
				}
			case k < 9:
				what = "Account"
				a := acctA[rr.Intn(len(acctA))]
				y, err := db.Account(a.TraderKey.PubKey)
				if err != nil || renderAcct(y) != renderAcct(a) {
					failf("C10/conc-account", "Account of an untouched account during unrelated writes: err %v", err)
					return
				}
			default:
				if wantSnap == "" {
					continue
				}
				what = "GetLocalBatchSnapshot"
				y, err := db.GetLocalBatchSnapshot(snapID)
				if err != nil || renderSnapshot(y) != wantSnap {
					failf("C10/conc-snapshot", "GetLocalBatchSnapshot during unrelated writes: err %v", err)
					return
				}
				ys, err := db.GetLocalBatchSnapshots()
				if err != nil || len(ys) != 1 || renderSnapshot(ys[0]) != wantSnap {
					failf("C10/conc-snapshot", "GetLocalBatchSnapshots during unrelated writes: err %v", err)
					return
				}
			}
		}
	}
	for i := 0; i < 3; i++ {
		wg.Add(1)
		go reader(i)
	}
	select {
	case <-stop:
	case <-time.After(duration):
		stopOnce.Do(func() { close(stop) })
	}
	done := make(chan struct{})
	go func() { wg.Wait(); close(done) }()
	select {
	case <-done:
	case <-time.After(20 * time.Second):
		failf("C10/conc-hang", "readers/writers did not stop within 20 s")
	}
	// ---- overlapping writers on the SAME account: read-modify-write must be atomic ------------
	if fail.Load() == nil {
		x := c.g.acct()
		x.Value, x.HeightHint = 1000, 1000
		xa := x.build()
		if db.AddAccount(xa) == nil {
			const perWriter = 150
			var wg2 sync.WaitGroup
			bump := []account.Modifier{
				func(a *account.Account) { a.Value++ },
				func(a *account.Account) { a.HeightHint++ },
			}
			for w := 0; w < 2; w++ {
				wg2.Add(1)
				go func(w int) {
					defer wg2.Done()
					defer func() { recover() }()
					mine := *xa
					for i := 0; i < perWriter; i++ {
						if err := db.UpdateAccount(&mine, bump[w]); err != nil {
							failf("C10/conc-writer", "UpdateAccount: %v", err)
							return
						}
					}
				}(w)
			}
			d2 := make(chan struct{})
			go func() { wg2.Wait(); close(d2) }()
			select {
			case <-d2:
			case <-time.After(30 * time.Second):
				failf("C10/conc-hang", "overlapping account writers did not finish within 30 s")
			}
			y, err := db.Account(xa.TraderKey.PubKey)
			r.Hist["conc/overlapping-updates"] += 2 * perWriter
			if err != nil || uint64(y.Value) != 1000+perWriter || y.HeightHint != 1000+perWriter {
				got := fmt.Sprint(err)
				if err == nil {
					got = fmt.Sprintf("value=%d heightHint=%d", uint64(y.Value), y.HeightHint)
				}
				failf("C10/conc-lost-update", "two writers updated different fields of one account %d times each "+
					"(value++ / heightHint++ from 1000): an update that was written is gone, read %s", perWriter, got)
			}
		}
	}
	r.Evaluations += int(atomic.LoadInt64(&reads))
	r.Hist["conc/reads"] += int(atomic.LoadInt64(&reads))
	r.Hist["conc/writes"] += int(atomic.LoadInt64(&writes))
	if f := fail.Load(); f != nil {
		kv := f.([2]string)
		r.Violate(kv[1], kv[0], c10ConcCase{Seed: r.Seed})
	}
	_ = clientdb.DBFilename
}
