//go:build verif

package main

import (
	"bytes"
	"context"
	"encoding/hex"
	"encoding/json"
	"errors"
	"fmt"
	"math/big"
	"strings"
	"time"

	"github.com/btcsuite/btcd/blockchain"
	"github.com/btcsuite/btcd/btcec/v2"
	"github.com/btcsuite/btcd/btcutil"
	"github.com/btcsuite/btcd/btcutil/psbt"
	"github.com/btcsuite/btcd/chaincfg/chainhash"
	"github.com/btcsuite/btcd/mempool"
	"github.com/btcsuite/btcd/txscript"
	"github.com/btcsuite/btcd/wire"
	"github.com/btcsuite/btcwallet/wallet/txrules"
	"github.com/lightninglabs/pool/account"
	"github.com/lightninglabs/pool/poolscript"
	"github.com/lightningnetwork/lnd/input"
	"github.com/lightningnetwork/lnd/keychain"
	"github.com/lightningnetwork/lnd/lnrpc/verrpc"
	"github.com/lightningnetwork/lnd/lnwallet"
	"github.com/lightningnetwork/lnd/lnwallet/chainfee"
)

func init() { props["C07"] = runC07 }

// ---------------------------------------------------------------- case shape

type c07Out struct {
	V int64  `json:"v"`
	S string `json:"s"` // script hex
}

type c07In struct {
	Hash   string `json:"hash"` // txid, display order
	Idx    uint32 `json:"idx"`
	V      int64  `json:"v"`
	S      string `json:"s"`      // utxo script hex
	Redeem int    `json:"redeem"` // redeem script length
}

type c07Acct struct {
	Value   int64  `json:"value"`
	Expiry  uint32 `json:"expiry"`
	State   uint8  `json:"state"`
	Version uint8  `json:"version"`
	Ctr     int    `json:"ctr"`
	OpHash  string `json:"op_hash"`
	OpIdx   uint32 `json:"op_idx"`
}

// c07Case is one replayable input: a whole operation through the real
// manager (withdraw/renew/close/deposit) or a direct call of a pure function.
type c07Case struct {
	Kind   string   `json:"kind"`
	Acct   c07Acct  `json:"acct"`
	Outs   []c07Out `json:"outs,omitempty"`
	Rate   int64    `json:"rate"`
	Best   uint32   `json:"best"`
	ExpH   uint32   `json:"exp_h"`
	NewVer uint8    `json:"new_ver"`
	Faults string   `json:"faults,omitempty"` // auctioneer,store,publish bits

	// close
	FeKind   string `json:"fe_kind,omitempty"` // owf | imp
	FeScript string `json:"fe_script,omitempty"`

	// deposit
	Amount    int64   `json:"amount,omitempty"`
	Max       int64   `json:"max,omitempty"`
	TermsFail bool    `json:"terms_fail,omitempty"`
	FundFail  bool    `json:"fund_fail,omitempty"`
	FundIns   []c07In `json:"fund_ins,omitempty"`
	LndFee    int64   `json:"lnd_fee,omitempty"`
	NoChange  bool    `json:"no_change,omitempty"`
	ChangeAt  int     `json:"change_at,omitempty"`  // 0: change first, 1: change last
	FundBad   string  `json:"fund_bad,omitempty"`   // "", "script", "value", "extra", "changeidx"
	ChangeS   string  `json:"change_s,omitempty"`   // change script hex
	HasChV    bool    `json:"has_chv,omitempty"`    // force the change value (the wallet's fee absorbs the rest)
	ChangeV   int64   `json:"change_v,omitempty"`

	// withdraw: output #0 pays to the NEXT account script (filled in from the harness keys at run time)
	Twin bool `json:"twin,omitempty"`

	// history: steps executed one after the other on ONE long-lived manager (each
	// step carries the auctioneer terms in force at that moment in `max`);
	// step kinds: the four operations and "quote" (QuoteAccount of acct.value)
	Steps []c07Case `json:"steps,omitempty"`

	// pure
	Wt   uint8   `json:"wt,omitempty"`
	Lock uint32  `json:"lock,omitempty"`
	Ins  []c07In `json:"ins,omitempty"`
}

// ---------------------------------------------------------------- environment

type c07Env struct {
	traderKey, auctKey *btcec.PublicKey
	batchKeys          []*btcec.PublicKey
	secret             [32]byte
	dummyTx            *wire.MsgTx
	wkh, tr            btcutil.Address
	wkhScript, trScript []byte
}

func newC07Env() *c07Env {
	e := &c07Env{}
	mk := func(b byte) *btcec.PublicKey {
		var k [32]byte
		k[0], k[31] = 0x22, b
		_, pub := btcec.PrivKeyFromBytes(k[:])
		return pub
	}
	e.traderKey, e.auctKey = mk(1), mk(2)
	bk := mk(3)
	for i := 0; i < 10; i++ {
		e.batchKeys = append(e.batchKeys, bk)
		bk = poolscript.IncrementKey(bk)
	}
	copy(e.secret[:], "verif-c07-secret")
	e.dummyTx = wire.NewMsgTx(2)
	e.dummyTx.AddTxIn(&wire.TxIn{})
	e.dummyTx.AddTxOut(&wire.TxOut{Value: 1, PkScript: []byte{0x51}})
	h := btcutil.Hash160(e.traderKey.SerializeCompressed())
	e.wkh, _ = btcutil.NewAddressWitnessPubKeyHash(h, c07Params)
	e.tr, _ = btcutil.NewAddressTaproot(e.traderKey.SerializeCompressed()[1:], c07Params)
	e.wkhScript, _ = txscript.PayToAddrScript(e.wkh)
	e.trScript, _ = txscript.PayToAddrScript(e.tr)
	return e
}

func (e *c07Env) account(a c07Acct) *account.Account {
	var h chainhash.Hash
	_ = chainhash.Decode(&h, a.OpHash)
	return &account.Account{
		Value:  btcutil.Amount(a.Value),
		Expiry: a.Expiry,
		TraderKey: &keychain.KeyDescriptor{
			KeyLocator: keychain.KeyLocator{Family: poolscript.AccountKeyFamily},
			PubKey:     e.traderKey,
		},
		AuctioneerKey: e.auctKey,
		BatchKey:      e.batchKeys[a.Ctr],
		Secret:        e.secret,
		State:         account.State(a.State),
		OutPoint:      wire.OutPoint{Hash: h, Index: a.OpIdx},
		LatestTx:      e.dummyTx,
		Version:       account.Version(a.Version),
	}
}

// script is the oracle for the uninterpreted account script: a direct call
// of poolscript.AccountScript.
func (e *c07Env) script(ver uint8, expiry uint32, ctr int) []byte {
	s, err := poolscript.AccountScript(
		account.Version(ver).ScriptVersion(), expiry, e.traderKey,
		e.auctKey, e.batchKeys[ctr], e.secret,
	)
	if err != nil {
		panic(err)
	}
	return s
}

func (e *c07Env) table(a c07Acct, newVer uint8, exps ...uint32) string {
	var rows []string
	seen := map[string]bool{}
	for _, v := range []uint8{a.Version, newVer} {
		for _, x := range append([]uint32{a.Expiry}, exps...) {
			for _, c := range []int{a.Ctr, a.Ctr + 1} {
				k := fmt.Sprintf("%d:%d:%d", v, x, c)
				if seen[k] {
					continue
				}
				seen[k] = true
				rows = append(rows, k+":"+hex.EncodeToString(e.script(v, x, c)))
			}
		}
	}
	return strings.Join(rows, ",")
}

func (e *c07Env) ctrOf(k *btcec.PublicKey) int {
	for i, b := range e.batchKeys {
		if b.IsEqual(k) {
			return i
		}
	}
	return -1
}

// ---------------------------------------------------------------- formatting

func c07Hex(b []byte) string {
	if len(b) == 0 {
		return "-"
	}
	return hex.EncodeToString(b)
}

func c07FmtOuts(os []*wire.TxOut) string {
	if len(os) == 0 {
		return "-"
	}
	s := make([]string, len(os))
	for i, o := range os {
		s[i] = fmt.Sprintf("%d:%s", o.Value, c07Hex(o.PkScript))
	}
	return strings.Join(s, ",")
}

func c07CaseOuts(os []c07Out) []*wire.TxOut {
	res := make([]*wire.TxOut, len(os))
	for i, o := range os {
		b, _ := hex.DecodeString(o.S)
		res[i] = &wire.TxOut{Value: o.V, PkScript: b}
	}
	return res
}

func c07FmtCaseOuts(os []c07Out) string { return c07FmtOuts(c07CaseOuts(os)) }

func c07FmtOp(orig wire.OutPoint, op wire.OutPoint, selfIfOther bool) string {
	switch {
	case op.Hash == orig.Hash:
		return fmt.Sprintf("acct:%d", op.Index)
	case selfIfOther:
		return fmt.Sprintf("self:%d", op.Index)
	default:
		return fmt.Sprintf("%s:%d", op.Hash.String(), op.Index)
	}
}

func c07FmtIns(orig wire.OutPoint, ops []wire.OutPoint) string {
	if len(ops) == 0 {
		return "-"
	}
	s := make([]string, len(ops))
	for i, o := range ops {
		s[i] = c07FmtOp(orig, o, false)
	}
	return strings.Join(s, ",")
}

func (e *c07Env) fmtAcct(orig wire.OutPoint, a *account.Account) string {
	return fmt.Sprintf("%d/%d/%d/%d/%d/%s/%d", int64(a.Value), a.Expiry,
		a.State, a.Version, e.ctrOf(a.BatchKey),
		c07FmtOp(orig, a.OutPoint, true), a.HeightHint)
}

func c07Prevs(ins []*wire.TxIn) []wire.OutPoint {
	r := make([]wire.OutPoint, len(ins))
	for i, in := range ins {
		r[i] = in.PreviousOutPoint
	}
	return r
}

func (e *c07Env) fmtTrace(orig wire.OutPoint, evs []c07Event) string {
	if len(evs) == 0 {
		return "-"
	}
	var s []string
	for _, ev := range evs {
		switch ev.kind {
		case "M":
			a := "nil"
			if ev.modified != nil {
				a = e.fmtAcct(orig, ev.modified)
			}
			s = append(s, fmt.Sprintf("M[in=%s|out=%s|acct=%s]",
				c07FmtIns(orig, c07Prevs(ev.inputs)), c07FmtOuts(ev.outputs), a))
		case "S":
			s = append(s, "S["+e.fmtAcct(orig, ev.stored)+"]")
		case "P":
			s = append(s, fmt.Sprintf("P[in=%s|out=%s|lock=%d]",
				c07FmtIns(orig, c07Prevs(ev.tx.TxIn)), c07FmtOuts(ev.tx.TxOut),
				ev.tx.LockTime))
		}
	}
	return strings.Join(s, ";")
}

func c07FmtCaseIns(ins []c07In) string {
	if len(ins) == 0 {
		return "-"
	}
	s := make([]string, len(ins))
	for i, in := range ins {
		sc := in.S
		if sc == "" {
			sc = "-"
		}
		s[i] = fmt.Sprintf("%s:%d:%d:%s:%d", in.Hash, in.Idx, in.V, sc, in.Redeem)
	}
	return strings.Join(s, ",")
}

func c07AcctTokens(a c07Acct) string {
	return fmt.Sprintf("%d %d %d %d %d %s:%d", a.Value, a.Expiry, a.State,
		a.Version, a.Ctr, a.OpHash, a.OpIdx)
}

// c07ErrClass maps an error of the real code to a refusal class WITHOUT looking
// at its text: btcd rule errors by their ErrorCode, injected collaborator
// faults by the call that failed (recorded by the mocks), everything else is
// the single class "refused" (account/manager.go only has fmt.Errorf texts).
// The Lean driver prints the same coarse classes.
func c07ErrClass(err error, w *c07World) string {
	var re blockchain.RuleError
	if errors.As(err, &re) {
		switch re.ErrorCode {
		case blockchain.ErrNoTxInputs:
			return "noInputs"
		case blockchain.ErrNoTxOutputs:
			return "noOutputs"
		case blockchain.ErrDuplicateTxInputs:
			return "duplicateInputs"
		case blockchain.ErrBadTxOutValue:
			return "badOutputValue"
		}
		return "rule:" + re.ErrorCode.String()
	}
	if w != nil && w.lastFault != "" {
		return w.lastFault
	}
	return "refused"
}

func c07Res(err error) string {
	if err == nil {
		return "ok"
	}
	return "err " + c07ErrClass(err, nil)
}

// ---------------------------------------------------------------- oracle helpers

// c07DustLimit is the oracle's own dust table (standard relay policy at
// 3000 sat/kvB): P2PKH 546, P2SH 540, P2WKH 294, P2WSH/P2TR 330.
func c07DustLimit(script []byte) (int64, bool) {
	switch txscript.GetScriptClass(script) {
	case txscript.PubKeyHashTy:
		return 546, true
	case txscript.ScriptHashTy:
		return 540, true
	case txscript.WitnessV0PubKeyHashTy:
		return 294, true
	case txscript.WitnessV0ScriptHashTy, txscript.WitnessV1TaprootTy:
		return 330, true
	}
	return 0, false
}

func c07IsDust(o *wire.TxOut) bool {
	if lim, ok := c07DustLimit(o.PkScript); ok {
		return o.Value < lim
	}
	return false // non-standard scripts: not judged by the oracle
}

func c07SameAcct(a, b *account.Account) bool {
	return a.Value == b.Value && a.Expiry == b.Expiry && a.State == b.State &&
		a.Version == b.Version && a.OutPoint == b.OutPoint &&
		a.BatchKey.IsEqual(b.BatchKey) && a.HeightHint == b.HeightHint
}

// multiset inclusion: remove each wanted output from have; returns the rest.
func c07Remove(have []*wire.TxOut, want []*wire.TxOut) ([]*wire.TxOut, bool) {
	rest := append([]*wire.TxOut(nil), have...)
	for _, w := range want {
		found := -1
		for i, h := range rest {
			if h.Value == w.Value && bytes.Equal(h.PkScript, w.PkScript) {
				found = i
				break
			}
		}
		if found < 0 {
			return nil, false
		}
		rest = append(rest[:found], rest[found+1:]...)
	}
	return rest, true
}

// ---------------------------------------------------------------- whole operations

type c07Run struct {
	r    *Run
	e    *c07Env
	hung int

	// cur is the enclosing history while its steps run (used as the replay)
	cur *c07Case
}

// c07Mgr is one real account manager with its recording collaborators; the
// world the collaborators act on is swapped per operation.
type c07Mgr struct {
	mgr    account.Manager
	store  *c07Store
	auct   *c07Auctioneer
	wallet *c07Wallet
}

func (x *c07Run) newMgr() *c07Mgr {
	m := &c07Mgr{store: &c07Store{}, auct: &c07Auctioneer{}, wallet: &c07Wallet{}}
	m.mgr = account.NewManager(&account.ManagerConfig{
		Store: m.store, Auctioneer: m.auct,
		Wallet: m.wallet, ChainNotifier: &c07Notifier{},
		TxFeeEstimator: m.wallet,
		Signer:         &c07Signer{sessions: map[input.MuSig2SessionID]*input.MuSig2SessionInfo{}, combined: x.e.batchKeys[0]},
		ChainParams:    c07Params,
		LndVersion:     &verrpc.Version{AppMajor: 0, AppMinor: 15, AppPatch: 1},
	})
	return m
}

func (m *c07Mgr) use(w *c07World) { m.store.w, m.auct.w, m.wallet.w = w, w, w }

// rep is what a violation of the current case is replayed from.
func (x *c07Run) rep(cs *c07Case) interface{} {
	if x.cur != nil {
		return x.cur
	}
	return cs
}

// execOp runs one whole operation through the real account manager, emits
// the op line for the model and evaluates the oracle.
func (x *c07Run) execOp(cs *c07Case) { x.execOpOn(cs, nil) }

// execOpOn runs one whole operation on the given manager (a fresh one if nil).
func (x *c07Run) execOpOn(cs *c07Case, mg *c07Mgr) {
	r, e := x.r, x.e
	acct := e.account(cs.Acct)
	orig := acct.OutPoint
	before := *acct
	w := &c07World{acct: *acct, maxValue: btcutil.Amount(cs.Max),
		failTerms: cs.TermsFail, fundFail: cs.FundFail,
		walletWKH: e.wkh, walletTR: e.tr}
	if len(cs.Faults) == 3 {
		w.failAuct, w.failStore, w.failPublish = cs.Faults[0] == '1', cs.Faults[1] == '1', cs.Faults[2] == '1'
	} else {
		cs.Faults = "000"
	}
	if mg == nil {
		mg = x.newMgr()
	}
	mg.use(w)
	mgr := mg.mgr
	ctx := context.Background()
	if cs.Twin && cs.Kind == "withdraw" && len(cs.Outs) > 0 {
		v, x := cs.Acct.Version, cs.Acct.Expiry
		if cs.NewVer > v {
			v = cs.NewVer
		}
		if cs.ExpH != 0 {
			x = cs.ExpH
		}
		cs.Outs[0].S = hex.EncodeToString(e.script(v, x, cs.Acct.Ctr+1))
	}
	reqOuts := c07CaseOuts(cs.Outs)
	rate := chainfee.SatPerKWeight(cs.Rate)

	// deposit: the wallet answers FundPsbt from the template it is given,
	// like lnd does (coin selection = the case's input set).
	var funded struct {
		ins    []c07In
		outs   []*wire.TxOut
		change int32
		called bool
		tplV   int64
	}
	fundHook := func(tpl *psbt.Packet) (*psbt.Packet, int32, bool) {
		funded.called = true
		tplOut := tpl.UnsignedTx.TxOut[0]
		funded.tplV = tplOut.Value
		var sum int64
		tx := wire.NewMsgTx(2)
		var pins []psbt.PInput
		for _, in := range cs.FundIns {
			var h chainhash.Hash
			_ = chainhash.Decode(&h, in.Hash)
			tx.AddTxIn(&wire.TxIn{PreviousOutPoint: wire.OutPoint{Hash: h, Index: in.Idx}, Sequence: 0xfffffffd})
			sc, _ := hex.DecodeString(in.S)
			pi := psbt.PInput{WitnessUtxo: &wire.TxOut{Value: in.V, PkScript: sc}}
			if in.Redeem > 0 {
				pi.RedeemScript = bytes.Repeat([]byte{0xab}, in.Redeem)
			}
			pins = append(pins, pi)
			sum += in.V
		}
		acctOut := &wire.TxOut{Value: tplOut.Value, PkScript: tplOut.PkScript}
		switch cs.FundBad {
		case "script":
			acctOut.PkScript = append([]byte{}, e.wkhScript...)
		case "value":
			acctOut.Value++
		}
		change := sum - tplOut.Value - cs.LndFee
		if cs.HasChV {
			if sum-tplOut.Value-cs.ChangeV < 0 {
				return nil, 0, false
			}
			change = cs.ChangeV
		}
		chS, _ := hex.DecodeString(cs.ChangeS)
		idx := int32(-1)
		switch {
		case cs.NoChange:
			tx.AddTxOut(acctOut)
		case change < 0:
			return nil, 0, false
		case cs.ChangeAt == 0:
			tx.AddTxOut(&wire.TxOut{Value: change, PkScript: chS})
			tx.AddTxOut(acctOut)
			idx = 0
		default:
			tx.AddTxOut(acctOut)
			tx.AddTxOut(&wire.TxOut{Value: change, PkScript: chS})
			idx = 1
		}
		if cs.FundBad == "changeidx" && idx >= 0 {
			idx = 5 // a change index that designates no output
		}
		if cs.FundBad == "extra" {
			tx.AddTxOut(&wire.TxOut{Value: 1000, PkScript: e.trScript})
		}
		p, err := psbt.NewFromUnsignedTx(tx)
		if err != nil {
			return nil, 0, false
		}
		copy(p.Inputs, pins)
		funded.ins = cs.FundIns
		for _, o := range tx.TxOut {
			funded.outs = append(funded.outs, &wire.TxOut{Value: o.Value, PkScript: o.PkScript})
		}
		funded.change = idx
		return p, idx, true
	}
	w.fundHook = fundHook

	var (
		err   error
		pan   interface{}
		modA  *account.Account
		retTx *wire.MsgTx
	)
	done := make(chan struct{})
	go func() {
		defer close(done)
		defer func() { pan = recover() }()
		switch cs.Kind {
		case "withdraw":
			modA, retTx, err = mgr.WithdrawAccount(ctx, e.traderKey, reqOuts, rate, cs.Best, cs.ExpH, account.Version(cs.NewVer))
		case "renew":
			modA, retTx, err = mgr.RenewAccount(ctx, e.traderKey, cs.ExpH, rate, cs.Best, account.Version(cs.NewVer))
		case "deposit":
			modA, retTx, err = mgr.DepositAccount(ctx, e.traderKey, btcutil.Amount(cs.Amount), rate, cs.Best, cs.ExpH, account.Version(cs.NewVer))
		case "close":
			var fe account.FeeExpr
			if cs.FeKind == "owf" {
				o := &account.OutputWithFee{FeeRate: rate}
				if cs.FeScript != "nil" {
					o.PkScript, _ = hex.DecodeString(cs.FeScript)
				}
				fe = o
			} else {
				fe = account.OutputsWithImplicitFee(reqOuts)
			}
			retTx, err = mgr.CloseAccount(ctx, e.traderKey, fe, cs.Best)
		}
	}()
	select {
	case <-done:
	case <-time.After(10 * time.Second):
		// the operation blocks: report it and never touch the (still shared) world again
		x.hung++
		r.Count("oracle/hung")
		r.Violate(cs.Kind+": the operation did not return within 10 s", "C07/hung", x.rep(cs))
		return
	}
	_ = modA

	// ---- op line for the model -------------------------------------------
	tbl := e.table(cs.Acct, cs.NewVer, cs.ExpH)
	var line string
	switch cs.Kind {
	case "withdraw":
		line = fmt.Sprintf("C07 withdraw %s %s %s %d %d %d %d %s", c07AcctTokens(cs.Acct), tbl,
			c07FmtCaseOuts(cs.Outs), cs.Rate, cs.Best, cs.ExpH, cs.NewVer, cs.Faults)
	case "renew":
		line = fmt.Sprintf("C07 renew %s %s %d %d %d %d %s", c07AcctTokens(cs.Acct), tbl,
			cs.ExpH, cs.Rate, cs.Best, cs.NewVer, cs.Faults)
	case "close":
		fe := "imp=" + c07FmtCaseOuts(cs.Outs)
		if cs.FeKind == "owf" {
			fe = fmt.Sprintf("owf=%s=%d", cs.FeScript, cs.Rate)
			if cs.FeScript == "" {
				fe = fmt.Sprintf("owf=-=%d", cs.Rate)
			}
		}
		line = fmt.Sprintf("C07 close %s %s %s %d %s %s %s", c07AcctTokens(cs.Acct), tbl, fe, cs.Best,
			cs.Faults, hex.EncodeToString(e.wkhScript), hex.EncodeToString(e.trScript))
	case "deposit":
		mx := fmt.Sprint(cs.Max)
		if cs.TermsFail {
			mx = "fail"
		}
		fd := "fail - 0"
		if funded.called && funded.outs != nil {
			fd = fmt.Sprintf("%s %s %d", c07FmtCaseIns(funded.ins), c07FmtOuts(funded.outs), funded.change)
		} else if !funded.called && !cs.FundFail {
			// FundPsbt was never reached; the model must refuse earlier too.
			fd = "fail - 0"
		}
		line = fmt.Sprintf("C07 deposit %s %s %d %d %d %d %d %s %s %s", c07AcctTokens(cs.Acct), tbl,
			cs.Amount, cs.Rate, cs.Best, cs.ExpH, cs.NewVer, mx, fd, cs.Faults)
	}
	res := "ok"
	switch {
	case pan != nil:
		res = fmt.Sprintf("panic:%v", pan)
	case err != nil:
		res = "err:" + c07ErrClass(err, w)
	}
	out := res + " trace=" + e.fmtTrace(orig, w.events)
	locks := w.lockOutcome()
	if cs.Kind == "deposit" {
		out += " locks=" + locks
		r.Count("deposit/locks/" + strings.SplitN(locks, ":", 2)[0])
	}
	r.Emit(line, out)
	r.Evaluations++
	r.Count("op/" + cs.Kind)
	r.Count("res/" + cs.Kind + "/" + res)
	// input features (independent of any error text): which listed defect the request carries
	for _, ft := range c07Features(cs) {
		r.Count("feat/" + cs.Kind + "/" + ft)
		if err == nil && pan == nil && ft != "expired-path" {
			r.Count("feat-accepted/" + cs.Kind + "/" + ft)
		}
	}
	r.Count(fmt.Sprintf("ver/%d->%d", cs.Acct.Version, cs.NewVer))
	if err == nil && pan == nil {
		r.Distinct(line)
		r.Sample(cs)
	}

	// ---- oracle: the English statement on the real outputs ------------------
	viol := func(what string) {
		r.Count("oracle/violation")
		r.Violate(cs.Kind+": "+what, "C07/"+cs.Kind, x.rep(cs))
	}
	if pan != nil {
		viol(fmt.Sprintf("panic %v", pan))
		return
	}
	var nM, nS, nP int
	var pub *wire.MsgTx
	var stored *account.Account
	for _, ev := range w.events {
		switch ev.kind {
		case "M":
			nM++
		case "S":
			nS++
			stored = ev.stored
		case "P":
			nP++
			pub = ev.tx
		}
	}
	after := w.acct
	taproot := cs.Acct.Version == 1 || cs.Acct.Version == 2
	expired := cs.Acct.State == uint8(account.StateExpired) || cs.Best >= cs.Acct.Expiry
	if cs.Kind == "renew" {
		expired = false
		taproot = cs.Acct.Version >= 1
	}
	if err != nil {
		cls := c07ErrClass(err, w)
		switch cls {
		case "auctioneerFail":
			if nS != 0 || nP != 0 {
				viol("store write / broadcast although the auctioneer refused")
			}
		case "storeFail":
			if nP != 0 {
				viol("broadcast although the store write failed")
			}
		case "publishFail":
		default:
			// every other refusal: no stored or broadcast effect
			if len(w.events) != 0 {
				viol("refusal (" + cls + ") with effects " + e.fmtTrace(orig, w.events))
			}
			if !c07SameAcct(&after, &before) {
				viol("refusal (" + cls + ") changed the stored account")
			}
		}
		// a refused deposit must not keep the wallet inputs it leased
		if cs.Kind == "deposit" && len(w.leases) > 0 && !strings.HasPrefix(locks, "released:") {
			r.Count("oracle/locks")
			r.Violate(fmt.Sprintf("deposit refused (%s) but the %d leased wallet inputs were not all released: %s",
				cls, len(w.leases), locks), "C07/leaked-locks", x.rep(cs))
		}
		return
	}
	if cs.Kind == "deposit" && len(w.releases) != 0 {
		viol("accepted deposit released wallet input leases: " + locks)
	}

	// success
	if nS != 1 || nP != 1 || pub == nil || stored == nil {
		viol(fmt.Sprintf("success with %d store writes and %d broadcasts", nS, nP))
		return
	}
	if retTx == nil || retTx.TxHash() != pub.TxHash() {
		viol("returned transaction differs from the broadcast one")
	}
	// listed refusals must have been refused
	if cs.Kind != "close" && cs.NewVer < cs.Acct.Version {
		viol("account version lowered")
	}
	if after.Version < before.Version {
		viol("stored version lowered")
	}
	if cs.Kind != "close" && (cs.ExpH != 0 || cs.Kind == "renew") {
		lo := uint64(cs.Best) + 144
		hi := uint64(cs.Best) + 52560
		if uint64(cs.ExpH) < lo || uint64(cs.ExpH) > hi {
			r.Count("oracle/expiry-window")
			r.Violate(fmt.Sprintf("%s: expiry %d accepted outside [best+144, best+52560] with best=%d",
				cs.Kind, cs.ExpH, cs.Best), "C07/expiry-window", x.rep(cs))
		}
		if after.Expiry != cs.ExpH {
			viol("new expiry not recorded")
		}
	}
	// cooperative vs expiry path: a trader-only spend (no auctioneer request, lock
	// time = best height) only once the account has expired; otherwise the
	// auctioneer is asked exactly once and the lock time is 0
	if expired {
		if cs.Kind != "close" {
			viol("modification accepted on the expiry path")
		}
		if nM != 0 || pub.LockTime != cs.Best {
			viol(fmt.Sprintf("expiry-path spend with %d auctioneer requests and lock time %d (best %d)", nM, pub.LockTime, cs.Best))
		}
	} else if nM != 1 || pub.LockTime != 0 {
		r.Count("oracle/path")
		r.Violate(fmt.Sprintf("%s: account not expired (expiry %d, best %d) but spent with %d auctioneer requests and lock time %d",
			cs.Kind, cs.Acct.Expiry, cs.Best, nM, pub.LockTime), "C07/spend-path", x.rep(cs))
	}
	// the account outpoint is spent exactly once
	cnt := 0
	for _, in := range pub.TxIn {
		if in.PreviousOutPoint == orig {
			cnt++
		}
	}
	if cnt != 1 {
		viol(fmt.Sprintf("account outpoint spent %d times", cnt))
	}
	seenIn := map[wire.OutPoint]bool{}
	for _, in := range pub.TxIn {
		if seenIn[in.PreviousOutPoint] {
			viol("duplicate input")
		}
		seenIn[in.PreviousOutPoint] = true
	}
	for _, o := range pub.TxOut {
		if o.Value < 0 {
			viol("negative output")
		}
		if c07IsDust(o) {
			viol(fmt.Sprintf("dust output %d to %x", o.Value, o.PkScript))
		}
	}
	// input and output totals (big.Int)
	inSum := big.NewInt(int64(before.Value))
	walletSum := big.NewInt(0)
	var witness int64
	switch {
	case taproot && expired:
		witness = poolscript.TaprootExpiryWitnessSize
	case taproot:
		witness = poolscript.TaprootMultiSigWitnessSize
	case expired:
		witness = poolscript.ExpiryWitnessSize
	default:
		witness = poolscript.MultiSigWitnessSize
	}
	acctWitness := witness
	if cs.Kind == "deposit" {
		if len(pub.TxIn) != len(cs.FundIns)+1 {
			viol("deposit does not spend exactly the wallet inputs plus the account")
		}
		for _, in := range cs.FundIns {
			walletSum.Add(walletSum, big.NewInt(in.V))
			sc, _ := hex.DecodeString(in.S)
			if txscript.GetScriptClass(sc) == txscript.WitnessV1TaprootTy {
				witness += 66
			} else {
				witness += input.P2WKHWitnessSize
			}
		}
		inSum.Add(inSum, walletSum)
	} else if len(pub.TxIn) != 1 {
		viol("more than the account input is spent")
	}
	outSum := big.NewInt(0)
	for _, o := range pub.TxOut {
		outSum.Add(outSum, big.NewInt(o.Value))
	}
	fee := new(big.Int).Sub(inSum, outSum)
	weight := int64(pub.SerializeSizeStripped())*4 + 2 + witness
	floor := new(big.Int).Div(big.NewInt(253*weight), big.NewInt(1000))
	if fee.Cmp(floor) < 0 {
		viol(fmt.Sprintf("fee %v below the relay minimum %v (weight %d)", fee, floor, weight))
	}
	rateFee := new(big.Int).Div(new(big.Int).Mul(big.NewInt(cs.Rate), big.NewInt(weight)), big.NewInt(1000))

	if cs.Kind == "close" {
		if after.Value != 0 || after.State != account.StatePendingClosed {
			viol("close does not record value 0 / pending closed")
		}
		if after.OutPoint != before.OutPoint {
			viol("close changed the outpoint")
		}
		want := reqOuts
		if cs.FeKind == "owf" {
			if len(pub.TxOut) != 1 {
				viol("close with a single output and fee rate has several outputs")
				return
			}
			sc, _ := hex.DecodeString(cs.FeScript)
			if cs.FeScript == "nil" {
				sc = e.wkhScript
				if taproot {
					sc = e.trScript
				}
			}
			if !bytes.Equal(pub.TxOut[0].PkScript, sc) {
				viol("close pays to a different script")
			}
			if fee.Cmp(rateFee) != 0 {
				r.Count("oracle/close-fee")
				r.Violate(fmt.Sprintf("close: fee %v is not rate %d x estimated weight %d / 1000 = %v",
					fee, cs.Rate, weight, rateFee), "C07/close-fee-rate", x.rep(cs))
			}
			want = pub.TxOut
		}
		rest, ok := c07Remove(pub.TxOut, want)
		if !ok || len(rest) != 0 {
			viol("closing outputs are not exactly the requested ones")
		}
		// everything but the fee is paid out: tautology of fee := in - out; checked: in = old value only
		r.Count(fmt.Sprintf("close/%s/taproot=%v/expired=%v", cs.FeKind, taproot, expired))
		return
	}

	// modification: the re-created account output
	if after.OutPoint.Hash != pub.TxHash() || int(after.OutPoint.Index) >= len(pub.TxOut) {
		viol("recorded outpoint is not an output of the broadcast transaction")
		return
	}
	newOut := pub.TxOut[after.OutPoint.Index]
	wantScript := e.script(uint8(after.Version), after.Expiry, e.ctrOf(after.BatchKey))
	if e.ctrOf(after.BatchKey) != cs.Acct.Ctr+1 {
		viol("batch key not incremented exactly once")
	}
	if !bytes.Equal(newOut.PkScript, wantScript) {
		viol("output at the recorded outpoint does not carry the new account script")
	}
	if int64(after.Value) != newOut.Value {
		r.Count("oracle/recorded-vs-output")
		viol(fmt.Sprintf("recorded value %d differs from the re-created output's value %d", after.Value, newOut.Value))
	}
	if after.Value < account.MinAccountValue {
		viol("account below the minimum account size")
	}
	if after.State != account.StatePendingUpdate {
		viol("state after modification is not pending update")
	}
	// requested outputs verbatim, nothing else
	rest, ok := c07Remove(pub.TxOut, append([]*wire.TxOut{newOut}, reqOuts...))
	if !ok {
		viol("requested outputs are not all present verbatim")
		return
	}
	reqSum := big.NewInt(0)
	for _, o := range reqOuts {
		reqSum.Add(reqSum, big.NewInt(o.Value))
	}
	switch cs.Kind {
	case "withdraw", "renew":
		if len(rest) != 0 {
			viol("unrequested extra outputs")
		}
		// new = old - withdrawn - fee
		want := new(big.Int).Sub(new(big.Int).Sub(big.NewInt(int64(before.Value)), reqSum), fee)
		if want.Cmp(big.NewInt(int64(after.Value))) != 0 {
			viol("conservation: new value != old - withdrawn - fee")
		}
		if cs.Rate >= 0 && fee.Cmp(rateFee) != 0 {
			viol(fmt.Sprintf("fee %v is not rate %d x estimated weight %d / 1000", fee, cs.Rate, weight))
		}
	case "deposit":
		if int64(after.Value) > cs.Max {
			viol("account above the auctioneer's maximum")
		}
		if len(rest) > 1 {
			viol("unrequested extra outputs")
		}
		change := big.NewInt(0)
		if len(rest) == 1 {
			change = big.NewInt(rest[0].Value)
			chS, _ := hex.DecodeString(cs.ChangeS)
			if cs.NoChange || !bytes.Equal(rest[0].PkScript, chS) {
				viol("extra output is not the wallet's change")
			}
		}
		// deposited = wallet inputs - change; new = old + deposited - fee
		dep := new(big.Int).Sub(walletSum, change)
		want := new(big.Int).Sub(new(big.Int).Add(big.NewInt(int64(before.Value)), dep), fee)
		if want.Cmp(big.NewInt(int64(after.Value))) != 0 {
			viol("conservation: new value != old + deposited - fee")
		}
		if int64(after.Value) != int64(before.Value)+cs.Amount {
			viol("new value != old + requested deposit")
		}
		// fee = rate applied to the account input's estimated weight + what lnd charged
		acctW := int64(8+1+41+1)*4 + 2 + acctWitness
		acctFee := new(big.Int).Div(new(big.Int).Mul(big.NewInt(cs.Rate), big.NewInt(acctW)), big.NewInt(1000))
		lnd := new(big.Int).Sub(new(big.Int).Sub(walletSum, change), big.NewInt(funded.tplV))
		if cs.Rate >= 0 && fee.Cmp(new(big.Int).Add(acctFee, lnd)) != 0 {
			viol("deposit fee is not the account input's share plus the wallet's fee")
		}
	}
	r.Count(fmt.Sprintf("%s/ok/taproot=%v/outs=%d", cs.Kind, taproot, len(reqOuts)))
}

// execHistory runs the steps of a history on ONE long-lived manager; the
// auctioneer terms (`max`) may differ from step to step and every step is
// judged against the terms in force when it runs.
func (x *c07Run) execHistory(h *c07Case) {
	r := x.r
	r.Count("op/history")
	mg := x.newMgr()
	x.cur = h
	defer func() { x.cur = nil }()
	var prevMax int64 = -1
	for i := range h.Steps {
		st := &h.Steps[i]
		if x.hung > 0 && i > 0 {
			return
		}
		if prevMax >= 0 && st.Max < prevMax {
			r.Count("hist/terms-lowered")
			if st.Kind == "deposit" && st.Acct.Value+st.Amount > st.Max && st.Acct.Value+st.Amount <= prevMax {
				r.Count("hist/deposit-between-new-and-old-max")
			}
		} else if prevMax >= 0 && st.Max > prevMax {
			r.Count("hist/terms-raised")
		}
		prevMax = st.Max
		switch st.Kind {
		case "withdraw", "renew", "close", "deposit":
			x.execOpOn(st, mg)
		case "quote":
			x.execQuote(st, mg)
		}
	}
}

// execQuote calls QuoteAccount for value acct.value under the terms in force.
func (x *c07Run) execQuote(cs *c07Case, mg *c07Mgr) {
	r := x.r
	w := &c07World{maxValue: btcutil.Amount(cs.Max), failTerms: cs.TermsFail}
	mg.use(w)
	var err error
	var pan interface{}
	done := make(chan struct{})
	go func() {
		defer close(done)
		defer func() { pan = recover() }()
		_, _, err = mg.mgr.QuoteAccount(context.Background(), btcutil.Amount(cs.Acct.Value), 6)
	}()
	select {
	case <-done:
	case <-time.After(10 * time.Second):
		x.hung++
		r.Violate("quote: the operation did not return within 10 s", "C07/hung", x.rep(cs))
		return
	}
	r.Evaluations++
	r.Count("op/quote")
	if pan != nil {
		r.Violate(fmt.Sprintf("quote panics: %v", pan), "C07/quote", x.rep(cs))
		return
	}
	if cs.TermsFail {
		if err == nil {
			r.Violate("quote succeeds although the terms could not be fetched", "C07/quote", x.rep(cs))
		}
		return
	}
	res := c07Res(err)
	r.Count("quote/" + res)
	// oracle: accepted iff min <= value <= the maximum in force NOW
	if (err == nil) != (cs.Acct.Value >= 100000 && cs.Acct.Value <= cs.Max) {
		r.Count("oracle/quote")
		r.Violate(fmt.Sprintf("quote of %d with the auctioneer's maximum %d in force: accepted=%v",
			cs.Acct.Value, cs.Max, err == nil), "C07/quote", x.rep(cs))
	}
	r.Emit(fmt.Sprintf("C07 value %d %d", cs.Acct.Value, cs.Max), res)
}

// ---------------------------------------------------------------- pure functions

func (x *c07Run) execPure(cs *c07Case) {
	r, e := x.r, x.e
	r.Evaluations++
	r.Count("op/" + cs.Kind)
	switch cs.Kind {
	case "vau":
		outs := c07CaseOuts(cs.Outs)
		nv, err := account.VerifC07ValueAfterAccountUpdate(btcutil.Amount(cs.Acct.Value), outs, cs.Wt, chainfee.SatPerKWeight(cs.Rate))
		res := c07Res(err)
		if err == nil {
			res = fmt.Sprintf("ok %d", int64(nv))
			r.Distinct(fmt.Sprint(cs.Acct.Value, cs.Wt, cs.Rate, c07FmtOuts(outs)))
			// oracle: new = old - sum - rate*weight/1000 with the weight of the real serialisation
			tx := wire.NewMsgTx(2)
			tx.AddTxIn(&wire.TxIn{})
			tx.AddTxOut(&wire.TxOut{PkScript: make([]byte, 34)})
			sum := big.NewInt(0)
			for _, o := range outs {
				tx.AddTxOut(o)
				sum.Add(sum, big.NewInt(o.Value))
			}
			ws, _, _ := account.VerifC07WitnessSize(cs.Wt)
			wgt := int64(tx.SerializeSizeStripped())*4 + 2 + ws
			fee := new(big.Int).Quo(new(big.Int).Mul(big.NewInt(cs.Rate), big.NewInt(wgt)), big.NewInt(1000))
			want := new(big.Int).Sub(new(big.Int).Sub(big.NewInt(cs.Acct.Value), sum), fee)
			if want.Cmp(big.NewInt(int64(nv))) != 0 {
				r.Violate(fmt.Sprintf("valueAfterAccountUpdate: %d != old - outputs - rate*weight/1000 = %v", nv, want), "C07/vau", cs)
			}
			if nv < account.MinAccountValue {
				r.Violate("valueAfterAccountUpdate accepts a value below the minimum", "C07/vau", cs)
			}
		}
		r.Count("vau/" + strings.SplitN(res, " ", 2)[0] + c07Tail(res))
		r.Emit(fmt.Sprintf("C07 vau %d %d %d %s", cs.Acct.Value, cs.Wt, cs.Rate, c07FmtOuts(outs)), res)
	case "closeout":
		sc, _ := hex.DecodeString(cs.FeScript)
		outs, err := account.VerifC07CloseOutputs(&account.OutputWithFee{PkScript: sc, FeeRate: chainfee.SatPerKWeight(cs.Rate)},
			btcutil.Amount(cs.Acct.Value), cs.Wt)
		res := c07Res(err)
		if err == nil {
			res = "ok " + c07FmtOuts(outs)
			r.Distinct(fmt.Sprint(cs.Acct.Value, cs.Wt, cs.Rate, cs.FeScript))
			// oracle: single output to the requested script, value = old - rate*weight/1000
			tx := wire.NewMsgTx(2)
			tx.AddTxIn(&wire.TxIn{})
			tx.AddTxOut(&wire.TxOut{PkScript: sc})
			ws, _, _ := account.VerifC07WitnessSize(cs.Wt)
			wgt := int64(tx.SerializeSizeStripped())*4 + 2 + ws
			fee := new(big.Int).Quo(new(big.Int).Mul(big.NewInt(cs.Rate), big.NewInt(wgt)), big.NewInt(1000))
			want := new(big.Int).Sub(big.NewInt(cs.Acct.Value), fee)
			if len(outs) != 1 || !bytes.Equal(outs[0].PkScript, sc) {
				r.Violate("CloseOutputs: not a single output to the requested script", "C07/closeout", cs)
			} else if want.Cmp(big.NewInt(outs[0].Value)) != 0 {
				r.Count("oracle/close-fee")
				r.Violate(fmt.Sprintf("CloseOutputs: output %d != value - rate*weight/1000 = %v (weight %d)",
					outs[0].Value, want, wgt), "C07/close-fee-rate", cs)
			}
		}
		r.Count("closeout/" + strings.SplitN(res, " ", 2)[0] + c07Tail(res))
		r.Emit(fmt.Sprintf("C07 closeout %d %d %d %s", cs.Acct.Value, cs.Wt, cs.Rate, c07Hex(sc)), res)
	case "expiry":
		err := account.VerifC07ValidateAccountExpiry(cs.ExpH, cs.Best)
		res := c07Res(err)
		if err == nil {
			r.Distinct(fmt.Sprint("e", cs.ExpH, cs.Best))
			if uint64(cs.ExpH) < uint64(cs.Best)+144 || uint64(cs.ExpH) > uint64(cs.Best)+52560 {
				r.Count("oracle/expiry-window")
				r.Violate(fmt.Sprintf("validateAccountExpiry accepts expiry %d with best height %d", cs.ExpH, cs.Best),
					"C07/expiry-window", cs)
			}
		} else if uint64(cs.ExpH) >= uint64(cs.Best)+144 && uint64(cs.ExpH) <= uint64(cs.Best)+52560 {
			// not part of the property (a refusal is always safe); the flip side of the uint32 wrap
			r.Count("expiry/in-window-refused")
		}
		r.Count("expiry/" + res)
		r.Emit(fmt.Sprintf("C07 expiry %d %d", cs.ExpH, cs.Best), res)
	case "value":
		err := account.VerifC07ValidateAccountValue(btcutil.Amount(cs.Acct.Value), btcutil.Amount(cs.Max))
		res := c07Res(err)
		if (err == nil) != (cs.Acct.Value >= 100000 && cs.Acct.Value <= cs.Max) {
			r.Violate("validateAccountValue disagrees with [100000, max]", "C07/value", cs)
		}
		r.Count("value/" + res)
		r.Emit(fmt.Sprintf("C07 value %d %d", cs.Acct.Value, cs.Max), res)
	case "dust":
		o := c07CaseOuts(cs.Outs)[0]
		d := txrulesIsDust(o)
		if lim, ok := c07DustLimit(o.PkScript); ok && o.Value >= 0 && d != (o.Value < lim) {
			r.Violate("dust rule disagrees with the oracle's table", "C07/dust", cs)
		}
		cl := txscript.GetScriptClass(o.PkScript)
		r.Count("dust/" + cl.String())
		r.Emit("C07 dust "+c07FmtOuts([]*wire.TxOut{o}), fmt.Sprintf("%v %d", d, dustThreshold(o)))
		pc := "NonStandardTy"
		if p, err := txscript.ParsePkScript(o.PkScript); err == nil {
			pc = c07ClassName(p.Class())
		}
		r.Emit("C07 class "+c07Hex(o.PkScript), fmt.Sprintf("%s nd=%v un=%v wp=%v", pc,
			cl == txscript.NullDataTy, txscript.IsUnspendable(o.PkScript), txscript.IsWitnessProgram(o.PkScript)))
	case "wsize":
		s, ex, err := account.VerifC07WitnessSize(cs.Wt)
		res := "err"
		if err == nil {
			res = fmt.Sprintf("ok %d %v", s, ex)
		}
		r.Emit(fmt.Sprintf("C07 wsize %d", cs.Wt), res)
	case "sanity":
		acct := e.account(cs.Acct)
		tx := wire.NewMsgTx(2)
		tx.LockTime = cs.Lock
		var pins []psbt.PInput
		for _, in := range cs.Ins {
			var h chainhash.Hash
			_ = chainhash.Decode(&h, in.Hash)
			tx.AddTxIn(&wire.TxIn{PreviousOutPoint: wire.OutPoint{Hash: h, Index: in.Idx}})
			sc, _ := hex.DecodeString(in.S)
			pi := psbt.PInput{WitnessUtxo: &wire.TxOut{Value: in.V, PkScript: sc}}
			if in.Redeem > 0 {
				pi.RedeemScript = bytes.Repeat([]byte{0xab}, in.Redeem)
			}
			pins = append(pins, pi)
		}
		for _, o := range c07CaseOuts(cs.Outs) {
			tx.AddTxOut(o)
		}
		p := &psbt.Packet{UnsignedTx: tx, Inputs: pins, Outputs: make([]psbt.POutput, len(tx.TxOut))}
		var err error
		var pan interface{}
		func() {
			defer func() { pan = recover() }()
			err = account.VerifC07SanityCheck(acct, p, cs.Wt)
		}()
		res := c07Res(err)
		if pan != nil {
			res = "panic"
			r.Violate(fmt.Sprintf("sanityCheckAccountSpendTx panics: %v", pan), "C07/sanity", cs)
		}
		if err == nil && pan == nil {
			r.Distinct(fmt.Sprint("s", c07FmtCaseIns(cs.Ins), c07FmtCaseOuts(cs.Outs)))
			// oracle: accepted => no dust, fee >= floor, no negative outputs, distinct inputs
			for _, o := range tx.TxOut {
				if o.Value < 0 || c07IsDust(o) {
					r.Violate("sanity check accepts a dust / negative output", "C07/sanity", cs)
				}
			}
		}
		r.Count("sanity/" + res)
		r.Emit(fmt.Sprintf("C07 sanity %s %d %d %s %s", c07AcctTokens(cs.Acct), cs.Wt, cs.Lock,
			c07FmtCaseIns(cs.Ins), c07FmtCaseOuts(cs.Outs)), res)
	}
}

func txrulesIsDust(o *wire.TxOut) bool {
	return txrules.IsDustOutput(o, txrules.DefaultRelayFeePerKb)
}

func dustThreshold(o *wire.TxOut) int64 { return mempool.GetDustThreshold(o) }

// c07Features lists the property-listed defects a request carries, computed
// from the case alone.
func c07Features(cs *c07Case) []string {
	var f []string
	if cs.Kind != "close" && cs.NewVer < cs.Acct.Version {
		f = append(f, "downgrade")
	}
	if cs.Kind == "renew" || (cs.Kind != "close" && cs.ExpH != 0) {
		if uint64(cs.ExpH) < uint64(cs.Best)+144 || uint64(cs.ExpH) > uint64(cs.Best)+52560 {
			f = append(f, "expiry-out-of-window")
		}
	}
	if cs.Kind == "withdraw" || (cs.Kind == "close" && cs.FeKind == "imp") {
		var sum int64
		dust := false
		for _, o := range c07CaseOuts(cs.Outs) {
			sum += o.Value
			if o.Value >= 0 && c07IsDust(o) {
				dust = true
			}
		}
		if dust {
			f = append(f, "dust-output")
		}
		if cs.Kind == "withdraw" && cs.Acct.Value-sum < 100000 {
			f = append(f, "below-min")
		}
		if cs.Kind == "close" && sum > cs.Acct.Value {
			f = append(f, "overspend")
		}
	}
	if cs.Kind == "deposit" {
		if cs.Acct.Value+cs.Amount > cs.Max {
			f = append(f, "above-max")
		}
		if cs.Acct.Value+cs.Amount < 100000 {
			f = append(f, "below-min")
		}
	}
	if cs.Acct.State == uint8(account.StateExpired) || cs.Best >= cs.Acct.Expiry {
		f = append(f, "expired-path")
	}
	return f
}

func c07Tail(res string) string {
	if strings.HasPrefix(res, "err ") {
		return "/" + res[4:]
	}
	return ""
}

func c07ClassName(c txscript.ScriptClass) string {
	switch c {
	case txscript.PubKeyHashTy:
		return "PubKeyHashTy"
	case txscript.ScriptHashTy:
		return "ScriptHashTy"
	case txscript.WitnessV0PubKeyHashTy:
		return "WitnessV0PubKeyHashTy"
	case txscript.WitnessV0ScriptHashTy:
		return "WitnessV0ScriptHashTy"
	case txscript.WitnessV1TaprootTy:
		return "WitnessV1TaprootTy"
	}
	return "NonStandardTy"
}

func c07ConstsLine() string {
	v := []int64{int64(account.MinAccountValue), 144, 144 * 365,
		poolscript.MultiSigWitnessSize, poolscript.ExpiryWitnessSize,
		poolscript.TaprootMultiSigWitnessSize, poolscript.TaprootExpiryWitnessSize,
		input.InputSize, input.BaseTxSize, input.WitnessHeaderSize, blockchain.WitnessScaleFactor,
		input.P2PKHOutputSize, input.P2WKHOutputSize, input.P2WSHOutputSize, input.P2SHOutputSize,
		input.P2TROutputSize, input.P2PKHSize, input.P2WPKHSize, input.P2WSHSize, input.P2SHSize,
		input.P2TRSize, input.P2WKHWitnessSize, int64(chainfee.FeePerKwFloor), btcutil.MaxSatoshi,
		int64(lnwallet.DustLimitForSize(input.P2WPKHSize)), int64(lnwallet.DustLimitForSize(input.P2WSHSize)),
		int64(lnwallet.DustLimitForSize(input.P2SHSize)), int64(lnwallet.DustLimitForSize(input.P2PKHSize))}
	s := make([]string, len(v))
	for i, x := range v {
		s[i] = fmt.Sprint(x)
	}
	return strings.Join(s, " ")
}

// ---------------------------------------------------------------- runner

func runC07(r *Run) {
	r.Rule = "whole operations (withdraw/renew/close/deposit) through the real account.manager with recording " +
		"mock store/auctioneer/wallet: account value 100k..10 BTC incl. min edge, versions 0-2 with upgrades, " +
		"downgrades and unknown versions, all account states, fee rates 0..floor..1e6 sat/kw, 0-5 outputs of " +
		"P2WKH/P2SH/P2WSH/P2TR/P2PKH/nulldata/non-standard with dust-edge, over-spend and negative amounts, " +
		"expiries at the window edges incl. the uint32 wrap corner, cooperative and expiry paths, injected " +
		"collaborator faults; histories of 2-4 operations / quotes on ONE long-lived manager while the " +
		"auctioneer's maximum account value is lowered or raised between the steps (each step judged " +
		"against the terms in force); plus direct calls of valueAfterAccountUpdate, CloseOutputs, " +
		"sanityCheckAccountSpendTx, validateAccountExpiry/Value, dust rule; non-trivial = accepted operation " +
		"(distinct op line) or accepted pure call"
	x := &c07Run{r: r, e: newC07Env()}
	run := func(cs *c07Case) {
		switch cs.Kind {
		case "withdraw", "renew", "close", "deposit":
			x.execOp(cs)
		case "history":
			x.execHistory(cs)
		default:
			x.execPure(cs)
		}
	}
	for _, raw := range r.FixedCases() {
		var cs c07Case
		if json.Unmarshal(raw, &cs) != nil || cs.Kind == "" {
			continue
		}
		if x.hung >= 3 {
			break
		}
		r.Count("case/fixed")
		run(&cs)
	}
	if r.ReplayFile != "" {
		return
	}
	r.Emit("C07 consts", c07ConstsLine())
	for wt := 0; wt < 6; wt++ {
		run(&c07Case{Kind: "wsize", Wt: uint8(wt)})
	}
	g := &c07Gen{r: r, e: x.e}
	for c := 0; c < r.N; c++ {
		if len(r.Violations) >= 20 || x.hung >= 3 {
			r.Notes = append(r.Notes, fmt.Sprintf("stopped after %d cases: %d violations, %d hung operations", c, len(r.Violations), x.hung))
			break
		}
		run(g.genOp())
		if c%4 == 0 {
			run(g.genHistory())
		}
		for i := 0; i < 4; i++ {
			run(g.genPure())
		}
	}
}
