//go:build verif

package main

// The REAL rpcServer.RecoverAccounts (shim in package pool): key generation,
// the real Client.RecoverAccounts sweep against the fake auction stream, the
// RecoverAccount loop over everything the sweep returned and
// AdvanceAccountDerivationIndex - followed by a new InitAccount.

import (
	"bytes"
	"context"
	"fmt"
	"strings"

	"github.com/btcsuite/btcd/btcutil"
	"github.com/btcsuite/btcd/chaincfg"
	"github.com/btcsuite/btcd/wire"
	"github.com/lightninglabs/lndclient"
	pool "github.com/lightninglabs/pool"
	"github.com/lightninglabs/pool/account"
	"github.com/lightninglabs/pool/auctioneerrpc"
	"github.com/lightninglabs/pool/internal/test"
	"github.com/lightninglabs/pool/poolscript"
	"github.com/lightningnetwork/lnd/keychain"
	"github.com/lightningnetwork/lnd/lnwallet/chainfee"
)

// c20RpcAcct describes what the auctioneer knows about the key at `Index`.
type c20RpcAcct struct {
	Index int    // key index = account id (1..3)
	Kind  byte   // 'r' reservation only, 'f' full account
	Srv   int    // reported state of a full account
	Ver   int
	Knows bool   // reservation: the wallet knows the funding transaction
}

// lcRpcRecoverCase recovers the given accounts (key index 0 is unknown to the
// auctioneer) through the real rpc server into an empty store.
func lcRpcRecoverCase(r *Run, accts []c20RpcAcct) {
	e := newLcEnv(r)
	defer e.close()
	if err := e.mgr.Start(); err != nil {
		r.Violate("manager does not start: "+err.Error(), "C20/harness", nil)
		return
	}
	e.started = true
	e.deliverBlock(1001)
	e.height = 1001
	srv := &c20Server{answers: map[string]c20Answer{}}
	type expect struct {
		acct c20RpcAcct
		id   int
		out  *wire.TxOut
		tx   *wire.MsgTx
	}
	var exps []expect
	var toks []string
	maxIdx := 0
	for _, a := range accts {
		_, pub := test.CreateKey(int32(a.Index))
		desc := &keychain.KeyDescriptor{KeyLocator: keychain.KeyLocator{Family: poolscript.AccountKeyFamily,
			Index: uint32(a.Index)}, PubKey: pub}
		raw := pub.SerializeCompressed()
		bk := lcBatchKey
		if a.Kind == 'f' {
			bk = poolscript.IncrementKey(poolscript.IncrementKey(lcBatchKey))
		}
		onChain := &account.Account{Value: 500000, Expiry: 5000, TraderKey: desc, AuctioneerKey: lcAuctKey,
			BatchKey: bk, Secret: lcSecret, Version: account.Version(a.Ver)}
		out, err := onChain.Output()
		if err != nil {
			r.Violate("no output script", "C20/harness", nil)
			return
		}
		tx := wire.NewMsgTx(2)
		tx.AddTxIn(&wire.TxIn{Witness: wire.TxWitness{[]byte{1}, []byte{byte(a.Index)}}})
		tx.AddTxOut(&wire.TxOut{Value: 4242 + int64(a.Index), PkScript: lcP2WKH})
		tx.AddTxOut(out)
		e.txName(tx.TxHash())
		rep, _ := lcReported(auctioneerrpc.AuctionAccountState(a.Srv), uint32(a.Ver), tx, tx)
		rep.TraderKey = raw
		if a.Kind == 'r' {
			rep.BatchKey, rep.Outpoint, rep.LatestTx = lcBatchKeyRaw, nil, nil
			if a.Knows {
				e.wallet.txs = append(e.wallet.txs, lndclient.Transaction{Tx: tx})
			}
		}
		srv.answers[string(raw)] = c20Answer{kind: a.Kind, acct: rep}
		exps = append(exps, expect{a, e.acctID(pub), out, tx})
		toks = append(toks, fmt.Sprintf("%d:%c:%d:%d:%d:%d", e.acctID(pub), a.Kind, a.Srv, a.Ver, b2i(a.Knows),
			e.txName(tx.TxHash())))
		if a.Index > maxIdx {
			maxIdx = a.Index
		}
	}
	client, stop, err := c20Dial(srv)
	if err != nil {
		r.Violate("auction client: "+err.Error(), "C20/harness", nil)
		return
	}
	defer stop()
	e.wallet.nextKey = nil
	e.logMu.Lock()
	logFrom := len(e.log)
	e.logMu.Unlock()
	var n uint32
	rerr := lcGuard(func() error {
		var err error
		n, err = pool.VerifC20RecoverAccounts(context.Background(), e.mgr, client, e.wallet,
			&chaincfg.TestNet3Params, uint32(maxIdx+2))
		return err
	})
	line := "rpc " + strings.Join(toks, " ")
	r.Emit("C20 "+line, fmt.Sprintf("%s %d | %s | %s", lcRes(rerr), n, e.dump(), e.effects(logFrom)))
	r.Evaluations++
	r.Distinct(line)
	r.Count("rpc/cases")
	bad := func(what, key string) {
		r.Count("oracle/violation")
		r.Violate(line+": "+what, key, map[string]interface{}{"rpc": toks})
	}
	if rerr != nil {
		bad("RecoverAccounts failed: "+rerr.Error(), "C20/rpc-error")
		return
	}
	if e.wallet.fundCalls != 0 || e.wallet.pubCalls != 0 {
		bad("recovery moved funds", "C20/funds-moved")
	}
	// every account the auctioneer reported is stored; live ones are watched
	for _, x := range exps {
		rec, err := e.db.Account(e.accts[x.id].key.PubKey)
		if err != nil {
			bad(fmt.Sprintf("account at key index %d (%c) was reported by the auctioneer but is not stored", x.acct.Index,
				x.acct.Kind), "C20/rpc-account-dropped")
			continue
		}
		r.Count(fmt.Sprintf("rpc/%v", rec.State))
		funded := x.acct.Kind == 'f' || x.acct.Knows
		if funded && rec.State.IsActive() {
			recOut, _ := rec.Output()
			if rec.OutPoint.Hash != x.tx.TxHash() || recOut == nil || !bytes.Equal(recOut.PkScript, x.out.PkScript) {
				bad(fmt.Sprintf("account at key index %d: record %v does not describe the on-chain output", x.acct.Index,
					rec.OutPoint), "C20/record-mismatch")
			}
		}
	}
	if what, key := e.oracle(lcSnap{state: map[int]account.State{}, rec: map[int]string{}}, logFrom, "", false, nil); what != "" {
		bad("after recovery: "+what, "C20/"+key)
	}
	// the wallet's key counter is past every recovered key: the next account
	// gets a fresh key
	before := map[int]string{}
	for _, x := range exps {
		if rec, err := e.db.Account(e.accts[x.id].key.PubKey); err == nil {
			before[x.id] = e.fmtAcct(rec)
		}
	}
	if int(e.wallet.keyCount) <= maxIdx {
		bad(fmt.Sprintf("after recovering accounts up to key index %d the wallet's next pool account key is #%d",
			maxIdx, e.wallet.keyCount), "C20/derivation-index")
	}
	_, ierr := e.mgr.InitAccount(context.Background(), btcutil.Amount(300000), account.VersionTaprootEnabled,
		chainfee.FeePerKwFloor, e.height+144+700, e.height)
	r.Count("rpc/init-after-recovery")
	for _, x := range exps {
		rec, err := e.db.Account(e.accts[x.id].key.PubKey)
		if err != nil || e.fmtAcct(rec) != before[x.id] {
			got := "<missing>"
			if err == nil {
				got = e.fmtAcct(rec)
			}
			bad(fmt.Sprintf("opening a new account after the recovery (err=%v) changed the recovered account at key index %d: %s -> %s",
				ierr, x.acct.Index, before[x.id], got), "C20/recovered-overwritten")
		}
	}
}

func runC20Rpc(r *Run) {
	cases := [][]c20RpcAcct{
		{{1, 'f', 2, 0, false}},
		{{1, 'r', 0, 1, false}, {2, 'f', 2, 0, false}, {3, 'f', 3, 2, false}},
		{{1, 'f', 5, 1, false}, {2, 'r', 0, 0, false}, {3, 'f', 6, 2, false}},
		{{1, 'r', 0, 2, true}, {2, 'r', 0, 0, false}, {3, 'f', 2, 1, false}},
		{{2, 'f', 1, 0, false}, {3, 'f', 4, 1, false}},
		{{3, 'f', 3, 2, false}},
		{{1, 'r', 0, 0, false}, {2, 'r', 0, 1, false}, {3, 'f', 1, 2, false}},
	}
	for _, c := range cases {
		lcRpcRecoverCase(r, c)
	}
	// AdvanceAccountDerivationIndex as a function of (key count, minimum index)
	for count := uint32(0); count <= 6; count++ {
		for min := uint32(0); min <= 6; min++ {
			w := &lcWallet{keyCount: count}
			err := account.AdvanceAccountDerivationIndex(context.Background(), min, w, &chaincfg.TestNet3Params)
			res := fmt.Sprint(w.keyCount)
			if err != nil {
				res = "error"
			}
			r.Emit(fmt.Sprintf("C20 advance %d %d", count, min), res)
			r.Count("advance/cases")
			if err == nil && w.keyCount <= min {
				r.Count("oracle/violation")
				r.Violate(fmt.Sprintf("AdvanceAccountDerivationIndex(minimumIndex=%d) on a wallet with %d keys leaves %d keys: the next "+
					"derived key has index %d <= %d", min, count, w.keyCount, w.keyCount, min), "C20/derivation-index",
					map[string]interface{}{"count": count, "min": min})
			}
		}
	}
}
