//go:build verif

package main

import (
	"fmt"

	"github.com/lightninglabs/pool/order"
	"github.com/lightninglabs/pool/sidecar"
)

// clearOptional resets every optional term of an order spec to its default.
func (o *c10Order) clearOptional() {
	o.ChannelType, o.Allowed, o.NotAllowed, o.IsPublic, o.AuctionType = 0, nil, nil, false, 0
	o.Announcement, o.Confirmation = 0, 0
	o.MinNodeTier, o.SelfChanBalance, o.Ticket, o.Unannounced, o.ZeroConf = 0, 0, nil, false, false
	o.MinUnitsMatch = 1
}

// c10OptionalTerms names the optional terms of the property statement.
var c10OptionalTerms = []string{
	"self-chan-balance", "sidecar-ticket", "channel-type", "allowed", "not-allowed", "unannounced",
	"zero-conf", "announcement", "confirmation", "auction-type", "public", "node-tier", "min-units-match",
}

// setTerm sets one optional term to a non-default value; false when the term
// does not exist for the order's type.
func (g *c10Gen) setTerm(o *c10Order, term string) bool {
	switch term {
	case "self-chan-balance":
		o.SelfChanBalance = 1 + g.rng.Int63n(1<<40)
		return o.Bid
	case "sidecar-ticket":
		o.Ticket = g.ticket()
		return o.Bid && o.Ticket != nil
	case "channel-type":
		o.ChannelType = uint8(1 + g.rng.Intn(2))
	case "allowed":
		o.Allowed = []string{g.hexN(33)}
	case "not-allowed":
		o.NotAllowed = []string{g.hexN(33)}
	case "unannounced":
		o.Unannounced = true
		return o.Bid
	case "zero-conf":
		o.ZeroConf = true
		return o.Bid
	case "announcement":
		o.Announcement = uint8(1 + g.rng.Intn(2))
		return !o.Bid
	case "confirmation":
		o.Confirmation = uint8(1 + g.rng.Intn(2))
		return !o.Bid
	case "auction-type":
		o.AuctionType = 1
	case "public":
		o.IsPublic = true
	case "node-tier":
		o.MinNodeTier = uint32(1 + g.rng.Intn(2))
		return o.Bid
	case "min-units-match":
		o.MinUnitsMatch = 2 + uint64(g.rng.Intn(50))
	}
	return true
}

// orderSpecOneHot draws an order with exactly ONE optional term off its
// default (term "" = none), so that a term forgotten by a writer or reader is
// not masked by the others. Returns the term that was set.
func (g *c10Gen) orderSpecOneHot(bid bool, tag string) (*c10Order, string) {
	ck := fmt.Sprint(tag, bid)
	o := g.orderSpec(bid)
	o.clearOptional()
	for try := 0; try < 20; try++ {
		// cycle through the terms so that every one of them is hit in every run
		g.oneHot[ck]++
		i := g.oneHot[ck] % (len(c10OptionalTerms) + 1)
		if i == len(c10OptionalTerms) {
			return o, "none"
		}
		o.clearOptional()
		if g.setTerm(o, c10OptionalTerms[i]) {
			return o, c10OptionalTerms[i]
		}
	}
	o.clearOptional()
	return o, "none"
}

// orderSpecMixed: one-hot half of the time, an arbitrary subset otherwise.
func (c *c10Run) orderSpecMixed(bid bool, tag string) *c10Order {
	if c.r.Rng.Intn(2) == 0 {
		o, term := c.g.orderSpecOneHot(bid, tag)
		c.r.Count(tag + "/one-hot-" + term)
		return o
	}
	return c.g.orderSpec(bid)
}

// c10TicketWithNonce is the ticket as AddSidecarWithBid stores it: the order
// part carries the bid's nonce.
func c10TicketWithNonce(tk *sidecar.Ticket, nonce string) *sidecar.Ticket {
	res := *tk
	res.Order = &sidecar.Order{}
	copy(res.Order.BidNonce[:], unhexOr(nonce))
	return &res
}

// templateDB: sidecar bid templates through the real AddSidecarWithBid /
// SidecarBidTemplate / Sidecar, several per database, with close/reopen; after
// every write every stored template and ticket is read back; the raw template
// bucket goes to the model.
func (c *c10Run) templateDB(n int) {
	r := c.r
	c.nDB++
	path := fmt.Sprintf("%s/t%d", c.dir, c.nDB)
	db := c.openDB(path)
	defer func() { db.Close() }()

	type entry struct {
		ticket *c10Ticket
		bid    *c10Order
	}
	var entries []entry
	seenT, seenN := map[string]bool{}, map[string]bool{}
	checkAll := func(step string, written int) {
		for i, e := range entries {
			tk := e.ticket.build()
			wantBid := e.bid.build()
			y, err := db.SidecarBidTemplate(c10TicketWithNonce(tk, e.bid.Nonce))
			r.Evaluations++
			if err != nil || y == nil || renderOrder(y) != renderOrder(wantBid) {
				got := fmt.Sprint(err)
				if err == nil && y != nil {
					got = renderOrder(y)
				}
				key, what := "C10/template-roundtrip", "sidecar bid template does not read back equal"
				if i != written {
					key, what = "C10/template-crosstalk", "writing one bid template altered another"
				}
				r.Count("oracle/violation")
				r.Violate(fmt.Sprintf("%s (%s): wrote %s, read %s", what, step, renderOrder(wantBid), got),
					key, c10Case{Kind: "template", Order: e.bid, Ticket: e.ticket})
				continue
			}
			// the ticket stored next to it (with the bid nonce applied)
			want := *c10TicketWithNonce(tk, e.bid.Nonce)
			yt, err := db.Sidecar(want.ID, want.Offer.SignPubKey)
			if err != nil || renderTicket(yt) != renderTicket(&want) {
				r.Count("oracle/violation")
				r.Violate(fmt.Sprintf("sidecar ticket stored with a bid template does not read back equal (%s): %v",
					step, err), "C10/template-ticket", c10Case{Kind: "template", Order: e.bid, Ticket: e.ticket})
			}
			if i == written {
				base, mu, tlvB, tier, ok := db.VerifC10RawBidTemplate(order.Nonce(arr32(e.bid.Nonce)))
				if ok {
					rec := &c10OrderRec{base, mu, tlvB, tier}
					exp := "ok " + renderOrder(y) + " re=" + b2s(c.goReOrder(y, rec))
					r.Emit("C10 order "+e.bid.Nonce+" "+rec.tokens(), exp)
					r.Distinct(exp)
				}
			}
		}
	}
	for i := 0; i < n; i++ {
		if len(entries) > 0 && r.Rng.Intn(4) == 0 {
			db.Close()
			db = c.openDB(path)
			r.Count("templatedb/reopen")
			checkAll("reopen", -1)
			continue
		}
		tk := c.g.ticket()
		if tk == nil {
			continue
		}
		tk.HasOrder = false // AddSidecarWithBid sets the order part itself
		bid := c.orderSpecMixed(true, "template")
		if seenT[tk.ID+tk.SignPubKey] || seenN[bid.Nonce] {
			continue
		}
		b := bid.build().(*order.Bid)
		if err := db.AddSidecarWithBid(tk.build(), b); err != nil {
			r.Count("template/add-error")
			continue
		}
		seenT[tk.ID+tk.SignPubKey], seenN[bid.Nonce] = true, true
		entries = append(entries, entry{tk, bid})
		r.Count("templatedb/add")
		c.countOrder(bid, "template")
		checkAll("add", len(entries)-1)
	}
}

// templateFixed replays one template through a fresh database.
func (c *c10Run) templateFixed(tk *c10Ticket, bid *c10Order) {
	r := c.r
	c.nDB++
	path := fmt.Sprintf("%s/tf%d", c.dir, c.nDB)
	db := c.openDB(path)
	defer db.Close()
	b := bid.build().(*order.Bid)
	if db.AddSidecarWithBid(tk.build(), b) != nil {
		return
	}
	y, err := db.SidecarBidTemplate(c10TicketWithNonce(tk.build(), bid.Nonce))
	r.Evaluations++
	if err != nil || y == nil || renderOrder(y) != renderOrder(bid.build()) {
		r.Count("oracle/violation")
		r.Violate("sidecar bid template does not read back equal", "C10/template-roundtrip",
			c10Case{Kind: "template", Order: bid, Ticket: tk})
	}
}
