//go:build verif

package main

// Environment shared by the C08 and C20 runners: the REAL account manager,
// watcher controller, expiry watcher, clientdb (bbolt) store and batch storer,
// driven through a schedule-controlled mock chain notifier, mock wallet, mock
// signer and mock auctioneer. Every chain event is delivered through the
// registration the real controller made; the harness waits for the real
// handler to return before the next op, so histories are deterministic.

import (
	"bytes"
	"context"
	"encoding/hex"
	"errors"
	"fmt"
	"os"
	"runtime"
	"sort"
	"strings"
	"sync"
	"sync/atomic"
	"time"

	"github.com/btcsuite/btcd/btcec/v2"
	"github.com/btcsuite/btcd/btcec/v2/schnorr"
	"github.com/btcsuite/btcd/btcutil"
	"github.com/btcsuite/btcd/btcutil/psbt"
	"github.com/btcsuite/btcd/chaincfg"
	"github.com/btcsuite/btcd/chaincfg/chainhash"
	"github.com/btcsuite/btcd/txscript"
	"github.com/btcsuite/btcd/wire"
	"github.com/btcsuite/btcwallet/wtxmgr"
	"github.com/lightninglabs/lndclient"
	"github.com/lightninglabs/pool/account"
	"github.com/lightninglabs/pool/account/watcher"
	"github.com/lightninglabs/pool/clientdb"
	"github.com/lightninglabs/pool/internal/test"
	"github.com/lightninglabs/pool/order"
	"github.com/lightninglabs/pool/poolscript"
	"github.com/lightninglabs/pool/terms"
	"github.com/lightningnetwork/lnd/chainntnfs"
	"github.com/lightningnetwork/lnd/input"
	"github.com/lightningnetwork/lnd/keychain"
	"github.com/lightningnetwork/lnd/lnrpc/chainrpc"
	"github.com/lightningnetwork/lnd/lnrpc/signrpc"
	"github.com/lightningnetwork/lnd/lnrpc/verrpc"
	"github.com/lightningnetwork/lnd/lnrpc/walletrpc"
	"github.com/lightningnetwork/lnd/lnwallet/chainfee"
	"google.golang.org/grpc/codes"
	"google.golang.org/grpc/status"
)

const (
	lcMaxAccountValue = 2 * btcutil.SatoshiPerBitcoin
	lcNumAccts        = 3
)

var (
	lcAuctKeyRaw, _  = hex.DecodeString("02187d1a0e30f4e5016fc1137363ee9e7ed5dde1e6c50f367422336df7a108b716")
	lcAuctKey, _     = btcec.ParsePubKey(lcAuctKeyRaw)
	lcBatchKeyRaw, _ = hex.DecodeString("02824d0cbac65e01712124c50ff2cc74ce22851d7b444c1bf2ae66afefb8eaf27f")
	lcBatchKey, _    = btcec.ParsePubKey(lcBatchKeyRaw)
	lcSecret         = [32]byte{0x73, 0x65, 0x63, 0x72, 0x65, 0x74}
	lcP2WKH, _       = hex.DecodeString("0014ccdeffed4f9c91d5bf45c34e4b8f03a5025ec062")
	lcNP2WKH, _      = hex.DecodeString("a91458c11505b54582ab04e96d36908f85a8b689459787")
	lcP2TR, _        = hex.DecodeString("5120bb91443dd777945ef4422cffddec00d5feed2aca2562a902fbe8d2a258b337da")
)

// ---------------------------------------------------------------- effect log

type lcEvent struct {
	Kind  byte // 'W' store write, 'P' PublishTransaction, 'F' SendOutputs
	Acct  int
	State account.State
	Tx    chainhash.Hash // latest tx of the written record / published tx
	HasTx bool
	Value int64
}

// ---------------------------------------------------------------- store

// lcStore is the real clientdb.DB with a write log.
type lcStore struct {
	*clientdb.DB
	env *lcEnv
}

func (s *lcStore) logWrite(a *account.Account) {
	ev := lcEvent{Kind: 'W', Acct: s.env.acctID(a.TraderKey.PubKey), State: a.State}
	// what the database holds, not the in-memory struct
	if dbA, err := s.DB.Account(a.TraderKey.PubKey); err == nil {
		ev.State = dbA.State
		if dbA.LatestTx != nil {
			ev.Tx, ev.HasTx = dbA.LatestTx.TxHash(), true
		}
	}
	s.env.addEvent(ev)
}

func (s *lcStore) AddAccount(a *account.Account) error {
	err := s.DB.AddAccount(a)
	if err == nil {
		s.logWrite(a)
	}
	return err
}

func (s *lcStore) UpdateAccount(a *account.Account, mods ...account.Modifier) error {
	err := s.DB.UpdateAccount(a, mods...)
	if err == nil {
		s.logWrite(a)
	}
	return err
}

// lcBarrier makes two concurrently running spend handlers meet inside
// Store.PendingBatch(): the first caller waits (bounded) for a second one. If
// the manager serialises the handlers with its pending-batch mutex the second
// caller cannot arrive and the first one continues after the timeout.
type lcBarrier struct {
	mu    sync.Mutex
	n     int
	first chan struct{}
	both  chan struct{}
}

func newLcBarrier() *lcBarrier {
	return &lcBarrier{first: make(chan struct{}), both: make(chan struct{})}
}

func (b *lcBarrier) arrive() {
	b.mu.Lock()
	b.n++
	n := b.n
	switch n {
	case 1:
		close(b.first)
	case 2:
		close(b.both)
	}
	b.mu.Unlock()
	if n == 1 {
		select {
		case <-b.both:
		case <-time.After(30 * time.Millisecond):
		}
	}
}

// PendingBatch mirrors pool's rpcserver.go accountStore wrapper.
func (s *lcStore) PendingBatch() error {
	if b := s.env.barrier; b != nil {
		b.arrive()
	}
	_, err := s.DB.PendingBatchSnapshot()
	return err
}

func (s *lcStore) MarkBatchComplete() error {
	err := s.DB.MarkBatchComplete()
	if err == nil {
		for _, k := range s.env.batchAccts {
			if a, err := s.DB.Account(s.env.accts[k].key.PubKey); err == nil {
				s.logWrite(a)
			}
		}
		s.env.batchAccts = nil
		s.env.batchTx = nil
	}
	return err
}

// ---------------------------------------------------------------- notifier

type lcReg struct {
	seq     int
	acct    int
	conf    bool
	txid    chainhash.Hash
	op      wire.OutPoint
	script  []byte
	ctx     context.Context
	confCh  chan *chainntnfs.TxConfirmation
	spendCh chan *chainntnfs.SpendDetail
	errCh   chan error
	fired   bool
	errSent bool
}

func (r *lcReg) live() bool { return !r.fired && r.ctx.Err() == nil }

type lcNotifier struct {
	lndclient.ChainNotifierClient
	mu      sync.Mutex
	env     *lcEnv
	regs    []*lcReg
	blockCh chan int32
	dead    bool
}

func (n *lcNotifier) RawClientWithMacAuth(ctx context.Context) (context.Context,
	time.Duration, chainrpc.ChainNotifierClient) {

	return ctx, 0, nil
}

func (n *lcNotifier) RegisterBlockEpochNtfn(ctx context.Context) (chan int32,
	chan error, error) {

	return n.blockCh, make(chan error), nil
}

func (n *lcNotifier) RegisterConfirmationsNtfn(ctx context.Context,
	txid *chainhash.Hash, pkScript []byte, numConfs, heightHint int32,
	opts ...lndclient.NotifierOption) (chan *chainntnfs.TxConfirmation,
	chan error, error) {

	owner := n.owner(pkScript)
	n.mu.Lock()
	defer n.mu.Unlock()
	r := &lcReg{
		seq: len(n.regs), acct: owner, conf: true, txid: *txid,
		script: append([]byte(nil), pkScript...), ctx: ctx,
		confCh: make(chan *chainntnfs.TxConfirmation), errCh: make(chan error),
	}
	n.regs = append(n.regs, r)
	return r.confCh, r.errCh, nil
}

func (n *lcNotifier) RegisterSpendNtfn(ctx context.Context,
	outpoint *wire.OutPoint, pkScript []byte,
	heightHint int32) (chan *chainntnfs.SpendDetail, chan error, error) {

	owner := n.owner(pkScript)
	n.mu.Lock()
	defer n.mu.Unlock()
	r := &lcReg{
		seq: len(n.regs), acct: owner, op: *outpoint,
		script: append([]byte(nil), pkScript...), ctx: ctx,
		spendCh: make(chan *chainntnfs.SpendDetail), errCh: make(chan error),
	}
	n.regs = append(n.regs, r)
	return r.spendCh, r.errCh, nil
}

// owner attributes a registration to the account whose script it watches
// (handlers of different accounts may register concurrently).
func (n *lcNotifier) owner(pkScript []byte) int {
	n.env.scriptMu.Lock()
	defer n.env.scriptMu.Unlock()
	if id := n.env.acctOfScript(pkScript); id != 0 {
		return id
	}
	return n.env.curKey
}

// flushCancels does what lnd's client does for a registration whose context
// was cancelled: the stream ends with a gRPC Canceled error, which the
// controller's watcher goroutine receives on its error channel; the goroutine
// then winds down (and runs its deferred clean-up). The harness delivers these
// errors at the end of the op that cancelled, i.e. after a replacing
// registration was made.
func (n *lcNotifier) flushCancels() int {
	n.mu.Lock()
	var pend []*lcReg
	if !n.dead {
		for _, r := range n.regs {
			if !r.fired && !r.errSent && r.ctx.Err() != nil {
				r.errSent = true
				pend = append(pend, r)
			}
		}
	}
	n.mu.Unlock()
	for _, r := range pend {
		select {
		case r.errCh <- status.Error(codes.Canceled, "context canceled"):
		case <-time.After(2 * time.Second):
			continue
		}
		// let the goroutine finish its deferred clean-up (it deletes the map entry)
		key := n.env.accts[r.acct]
		for i := 0; i < 200; i++ {
			runtime.Gosched()
			if key == nil || !watcher.VerifLifecycleHasCancel(n.env.ctrl.real, key.key.PubKey, r.conf) {
				break
			}
			time.Sleep(10 * time.Microsecond)
		}
		time.Sleep(150 * time.Microsecond)
	}
	return len(pend)
}

// liveRegs returns the live registrations of one account in registration
// order.
func (n *lcNotifier) liveRegs(acct int, conf bool) []*lcReg {
	n.mu.Lock()
	defer n.mu.Unlock()
	var res []*lcReg
	if n.dead {
		return nil
	}
	for _, r := range n.regs {
		if r.acct == acct && r.conf == conf && r.live() {
			res = append(res, r)
		}
	}
	return res
}

// ---------------------------------------------------------------- controller / handler recorders

type lcCtrl struct {
	real watcher.Controller
	env  *lcEnv
}

func (c *lcCtrl) Start() error { return c.real.Start() }
func (c *lcCtrl) Stop()        { c.real.Stop() }
func (c *lcCtrl) WatchAccountConf(k *btcec.PublicKey, h chainhash.Hash,
	script []byte, numConfs, hint uint32) error {

	c.env.curKey = c.env.acctID(k)
	c.env.count("ctrl/WatchAccountConf")
	return c.real.WatchAccountConf(k, h, script, numConfs, hint)
}
func (c *lcCtrl) CancelAccountConf(k *btcec.PublicKey) {
	c.env.count("ctrl/CancelAccountConf")
	c.real.CancelAccountConf(k)
}
func (c *lcCtrl) WatchAccountSpend(k *btcec.PublicKey, op wire.OutPoint,
	script []byte, hint uint32) error {

	c.env.curKey = c.env.acctID(k)
	c.env.count("ctrl/WatchAccountSpend")
	return c.real.WatchAccountSpend(k, op, script, hint)
}
func (c *lcCtrl) CancelAccountSpend(k *btcec.PublicKey) {
	c.env.count("ctrl/CancelAccountSpend")
	c.real.CancelAccountSpend(k)
}
func (c *lcCtrl) WatchAccountExpiration(k *btcec.PublicKey, expiry uint32) {
	c.env.count("ctrl/WatchAccountExpiration")
	if expiry <= c.env.watcherBest {
		// the expiry watcher hands this off to HandleAccountExpiry in
		// a goroutine: the op is only complete once it has returned
		c.env.count("ctrl/WatchAccountExpiration/immediate")
		atomic.AddInt64(&c.env.asyncExpected, 1)
	}
	c.real.WatchAccountExpiration(k, expiry)
}

type lcHandler struct {
	real watcher.EventHandler
	env  *lcEnv
}

func (h *lcHandler) HandleAccountConf(k *btcec.PublicKey, c *chainntnfs.TxConfirmation) error {
	err := h.real.HandleAccountConf(k, c)
	h.env.lastHandlerErr = err
	h.env.confDone <- struct{}{}
	return err
}
func (h *lcHandler) HandleAccountSpend(k *btcec.PublicKey, s *chainntnfs.SpendDetail) error {
	var err error
	func() {
		defer func() {
			if p := recover(); p != nil {
				err = &lcPanic{v: p}
			}
		}()
		err = h.real.HandleAccountSpend(k, s)
	}()
	h.env.logMu.Lock()
	if h.env.handlerErr == nil {
		h.env.handlerErr = map[int]error{}
	}
	h.env.handlerErr[h.env.acctID(k)] = err
	h.env.logMu.Unlock()
	h.env.lastHandlerErr = err
	h.env.spendDone <- struct{}{}
	return err
}
func (h *lcHandler) HandleAccountExpiry(k *btcec.PublicKey, height uint32) error {
	err := h.real.HandleAccountExpiry(k, height)
	h.env.logMu.Lock()
	h.env.expiryCalls = append(h.env.expiryCalls, lcExpiryCall{acct: h.env.acctID(k), height: height, best: h.env.height})
	h.env.logMu.Unlock()
	atomic.AddInt64(&h.env.expiryDone, 1)
	return err
}

// lcExpiryCall is one expiry hand-off the real manager received.
type lcExpiryCall struct {
	acct   int
	height uint32 // height reported by the watcher
	best   uint32 // chain height known to the harness at that moment
}

// ---------------------------------------------------------------- wallet

type lcWallet struct {
	account.TxSource
	lndclient.WalletKitClient
	env         *lcEnv
	mu          sync.Mutex
	txs         []lndclient.Transaction
	nextKey     *keychain.KeyDescriptor
	failFunding bool
	failList    bool // fault injection: ListTransactions fails
	keyCount    uint32 // pool account keys derived so far (DeriveNextKey without nextKey)
	utxoSeq     uint32
	fundSeq     uint32
	fundCalls   int
	pubCalls    int
}

func (w *lcWallet) RawClientWithMacAuth(ctx context.Context) (context.Context,
	time.Duration, walletrpc.WalletKitClient) {

	return ctx, 0, nil
}
func (w *lcWallet) DeriveNextKey(_ context.Context, family int32) (*keychain.KeyDescriptor, error) {
	if w.nextKey != nil {
		return w.nextKey, nil
	}
	// a wallet that hands out its pool account keys in index order
	w.mu.Lock()
	defer w.mu.Unlock()
	idx := w.keyCount
	w.keyCount++
	_, pub := test.CreateKey(int32(idx))
	return &keychain.KeyDescriptor{
		KeyLocator: keychain.KeyLocator{Family: keychain.KeyFamily(family), Index: idx}, PubKey: pub,
	}, nil
}

// ListAccounts reports the pool account key family with its key count.
func (w *lcWallet) ListAccounts(context.Context, string, walletrpc.AddressType) ([]*walletrpc.Account, error) {
	w.mu.Lock()
	defer w.mu.Unlock()
	return []*walletrpc.Account{
		{Name: "default", DerivationPath: "m/84'/1'/0'", ExternalKeyCount: 7},
		{Name: "act:220", DerivationPath: fmt.Sprintf("m/%d'/%d'/%d'", keychain.BIP0043Purpose,
			chaincfg.TestNet3Params.HDCoinType, poolscript.AccountKeyFamily), ExternalKeyCount: w.keyCount},
	}, nil
}
func (w *lcWallet) DeriveKey(_ context.Context, l *keychain.KeyLocator) (*keychain.KeyDescriptor, error) {
	_, pub := test.CreateKey(int32(l.Index))
	return &keychain.KeyDescriptor{KeyLocator: *l, PubKey: pub}, nil
}
func (w *lcWallet) PublishTransaction(_ context.Context, tx *wire.MsgTx, _ string) error {
	w.mu.Lock()
	w.pubCalls++
	w.mu.Unlock()
	w.env.addEvent(lcEvent{Kind: 'P', Acct: w.env.acctOfTx(tx), Tx: tx.TxHash(), HasTx: true})
	w.env.noteSpender(tx)
	return nil
}
func (w *lcWallet) SendOutputs(_ context.Context, outputs []*wire.TxOut,
	_ chainfee.SatPerKWeight, _ string) (*wire.MsgTx, error) {

	w.mu.Lock()
	defer w.mu.Unlock()
	w.fundCalls++
	if w.failFunding {
		return nil, errors.New("insufficient funds")
	}
	w.utxoSeq++
	tx := wire.NewMsgTx(2)
	tx.AddTxIn(&wire.TxIn{
		PreviousOutPoint: wire.OutPoint{Hash: chainhash.Hash{0xaa, byte(w.utxoSeq), byte(w.utxoSeq >> 8)}, Index: 0},
		Witness:          wire.TxWitness{[]byte{1}, []byte{2}},
	})
	// a change output in front so that the account output is not always #0
	if w.utxoSeq%2 == 0 {
		tx.AddTxOut(&wire.TxOut{Value: 12345, PkScript: lcP2WKH})
	}
	for _, o := range outputs {
		tx.AddTxOut(&wire.TxOut{Value: o.Value, PkScript: o.PkScript})
	}
	w.txs = append(w.txs, lndclient.Transaction{Tx: tx})
	acct := 0
	if len(outputs) == 1 {
		acct = w.env.acctOfScript(outputs[0].PkScript)
		w.env.addEvent(lcEvent{Kind: 'F', Acct: acct, Value: outputs[0].Value})
	}
	return tx, nil
}
func (w *lcWallet) NextAddr(_ context.Context, _ string, t walletrpc.AddressType, _ bool) (btcutil.Address, error) {
	if t == walletrpc.AddressType_TAPROOT_PUBKEY {
		return btcutil.NewAddressTaproot(make([]byte, 32), &chaincfg.MainNetParams)
	}
	return btcutil.NewAddressWitnessPubKeyHash(make([]byte, 20), &chaincfg.MainNetParams)
}
func (w *lcWallet) ListTransactions(context.Context, int32, int32,
	...lndclient.ListTransactionsOption) ([]lndclient.Transaction, error) {

	w.mu.Lock()
	defer w.mu.Unlock()
	if w.failList {
		return nil, errors.New("rpc error: wallet unavailable")
	}
	return append([]lndclient.Transaction(nil), w.txs...), nil
}
func (w *lcWallet) ReleaseOutput(context.Context, wtxmgr.LockID, wire.OutPoint) error { return nil }
func (w *lcWallet) EstimateFeeRate(context.Context, int32) (chainfee.SatPerKWeight, error) {
	return chainfee.FeePerKwFloor, nil
}
func (w *lcWallet) EstimateFeeToP2WSH(context.Context, btcutil.Amount, int32) (btcutil.Amount, error) {
	return 1000, nil
}
func (w *lcWallet) BumpFee(context.Context, wire.OutPoint, chainfee.SatPerKWeight,
	...lndclient.BumpFeeOption) error {

	return nil
}

// FundPsbt funds the single template output from a fresh fake P2WKH UTXO and
// adds a change output.
func (w *lcWallet) FundPsbt(_ context.Context, req *walletrpc.FundPsbtRequest) (*psbt.Packet,
	int32, []*walletrpc.UtxoLease, error) {

	tpl, err := psbt.NewFromRawBytes(bytes.NewReader(req.GetPsbt()), false)
	if err != nil {
		return nil, 0, nil, err
	}
	if len(tpl.UnsignedTx.TxOut) != 1 {
		return nil, 0, nil, errors.New("template must have one output")
	}
	w.mu.Lock()
	w.utxoSeq++
	seq := w.utxoSeq
	w.mu.Unlock()
	const utxoValue = 5 * btcutil.SatoshiPerBitcoin
	out := tpl.UnsignedTx.TxOut[0]
	change := int64(utxoValue) - out.Value - 3000
	if change < 1000 {
		return nil, 0, nil, errors.New("insufficient funds")
	}
	tx := wire.NewMsgTx(2)
	tx.AddTxIn(&wire.TxIn{PreviousOutPoint: wire.OutPoint{
		Hash: chainhash.Hash{0xbb, byte(seq), byte(seq >> 8)}, Index: 1,
	}})
	tx.AddTxOut(&wire.TxOut{Value: out.Value, PkScript: out.PkScript})
	tx.AddTxOut(&wire.TxOut{Value: change, PkScript: lcP2WKH})
	pin := psbt.PInput{
		WitnessUtxo: &wire.TxOut{Value: int64(utxoValue), PkScript: lcP2WKH},
		PartialSigs: []*psbt.PartialSig{{Signature: []byte{1, 2, 3}}},
	}
	w.fundSeq++
	switch w.env.r.Rng.Intn(4) {
	case 0, 2:
		// lnd's coin selection picked a nested P2WKH UTXO: the input carries a redeem
		// script, whose push becomes the signature script (and part of the txid)
		pin.WitnessUtxo.PkScript = lcNP2WKH
		pin.RedeemScript = lcP2WKH
		w.env.r.Count("fund/np2wkh-input")
	case 1:
		pin.WitnessUtxo.PkScript = lcP2TR
		w.env.r.Count("fund/p2tr-input")
	default:
		w.env.r.Count("fund/p2wkh-input")
	}
	p := &psbt.Packet{
		UnsignedTx: tx,
		Inputs:     []psbt.PInput{pin},
		Outputs:    []psbt.POutput{{}, {}},
	}
	return p, 1, nil, nil
}

func (w *lcWallet) SignPsbt(_ context.Context, p *psbt.Packet) (*psbt.Packet, error) {
	for i := range p.Inputs {
		p.Inputs[i].PartialSigs = []*psbt.PartialSig{{
			Signature: []byte{33, 44, 55, 66, byte(txscript.SigHashAll)},
		}}
		p.Inputs[i].TaprootScriptSpendSig = []*psbt.TaprootScriptSpendSig{{
			Signature: bytes.Repeat([]byte{7}, 64),
			SigHash:   txscript.SigHashDefault,
		}}
	}
	return p, nil
}

// FinalizePsbt copies whatever signatures are there (as the pool test mock).
func (w *lcWallet) FinalizePsbt(_ context.Context, p *psbt.Packet, _ string) (*psbt.Packet, *wire.MsgTx, error) {
	tx := p.UnsignedTx
	for i := range tx.TxIn {
		pIn := &p.Inputs[i]
		if len(pIn.RedeemScript) > 0 && len(pIn.FinalScriptSig) == 0 {
			// what lnd's wallet does for a np2wkh input
			sc, err := txscript.NewScriptBuilder().AddData(pIn.RedeemScript).Script()
			if err != nil {
				return nil, nil, err
			}
			pIn.FinalScriptSig = sc
		}
		switch {
		case len(pIn.FinalScriptSig) > 0:
			tx.TxIn[i].SignatureScript = pIn.FinalScriptSig
		case len(pIn.FinalScriptWitness) > 0:
			rd := bytes.NewReader(pIn.FinalScriptWitness)
			n, err := wire.ReadVarInt(rd, 0)
			if err != nil {
				return nil, nil, err
			}
			tx.TxIn[i].Witness = make(wire.TxWitness, n)
			for j := uint64(0); j < n; j++ {
				b, err := wire.ReadVarBytes(rd, 0, txscript.MaxScriptSize, "witness")
				if err != nil {
					return nil, nil, err
				}
				tx.TxIn[i].Witness[j] = b
			}
		case len(pIn.PartialSigs) > 0:
			tx.TxIn[i].Witness = [][]byte{pIn.PartialSigs[0].Signature}
		}
	}
	return p, tx, nil
}

// ---------------------------------------------------------------- signer

type lcSigner struct {
	lndclient.SignerClient
	mu   sync.Mutex
	seq  byte
	sess map[input.MuSig2SessionID]bool
	n    int
}

func (s *lcSigner) RawClientWithMacAuth(ctx context.Context) (context.Context, time.Duration, signrpc.SignerClient) {
	return ctx, 0, nil
}
func (s *lcSigner) DeriveSharedKey(context.Context, *btcec.PublicKey, *keychain.KeyLocator) ([32]byte, error) {
	s.mu.Lock()
	s.n++
	s.mu.Unlock()
	return lcSecret, nil
}
func (s *lcSigner) MuSig2CreateSession(_ context.Context, v input.MuSig2Version,
	_ *keychain.KeyLocator, _ [][]byte, opts ...lndclient.MuSig2SessionOpts) (*input.MuSig2SessionInfo, error) {

	s.mu.Lock()
	defer s.mu.Unlock()
	s.seq++
	var id [32]byte
	var nonce [66]byte
	id[0], nonce[0] = s.seq, s.seq
	req := &signrpc.MuSig2SessionRequest{}
	for _, o := range opts {
		o(req)
	}
	s.sess[id] = true
	return &input.MuSig2SessionInfo{
		SessionID: id, PublicNonce: nonce, CombinedKey: lcBatchKey,
		TaprootTweak: req.TaprootTweak != nil, Version: v,
	}, nil
}
func (s *lcSigner) MuSig2RegisterNonces(context.Context, [32]byte, [][66]byte) (bool, error) {
	return true, nil
}
func (s *lcSigner) MuSig2Sign(context.Context, [32]byte, [32]byte, bool) ([]byte, error) {
	return make([]byte, input.MuSig2PartialSigSize), nil
}
func (s *lcSigner) MuSig2CombineSig(context.Context, [32]byte, [][]byte) (bool, []byte, error) {
	return true, bytes.Repeat([]byte{9}, schnorr.SignatureSize), nil
}
func (s *lcSigner) MuSig2Cleanup(context.Context, [32]byte) error { return nil }

// ---------------------------------------------------------------- auctioneer

type lcAuctioneer struct {
	account.Auctioneer
	inits   int
	lastInit *wire.OutPoint // outpoint of the account handed to the last InitAccount call
	failSub bool // fault injection: StartAccountSubscription fails
}

func (a *lcAuctioneer) ReserveAccount(context.Context, btcutil.Amount, uint32,
	*btcec.PublicKey, account.Version) (*account.Reservation, error) {

	return &account.Reservation{AuctioneerKey: lcAuctKey, InitialBatchKey: lcBatchKey}, nil
}
func (a *lcAuctioneer) InitAccount(_ context.Context, acct *account.Account) error {
	a.inits++
	if acct != nil {
		op := acct.OutPoint
		a.lastInit = &op
	}
	return nil
}
func (a *lcAuctioneer) ModifyAccount(context.Context, *account.Account, []*wire.TxIn,
	[]*wire.TxOut, []account.Modifier, []byte, []*wire.TxOut) ([]byte, []byte, error) {

	return []byte("auctioneer sig"), nil, nil
}
func (a *lcAuctioneer) StartAccountSubscription(context.Context, *keychain.KeyDescriptor) error {
	if a.failSub {
		return errors.New("auctioneer connection down")
	}
	return nil
}
func (a *lcAuctioneer) Terms(context.Context) (*terms.AuctioneerTerms, error) {
	return &terms.AuctioneerTerms{MaxAccountValue: lcMaxAccountValue}, nil
}

// ---------------------------------------------------------------- environment

type lcAcct struct {
	id  int
	key *keychain.KeyDescriptor
	raw [33]byte
}

type lcEnv struct {
	r        *Run
	dir      string
	db       *clientdb.DB
	store    *lcStore
	wallet   *lcWallet
	signer   *lcSigner
	notifier *lcNotifier
	auct     *lcAuctioneer
	mgr      account.Manager
	ctrl     *lcCtrl
	storer   order.BatchStorer

	height      uint32 // chain height known to the harness
	watcherBest uint32 // last block delivered to the running expiry watcher
	accts       [lcNumAccts + 1]*lcAcct
	curKey      int

	confDone       chan struct{}
	spendDone      chan struct{}
	expiryDone     int64
	asyncExpected  int64
	lastHandlerErr error

	txNames map[chainhash.Hash]int
	scripts map[string]string // pkScript -> "acct sver.expiry.bk"

	logMu      sync.Mutex
	log        []lcEvent
	batchAccts []int
	batchTx    *wire.MsgTx
	started    bool

	// environment assumption A1 (fresh batches): the auctioneer does not
	// co-sign a modification / closure of an account of its pending batch,
	// so a staged batch whose accounts were changed by a user action or an
	// expiry sweep is dropped, not completed. allowStale (corpus witness of
	// the known finding) switches the rule off.
	staleBatch   bool
	staleApplied bool
	allowStale   bool

	// what the chain knows: the (published / batch) transaction that spends an outpoint
	spenders map[wire.OutPoint]*wire.MsgTx

	expiryCalls []lcExpiryCall
	extBy       map[int]string // which kind of op last changed the account's expiry
	taint       map[int]bool   // accounts whose batch was committed by another account's spend (no re-watch)

	barrier    *lcBarrier
	handlerErr map[int]error
	scriptMu   sync.Mutex
}

func (e *lcEnv) inBatch(k int) bool {
	for _, j := range e.batchAccts {
		if j == k {
			return true
		}
	}
	return false
}

var lcEnvSeq int64

func lcBaseDir() string {
	if st, err := os.Stat("/dev/shm"); err == nil && st.IsDir() {
		return "/dev/shm"
	}
	return os.TempDir()
}

func newLcEnv(r *Run) *lcEnv {
	dir, err := os.MkdirTemp(lcBaseDir(), fmt.Sprintf("lifecycle-%d-", os.Getpid()))
	if err != nil {
		panic(err)
	}
	e := &lcEnv{
		r: r, dir: dir, height: 1000,
		confDone: make(chan struct{}, 64), spendDone: make(chan struct{}, 64),
		txNames: map[chainhash.Hash]int{{}: 0}, scripts: map[string]string{},
		spenders: map[wire.OutPoint]*wire.MsgTx{},
	}
	// three trader keys; ids follow the byte order of the compressed keys
	// (= bbolt iteration order = order of resumption on start-up)
	var ks []*lcAcct
	for i := 0; i < lcNumAccts; i++ {
		_, pub := test.CreateKey(int32(i + 1))
		a := &lcAcct{key: &keychain.KeyDescriptor{
			KeyLocator: keychain.KeyLocator{Family: poolscript.AccountKeyFamily, Index: uint32(i + 1)},
			PubKey:     pub,
		}}
		copy(a.raw[:], pub.SerializeCompressed())
		ks = append(ks, a)
	}
	sort.Slice(ks, func(i, j int) bool { return bytes.Compare(ks[i].raw[:], ks[j].raw[:]) < 0 })
	for i, a := range ks {
		a.id = i + 1
		e.accts[i+1] = a
	}
	e.wallet = &lcWallet{env: e}
	e.signer = &lcSigner{sess: map[input.MuSig2SessionID]bool{}}
	e.auct = &lcAuctioneer{}
	e.openDB()
	e.newManager()
	return e
}

func (e *lcEnv) openDB() {
	db, err := clientdb.New(e.dir, "pool.db")
	if err != nil {
		panic(err)
	}
	e.db = db
	e.store = &lcStore{DB: db, env: e}
	e.storer = order.VerifLifecycleBatchStorer(e.store, e.store.Account)
}

// newManager builds a fresh real manager (+ real controller) over the store.
func (e *lcEnv) newManager() {
	e.notifier = &lcNotifier{env: e, blockCh: make(chan int32)}
	e.mgr = account.NewManager(&account.ManagerConfig{
		Store: e.store, Auctioneer: e.auct, Wallet: e.wallet, Signer: e.signer,
		ChainNotifier: e.notifier, TxSource: e.wallet, TxFeeEstimator: e.wallet,
		ChainParams: &chaincfg.TestNet3Params,
		LndVersion:  &verrpc.Version{AppMajor: 0, AppMinor: 15, AppPatch: 1},
	})
	account.VerifLifecycleSetController(e.mgr, func(h watcher.EventHandler) watcher.Controller {
		real := watcher.NewController(&watcher.CtrlConfig{
			ChainNotifier: e.notifier,
			Handlers:      &lcHandler{real: h, env: e},
		})
		e.ctrl = &lcCtrl{real: real, env: e}
		return e.ctrl
	})
	e.watcherBest = 0
	e.started = false
}

func (e *lcEnv) close() {
	if e.started {
		e.mgr.Stop()
	}
	e.db.Close()
	os.RemoveAll(e.dir)
}

// count is Run.Count for code that may run in two handler goroutines at once.
func (e *lcEnv) count(bucket string) {
	e.logMu.Lock()
	e.r.Count(bucket)
	e.logMu.Unlock()
}

// noteSpender records a transaction that reached the network.
func (e *lcEnv) noteSpender(tx *wire.MsgTx) {
	e.logMu.Lock()
	defer e.logMu.Unlock()
	for _, in := range tx.TxIn {
		if _, ok := e.spenders[in.PreviousOutPoint]; !ok {
			e.spenders[in.PreviousOutPoint] = tx
		}
	}
}

func (e *lcEnv) dropSpender(tx *wire.MsgTx) {
	if tx == nil {
		return
	}
	e.logMu.Lock()
	defer e.logMu.Unlock()
	h := tx.TxHash()
	for op, t := range e.spenders {
		if t.TxHash() == h {
			delete(e.spenders, op)
		}
	}
}

func (e *lcEnv) addEvent(ev lcEvent) {
	e.logMu.Lock()
	e.log = append(e.log, ev)
	e.logMu.Unlock()
}

func (e *lcEnv) acctID(k *btcec.PublicKey) int {
	raw := k.SerializeCompressed()
	for i := 1; i <= lcNumAccts; i++ {
		if bytes.Equal(e.accts[i].raw[:], raw) {
			return i
		}
	}
	return 0
}

func (e *lcEnv) txName(h chainhash.Hash) int {
	if n, ok := e.txNames[h]; ok {
		return n
	}
	n := len(e.txNames)
	e.txNames[h] = n
	return n
}

// noteScripts remembers the canonical name of the output script of every
// record currently stored or staged.
func (e *lcEnv) noteAccount(a *account.Account) {
	out, err := lcOutput(a)
	if err != nil {
		return
	}
	if _, ok := e.scripts[string(out.PkScript)]; ok {
		return
	}
	e.scripts[string(out.PkScript)] = fmt.Sprintf("%d %d.%d.%d", e.acctID(a.TraderKey.PubKey),
		lcScriptVer(a.Version), a.Expiry, lcBatchCounter(a.BatchKey))
}

var (
	lcOutMu    sync.Mutex
	lcOutCache = map[string][]byte{}
	lcCntCache = map[string]int{}
)

// lcOutput is Account.Output() (the real function) memoised on its inputs.
func lcOutput(a *account.Account) (*wire.TxOut, error) {
	k := fmt.Sprintf("%x|%x|%x|%x|%d|%d", a.TraderKey.PubKey.SerializeCompressed(),
		a.AuctioneerKey.SerializeCompressed(), a.BatchKey.SerializeCompressed(), a.Secret[:], a.Expiry, a.Version)
	lcOutMu.Lock()
	defer lcOutMu.Unlock()
	if s, ok := lcOutCache[k]; ok {
		return &wire.TxOut{Value: int64(a.Value), PkScript: s}, nil
	}
	out, err := a.Output()
	if err != nil {
		return nil, err
	}
	lcOutCache[k] = out.PkScript
	return out, nil
}

func lcScriptVer(v account.Version) int {
	switch v.ScriptVersion() {
	case poolscript.VersionTaprootMuSig2:
		return 1
	case poolscript.VersionTaprootMuSig2V100RC2:
		return 2
	}
	return 0
}

// lcBatchCounter: how often the initial batch key was incremented.
func lcBatchCounter(k *btcec.PublicKey) int {
	ck := string(k.SerializeCompressed())
	lcOutMu.Lock()
	if n, ok := lcCntCache[ck]; ok {
		lcOutMu.Unlock()
		return n
	}
	lcOutMu.Unlock()
	n := lcBatchCounterSlow(k)
	lcOutMu.Lock()
	lcCntCache[ck] = n
	lcOutMu.Unlock()
	return n
}

func lcBatchCounterSlow(k *btcec.PublicKey) int {
	cur := lcBatchKey
	for i := 0; i < 200; i++ {
		if cur.IsEqual(k) {
			return i
		}
		cur = poolscript.IncrementKey(cur)
	}
	return -1
}

func (e *lcEnv) acctOfScript(s []byte) int {
	for i := 1; i <= lcNumAccts; i++ {
		if a, err := e.db.Account(e.accts[i].key.PubKey); err == nil {
			e.noteAccount(a)
		}
	}
	if n, ok := e.scripts[string(s)]; ok {
		var id int
		fmt.Sscanf(n, "%d", &id)
		return id
	}
	return 0
}

func (e *lcEnv) scriptName(s []byte) string {
	if n, ok := e.scripts[string(s)]; ok {
		return n[strings.Index(n, " ")+1:]
	}
	return "?"
}

// acctOfTx attributes a published transaction to the account whose stored
// latest transaction it is (else to the account whose outpoint it spends).
func (e *lcEnv) acctOfTx(tx *wire.MsgTx) int {
	h := tx.TxHash()
	for i := 1; i <= lcNumAccts; i++ {
		a, err := e.db.Account(e.accts[i].key.PubKey)
		if err == nil && a.LatestTx != nil && a.LatestTx.TxHash() == h {
			return i
		}
	}
	for i := 1; i <= lcNumAccts; i++ {
		a, err := e.db.Account(e.accts[i].key.PubKey)
		if err != nil {
			continue
		}
		for _, in := range tx.TxIn {
			if in.PreviousOutPoint == a.OutPoint {
				return i
			}
		}
	}
	return 0
}

// waitAsync waits for the expiry hand-offs the op has spawned.
func (e *lcEnv) waitAsync(before int64) bool {
	want := before + atomic.LoadInt64(&e.asyncExpected)
	deadline := time.Now().Add(5 * time.Second)
	for atomic.LoadInt64(&e.expiryDone) < want {
		if time.Now().After(deadline) {
			return false
		}
		time.Sleep(20 * time.Microsecond)
	}
	atomic.StoreInt64(&e.asyncExpected, 0)
	return true
}

// deliverBlock sends a block epoch and waits until NewBlock has returned.
func (e *lcEnv) deliverBlock(h uint32) bool {
	if !e.started {
		return false
	}
	select {
	case e.notifier.blockCh <- int32(h):
	case <-time.After(5 * time.Second):
		return false
	}
	deadline := time.Now().Add(5 * time.Second)
	for watcher.VerifLifecycleBest(e.ctrl.real) != h {
		if time.Now().After(deadline) {
			return false
		}
		time.Sleep(20 * time.Microsecond)
	}
	e.watcherBest = h
	return true
}
