//go:build verif

package main

import (
	"bytes"
	"context"
	"crypto/rand"
	"crypto/sha256"
	"encoding/hex"
	"encoding/json"
	"fmt"
	"net"
	"os"
	"runtime"
	"os/exec"
	"sort"
	"strings"
	"sync"
	"sync/atomic"
	"time"

	"github.com/btcsuite/btcd/btcec/v2"
	"github.com/btcsuite/btcd/wire"
	"github.com/btcsuite/btclog/v2"
	"github.com/lightninglabs/pool"
	"github.com/lightninglabs/pool/account"
	"github.com/lightninglabs/pool/auctioneer"
	"github.com/lightninglabs/pool/auctioneerrpc"
	"github.com/lightninglabs/pool/clientdb"
	"github.com/lightninglabs/pool/order"
	"github.com/lightningnetwork/lnd/keychain"
	"google.golang.org/grpc"
	"google.golang.org/grpc/codes"
	"google.golang.org/grpc/status"
	"google.golang.org/grpc/test/bufconn"
)

// Whole-client fault-injection machinery of C18. Reusable entry points
// (also used by other properties, e.g. C06 for reconnects with a staged batch):
//
//	c18Scn / c18Op                 a fault scenario: ops sub|err|shut with, per op, the number of refused Terms
//	                               probes (Refuse), of failing stream opens after a successful probe (FailOpen), of
//	                               failing pending-batch checks (FailBatch) and
//	                               the auctioneer's behaviour per incoming commitment (Beh: ok errBC shutBC errAC
//	                               shutAC errMid reject)
//	c18RunScenario(scn, uniq)      run it on a fresh REAL auctioneer.Client + REAL rpcServer.serverHandler loop
//	                               against a fresh in-process gRPC auctioneer; returns per-op observations, the
//	                               model op lines and the oracle verdict
//	c18RunScenarioWith(.., hooks)  the same with a custom BatchSource / BatchCleaner (Config) and BatchSnapshot RPC
//	                               (server side) and a callback after every op (hooks.AfterOp)
//	c18RunLocal / c18Spawn         run many scenarios on parallel workers in this process / in a child process
//	                               (env C18_CHILD=1; a panic of a real-code goroutine cannot be recovered)
//	c18GenScenario(r)              the seeded generator
//
// Everything keyed by `uniq` (account keys) is disjoint between concurrently running scenarios.

// ---------------------------------------------------------------- in-process auctioneer

// Behaviours of the scripted auctioneer for one incoming commitment:
//
//	ok     challenge, verify subscribe, success
//	errBC  transport error right after the commitment (before the challenge)
//	shutBC shutdown notice instead of the challenge
//	errAC  challenge, then transport error instead of success
//	shutAC challenge, then shutdown notice instead of success
const (
	c18BehOK     = "ok"
	c18BehErrBC  = "errBC"
	c18BehShutBC = "shutBC"
	c18BehErrAC  = "errAC"
	c18BehShutAC = "shutAC"
	// errMid: challenge, then transport error before the subscribe message
	// can be sent (the signer holds the handshake until the client has
	// seen the stream error, so the send fails deterministically)
	c18BehErrMid = "errMid"
	// reject: challenge, subscribe verified, then an ACCOUNT_DOES_NOT_EXIST
	// answer instead of success (stream stays up; outside the property's
	// fault model, used to drive the error paths of the reconnect logic)
	c18BehReject = "reject"
	// okShut: like ok, but a shutdown notice follows the success message
	// immediately and the subscribing goroutine is held (the harness holds
	// the error switch's mutex, which the deferred Restore needs) until the
	// client's reader has dealt with the notice: the notice is processed
	// after the account's success and before its subscription call returns
	c18BehOkShut = "okShut"
)

type c18Commit struct {
	hash      []byte
	beh       string
	challenge [32]byte
	acct      int // -1 until revealed by a subscribe message
}

type c18Stream struct {
	idx     int
	commits []*c18Commit
	subs    []int    // accounts of verified subscribe messages, arrival order
	success []int    // accounts a Success message was sent for
	bad     []string // verification failures
	ctl     chan string
	ended   string // "" while the handler runs; else how it ended
}

type c18Server struct {
	auctioneerrpc.UnimplementedChannelAuctioneerServer
	mu       sync.Mutex
	refuse   int
	beh      []string
	termsAt  []time.Time
	termsOK  []bool
	streams  []*c18Stream
	byKey    map[string]int
	pubs     []*btcec.PublicKey
	activity *int64
	midFault int32 // a stream was just failed right after its challenge
	holdNext int32 // the handshake in progress is an okShut one: hold its goroutine
	holdOn   *c18Stream
	snapshot func(*auctioneerrpc.BatchSnapshotRequest) (*auctioneerrpc.BatchSnapshotResponse, error)
}

func (s *c18Server) BatchSnapshot(_ context.Context,
	req *auctioneerrpc.BatchSnapshotRequest) (*auctioneerrpc.BatchSnapshotResponse, error) {

	s.touch()
	if s.snapshot == nil {
		return nil, status.Error(codes.NotFound, "batch snapshot not found")
	}
	return s.snapshot(req)
}

func (s *c18Server) touch() { atomic.StoreInt64(s.activity, time.Now().UnixNano()) }

func (s *c18Server) Terms(context.Context, *auctioneerrpc.TermsRequest) (*auctioneerrpc.TermsResponse, error) {
	s.mu.Lock()
	defer s.mu.Unlock()
	s.touch()
	s.termsAt = append(s.termsAt, time.Now())
	if s.refuse > 0 {
		s.refuse--
		s.termsOK = append(s.termsOK, false)
		return nil, status.Error(codes.Unavailable, "verif: connection refused")
	}
	s.termsOK = append(s.termsOK, true)
	return &auctioneerrpc.TermsResponse{}, nil
}

func c18Shutdown() *auctioneerrpc.ServerAuctionMessage {
	return &auctioneerrpc.ServerAuctionMessage{Msg: &auctioneerrpc.ServerAuctionMessage_Error{
		Error: &auctioneerrpc.SubscribeError{
			Error:     "server shutting down",
			ErrorCode: auctioneerrpc.SubscribeError_SERVER_SHUTDOWN,
		},
	}}
}

var errC18Injected = status.Error(codes.Unavailable, "verif: injected transport error")

func (s *c18Server) SubscribeBatchAuction(st auctioneerrpc.ChannelAuctioneer_SubscribeBatchAuctionServer) error {
	s.mu.Lock()
	me := &c18Stream{idx: len(s.streams), ctl: make(chan string, 4)}
	s.streams = append(s.streams, me)
	s.touch()
	s.mu.Unlock()
	end := func(how string, err error) error {
		s.mu.Lock()
		me.ended = how
		s.touch()
		s.mu.Unlock()
		return err
	}

	in := make(chan *auctioneerrpc.ClientAuctionMessage)
	inErr := make(chan error, 1)
	go func() {
		for {
			m, err := st.Recv()
			if err != nil {
				inErr <- err
				return
			}
			select {
			case in <- m:
			case <-st.Context().Done():
				return
			}
		}
	}()
	for {
		select {
		case <-inErr:
			// the client half-closed (closeStream: CloseSend, then
			// cancel). Ending the RPC right away would race a clean
			// end-of-stream (outside the fault model) against the
			// cancellation; wait for the cancellation.
			select {
			case <-st.Context().Done():
			case <-time.After(time.Second):
			}
			return end("client-closed", nil)
		case <-st.Context().Done():
			return end("client-closed", nil)
		case c := <-me.ctl:
			s.touch()
			if c == "err" {
				return end("injected-error", errC18Injected)
			}
			_ = st.Send(c18Shutdown())
		case m := <-in:
			s.mu.Lock()
			s.touch()
			switch {
			case m.GetCommit() != nil:
				beh := c18BehOK
				if len(s.beh) > 0 {
					beh, s.beh = s.beh[0], s.beh[1:]
				}
				cm := &c18Commit{hash: m.GetCommit().CommitHash, beh: beh, acct: -1}
				me.commits = append(me.commits, cm)
				s.mu.Unlock()
				switch beh {
				case c18BehErrBC:
					return end("injected-error", errC18Injected)
				case c18BehShutBC:
					_ = st.Send(c18Shutdown())
				default:
					var nonce [32]byte
					_, _ = rand.Read(nonce[:])
					var ch [32]byte
					copy(ch[:], cm.hash)
					cm.challenge = account.AuthChallenge(ch, nonce)
					if beh == c18BehErrMid {
						atomic.StoreInt32(&s.midFault, 1)
					}
					if beh == c18BehOkShut {
						s.mu.Lock()
						s.holdOn = me
						s.mu.Unlock()
						atomic.StoreInt32(&s.holdNext, 1)
					}
					_ = st.Send(&auctioneerrpc.ServerAuctionMessage{Msg: &auctioneerrpc.ServerAuctionMessage_Challenge{
						Challenge: &auctioneerrpc.ServerChallenge{Challenge: cm.challenge[:], CommitHash: cm.hash},
					}})
					if beh == c18BehErrMid {
						return end("injected-error", errC18Injected)
					}
				}
			case m.GetSubscribe() != nil:
				sub := m.GetSubscribe()
				// the auctioneer's verification, as in the property text
				opens := sha256.Sum256(append(append([]byte{}, sub.TraderKey...), sub.CommitNonce...))
				var cm *c18Commit
				for _, c := range me.commits {
					if bytes.Equal(c.hash, opens[:]) {
						cm = c
					}
				}
				id, known := s.byKey[string(sub.TraderKey)]
				switch {
				case cm == nil:
					me.bad = append(me.bad, "subscribe does not open any commitment of this stream")
				case !known:
					me.bad = append(me.bad, "unknown trader key")
				default:
					digest := sha256.Sum256(append(append([]byte{}, cm.hash...), cm.challenge[:]...))
					if !c18VerifySig(s.pubs[id], digest[:], sub.AuthSig) {
						me.bad = append(me.bad, "signature invalid")
					}
				}
				if cm == nil || !known {
					s.mu.Unlock()
					return end("bad-subscribe", status.Error(codes.PermissionDenied, "bad subscribe"))
				}
				cm.acct = id
				me.subs = append(me.subs, id)
				beh := cm.beh
				if beh == c18BehOK || beh == c18BehOkShut {
					me.success = append(me.success, id)
				}
				s.mu.Unlock()
				switch beh {
				case c18BehErrAC:
					return end("injected-error", errC18Injected)
				case c18BehShutAC:
					_ = st.Send(c18Shutdown())
				case c18BehOkShut:
					_ = st.Send(&auctioneerrpc.ServerAuctionMessage{Msg: &auctioneerrpc.ServerAuctionMessage_Success{
						Success: &auctioneerrpc.SubscribeSuccess{TraderKey: sub.TraderKey},
					}})
					_ = st.Send(c18Shutdown())
				case c18BehReject:
					_ = st.Send(&auctioneerrpc.ServerAuctionMessage{Msg: &auctioneerrpc.ServerAuctionMessage_Error{
						Error: &auctioneerrpc.SubscribeError{
							Error:     "account does not exist",
							ErrorCode: auctioneerrpc.SubscribeError_ACCOUNT_DOES_NOT_EXIST,
							TraderKey: sub.TraderKey,
						},
					}})
				default:
					_ = st.Send(&auctioneerrpc.ServerAuctionMessage{Msg: &auctioneerrpc.ServerAuctionMessage_Success{
						Success: &auctioneerrpc.SubscribeSuccess{TraderKey: sub.TraderKey},
					}})
				}
			default:
				s.mu.Unlock()
			}
		}
	}
}

type c18NoBatch struct{}

func (c18NoBatch) PendingBatchSnapshot() (*clientdb.LocalBatchSnapshot, error) {
	return nil, account.ErrNoPendingBatch
}

// ---------------------------------------------------------------- scenario

type c18Op struct {
	Kind   string   `json:"kind"` // sub | err | shut
	Acct   int      `json:"acct,omitempty"`
	Refuse int      `json:"refuse,omitempty"`
	// FailOpen: that many of the next stream opens fail although the Terms
	// probe before them succeeded
	FailOpen int `json:"fail_open,omitempty"`
	// FailBatch: that many of the next pending-batch checks (BatchSnapshot
	// RPC of checkPendingBatch, after a stream was opened) fail
	FailBatch int      `json:"fail_batch,omitempty"`
	Beh       []string `json:"beh,omitempty"`
}

// c18StagedBatch is a BatchSource with a pending batch, so that every
// (re)connect cross-checks it with the auctioneer's BatchSnapshot RPC.
type c18StagedBatch struct{}

func (c18StagedBatch) PendingBatchSnapshot() (*clientdb.LocalBatchSnapshot, error) {
	return &clientdb.LocalBatchSnapshot{BatchTX: wire.NewMsgTx(2)}, nil
}

// c18Hooks customise a scenario run (all optional).
type c18Hooks struct {
	BatchSource  auctioneer.BatchSource
	BatchCleaner auctioneer.BatchCleaner
	Snapshot     func(*auctioneerrpc.BatchSnapshotRequest) (*auctioneerrpc.BatchSnapshotResponse, error)
	AfterOp      func(opIdx int, op c18Op, client *auctioneer.Client)
}

// c18HandlerLog collects what the real serverHandler logged, per scenario
// (keyed by the handler's goroutine id).
type c18HandlerLog struct {
	mu      sync.Mutex
	main    []string
	results []string
	handled bool
}

var c18HandlerLogs sync.Map // goroutine id -> *c18HandlerLog

func c18Goid() string {
	var b [64]byte
	n := runtime.Stack(b[:], false)
	f := strings.Fields(string(b[:n]))
	if len(f) > 1 {
		return f[1]
	}
	return ""
}

// c18RPCLogger is installed as the RPC server's logger.
type c18RPCLogger struct{ btclog.Logger }

func (c18RPCLogger) Errorf(f string, a ...any) {
	v, ok := c18HandlerLogs.Load(c18Goid())
	if !ok {
		return
	}
	h := v.(*c18HandlerLog)
	var err error
	if len(a) > 0 {
		err, _ = a[0].(error)
	}
	h.mu.Lock()
	defer h.mu.Unlock()
	switch {
	case strings.HasPrefix(f, "Error in server stream"):
		h.main = append(h.main, c18ErrClass(err))
		h.handled = true
	case strings.HasPrefix(f, "Error re-"):
		h.results = append(h.results, c18ErrClass(err))
	case strings.HasPrefix(f, "Unknown server error"):
		// printed once per received error, after it was dealt with
		if h.handled {
			h.results = append(h.results, c18ErrClass(err))
		} else {
			h.main = append(h.main, c18ErrClass(err))
		}
		h.handled = false
	}
}
func (c18RPCLogger) Infof(string, ...any)  {}
func (c18RPCLogger) Debugf(string, ...any) {}
func (c18RPCLogger) Tracef(string, ...any) {}
func (c18RPCLogger) Warnf(string, ...any)  {}

type c18Scn struct {
	Kind   string  `json:"kind"` // "client" | "concurrent"
	NAccts int     `json:"naccts"`
	MinMs  int     `json:"min_ms"`
	MaxMs  int     `json:"max_ms"`
	Ops    []c18Op `json:"ops,omitempty"`
	// kind "concurrent": that many clients (NAccts accounts each) subscribe
	// at the same time against one auctioneer, then the auctioneer fails all
	// streams Rounds times and every client re-subscribes concurrently
	Clients int `json:"clients,omitempty"`
	Rounds  int `json:"rounds,omitempty"`
}

// c18OpResult is what was observed for one op after the client went quiet.
type c18OpResult struct {
	Ret        string   // sub: ok | err | hung
	MainErrs   []string // error classes received on StreamErrChan during the op
	HandlerRes []string // result classes of HandleServerShutdown calls made by the main handler
	NewStreams int      // streams opened during the op
	Attempts   int      // Terms calls during the op
	Order      [][]int  // per stream opened or used during the op: accounts in handshake order (-1 unknown)
	Map        []int    // keys of subscribedAccts afterwards
	Cur        []int    // accounts with Success on the latest stream
	CurSubs    []int    // verified subscribe messages on the latest stream
	Alive      bool     // latest stream's server side still running
	Open       bool     // client.IsSubscribed()
}

type c18ScnResult struct {
	Ops       []c18OpResult
	Lines     [][2]string // model op line, observed canonical output
	BehSeen   [][]string  // per op: behaviours the auctioneer applied to commitments
	BadKey    string
	Bad       []string // oracle failures
	Trace     []string
	StopHung  bool
	VerifyBad []string
}

func c18ErrClass(err error) string {
	switch {
	case err == nil:
		return "nil"
	case err == auctioneer.ErrServerShutdown:
		return "ErrServerShutdown"
	case err == auctioneer.ErrServerErrored:
		return "ErrServerErrored"
	case err == auctioneer.ErrAuthCanceled:
		return "ErrAuthCanceled"
	case err == auctioneer.ErrClientShutdown:
		return "ErrClientShutdown"
	}
	return "other"
}

// c18RunScenario executes one fault scenario on a fresh real Client against a
// fresh in-process auctioneer.
func c18RunScenario(scn c18Scn, uniq int) *c18ScnResult {
	return c18RunScenarioWith(scn, uniq, nil)
}

func c18RunScenarioWith(scn c18Scn, uniq int, hooks *c18Hooks) *c18ScnResult {
	if scn.Kind == "concurrent" {
		return c18RunConcurrent(scn, uniq)
	}
	if hooks == nil {
		hooks = &c18Hooks{}
	}
	res := &c18ScnResult{}
	var activity int64
	touch := func() { atomic.StoreInt64(&activity, time.Now().UnixNano()) }
	touch()

	accts := make([]*c18Acct, scn.NAccts)
	srv := &c18Server{byKey: map[string]int{}, activity: &activity}
	signer := &c18Signer{byLoc: map[keychain.KeyLocator]*c18Acct{}}
	sink := &c18FailSink{}
	for i := range accts {
		accts[i] = c18MakeAcct(uniq*8 + i + 100)
		c18FailSinks.Store(string(accts[i].pub[:]), sink)
		defer c18FailSinks.Delete(string(accts[i].pub[:]))
		srv.byKey[string(accts[i].pub[:])] = i
		srv.pubs = append(srv.pubs, accts[i].desc.PubKey)
		signer.byLoc[accts[i].desc.KeyLocator] = accts[i]
	}
	lis := bufconn.Listen(1 << 16)
	gs := grpc.NewServer()
	auctioneerrpc.RegisterChannelAuctioneerServer(gs, srv)
	go func() { _ = gs.Serve(lis) }()
	defer gs.Stop()

	minB := time.Duration(scn.MinMs) * time.Millisecond
	maxB := time.Duration(scn.MaxMs) * time.Millisecond
	srv.snapshot = hooks.Snapshot
	var failOpen, failedOpens, failBatch int32
	var batchSource auctioneer.BatchSource = c18NoBatch{}
	if hooks.BatchSource != nil {
		batchSource = hooks.BatchSource
	} else {
		for _, op := range scn.Ops {
			if op.FailBatch > 0 {
				// a staged batch the auctioneer has not finalized: the
				// check passes ("batch snapshot not found") unless the
				// RPC itself fails
				batchSource = c18StagedBatch{}
				srv.snapshot = func(*auctioneerrpc.BatchSnapshotRequest) (*auctioneerrpc.BatchSnapshotResponse, error) {
					for {
						n := atomic.LoadInt32(&failBatch)
						if n <= 0 {
							return nil, status.Error(codes.NotFound, auctioneer.ErrBatchNotFinalized.Error())
						}
						if atomic.CompareAndSwapInt32(&failBatch, n, n-1) {
							return nil, status.Error(codes.Unavailable, "verif: snapshot unavailable")
						}
					}
				}
			}
		}
	}
	client, err := auctioneer.NewClient(&auctioneer.Config{
		ServerAddress: "passthrough:///verif",
		Insecure:      true,
		DialOpts: []grpc.DialOption{
			grpc.WithContextDialer(
				func(ctx context.Context, _ string) (net.Conn, error) { return lis.DialContext(ctx) },
			),
			// "the new stream fails although the Terms probe succeeded"
			grpc.WithStreamInterceptor(func(ctx context.Context, desc *grpc.StreamDesc, cc *grpc.ClientConn,
				method string, streamer grpc.Streamer, opts ...grpc.CallOption) (grpc.ClientStream, error) {

				for {
					n := atomic.LoadInt32(&failOpen)
					if n <= 0 {
						break
					}
					if atomic.CompareAndSwapInt32(&failOpen, n, n-1) {
						atomic.AddInt32(&failedOpens, 1)
						touch()
						return nil, status.Error(codes.Unavailable, "verif: stream open refused")
					}
				}
				return streamer(ctx, desc, cc, method, opts...)
			}),
		},
		Signer:       signer,
		MinBackoff:   minB,
		MaxBackoff:   maxB,
		BatchSource:  batchSource,
		BatchCleaner: hooks.BatchCleaner,
		BatchVersion: order.LatestBatchVersion,
	})
	if err != nil {
		res.Bad = append(res.Bad, "NewClient: "+err.Error())
		return res
	}
	if err := client.Start(); err != nil {
		res.Bad = append(res.Bad, "Start: "+err.Error())
		return res
	}
	// errMid: hold the handshake between challenge and subscribe until the
	// stream error has been read by the client and is in flight to the
	// diverted channel (run holds the switch mutex) – then the send fails
	signer.pre = func() {
		if atomic.CompareAndSwapInt32(&srv.holdNext, 1, 0) {
			// okShut: park the subscribing goroutine at its deferred
			// Restore until the reader has processed the notice that
			// follows the success (it closes the stream)
			sw := client.VerifC18Switch()
			sw.Lock()
			srv.mu.Lock()
			st := srv.holdOn
			srv.mu.Unlock()
			go func() {
				deadline := time.Now().Add(1500 * time.Millisecond)
				for time.Now().Before(deadline) {
					srv.mu.Lock()
					done := st != nil && st.ended != ""
					srv.mu.Unlock()
					if done {
						break
					}
					time.Sleep(100 * time.Microsecond)
				}
				time.Sleep(300 * time.Microsecond)
				touch()
				sw.Unlock()
			}()
		}
		if atomic.CompareAndSwapInt32(&srv.midFault, 1, 0) {
			deadline := time.Now().Add(2 * time.Second)
			for !client.VerifC18Switch().VerifC18Locked() && time.Now().Before(deadline) {
				time.Sleep(50 * time.Microsecond)
			}
			time.Sleep(200 * time.Microsecond)
		}
	}

	// the main error handler: the REAL rpcServer.serverHandler loop; what it
	// did with each error is read from its log lines
	hlog := &c18HandlerLog{}
	var hgoid string
	hready := make(chan struct{})
	stopHandler := pool.VerifC18ServerHandler(client, func() {
		hgoid = c18Goid()
		c18HandlerLogs.Store(hgoid, hlog)
		close(hready)
	})
	<-hready
	defer c18HandlerLogs.Delete(hgoid)

	// quiet = nothing observable happened for a while, measured in ticks of
	// a canary goroutine so that a loaded machine stretches the window
	settle := func() {
		quietTicks, waited := 0, 0
		need := 40 + 4*scn.MaxMs
		last := atomic.LoadInt64(&activity)
		for quietTicks < need {
			time.Sleep(time.Millisecond)
			if a := atomic.LoadInt64(&activity); a != last || client.VerifC18Connecting() {
				// something happened, or the client is inside its
				// connect/retry loop (possibly starved by a loaded machine)
				last = a
				quietTicks = 0
				if waited++; waited > 3000 {
					break
				}
			} else {
				quietTicks++
			}
		}
	}

	subscribed := map[int]bool{} // accounts whose StartAccountSubscription returned nil
	faultSeen := false
	modelled := true // still inside the fragment the Lean model covers
	res.Lines = append(res.Lines, [2]string{"C18 cl reset", "ok"})
	for opIdx, op := range scn.Ops {
		sink.drain()
		srv.mu.Lock()
		srv.refuse = op.Refuse
		srv.beh = append([]string(nil), op.Beh...)
		streamsBefore, termsBefore := len(srv.streams), len(srv.termsAt)
		var cur *c18Stream
		if len(srv.streams) > 0 {
			cur = srv.streams[len(srv.streams)-1]
		}
		commitsBefore := 0
		if cur != nil {
			commitsBefore = len(cur.commits)
		}
		srv.mu.Unlock()
		hlog.mu.Lock()
		hlog.main, hlog.results = nil, nil
		hlog.mu.Unlock()
		atomic.StoreInt32(&failOpen, int32(op.FailOpen))
		atomic.StoreInt32(&failBatch, int32(op.FailBatch))
		or := c18OpResult{}
		touch()
		var injectedAt time.Time

		switch op.Kind {
		case "sub":
			done := make(chan error, 1)
			go func() {
				done <- client.StartAccountSubscription(context.Background(), accts[op.Acct].desc)
			}()
			select {
			case err := <-done:
				touch()
				if err == nil {
					or.Ret = "ok"
					subscribed[op.Acct] = true
				} else {
					or.Ret = "err"
				}
			case <-time.After(3 * time.Second):
				or.Ret = "hung"
			}
		case "err", "shut":
			faultSeen = true
			if cur != nil && cur.ended == "" {
				injectedAt = time.Now()
				cur.ctl <- op.Kind
			} else {
				or.Ret = "no-live-stream"
			}
		}
		if !injectedAt.IsZero() {
			// a reaction to the injected fault may take a while to start on
			// a loaded machine: give the first reconnect attempt up to
			// half a second before counting quiet time
			deadline := time.Now().Add(500 * time.Millisecond)
			for time.Now().Before(deadline) {
				srv.mu.Lock()
				n := len(srv.termsAt)
				srv.mu.Unlock()
				if n > termsBefore {
					break
				}
				time.Sleep(time.Millisecond)
			}
		}
		if or.Ret != "hung" {
			settle()
		}

		// ---- observe ----
		srv.mu.Lock()
		or.NewStreams = len(srv.streams) - streamsBefore
		or.Attempts = len(srv.termsAt) - termsBefore
		// handshake order per stream touched during the op
		first := streamsBefore
		if cur != nil && len(cur.commits) > commitsBefore {
			first = streamsBefore - 1
		}
		for i := first; i < len(srv.streams); i++ {
			st := srv.streams[i]
			from := 0
			if i == streamsBefore-1 {
				from = commitsBefore
			}
			var ord []int
			for _, c := range st.commits[from:] {
				ord = append(ord, c.acct)
				if c.beh != c18BehOK {
					faultSeen = true
				}
			}
			or.Order = append(or.Order, ord)
		}
		var last *c18Stream
		if len(srv.streams) > 0 {
			last = srv.streams[len(srv.streams)-1]
			or.Cur = append([]int(nil), last.success...)
			or.CurSubs = append([]int(nil), last.subs...)
			or.Alive = last.ended == ""
		}
		for _, st := range srv.streams {
			res.VerifyBad = append(res.VerifyBad, st.bad...)
			st.bad = nil
		}
		if !injectedAt.IsZero() && len(srv.termsAt) > termsBefore {
			if gap := srv.termsAt[termsBefore].Sub(injectedAt); gap < minB {
				res.Bad = append(res.Bad, fmt.Sprintf("op %d: reconnect attempted %v after the fault, before the minimum backoff %v", opIdx, gap, minB))
				if res.BadKey == "" {
					res.BadKey = "C18/client/backoff-time"
				}
			}
		}
		// backoff timing: consecutive refused attempts are at least the
		// doubling wait apart (time.After never fires early)
		exp := minB
		for i := termsBefore + 1; i < len(srv.termsAt); i++ {
			if srv.termsOK[i-1] {
				exp = minB
				continue
			}
			// after the first refusal of a connect loop started with
			// 0 the wait is min; started with min it is 2*min: the
			// lower bound min*2^(k-1) capped at max holds for both
			if gap := srv.termsAt[i].Sub(srv.termsAt[i-1]); gap < exp {
				res.Bad = append(res.Bad, fmt.Sprintf("op %d: connect attempts only %v apart, expected at least %v", opIdx, gap, exp))
			}
			exp *= 2
			if exp > maxB {
				exp = maxB
			}
		}
		srv.mu.Unlock()
		hlog.mu.Lock()
		or.MainErrs = append([]string(nil), hlog.main...)
		or.HandlerRes = append([]string(nil), hlog.results...)
		hlog.mu.Unlock()
		or.Open = client.IsSubscribed()
		if or.Ret != "hung" {
			for k := range client.VerifC18Subscribed() {
				or.Map = append(or.Map, srv.byKey[string(k[:])])
			}
			sort.Ints(or.Map)
		}
		res.Ops = append(res.Ops, or)
		if hooks.AfterOp != nil {
			hooks.AfterOp(opIdx, op, client)
		}

		// ---- line for the model ----
		// identities of handshakes that failed before the challenge
		failed := sink.drain()
		nUnknown := 0
		for _, o := range or.Order {
			for _, a := range o {
				if a < 0 {
					nUnknown++
				}
			}
		}
		if nUnknown > 0 && nUnknown == len(failed) {
			fi := 0
			for _, o := range or.Order {
				for j, a := range o {
					if a < 0 {
						o[j] = srv.byKey[failed[fi]]
						fi++
					}
				}
			}
		}
		chaos := false
		srv.mu.Lock()
		var behSeen []string
		{
			firstCommit := true
			for i := first; i < len(srv.streams); i++ {
				st := srv.streams[i]
				from := 0
				if i == streamsBefore-1 {
					from = commitsBefore
				}
				for _, c := range st.commits[from:] {
					direct := firstCommit && op.Kind == "sub"
					firstCommit = false
					behSeen = append(behSeen, c.beh)
					if !direct && (c.beh == c18BehShutBC || c.beh == c18BehShutAC) {
						chaos = true
					}
				}
			}
		}
		srv.mu.Unlock()
		res.BehSeen = append(res.BehSeen, behSeen)
		if modelled {
			behTok := "-"
			if len(op.Beh) > 0 {
				behTok = strings.Join(op.Beh, ",")
			}
			line := fmt.Sprintf("C18 cl %s %d %d %d %d %s", op.Kind, op.Acct, op.Refuse, op.FailOpen, op.FailBatch, behTok)
			fi := func(l []int) string {
				if len(l) == 0 {
					return "-"
				}
				c := append([]int(nil), l...)
				sort.Ints(c)
				ss := make([]string, len(c))
				for i, a := range c {
					ss[i] = fmt.Sprint(a)
				}
				return strings.Join(ss, ".")
			}
			fe := func(l []string) string {
				if len(l) == 0 {
					return "-"
				}
				return strings.Join(l, ",")
			}
			ret := or.Ret
			if ret == "" || ret == "no-live-stream" {
				ret = "-"
			}
			b2 := func(b bool) string {
				if b {
					return "1"
				}
				return "0"
			}
			// (what serverHandler logged is kept in the trace only: its
			// classification depends on log wording)
			_ = fe
			out := fmt.Sprintf("ret=%s new=%d attempts=%d map=%s cur=%s subs=%s alive=%s open=%s",
				ret, or.NewStreams, or.Attempts, fi(or.Map), fi(or.Cur),
				fi(or.CurSubs), b2(or.Alive), b2(or.Open))
			if or.Ret == "hung" {
				modelled = false
			} else {
				res.Lines = append(res.Lines, [2]string{line, out})
			}
		}
		res.Trace = append(res.Trace, fmt.Sprintf("%s acct=%d refuse=%d beh=%v => ret=%s main=%v handler=%v newStreams=%d attempts=%d order=%v map=%v cur=%v alive=%v open=%v",
			op.Kind, op.Acct, op.Refuse, op.Beh, or.Ret, or.MainErrs, or.HandlerRes, or.NewStreams, or.Attempts, or.Order, or.Map, or.Cur, or.Alive, or.Open))

		// ---- oracle (property text on the observations) ----
		// The server is reachable and nothing is in progress any more:
		// every account subscribed before must be subscribed exactly once
		// on the newest stream, which must be alive.
		if len(subscribed) > 0 {
			cnt := map[int]int{}
			for _, a := range or.CurSubs {
				cnt[a]++
			}
			var missing, dup []int
			for a := range subscribed {
				ok := false
				for _, b := range or.Cur {
					if a == b {
						ok = true
					}
				}
				if !ok || !or.Alive {
					missing = append(missing, a)
				}
			}
			for a, n := range cnt {
				if n > 1 {
					dup = append(dup, a)
				}
			}
			sort.Ints(missing)
			sort.Ints(dup)
			if len(missing) > 0 && faultSeen && res.BadKey == "" {
				// the only open finding: concurrent reconnects, keyed
				// only when its trigger (shutdown notice during a
				// re-subscription) was observed
				if chaos || !modelled {
					res.BadKey = "C18/client/concurrent-reconnects"
				} else {
					res.BadKey = "C18/client/not-resubscribed"
				}
				res.Bad = append(res.Bad, fmt.Sprintf("after op %d (%s) the server is reachable and the client idle, but previously subscribed accounts %v are not subscribed on the newest stream (alive=%v)", opIdx, op.Kind, missing, or.Alive))
			}
			if len(dup) > 0 {
				res.Bad = append(res.Bad, fmt.Sprintf("after op %d accounts %v are subscribed more than once on one stream", opIdx, dup))
			}
		}
		if or.Ret == "hung" {
			if res.BadKey == "" {
				res.BadKey = "C18/client/hung"
				if !modelled {
					res.BadKey = "C18/client/concurrent-reconnects"
				}
				res.Bad = append(res.Bad, fmt.Sprintf("op %d: StartAccountSubscription did not return", opIdx))
			}
			break
		}
		if !modelled {
			break
		}
	}
	if len(res.VerifyBad) > 0 {
		res.Bad = append(res.Bad, "auctioneer could not verify a handshake: "+strings.Join(res.VerifyBad, "; "))
	}

	stopped := make(chan struct{})
	go func() { _ = client.Stop(); close(stopped) }()
	select {
	case <-stopped:
	case <-time.After(3 * time.Second):
		res.StopHung = true
	}
	if !stopHandler(time.Second) {
		res.StopHung = true
	}
	return res
}

// c18RunConcurrent: several real clients (each under its own real
// serverHandler) authenticate their accounts simultaneously against one
// verifying in-process auctioneer; then all streams are failed at once and
// every client re-subscribes concurrently. Oracle: the auctioneer could verify
// every handshake, and in the end every account is subscribed exactly once on
// its client's newest live stream. No model line (schedule dependent).
func c18RunConcurrent(scn c18Scn, uniq int) *c18ScnResult {
	res := &c18ScnResult{Lines: [][2]string{{"C18 cl reset", "ok"}}}
	var activity int64
	touch := func() { atomic.StoreInt64(&activity, time.Now().UnixNano()) }
	touch()
	srv := &c18Server{byKey: map[string]int{}, activity: &activity}
	signer := &c18Signer{byLoc: map[keychain.KeyLocator]*c18Acct{}}
	K := scn.Clients
	accts := make([][]*c18Acct, K)
	for k := range accts {
		for i := 0; i < scn.NAccts; i++ {
			id := len(srv.pubs)
			a := c18MakeAcct(uniq*8 + 100 + 4000*(k+1) + i)
			accts[k] = append(accts[k], a)
			srv.byKey[string(a.pub[:])] = id
			srv.pubs = append(srv.pubs, a.desc.PubKey)
			signer.byLoc[a.desc.KeyLocator] = a
		}
	}
	lis := bufconn.Listen(1 << 16)
	gs := grpc.NewServer()
	auctioneerrpc.RegisterChannelAuctioneerServer(gs, srv)
	go func() { _ = gs.Serve(lis) }()
	defer gs.Stop()

	clients := make([]*auctioneer.Client, K)
	var stops []func(time.Duration) bool
	for k := range clients {
		cl, err := auctioneer.NewClient(&auctioneer.Config{
			ServerAddress: "passthrough:///verif",
			Insecure:      true,
			DialOpts: []grpc.DialOption{grpc.WithContextDialer(
				func(ctx context.Context, _ string) (net.Conn, error) { return lis.DialContext(ctx) },
			)},
			Signer:       signer,
			MinBackoff:   time.Duration(scn.MinMs) * time.Millisecond,
			MaxBackoff:   time.Duration(scn.MaxMs) * time.Millisecond,
			BatchSource:  c18NoBatch{},
			BatchVersion: order.LatestBatchVersion,
		})
		if err == nil {
			err = cl.Start()
		}
		if err != nil {
			res.Bad = append(res.Bad, "client setup: "+err.Error())
			return res
		}
		clients[k] = cl
		stops = append(stops, pool.VerifC18ServerHandler(cl, nil))
	}
	// other users of the auth functions in the same process keep hashing
	// (e.g. the sidecar acceptor's client)
	pressure := make(chan struct{})
	var pwg sync.WaitGroup
	for p := 0; p < 2; p++ {
		pwg.Add(1)
		go func(p int) {
			defer pwg.Done()
			var k [33]byte
			var n [32]byte
			k[0] = byte(p)
			for {
				select {
				case <-pressure:
					return
				default:
				}
				n = account.CommitAccount(k, n)
			}
		}(p)
	}
	settle := func() {
		quiet, last := 0, atomic.LoadInt64(&activity)
		for quiet < 40+3*scn.MaxMs {
			time.Sleep(time.Millisecond)
			if a := atomic.LoadInt64(&activity); a != last {
				last, quiet = a, 0
			} else {
				quiet++
			}
		}
	}
	// phase 1: everybody subscribes at once
	start := make(chan struct{})
	var wg sync.WaitGroup
	var mu sync.Mutex
	for k := range clients {
		wg.Add(1)
		go func(k int) {
			defer wg.Done()
			<-start
			for _, a := range accts[k] {
				done := make(chan error, 1)
				go func() { done <- clients[k].StartAccountSubscription(context.Background(), a.desc) }()
				select {
				case err := <-done:
					if err != nil {
						mu.Lock()
						res.Bad = append(res.Bad, fmt.Sprintf("client %d: StartAccountSubscription failed without any fault: %v", k, err))
						mu.Unlock()
						return
					}
				case <-time.After(3 * time.Second):
					mu.Lock()
					res.Bad = append(res.Bad, fmt.Sprintf("client %d: StartAccountSubscription did not return", k))
					mu.Unlock()
					return
				}
			}
		}(k)
	}
	close(start)
	wg.Wait()
	settle()
	// phase 2: all streams fail at once, all clients re-subscribe concurrently
	for round := 0; round < scn.Rounds && len(res.Bad) == 0; round++ {
		srv.mu.Lock()
		for _, st := range srv.streams {
			if st.ended == "" {
				select {
				case st.ctl <- "err":
				default:
				}
			}
		}
		srv.mu.Unlock()
		touch()
		settle()
	}
	close(pressure)
	pwg.Wait()

	// ---- oracle ----
	srv.mu.Lock()
	cnt := map[int]int{}
	for _, st := range srv.streams {
		for _, b := range st.bad {
			res.Bad = append(res.Bad, "auctioneer could not verify a handshake made while other clients were authenticating: "+b)
		}
		if st.ended == "" {
			for _, a := range st.success {
				cnt[a]++
			}
		}
	}
	nstreams := len(srv.streams)
	srv.mu.Unlock()
	if len(res.Bad) == 0 {
		for id := range srv.pubs {
			if cnt[id] != 1 {
				res.Bad = append(res.Bad, fmt.Sprintf("account %d is subscribed %d times on live streams after %d concurrent reconnect rounds of %d clients", id, cnt[id], scn.Rounds, K))
				break
			}
		}
	}
	if len(res.Bad) > 0 {
		res.BadKey = "C18/client/concurrent-handshakes"
	}
	res.Trace = []string{fmt.Sprintf("concurrent clients=%d accts=%d rounds=%d streams=%d bad=%d", K, scn.NAccts, scn.Rounds, nstreams, len(res.Bad))}
	for k, cl := range clients {
		stopped := make(chan struct{})
		go func() { _ = cl.Stop(); close(stopped) }()
		select {
		case <-stopped:
		case <-time.After(3 * time.Second):
			res.StopHung = true
		}
		if !stops[k](time.Second) {
			res.StopHung = true
		}
	}
	return res
}

// c18GenScenario draws one fault scenario.
func c18GenScenario(r *Run) c18Scn {
	scn := c18Scn{Kind: "client", NAccts: 1 + r.Rng.Intn(4), MinMs: 1 + r.Rng.Intn(2)}
	scn.MaxMs = scn.MinMs * []int{1, 2, 4, 8}[r.Rng.Intn(4)]
	behs := []string{c18BehErrBC, c18BehShutBC, c18BehErrAC, c18BehShutAC, c18BehErrMid,
		c18BehErrBC, c18BehErrAC, c18BehErrMid}
	script := func(n int, allowReject bool) []string {
		// mostly clean re-subscriptions; one time in three 1-3 faults at
		// random positions of the following handshakes (a fault during a
		// re-subscription causes a nested reconnect whose handshakes
		// consume the rest of the script)
		var b []string
		if r.Rng.Intn(3) == 0 {
			nf := 1 + r.Rng.Intn(3)
			for f := 0; f < nf; f++ {
				pos := r.Rng.Intn(n + 1)
				for i := 0; i < pos; i++ {
					b = append(b, c18BehOK)
				}
				x := behs[r.Rng.Intn(len(behs))]
				if allowReject && r.Rng.Intn(5) == 0 {
					x = c18BehReject
				}
				if allowReject && r.Rng.Intn(6) == 0 {
					x = c18BehOkShut
				}
				b = append(b, x)
			}
		}
		// The model passes "the reconnect is dirty" up as a result, the
		// real client keeps ONE shared flag that the innermost running
		// HandleServerShutdown consumes; the two agree as long as no
		// further fault follows an okShut in the same script (a fault
		// after it starts an inner reconnect that consumes the flag the
		// outer one would have restarted for – same end state, one
		// reconnect less). Keep okShut followed by fault-free behaviours
		// (more okShut allowed).
		seen := false
		for i := range b {
			if seen && b[i] != c18BehOK && b[i] != c18BehOkShut {
				b[i] = c18BehOK
			}
			if b[i] == c18BehOkShut {
				seen = true
			}
		}
		return b
	}
	refuse := func() int {
		if r.Rng.Intn(2) == 0 {
			return 0
		}
		return 1 + r.Rng.Intn(5)
	}
	// only for idle faults: a failed open inside a direct subscription's own
	// inline reconnect is returned to the caller and not retried by anyone
	failOpen := func() int {
		if r.Rng.Intn(5) != 0 {
			return 0
		}
		return 1 + r.Rng.Intn(2)
	}
	// the pending-batch check of a reconnect fails (same restriction)
	failBatch := func() int {
		if r.Rng.Intn(6) != 0 {
			return 0
		}
		return 1 + r.Rng.Intn(2)
	}
	nsub := 0
	nops := 2 + r.Rng.Intn(6)
	for i := 0; i < nops; i++ {
		x := r.Rng.Intn(10)
		switch {
		case x < 5 && nsub < scn.NAccts || nsub == 0:
			op := c18Op{Kind: "sub", Acct: nsub, Refuse: 0}
			if nsub == 0 {
				op.Refuse = refuse()
			}
			if r.Rng.Intn(3) == 0 {
				op.Beh = []string{behs[r.Rng.Intn(len(behs))]}
				op.Beh = append(op.Beh, script(nsub+1, false)...)
				op.Refuse = refuse()
			}
			nsub++
			scn.Ops = append(scn.Ops, op)
		case x < 8:
			scn.Ops = append(scn.Ops, c18Op{Kind: "err", Refuse: refuse(), FailOpen: failOpen(), FailBatch: failBatch(), Beh: script(nsub, true)})
		default:
			scn.Ops = append(scn.Ops, c18Op{Kind: "shut", Refuse: refuse(), FailOpen: failOpen(), FailBatch: failBatch(), Beh: script(nsub, true)})
		}
	}
	return scn
}

// c18RunLocal runs scenarios on parallel workers inside this process.
func c18RunLocal(scns []c18Scn, base int) []*c18ScnResult {
	pool.VerifC18UseRPCLogger(c18RPCLogger{Logger: btclog.Disabled})
	results := make([]*c18ScnResult, len(scns))
	var wg sync.WaitGroup
	next := int64(-1)
	for w := 0; w < 6; w++ {
		wg.Add(1)
		go func() {
			defer wg.Done()
			for {
				i := int(atomic.AddInt64(&next, 1))
				if i >= len(scns) {
					return
				}
				results[i] = c18RunScenario(scns[i], base+i)
			}
		}()
	}
	wg.Wait()
	return results
}

// c18Child is the entry point of a child process (env C18_CHILD=1): it reads
// scenarios from stdin, runs them on the real client and prints the results.
// A panic inside a goroutine of the real client cannot be recovered, so the
// whole-client scenarios never run in the harness process itself.
func c18Child() {
	var in struct {
		Base int      `json:"base"`
		Scns []c18Scn `json:"scns"`
	}
	if err := json.NewDecoder(os.Stdin).Decode(&in); err != nil {
		fmt.Fprintln(os.Stderr, "c18 child: bad input:", err)
		os.Exit(3)
	}
	auctioneer.UseLogger(c18Log)
	res := c18RunLocal(in.Scns, in.Base)
	b, _ := json.Marshal(res)
	os.Stdout.Write(b)
	os.Exit(0)
}

func c18Spawn(scns []c18Scn, base int) ([]*c18ScnResult, string) {
	exe, err := os.Executable()
	if err != nil {
		return nil, err.Error()
	}
	tmp, _ := os.MkdirTemp("", "auct-c18-child")
	defer os.RemoveAll(tmp)
	in, _ := json.Marshal(map[string]interface{}{"base": base, "scns": scns})
	cmd := exec.Command(exe, "-prop", "C18", "-n", "0", "-out", tmp)
	cmd.Env = append(os.Environ(), "C18_CHILD=1")
	cmd.Stdin = bytes.NewReader(in)
	var out, errb bytes.Buffer
	cmd.Stdout, cmd.Stderr = &out, &errb
	if err := cmd.Run(); err != nil {
		msg := errb.String()
		if i := strings.Index(msg, "panic:"); i >= 0 {
			msg = msg[i:]
		}
		if j := strings.Index(msg, "\n"); j >= 0 {
			// keep the panic line and the top frame
			rest := msg[j+1:]
			top := ""
			for _, l := range strings.Split(rest, "\n") {
				if strings.Contains(l, "auctioneer.") {
					top = " in " + strings.TrimSpace(l)
					break
				}
			}
			msg = msg[:j] + top
		}
		return nil, "child failed (" + err.Error() + "): " + msg
	}
	var res []*c18ScnResult
	if err := json.Unmarshal(out.Bytes(), &res); err != nil || len(res) != len(scns) {
		return nil, "child output unreadable"
	}
	return res, ""
}

// c18NestedShutdown reports whether the scenario's script can deliver a
// shutdown notice to a re-subscription handshake (trigger of the
// concurrent-reconnects finding).
func c18NestedShutdown(scn c18Scn) bool {
	for _, op := range scn.Ops {
		for i, b := range op.Beh {
			if (b == c18BehShutBC || b == c18BehShutAC) && (i > 0 || op.Kind != "sub") {
				return true
			}
		}
	}
	return false
}

// c18Clients runs the scenarios in child processes (chunks; a crashing chunk
// is re-run one scenario per child) and reports them in order.
func c18Clients(r *Run, scns []c18Scn) {
	results := make([]*c18ScnResult, len(scns))
	const chunk = 30
	for lo := 0; lo < len(scns); lo += chunk {
		hi := lo + chunk
		if hi > len(scns) {
			hi = len(scns)
		}
		res, fail := c18Spawn(scns[lo:hi], lo)
		if fail == "" {
			copy(results[lo:hi], res)
			continue
		}
		r.Count("client/child-crash-chunk")
		for i := lo; i < hi; i++ {
			one, fail1 := c18Spawn(scns[i:i+1], i)
			if fail1 == "" {
				results[i] = one[0]
				continue
			}
			key := "C18/client/crash"
			if c18NestedShutdown(scns[i]) {
				key = "C18/client/concurrent-reconnects"
			}
			results[i] = &c18ScnResult{
				Lines:  [][2]string{{"C18 cl reset", "ok"}},
				BadKey: key,
				Bad:    []string{"the real client crashed the process: " + fail1},
				Trace:  []string{"crashed: " + fail1},
			}
		}
	}
	for i, res := range results {
		r.Evaluations++
		if scns[i].Kind == "concurrent" {
			r.Count("client/concurrent-scenario")
		}
		r.Count("client/scenario")
		for j, op := range scns[i].Ops {
			if j >= len(res.Ops) {
				break
			}
			r.Count("client/op/" + op.Kind)
			if op.FailOpen > 0 {
				r.Count("client/open-fails")
			}
			if op.FailBatch > 0 {
				r.Count("client/batch-check-fails")
			}
			or := res.Ops[j]
			if or.Attempts > or.NewStreams {
				r.Count("client/refused-connects")
			}
			if op.Kind != "sub" && or.NewStreams == 1 && len(or.HandlerRes) <= 1 && or.Alive && len(or.Cur) > 0 {
				r.Count("client/resub-clean")
			}
			for _, b := range res.BehSeen[j] {
				r.Count("client/beh/" + b)
			}
		}
		r.Distinct(strings.Join(res.Trace, ";"))
		if i < 2 {
			r.Sample(res.Trace)
		}
		if os.Getenv("C18_TRACE") != "" {
			fmt.Fprintf(os.Stderr, "--- scenario %d naccts=%d min=%d max=%d\n  %s\n  BAD=%v stopHung=%v\n", i, scns[i].NAccts,
				scns[i].MinMs, scns[i].MaxMs, strings.Join(res.Trace, "\n  "), res.Bad, res.StopHung)
		}
		for _, l := range res.Lines {
			r.Emit(l[0], l[1])
		}
		if len(res.Bad) > 0 {
			key := res.BadKey
			if key == "" {
				key = "C18/client"
			}
			r.Count("client/violation/" + strings.TrimPrefix(key, "C18/client/"))
			r.Violate(res.Bad[0], key, map[string]interface{}{"kind": "client", "scenario": scns[i], "trace": res.Trace})
		}
	}
}

func c18hexKey(a *c18Acct) string { return hex.EncodeToString(a.pub[:]) }
