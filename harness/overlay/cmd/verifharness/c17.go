//go:build verif

package main

import (
	"encoding/json"
	"fmt"

	"github.com/lightninglabs/pool/order"
	"github.com/lightningnetwork/lnd/keychain"
	"github.com/lightningnetwork/lnd/lnrpc"
	"github.com/lightningnetwork/lnd/lnwallet"
	"github.com/lightningnetwork/lnd/lnwire"
)

func init() { props["C17"] = runC17 }

// runC17: (1) constants, (2) recorded cases, (3) acceptor sweeps, (4) funding
// shim / open request derivation by two (three for sidecars) real managers.
func runC17(r *Run) {
	r.Rule = "acceptor: random ShimRegistered/ShimRemoved histories over 4 pending ids x exhaustive sweep of " +
		"commitment type (nil,0..6) x channel flags x wantsZeroConf x 5 push amounts (exact, +sub-sat, +1 sat, -1 msat, " +
		"random/negative); non-trivial = distinct request on a registered id that is admitted or violates exactly one demand. " +
		"funding: random ask/bid pairs (all channel-type pairings, self balances, relative/absolute maturity incl. the uint32 " +
		"wrap, 30% sidecar bids with consistent or single-field-deviating offers) submitted through the real Client.SubmitOrder, " +
		"matched by an honest auctioneer into OrderMatchPrepare messages (protobuf wire round trip, ParseRPCBatch), batch tx with " +
		"the funding output at a random index among 1..6 outputs (duplicates, other-type decoy, missing); maker = real " +
		"BatchChannelSetup, taker = real PrepChannelFunding (sidecar: provider + recipient via getSidecarAsOrder), each with its " +
		"own wallet; non-trivial = distinct honest pair on which all compared fields agree. whole batches: 1-3 bids of one taker each " +
		"matched with 1-3 asks of one or two maker nodes (repeated counterparty nodes, provider-only sidecar bids), real " +
		"PrepChannelFunding / BatchChannelSetup over the whole OrderMatchPrepare; oracle: exactly one shim + acceptor expectation " +
		"per matched pair, equal to the one request the maker opens. re-proposals: 2-3 proposals of the same pairs with a new batch tx " +
		"and later height hint, separated by the real RemovePendingBatchArtifacts with all / some / no shim cancels succeeding, " +
		"against an lnd mock that refuses duplicate pending ids and keeps the first shim; oracle: whenever the bidder accepts a " +
		"proposal, the shims its lnd holds equal what the makers open for that proposal. concurrency: 8 goroutines derive the shims " +
		"and pending ids of 8 different pairs through one real funding.Manager at once (300 rounds each); every result must equal " +
		"the result of the same call made alone and sha256(ask||bid)"

	// compiled values of the constants the model hard-codes / regenerates
	r.Emit("C17 consts", fmt.Sprintf("cse=%d cst=%d ffa=%d msat=%d pd=%d se=%d st=%d unit=%d rpcunk=%d rpcsel=%d rpcst=%d kfms=%d",
		lnwallet.CommitmentTypeScriptEnforcedLease, lnwallet.CommitmentTypeSimpleTaproot,
		lnwire.FFAnnounceChannel, uint64(lnwire.NewMSatFromSatoshis(1)),
		order.ChannelTypePeerDependent, order.ChannelTypeScriptEnforced, order.ChannelTypeSimpleTaproot,
		int64(order.BaseSupplyUnit), int32(lnrpc.CommitmentType_UNKNOWN_COMMITMENT_TYPE),
		int32(lnrpc.CommitmentType_SCRIPT_ENFORCED_LEASE), int32(lnrpc.CommitmentType_SIMPLE_TAPROOT),
		uint32(keychain.KeyFamilyMultiSig)))

	acc := &c17Acceptor{r: r}
	fund := c17NewFunding(r)
	defer fund.close()
	for _, raw := range r.FixedCases() {
		var k struct {
			Kind string `json:"kind"`
		}
		if json.Unmarshal(raw, &k) != nil {
			continue
		}
		r.Count("case/fixed")
		switch k.Kind {
		case "acceptor":
			var c c17AccCase
			if json.Unmarshal(raw, &c) == nil {
				acc.replay(c)
			}
		case "batch":
			var c c17BatchCase
			if json.Unmarshal(raw, &c) == nil {
				fund.execBatch(&c)
			}
		case "conc":
			var c c17ConcCase
			if json.Unmarshal(raw, &c) == nil {
				fund.execConcurrent(&c)
			}
		case "repro":
			var c c17ReproCase
			if json.Unmarshal(raw, &c) == nil {
				fund.execRepro(&c)
			}
		case "pair":
			var c c17PairCase
			if json.Unmarshal(raw, &c) == nil {
				fund.exec(&c)
			}
		}
	}
	if r.ReplayFile != "" {
		return
	}

	nSweeps := 25 + r.N/200
	for i := 0; i < nSweeps; i++ {
		acc.sweep()
	}
	r.Sample(map[string]interface{}{"acceptor_history": acc.hist})

	for i := 0; i < r.N; i++ {
		fund.exec(fund.gen())
		if i%4 == 0 {
			fund.deriveOdd()
		}
		if i%5 == 0 {
			fund.execBatch(&c17BatchCase{Kind: "batch", Seed: r.Rng.Int63()})
		}
		if i%50 == 7 {
			fund.execConcurrent(&c17ConcCase{Kind: "conc", Seed: r.Rng.Int63()})
		}
		if i%5 == 2 {
			fund.execRepro(&c17ReproCase{Kind: "repro", Seed: r.Rng.Int63()})
		}
		if len(r.Violations) >= 20 {
			break
		}
	}
}
