//go:build verif

package main

// Independent derivation of the account output scripts for the oracle tables
// and the C02 oracle: written from the script definitions with btcd / lnd
// primitives only. Nothing here calls into poolscript, so state kept by
// that package (caches, pools) cannot leak into the expected values.

import (
	"crypto/sha256"
	"fmt"

	"github.com/btcsuite/btcd/btcec/v2"
	"github.com/btcsuite/btcd/btcec/v2/schnorr"
	"github.com/btcsuite/btcd/txscript"
	"github.com/lightningnetwork/lnd/input"
)

// bIncrementKey returns key + G.
func bIncrementKey(k *btcec.PublicKey) *btcec.PublicKey {
	var one btcec.ModNScalar
	one.SetInt(1)
	var kj, g, res btcec.JacobianPoint
	k.AsJacobian(&kj)
	btcec.ScalarBaseMultNonConst(&one, &g)
	btcec.AddNonConst(&kj, &g, &res)
	res.ToAffine()
	return btcec.NewPublicKey(&res.X, &res.Y)
}

// bIndepNextAccountScript: pkScript of the account output after the batch
// key was advanced by one.
//
//	tweak         = sha256(batchKey' || secret || traderKey)
//	traderKey'    = traderKey + tweak*G
//	version 0:    p2wsh(<traderKey'> CHECKSIGVERIFY <auctioneerKey + H(traderKey'||auctioneerKey)*G> CHECKSIG
//	              IFDUP NOTIF <expiry> CLTV ENDIF)
//	version 1/2:  p2tr(MuSig2(auctioneerKey, traderKey) tweaked with the tap leaf
//	              <x(traderKey')> CHECKSIGVERIFY <expiry> CLTV); v1 = MuSig2 0.4.0 over x-only keys
func bIndepNextAccountScript(sv uint8, expiry uint32, trader, auctioneer, batchKey *btcec.PublicKey,
	secret [32]byte) ([]byte, error) {

	next := bIncrementKey(batchKey)
	h := sha256.New()
	h.Write(next.SerializeCompressed())
	h.Write(secret[:])
	h.Write(trader.SerializeCompressed())
	tweakedTrader := input.TweakPubKeyWithTweak(trader, h.Sum(nil))

	switch sv {
	case 0:
		tweakedAuctioneer := input.TweakPubKey(auctioneer, tweakedTrader)
		b := txscript.NewScriptBuilder()
		b.AddData(tweakedTrader.SerializeCompressed())
		b.AddOp(txscript.OP_CHECKSIGVERIFY)
		b.AddData(tweakedAuctioneer.SerializeCompressed())
		b.AddOp(txscript.OP_CHECKSIG)
		b.AddOp(txscript.OP_IFDUP)
		b.AddOp(txscript.OP_NOTIF)
		b.AddInt64(int64(expiry))
		b.AddOp(txscript.OP_CHECKLOCKTIMEVERIFY)
		b.AddOp(txscript.OP_ENDIF)
		ws, err := b.Script()
		if err != nil {
			return nil, err
		}
		wsh := sha256.Sum256(ws)
		return txscript.NewScriptBuilder().AddOp(txscript.OP_0).AddData(wsh[:]).Script()

	case 1, 2:
		b := txscript.NewScriptBuilder()
		b.AddData(schnorr.SerializePubKey(tweakedTrader))
		b.AddOp(txscript.OP_CHECKSIGVERIFY)
		b.AddInt64(int64(expiry))
		b.AddOp(txscript.OP_CHECKLOCKTIMEVERIFY)
		ls, err := b.Script()
		if err != nil {
			return nil, err
		}
		leaf := txscript.NewBaseTapLeaf(ls)
		root := leaf.TapHash()
		ver := input.MuSig2Version100RC2
		ak, tk := auctioneer, trader
		if sv == 1 {
			ver = input.MuSig2Version040
			if ak, err = schnorr.ParsePubKey(schnorr.SerializePubKey(auctioneer)); err != nil {
				return nil, err
			}
			if tk, err = schnorr.ParsePubKey(schnorr.SerializePubKey(trader)); err != nil {
				return nil, err
			}
		}
		agg, err := input.MuSig2CombineKeys(ver, []*btcec.PublicKey{ak, tk}, true,
			&input.MuSig2Tweaks{TaprootTweak: root[:]})
		if err != nil {
			return nil, err
		}
		return txscript.NewScriptBuilder().AddOp(txscript.OP_1).
			AddData(schnorr.SerializePubKey(agg.FinalKey)).Script()
	}
	return nil, fmt.Errorf("invalid script version %d", sv)
}
