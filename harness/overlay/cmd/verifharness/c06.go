//go:build verif

package main

import (
	"bytes"
	"context"
	"encoding/json"
	"errors"
	"fmt"
	"os"
	"runtime"
	"path/filepath"
	"sort"
	"strconv"
	"strings"
	"sync"
	"time"

	"github.com/btcsuite/btcd/btcec/v2"
	"github.com/btcsuite/btcd/btcutil"
	"github.com/btcsuite/btcd/chaincfg/chainhash"
	"github.com/btcsuite/btcd/wire"
	"github.com/lightninglabs/lndclient"
	"github.com/lightninglabs/pool"
	"github.com/lightninglabs/pool/account"
	"github.com/lightninglabs/pool/auctioneer"
	"github.com/lightninglabs/pool/auctioneerrpc"
	"github.com/lightninglabs/pool/clientdb"
	"github.com/lightninglabs/pool/order"
	"github.com/lightninglabs/pool/poolscript"
	"github.com/lightninglabs/pool/sidecar"
	"github.com/lightninglabs/pool/terms"
	"github.com/lightningnetwork/lnd/chainntnfs"
	"github.com/lightningnetwork/lnd/keychain"
	"github.com/lightningnetwork/lnd/lnwallet/chainfee"
	"google.golang.org/grpc"
)

func init() { props["C06"] = runC06 }

// ---------------------------------------------------------------- fixtures

// c06World maps the small integer tags of the op language to real keys,
// nonces, transactions and batch IDs (and back).
type c06World struct {
	acctKey  [10]*btcec.PublicKey
	acctIdx  map[[33]byte]int
	bkeys    []*btcec.PublicKey // bkeys[n] = (n+1)*G
	bkeyIdx  map[[33]byte]int
	txs      [16]*wire.MsgTx
	txIdx    map[chainhash.Hash]int
	aucKey   *btcec.PublicKey
	nonceIdx map[order.Nonce]int
	batchIdx map[order.BatchID]int
	ticket   *sidecar.Ticket
}

func c06Ser(k *btcec.PublicKey) (r [33]byte) {
	copy(r[:], k.SerializeCompressed())
	return
}

func newC06World() *c06World {
	w := &c06World{
		acctIdx: map[[33]byte]int{}, bkeyIdx: map[[33]byte]int{},
		txIdx: map[chainhash.Hash]int{}, nonceIdx: map[order.Nonce]int{},
		batchIdx: map[order.BatchID]int{},
	}
	for i := 1; i < len(w.acctKey); i++ {
		var b [32]byte
		b[0], b[31] = 0x21, byte(i)
		_, w.acctKey[i] = btcec.PrivKeyFromBytes(b[:])
		w.acctIdx[c06Ser(w.acctKey[i])] = i
	}
	var one [32]byte
	one[31] = 1
	_, g := btcec.PrivKeyFromBytes(one[:])
	k := g
	for n := 0; n < 600; n++ {
		w.bkeys = append(w.bkeys, k)
		w.bkeyIdx[c06Ser(k)] = n
		k = poolscript.IncrementKey(k)
	}
	var a [32]byte
	a[0], a[31] = 0x33, 7
	_, w.aucKey = btcec.PrivKeyFromBytes(a[:])
	for t := 1; t < len(w.txs); t++ {
		w.txs[t] = &wire.MsgTx{
			Version: 2,
			TxIn: []*wire.TxIn{{
				PreviousOutPoint: wire.OutPoint{Index: uint32(t)},
				Sequence:         0xffffffff,
			}},
			TxOut: []*wire.TxOut{{Value: int64(1000 + t), PkScript: []byte{0x51}}},
		}
		w.txIdx[w.txs[t].TxHash()] = t
	}
	w.ticket = &sidecar.Ticket{
		ID:      [8]byte{7, 7, 7, 1},
		Version: sidecar.VersionDefault,
		State:   sidecar.StateOffered,
		Offer: sidecar.Offer{
			Capacity: 1000000, PushAmt: 2000, LeaseDurationBlocks: 2016,
			SignPubKey: w.acctKey[9],
		},
	}
	for n := 0; n < 32; n++ {
		w.nonceIdx[w.nonce(n)] = n
		w.batchIdx[w.batchID(n)] = n
	}
	return w
}

func (w *c06World) nonce(n int) order.Nonce     { return order.Nonce{byte(n), 0xaa, 0x55} }
func (w *c06World) batchID(i int) order.BatchID { return order.BatchID{0x02, byte(i), 0xbb} }
func (w *c06World) opHash(t int) chainhash.Hash {
	if t <= 0 || t >= len(w.txs) {
		return chainhash.Hash{}
	}
	return w.txs[t].TxHash()
}

// ---------------------------------------------------------------- records

type c06Acct struct {
	Value, Expiry, State, BKey, OpTx, OpIdx, Hint, Tx, Ver int64
}

func (a c06Acct) str(k int) string {
	return fmt.Sprintf("%d:%d,%d,%d,%d,%d,%d,%d,%d,%d", k, a.Value, a.Expiry, a.State,
		a.BKey, a.OpTx, a.OpIdx, a.Hint, a.Tx, a.Ver)
}

type c06Ord struct {
	State           int64
	Unfilled, Units uint64
	Min             uint64
	Bid             int64 // 1 = bid, 0 = ask
	Tier            int64 // Bid.MinNodeTier
	Extras          int64 // tag of the TLV-encoded optional terms (c06Extras)
}

func (o c06Ord) str(n int) string {
	return fmt.Sprintf("%d:%d,%d,%d,%d,%d,%d,%d", n, o.State, o.Unfilled, o.Units, o.Min, o.Bid, o.Tier, o.Extras)
}

// c06ParseOrd parses `state unfilled units min isBid tier extras`.
func c06ParseOrd(f []string) c06Ord {
	var v [7]uint64
	for i := 0; i < 7 && i < len(f); i++ {
		v[i], _ = strconv.ParseUint(f[i], 10, 64)
	}
	return c06Ord{int64(v[0]), v[1], v[2], v[3], int64(v[4]), int64(v[5]), int64(v[6])}
}

// c06Extras sets the optional, TLV-encoded terms of an order from a 3-bit tag:
// bit 0: script enforced channel type + public flag; bit 1: allowed node
// ids + outbound-liquidity auction type; bit 2: blocked node ids and, for
// bids, self channel balance, sidecar ticket, unannounced + zero-conf flags,
// for asks the announcement / confirmation constraints.
func (w *c06World) c06Extras(o order.Order, tag int64) {
	k := o.Details()
	if tag&1 != 0 {
		k.ChannelType = order.ChannelTypeScriptEnforced
		k.IsPublic = true
	}
	if tag&2 != 0 {
		k.AllowedNodeIDs = [][33]byte{c06Ser(w.acctKey[6]), c06Ser(w.acctKey[7])}
		k.AuctionType = order.BTCOutboundLiquidity
	}
	if tag&4 != 0 {
		k.NotAllowedNodeIDs = [][33]byte{c06Ser(w.acctKey[8])}
		switch t := o.(type) {
		case *order.Bid:
			t.SelfChanBalance = 12345
			t.SidecarTicket = w.ticket
			t.UnannouncedChannel = true
			t.ZeroConfChannel = true
		case *order.Ask:
			t.AnnouncementConstraints = order.OnlyUnannounced
			t.ConfirmationConstraints = order.OnlyZeroConf
		}
	}
}

// c06ExtrasSig is the canonical text of the optional terms of a real order.
func c06ExtrasSig(o order.Order) string {
	k := o.Details()
	s := fmt.Sprintf("ct=%d pub=%v allow=%x deny=%x at=%d", k.ChannelType, k.IsPublic, k.AllowedNodeIDs,
		k.NotAllowedNodeIDs, k.AuctionType)
	switch t := o.(type) {
	case *order.Bid:
		tk := "nil"
		if t.SidecarTicket != nil {
			tk = fmt.Sprintf("%x/%d/%d", t.SidecarTicket.ID, t.SidecarTicket.Offer.Capacity, t.SidecarTicket.State)
		}
		s += fmt.Sprintf(" scb=%d tk=%s un=%v zc=%v", t.SelfChanBalance, tk, t.UnannouncedChannel, t.ZeroConfChannel)
	case *order.Ask:
		s += fmt.Sprintf(" ac=%d cc=%d", t.AnnouncementConstraints, t.ConfirmationConstraints)
	}
	return s
}

type c06Snap struct {
	ID, Tx int
	A      map[int]c06Acct
	O      map[int]c06Ord
	M      map[int][]uint64
}

func sortedKeys[V any](m map[int]V) []int {
	ks := make([]int, 0, len(m))
	for k := range m {
		ks = append(ks, k)
	}
	sort.Ints(ks)
	return ks
}

func joinOr(xs []string, sep string) string {
	if len(xs) == 0 {
		return "-"
	}
	return strings.Join(xs, sep)
}

func (s *c06Snap) str() string {
	var as, os, ms []string
	for _, k := range sortedKeys(s.A) {
		as = append(as, s.A[k].str(k))
	}
	for _, k := range sortedKeys(s.O) {
		o := s.O[k]
		os = append(os, fmt.Sprintf("%d:%d,%d,%d", k, o.State, o.Unfilled, o.Units))
	}
	for _, k := range sortedKeys(s.M) {
		var us []string
		for _, u := range s.M[k] {
			us = append(us, strconv.FormatUint(u, 10))
		}
		ms = append(ms, fmt.Sprintf("%d:%s", k, joinOr(us, "+")))
	}
	return fmt.Sprintf("%d,%d[%s][%s][%s]", s.ID, s.Tx, joinOr(as, ";"), joinOr(os, ";"), joinOr(ms, ";"))
}

// c06Obs is everything the property's observation points return.
type c06Obs struct {
	A    map[int]c06Acct // Accounts()
	a    [6]*c06Acct     // Account(k), k=1..5
	O    map[int]c06Ord  // GetOrders()
	o    [8]*c06Ord      // GetOrder(n), n=1..7
	P    *c06Snap        // PendingBatchSnapshot()
	Perr string
	S    []*c06Snap    // GetLocalBatchSnapshots()
	Serr string        // "noOrder": a snapshot order is missing from the main bucket
	G    [7]*c06Snap   // GetLocalBatchSnapshot(id), id=1..6
	Gerr [7]bool       // ErrNoOrder
	Enorefs [8]bool    // "order event sub bucket not found"
	E    [8][]string   // GetOrderEvents(n)
	Eerr [8]bool
	bad  string // an observer failed unexpectedly
}

func (ob *c06Obs) visible() string {
	s := ob.str()
	i := strings.Index(s, " P=")
	j := strings.Index(s, " S=")
	k := strings.Index(s, " E=")
	return s[:i] + s[j:k]
}

func (ob *c06Obs) str() string {
	var A, a, O, o, S, G, E []string
	for _, k := range sortedKeys(ob.A) {
		A = append(A, ob.A[k].str(k))
	}
	for k := 1; k <= 5; k++ {
		if ob.a[k] != nil {
			a = append(a, ob.a[k].str(k))
		} else {
			a = append(a, fmt.Sprintf("%d!", k))
		}
	}
	for _, k := range sortedKeys(ob.O) {
		O = append(O, ob.O[k].str(k))
	}
	for n := 1; n <= 7; n++ {
		if ob.o[n] != nil {
			o = append(o, ob.o[n].str(n))
		} else {
			o = append(o, fmt.Sprintf("%d!", n))
		}
	}
	P := "!" + ob.Perr
	if ob.P != nil {
		P = ob.P.str()
	}
	for _, s := range ob.S {
		S = append(S, s.str())
	}
	for i := 1; i <= 6; i++ {
		if ob.G[i] != nil {
			G = append(G, ob.G[i].str())
		} else if ob.Gerr[i] {
			G = append(G, fmt.Sprintf("%d!noOrder", i))
		} else {
			G = append(G, fmt.Sprintf("%d!", i))
		}
	}
	for n := 1; n <= 7; n++ {
		if ob.Enorefs[n] {
			E = append(E, fmt.Sprintf("%d!norefs", n))
		} else if ob.Eerr[n] {
			E = append(E, fmt.Sprintf("%d!", n))
		} else {
			E = append(E, fmt.Sprintf("%d:%s", n, joinOr(ob.E[n], ";")))
		}
	}
	Sstr := joinOr(S, "|")
	if ob.Serr != "" {
		Sstr = "!" + ob.Serr
	}
	return fmt.Sprintf("A=%s a=%s O=%s o=%s P=%s S=%s G=%s E=%s", joinOr(A, ";"),
		strings.Join(a, ";"), joinOr(O, ";"), strings.Join(o, ";"), P, Sstr,
		strings.Join(G, "|"), strings.Join(E, "|"))
}

// ---------------------------------------------------------------- real DB driver

type c06DB struct {
	w   *c06World
	dir string
	db  *clientdb.DB
}

func openC06DB(w *c06World, tag string) *c06DB {
	dir, err := os.MkdirTemp("", "stage-"+tag+"-")
	if err != nil {
		panic(err)
	}
	d := &c06DB{w: w, dir: dir}
	d.open()
	return d
}

func (d *c06DB) open() {
	db, err := clientdb.New(d.dir, clientdb.DBFilename)
	if err != nil {
		panic(err)
	}
	// fsync is bbolt's business (trusted base); skipping it keeps the
	// thousands of transactions of a run fast and does not change what a
	// reopened handle reads.
	db.NoSync = true
	d.db = db
}

func (d *c06DB) reopen() {
	if err := d.db.Close(); err != nil {
		panic(err)
	}
	d.open()
}

// copyFile copies the database file as it is on disk right now into a fresh
// directory and returns that directory.
func (d *c06DB) copyFile() string {
	dir, err := os.MkdirTemp("", "stage-crash-")
	if err != nil {
		panic(err)
	}
	b, err := os.ReadFile(filepath.Join(d.dir, clientdb.DBFilename))
	if err != nil {
		panic(err)
	}
	if err := os.WriteFile(filepath.Join(dir, clientdb.DBFilename), b, 0o600); err != nil {
		panic(err)
	}
	return dir
}

func (d *c06DB) close() {
	d.db.Close()
	os.RemoveAll(d.dir)
}

func (d *c06DB) fromAcct(a *account.Account) (int, c06Acct) {
	w := d.w
	k := w.acctIdx[c06Ser(a.TraderKey.PubKey)]
	r := c06Acct{
		Value: int64(a.Value), Expiry: int64(a.Expiry), State: int64(a.State),
		OpIdx: int64(a.OutPoint.Index), Hint: int64(a.HeightHint), Ver: int64(a.Version),
	}
	if n, ok := w.bkeyIdx[c06Ser(a.BatchKey)]; ok {
		r.BKey = int64(n)
	} else {
		r.BKey = -1
	}
	if a.OutPoint.Hash != (chainhash.Hash{}) {
		if t, ok := w.txIdx[a.OutPoint.Hash]; ok {
			r.OpTx = int64(t)
		} else {
			r.OpTx = -1
		}
	}
	if a.LatestTx != nil {
		if t, ok := w.txIdx[a.LatestTx.TxHash()]; ok {
			r.Tx = int64(t)
		} else {
			r.Tx = -1
		}
	}
	return k, r
}

func (d *c06DB) toAcct(k int, r c06Acct) *account.Account {
	w := d.w
	a := &account.Account{
		Value:  btcutil.Amount(r.Value),
		Expiry: uint32(r.Expiry),
		TraderKey: &keychain.KeyDescriptor{
			KeyLocator: keychain.KeyLocator{Family: poolscript.AccountKeyFamily, Index: uint32(k)},
			PubKey:     w.acctKey[k],
		},
		AuctioneerKey: w.aucKey,
		BatchKey:      w.bkeys[r.BKey],
		Secret:        [32]byte{0x73, byte(k)},
		State:         account.State(r.State),
		HeightHint:    uint32(r.Hint),
		OutPoint:      wire.OutPoint{Hash: w.opHash(int(r.OpTx)), Index: uint32(r.OpIdx)},
		Version:       account.Version(r.Ver),
	}
	if r.Tx > 0 {
		a.LatestTx = w.txs[r.Tx]
	}
	return a
}

func (d *c06DB) fromOrder(o order.Order) (int, c06Ord) {
	k := o.Details()
	r := c06Ord{
		State: int64(k.State), Unfilled: uint64(k.UnitsUnfulfilled), Units: uint64(k.Units),
		Min: uint64(k.MinUnitsMatch), Extras: 99,
	}
	if b, ok := o.(*order.Bid); ok {
		r.Bid, r.Tier = 1, int64(b.MinNodeTier)
	}
	// which tag do the optional terms read back as? (99 = none: damaged)
	sig := c06ExtrasSig(o)
	for tag := int64(0); tag < 8; tag++ {
		var ref order.Order
		if r.Bid == 1 {
			ref = &order.Bid{}
		} else {
			ref = &order.Ask{}
		}
		d.w.c06Extras(ref, tag)
		if c06ExtrasSig(ref) == sig {
			r.Extras = tag
		}
	}
	return d.w.nonceIdx[o.Nonce()], r
}

func (d *c06DB) toOrder(n int, r c06Ord) order.Order {
	kit := order.NewKit(d.w.nonce(n))
	kit.State = order.State(r.State)
	kit.Units = order.SupplyUnit(r.Units)
	kit.UnitsUnfulfilled = order.SupplyUnit(r.Unfilled)
	kit.MinUnitsMatch = order.SupplyUnit(r.Min)
	kit.Amt = btcutil.Amount(r.Units % 1000000 * 100000)
	kit.FixedRate = 21
	kit.MaxBatchFeeRate = chainfee.FeePerKwFloor
	kit.LeaseDuration = 2016
	kit.MultiSigKeyLocator = keychain.KeyLocator{Family: 1, Index: uint32(n)}
	copy(kit.AcctKey[:], d.w.acctKey[1].SerializeCompressed())
	var o order.Order
	if r.Bid == 0 {
		o = &order.Ask{Kit: *kit}
	} else {
		o = &order.Bid{Kit: *kit, MinNodeTier: order.NodeTier(r.Tier)}
	}
	d.w.c06Extras(o, r.Extras)
	return o
}

func (d *c06DB) fromSnap(s *clientdb.LocalBatchSnapshot) *c06Snap {
	r := &c06Snap{A: map[int]c06Acct{}, O: map[int]c06Ord{}, M: map[int][]uint64{}}
	r.ID = d.w.batchIdx[s.BatchID]
	if s.BatchTX != nil {
		if t, ok := d.w.txIdx[s.BatchTX.TxHash()]; ok {
			r.Tx = t
		} else {
			r.Tx = -1
		}
	}
	for _, a := range s.Accounts {
		k, v := d.fromAcct(a)
		r.A[k] = v
	}
	for _, o := range s.Orders {
		n, v := d.fromOrder(o)
		v.Min = 0
		r.O[n] = v
	}
	for nonce, ms := range s.MatchedOrders {
		for _, m := range ms {
			n := d.w.nonceIdx[nonce]
			r.M[n] = append(r.M[n], uint64(m.UnitsFilled))
		}
	}
	return r
}

func c06ErrName(err error) string {
	switch {
	case err == nil:
		return "ok"
	case errors.Is(err, clientdb.ErrNoOrder):
		return "noOrder"
	case errors.Is(err, clientdb.ErrOrderExists):
		return "orderExists"
	case errors.Is(err, clientdb.ErrAccountNotFound):
		return "noAcct"
	case errors.Is(err, account.ErrNoPendingBatch):
		return "noPending"
	}
	// every other failure is just "an error": no classification by message
	// text (a reworded fmt.Errorf must change nothing)
	return "err"
}

// observe calls every observation point of the property on the real DB.
func (d *c06DB) observe() *c06Obs {
	ob := &c06Obs{A: map[int]c06Acct{}, O: map[int]c06Ord{}}
	fail := func(what string, err error) {
		if ob.bad == "" {
			ob.bad = fmt.Sprintf("%s: %v", what, err)
		}
	}
	accts, err := d.db.Accounts()
	if err != nil {
		fail("Accounts", err)
	}
	for _, a := range accts {
		k, v := d.fromAcct(a)
		if _, dup := ob.A[k]; dup {
			fail("Accounts", fmt.Errorf("duplicate account %d", k))
		}
		ob.A[k] = v
	}
	for k := 1; k <= 5; k++ {
		a, err := d.db.Account(d.w.acctKey[k])
		switch {
		case err == nil:
			_, v := d.fromAcct(a)
			ob.a[k] = &v
		case errors.Is(err, clientdb.ErrAccountNotFound):
		default:
			fail("Account", err)
		}
	}
	orders, err := d.db.GetOrders()
	if err != nil {
		fail("GetOrders", err)
	}
	for _, o := range orders {
		n, v := d.fromOrder(o)
		if _, dup := ob.O[n]; dup {
			fail("GetOrders", fmt.Errorf("duplicate order %d", n))
		}
		ob.O[n] = v
	}
	for n := 1; n <= 7; n++ {
		o, err := d.db.GetOrder(d.w.nonce(n))
		switch {
		case err == nil:
			_, v := d.fromOrder(o)
			ob.o[n] = &v
		case errors.Is(err, clientdb.ErrNoOrder):
		default:
			fail("GetOrder", err)
		}
		evts, err := d.db.GetOrderEvents(d.w.nonce(n))
		switch {
		case err == nil:
			for _, e := range evts {
				switch ev := e.(type) {
				case *clientdb.CreatedEvent:
					ob.E[n] = append(ob.E[n], "c")
				case *clientdb.UpdatedEvent:
					if ev.Nonce() != d.w.nonce(n) {
						fail("GetOrderEvents", fmt.Errorf("foreign event"))
					}
					ob.E[n] = append(ob.E[n], fmt.Sprintf("u%d,%d,%d",
						ev.PrevState, ev.NewState, uint64(ev.UnitsFilled)))
				default:
					ob.E[n] = append(ob.E[n], "?")
				}
			}
		case errors.Is(err, clientdb.ErrNoOrder):
			ob.Eerr[n] = true
		default:
			// the order exists but its events cannot be listed
			ob.Enorefs[n] = true
		}
	}
	p, err := d.db.PendingBatchSnapshot()
	if err == nil {
		ob.P = d.fromSnap(p)
	} else {
		ob.Perr = c06ErrName(err)
		// noOrder: a staged order was deleted from the main bucket, the
		// pending snapshot cannot be completed from it
		if ob.Perr != "noPending" && ob.Perr != "noOrder" {
			fail("PendingBatchSnapshot", err)
		}
	}
	snaps, err := d.db.GetLocalBatchSnapshots()
	if errors.Is(err, clientdb.ErrNoOrder) {
		ob.Serr = "noOrder"
	} else if err != nil {
		fail("GetLocalBatchSnapshots", err)
	}
	for _, s := range snaps {
		ob.S = append(ob.S, d.fromSnap(s))
	}
	for i := 1; i <= 6; i++ {
		s, err := d.db.GetLocalBatchSnapshot(d.w.batchID(i))
		if err == nil {
			ob.G[i] = d.fromSnap(s)
		} else if errors.Is(err, clientdb.ErrNoOrder) {
			ob.Gerr[i] = true
		}
	}
	return ob
}

// ---------------------------------------------------------------- op language

type c06AMod struct {
	kind byte
	a, b int64
}
type c06OMod struct {
	kind byte
	a    uint64
}

func (m c06AMod) str() string {
	switch m.kind {
	case 'b':
		return "b"
	case 'o':
		return fmt.Sprintf("o%d:%d", m.a, m.b)
	}
	return fmt.Sprintf("%c%d", m.kind, m.a)
}
func (m c06OMod) str() string { return fmt.Sprintf("%c%d", m.kind, m.a) }

func (m c06AMod) apply(a *c06Acct) {
	switch m.kind {
	case 's':
		a.State = m.a
	case 'v':
		a.Value = m.a
	case 'e':
		a.Expiry = m.a
	case 'b':
		a.BKey++
	case 'o':
		a.OpTx, a.OpIdx = m.a, m.b
	case 'h':
		a.Hint = m.a
	case 't':
		a.Tx = m.a
	case 'r':
		a.Ver = m.a
	}
}
func (m c06OMod) apply(o *c06Ord) {
	switch m.kind {
	case 's':
		o.State = int64(m.a)
	case 'u':
		o.Unfilled = m.a
	}
}

func (d *c06DB) realAMod(m c06AMod) account.Modifier {
	switch m.kind {
	case 's':
		return account.StateModifier(account.State(m.a))
	case 'v':
		return account.ValueModifier(btcutil.Amount(m.a))
	case 'e':
		return account.ExpiryModifier(uint32(m.a))
	case 'b':
		return account.IncrementBatchKey()
	case 'o':
		return account.OutPointModifier(wire.OutPoint{Hash: d.w.opHash(int(m.a)), Index: uint32(m.b)})
	case 'h':
		return account.HeightHintModifier(uint32(m.a))
	case 't':
		if m.a == 0 {
			return account.LatestTxModifier(nil)
		}
		return account.LatestTxModifier(d.w.txs[m.a])
	case 'r':
		return account.VersionModifier(account.Version(m.a))
	}
	panic("bad amod")
}

func realOMod(m c06OMod) order.Modifier {
	if m.kind == 's' {
		return order.StateModifier(order.State(m.a))
	}
	return order.UnitsFulfilledModifier(order.SupplyUnit(m.a))
}

func parseKeyList(s string) ([]int, bool) {
	if s == "_" {
		return nil, true
	}
	var res []int
	for _, p := range strings.Split(s, ",") {
		v, err := strconv.Atoi(p)
		if err != nil {
			return nil, false
		}
		res = append(res, v)
	}
	return res, true
}

func parseAMods(s string) ([]c06AMod, bool) {
	if s == "-" {
		return nil, true
	}
	var res []c06AMod
	for _, p := range strings.Split(s, ".") {
		if p == "" {
			return nil, false
		}
		m := c06AMod{kind: p[0]}
		switch p[0] {
		case 'b':
			if len(p) != 1 {
				return nil, false
			}
		case 'o':
			if _, err := fmt.Sscanf(p[1:], "%d:%d", &m.a, &m.b); err != nil {
				return nil, false
			}
		case 's', 'v', 'e', 'h', 't', 'r':
			v, err := strconv.ParseInt(p[1:], 10, 64)
			if err != nil {
				return nil, false
			}
			m.a = v
		default:
			return nil, false
		}
		res = append(res, m)
	}
	return res, true
}

func parseOMods(s string) ([]c06OMod, bool) {
	if s == "-" {
		return nil, true
	}
	var res []c06OMod
	for _, p := range strings.Split(s, ".") {
		if p == "" || (p[0] != 's' && p[0] != 'u') {
			return nil, false
		}
		v, err := strconv.ParseUint(p[1:], 10, 64)
		if err != nil {
			return nil, false
		}
		res = append(res, c06OMod{kind: p[0], a: v})
	}
	return res, true
}

func parseAModLists(s string) ([][]c06AMod, bool) {
	if s == "_" {
		return nil, true
	}
	var res [][]c06AMod
	for _, p := range strings.Split(s, "/") {
		ms, ok := parseAMods(p)
		if !ok {
			return nil, false
		}
		res = append(res, ms)
	}
	return res, true
}

func parseOModLists(s string) ([][]c06OMod, bool) {
	if s == "_" {
		return nil, true
	}
	var res [][]c06OMod
	for _, p := range strings.Split(s, "/") {
		ms, ok := parseOMods(p)
		if !ok {
			return nil, false
		}
		res = append(res, ms)
	}
	return res, true
}

// parseMatches parses `n:u+u/n:u`.
func parseMatches(s string) (map[int][]uint64, []int, bool) {
	res := map[int][]uint64{}
	var ks []int
	if s == "_" {
		return res, nil, true
	}
	for _, p := range strings.Split(s, "/") {
		kv := strings.Split(p, ":")
		if len(kv) != 2 {
			return nil, nil, false
		}
		n, err := strconv.Atoi(kv[0])
		if err != nil {
			return nil, nil, false
		}
		if _, dup := res[n]; dup {
			return nil, nil, false
		}
		res[n] = []uint64{}
		ks = append(ks, n)
		for _, u := range strings.Split(kv[1], "+") {
			v, err := strconv.ParseUint(u, 10, 64)
			if err != nil {
				return nil, nil, false
			}
			res[n] = append(res[n], v)
		}
	}
	return res, ks, true
}

// c06OtherFee is a fee schedule StorePendingBatch cannot serialize.
type c06OtherFee struct{}

func (c06OtherFee) BaseFee() btcutil.Amount                    { return 1 }
func (c06OtherFee) ExecutionFee(btcutil.Amount) btcutil.Amount { return 1 }

func (d *c06DB) matchedOrders(m map[int][]uint64) map[order.Nonce][]*order.MatchedOrder {
	res := map[order.Nonce][]*order.MatchedOrder{}
	for n, us := range m {
		for i, u := range us {
			their := d.toOrder(20+(n+i)%10, c06Ord{State: 0, Unfilled: 5, Units: 5, Min: 1})
			res[d.w.nonce(n)] = append(res[d.w.nonce(n)], &order.MatchedOrder{
				Order:       their,
				MultiSigKey: c06Ser(d.w.acctKey[6]),
				NodeKey:     c06Ser(d.w.acctKey[7]),
				UnitsFilled: order.SupplyUnit(u),
			})
		}
	}
	return res
}

func (d *c06DB) batch(id, tx int, feeOk bool, m map[int][]uint64) *order.Batch {
	b := &order.Batch{
		ID:             d.w.batchID(id),
		Version:        order.DefaultBatchVersion,
		MatchedOrders:  d.matchedOrders(m),
		ClearingPrices: map[uint32]order.FixedRatePremium{2016: 21},
		BatchTX:        d.w.txs[tx],
		BatchTxFeeRate: chainfee.FeePerKwFloor,
		HeightHint:     100,
	}
	if feeOk {
		b.ExecutionFee = terms.NewLinearFeeSchedule(1, 100)
	} else {
		b.ExecutionFee = c06OtherFee{}
	}
	return b
}

// c06Notifier / c06AcctAuctioneer stand in for lnd's chain notifier and the
// auctioneer client when the real account manager resumes an account.
type c06Notifier struct {
	lndclient.ChainNotifierClient
	confs, spends int
}

func (n *c06Notifier) RegisterConfirmationsNtfn(context.Context, *chainhash.Hash, []byte, int32, int32,
	...lndclient.NotifierOption) (chan *chainntnfs.TxConfirmation, chan error, error) {

	n.confs++
	return make(chan *chainntnfs.TxConfirmation), make(chan error), nil
}

func (n *c06Notifier) RegisterSpendNtfn(context.Context, *wire.OutPoint, []byte, int32) (
	chan *chainntnfs.SpendDetail, chan error, error) {

	n.spends++
	return make(chan *chainntnfs.SpendDetail), make(chan error), nil
}

type c06AcctAuctioneer struct {
	account.Auctioneer
	subs int
}

func (a *c06AcctAuctioneer) Terms(context.Context) (*terms.AuctioneerTerms, error) {
	return &terms.AuctioneerTerms{MaxAccountValue: 10 * btcutil.SatoshiPerBitcoin}, nil
}

func (a *c06AcctAuctioneer) StartAccountSubscription(context.Context, *keychain.KeyDescriptor) error {
	a.subs++
	return nil
}

// ---------------------------------------------------------------- reconnect fakes

type c06Rpc struct {
	auctioneerrpc.ChannelAuctioneerClient
	resp *auctioneerrpc.BatchSnapshotResponse
	err  error
	req  []byte
}

func (f *c06Rpc) BatchSnapshot(_ context.Context, in *auctioneerrpc.BatchSnapshotRequest,
	_ ...grpc.CallOption) (*auctioneerrpc.BatchSnapshotResponse, error) {

	f.req = in.BatchId
	return f.resp, f.err
}

type c06Cleaner struct {
	d        *c06DB
	removeOk bool
	calls    []string
}

func (c *c06Cleaner) DeletePendingBatch() error {
	c.calls = append(c.calls, "delete")
	// funding.Manager.DeletePendingBatch is exactly this call.
	return c.d.db.DeletePendingBatch()
}

func (c *c06Cleaner) RemovePendingBatchArtifacts(_ map[order.Nonce][]*order.MatchedOrder,
	tx *wire.MsgTx) error {

	t := -1
	if tx != nil {
		if i, ok := c.d.w.txIdx[tx.TxHash()]; ok {
			t = i
		}
	}
	c.calls = append(c.calls, fmt.Sprintf("remove:%d", t))
	if !c.removeOk {
		return errors.New("lnd unavailable")
	}
	return nil
}

// reconnect drives the real Client.checkPendingBatch against the real DB.
func (d *c06DB) reconnect(rpc string, removeOk bool) (string, *c06Rpc) {
	f := &c06Rpc{}
	switch {
	case rpc == "err0":
		f.err = errors.New("rpc error: code = Unavailable desc = connection refused")
	case rpc == "err1":
		f.err = fmt.Errorf("rpc error: code = Unknown desc = %v", auctioneer.ErrBatchNotFinalized)
	case rpc == "mal":
		f.resp = &auctioneerrpc.BatchSnapshotResponse{BatchTx: []byte{0x01, 0x02, 0x03}}
	case strings.HasPrefix(rpc, "fin:"), strings.HasPrefix(rpc, "finw:"):
		t, _ := strconv.Atoi(rpc[strings.Index(rpc, ":")+1:])
		tx := d.w.txs[t].Copy()
		if strings.HasPrefix(rpc, "finw:") {
			// same txid, different witness data
			tx.TxIn[0].Witness = wire.TxWitness{[]byte{0x30, 0x45}, []byte{0x51}}
		}
		var buf bytes.Buffer
		if err := tx.Serialize(&buf); err != nil {
			panic(err)
		}
		f.resp = &auctioneerrpc.BatchSnapshotResponse{BatchTx: buf.Bytes()}
	default:
		panic("bad rpc outcome " + rpc)
	}
	cl := &c06Cleaner{d: d, removeOk: removeOk}
	err := auctioneer.VerifStageCheckPendingBatch(d.db, cl, f)
	// which step failed is read off the proxies' call traces, not the text
	res := "ok"
	if err != nil {
		switch {
		case len(cl.calls) > 0 && !cl.removeOk:
			res = "remove"
		case len(cl.calls) > 0:
			res = "delete"
		case f.req != nil:
			res = "query"
		default:
			res = "load"
		}
	}
	return joinOr(cl.calls, ",") + ";" + res, f
}

// ---------------------------------------------------------------- executor + oracle

// c06Case runs one history on a fresh real database, emits every op and the
// observation after it for the model, and evaluates the property's oracle.
type c06Case struct {
	r    *Run
	d    *c06DB
	hist []string
	prev *c06Obs
	bad  string

	panicMsg string

	// held[k]: the account struct a caller (manager goroutine) read earlier
	// and still holds; direct updates are issued with it, as
	// HandleAccountConf / HandleAccountExpiry do with the struct they read
	// before a batch may have completed
	held map[int]*account.Account

	sawCompleteOk, sawRestage, sawDiscardPending, sawReopenPending bool
}

func (c *c06Case) violate(format string, a ...interface{}) {
	if c.bad == "" {
		c.bad = fmt.Sprintf("op #%d %q: ", len(c.hist), c.hist[len(c.hist)-1]) + fmt.Sprintf(format, a...)
	}
}

func c06SnapEq(a, b *c06Snap) bool {
	if (a == nil) != (b == nil) {
		return false
	}
	return a == nil || a.str() == b.str()
}

// step executes one op line (without the "C06 " prefix) on the real code.
func (c *c06Case) step(op string) {
	r, d := c.r, c.d
	f := strings.Fields(op)
	if len(f) == 0 || c.bad != "" {
		return // a case stops at its first oracle violation
	}
	c.hist = append(c.hist, op)
	prev := c.prev
	var (
		res      string
		crashDir string
		raceRes  [2]string
		watchers = -1
		directDel = -1
		stageExp *c06Snap // expected staged version (stage ops)
		directA  map[int]c06Acct
		directO  map[int]c06Ord
	)
	atoi := func(s string) int { v, _ := strconv.Atoi(s); return v }
	func() {
		defer func() {
			if p := recover(); p != nil {
				// a Go panic inside the call (bbolt rolls the
				// transaction back); the model has explicit
				// panic outcomes.
				res = "panic"
				c.panicMsg = fmt.Sprint(p)
			}
		}()
		switch f[0] {
		case "addacct":
			var v [10]int64
			for i := 0; i < 10; i++ {
				v[i], _ = strconv.ParseInt(f[1+i], 10, 64)
			}
			rec := c06Acct{v[1], v[2], v[3], v[4], v[5], v[6], v[7], v[8], v[9]}
			res = c06ErrName(d.db.AddAccount(d.toAcct(int(v[0]), rec)))
			directA = map[int]c06Acct{int(v[0]): rec}
		case "submit":
			n := atoi(f[1])
			rec := c06ParseOrd(f[2:])
			res = c06ErrName(d.db.SubmitOrder(d.toOrder(n, rec)))
			directO = map[int]c06Ord{n: rec}
			if rec.Extras != 0 || rec.Tier != 0 || rec.Min > 1 {
				r.Count("submit/non-default-terms")
			}
		case "stage", "crashstage":
			id, tx, fee := atoi(f[1]), atoi(f[2]), f[3] == "1"
			os_, _ := parseKeyList(f[4])
			oms, _ := parseOModLists(f[5])
			as, _ := parseKeyList(f[6])
			ams, _ := parseAModLists(f[7])
			mt, _, _ := parseMatches(f[8])
			nonces := make([]order.Nonce, len(os_))
			for i, n := range os_ {
				nonces[i] = d.w.nonce(n)
			}
			var omods [][]order.Modifier
			for _, ms := range oms {
				l := []order.Modifier{}
				for _, m := range ms {
					l = append(l, realOMod(m))
				}
				omods = append(omods, l)
			}
			accts := make([]*account.Account, len(as))
			for i, k := range as {
				// callers pass the account as they currently know
				// it (only its trader key is used by the store)
				if cur, found := prev.A[k]; found {
					accts[i] = d.toAcct(k, cur)
				} else {
					accts[i] = d.toAcct(k, c06Acct{Value: 1, State: 3, Tx: 1})
				}
			}
			var amods [][]account.Modifier
			for _, ms := range ams {
				l := []account.Modifier{}
				for _, m := range ms {
					l = append(l, d.realAMod(m))
				}
				amods = append(amods, l)
			}
			if f[0] == "crashstage" {
				// the process dies inside the transaction, after the
				// elements before `pos` were written: what is on disk at
				// that moment is copied aside (a crash executes no
				// rollback code), then the call is aborted by a panic
				pos := atoi(f[9])
				die := func() {
					crashDir = d.copyFile()
					panic("simulated crash inside StorePendingBatch")
				}
				switch {
				case pos < len(omods):
					omods[pos] = append(omods[pos], func(*order.Kit) { die() })
				case pos-len(omods) < len(amods):
					i := pos - len(omods)
					amods[i] = append(amods[i], func(*account.Account) { die() })
				}
			}
			err := d.db.StorePendingBatch(d.batch(id, tx, fee, mt), nonces, omods, accts, amods)
			res = c06ErrName(err)
			// expected staged version, from the English statement: the
			// modifiers of each listed order/account applied to the
			// currently VISIBLE record; nothing else.
			stageExp = &c06Snap{ID: id, Tx: tx, A: map[int]c06Acct{}, O: map[int]c06Ord{}, M: mt}
			for i, n := range os_ {
				if o, ok := prev.O[n]; ok && i < len(oms) {
					for _, m := range oms[i] {
						m.apply(&o)
					}
					o.Min = 0
					stageExp.O[n] = o
				}
			}
			for i, k := range as {
				if a, ok := prev.A[k]; ok && i < len(ams) {
					for _, m := range ams[i] {
						m.apply(&a)
					}
					stageExp.A[k] = a
				}
			}
		case "complete":
			res = c06ErrName(d.db.MarkBatchComplete())
		case "discard":
			res = c06ErrName(d.db.DeletePendingBatch())
		case "reopen":
			d.reopen()
			res = "ok"
		case "delorder":
			n := atoi(f[1])
			res = c06ErrName(d.db.DeleteOrder(d.w.nonce(n)))
			directDel = n
		case "updorder":
			n := atoi(f[1])
			ms, _ := parseOMods(f[2])
			var l []order.Modifier
			for _, m := range ms {
				l = append(l, realOMod(m))
			}
			res = c06ErrName(d.db.UpdateOrder(d.w.nonce(n), l...))
			if o, ok := prev.O[n]; ok {
				for _, m := range ms {
					m.apply(&o)
				}
				directO = map[int]c06Ord{n: o}
			}
		case "updorders":
			ns, _ := parseKeyList(f[1])
			mss, _ := parseOModLists(f[2])
			nonces := make([]order.Nonce, len(ns))
			for i, n := range ns {
				nonces[i] = d.w.nonce(n)
			}
			var omods [][]order.Modifier
			for _, ms := range mss {
				l := []order.Modifier{}
				for _, m := range ms {
					l = append(l, realOMod(m))
				}
				omods = append(omods, l)
			}
			res = c06ErrName(d.db.UpdateOrders(nonces, omods))
			directO = map[int]c06Ord{}
			for i, n := range ns {
				o, ok := directO[n]
				if !ok {
					o, ok = prev.O[n]
				}
				if ok && i < len(mss) {
					for _, m := range mss[i] {
						m.apply(&o)
					}
					directO[n] = o
				}
			}
		case "updacct":
			k := atoi(f[1])
			ms, _ := parseAMods(f[2])
			var l []account.Modifier
			for _, m := range ms {
				l = append(l, d.realAMod(m))
			}
			arg := c.held[k]
			if arg != nil {
				r.Count("updacct/with-held-struct")
				if _, a0 := d.fromAcct(arg); prev.A[k] != a0 {
					r.Count("updacct/with-STALE-struct")
				}
			} else if cur, found := prev.A[k]; found {
				arg = d.toAcct(k, cur)
			} else {
				arg = d.toAcct(k, c06Acct{Value: 1, State: 3, Tx: 1})
			}
			res = c06ErrName(d.db.UpdateAccount(arg, l...))
			if a, ok := prev.A[k]; ok {
				for _, m := range ms {
					m.apply(&a)
				}
				directA = map[int]c06Acct{k: a}
			}
		case "raceupd":
			// two callers update DIFFERENT fields of the same account at the
			// same time, n rounds: UpdateAccount is one read-modify-write
			// transaction, so no update may be lost
			k, v, h, n := atoi(f[1]), int64(atoi(f[2])), int64(atoi(f[3])), atoi(f[4])
			res = "ok"
			for i := 0; i < n && res == "ok"; i++ {
				var wg sync.WaitGroup
				var e1, e2 error
				start := make(chan struct{})
				wg.Add(2)
				a1 := d.toAcct(k, c06Acct{Value: 1, State: 3, Tx: 1})
				a2 := d.toAcct(k, c06Acct{Value: 1, State: 3, Tx: 1})
				go func() {
					defer wg.Done()
					<-start
					e1 = d.db.UpdateAccount(a1, account.ValueModifier(btcutil.Amount(v+int64(i))))
				}()
				go func() {
					defer wg.Done()
					<-start
					e2 = d.db.UpdateAccount(a2, account.HeightHintModifier(uint32(h+int64(i))))
				}()
				close(start)
				wg.Wait()
				if e1 != nil || e2 != nil {
					res = c06ErrName(e1)
					if e1 == nil {
						res = c06ErrName(e2)
					}
					break
				}
				got, err := d.db.Account(d.w.acctKey[k])
				if err == nil && (int64(got.Value) != v+int64(i) || int64(got.HeightHint) != h+int64(i)) {
					c.violate("two concurrent UpdateAccount calls (value %d, height hint %d): one update was lost, "+
						"stored value %d hint %d (round %d)", v+int64(i), h+int64(i), got.Value, got.HeightHint, i)
					break
				}
			}
			r.Count("raceupd/" + res)
			// net effect for the model: the last round's two updates
			op = fmt.Sprintf("updacct %d v%d.h%d", k, v+int64(n-1), h+int64(n-1))
			f = strings.Fields(op)
			if a, ok := prev.A[k]; ok {
				a.Value, a.Hint = v+int64(n-1), h+int64(n-1)
				directA = map[int]c06Acct{k: a}
			}
		case "racecomplete":
			// MarkBatchComplete races a burst of (idempotent) direct updates
			// of one account; the result must be one of the two serial orders
			k, h, n := atoi(f[1]), int64(atoi(f[2])), atoi(f[3])
			var wg sync.WaitGroup
			var ec, eu error
			start := make(chan struct{})
			wg.Add(2)
			go func() {
				defer wg.Done()
				<-start
				for i := 0; i < n; i++ {
					a := d.toAcct(k, c06Acct{Value: 1, State: 3, Tx: 1})
					if e := d.db.UpdateAccount(a, account.HeightHintModifier(uint32(h))); e != nil {
						eu = e
					}
					if i == n/2 {
						runtime.Gosched()
					}
				}
			}()
			go func() {
				defer wg.Done()
				<-start
				time.Sleep(time.Duration(20+len(c.hist)%7*10) * time.Microsecond)
				ec = d.db.MarkBatchComplete()
			}()
			close(start)
			wg.Wait()
			raceRes = [2]string{c06ErrName(ec), c06ErrName(eu)}
			res = "race"
		case "hold":
			// a caller reads the account and keeps the struct
			k := atoi(f[1])
			a, err := d.db.Account(d.w.acctKey[k])
			res = c06ErrName(err)
			if err == nil {
				if c.held == nil {
					c.held = map[int]*account.Account{}
				}
				c.held[k] = a
			}
		case "acctspend":
			// the REAL account manager on the daemon's accountStore wrapper
			k, kind, t, h := atoi(f[1]), f[2], atoi(f[3]), atoi(f[4])
			tx := d.w.txs[t].Copy()
			switch kind {
			case "multisig":
				if (k+t+h)%2 == 0 { // p2wsh shape
					tx.TxIn[0].Witness = wire.TxWitness{bytes.Repeat([]byte{0x30}, 71),
						bytes.Repeat([]byte{0x30}, 71), {0x52, 0x21}}
				} else { // taproot key spend
					tx.TxIn[0].Witness = wire.TxWitness{bytes.Repeat([]byte{0x01}, 64)}
				}
			case "expiry":
				if v := (k + t + h) % 5; v == 0 { // p2wsh expiry path
					tx.TxIn[0].Witness = wire.TxWitness{{}, bytes.Repeat([]byte{0x30}, 71), {0x52, 0x21}}
				} else {
					// taproot expiry script path; the expiry is pushed with
					// 0..3 data bytes, so the leaf script has 36..39 bytes
					script := append([]byte{0x20}, bytes.Repeat([]byte{0x02}, 32)...)
					script = append(script, 0xad)
					push := [][]byte{{0x60}, {0x01, 0x7f}, {0x02, 0x90, 0x01}, {0x03, 0x70, 0x11, 0x01}}[v-1]
					script = append(append(script, push...), 0xb1)
					ctrl := append([]byte{0xc0}, bytes.Repeat([]byte{0x03}, 32)...)
					tx.TxIn[0].Witness = wire.TxWitness{bytes.Repeat([]byte{0x01}, 64), script, ctrl}
					r.Count(fmt.Sprintf("acctspend/taproot-expiry-script-%d", len(script)))
				}
			default:
				tx.TxIn[0].Witness = wire.TxWitness{{0x01}, {0x02}}
			}
			ntf, auc := &c06Notifier{}, &c06AcctAuctioneer{}
			if kind == "recreate" {
				// resumeAccount only registers watchers in the states an
				// account has after a batch; elsewhere it needs the wallet
				rec, found := prev.A[k]
				if prev.P != nil {
					if st, in := prev.P.A[k]; in {
						rec, found = st, true
					}
				}
				if !found || (rec.State != 2 && rec.State != 4 && rec.State != 8 && rec.State != 9) {
					kind, f[2] = "multisig", "multisig"
					op = strings.Join(f, " ")
					c.hist[len(c.hist)-1] = op
					if (k+t+h)%2 == 0 {
						tx.TxIn[0].Witness = wire.TxWitness{bytes.Repeat([]byte{0x30}, 71),
							bytes.Repeat([]byte{0x30}, 71), {0x52, 0x21}}
					} else {
						tx.TxIn[0].Witness = wire.TxWitness{bytes.Repeat([]byte{0x01}, 64)}
					}
				}
			}
			if kind == "recreate" {
				// the spend of a confirmed batch: multi-sig witness and the
				// account output of the (staged, else current) account is
				// recreated by the spending transaction
				tx.TxIn[0].Witness = wire.TxWitness{bytes.Repeat([]byte{0x01}, 64)}
				rec, found := prev.A[k]
				if prev.P != nil {
					if st, in := prev.P.A[k]; in {
						rec, found = st, true
					}
				}
				if found {
					if out, err := d.toAcct(k, rec).Output(); err == nil {
						tx.AddTxOut(out)
					}
				}
			}
			mgr := account.NewManager(&account.ManagerConfig{
				Store: pool.VerifC06AccountStore(d.db), Auctioneer: auc, ChainNotifier: ntf,
			})
			defer func() {
				done := make(chan struct{})
				go func() { mgr.Stop(); close(done) }()
				select {
				case <-done:
				case <-time.After(2 * time.Second):
				}
				if kind == "recreate" {
					watchers = ntf.confs + ntf.spends
				}
			}()
			err := mgr.HandleAccountSpend(d.w.acctKey[k], &chainntnfs.SpendDetail{
				SpendingTx: tx, SpenderInputIndex: 0, SpendingHeight: int32(h),
			})
			res = c06ErrName(err)
		case "reconn":
			var asked [][]byte
			res, asked = d.reconnVia(f[1], f[2], f[3] == "1")
			for _, q := range asked {
				if prev.P != nil && !bytes.Equal(q, func() []byte { b := d.w.batchID(prev.P.ID); return b[:] }()) {
					c.violate("reconnect asked the auctioneer about batch %x, pending is %d", q, prev.P.ID)
				}
			}
		case "reconnect":
			var fk *c06Rpc
			res, fk = d.reconnect(f[1], f[2] == "1")
			if prev.P != nil && !bytes.Equal(fk.req, func() []byte { b := d.w.batchID(prev.P.ID); return b[:] }()) {
				c.violate("reconnect asked the auctioneer about batch %x, pending is %d", fk.req, prev.P.ID)
			}
		default:
			res = "bad-op"
		}
	}()
	if f[0] == "crashstage" && crashDir == "" {
		// the call ended (error / earlier panic) before the crash point
		// was reached: it was an ordinary staging call
		f = f[:9]
		f[0] = "stage"
		op = strings.Join(f, " ")
	}
	if f[0] == "crashstage" {
		// model: a crash inside a transaction leaves the pre-transaction
		// state (bbolt, trusted - and exercised here)
		res = "crash"
		r.Emit("C06 crash", res)
		{
			cd := &c06DB{w: d.w, dir: crashDir}
			cd.open()
			cob := cd.observe()
			cd.close()
			r.Emit("C06 obs", cob.str())
			r.Count("crash/at-element")
			if prev != nil && cob.str() != prev.str() {
				c.violate("database file as left by a crash inside StorePendingBatch differs from the "+
					"pre-call state:\n before %s\n crash  %s", prev.str(), cob.str())
			}
		}
	} else if f[0] != "racecomplete" {
		r.Emit("C06 "+op, res)
	}
	ob := d.observe()
	if f[0] == "racecomplete" {
		// which serial order explains the outcome? complete last leaves a
		// staged account exactly in its staged version; complete first lets
		// the update's height hint survive
		k := atoi(f[1])
		upd := fmt.Sprintf("updacct %d h%s", k, f[2])
		completeLast := false
		if got, found := ob.A[k]; found && raceRes[1] == "ok" && strconv.FormatInt(got.Hint, 10) != f[2] {
			// the updates succeeded but their height hint is gone: the
			// completion (with account k staged) came last
			completeLast = true
		}
		if completeLast {
			r.Emit("C06 "+upd, raceRes[1])
			r.Emit("C06 complete", raceRes[0])
		} else {
			r.Emit("C06 complete", raceRes[0])
			r.Emit("C06 "+upd, raceRes[1])
		}
		r.Count("racecomplete/" + raceRes[0])
	}
	r.Emit("C06 obs", ob.str())
	c.prev = ob
	if ob.bad != "" {
		c.violate("observer failed: %s", ob.bad)
	}
	if res == "panic" {
		r.Count("panic/" + f[0])
	}
	if prev == nil {
		return
	}
	// ---------------- oracle: the property's English text on real outputs ----------------
	ok := res == "ok"
	if f[0] == "reconnect" || f[0] == "reconn" || f[0] == "racecomplete" {
		ok = true
	}
	if !ok && ob.str() != prev.str() {
		c.violate("failed call (%s) changed observable state:\n before %s\n after  %s", res, prev.str(), ob.str())
	}
	for n := 1; n <= 7; n++ { // events are append-only
		if n == directDel || ob.Enorefs[n] || prev.Enorefs[n] {
			continue
		}
		if len(ob.E[n]) < len(prev.E[n]) || strings.Join(ob.E[n][:len(prev.E[n])], ";") != strings.Join(prev.E[n], ";") {
			c.violate("event log of order %d rewritten", n)
		}
	}
	acctEq := func(got, want c06Acct) bool {
		if want.State == 0 || want.State == 7 {
			want.Tx, got.Tx = 0, 0 // serializer keeps no LatestTx in these states
		}
		return got == want
	}
	if prev.Perr == "noOrder" || ob.Perr == "noOrder" {
		// the staged batch exists but cannot be read (one of its orders
		// was deleted): the per-op oracle below needs its content; these
		// steps are covered by the correspondence with the model only
		r.Count("oracle/pending-unreadable")
		return
	}
	switch f[0] {
	case "crashstage":
		r.Count("crashstage/" + res)
	case "stage":
		kind := "ok"
		if !ok {
			kind = "fail/" + res
			if res == "err" {
				// sub-class for the coverage histogram, from the call's inputs
				os_, _ := parseKeyList(f[4])
				oms, _ := parseOModLists(f[5])
				as, _ := parseKeyList(f[6])
				ams, _ := parseAModLists(f[7])
				switch {
				case len(os_) != len(oms):
					kind = "fail/lenOrder"
				case len(as) != len(ams):
					kind = "fail/lenAcct"
				case f[3] != "1":
					kind = "fail/feeSched"
				}
			}
		}
		r.Count("stage/" + kind)
		if ob.visible() != prev.visible() {
			c.violate("staging changed visible state:\n before %s\n after  %s", prev.visible(), ob.visible())
		}
		if ok {
			if prev.P != nil {
				c.sawRestage = true
				r.Count("stage/restage")
			}
			if ob.P == nil {
				c.violate("staged batch not readable")
				break
			}
			bad := ob.P.ID != stageExp.ID || ob.P.Tx != stageExp.Tx ||
				len(ob.P.A) != len(stageExp.A) || len(ob.P.O) != len(stageExp.O) ||
				fmt.Sprint(ob.P.M) != fmt.Sprint(stageExp.M)
			for k, a := range stageExp.A {
				if g, found := ob.P.A[k]; !found || !acctEq(g, a) {
					bad = true
				}
			}
			for n, o := range stageExp.O {
				if g, found := ob.P.O[n]; !found || g != o {
					bad = true
				}
			}
			if bad {
				c.violate("staged version differs from (visible + this call's modifiers): got %s want %s",
					ob.P.str(), stageExp.str())
			}
		}
	case "complete", "spend":
		hadPending := prev.P != nil
		if f[0] == "spend" && !hadPending {
			if !ok || ob.str() != prev.str() {
				c.violate("spend without pending batch changed state / failed")
			}
			break
		}
		if !hadPending {
			r.Count("complete/nopending")
			if res != "noPending" {
				c.violate("complete without a staged batch returned %s", res)
			}
			break
		}
		r.Count("complete/ok")
		c.sawCompleteOk = true
		if !ok {
			c.violate("complete of a staged batch failed: %s", res)
			break
		}
		p := prev.P
		if ob.P != nil {
			c.violate("staging area not empty after complete")
		}
		for k := range prev.A {
			want := prev.A[k]
			if s, in := p.A[k]; in {
				want = s
			}
			if got, found := ob.A[k]; !found || !acctEq(got, want) {
				c.violate("account %d after complete: got %v want %v", k, ob.A[k], want)
			}
		}
		for n := range prev.O {
			want := prev.O[n]
			if s, in := p.O[n]; in {
				want.State, want.Unfilled = s.State, s.Unfilled
			}
			if got, found := ob.O[n]; !found || got != want {
				c.violate("order %d after complete: got %v want %v", n, ob.O[n], want)
			}
		}
		wantOrders := len(prev.O)
		for n, so := range p.O {
			if _, had := prev.O[n]; had {
				continue
			}
			// a staged order that was deleted from the main bucket
			// after staging: completion applies the staged version
			wantOrders++
			r.Count("complete/resurrects-deleted-order")
			got, found := ob.O[n]
			if !found || got.State != so.State || got.Unfilled != so.Unfilled || got.Units != so.Units {
				c.violate("staged order %d (deleted meanwhile) after complete: got %v want staged %v", n, got, so)
			}
		}
		if len(ob.A) != len(prev.A) || len(ob.O) != wantOrders {
			c.violate("complete created or removed accounts/orders beyond the staged ones")
		}
		if ob.Serr != "" || prev.Serr != "" {
			r.Count("complete/snapshots-unreadable")
		} else if len(ob.S) != len(prev.S)+1 || !c06SnapEq(ob.S[len(ob.S)-1], p) {
			c.violate("snapshot history after complete is not old history + staged snapshot")
		} else {
			for i := range prev.S {
				if !c06SnapEq(prev.S[i], ob.S[i]) {
					c.violate("older snapshot %d changed by complete", i)
				}
			}
		}
		for i := 1; i <= 6; i++ {
			if i == p.ID {
				if !c06SnapEq(ob.G[i], p) {
					c.violate("snapshot not filed under its batch id %d", i)
				}
			} else if !c06SnapEq(ob.G[i], prev.G[i]) && !prev.Gerr[i] {
				c.violate("snapshot of batch %d changed by completing batch %d", i, p.ID)
			}
		}
	case "acctspend":
		k, kind, t, h := atoi(f[1]), f[2], int64(atoi(f[3])), int64(atoi(f[4]))
		_, known := prev.A[k]
		r.Count("acctspend/" + kind + "/" + res)
		if known && kind == "recreate" {
			// = exactly the pending-batch clause: the staged batch is
			// completed, nothing else is written, the account is watched
			if !ok {
				c.violate("spend of a confirmed batch failed: %s", res)
			}
			if watchers < 1 {
				c.violate("account %d not watched on-chain after its batch spend", k)
			}
			if prev.P == nil {
				if ob.str() != prev.str() {
					c.violate("batch spend without staged batch changed the database")
				}
				break
			}
			r.Count("acctspend/recreate-completes-pending")
			c.sawCompleteOk = true
			if ob.P != nil {
				c.violate("staged batch not completed by the spend of its transaction")
			}
			for kk, a := range prev.A {
				if st, in := prev.P.A[kk]; in {
					a = st
				}
				if got, found := ob.A[kk]; !found || !acctEq(got, a) {
					c.violate("account %d after batch spend: got %v want %v", kk, ob.A[kk], a)
				}
			}
			for n, o := range prev.O {
				if so, in := prev.P.O[n]; in {
					o.State, o.Unfilled = so.State, so.Unfilled
				}
				if got, found := ob.O[n]; !found || got != o {
					c.violate("order %d after batch spend: got %v want %v", n, ob.O[n], o)
				}
			}
			break
		}
		if !known || kind == "unknown" {
			if ok || ob.str() != prev.str() {
				c.violate("spend of unknown account / with unknown witness: result %s or state changed", res)
			}
			break
		}
		// expected: (multi-sig spend and a staged batch) the staged batch is
		// completed first; then the account is closed with the spend tx
		wantA, wantO := map[int]c06Acct{}, map[int]c06Ord{}
		for kk, a := range prev.A {
			wantA[kk] = a
		}
		for n, o := range prev.O {
			wantO[n] = o
		}
		wantP, wantS := prev.P, len(prev.S)
		if kind == "multisig" && prev.P != nil {
			r.Count("acctspend/completes-pending")
			c.sawCompleteOk = true
			for kk, a := range prev.P.A {
				wantA[kk] = a
			}
			for n, so := range prev.P.O {
				o, had := wantO[n]
				if !had {
					continue // deleted meanwhile: checked by the complete oracle
				}
				o.State, o.Unfilled = so.State, so.Unfilled
				wantO[n] = o
			}
			wantP, wantS = nil, wantS+1
			if ob.Serr == "" && prev.Serr == "" &&
				(len(ob.S) != wantS || !c06SnapEq(ob.S[len(ob.S)-1], prev.P) || !c06SnapEq(ob.G[prev.P.ID], prev.P)) {
				c.violate("spend with a staged batch did not file the staged snapshot")
			}
		} else if kind == "expiry" && prev.P != nil {
			r.Count("acctspend/expiry-keeps-pending")
		}
		a := wantA[k]
		a.State, a.Hint, a.Tx = 6, h, t
		wantA[k] = a
		if !ok {
			c.violate("account spend failed: %s", res)
		}
		if !c06SnapEq(ob.P, wantP) || (ob.Serr == "" && prev.Serr == "" && len(ob.S) != wantS) {
			c.violate("account spend: staged batch / snapshot history not as expected")
		}
		for kk, w := range wantA {
			if got, found := ob.A[kk]; !found || !acctEq(got, w) {
				c.violate("account %d after spend: got %v want %v", kk, ob.A[kk], w)
			}
		}
		for n, w := range wantO {
			if got, found := ob.O[n]; !found || got != w {
				c.violate("order %d after spend: got %v want %v", n, ob.O[n], w)
			}
		}
	case "discard":
		if prev.P != nil {
			c.sawDiscardPending = true
			r.Count("discard/pending")
		} else {
			r.Count("discard/nopending")
		}
		if !ok || ob.P != nil || ob.visible() != prev.visible() || fmt.Sprint(ob.E) != fmt.Sprint(prev.E) {
			c.violate("discard: result %s, pending=%v, or visible state/events changed", res, ob.P != nil)
		}
	case "reopen":
		if prev.P != nil {
			c.sawReopenPending = true
			r.Count("reopen/pending")
		} else {
			r.Count("reopen/nopending")
		}
		if ob.str() != prev.str() {
			c.violate("close and reopen changed observable state:\n before %s\n after  %s", prev.str(), ob.str())
		}
	case "reconn":
		// the reconnect clause on every path that (re-)creates the stream
		r.Count("reconn/" + f[1])
		if strings.HasPrefix(res, "hung:") || strings.HasPrefix(res, "setup:") || strings.HasPrefix(res, "panic:") {
			c.violate("reconnect via %s crashed / did not terminate: %s", f[1], res)
			break
		}
		if ob.visible() != prev.visible() {
			c.violate("reconnect changed visible accounts/orders/snapshots")
		}
		wantDiscard := false
		if prev.P != nil && strings.HasPrefix(f[2], "fin") {
			t := atoi(f[2][strings.Index(f[2], ":")+1:])
			wantDiscard = t != prev.P.Tx && f[3] == "1"
			if t != prev.P.Tx {
				r.Count("reconn/" + f[1] + "/other-tx")
			} else {
				r.Count("reconn/" + f[1] + "/same-tx")
			}
		} else if prev.P != nil {
			r.Count("reconn/" + f[1] + "/" + f[2])
		}
		if prev.P != nil && !strings.Contains(res, ";q=") {
			c.violate("reconnect via %s with a staged batch: %s", f[1], res)
		}
		if prev.P != nil && strings.HasSuffix(res, ";q=0") {
			c.violate("reconnect via %s never asked the auctioneer about the staged batch (%s)", f[1], res)
		}
		if wantDiscard && ob.P != nil {
			c.violate("reconnect via %s: the auctioneer finalised another transaction but the staged batch "+
				"was kept (%s) – it would be applied by the next account spend", f[1], res)
		}
		if !wantDiscard && !c06SnapEq(ob.P, prev.P) {
			c.violate("reconnect via %s: staged batch dropped although not finalised / same tx / cleanup "+
				"failed (%s)", f[1], res)
		}
	case "reconnect":
		// keep <=> no pending / not finalised / same txid (or an error
		// before the cleaner was asked to delete); never applied.
		if ob.visible() != prev.visible() {
			c.violate("reconnect changed visible accounts/orders/snapshots")
		}
		wantDiscard := false
		if prev.P != nil && strings.HasPrefix(f[1], "fin") {
			t := atoi(f[1][strings.Index(f[1], ":")+1:])
			wantDiscard = t != prev.P.Tx && f[2] == "1"
			if t == prev.P.Tx {
				r.Count("reconnect/same-tx")
			} else {
				r.Count("reconnect/other-tx")
			}
		} else if prev.P != nil {
			r.Count("reconnect/" + f[1])
		} else {
			r.Count("reconnect/nopending")
		}
		if wantDiscard && (ob.P != nil || !strings.HasSuffix(res, ";ok")) {
			c.violate("auctioneer finalised another transaction but the staged batch was kept (%s)", res)
		}
		if !wantDiscard && !c06SnapEq(ob.P, prev.P) {
			c.violate("staged batch dropped although not finalised / same tx / cleanup failed (%s)", res)
		}
	case "racecomplete":
		// linearizable: the database equals complete;update or update;complete
		k := atoi(f[1])
		hh := int64(atoi(f[2]))
		_, known := prev.A[k]
		for kk, a := range prev.A {
			var wants []c06Acct
			st, staged := c06Acct{}, false
			if prev.P != nil {
				st, staged = prev.P.A[kk]
			}
			base := a
			if staged {
				base = st
			}
			w1 := base // complete ; update
			if kk == k {
				w1.Hint = hh
			}
			wants = append(wants, w1)
			if kk == k && staged {
				wants = append(wants, st) // update ; complete
			}
			got, found := ob.A[kk]
			okAny := false
			for _, w := range wants {
				if found && acctEq(got, w) {
					okAny = true
				}
			}
			if !okAny {
				c.violate("MarkBatchComplete racing UpdateAccount(%d): account %d is %v, no serial order gives that "+
					"(candidates %v) – an update was applied to a stale read", k, kk, got, wants)
			}
		}
		_ = known
		if prev.P != nil && ob.P != nil {
			c.violate("completion in a race did not empty the staging area")
		}
		if prev.P != nil {
			c.sawCompleteOk = true
		}
	case "hold":
		if ob.str() != prev.str() {
			c.violate("reading an account changed the database")
		}
	default: // direct updates
		dres := res
		if f[0] == "updorders" && res == "err" {
			dres = "lenOrder"
		}
		r.Count("direct/" + f[0] + "/" + dres)
		if !ok {
			break
		}
		if !c06SnapEq(ob.P, prev.P) {
			c.violate("direct update changed the staged batch")
		}
		for k, a := range prev.A {
			if w, in := directA[k]; in {
				a = w
			}
			if got, found := ob.A[k]; !found || !acctEq(got, a) {
				c.violate("account %d after %s: got %v want %v", k, f[0], ob.A[k], a)
			}
		}
		for n, o := range prev.O {
			if n == directDel {
				if _, found := ob.O[n]; found {
					c.violate("order %d still visible after DeleteOrder", n)
				}
				continue
			}
			if w, in := directO[n]; in {
				o = w
			}
			if got, found := ob.O[n]; !found || got != o {
				c.violate("order %d after %s: got %v want %v", n, f[0], ob.O[n], o)
			}
		}
		if ob.Serr == "" && prev.Serr == "" && len(ob.S) != len(prev.S) {
			c.violate("direct update changed the snapshot history")
		}
	}
	// the two ways of reading an account/order agree
	for k := 1; k <= 5; k++ {
		a, in := ob.A[k]
		if in != (ob.a[k] != nil) || (in && a != *ob.a[k]) {
			c.violate("Account(%d) and Accounts() disagree", k)
		}
	}
	for n := 1; n <= 7; n++ {
		o, in := ob.O[n]
		if in != (ob.o[n] != nil) || (in && o != *ob.o[n]) {
			c.violate("GetOrder(%d) and GetOrders() disagree", n)
		}
	}
}

func (c *c06Case) finish(key string) {
	r := c.r
	r.Evaluations++
	if c.sawCompleteOk && (c.sawRestage || c.sawDiscardPending) {
		r.Distinct(strings.Join(c.hist, ";"))
	}
	if c.sawCompleteOk && c.sawRestage && len(r.Samples) < 5 {
		r.Sample(c.hist)
	}
	if c.bad != "" {
		r.Count("oracle/violation")
		r.Violate(c.bad, key, c.hist)
	}
	c.d.close()
}

func newC06Case(r *Run, w *c06World) *c06Case {
	c := &c06Case{r: r, d: openC06DB(w, "c06")}
	r.Emit("C06 reset", "ok")
	c.prev = c.d.observe()
	r.Emit("C06 obs", c.prev.str())
	return c
}

// ---------------------------------------------------------------- generator

type c06Gen struct {
	r      *Run
	nA, nO int
	lastTx int // batch transaction of the staging call generated last
}

func (g *c06Gen) amods(n int) string {
	rng := g.r.Rng
	var ms []string
	for i := 0; i < n; i++ {
		switch rng.Intn(9) {
		case 0:
			ms = append(ms, fmt.Sprintf("s%d", []int{0, 1, 2, 3, 5, 7, 8, 8, 9}[rng.Intn(9)]))
		case 1:
			ms = append(ms, fmt.Sprintf("v%d", rng.Intn(5000000)))
		case 2:
			ms = append(ms, fmt.Sprintf("e%d", 144+rng.Intn(5000)))
		case 3, 4:
			ms = append(ms, "b")
		case 5:
			ms = append(ms, fmt.Sprintf("o%d:%d", rng.Intn(8), rng.Intn(4)))
		case 6:
			ms = append(ms, fmt.Sprintf("h%d", rng.Intn(1000)))
		case 7:
			t := 1 + rng.Intn(7)
			if rng.Intn(10) == 0 {
				t = 0
			}
			ms = append(ms, fmt.Sprintf("t%d", t))
		case 8:
			ms = append(ms, fmt.Sprintf("r%d", rng.Intn(2)))
		}
	}
	return joinOr(ms, ".")
}

func (g *c06Gen) omods(n int) string {
	rng := g.r.Rng
	var ms []string
	for i := 0; i < n; i++ {
		if rng.Intn(2) == 0 {
			ms = append(ms, fmt.Sprintf("s%d", rng.Intn(7)))
		} else {
			ms = append(ms, fmt.Sprintf("u%d", rng.Intn(60)))
		}
	}
	return joinOr(ms, ".")
}

func (g *c06Gen) addacct(k int) string {
	rng := g.r.Rng
	st := []int{0, 1, 3, 3, 3, 7, 8}[rng.Intn(7)]
	tx := 1 + rng.Intn(7)
	if rng.Intn(25) == 0 || ((st == 0 || st == 7) && rng.Intn(2) == 0) {
		tx = 0 // nil LatestTx: fine in states 0/7, a serializer panic elsewhere
	}
	return fmt.Sprintf("addacct %d %d %d %d %d %d %d %d %d %d", k, 100000+rng.Intn(900000),
		144+rng.Intn(1000), st, rng.Intn(5), rng.Intn(8), rng.Intn(3),
		rng.Intn(500), tx, rng.Intn(2))
}

// terms draws `isBid tier extras`: 2/3 of the orders carry non-default
// optional terms (node tier, TLV extras incl. a sidecar ticket).
func (g *c06Gen) terms() string {
	rng := g.r.Rng
	bid, tier, extras := rng.Intn(2), 0, 0
	if bid == 1 {
		tier = rng.Intn(3)
	}
	if rng.Intn(3) > 0 {
		extras = 1 + rng.Intn(7)
	}
	return fmt.Sprintf("%d %d %d", bid, tier, extras)
}

func (g *c06Gen) submit(n int) string {
	rng := g.r.Rng
	units := 1 + rng.Intn(50)
	return fmt.Sprintf("submit %d %d %d %d %d %s", n, rng.Intn(3), rng.Intn(units+1), units, 1+rng.Intn(5),
		g.terms())
}

// stage builds a staging call; failAt >= 0 puts a failing element there.
func (g *c06Gen) stage(fail bool) string {
	rng := g.r.Rng
	var os_, oms, as, ams, mt []string
	no := rng.Intn(g.nO + 1)
	if rng.Intn(4) == 0 && no > 2 {
		no = rng.Intn(3)
	}
	perm := rng.Perm(g.nO)
	seenM := map[int]bool{}
	for i := 0; i < no; i++ {
		n := perm[i] + 1
		if rng.Intn(12) == 0 && i > 0 {
			n = perm[rng.Intn(i)] + 1 // duplicate nonce in one call
			g.r.Count("stage/dup-order")
		}
		os_ = append(os_, strconv.Itoa(n))
		oms = append(oms, g.omods(rng.Intn(3)))
		if !seenM[n] && rng.Intn(3) > 0 {
			seenM[n] = true
			us := []string{strconv.Itoa(1 + rng.Intn(9))}
			if rng.Intn(3) == 0 {
				us = append(us, strconv.Itoa(1+rng.Intn(9)))
			}
			mt = append(mt, fmt.Sprintf("%d:%s", n, strings.Join(us, "+")))
		}
	}
	na := rng.Intn(g.nA + 1)
	permA := rng.Perm(g.nA)
	for i := 0; i < na; i++ {
		k := permA[i] + 1
		if rng.Intn(12) == 0 && i > 0 {
			k = permA[rng.Intn(i)] + 1
			g.r.Count("stage/dup-acct")
		}
		as = append(as, strconv.Itoa(k))
		ams = append(ams, g.amods(rng.Intn(4)))
	}
	fee := 1
	if fail {
		total := len(os_) + len(as)
		switch x := rng.Intn(10); {
		case x < 6 && total > 0: // unknown element at a uniformly chosen position
			p := rng.Intn(total)
			g.r.Count(fmt.Sprintf("stage/failpos/%d-of-%d", p, total))
			if p < len(os_) {
				os_[p] = "7"
			} else {
				as[p-len(os_)] = "5"
			}
		case x < 7:
			if len(oms) > 0 && rng.Intn(2) == 0 {
				oms = oms[:len(oms)-1]
			} else {
				oms = append(oms, g.omods(1))
			}
		case x < 8:
			if len(ams) > 0 && rng.Intn(2) == 0 {
				ams = ams[:len(ams)-1]
			} else {
				ams = append(ams, g.amods(1))
			}
		default:
			fee = 0
		}
	}
	g.lastTx = 1 + rng.Intn(7)
	return fmt.Sprintf("stage %d %d %d %s %s %s %s %s", 1+rng.Intn(5), g.lastTx, fee,
		joinOr2(os_, ","), joinOr2(oms, "/"), joinOr2(as, ","), joinOr2(ams, "/"), joinOr2(mt, "/"))
}

func joinOr2(xs []string, sep string) string {
	if len(xs) == 0 {
		return "_"
	}
	return strings.Join(xs, sep)
}

func (g *c06Gen) history() []string {
	g.lastTx = 0
	rng := g.r.Rng
	g.nA, g.nO = 1+rng.Intn(4), 1+rng.Intn(6)
	var ops []string
	for k := 1; k <= g.nA; k++ {
		ops = append(ops, g.addacct(k))
	}
	for n := 1; n <= g.nO; n++ {
		ops = append(ops, g.submit(n))
	}
	for k := 1; k <= g.nA; k++ {
		if rng.Intn(2) == 0 {
			ops = append(ops, fmt.Sprintf("hold %d", k))
		}
	}
	length := 1 + rng.Intn(30)
	for i := 0; i < length; i++ {
		switch x := rng.Intn(100); {
		case x < 2:
			k := 1 + rng.Intn(g.nA)
			if rng.Intn(2) == 0 {
				ops = append(ops, fmt.Sprintf("raceupd %d %d %d %d", k, 1000+rng.Intn(900000), rng.Intn(900), 4+rng.Intn(12)))
			} else {
				ops = append(ops, fmt.Sprintf("racecomplete %d %d %d", k, 1000+rng.Intn(900), 10+rng.Intn(30)))
			}
		case x < 28:
			ops = append(ops, g.stage(false))
		case x < 38:
			ops = append(ops, g.stage(true))
		case x < 40:
			st := g.stage(false)
			ff := strings.Fields(st)
			no, na := 0, 0
			if ff[4] != "_" {
				no = len(strings.Split(ff[4], ","))
			}
			if ff[6] != "_" {
				na = len(strings.Split(ff[6], ","))
			}
			if no+na == 0 {
				ops = append(ops, st)
			} else {
				ops = append(ops, fmt.Sprintf("crash%s %d", st, rng.Intn(no+na)))
			}
		case x < 52:
			ops = append(ops, "complete")
		case x < 59:
			ops = append(ops, "discard")
		case x < 68:
			ops = append(ops, "reopen")
		case x < 75:
			n := 1 + rng.Intn(g.nO)
			if rng.Intn(8) == 0 {
				n = 7
			}
			ops = append(ops, fmt.Sprintf("updorder %d %s", n, g.omods(rng.Intn(3))))
		case x < 79:
			var ns, ms []string
			for j := rng.Intn(4); j > 0; j-- {
				n := 1 + rng.Intn(g.nO)
				if rng.Intn(10) == 0 {
					n = 7
				}
				ns = append(ns, strconv.Itoa(n))
				ms = append(ms, g.omods(rng.Intn(3)))
			}
			if rng.Intn(8) == 0 {
				ms = append(ms, g.omods(1))
			}
			ops = append(ops, fmt.Sprintf("updorders %s %s", joinOr2(ns, ","), joinOr2(ms, "/")))
		case x < 80:
			ops = append(ops, fmt.Sprintf("hold %d", 1+rng.Intn(g.nA+1)))
		case x < 83:
			k := 1 + rng.Intn(g.nA)
			if rng.Intn(10) == 0 {
				k = 5
			}
			kind := []string{"multisig", "multisig", "recreate", "recreate", "recreate", "expiry", "unknown"}[rng.Intn(7)]
			ops = append(ops, fmt.Sprintf("acctspend %d %s %d %d", k, kind, 1+rng.Intn(7), 100+rng.Intn(900)))
		case x < 87:
			k := 1 + rng.Intn(g.nA)
			if rng.Intn(8) == 0 {
				k = 5
			}
			ops = append(ops, fmt.Sprintf("updacct %d %s", k, g.amods(rng.Intn(4))))
		case x < 89:
			if g.nA < 4 && rng.Intn(2) == 0 {
				g.nA++
				ops = append(ops, g.addacct(g.nA))
			} else {
				ops = append(ops, g.addacct(1+rng.Intn(g.nA))) // overwrite
			}
		case x < 90:
			n := 1 + rng.Intn(g.nO)
			if rng.Intn(8) == 0 {
				n = 7
			}
			ops = append(ops, fmt.Sprintf("delorder %d", n))
		case x < 91:
			if g.nO < 6 && rng.Intn(2) == 0 {
				g.nO++
				ops = append(ops, g.submit(g.nO))
			} else {
				ops = append(ops, g.submit(1+rng.Intn(g.nO))) // ErrOrderExists
			}
		default:
			rpc := []string{"err0", "err1", "mal", "fin:", "fin:", "finw:", "finw:"}[rng.Intn(7)]
			if strings.HasSuffix(rpc, ":") {
				// half of the finalised transactions are the staged one
				// (normally signed: finw), the rest another one
				if g.lastTx > 0 && rng.Intn(2) == 0 {
					rpc += strconv.Itoa(g.lastTx)
				} else {
					rpc += strconv.Itoa(1 + rng.Intn(7))
				}
			}
			rm := 1
			if rng.Intn(5) == 0 {
				rm = 0
			}
			if rng.Intn(2) == 0 {
				ops = append(ops, fmt.Sprintf("reconn %s %s %d", []string{"first", "err", "shut"}[rng.Intn(3)], rpc, rm))
			} else {
				ops = append(ops, fmt.Sprintf("reconnect %s %d", rpc, rm))
			}
		}
	}
	return ops
}

func runC06(r *Run) {
	r.Rule = "random histories (setup of 1-4 accounts and 1-6 orders, then <=30 ops) of stage / re-stage " +
		"(other orders, accounts, matches, batch id, tx) / complete / discard / direct order+account " +
		"updates / close-and-reopen / reconnect check on a real bbolt file; 30% of staging calls carry a " +
		"failing element (unknown order or account at a uniformly drawn position, length mismatch, " +
		"unsupported fee schedule); all observers compared with the model after every op; non-trivial = " +
		"distinct history with a successful complete and a re-stage or discard of a staged batch"
	w := newC06World()
	runOne := func(ops []string, key string) {
		c := newC06Case(r, w)
		for _, op := range ops {
			op = strings.TrimPrefix(op, "C06 ")
			c.step(op)
		}
		c.finish(key)
	}
	for _, raw := range r.FixedCases() {
		var ops []string
		if json.Unmarshal(raw, &ops) != nil {
			continue
		}
		r.Count("case/fixed")
		runOne(ops, "C06/history")
	}
	if r.ReplayFile != "" {
		return
	}
	g := &c06Gen{r: r}
	for i := 0; i < r.N && len(r.Violations) < 20; i++ {
		runOne(g.history(), "C06/history")
	}
}
