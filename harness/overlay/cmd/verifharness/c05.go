//go:build verif

package main

// C05 - batch signatures: only for the verified batch, valid for it alone,
// after staging.
//
// Real code under test: order.manager (OrderMatchValidate / BatchSign /
// BatchFinalize with the real batchVerifier, batchSigner, batchStorer) on a
// real clientdb (bbolt file in a temp dir), with
//   - a real key-holding signer (btcec ECDSA for p2wsh accounts, lnd's
//     input.MusigSessionManager for taproot accounts) wrapped in a recording,
//     fault-injecting proxy, and
//   - a recording, fault-injecting proxy around the clientdb store.
//
// A history is a list of generator-level commands (see c05Case); executing it
// against the real code produces (a) the op lines for the Lean model together
// with the canonical outputs observed, and (b) the evaluation of the property's
// English statement on the real trace (c05Oracle*), independent of the model.

import (
	"bytes"
	"context"
	"encoding/hex"
	"encoding/json"
	"errors"
	"fmt"
	"io"
	"os"
	"sort"
	"strconv"
	"strings"
	"time"

	"github.com/btcsuite/btcd/btcec/v2"
	"github.com/btcsuite/btcd/btcec/v2/schnorr/musig2"
	"github.com/btcsuite/btcd/btcutil"
	"github.com/btcsuite/btcd/chaincfg/chainhash"
	"github.com/btcsuite/btcd/txscript"
	"github.com/btcsuite/btcd/wire"
	"github.com/lightninglabs/lndclient"
	pool "github.com/lightninglabs/pool"
	"github.com/lightninglabs/pool/account"
	"github.com/lightninglabs/pool/auctioneer"
	"github.com/lightninglabs/pool/auctioneerrpc"
	"github.com/lightninglabs/pool/clientdb"
	"github.com/lightninglabs/pool/funding"
	"github.com/lightninglabs/pool/internal/test"
	"github.com/lightninglabs/pool/order"
	"github.com/lightninglabs/pool/poolscript"
	"github.com/lightninglabs/pool/terms"
	"github.com/lightningnetwork/lnd/input"
	"github.com/lightningnetwork/lnd/keychain"
	"github.com/lightningnetwork/lnd/lnrpc"
	"github.com/lightningnetwork/lnd/lnrpc/signrpc"
	"github.com/lightningnetwork/lnd/lnwallet/chainfee"
	"google.golang.org/grpc"
)

func init() { props["C05"] = runC05 }

const (
	c05BestHeight    = 1337
	c05LeaseDuration = 2016
	c05ClearingPrice = order.FixedRatePremium(5000)
	c05ChanUnits     = 1
)

// ---------------------------------------------------------------------------
// case format (corpus / replay)

// c05Case is one history: the world (account versions / sizes) and a list of
// generator-level commands.
type c05Case struct {
	Versions []int    `json:"versions"` // account version per account (0,1,2)
	Small    int      `json:"small"`    // 1-based account whose value is barely one channel (closes in its first batch); 0 = none
	Cmds     []string `json:"cmds"`
}

// ---------------------------------------------------------------------------
// keys

func c05Priv(tag byte, i int) *btcec.PrivateKey {
	var b [32]byte
	b[0] = 0x5c
	b[1] = tag
	b[31] = byte(i + 1)
	p, _ := btcec.PrivKeyFromBytes(b[:])
	return p
}

func c05Raw(p *btcec.PublicKey) [33]byte {
	var r [33]byte
	copy(r[:], p.SerializeCompressed())
	return r
}

// ---------------------------------------------------------------------------
// recording, fault-injecting signer over real keys

type c05SignReq struct {
	kind     string // "raw" | "musig"
	tx       []byte // serialised tx handed to SignOutputRaw
	idx      int
	hashType txscript.SigHashType
	out      *wire.TxOut
	wscript  []byte
	key      [33]byte // untweaked key the signature is requested for
	digest   [32]byte // musig: message signed
	combined *btcec.PublicKey // musig: the session's (tweaked) aggregate key = taproot output key signed for
	musigVer input.MuSig2Version // musig: protocol version of the session
}

type c05Signer struct {
	lndclient.SignerClient

	byPub map[[33]byte]*btcec.PrivateKey
	byIdx map[uint32]*btcec.PrivateKey
	musig *input.MusigSessionManager
	// session -> local key / aggregate key
	sessKey  map[[32]byte][33]byte
	sessComb map[[32]byte]*btcec.PublicKey
	sessVer  map[[32]byte]input.MuSig2Version

	calls  int
	failAt int
	log    []c05SignReq
	trace  *[]string
}

var errC05Injected = errors.New("c05 injected fault")

func newC05Signer(trace *[]string) *c05Signer {
	s := &c05Signer{
		byPub:   map[[33]byte]*btcec.PrivateKey{},
		byIdx:   map[uint32]*btcec.PrivateKey{},
		sessKey:  map[[32]byte][33]byte{},
		sessComb: map[[32]byte]*btcec.PublicKey{},
		sessVer:  map[[32]byte]input.MuSig2Version{},
		failAt:  -1,
		trace:   trace,
	}
	s.musig = input.NewMusigSessionManager(
		func(d *keychain.KeyDescriptor) (*btcec.PrivateKey, error) {
			p, ok := s.byIdx[d.Index]
			if !ok {
				return nil, fmt.Errorf("no key for index %d", d.Index)
			}
			return p, nil
		},
	)
	return s
}

func (s *c05Signer) add(idx uint32, p *btcec.PrivateKey) {
	s.byIdx[idx] = p
	s.byPub[c05Raw(p.PubKey())] = p
}

func (s *c05Signer) reset() {
	s.calls = 0
	s.failAt = -1
	s.log = nil
}

func (s *c05Signer) tick(what string) error {
	k := s.calls
	s.calls++
	if s.trace != nil {
		*s.trace = append(*s.trace, "signer:"+what)
	}
	if k == s.failAt {
		if s.trace != nil {
			*s.trace = append(*s.trace, "signer:"+what+":fail")
		}
		return errC05Injected
	}
	return nil
}

func (s *c05Signer) SignOutputRaw(_ context.Context, tx *wire.MsgTx,
	descs []*lndclient.SignDescriptor, _ []*wire.TxOut) ([][]byte, error) {

	if err := s.tick("SignOutputRaw"); err != nil {
		return nil, err
	}
	var res [][]byte
	for _, d := range descs {
		raw := c05Raw(d.KeyDesc.PubKey)
		priv, ok := s.byPub[raw]
		if !ok {
			return nil, fmt.Errorf("signer does not have key")
		}
		if d.SingleTweak != nil {
			priv = input.TweakPrivKey(priv, d.SingleTweak)
		}
		fetcher := txscript.NewCannedPrevOutputFetcher(
			d.Output.PkScript, d.Output.Value,
		)
		sh := txscript.NewTxSigHashes(tx, fetcher)
		sig, err := txscript.RawTxInWitnessSignature(
			tx, sh, d.InputIndex, d.Output.Value, d.WitnessScript,
			d.HashType, priv,
		)
		if err != nil {
			return nil, err
		}
		var buf bytes.Buffer
		_ = tx.SerializeNoWitness(&buf)
		s.log = append(s.log, c05SignReq{
			kind: "raw", tx: buf.Bytes(), idx: d.InputIndex,
			hashType: d.HashType, out: d.Output,
			wscript: d.WitnessScript, key: raw,
		})
		// lnd returns the DER signature without the sighash flag.
		res = append(res, sig[:len(sig)-1])
	}
	return res, nil
}

func (s *c05Signer) MuSig2CreateSession(_ context.Context,
	version input.MuSig2Version, loc *keychain.KeyLocator, signers [][]byte,
	opts ...lndclient.MuSig2SessionOpts) (*input.MuSig2SessionInfo, error) {

	if err := s.tick("MuSig2CreateSession"); err != nil {
		return nil, err
	}
	req := &signrpc.MuSig2SessionRequest{}
	for _, o := range opts {
		o(req)
	}
	pubs, err := input.MuSig2ParsePubKeys(version, signers)
	if err != nil {
		return nil, err
	}
	tweaks := &input.MuSig2Tweaks{}
	if req.TaprootTweak != nil {
		tweaks.TaprootTweak = req.TaprootTweak.ScriptRoot
		tweaks.TaprootBIP0086Tweak = req.TaprootTweak.KeySpendOnly
	}
	var other [][musig2.PubNonceSize]byte
	for _, n := range req.OtherSignerPublicNonces {
		var x [musig2.PubNonceSize]byte
		copy(x[:], n)
		other = append(other, x)
	}
	info, err := s.musig.MuSig2CreateSession(
		version, *loc, pubs, tweaks, other, nil,
	)
	if err != nil {
		return nil, err
	}
	if p, ok := s.byIdx[loc.Index]; ok {
		s.sessKey[info.SessionID] = c05Raw(p.PubKey())
	}
	s.sessComb[info.SessionID] = info.CombinedKey
	s.sessVer[info.SessionID] = version
	return info, nil
}

func (s *c05Signer) MuSig2RegisterNonces(_ context.Context, id [32]byte,
	nonces [][66]byte) (bool, error) {

	return s.musig.MuSig2RegisterNonces(id, nonces)
}

func (s *c05Signer) MuSig2Sign(_ context.Context, id [32]byte, msg [32]byte,
	cleanup bool) ([]byte, error) {

	if err := s.tick("MuSig2Sign"); err != nil {
		return nil, err
	}
	ps, err := s.musig.MuSig2Sign(id, msg, cleanup)
	if err != nil {
		return nil, err
	}
	s.log = append(s.log, c05SignReq{
		kind: "musig", digest: msg, key: s.sessKey[id], combined: s.sessComb[id],
		musigVer: s.sessVer[id],
	})
	b, err := input.SerializePartialSignature(ps)
	if err != nil {
		return nil, err
	}
	return b[:], nil
}

func (s *c05Signer) MuSig2CombineSig(_ context.Context, id [32]byte,
	sigs [][]byte) (bool, []byte, error) {

	var ps []*musig2.PartialSignature
	for _, b := range sigs {
		p, err := input.DeserializePartialSignature(b)
		if err != nil {
			return false, nil, err
		}
		ps = append(ps, p)
	}
	fin, have, err := s.musig.MuSig2CombineSig(id, ps)
	if err != nil {
		return false, nil, err
	}
	if !have {
		return false, nil, nil
	}
	return true, fin.Serialize(), nil
}

func (s *c05Signer) MuSig2Cleanup(_ context.Context, id [32]byte) error {
	_ = s.musig.MuSig2Cleanup(id)
	return nil
}

// ---------------------------------------------------------------------------
// recording, fault-injecting store proxies around the real clientdb

type c05Store struct {
	db    *clientdb.DB
	trace *[]string

	storeFault string // "none" | "pre" | "inside"
	markFault  bool

	acctCalls  int
	acctFailAt int
}

func (s *c05Store) ev(e string) { *s.trace = append(*s.trace, e) }

func (s *c05Store) SubmitOrder(o order.Order) error { return s.db.SubmitOrder(o) }
func (s *c05Store) UpdateOrder(n order.Nonce, m ...order.Modifier) error {
	return s.db.UpdateOrder(n, m...)
}
func (s *c05Store) UpdateOrders(n []order.Nonce, m [][]order.Modifier) error {
	return s.db.UpdateOrders(n, m)
}
func (s *c05Store) GetOrder(n order.Nonce) (order.Order, error) {
	s.ev("store:GetOrder")
	return s.db.GetOrder(n)
}
func (s *c05Store) GetOrders() ([]order.Order, error)          { return s.db.GetOrders() }
func (s *c05Store) DeleteOrder(n order.Nonce) error             { return s.db.DeleteOrder(n) }

func (s *c05Store) StorePendingBatch(b *order.Batch, orders []order.Nonce,
	om [][]order.Modifier, accts []*account.Account,
	am [][]account.Modifier) error {

	switch s.storeFault {
	case "pre":
		s.ev("store:StorePendingBatch:fail-pre")
		return errC05Injected
	case "inside":
		// A failure inside the bbolt transaction, after the previous
		// staging area was cleared and part of the new one written:
		// an order the database does not know.
		orders = append(append([]order.Nonce{}, orders...), order.Nonce{0xee, 0xee})
		om = append(append([][]order.Modifier{}, om...), []order.Modifier{
			order.StateModifier(order.StateExecuted),
		})
	}
	err := s.db.StorePendingBatch(b, orders, om, accts, am)
	if err != nil {
		s.ev("store:StorePendingBatch:fail")
	} else {
		s.ev("store:StorePendingBatch:ok")
	}
	return err
}

func (s *c05Store) MarkBatchComplete() error {
	if s.markFault {
		s.ev("store:MarkBatchComplete:fail-pre")
		return errC05Injected
	}
	err := s.db.MarkBatchComplete()
	if err != nil {
		s.ev("store:MarkBatchComplete:fail")
	} else {
		s.ev("store:MarkBatchComplete:ok")
	}
	return err
}

// c05AcctStore implements account.Store on the same database.
type c05AcctStore struct {
	*clientdb.DB
	p *c05Store
}

func (a *c05AcctStore) PendingBatch() error {
	_, err := a.p.db.PendingBatchSnapshot()
	return err
}

func (a *c05AcctStore) Account(k *btcec.PublicKey) (*account.Account, error) {
	n := a.p.acctCalls
	a.p.acctCalls++
	if n == a.p.acctFailAt {
		a.p.ev("acct:fail")
		return nil, errC05Injected
	}
	acct, err := a.p.db.Account(k)
	if err != nil {
		a.p.ev("acct:fail")
	} else {
		a.p.ev("acct:ok")
	}
	return acct, err
}

// c05NonLinearFee is a fee schedule the verifier accepts (interface) but the
// snapshot serialisation inside clientdb.StorePendingBatch refuses - a staging
// failure at the very end of the bbolt transaction.
type c05NonLinearFee struct{ *terms.LinearFeeSchedule }

// ---------------------------------------------------------------------------
// collaborators of rpcServer.handleServerMessage

// c05Wallet is the mock wallet with a switchable DeriveKey failure (makes
// fundingManager.BatchChannelSetup fail).
type c05Wallet struct {
	*test.MockWalletKit
	fail bool
}

func (w *c05Wallet) DeriveKey(ctx context.Context, l *keychain.KeyLocator) (*keychain.KeyDescriptor, error) {
	if w.fail {
		return nil, errC05Injected
	}
	return w.MockWalletKit.DeriveKey(ctx, l)
}

// c05Base is the raw lnd client of the funding manager: every channel open
// fails at once (the order pair is then partially rejected and the batch goes
// on), nothing else is used on the Sign path.
type c05Base struct{ funding.BaseClient }

func (c05Base) OpenChannel(context.Context, *lnrpc.OpenChannelRequest,
	...grpc.CallOption) (lnrpc.Lightning_OpenChannelClient, error) {

	return nil, errors.New("peer offline")
}

// c05Stream records every message handed to the auctioneer.
type c05Stream struct {
	grpc.ClientStream
	w        *c05World
	failSign bool
	signs    []*auctioneerrpc.OrderMatchSign
	dbAtSend []string
}

func (s *c05Stream) Send(m *auctioneerrpc.ClientAuctionMessage) error {
	switch x := m.Msg.(type) {
	case *auctioneerrpc.ClientAuctionMessage_Sign:
		d, _ := s.w.dbTok()
		s.w.trace = append(s.w.trace, fmt.Sprintf("send:%d@%s", len(x.Sign.AccountSigs), d))
		s.signs = append(s.signs, x.Sign)
		s.dbAtSend = append(s.dbAtSend, d)
		if s.failSign {
			return errC05Injected
		}
	case *auctioneerrpc.ClientAuctionMessage_Reject:
		s.w.trace = append(s.w.trace, "reject")
	default:
		s.w.trace = append(s.w.trace, "send:other")
	}
	return nil
}

func (s *c05Stream) Recv() (*auctioneerrpc.ServerAuctionMessage, error) { return nil, io.EOF }

// c05RecMgr records the BatchSign calls of the handler.
type c05RecMgr struct {
	order.Manager
	w      *c05World
	sigs   order.BatchSignature
	nonces order.AccountNonces
	calls  int
	okAt   int
}

func (m *c05RecMgr) BatchSign() (order.BatchSignature, order.AccountNonces, error) {
	s, n, err := m.Manager.BatchSign()
	m.calls++
	if err != nil {
		m.w.trace = append(m.w.trace, "sign:fail")
	} else {
		m.w.trace = append(m.w.trace, "sign:ok")
		m.sigs, m.nonces = s, n
	}
	return s, n, err
}

// ---------------------------------------------------------------------------
// interning of opaque values into small model tokens

type c05Intern struct {
	m map[string]int
}

func (t *c05Intern) id(k string) int {
	if t.m == nil {
		t.m = map[string]int{}
	}
	if v, ok := t.m[k]; ok {
		return v
	}
	v := len(t.m) + 1
	t.m[k] = v
	return v
}

// ---------------------------------------------------------------------------
// the world

type c05Mgr interface {
	Start() error
	OrderMatchValidate(*order.Batch, uint32) error
	PendingBatch() *order.Batch
	HasPendingBatch() bool
	BatchSign() (order.BatchSignature, order.AccountNonces, error)
	BatchFinalize(order.BatchID) error
}

type c05Acct struct {
	id    int
	priv  *btcec.PrivateKey
	pub   *btcec.PublicKey
	raw   [33]byte
	loc   keychain.KeyLocator
	nonce order.Nonce
	msLoc keychain.KeyLocator
}

type c05World struct {
	r       *Run
	dir     string
	db      *clientdb.DB
	store   *c05Store
	astore  *c05AcctStore
	signer  *c05Signer
	auct    *c05Signer
	auctKey *btcec.PrivateKey
	mgr     c05Mgr
	wallet  *c05Wallet
	fm      *funding.Manager
	stream  *c05Stream
	rec     *c05RecMgr
	handler *pool.VerifC05Handler
	accts   []*c05Acct
	nodes   [][33]byte
	trace   []string

	ops, outs, txs c05Intern

	modSeq int

	// what the accounts of the batch staged last must look like once that
	// staging is applied (nil = nothing staged by a successful sign)
	stagedExpect map[[33]byte]*account.Account

	// oracle ghost: the batch of the most recent successful
	// OrderMatchValidate (nil after a successful finalize)
	lastOK *order.Batch

	hist []string
}

func c05Outpoint(w *c05World, op wire.OutPoint) int { return w.ops.id(op.String()) }
func c05Out(w *c05World, o *wire.TxOut) int {
	return w.outs.id(fmt.Sprintf("%d:%x", o.Value, o.PkScript))
}

func c05TxToken(w *c05World, tx *wire.MsgTx) (ins, outs string, lock uint32) {
	var a, b []string
	for _, in := range tx.TxIn {
		a = append(a, strconv.Itoa(c05Outpoint(w, in.PreviousOutPoint)))
	}
	for _, o := range tx.TxOut {
		b = append(b, strconv.Itoa(c05Out(w, o)))
	}
	return c05Csv(a), c05Csv(b), tx.LockTime
}

func c05Csv(a []string) string {
	if len(a) == 0 {
		return "-"
	}
	return strings.Join(a, ",")
}

func c05Tid(w *c05World, tx *wire.MsgTx) int {
	i, o, l := c05TxToken(w, tx)
	return w.txs.id(fmt.Sprintf("%d|%s|%s|%d", tx.Version, i, o, l))
}

func c05DummyTx() *wire.MsgTx {
	tx := wire.NewMsgTx(2)
	tx.AddTxIn(&wire.TxIn{PreviousOutPoint: wire.OutPoint{Index: 1}})
	tx.AddTxOut(&wire.TxOut{Value: 1, PkScript: []byte{0x51}})
	return tx
}

func newC05World(r *Run, c *c05Case) (*c05World, error) {
	dir, err := os.MkdirTemp("", "sign-c05-")
	if err != nil {
		return nil, err
	}
	w := &c05World{r: r, dir: dir}
	w.db, err = clientdb.New(dir, clientdb.DBFilename)
	if err != nil {
		return nil, err
	}
	w.store = &c05Store{db: w.db, trace: &w.trace, storeFault: "none", acctFailAt: -1}
	w.astore = &c05AcctStore{DB: w.db, p: w.store}
	w.signer = newC05Signer(&w.trace)
	w.auct = newC05Signer(nil)
	w.auctKey = c05Priv(0xa0, 0)
	w.auct.add(0, w.auctKey)
	w.wallet = &c05Wallet{MockWalletKit: test.NewMockWalletKit()}
	for i := 1; i <= 3; i++ {
		w.nodes = append(w.nodes, c05Raw(c05Priv(0xd0, i).PubKey()))
	}
	batchKey := c05Priv(0xb0, 0).PubKey()

	var acctToks, ordToks []string
	for i, v := range c.Versions {
		a := &c05Acct{id: i + 1, priv: c05Priv(0x01, i)}
		a.pub = a.priv.PubKey()
		a.raw = c05Raw(a.pub)
		a.loc = keychain.KeyLocator{Family: poolscript.AccountKeyFamily, Index: uint32(100 + i)}
		a.msLoc = keychain.KeyLocator{Index: uint32(10 + i)}
		a.nonce = order.Nonce{0x05, byte(i + 1)}
		w.signer.add(a.loc.Index, a.priv)
		w.accts = append(w.accts, a)

		value := btcutil.Amount(2_000_000 + 10_000*i)
		if c.Small == i+1 {
			value = btcutil.Amount(order.SupplyUnit(c05ChanUnits).ToSatoshis()) - 600
		}
		acct := &account.Account{
			Value:  value,
			Expiry: 5000,
			TraderKey: &keychain.KeyDescriptor{
				KeyLocator: a.loc, PubKey: a.pub,
			},
			AuctioneerKey: w.auctKey.PubKey(),
			BatchKey:      batchKey,
			Secret:        [32]byte{0x73, byte(i)},
			State:         account.StateOpen,
			HeightHint:    100,
			OutPoint: wire.OutPoint{
				Hash: chainhash.Hash{0xac, byte(i + 1)}, Index: uint32(i),
			},
			LatestTx: c05DummyTx(),
			Version:  account.Version(v),
		}
		if err := w.db.AddAccount(acct); err != nil {
			return nil, err
		}
		out, err := acct.Output()
		if err != nil {
			return nil, err
		}
		acctToks = append(acctToks, fmt.Sprintf("%d:%d:%d:%d:%d", a.id,
			c05Outpoint(w, acct.OutPoint), v, c05Out(w, out), acct.Expiry))

		// our order: an ask of 1000 units spending from the account
		kit := order.NewKit(a.nonce)
		kit.State = order.StateSubmitted
		kit.Units = 1000
		kit.UnitsUnfulfilled = 1000
		kit.MinUnitsMatch = 1
		kit.Amt = order.SupplyUnit(1000).ToSatoshis()
		kit.FixedRate = uint32(c05ClearingPrice) / 2
		kit.LeaseDuration = c05LeaseDuration
		kit.MaxBatchFeeRate = chainfee.FeePerKwFloor * 10
		kit.MultiSigKeyLocator = a.msLoc
		kit.AcctKey = a.raw
		allowed, notAllowed := "-", "-"
		switch i {
		case 1:
			kit.NotAllowedNodeIDs = [][33]byte{w.nodes[2]}
			notAllowed = "3"
		case 2:
			kit.AllowedNodeIDs = [][33]byte{w.nodes[0], w.nodes[1]}
			allowed = "1+2"
		}
		if err := w.db.SubmitOrder(&order.Ask{Kit: *kit}); err != nil {
			return nil, err
		}
		ordToks = append(ordToks, fmt.Sprintf("%d:%d:%s:%s", a.id, a.id, allowed, notAllowed))
	}

	realMgr := order.NewManager(&order.ManagerConfig{
		Store:        w.store,
		AcctStore:    w.astore,
		Lightning:    test.NewMockLightning(),
		Wallet:       w.wallet,
		Signer:       w.signer,
		BatchVersion: order.LatestBatchVersion,
	})
	w.mgr = realMgr
	if err := w.mgr.Start(); err != nil {
		return nil, err
	}
	w.rec = &c05RecMgr{Manager: realMgr, w: w}
	w.stream = &c05Stream{w: w}
	w.wireHandler()
	w.emit("C05 init accts="+strings.Join(acctToks, ",")+" orders="+strings.Join(ordToks, ","), "ok")
	return w, nil
}

// wireHandler builds the real funding manager and an rpcServer around the
// current database handle.
func (w *c05World) wireHandler() {
	w.fm = funding.NewManager(&funding.ManagerConfig{
		DB:               w.db,
		WalletKit:        w.wallet,
		BaseClient:       c05Base{},
		BatchStepTimeout: 2 * time.Second,
	})
	w.handler = pool.VerifC05NewHandler(
		w.db, w.fm, w.rec, auctioneer.VerifC05NewClient(w.stream),
	)
}

func (w *c05World) close() {
	if w.db != nil {
		_ = w.db.Close()
	}
	_ = os.RemoveAll(w.dir)
}

func (w *c05World) reopen() error {
	if err := w.db.Close(); err != nil {
		return err
	}
	db, err := clientdb.New(w.dir, clientdb.DBFilename)
	if err != nil {
		return err
	}
	w.db = db
	w.store.db = db
	w.astore.DB = db
	w.wireHandler()
	return nil
}

func (w *c05World) emit(op, out string) {
	w.hist = append(w.hist, op+" => "+out)
	w.r.Emit(op, out)
}

// dbTok is the staged batch as seen in the database right now.
func (w *c05World) dbTok() (string, *clientdb.LocalBatchSnapshot) {
	snap, err := w.db.PendingBatchSnapshot()
	if err != nil {
		if errors.Is(err, account.ErrNoPendingBatch) {
			return "-", nil
		}
		return "?" + err.Error(), nil
	}
	return fmt.Sprintf("%d.%d", snap.BatchID[0], c05Tid(w, snap.BatchTX)), snap
}

func (w *c05World) pendTok() string {
	b := w.mgr.PendingBatch()
	if b == nil {
		if w.mgr.HasPendingBatch() {
			return "?flag-without-batch"
		}
		return "-"
	}
	if !w.mgr.HasPendingBatch() {
		return "?batch-without-flag"
	}
	return fmt.Sprintf("%d.%d", b.ID[0], c05Tid(w, b.BatchTX))
}

func (w *c05World) tail() string {
	d, _ := w.dbTok()
	return " pend=" + w.pendTok() + " db=" + d
}

// ---------------------------------------------------------------------------
// building proposals

type c05Prop struct {
	id     int
	accts  []int
	node   int
	variant string // honest | noinput:<k> | badver | badheight | badbal | nochan | nosnap
	up     int    // account upgraded to taproot in this batch (0 = none)
	ext    int    // account whose expiry the auctioneer changes in this batch (0 = none)
	extd   int    // by how much (may be negative: the verifier only bounds NewExpiry from above)
	extra  int    // value of an extra (auctioneer) output: varies the tx between re-proposals
}

func c05ParseKV(tokens []string) map[string]string {
	m := map[string]string{}
	for _, t := range tokens {
		if i := strings.Index(t, "="); i > 0 {
			m[t[:i]] = t[i+1:]
		}
	}
	return m
}

func c05Ints(s string) []int {
	var r []int
	if s == "" || s == "-" {
		return r
	}
	for _, p := range strings.Split(s, ",") {
		n, _ := strconv.Atoi(p)
		r = append(r, n)
	}
	return r
}

// buildBatch constructs a proposal against the *current* database state.  An
// honest one really passes the real verifier: the expected ending balances are
// computed with order.AccountTally the same way the auctioneer would.
func (w *c05World) buildBatch(p *c05Prop) (*order.Batch, string, bool, error) {
	feeSched := terms.NewLinearFeeSchedule(1, 100)
	feeRate := chainfee.FeePerKwFloor
	tx := wire.NewMsgTx(2)
	batch := &order.Batch{
		Version:        order.LatestBatchVersion,
		MatchedOrders:  map[order.Nonce][]*order.MatchedOrder{},
		ExecutionFee:   feeSched,
		ClearingPrices: map[uint32]order.FixedRatePremium{c05LeaseDuration: c05ClearingPrice},
		BatchTX:        tx,
		BatchTxFeeRate: feeRate,
		HeightHint:     c05BestHeight,
	}
	batch.ID[0] = byte(p.id)
	batch.ID[1] = 0x02

	noInput := 0
	if strings.HasPrefix(p.variant, "noinput:") {
		noInput, _ = strconv.Atoi(p.variant[len("noinput:"):])
	}

	// an auctioneer input first or last, depending on the id parity, so
	// that account input indices vary
	auctIn := &wire.TxIn{PreviousOutPoint: wire.OutPoint{
		Hash: chainhash.Hash{0xaa, byte(p.id)}, Index: 7,
	}}
	if p.id%2 == 1 {
		tx.AddTxIn(auctIn)
	}

	type dtok struct{ s string }
	var diffToks, mToks []string
	valid := true
	chanSize := order.SupplyUnit(c05ChanUnits).ToSatoshis()
	for _, k := range p.accts {
		if k < 1 || k > len(w.accts) {
			return nil, "", false, fmt.Errorf("bad account %d", k)
		}
		a := w.accts[k-1]
		acct, err := w.db.Account(a.pub)
		if err != nil {
			return nil, "", false, err
		}
		if k != noInput {
			tx.AddTxIn(&wire.TxIn{PreviousOutPoint: acct.OutPoint})
		}

		// the counterparty: a bid of some other node
		theirKit := order.NewKit(order.Nonce{0x7e, byte(k), byte(p.id)})
		theirKit.Units = 10
		theirKit.UnitsUnfulfilled = 10
		theirKit.MinUnitsMatch = 1
		theirKit.FixedRate = uint32(c05ClearingPrice) * 2
		theirKit.LeaseDuration = c05LeaseDuration
		theirKit.Amt = order.SupplyUnit(10).ToSatoshis()
		theirMS := c05Raw(c05Priv(0xe0, k).PubKey())
		batch.MatchedOrders[a.nonce] = []*order.MatchedOrder{{
			Order:       &order.Bid{Kit: *theirKit},
			MultiSigKey: theirMS,
			NodeKey:     w.nodes[p.node-1],
			UnitsFilled: c05ChanUnits,
		}}
		mToks = append(mToks, fmt.Sprintf("%d:%d", a.id, p.node))

		// channel output
		ourMS, err := w.wallet.DeriveKey(context.Background(), &a.msLoc)
		if err != nil {
			return nil, "", false, err
		}
		chanOut, err := poolscript.FundingOutput(
			lnrpc.CommitmentType_UNKNOWN_COMMITMENT_TYPE,
			ourMS.PubKey.SerializeCompressed(), theirMS[:],
			int64(chanSize),
		)
		if err != nil {
			return nil, "", false, err
		}
		if !(p.variant == "nochan" && k == p.accts[0]) {
			tx.AddTxOut(chanOut)
		} else {
			valid = false
		}

		// tally exactly as the auctioneer would
		tally := &order.AccountTally{EndingBalance: acct.Value}
		tally.CalcMakerDelta(feeSched, c05ClearingPrice, chanSize, chanSize, c05LeaseDuration)
		tally.NumChansCreated = 1
		tally.ChainFees(feeRate, acct.Version)

		diff := &order.AccountDiff{
			AccountKeyRaw: a.raw,
			AccountKey:    a.pub,
			EndingBalance: tally.EndingBalance,
			OutpointIndex: -1,
			NewVersion:    acct.Version,
		}
		if p.up == k && acct.Version < account.VersionMuSig2V100RC2 {
			// the auctioneer upgrades the account by one version in this
			// batch: p2wsh -> taproot (MuSig2 v0.4), taproot v0.4 -> v1.0rc2
			diff.NewVersion = acct.Version + 1
			r := w.r
			r.Count(fmt.Sprintf("prop/upgrade-v%d-to-v%d", acct.Version, diff.NewVersion))
			if p.ext == k {
				r.Count("prop/upgrade-with-expiry-change")
			}
		}
		if p.ext == k {
			// the auctioneer extends the account (a lease outliving it)
			diff.NewExpiry = uint32(int(acct.Expiry) + p.extd)
		}
		if p.variant == "badbal" && k == p.accts[0] {
			diff.EndingBalance++
			valid = false
		}
		newOp, newOut := "-", "-"
		if diff.EndingBalance >= order.MinNoDustAccountSize {
			diff.EndingState = auctioneerrpc.AccountDiff_OUTPUT_RECREATED
			cp := acct.Copy()
			cp.Version = diff.NewVersion
			if diff.NewExpiry != 0 {
				cp.Expiry = diff.NewExpiry
			}
			script, err := cp.NextOutputScript()
			if err != nil {
				return nil, "", false, err
			}
			diff.OutpointIndex = int32(len(tx.TxOut))
			o := &wire.TxOut{Value: int64(diff.EndingBalance), PkScript: script}
			tx.AddTxOut(o)
			newOut = strconv.Itoa(c05Out(w, o))
			newOp = "@" // filled in below, once the tx is complete
		} else {
			diff.EndingState = auctioneerrpc.AccountDiff_OUTPUT_FULLY_SPENT
			// a used-up account keeps its script but is stored with
			// the (dust) ending balance as its value
			if cur, err := acct.Output(); err == nil {
				newOut = strconv.Itoa(c05Out(w, &wire.TxOut{
					Value: int64(diff.EndingBalance), PkScript: cur.PkScript,
				}))
			}
		}
		batch.AccountDiffs = append(batch.AccountDiffs, diff)
		diffToks = append(diffToks, fmt.Sprintf("%d:%s:%d:%s:%d", a.id, newOp, diff.NewVersion, newOut, diff.NewExpiry))
	}
	if p.id%2 == 0 {
		tx.AddTxIn(auctIn)
	}
	// the auctioneer's own output varies the transaction between
	// re-proposals of the same batch ID
	tx.AddTxOut(&wire.TxOut{Value: int64(50_000 + p.extra), PkScript: []byte{0x00, 0x14,
		1, 2, 3, 4, 5, 6, 7, 8, 9, 10, 11, 12, 13, 14, 15, 16, 17, 18, 19, 20}})

	txid := tx.TxHash()
	for i, d := range batch.AccountDiffs {
		if d.OutpointIndex >= 0 {
			op := c05Outpoint(w, wire.OutPoint{Hash: txid, Index: uint32(d.OutpointIndex)})
			diffToks[i] = strings.Replace(diffToks[i], "@", strconv.Itoa(op), 1)
		}
	}

	snap := 1
	switch p.variant {
	case "badver":
		batch.Version = 999
		valid = false
	case "badheight":
		batch.HeightHint = c05BestHeight + 10
		valid = false
	case "nosnap":
		batch.ExecutionFee = &c05NonLinearFee{feeSched}
		snap = 0
	}
	v := 0
	if valid {
		v = 1
	}
	ins, outs, lock := c05TxToken(w, tx)
	line := fmt.Sprintf("C05 validate id=%d tid=%d v=%d snap=%d ins=%s outs=%s lock=%d diffs=%s m=%s",
		p.id, c05Tid(w, tx), v, snap, ins, outs, lock, c05Csv(diffToks), c05Csv(mToks))
	return batch, line, valid, nil
}

// ---------------------------------------------------------------------------
// executing one history

// Outcomes are classified by WHICH CALL FAILED (the call traces of the signer /
// store / account-store proxies), never by error texts.

// c05ClassValidate: the manager either accepted the proposal or not.
func c05ClassValidate(err error) string {
	if err == nil {
		return "ok"
	}
	return "err"
}

// c05ClassSign names the stage in which a BatchSign failed:
//
//	err:signer  a signer-client call failed
//	err:acct    the account lookup of the signing stage failed
//	err:pre     no collaborator call failed: a precondition of signing did not
//	            hold (account input not in the batch tx, server nonce missing)
//	err:store   the staging stage failed (order / account lookup of the storer,
//	            or the database call)
//
// The staging stage is the part of the trace from a `store:GetOrder` (the
// storer's first action) to the `store:StorePendingBatch` call.
func c05ClassSign(err error, trace []string) string {
	if err == nil {
		return "ok"
	}
	cls, storing := "err:pre", false
	for _, e := range trace {
		switch {
		case e == "store:GetOrder":
			storing = true
		case strings.HasPrefix(e, "store:StorePendingBatch"):
			storing = false
			if strings.Contains(e, ":fail") {
				cls = "err:store"
			}
		case e == "acct:fail":
			if storing {
				cls = "err:store"
			} else {
				cls = "err:acct"
			}
		case strings.HasPrefix(e, "signer:") && strings.HasSuffix(e, ":fail"):
			cls = "err:signer"
		}
	}
	if cls == "err:pre" && storing {
		// the storer gave up without a failing collaborator call
		cls = "err:store"
	}
	return cls
}

// c05ClassFinalize: a failing BatchFinalize that reached MarkBatchComplete
// failed in the store, otherwise it refused the batch ID.
func c05ClassFinalize(err error, trace []string) string {
	if err == nil {
		return "ok"
	}
	for _, e := range trace {
		if strings.HasPrefix(e, "store:MarkBatchComplete") {
			return "err:store"
		}
	}
	return "err:id"
}

func (w *c05World) acctByRaw(raw [33]byte) *c05Acct {
	for _, a := range w.accts {
		if a.raw == raw {
			return a
		}
	}
	return nil
}

// prevOuts returns the UTXO information of every input of the batch tx as
// the auctioneer would send it in the Sign message.
func (w *c05World) prevOuts(b *order.Batch) []*wire.TxOut {
	var res []*wire.TxOut
	for _, in := range b.BatchTX.TxIn {
		var found *wire.TxOut
		for _, a := range w.accts {
			acct, err := w.db.Account(a.pub)
			if err == nil && acct.OutPoint == in.PreviousOutPoint {
				found, _ = acct.Output()
			}
		}
		if found == nil {
			found = &wire.TxOut{Value: 77_000, PkScript: []byte{0x00, 0x14,
				9, 9, 9, 9, 9, 9, 9, 9, 9, 9, 9, 9, 9, 9, 9, 9, 9, 9, 9, 9}}
		}
		res = append(res, found)
	}
	return res
}

type c05AuctSession struct {
	info  *input.MuSig2SessionInfo
	acct  *account.Account
	clean func()
}

func (w *c05World) exec(c *c05Case) {
	r := w.r
	violated := false
	bad := func(what, key string) {
		violated = true
		r.Count("oracle/violation")
		r.Violate(what, key, map[string]interface{}{"case": c, "history": w.hist})
	}
	signOK, stagedAfterOK := false, false
	for _, cmd := range c.Cmds {
		if violated {
			break // a case ends at its first oracle violation
		}
		f := strings.Fields(cmd)
		if len(f) == 0 {
			continue
		}
		kv := c05ParseKV(f[1:])
		w.trace = nil
		switch f[0] {
		case "prop":
			p := &c05Prop{variant: kv["var"]}
			p.id, _ = strconv.Atoi(kv["id"])
			p.accts = c05Ints(kv["accts"])
			p.node, _ = strconv.Atoi(kv["node"])
			p.up, _ = strconv.Atoi(kv["up"])
			p.ext, _ = strconv.Atoi(kv["ext"])
			p.extd = 1000
			if v, ok := kv["extd"]; ok {
				p.extd, _ = strconv.Atoi(v)
			}
			p.extra, _ = strconv.Atoi(kv["extra"])
			if p.node < 1 || p.node > 3 || len(p.accts) == 0 {
				continue
			}
			if p.ext != 0 {
				r.Count("prop/extends-account")
				if p.extd < 0 {
					r.Count("prop/shortens-account-expiry")
				}
			}
			batch, line, _, err := w.buildBatch(p)
			if err != nil {
				r.Notes = append(r.Notes, "buildBatch: "+err.Error())
				continue
			}
			var verr error
			pan := c05Recover(func() { verr = w.mgr.OrderMatchValidate(batch, c05BestHeight) })
			res := c05ClassValidate(verr)
			if pan != "" {
				res = "panic"
			}
			r.Count("validate/" + res)
			r.Count("variant/" + strings.Split(p.variant, ":")[0])
			if p.node == 3 {
				for _, k := range p.accts {
					if k >= 2 {
						r.Count("validate/node-filter-applies")
						break
					}
				}
			}
			if res == "ok" {
				if w.lastOK != nil && w.lastOK.ID == batch.ID {
					r.Count("validate/reproposal-same-id")
				}
				w.lastOK = batch
			} else if w.lastOK != nil {
				r.Count("validate/rejected-while-pending")
			}
			w.emit(line, res+w.tail())

		case "sign":
			w.execSign(c, kv, bad, &signOK, &stagedAfterOK, false)

		case "hsign":
			w.execSign(c, kv, bad, &signOK, &stagedAfterOK, true)

		case "fin":
			id, _ := strconv.Atoi(kv["id"])
			var bid order.BatchID
			bid[0] = byte(id)
			bid[1] = 0x02
			w.store.markFault = kv["mf"] == "1"
			var ferr error
			pan := c05Recover(func() { ferr = w.mgr.BatchFinalize(bid) })
			w.store.markFault = false
			res := c05ClassFinalize(ferr, w.trace)
			if pan != "" {
				res = "panic"
			}
			r.Count("finalize/" + res)
			extra := ""
			if res == "ok" {
				w.lastOK = nil
				extra = " accts=" + w.acctRows()
				// the staged updates are what gets applied
				for raw, exp := range w.stagedExpect {
					a := w.acctByRaw(raw)
					got, err := w.db.Account(a.pub)
					if err != nil {
						bad(fmt.Sprintf("account %d unreadable after the staged batch was applied: %v", a.id, err),
							"C05/staged-content")
						continue
					}
					if what := c05AcctDiff(got, exp); what != "" {
						bad(fmt.Sprintf("account %d after applying the staged batch does not match the verified batch: %s", a.id, what),
							"C05/staged-content")
					}
					r.Count("finalize/applied-row-checked")
				}
				w.stagedExpect = nil
			}
			mf := 0
			if kv["mf"] == "1" {
				mf = 1
			}
			w.emit(fmt.Sprintf("C05 finalize id=%d mf=%d", id, mf), res+extra+w.tail())

		case "unstage":
			// what fundingManager.DeletePendingBatch does when a new
			// proposal arrives while a batch is pending
			err := w.db.DeletePendingBatch()
			w.stagedExpect = nil
			res := "ok"
			if err != nil {
				res = "err"
			}
			r.Count("unstage")
			w.emit("C05 unstage", res+w.tail())

		case "modacct":
			// an account-modifying RPC (deposit / withdraw / renew)
			// landing between two auctioneer messages: the account
			// moves to a new outpoint with a new value
			k, _ := strconv.Atoi(kv["k"])
			if k < 1 || k > len(w.accts) {
				continue
			}
			a := w.accts[k-1]
			acct, err := w.db.Account(a.pub)
			if err != nil {
				continue
			}
			w.modSeq++
			newOp := wire.OutPoint{Hash: chainhash.Hash{0xdd, byte(k), byte(w.modSeq)}, Index: uint32(w.modSeq % 3)}
			err = w.db.UpdateAccount(acct,
				account.OutPointModifier(newOp),
				account.ValueModifier(acct.Value+btcutil.Amount(1000+w.modSeq)),
			)
			if err != nil {
				r.Notes = append(r.Notes, "modacct: "+err.Error())
				continue
			}
			out, _ := acct.Output()
			r.Count("modacct")
			if w.lastOK != nil {
				for _, d := range w.lastOK.AccountDiffs {
					if d.AccountKeyRaw == a.raw {
						r.Count("modacct/of-pending-batch-account")
					}
				}
			}
			w.emit(fmt.Sprintf("C05 modacct k=%d op=%d out=%d", k, c05Outpoint(w, newOp), c05Out(w, out)),
				"ok accts="+w.acctRows()+w.tail())
		}
	}
	r.Evaluations++
	if signOK && stagedAfterOK {
		r.Distinct(strings.Join(w.hist, ";"))
	}
	r.Sample(w.hist)
}

// acctRows renders the main-bucket account rows key:outpoint:version.
func (w *c05World) acctRows() string {
	var rows []string
	for _, a := range w.accts {
		acct, err := w.db.Account(a.pub)
		if err != nil {
			rows = append(rows, fmt.Sprintf("%d:?", a.id))
			continue
		}
		rows = append(rows, fmt.Sprintf("%d:%d:%d", a.id, c05Outpoint(w, acct.OutPoint), acct.Version))
	}
	return strings.Join(rows, ",")
}

func c05Recover(f func()) (p string) {
	defer func() {
		if x := recover(); x != nil {
			p = fmt.Sprint(x)
		}
	}()
	f()
	return ""
}

func (w *c05World) execSign(c *c05Case, kv map[string]string,
	bad func(what, key string), signOK, stagedAfterOK *bool, viaHandler bool) {

	r := w.r
	sf, af := -1, -1
	if v, ok := kv["sf"]; ok && v != "-" {
		sf, _ = strconv.Atoi(v)
	}
	if v, ok := kv["af"]; ok && v != "-" {
		af, _ = strconv.Atoi(v)
	}
	st := kv["st"]
	if st == "" {
		st = "none"
	}
	dropNonce, _ := strconv.Atoi(kv["dropnonce"])
	prevMode := kv["prev"]
	if prevMode == "" {
		prevMode = "full"
	}

	// What the handler does before BatchSign: attach the auxiliary data of
	// the Sign message to the pending batch.
	pending := w.mgr.PendingBatch()
	nonceTok, prevTok := "-", "-"
	rpcSign := &auctioneerrpc.OrderMatchSignBegin{ServerNonces: map[string][]byte{}}
	parseOK, chanOK, sendOK := kv["parse"] != "0", kv["chan"] != "0", kv["send"] != "0"
	sessions := map[[33]byte]*c05AuctSession{}
	if pending != nil {
		nonces := order.AccountNonces{}
		var ntoks []string
		for _, d := range pending.AccountDiffs {
			a := w.acctByRaw(d.AccountKeyRaw)
			acct, err := w.db.Account(a.pub)
			if err != nil || acct.Version < account.VersionTaprootEnabled {
				continue
			}
			if a.id == dropNonce {
				continue
			}
			// the auctioneer's side of the MuSig2 session
			info, clean, err := poolscript.TaprootMuSig2SigningSession(
				context.Background(), acct.Version.ScriptVersion(),
				acct.Expiry, acct.TraderKey.PubKey, acct.BatchKey,
				acct.Secret, acct.AuctioneerKey, w.auct,
				&keychain.KeyLocator{Index: 0}, nil,
			)
			if err != nil {
				r.Notes = append(r.Notes, "auctioneer session: "+err.Error())
				continue
			}
			sessions[a.raw] = &c05AuctSession{info: info, acct: acct, clean: clean}
			nonces[a.raw] = info.PublicNonce
			ntoks = append(ntoks, strconv.Itoa(a.id))
		}
		prev := w.prevOuts(pending)
		switch prevMode {
		case "short":
			if len(prev) > 0 {
				prev = prev[:len(prev)-1]
			}
		case "empty":
			prev = nil
		}
		if !viaHandler {
			pending.ServerNonces = nonces
			pending.PreviousOutputs = prev
		}
		for k, n := range nonces {
			n := n
			rpcSign.ServerNonces[hex.EncodeToString(k[:])] = n[:]
		}
		for _, o := range prev {
			rpcSign.PrevOutputs = append(rpcSign.PrevOutputs, &auctioneerrpc.TxOut{
				Value: uint64(o.Value), PkScript: o.PkScript,
			})
		}
		if len(ntoks) > 0 {
			nonceTok = strings.Join(ntoks, "+")
		}
		var ptoks []string
		for _, o := range prev {
			ptoks = append(ptoks, strconv.Itoa(c05Out(w, o)))
		}
		prevTok = c05Csv(ptoks)
	}

	dbBefore, _ := w.dbTok()
	w.signer.reset()
	w.signer.failAt = sf
	w.store.storeFault = st
	w.store.acctCalls = 0
	w.store.acctFailAt = af
	w.trace = nil

	var (
		sigs   order.BatchSignature
		nonces order.AccountNonces
		serr   error
	)
	var pan string
	if !viaHandler {
		pan = c05Recover(func() { sigs, nonces, serr = w.mgr.BatchSign() })
	} else {
		if !parseOK {
			// a nonce of the wrong length: order.ParseRPCSign fails
			rpcSign.ServerNonces[hex.EncodeToString(make([]byte, 33))] = []byte{1, 2, 3}
		}
		w.wallet.fail = !chanOK
		w.stream.failSign = !sendOK
		w.stream.signs, w.stream.dbAtSend = nil, nil
		callsBefore := w.rec.calls
		w.rec.sigs, w.rec.nonces = nil, nil
		pan = c05Recover(func() {
			_ = w.handler.Handle(&auctioneerrpc.ServerAuctionMessage{
				Msg: &auctioneerrpc.ServerAuctionMessage_Sign{Sign: rpcSign},
			})
		})
		w.wallet.fail = false
		w.stream.failSign = false
		w.execHandlerTail(kv, pending, pan, callsBefore, nonceTok, prevTok, st, sf, af, bad, sessions, signOK, stagedAfterOK)
		w.store.storeFault = "none"
		w.store.acctFailAt = -1
		w.signer.failAt = -1
		return
	}
	// --- the moment of return ---
	dbAfter, snap := w.dbTok()
	trace := append([]string{}, w.trace...)
	w.store.storeFault = "none"
	w.store.acctFailAt = -1
	w.signer.failAt = -1

	res := c05ClassSign(serr, trace)
	if pan != "" {
		res = "panic"
	}
	r.Count("sign/" + res)
	if sf >= 0 {
		r.Count("fault/signer")
	}
	if af >= 0 {
		r.Count("fault/acct")
	}
	if st != "none" {
		r.Count("fault/store-" + st)
	}

	sfTok, afTok := "-", "-"
	if sf >= 0 {
		sfTok = strconv.Itoa(sf)
	}
	if af >= 0 {
		afTok = strconv.Itoa(af)
	}
	line := fmt.Sprintf("C05 sign sf=%s af=%s st=%s nonces=%s prev=%s", sfTok, afTok, st, nonceTok, prevTok)

	// canonical description of what was signed, from the signer's log
	out := res
	if res == "ok" {
		out += " " + w.sigTokens(pending, sigs) + " rows=" + w.rowTokens(pending, snap)
	}
	w.emit(line, out+w.tail())

	// ------------------------------------------------------------------
	// independent oracle: the property's English statement on this trace
	// ------------------------------------------------------------------
	storeIdx, lastSigner := -1, -1
	storeOK := false
	for i, e := range trace {
		if strings.HasPrefix(e, "signer:") {
			lastSigner = i
		}
		if strings.HasPrefix(e, "store:StorePendingBatch") {
			storeIdx = i
			storeOK = e == "store:StorePendingBatch:ok"
		}
	}
	released := len(sigs) > 0 || len(nonces) > 0 || (res == "ok")
	if res != "ok" {
		// "if signing or staging fails, no signature is released"
		if sigs != nil || nonces != nil {
			bad("BatchSign failed ("+res+") but returned signatures/nonces", "C05/release-on-failure")
		}
		signerFailed := res != "err:store" && res != "ok"
		if signerFailed {
			// "a failed signing stages nothing"
			if storeIdx >= 0 {
				bad("signing failed ("+res+") but StorePendingBatch was called", "C05/stage-on-sign-failure")
			}
			if dbAfter != dbBefore {
				bad("signing failed ("+res+") but the staged batch in the DB changed: "+dbBefore+" -> "+dbAfter,
					"C05/stage-on-sign-failure")
			}
		} else if dbAfter != dbBefore {
			bad("staging failed but the staged batch in the DB changed: "+dbBefore+" -> "+dbAfter,
				"C05/partial-stage")
		}
		return
	}
	_ = released
	*signOK = true
	// (1) only for the batch most recently verified successfully
	if w.lastOK == nil {
		bad("signatures released although no successfully verified batch is outstanding", "C05/no-verified-batch")
		return
	}
	lb := w.lastOK
	if len(sigs) != len(lb.AccountDiffs) {
		bad(fmt.Sprintf("released %d signatures for a batch with %d account diffs", len(sigs), len(lb.AccountDiffs)),
			"C05/sig-set")
	}
	// (3) after staging, durably
	if !(storeIdx >= 0 && storeOK && lastSigner < storeIdx) {
		bad(fmt.Sprintf("signatures released without a successful StorePendingBatch after the last signer call (trace %v)", trace),
			"C05/release-before-stage")
	}
	if snap == nil || snap.BatchID != lb.ID || snap.BatchTX.TxHash() != lb.BatchTX.TxHash() {
		bad("signatures released but the database does not hold the verified batch as staged at the moment of return (db="+dbAfter+")",
			"C05/not-staged-at-return")
	} else {
		*stagedAfterOK = true
		for _, d := range lb.AccountDiffs {
			if _, ok := snap.Accounts[d.AccountKeyRaw]; !ok {
				bad("staged snapshot misses an account of the batch", "C05/not-staged-at-return")
			}
		}
		for n := range lb.MatchedOrders {
			if _, ok := snap.Orders[n]; !ok {
				bad("staged snapshot misses an order of the batch", "C05/not-staged-at-return")
			}
		}
		w.checkStaged(lb, snap, bad)
	}
	if kv["reopen"] == "1" {
		r.Count("sign/reopen-check")
		if err := w.reopen(); err != nil {
			r.Notes = append(r.Notes, "reopen: "+err.Error())
		} else if d2, snap2 := w.dbTok(); d2 != dbAfter {
			bad("staged batch not durable across close/reopen: "+dbAfter+" -> "+d2, "C05/not-durable")
		} else if snap2 != nil {
			w.checkStaged(lb, snap2, bad)
		}
	}
	// (2) each signature validly spends the account's current output in
	// exactly that transaction, and in no altered one
	w.checkSigs(lb, sigs, nonces, sessions, bad)
}

// execHandlerTail emits the handler op and evaluates the property's statement
// on the messages handed to the auctioneer.
func (w *c05World) execHandlerTail(kv map[string]string, pending *order.Batch, pan string,
	callsBefore int, nonceTok, prevTok, st string, sf, af int, bad func(what, key string),
	sessions map[[33]byte]*c05AuctSession, signOK, stagedAfterOK *bool) {

	r := w.r
	var evs []string
	for _, e := range w.trace {
		if strings.HasPrefix(e, "sign:") || strings.HasPrefix(e, "send:") || e == "reject" {
			evs = append(evs, e)
		}
	}
	b2i := func(b bool) int {
		if b {
			return 1
		}
		return 0
	}
	sfTok, afTok := "-", "-"
	if sf >= 0 {
		sfTok = strconv.Itoa(sf)
	}
	if af >= 0 {
		afTok = strconv.Itoa(af)
	}
	line := fmt.Sprintf("C05 hsign parse=%d chan=%d send=%d sf=%s af=%s st=%s nonces=%s prev=%s",
		b2i(kv["parse"] != "0"), b2i(kv["chan"] != "0"), b2i(kv["send"] != "0"), sfTok, afTok, st, nonceTok, prevTok)
	out := "ev=" + c05Csv(evs)
	// signatures as handed to the auctioneer
	var sent order.BatchSignature
	var sentNonces order.AccountNonces
	if len(w.stream.signs) > 0 {
		m := w.stream.signs[len(w.stream.signs)-1]
		sent, sentNonces = order.BatchSignature{}, order.AccountNonces{}
		for k, v := range m.AccountSigs {
			var raw [33]byte
			b, _ := hex.DecodeString(k)
			copy(raw[:], b)
			sent[raw] = v
		}
		for k, v := range m.TraderNonces {
			var raw [33]byte
			b, _ := hex.DecodeString(k)
			copy(raw[:], b)
			var n poolscript.MuSig2Nonces
			copy(n[:], v)
			sentNonces[raw] = n
		}
		out += " " + w.sigTokens(w.mgr.PendingBatch(), sent)
	}
	p := 0
	if pan != "" {
		p = 1
	}
	out += fmt.Sprintf(" panicked=%d", p)
	r.Count("hsign/" + map[bool]string{true: "sent-sign", false: "no-sign"}[len(w.stream.signs) > 0])
	if pan != "" {
		r.Count("hsign/panic")
	}
	for _, e := range evs {
		r.Count("hsign/ev/" + strings.Split(e, ":")[0])
	}
	w.emit(line, out+w.tail())

	// ---- oracle: "no sign message is handed to the auctioneer unless
	// BatchSign returned ok before it", with the staged batch in the DB at
	// the moment the message is handed over
	signCalled := w.rec.calls > callsBefore
	for i := range w.stream.signs {
		okBefore := false
		for _, e := range w.trace {
			if e == "sign:ok" {
				okBefore = true
			}
			if strings.HasPrefix(e, "send:") {
				break
			}
		}
		if !signCalled || !okBefore {
			bad("a sign message was handed to the auctioneer without a preceding successful BatchSign (events "+c05Csv(evs)+")",
				"C05/send-without-sign")
			return
		}
		if w.lastOK == nil {
			bad("a sign message was handed to the auctioneer although no verified batch is outstanding", "C05/no-verified-batch")
			return
		}
		want := fmt.Sprintf("%d.%d", w.lastOK.ID[0], c05Tid(w, w.lastOK.BatchTX))
		if w.stream.dbAtSend[i] != want {
			bad("sign message handed to the auctioneer while the database does not hold the verified batch as staged (db="+
				w.stream.dbAtSend[i]+", want "+want+")", "C05/not-staged-at-send")
			return
		}
		if !bytes.Equal(w.stream.signs[i].BatchId, w.lastOK.ID[:]) {
			bad("sign message names another batch than the verified one", "C05/send-wrong-batch")
		}
	}
	if len(w.stream.signs) == 0 {
		return
	}
	if len(sent) != len(w.rec.sigs) {
		bad("sign message carries other signatures than BatchSign returned", "C05/send-other-sigs")
	}
	for k, v := range w.rec.sigs {
		if !bytes.Equal(sent[k], v) {
			bad("sign message carries other signatures than BatchSign returned", "C05/send-other-sigs")
		}
	}
	*signOK = true
	*stagedAfterOK = true
	if _, snap := w.dbTok(); snap != nil && snap.BatchID == w.lastOK.ID {
		w.checkStaged(w.lastOK, snap, bad)
	}
	if len(sent) != len(w.lastOK.AccountDiffs) {
		bad(fmt.Sprintf("sent %d signatures for a batch with %d account diffs", len(sent), len(w.lastOK.AccountDiffs)), "C05/sig-set")
	}
	w.checkSigs(w.lastOK, sent, sentNonces, sessions, bad)
}

// rowTokens renders the staged account rows in the order of the pending
// batch's diffs: key:outpoint:version:out (out only for re-created accounts).
func (w *c05World) rowTokens(pending *order.Batch, snap *clientdb.LocalBatchSnapshot) string {
	if pending == nil || snap == nil {
		return "?"
	}
	var rows []string
	for _, d := range pending.AccountDiffs {
		a := w.acctByRaw(d.AccountKeyRaw)
		if a == nil {
			rows = append(rows, "?")
			continue
		}
		// read back from the committed pending-accounts bucket
		st, err := w.db.VerifC05PendingAccount(d.AccountKeyRaw[:])
		if err != nil {
			rows = append(rows, fmt.Sprintf("%d:?", a.id))
			continue
		}
		out := "-"
		if st.State == account.StatePendingBatch {
			if o, err := st.Output(); err == nil {
				out = strconv.Itoa(c05Out(w, o))
			}
		}
		rows = append(rows, fmt.Sprintf("%d:%d:%d:%s:%d", a.id, c05Outpoint(w, st.OutPoint), st.Version, out, st.Expiry))
	}
	return c05Csv(rows)
}

// checkStaged evaluates "the batch's account and order updates have been
// staged": WHAT is staged for every account and order of the verified batch
// must be what that batch says - the staged account describes the output the
// batch transaction really creates for it (or stays on the spent output when
// the account is used up), the staged order carries the units left.
func (w *c05World) checkStaged(lb *order.Batch, snap *clientdb.LocalBatchSnapshot, bad func(what, key string)) {
	r := w.r
	txid := lb.BatchTX.TxHash()
	w.stagedExpect = map[[33]byte]*account.Account{}
	for _, d := range lb.AccountDiffs {
		a := w.acctByRaw(d.AccountKeyRaw)
		pre, err := w.db.Account(a.pub) // the main bucket is untouched by staging
		if err != nil {
			continue
		}
		// what the verified batch says this account looks like afterwards
		exp := pre.Copy()
		exp.Value = d.EndingBalance
		exp.HeightHint = lb.HeightHint
		exp.LatestTx = lb.BatchTX
		if d.EndingState == auctioneerrpc.AccountDiff_OUTPUT_RECREATED {
			r.Count("staged/recreated")
			exp.State = account.StatePendingBatch
			exp.OutPoint = wire.OutPoint{Hash: txid, Index: uint32(d.OutpointIndex)}
			exp.BatchKey = poolscript.IncrementKey(pre.BatchKey)
			if d.NewExpiry != 0 {
				exp.Expiry = d.NewExpiry
			}
			if d.NewVersion > exp.Version {
				exp.Version = d.NewVersion
			}
		} else {
			r.Count("staged/closed")
			exp.State = account.StatePendingClosed
		}
		w.stagedExpect[d.AccountKeyRaw] = exp

		// the staged update as read back from the committed database
		// (pending-accounts bucket) and as recorded in the snapshot
		fromDB, err := w.db.VerifC05PendingAccount(d.AccountKeyRaw[:])
		if err != nil {
			bad(fmt.Sprintf("staged update of account %d cannot be read back from the database after the commit: %v", a.id, err),
				"C05/staged-content")
			continue
		}
		srcs := map[string]*account.Account{"db": fromDB}
		if st, ok := snap.Accounts[d.AccountKeyRaw]; ok {
			srcs["snapshot"] = st
		}
		for name, st := range srcs {
			if what := c05AcctDiff(st, exp); what != "" {
				bad(fmt.Sprintf("staged update of account %d (%s) does not match the verified batch: %s", a.id, name, what),
					"C05/staged-content")
			}
			if d.EndingState == auctioneerrpc.AccountDiff_OUTPUT_RECREATED {
				// the decisive one: the staged account must describe
				// the output the batch transaction creates for it
				o, err := st.Output()
				txo := lb.BatchTX.TxOut[d.OutpointIndex]
				if err != nil || o.Value != txo.Value || !bytes.Equal(o.PkScript, txo.PkScript) {
					bad(fmt.Sprintf("staged update of account %d (%s): its script/value is not the output of the batch tx at its staged outpoint",
						a.id, name), "C05/staged-content")
				}
			}
		}
	}
	for n, ms := range lb.MatchedOrders {
		pre, err := w.db.GetOrder(n)
		if err != nil {
			continue
		}
		so, err := w.db.VerifC05PendingOrder(n)
		if err != nil {
			bad(fmt.Sprintf("staged update of order %x cannot be read back from the database after the commit: %v", n[:2], err),
				"C05/staged-content")
			continue
		}
		left := pre.Details().UnitsUnfulfilled
		for _, m := range ms {
			left -= m.UnitsFilled
		}
		if so.Details().UnitsUnfulfilled != left {
			bad(fmt.Sprintf("staged order %x has %d units unfulfilled, the verified batch leaves %d", n[:2],
				so.Details().UnitsUnfulfilled, left), "C05/staged-content")
		}
		wantState := order.StatePartiallyFilled
		if left == 0 || left < pre.Details().MinUnitsMatch {
			wantState = order.StateExecuted
		}
		if so.Details().State != wantState {
			bad(fmt.Sprintf("staged order %x has state %v, want %v", n[:2], so.Details().State, wantState),
				"C05/staged-content")
		}
	}
}

// c05AcctDiff names the first field in which a stored account differs from
// the expected one ("" = none).
func c05AcctDiff(st, exp *account.Account) string {
	switch {
	case st.Value != exp.Value:
		return fmt.Sprintf("value %d, want %d", st.Value, exp.Value)
	case st.State != exp.State:
		return fmt.Sprintf("state %v, want %v", st.State, exp.State)
	case st.OutPoint != exp.OutPoint:
		return fmt.Sprintf("outpoint %v, want %v", st.OutPoint, exp.OutPoint)
	case st.Expiry != exp.Expiry:
		return fmt.Sprintf("expiry %d, want %d", st.Expiry, exp.Expiry)
	case st.Version != exp.Version:
		return fmt.Sprintf("version %d, want %d", st.Version, exp.Version)
	case !st.BatchKey.IsEqual(exp.BatchKey):
		return "batch key is not the expected one (stored key incremented exactly once iff re-created)"
	case !st.TraderKey.PubKey.IsEqual(exp.TraderKey.PubKey) || !st.AuctioneerKey.IsEqual(exp.AuctioneerKey) ||
		st.Secret != exp.Secret:
		return "keys / secret"
	case st.HeightHint != exp.HeightHint:
		return fmt.Sprintf("height hint %d, want %d", st.HeightHint, exp.HeightHint)
	case st.LatestTx == nil || exp.LatestTx == nil || st.LatestTx.TxHash() != exp.LatestTx.TxHash():
		return "latest tx is not the batch tx"
	}
	return ""
}

// sigTokens renders the released signatures as the messages they are over:
// `tx=<tid> sigs=key:idx:mode:hashtype[:out],...` sorted by account.
func (w *c05World) sigTokens(pending *order.Batch, sigs order.BatchSignature) string {
	type row struct {
		k int
		s string
	}
	var rows []row
	tids := map[int]bool{}
	var pendNoWit bytes.Buffer
	if pending != nil {
		_ = pending.BatchTX.SerializeNoWitness(&pendNoWit)
	}
	for _, q := range w.signer.log {
		a := w.acctByRaw(q.key)
		k := 0
		if a != nil {
			k = a.id
		}
		if _, ok := sigs[q.key]; !ok {
			rows = append(rows, row{k, fmt.Sprintf("%d:unreleased", k)})
			continue
		}
		switch q.kind {
		case "raw":
			tx := wire.NewMsgTx(2)
			_ = tx.Deserialize(bytes.NewReader(q.tx))
			tids[c05Tid(w, tx)] = true
			rows = append(rows, row{k, fmt.Sprintf("%d:%d:w:%d:%d", k, q.idx, q.hashType, c05Out(w, q.out))})
		case "musig":
			// identify (tx, idx) by recomputing the taproot sighash
			// over the pending transaction and the supplied prevouts
			idx := -1
			if pending != nil && len(pending.PreviousOutputs) >= len(pending.BatchTX.TxIn) {
				f := txscript.NewMultiPrevOutFetcher(nil)
				for i, in := range pending.BatchTX.TxIn {
					f.AddPrevOut(in.PreviousOutPoint, pending.PreviousOutputs[i])
				}
				sh := txscript.NewTxSigHashes(pending.BatchTX, f)
				for i := range pending.BatchTX.TxIn {
					d, err := txscript.CalcTaprootSignatureHash(sh, txscript.SigHashDefault, pending.BatchTX, i, f)
					if err == nil && bytes.Equal(d, q.digest[:]) {
						idx = i
					}
				}
			}
			// the output the MuSig2 session's aggregate key pays to: the
			// account output this partial signature can help to spend
			forOut := "?"
			if a != nil && q.combined != nil {
				if acct, err := w.db.Account(a.pub); err == nil {
					if pk, err := txscript.PayToTaprootScript(q.combined); err == nil {
						forOut = strconv.Itoa(c05Out(w, &wire.TxOut{Value: int64(acct.Value), PkScript: pk}))
					}
				}
			}
			if idx >= 0 {
				tids[c05Tid(w, pending.BatchTX)] = true
				// account version whose protocol the session uses:
				// MuSig2 v0.4.0 = account version 1, v1.0.0-rc2 = 2
				sver := "?"
				switch q.musigVer {
				case input.MuSig2Version040:
					sver = "1"
				case input.MuSig2Version100RC2:
					sver = "2"
				}
				rows = append(rows, row{k, fmt.Sprintf("%d:%d:t:%d:%s:v%s", k, idx, txscript.SigHashDefault, forOut, sver)})
			} else {
				rows = append(rows, row{k, fmt.Sprintf("%d:x:t:?", k)})
			}
		}
	}
	sort.Slice(rows, func(i, j int) bool { return rows[i].k < rows[j].k })
	var ss []string
	for _, x := range rows {
		ss = append(ss, x.s)
	}
	tid := "-"
	if len(tids) == 1 {
		for t := range tids {
			tid = strconv.Itoa(t)
		}
	} else if len(tids) > 1 {
		tid = "MIXED"
	}
	return "tx=" + tid + " sigs=" + c05Csv(ss)
}

// checkSigs completes every released signature with the auctioneer's and runs
// the real script engine on the verified batch transaction and on single-field
// alterations of it.
func (w *c05World) checkSigs(lb *order.Batch, sigs order.BatchSignature,
	nonces order.AccountNonces, sessions map[[33]byte]*c05AuctSession,
	bad func(what, key string)) {

	r := w.r
	ctx := context.Background()
	prev := w.prevOuts(lb)
	fetch := func(tx *wire.MsgTx) *txscript.MultiPrevOutFetcher {
		f := txscript.NewMultiPrevOutFetcher(nil)
		for i, in := range tx.TxIn {
			if i < len(prev) {
				f.AddPrevOut(in.PreviousOutPoint, prev[i])
			}
		}
		return f
	}
	run := func(tx *wire.MsgTx, idx int, wit wire.TxWitness) error {
		t := tx.Copy()
		t.TxIn[idx].Witness = wit
		f := fetch(t)
		vm, err := txscript.NewEngine(prev[idx].PkScript, t, idx,
			txscript.StandardVerifyFlags, nil,
			txscript.NewTxSigHashes(t, f), prev[idx].Value, f)
		if err != nil {
			return err
		}
		return vm.Execute()
	}
	for _, d := range lb.AccountDiffs {
		a := w.acctByRaw(d.AccountKeyRaw)
		sig, ok := sigs[d.AccountKeyRaw]
		if !ok {
			bad(fmt.Sprintf("no signature released for account %d of the verified batch", a.id), "C05/sig-set")
			continue
		}
		// the account's *current on-chain* output is what the DB held
		// before staging; staging does not touch the main bucket
		acct, err := w.db.Account(a.pub)
		if err != nil {
			continue
		}
		idx := -1
		for i, in := range lb.BatchTX.TxIn {
			if in.PreviousOutPoint == acct.OutPoint {
				idx = i
			}
		}
		if idx < 0 {
			bad("signature released for an account whose output the batch tx does not spend", "C05/sig-no-input")
			continue
		}
		// mkWit assembles the full witness for spending the account
		// output in `tx` from the trader's released signature and the
		// auctioneer's. For a p2wsh account the auctioneer (who is the
		// party that could try to alter the transaction) signs `tx`
		// itself afresh; the MuSig2 signature is combined once, over
		// the verified batch transaction.
		var mkWit func(tx *wire.MsgTx) (wire.TxWitness, error)
		if acct.Version >= account.VersionTaprootEnabled {
			r.Count("sigcheck/taproot")
			s := sessions[d.AccountKeyRaw]
			tn, ok := nonces[d.AccountKeyRaw]
			if s == nil || !ok {
				bad("taproot signature released without trader nonces", "C05/nonce-missing")
				continue
			}
			var ps [input.MuSig2PartialSigSize]byte
			copy(ps[:], sig)
			tnn := poolscript.MuSig2Nonces(tn)
			full, err := poolscript.TaprootMuSig2Sign(ctx, idx, s.info, w.auct,
				lb.BatchTX, prev, &tnn, &ps)
			if err != nil {
				bad("released MuSig2 partial signature does not combine with the auctioneer's over the verified batch tx: "+err.Error(),
					"C05/sig-invalid")
				continue
			}
			mkWit = func(*wire.MsgTx) (wire.TxWitness, error) {
				return poolscript.SpendMuSig2Taproot(full), nil
			}
		} else {
			r.Count("sigcheck/p2wsh")
			ws, err := poolscript.AccountWitnessScript(acct.Expiry, acct.TraderKey.PubKey,
				acct.AuctioneerKey, acct.BatchKey, acct.Secret)
			if err != nil {
				continue
			}
			tweak := poolscript.AuctioneerKeyTweak(acct.TraderKey.PubKey, acct.AuctioneerKey,
				acct.BatchKey, acct.Secret)
			out, _ := acct.Output()
			// the trader's signature carries the sighash flag it was
			// actually made with (from the signer's log)
			ht := txscript.SigHashAll
			for _, q := range w.signer.log {
				if q.kind == "raw" && q.key == d.AccountKeyRaw {
					ht = q.hashType
				}
			}
			mkWit = func(tx *wire.MsgTx) (wire.TxWitness, error) {
				as, err := w.auct.SignOutputRaw(ctx, tx, []*lndclient.SignDescriptor{{
					KeyDesc:       keychain.KeyDescriptor{PubKey: w.auctKey.PubKey()},
					SingleTweak:   tweak,
					WitnessScript: ws,
					Output:        out,
					HashType:      txscript.SigHashAll,
					InputIndex:    idx,
				}}, nil)
				if err != nil {
					return nil, err
				}
				return poolscript.SpendMultiSig(ws,
					append(append([]byte{}, sig...), byte(ht)),
					append(as[0], byte(txscript.SigHashAll))), nil
			}
		}
		wit, err := mkWit(lb.BatchTX)
		if err != nil {
			continue
		}
		if err := run(lb.BatchTX, idx, wit); err != nil {
			bad(fmt.Sprintf("released signature of account %d does not validly spend its output in the verified batch tx: %v", a.id, err),
				"C05/sig-invalid")
			continue
		}
		r.Count("sigcheck/valid")
		// single-field alterations: every one must invalidate the spend
		alts := map[string]func(t *wire.MsgTx){
			"out-value":  func(t *wire.MsgTx) { t.TxOut[len(t.TxOut)-1].Value++ },
			"out-script": func(t *wire.MsgTx) { t.TxOut[0].PkScript = append([]byte{0x51}, t.TxOut[0].PkScript...) },
			"out-drop":   func(t *wire.MsgTx) { t.TxOut = t.TxOut[:len(t.TxOut)-1] },
			"out-add":    func(t *wire.MsgTx) { t.AddTxOut(&wire.TxOut{Value: 1, PkScript: []byte{0x51}}) },
			"locktime":   func(t *wire.MsgTx) { t.LockTime++ },
			"other-in": func(t *wire.MsgTx) {
				j := (idx + 1) % len(t.TxIn)
				if j != idx {
					t.TxIn[j].PreviousOutPoint.Index++
				} else {
					t.TxIn[idx].Sequence++
				}
			},
		}
		for name, alt := range alts {
			t := lb.BatchTX.Copy()
			alt(t)
			awit, err := mkWit(t)
			if err != nil {
				continue
			}
			if err := run(t, idx, awit); err == nil {
				bad(fmt.Sprintf("released signature of account %d is still valid after altering the batch tx (%s)", a.id, name),
					"C05/sig-valid-for-altered-tx")
			} else {
				r.Count("sigcheck/altered-rejected")
			}
		}
	}
	for _, s := range sessions {
		if s.clean != nil {
			s.clean()
		}
	}
}

// ---------------------------------------------------------------------------
// generator

func c05Gen(r *Run) *c05Case {
	n := 1 + r.Rng.Intn(3)
	c := &c05Case{}
	for i := 0; i < n; i++ {
		c.Versions = append(c.Versions, r.Rng.Intn(3))
	}
	if r.Rng.Intn(3) == 0 {
		c.Small = 1 + r.Rng.Intn(n)
	}
	closed := map[int]bool{}
	length := 2 + r.Rng.Intn(11)
	nextID := 1
	curID := 0       // id of the proposal the generator believes is pending
	curAccts := []int{}
	for i := 0; i < length; i++ {
		x := r.Rng.Intn(100)
		switch {
		case x < 40 || curID == 0 && x < 70:
			// proposal
			var accts []int
			for k := 1; k <= n; k++ {
				if !closed[k] && r.Rng.Intn(3) > 0 {
					accts = append(accts, k)
				}
			}
			if len(accts) == 0 {
				for k := 1; k <= n; k++ {
					if !closed[k] {
						accts = append(accts, k)
						break
					}
				}
			}
			if len(accts) == 0 {
				continue
			}
			r.Rng.Shuffle(len(accts), func(a, b int) { accts[a], accts[b] = accts[b], accts[a] })
			id := nextID
			if curID != 0 && r.Rng.Intn(2) == 0 {
				id = curID // re-proposal with the same ID
			} else {
				nextID++
			}
			variant := "honest"
			switch y := r.Rng.Intn(20); {
			case y < 1:
				variant = "badver"
			case y < 2:
				variant = "badheight"
			case y < 4:
				variant = "badbal"
			case y < 5:
				variant = "nochan"
			case y < 7:
				variant = fmt.Sprintf("noinput:%d", accts[r.Rng.Intn(len(accts))])
			case y < 9:
				variant = "nosnap"
			}
			node := 1 + r.Rng.Intn(3)
			if r.Rng.Intn(3) > 0 {
				node = 1 // node 1 is acceptable to every order
			}
			up := 0
			if r.Rng.Intn(3) == 0 {
				up = accts[r.Rng.Intn(len(accts))]
			}
			ext := 0
			if r.Rng.Intn(3) == 0 {
				ext = accts[r.Rng.Intn(len(accts))]
				if up != 0 && r.Rng.Intn(2) == 0 {
					ext = up // upgrade and expiry change on the same account
				}
			}
			extd := 1000
			if r.Rng.Intn(3) == 0 {
				extd = -100 // a NewExpiry below the stored expiry is accepted by the verifier as well
			}
			c.Cmds = append(c.Cmds, fmt.Sprintf("prop id=%d accts=%s node=%d var=%s up=%d ext=%d extd=%d extra=%d",
				id, c05JoinInts(accts), node, variant, up, ext, extd, r.Rng.Intn(1000)))
			if variant == "honest" || strings.HasPrefix(variant, "noinput") || variant == "nosnap" {
				curID = id
				curAccts = accts
			}
		case x < 80:
			sf, af, st := "-", "-", "none"
			switch y := r.Rng.Intn(20); {
			case y < 3:
				sf = strconv.Itoa(r.Rng.Intn(5))
			case y < 5:
				af = strconv.Itoa(r.Rng.Intn(6))
			case y < 7:
				st = "pre"
			case y < 9:
				st = "inside"
			}
			drop, prev := 0, "full"
			if r.Rng.Intn(12) == 0 {
				drop = 1 + r.Rng.Intn(n)
			}
			switch r.Rng.Intn(16) {
			case 0:
				prev = "short"
			case 1:
				prev = "empty"
			}
			if r.Rng.Intn(4) == 0 {
				// through the real handleServerMessage
				parse, ch, send := 1, 1, 1
				switch r.Rng.Intn(10) {
				case 0:
					parse = 0
				case 1:
					ch = 0
				case 2:
					send = 0
				}
				c.Cmds = append(c.Cmds, fmt.Sprintf("hsign parse=%d chan=%d send=%d sf=%s af=%s st=%s dropnonce=%d prev=%s",
					parse, ch, send, sf, af, st, drop, prev))
				continue
			}
			c.Cmds = append(c.Cmds, fmt.Sprintf("sign sf=%s af=%s st=%s dropnonce=%d prev=%s reopen=%d",
				sf, af, st, drop, prev, r.Rng.Intn(4)/3))
		case x < 95:
			id := curID
			if r.Rng.Intn(5) == 0 {
				id = 1 + r.Rng.Intn(nextID)
			}
			mf := 0
			if r.Rng.Intn(10) == 0 {
				mf = 1
			}
			c.Cmds = append(c.Cmds, fmt.Sprintf("fin id=%d mf=%d", id, mf))
			if r.Rng.Intn(3) == 0 {
				// a sign request right after a finalisation
				c.Cmds = append(c.Cmds, "sign sf=- af=- st=none dropnonce=0 prev=full reopen=0")
			}
			if id == curID && mf == 0 {
				curID = 0
				if c.Small != 0 {
					for _, k := range curAccts {
						if k == c.Small {
							closed[k] = true
						}
					}
				}
			}
		default:
			if r.Rng.Intn(2) == 0 {
				c.Cmds = append(c.Cmds, "unstage")
			} else {
				// an account-modifying RPC between two messages,
				// preferably of an account of the pending proposal
				k := 1 + r.Rng.Intn(n)
				if len(curAccts) > 0 && r.Rng.Intn(4) > 0 {
					k = curAccts[r.Rng.Intn(len(curAccts))]
				}
				c.Cmds = append(c.Cmds, fmt.Sprintf("modacct k=%d", k))
				if r.Rng.Intn(2) == 0 {
					c.Cmds = append(c.Cmds, "sign sf=- af=- st=none dropnonce=0 prev=full reopen=0")
				}
			}
		}
	}
	return c
}

func c05JoinInts(a []int) string {
	var s []string
	for _, x := range a {
		s = append(s, strconv.Itoa(x))
	}
	return strings.Join(s, ",")
}

func runC05(r *Run) {
	r.Rule = "histories (2..12 cmds) over 1-3 accounts of mixed versions (p2wsh / taproot v0.4 / v1.0rc2) of: " +
		"proposal {honest | account input missing | bad version/height/balance/channel output | unsupported fee schedule}, " +
		"fresh or re-proposed with the same batch ID, optional account upgrade; sign with signer fault at call k, " +
		"account-store fault at call k, store fault before/inside the bbolt transaction, missing server nonce, " +
		"short/empty prevouts; finalize (same/other ID, store fault); unstage; account moved to a new outpoint by an RPC between messages. " +
		"non-trivial = distinct history with >=1 successful BatchSign whose batch is found staged at return"
	runCase := func(c *c05Case) {
		if len(c.Versions) == 0 || len(c.Versions) > 3 {
			return
		}
		w, err := newC05World(r, c)
		if err != nil {
			r.Notes = append(r.Notes, "world: "+err.Error())
			if w != nil {
				w.close()
			}
			return
		}
		defer w.close()
		w.exec(c)
	}
	for _, raw := range r.FixedCases() {
		var wrap struct {
			Case *c05Case `json:"case"`
		}
		var c c05Case
		if json.Unmarshal(raw, &wrap) == nil && wrap.Case != nil {
			c = *wrap.Case
		} else if json.Unmarshal(raw, &c) != nil {
			continue
		}
		r.Count("case/fixed")
		runCase(&c)
	}
	if r.ReplayFile != "" {
		return
	}
	for i := 0; i < r.N && len(r.Violations) < 20; i++ {
		runCase(c05Gen(r))
	}
}
