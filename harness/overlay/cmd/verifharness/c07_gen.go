//go:build verif

package main

import (
	"encoding/hex"
	"math"

	"github.com/btcsuite/btcd/chaincfg/chainhash"
	"github.com/btcsuite/btcd/mempool"
	"github.com/btcsuite/btcd/wire"
	"github.com/lightninglabs/pool/poolscript"
)

// c07Gen derives every random choice from r.Rng.
type c07Gen struct {
	r *Run
	e *c07Env
}

func (g *c07Gen) n(k int) int { return g.r.Rng.Intn(k) }
func (g *c07Gen) i64(lo, hi int64) int64 {
	if hi <= lo {
		return lo
	}
	return lo + g.r.Rng.Int63n(hi-lo+1)
}

func (g *c07Gen) bytes(k int) []byte {
	b := make([]byte, k)
	g.r.Rng.Read(b)
	return b
}

func (g *c07Gen) hash() string {
	var h chainhash.Hash
	copy(h[:], g.bytes(32))
	h[0] |= 1
	return h.String()
}

// script kinds: 0 p2wkh 1 p2sh 2 p2wsh 3 p2tr 4 p2pkh 5 nulldata 6 non-standard
func (g *c07Gen) script(kind int) []byte {
	switch kind {
	case 0:
		return append([]byte{0x00, 0x14}, g.bytes(20)...)
	case 1:
		return append(append([]byte{0xa9, 0x14}, g.bytes(20)...), 0x87)
	case 2:
		return append([]byte{0x00, 0x20}, g.bytes(32)...)
	case 3:
		return append([]byte{0x51, 0x20}, g.bytes(32)...)
	case 4:
		return append(append([]byte{0x76, 0xa9, 0x14}, g.bytes(20)...), 0x88, 0xac)
	case 5:
		switch g.n(5) {
		case 0:
			return []byte{0x6a}
		case 1:
			k := g.n(76)
			return append([]byte{0x6a, byte(k)}, g.bytes(k)...)
		case 2:
			k := 70 + g.n(20) // around MaxDataCarrierSize
			return append([]byte{0x6a, 0x4c, byte(k)}, g.bytes(k)...)
		case 3:
			return []byte{0x6a, byte(0x51 + g.n(16))}
		default:
			return []byte{0x6a, 0x01, 0x02, 0x51} // two ops: not nulldata
		}
	default:
		switch g.n(7) {
		case 0:
			return []byte{0x51}
		case 1:
			return append([]byte{0x52, 0x02}, g.bytes(2)...) // unknown witness program
		case 2:
			return append([]byte{0x60, 0x28}, g.bytes(40)...)
		case 3:
			return []byte{0x05, 0x01, 0x02} // malformed push
		case 4:
			return append([]byte{0x00, 0x14}, g.bytes(19)...) // short p2wkh
		case 5:
			return append([]byte{0x21}, append(g.bytes(33), 0xac)...) // p2pk
		default:
			return g.bytes(1 + g.n(40))
		}
	}
}

func (g *c07Gen) scriptKind() int {
	if g.r.Search && g.n(4) == 0 {
		return 4
	}
	switch x := g.n(100); {
	case x < 22:
		return 0
	case x < 44:
		return 1
	case x < 66:
		return 2
	case x < 86:
		return 3
	case x < 91:
		return 4
	case x < 94:
		return 5
	default:
		return 6
	}
}

func (g *c07Gen) outValue(sc []byte, avail int64) int64 {
	t := mempool.GetDustThreshold(&wire.TxOut{PkScript: sc})
	switch x := g.n(100); {
	case x < 58:
		return g.i64(1000, max64(avail, 2000))
	case x < 64:
		return t - 1
	case x < 70:
		return t
	case x < 74:
		return t + 1
	case x < 78:
		return g.i64(0, 1000)
	case x < 85:
		return avail + g.i64(0, 200000) // over-spend
	case x < 88:
		return -g.i64(1, 100000)
	case x < 90:
		return 0
	case x < 92:
		return 2100000000000000 + g.i64(-1, 1)
	default:
		return g.i64(500, 20000)
	}
}

func max64(a, b int64) int64 {
	if a > b {
		return a
	}
	return b
}

func (g *c07Gen) outs(nmax int, value int64) []c07Out {
	n := 0
	switch x := g.n(100); {
	case x < 12:
		n = 0
	case x < 45:
		n = 1
	case x < 70:
		n = 2
	default:
		n = 3 + g.n(nmax-2)
	}
	var res []c07Out
	for i := 0; i < n; i++ {
		sc := g.script(g.scriptKind())
		res = append(res, c07Out{V: g.outValue(sc, (value-100000)/int64(n+1)), S: hex.EncodeToString(sc)})
	}
	return res
}

func (g *c07Gen) rate() int64 {
	switch x := g.n(100); {
	case x < 20:
		return 253
	case x < 50:
		return g.i64(253, 2000)
	case x < 70:
		return g.i64(2000, 100000)
	case x < 80:
		return g.i64(0, 252)
	case x < 90:
		return g.i64(100000, 1000000)
	case x < 95:
		return 250
	case x < 98:
		return 1000000000
	default:
		return -g.i64(1, 5000)
	}
}

func (g *c07Gen) best() uint32 {
	if g.r.Search && g.n(2) == 0 {
		return uint32(math.MaxUint32 - g.i64(0, 60000))
	}
	switch x := g.n(100); {
	case x < 70:
		return uint32(g.i64(1000, 900000))
	case x < 80:
		return uint32(g.i64(0, 200))
	case x < 92:
		return uint32(math.MaxUint32 - g.i64(0, 60000))
	default:
		return g.r.Rng.Uint32()
	}
}

func clamp32(x int64) uint32 {
	if x < 0 {
		return 0
	}
	if x > math.MaxUint32 {
		return math.MaxUint32
	}
	return uint32(x)
}

func (g *c07Gen) acct(best uint32) c07Acct {
	a := c07Acct{Ctr: g.n(4), OpHash: g.hash(), OpIdx: uint32(g.n(3)), Version: uint8(g.n(3))}
	switch x := g.n(100); {
	case x < 50:
		a.Value = g.i64(100000, 10000000)
	case x < 70:
		a.Value = g.i64(100000, 112000)
	case x < 90:
		a.Value = g.i64(10000000, 1000000000)
	default:
		a.Value = g.i64(100000, 400000)
	}
	switch x := g.n(100); {
	case x < 84:
		a.State = 3
	case x < 91:
		a.State = 4
	default:
		a.State = uint8(g.n(10))
	}
	if x := g.n(100); x < 14 {
		// the boundary between the cooperative and the expiry path
		a.Expiry = clamp32(int64(best) + g.i64(-1, 2))
	} else if x < 80 {
		a.Expiry = clamp32(int64(best) + g.i64(1, 5000))
	} else {
		a.Expiry = clamp32(int64(best) - g.i64(0, 2000))
	}
	return a
}

func (g *c07Gen) expH(best uint32, allowZero bool) uint32 {
	b := int64(best)
	switch x := g.n(100); {
	case x < 40 && allowZero:
		return 0
	case x < 65:
		return clamp32(b + g.i64(144, 52560))
	case x < 70:
		return clamp32(b + 143)
	case x < 75:
		return clamp32(b + 144)
	case x < 80:
		return clamp32(b + 52560)
	case x < 85:
		return clamp32(b + 52561)
	case x < 93:
		return uint32(g.i64(0, 60000)) // the wrap corner when best is near 2^32
	default:
		return g.r.Rng.Uint32()
	}
}

func (g *c07Gen) newVer(v uint8) uint8 {
	switch x := g.n(100); {
	case x < 50:
		return v
	case x < 78:
		return uint8(g.i64(int64(v), 2))
	case x < 88:
		if v > 0 {
			return v - 1
		}
		return 0
	case x < 96:
		return 3
	default:
		return 255
	}
}

func (g *c07Gen) faults() string {
	if g.n(100) < 88 {
		return "000"
	}
	return []string{"100", "010", "001", "110"}[g.n(4)]
}

// witness estimates the account input's witness for directed generation
// (same table the oracle uses).
func c07Witness(a c07Acct, best uint32) int64 {
	taproot := a.Version == 1 || a.Version == 2
	expired := a.State == 4 || best >= a.Expiry
	switch {
	case taproot && expired:
		return poolscript.TaprootExpiryWitnessSize
	case taproot:
		return poolscript.TaprootMultiSigWitnessSize
	case expired:
		return poolscript.ExpiryWitnessSize
	}
	return poolscript.MultiSigWitnessSize
}

func c07Weight(outs []c07Out, nIn int, witness int64) int64 {
	sz := int64(8 + 1 + 41*nIn + 1)
	for _, o := range outs {
		sz += int64(9 + len(o.S)/2)
	}
	return sz*4 + 2 + witness
}

func (g *c07Gen) genOp() *c07Case {
	best := g.best()
	cs := &c07Case{Best: best, Acct: g.acct(best), Rate: g.rate(), Faults: g.faults(), Max: 1000000000}
	cs.NewVer = g.newVer(cs.Acct.Version)
	switch x := g.n(100); {
	case x < 34:
		cs.Kind = "withdraw"
		cs.ExpH = g.expH(best, true)
		cs.Outs = g.outs(5, cs.Acct.Value)
		if g.n(100) < 4 && len(cs.Outs) > 0 && cs.Acct.Ctr < 8 {
			// a requested output that reuses the NEXT account script
			// (same keys, batch key + 1, new expiry / version)
			v, x := cs.Acct.Version, cs.Acct.Expiry
			if cs.NewVer > v {
				v = cs.NewVer
			}
			if cs.ExpH != 0 {
				x = cs.ExpH
			}
			i := g.n(len(cs.Outs))
			cs.Outs[i].S = hex.EncodeToString(g.e.script(v, x, cs.Acct.Ctr+1))
			if g.n(2) == 0 {
				cs.Outs[i].V = g.i64(1000, 90000)
			}
			g.r.Count("withdraw/twin-script")
		}
	case x < 49:
		cs.Kind = "renew"
		cs.ExpH = g.expH(best, false)
	case x < 80:
		cs.Kind = "close"
		if g.n(100) < 40 {
			cs.Acct.State = []uint8{3, 3, 4, 2, 8, 9, 1}[g.n(7)]
		}
		w := c07Witness(cs.Acct, best)
		if g.n(100) < 55 {
			cs.FeKind = "owf"
			var sc []byte
			switch y := g.n(100); {
			case y < 22:
				cs.FeScript = "nil"
				sc = g.e.wkhScript
			default:
				sc = g.script(g.scriptKind())
				cs.FeScript = hex.EncodeToString(sc)
			}
			if g.n(100) < 30 {
				// directed: output value around the dust limit
				t := mempool.GetDustThreshold(&wire.TxOut{PkScript: sc})
				wgt := c07Weight([]c07Out{{S: hex.EncodeToString(sc)}}, 1, w)
				cs.Rate = (cs.Acct.Value-t)*1000/wgt + g.i64(-2, 2)
			}
		} else {
			cs.FeKind = "imp"
			n := 1 + g.n(4)
			for i := 0; i < n; i++ {
				sc := g.script(g.scriptKind())
				cs.Outs = append(cs.Outs, c07Out{V: g.outValue(sc, cs.Acct.Value/int64(n+1)), S: hex.EncodeToString(sc)})
			}
			// make the last output absorb the rest, leaving a chosen fee
			wgt := c07Weight(cs.Outs, 1, w)
			floor := 253 * wgt / 1000
			var fee int64
			switch y := g.n(100); {
			case y < 20:
				fee = floor
			case y < 35:
				fee = floor - 1
			case y < 45:
				fee = floor + 1
			case y < 75:
				fee = g.i64(floor, floor*50)
			case y < 82:
				fee = 0
			case y < 88:
				fee = -g.i64(1, 1000)
			default:
				fee = -1 // keep the random values
			}
			if fee != -1 || g.n(2) == 0 {
				var sum int64
				for _, o := range cs.Outs[:n-1] {
					sum += o.V
				}
				cs.Outs[n-1].V = cs.Acct.Value - sum - fee
			}
		}
	default:
		cs.Kind = "deposit"
		cs.ExpH = g.expH(best, true)
		switch y := g.n(100); {
		case y < 78:
			cs.Amount = g.i64(1000, 5000000)
		case y < 83:
			cs.Amount = 0
		case y < 88:
			cs.Amount = -g.i64(1, 50000)
		default:
			cs.Amount = cs.Max - cs.Acct.Value + g.i64(-1, 2)
		}
		if g.n(100) < 10 {
			cs.Max = cs.Acct.Value + cs.Amount + g.i64(-2, 2)
		}
		cs.TermsFail = g.n(100) < 3
		cs.FundFail = g.n(100) < 3
		nIn := 1 + g.n(3)
		need := cs.Amount + 2000000
		if need < 0 {
			need = 1000
		}
		for i := 0; i < nIn; i++ {
			in := c07In{Hash: g.hash(), Idx: uint32(g.n(4))}
			switch y := g.n(100); {
			case y < 55:
				in.S = hex.EncodeToString(g.script(0))
			case y < 75:
				in.S = hex.EncodeToString(g.script(1))
				in.Redeem = 22
			case y < 94:
				in.S = hex.EncodeToString(g.script(3))
			case y < 97:
				in.S = hex.EncodeToString(g.script(2))
			default:
				in.S = hex.EncodeToString(g.script(4))
			}
			in.V = g.i64(need/int64(nIn)/2, need/int64(nIn)*2)
			cs.FundIns = append(cs.FundIns, in)
		}
		if g.n(100) < 3 {
			cs.FundIns[0].Hash, cs.FundIns[0].Idx = cs.Acct.OpHash, cs.Acct.OpIdx
		}
		vsize := int64(11 + 43 + 31 + 68*nIn)
		switch y := g.n(100); {
		case y < 60:
			cs.LndFee = cs.Rate * 4 / 1000 * vsize
			if cs.LndFee < 0 {
				cs.LndFee = 0
			}
		case y < 75:
			cs.LndFee = 253 * 4 * vsize / 1000
		case y < 85:
			cs.LndFee = 0
		default:
			cs.LndFee = g.i64(0, 20000)
		}
		cs.NoChange = g.n(100) < 8
		cs.ChangeAt = g.n(2)
		cs.ChangeS = hex.EncodeToString(g.script([]int{0, 3}[g.n(2)]))
		if y := g.n(100); y < 4 {
			cs.FundBad = "script"
		} else if y < 8 {
			cs.FundBad = "value"
		} else if y < 11 {
			cs.FundBad = "extra"
		} else if y < 13 {
			cs.FundBad = "changeidx"
		}
		if g.n(100) < 8 {
			cs.HasChV = true
			cs.ChangeV = []int64{293, 294, 329, 330, 1, 0}[g.n(6)]
		}
	}
	return cs
}

func (g *c07Gen) genPure() *c07Case {
	cs := &c07Case{}
	switch x := g.n(100); {
	case x < 30:
		cs.Kind = "vau"
		cs.Acct.Value = g.acct(0).Value
		cs.Wt = uint8(g.n(4))
		if g.n(50) == 0 {
			cs.Wt = uint8(4 + g.n(3))
		}
		cs.Rate = g.rate()
		cs.Outs = g.outs(5, cs.Acct.Value)
		if g.n(100) < 25 && len(cs.Outs) > 0 {
			// directed: the remainder around MinAccountValue
			all := append([]c07Out{{S: "0020" + hex.EncodeToString(make([]byte, 32))}}, cs.Outs...)
			ws := []int64{poolscript.ExpiryWitnessSize, poolscript.MultiSigWitnessSize,
				poolscript.TaprootExpiryWitnessSize, poolscript.TaprootMultiSigWitnessSize, 0, 0, 0}[cs.Wt]
			fee := cs.Rate * c07Weight(all, 1, ws) / 1000
			var sum int64
			for _, o := range cs.Outs[1:] {
				sum += o.V
			}
			cs.Outs[0].V = cs.Acct.Value - sum - fee - 100000 + g.i64(-1, 1)
		}
	case x < 50:
		cs.Kind = "closeout"
		cs.Acct.Value = g.acct(0).Value
		cs.Wt = uint8(g.n(4))
		if g.n(50) == 0 {
			cs.Wt = uint8(4 + g.n(3))
		}
		cs.Rate = g.rate()
		sc := g.script(g.scriptKind())
		cs.FeScript = hex.EncodeToString(sc)
		if g.n(100) < 45 {
			t := mempool.GetDustThreshold(&wire.TxOut{PkScript: sc})
			ws := []int64{poolscript.ExpiryWitnessSize, poolscript.MultiSigWitnessSize,
				poolscript.TaprootExpiryWitnessSize, poolscript.TaprootMultiSigWitnessSize, 0, 0, 0}[cs.Wt]
			wgt := c07Weight([]c07Out{{S: cs.FeScript}}, 1, ws)
			cs.Rate = (cs.Acct.Value-t)*1000/wgt + g.i64(-2, 2)
		}
	case x < 62:
		cs.Kind = "expiry"
		cs.Best = g.best()
		cs.ExpH = g.expH(cs.Best, true)
	case x < 66:
		cs.Kind = "value"
		cs.Max = []int64{1000000000, 100000, 99999, 500000}[g.n(4)]
		switch g.n(4) {
		case 0:
			cs.Acct.Value = 100000 + g.i64(-2, 2)
		case 1:
			cs.Acct.Value = cs.Max + g.i64(-2, 2)
		default:
			cs.Acct.Value = g.i64(-1000, 2000000000)
		}
	case x < 78:
		cs.Kind = "dust"
		sc := g.script(g.scriptKind())
		if g.n(4) == 0 {
			sc = g.script(5 + g.n(2))
		}
		t := mempool.GetDustThreshold(&wire.TxOut{PkScript: sc})
		cs.Outs = []c07Out{{V: t + g.i64(-2, 2), S: hex.EncodeToString(sc)}}
		if g.n(5) == 0 {
			cs.Outs[0].V = g.i64(0, 100000)
		}
	default:
		cs.Kind = "sanity"
		best := g.best()
		cs.Acct = g.acct(best)
		cs.Wt = uint8(g.n(4))
		if g.n(60) == 0 {
			cs.Wt = 4
		}
		cs.Lock = best
		ws := []int64{poolscript.ExpiryWitnessSize, poolscript.MultiSigWitnessSize,
			poolscript.TaprootExpiryWitnessSize, poolscript.TaprootMultiSigWitnessSize, 0}[cs.Wt]
		inSum := int64(0)
		if g.n(100) < 92 {
			cs.Ins = append(cs.Ins, c07In{Hash: cs.Acct.OpHash, Idx: cs.Acct.OpIdx, V: 1, S: ""})
			inSum += cs.Acct.Value
		} else {
			ws = 0
		}
		extra := int64(0)
		for i, n := 0, []int{0, 0, 0, 1, 2, 3}[g.n(6)]; i < n; i++ {
			in := c07In{Hash: g.hash(), Idx: uint32(g.n(3)), V: g.i64(1000, 3000000)}
			switch y := g.n(100); {
			case y < 45:
				in.S = hex.EncodeToString(g.script(0))
				ws += 109
			case y < 70:
				in.S = hex.EncodeToString(g.script(1))
				in.Redeem = []int{22, 22, 22, 34, 80, 300}[g.n(6)]
				ws += 109
				extra += int64(in.Redeem + 1)
				if in.Redeem >= 76 {
					extra++
				}
				if in.Redeem >= 256 {
					extra++
				}
				if in.Redeem+3 >= 253 {
					extra += 2
				}
			case y < 92:
				in.S = hex.EncodeToString(g.script(3))
				ws += 66
			default:
				in.S = hex.EncodeToString(g.script([]int{2, 4, 6}[g.n(3)]))
			}
			inSum += in.V
			cs.Ins = append(cs.Ins, in)
		}
		if g.n(100) < 4 && len(cs.Ins) > 0 {
			cs.Ins = append(cs.Ins, cs.Ins[g.n(len(cs.Ins))])
		}
		g.r.Rng.Shuffle(len(cs.Ins), func(i, j int) { cs.Ins[i], cs.Ins[j] = cs.Ins[j], cs.Ins[i] })
		n := []int{0, 1, 1, 2, 2, 3, 4}[g.n(7)]
		for i := 0; i < n; i++ {
			sc := g.script(g.scriptKind())
			cs.Outs = append(cs.Outs, c07Out{V: g.outValue(sc, inSum/int64(n+1)), S: hex.EncodeToString(sc)})
		}
		if n > 0 && g.n(100) < 70 {
			wgt := c07Weight(cs.Outs, len(cs.Ins), ws) + 4*extra
			floor := 253 * wgt / 1000
			var sum int64
			for _, o := range cs.Outs[:n-1] {
				sum += o.V
			}
			cs.Outs[n-1].V = inSum - sum - floor + []int64{0, 0, 1, -1, -1000, 2}[g.n(6)]
		}
	}
	return cs
}

// genHistory: 2-4 steps on one manager.  The auctioneer's maximum account value
// changes between the steps; most histories end with a deposit whose resulting
// value lies around the maximum in force (just above a lowered one, exactly at
// it, or below a raised one).
func (g *c07Gen) genHistory() *c07Case {
	h := &c07Case{Kind: "history"}
	n := 1 + g.n(3)
	for i := 0; i < n; i++ {
		var st *c07Case
		switch x := g.n(100); {
		case x < 35:
			st = &c07Case{Kind: "quote", Max: []int64{1000000000, 500000000, 2000000}[g.n(3)]}
			st.Acct.Value = g.i64(50000, 3000000)
			if g.n(3) == 0 {
				st.Acct.Value = st.Max + g.i64(-1, 1)
			}
		case x < 80:
			st = g.genOp()
			for st.Kind != "deposit" {
				st = g.genOp()
			}
			st.Acct.State, st.NewVer, st.ExpH, st.Faults = 3, st.Acct.Version, 0, "000"
			st.TermsFail = false
		default:
			st = g.genOp()
		}
		h.Steps = append(h.Steps, *st)
	}
	// the last step: a well-formed deposit around the maximum now in force
	d := g.genOp()
	for d.Kind != "deposit" {
		d = g.genOp()
	}
	d.Acct.State, d.NewVer, d.ExpH, d.Faults = 3, d.Acct.Version, 0, "000"
	d.TermsFail, d.FundFail, d.FundBad, d.HasChV, d.NoChange = false, false, "", false, false
	if d.Acct.Expiry <= d.Best {
		d.Acct.Expiry = clamp32(int64(d.Best) + 1000)
	}
	d.Amount = g.i64(1000, 3000000)
	nv := d.Acct.Value + d.Amount
	switch x := g.n(100); {
	case x < 45:
		d.Max = nv - g.i64(1, 2000) // lowered below the resulting value: must be refused
	case x < 60:
		d.Max = nv // exactly the maximum
	case x < 80:
		d.Max = nv + g.i64(1, 100000)
	default:
		d.Max = 1000000000
	}
	if len(d.FundIns) > 0 {
		d.FundIns = d.FundIns[:1]
		d.FundIns[0].V = d.Amount + 3000000
		d.FundIns[0].Hash = g.hash()
		if d.FundIns[0].Redeem == 0 && len(d.FundIns[0].S) != 44 && len(d.FundIns[0].S) != 68 {
			d.FundIns[0].S = hex.EncodeToString(g.script(0))
		}
	}
	h.Steps = append(h.Steps, *d)
	return h
}
