//go:build verif

package main

import (
	"bytes"
	"fmt"
	"net"
	"sort"
	"strings"

	"github.com/btcsuite/btcd/btcutil"
	"github.com/lightninglabs/pool/account"
	"github.com/lightninglabs/pool/clientdb"
	"github.com/lightninglabs/pool/order"
	"github.com/lightninglabs/pool/terms"
	"github.com/lightningnetwork/lnd/lnwallet/chainfee"
	"github.com/lightningnetwork/lnd/lnwire"
	"github.com/lightningnetwork/lnd/tor"
)

type c10Addr struct {
	Kind string `json:"kind"` // t4 | t6 | o2 | o3
	Host string `json:"host"`
	Port int    `json:"port"`
}

type c10Match struct {
	OurNonce    string    `json:"our_nonce"`
	Order       *c10Order `json:"order"`
	MultiSigKey string    `json:"multisig_key"`
	NodeKey     string    `json:"node_key"`
	Addrs       []c10Addr `json:"addrs"`
	UnitsFilled uint64    `json:"units_filled"`
}

type c10SnapAcct struct {
	Key  string   `json:"key"`
	Acct *c10Acct `json:"acct"`
}

type c10Snap struct {
	Version   uint32        `json:"version"`
	BatchID   string        `json:"batch_id"`
	Prices    [][2]uint32   `json:"prices"`
	FeeBase   int64         `json:"fee_base"`
	FeeRate   int64         `json:"fee_rate"`
	Tx        *c10Tx        `json:"tx"`
	TxFeeRate int64         `json:"tx_fee_rate"`
	Accounts  []c10SnapAcct `json:"accounts"`
	Orders    []*c10Order   `json:"orders"`
	Matched   []c10Match    `json:"matched"`
}

func (a c10Addr) build() net.Addr {
	switch a.Kind {
	case "t4", "t6":
		return &net.TCPAddr{IP: net.IP(unhexOr(a.Host)), Port: a.Port}
	default:
		return &tor.OnionAddr{
			OnionService: tor.Base32Encoding.EncodeToString(unhexOr(a.Host)) + tor.OnionSuffix,
			Port:         a.Port,
		}
	}
}

func (s *c10Snap) build() *clientdb.LocalBatchSnapshot {
	res := &clientdb.LocalBatchSnapshot{
		Version:        order.BatchVersion(s.Version),
		ClearingPrices: map[uint32]order.FixedRatePremium{},
		ExecutionFee:   *terms.NewLinearFeeSchedule(btcutil.Amount(s.FeeBase), btcutil.Amount(s.FeeRate)),
		BatchTX:        s.Tx.build(),
		BatchTxFeeRate: chainfee.SatPerKWeight(s.TxFeeRate),
		Accounts:       map[[33]byte]*account.Account{},
		Orders:         map[order.Nonce]order.Order{},
		MatchedOrders:  map[order.Nonce][]*order.MatchedOrder{},
	}
	copy(res.BatchID[:], unhexOr(s.BatchID))
	for _, p := range s.Prices {
		res.ClearingPrices[p[0]] = order.FixedRatePremium(p[1])
	}
	for _, a := range s.Accounts {
		res.Accounts[arr33(a.Key)] = a.Acct.build()
	}
	for _, o := range s.Orders {
		res.Orders[order.Nonce(arr32(o.Nonce))] = o.build()
	}
	for _, m := range s.Matched {
		mo := &order.MatchedOrder{
			Order: m.Order.build(), MultiSigKey: arr33(m.MultiSigKey), NodeKey: arr33(m.NodeKey),
			UnitsFilled: order.SupplyUnit(m.UnitsFilled),
		}
		for _, a := range m.Addrs {
			mo.NodeAddrs = append(mo.NodeAddrs, a.build())
		}
		n := order.Nonce(arr32(m.OurNonce))
		res.MatchedOrders[n] = append(res.MatchedOrders[n], mo)
	}
	return res
}

// baseProj is the property's "only the base fields" for an order kept inside
// a snapshot: everything that is stored outside the `order` key is dropped.
func (o *c10Order) baseProj() *c10Order {
	p := *o
	p.MinUnitsMatch, p.ChannelType, p.Allowed, p.NotAllowed = 0, 0, nil, nil
	p.IsPublic, p.AuctionType, p.Announcement, p.Confirmation = false, 0, 0, 0
	p.MinNodeTier, p.SelfChanBalance, p.Ticket, p.Unannounced, p.ZeroConf = 0, 0, nil, false, false
	return &p
}

// expected builds the snapshot value the property promises on read-back:
// other traders' (matched) orders reduced to base fields; own orders reduced
// too when `ownBase` (the blob alone), complete otherwise.
func (s *c10Snap) expected(ownBase bool) *c10Snap {
	e := *s
	e.Orders = nil
	for _, o := range s.Orders {
		if ownBase {
			e.Orders = append(e.Orders, o.baseProj())
		} else {
			e.Orders = append(e.Orders, o)
		}
	}
	e.Matched = nil
	for _, m := range s.Matched {
		m2 := m
		m2.Order = m.Order.baseProj()
		e.Matched = append(e.Matched, m2)
	}
	return &e
}

func renderAddr(a net.Addr) string {
	switch t := a.(type) {
	case *net.TCPAddr:
		if ip4 := t.IP.To4(); ip4 != nil {
			return fmt.Sprintf("t4:%s:%d", hx(ip4), t.Port)
		}
		return fmt.Sprintf("t6:%s:%d", hx(t.IP.To16()), t.Port)
	case *tor.OnionAddr:
		host, err := tor.Base32Encoding.DecodeString(strings.TrimSuffix(t.OnionService, tor.OnionSuffix))
		if err != nil {
			return "o?:" + t.OnionService
		}
		if len(host) == tor.V2DecodedLen {
			return fmt.Sprintf("o2:%s:%d", hx(host), t.Port)
		}
		return fmt.Sprintf("o3:%s:%d", hx(host), t.Port)
	case *lnwire.OpaqueAddrs:
		return "op:" + hx(t.Payload)
	}
	return "??"
}

func renderAddrs(as []net.Addr) string {
	if len(as) == 0 {
		return "."
	}
	var s []string
	for _, a := range as {
		s = append(s, renderAddr(a))
	}
	return strings.Join(s, ";")
}

type kv struct{ k, v string }

func renderSorted(l []kv) string {
	if len(l) == 0 {
		return "."
	}
	sort.SliceStable(l, func(i, j int) bool { return l[i].k < l[j].k })
	var s []string
	for _, e := range l {
		s = append(s, e.v)
	}
	return strings.Join(s, "|")
}

func renderSnapshot(s *clientdb.LocalBatchSnapshot) string {
	var prices, accts, orders, matched []kv
	for d, p := range s.ClearingPrices {
		prices = append(prices, kv{fmt.Sprintf("%012d", d), fmt.Sprintf("%d:%d", d, uint32(p))})
	}
	for k, a := range s.Accounts {
		k := k
		accts = append(accts, kv{hx(k[:]), "{" + hx(k[:]) + " " + renderAcct(a) + "}"})
	}
	for n, o := range s.Orders {
		n := n
		orders = append(orders, kv{hx(n[:]), "{" + hx(n[:]) + " " + renderOrder(o) + "}"})
	}
	// in-group order matters, groups sorted by nonce
	var nonces []string
	byNonce := map[string][]*order.MatchedOrder{}
	for n, ms := range s.MatchedOrders {
		n := n
		nonces = append(nonces, hx(n[:]))
		byNonce[hx(n[:])] = ms
	}
	sort.Strings(nonces)
	for _, n := range nonces {
		for _, m := range byNonce[n] {
			matched = append(matched, kv{n, fmt.Sprintf("{%s %s msk=%s nk=%s addrs=%s uf=%d}", n,
				renderOrder(m.Order), hx(m.MultiSigKey[:]), hx(m.NodeKey[:]), renderAddrs(m.NodeAddrs),
				uint64(m.UnitsFilled))})
		}
	}
	return fmt.Sprintf("snap ver=%d id=%s fee=%d/%d txfee=%d tx=%s prices=%s accts=%s orders=%s matched=%s",
		uint32(s.Version), hx(s.BatchID[:]), uint64(s.ExecutionFee.BaseFee()), uint64(s.ExecutionFee.FeeRate()),
		uint64(s.BatchTxFeeRate), renderTx(s.BatchTX), renderSorted(prices), renderSorted(accts),
		renderSorted(orders), renderSorted(matched))
}

// ---------------------------------------------------------------- generators

func (g *c10Gen) addr() c10Addr {
	port := g.rng.Intn(65536)
	switch g.rng.Intn(4) {
	case 0:
		return c10Addr{"t4", g.hexN(4), port}
	case 1:
		b := g.bytes(16)
		if b[10] == 0xff && b[11] == 0xff {
			b[0] = 0x20 // keep it a genuine IPv6 address
		}
		if g.rng.Intn(2) == 0 {
			b[0] = 0x20
		}
		return c10Addr{"t6", fmt.Sprintf("%x", b), port}
	case 2:
		return c10Addr{"o2", g.hexN(10), port}
	default:
		return c10Addr{"o3", g.hexN(35), port}
	}
}

func (g *c10Gen) snap() *c10Snap {
	s := &c10Snap{
		Version: g.u32(), BatchID: g.key(), FeeBase: int64(g.u64()), FeeRate: int64(g.u64()),
		Tx: g.tx(), TxFeeRate: int64(g.u64()),
	}
	if g.rng.Intn(2) == 0 {
		s.Version = uint32(g.rng.Intn(12))
	}
	seenP := map[uint32]bool{}
	for i := 0; i < g.rng.Intn(4); i++ {
		d := []uint32{144, 2016, 4032, g.u32()}[g.rng.Intn(4)]
		if !seenP[d] {
			seenP[d] = true
			s.Prices = append(s.Prices, [2]uint32{d, g.u32()})
		}
	}
	seenK := map[string]bool{}
	for i := 0; i < g.rng.Intn(4); i++ {
		a := g.acct()
		k := a.TraderKey
		if g.rng.Intn(4) == 0 {
			k = g.hexN(33) // the map key is independent of the account's own key
		}
		if !seenK[k] {
			seenK[k] = true
			s.Accounts = append(s.Accounts, c10SnapAcct{k, a})
		}
	}
	for i := 0; i < g.rng.Intn(4); i++ {
		s.Orders = append(s.Orders, g.orderSpec(g.rng.Intn(2) == 0))
	}
	var ours []string
	for _, o := range s.Orders {
		ours = append(ours, o.Nonce)
	}
	ours = append(ours, g.hexN(32))
	for i := 0; i < g.rng.Intn(5); i++ {
		m := c10Match{
			OurNonce: ours[g.rng.Intn(len(ours))], Order: g.orderSpec(g.rng.Intn(2) == 0),
			MultiSigKey: g.hexN(33), NodeKey: g.hexN(33), UnitsFilled: g.u64(),
		}
		for j := 0; j < g.rng.Intn(4); j++ {
			m.Addrs = append(m.Addrs, g.addr())
		}
		s.Matched = append(s.Matched, m)
	}
	return s
}

// ---------------------------------------------------------------- real code

func goSerSnap(s *clientdb.LocalBatchSnapshot) (b []byte, err error, panicked bool) {
	defer func() {
		if x := recover(); x != nil {
			panicked = true
		}
	}()
	var buf bytes.Buffer
	err = clientdb.VerifC10SerializeLocalBatchSnapshot(&buf, s)
	return buf.Bytes(), err, false
}

func goDeSnap(raw []byte) (y *clientdb.LocalBatchSnapshot, rest int, err error, panicked bool) {
	defer func() {
		if x := recover(); x != nil {
			panicked = true
		}
	}()
	rd := bytes.NewReader(raw)
	y, err = clientdb.VerifC10DeserializeLocalBatchSnapshot(rd)
	rest = rd.Len()
	return
}

func (c *c10Run) countSnap(spec *c10Snap, tag string) {
	r := c.r
	r.Count("snap/" + tag)
	if len(spec.Accounts) > 0 {
		r.Count("snap/with-accounts")
	}
	for _, a := range spec.Accounts {
		if a.Acct.Version > 0 {
			r.Count("snap/versioned-account")
		}
	}
	if len(spec.Orders) > 0 {
		r.Count("snap/with-orders")
	}
	if len(spec.Matched) > 0 {
		r.Count("snap/with-matches")
	}
	for _, m := range spec.Matched {
		if len(m.Addrs) > 0 {
			r.Count("snap/with-addrs")
		}
	}
	if len(spec.Prices) > 0 {
		r.Count("snap/with-prices")
	}
}

// snapDirect: the snapshot blob alone.
func (c *c10Run) snapDirect(spec *c10Snap, tag string) {
	r := c.r
	b, err, p := goSerSnap(spec.build())
	r.Evaluations++
	if err != nil || p {
		r.Count("snap/unencodable")
		return
	}
	y, rest, err, p := goDeSnap(b)
	exp := "err"
	if p {
		exp = "panic"
	} else if err == nil {
		// the model re-encodes in stream order; for bytes produced by the
		// real serialiser this must reproduce them exactly
		exp = c10Expect(renderSnapshot(y), nil, false, rest, true)
	}
	r.Emit("C10 snap "+hx(b), exp)
	c.countSnap(spec, tag)
	r.Distinct(exp)
	r.Sample(map[string]interface{}{"kind": "snapshot", "bytes": len(b), "accounts": len(spec.Accounts),
		"orders": len(spec.Orders), "matches": len(spec.Matched)})
	want := renderSnapshot(spec.expected(true).build())
	if err != nil || p || renderSnapshot(y) != want {
		got := fmt.Sprint(err, p)
		if err == nil && !p {
			got = renderSnapshot(y)
		}
		r.Count("oracle/violation")
		r.Violate("snapshot does not read back equal (nested orders up to base fields): wrote "+want+" read "+got,
			"C10/snap-roundtrip", c10Case{Kind: "snap", Snap: spec})
	}
}

func (c *c10Run) snapMalformed() {
	r := c.r
	spec := c.g.snap()
	b, err, p := goSerSnap(spec.build())
	if err != nil || p {
		return
	}
	raw := c.mutate(b)
	y, _, err, p := goDeSnap(raw)
	exp := "err"
	if p {
		exp = "panic"
	} else if err == nil {
		exp = "ok " + renderSnapshot(y)
	}
	r.Emit("C10 snapm "+hx(raw), exp)
	r.Evaluations++
	r.Count("malformed/snap")
	if exp == "err" {
		r.Count("malformed/snap-rejected")
	}
}

// snapDB: own orders submitted, snapshot stored as pending, read, finalized,
// read by id and in the list, after close/reopen; accounts/orders already in
// the database must stay untouched.
func (c *c10Run) snapDB() {
	r := c.r
	c.nDB++
	path := fmt.Sprintf("%s/s%d", c.dir, c.nDB)
	db := c.openDB(path)
	defer func() { db.Close() }()

	// an unrelated account and order that must survive unchanged
	byA := c.g.acct()
	byO := c.g.orderSpec(r.Rng.Intn(2) == 0)
	if db.AddAccount(byA.build()) != nil || db.SubmitOrder(byO.build()) != nil {
		return
	}
	nSnaps := 1 + r.Rng.Intn(3)
	var specs []*c10Snap
	usedID := map[string]bool{}
	for i := 0; i < nSnaps; i++ {
		spec := c.g.snap()
		if usedID[spec.BatchID] {
			continue // batch ids are unique
		}
		usedID[spec.BatchID] = true
		ok := true
		for _, o := range spec.Orders {
			if err := db.SubmitOrder(o.build()); err != nil {
				ok = false
			}
		}
		if !ok {
			continue
		}
		if err := db.VerifC10StorePendingBatchSnapshot(spec.build()); err != nil {
			r.Count("snap/db-store-error")
			continue
		}
		c.countSnap(spec, "db")
		if r.Rng.Intn(2) == 0 {
			db.Close()
			db = c.openDB(path)
			r.Count("snapdb/reopen")
		}
		// pending read
		y, err := db.PendingBatchSnapshot()
		r.Evaluations++
		raw := db.VerifC10RawPendingSnapshot()
		if err != nil {
			r.Count("oracle/violation")
			r.Violate(fmt.Sprintf("pending snapshot not readable: %v", err), "C10/snap-db-pending", c10Case{Kind: "snap", Snap: spec})
			continue
		}
		// the stored blob itself: byte-exact against the model
		if yb, rest, e2, p2 := goDeSnap(raw); e2 == nil && !p2 {
			r.Emit("C10 snap "+hx(raw), c10Expect(renderSnapshot(yb), nil, false, rest, true))
		}
		// the read path (blob + completion of own orders from the orders bucket)
		opP := "C10 snapfull " + hx(raw)
		for _, o := range spec.Orders {
			base, mu, tlvB, tier, _ := db.VerifC10RawOrder(order.Nonce(arr32(o.Nonce)))
			opP += " " + o.Nonce + " " + (&c10OrderRec{base, mu, tlvB, tier}).tokens()
		}
		r.Emit(opP, "ok "+renderSnapshot(y))
		r.Distinct(renderSnapshot(y))
		if got, want := renderSnapshot(y), renderSnapshot(spec.expected(false).build()); got != want {
			// own orders come back with base fields only?
			if got == renderSnapshot(spec.expected(true).build()) {
				r.Count("finding/pending-snapshot-own-orders-base-only")
				r.Violate("PendingBatchSnapshot returns the trader's own orders reduced to their base fields "+
					"(min units match, node tier and all TLV terms lost): wrote "+want+" read "+got,
					"C10/pending-snapshot-own-order-extras", c10Case{Kind: "snapdb", Snap: spec})
			} else {
				r.Count("oracle/violation")
				r.Violate("pending snapshot does not read back equal: wrote "+want+" read "+got,
					"C10/snap-db-pending", c10Case{Kind: "snapdb", Snap: spec})
			}
		}
		var id order.BatchID
		copy(id[:], unhexOr(spec.BatchID))
		if err := db.VerifC10FinalizeBatchSnapshot(id); err != nil {
			r.Count("snap/db-finalize-error")
			continue
		}
		specs = append(specs, spec)
		if r.Rng.Intn(2) == 0 {
			db.Close()
			db = c.openDB(path)
			r.Count("snapdb/reopen")
		}
		// every finalized snapshot so far reads back complete
		for _, sp := range specs {
			var sid order.BatchID
			copy(sid[:], unhexOr(sp.BatchID))
			y, err := db.GetLocalBatchSnapshot(sid)
			r.Evaluations++
			want := renderSnapshot(sp.expected(false).build())
			if err != nil || renderSnapshot(y) != want {
				got := fmt.Sprint(err)
				if err == nil {
					got = renderSnapshot(y)
				}
				r.Count("oracle/violation")
				r.Violate("finalized snapshot does not read back equal: wrote "+want+" read "+got,
					"C10/snap-db-final", c10Case{Kind: "snapdb", Snap: sp})
				continue
			}
			if sp == spec {
				op := "C10 snapfull " + hx(db.VerifC10RawSnapshot(sid))
				for _, o := range sp.Orders {
					base, mu, tlvB, tier, _ := db.VerifC10RawOrder(order.Nonce(arr32(o.Nonce)))
					op += " " + o.Nonce + " " + (&c10OrderRec{base, mu, tlvB, tier}).tokens()
				}
				r.Emit(op, "ok "+renderSnapshot(y))
				r.Count("snapdb/final-read")
			}
		}
		all, err := db.GetLocalBatchSnapshots()
		if err != nil || len(all) != len(specs) {
			r.Count("oracle/violation")
			r.Violate(fmt.Sprintf("GetLocalBatchSnapshots returned %d (err %v), %d stored", len(all), err, len(specs)),
				"C10/snap-db-list", nil)
		}
		// bystanders untouched
		ya, errA := db.Account(byA.build().TraderKey.PubKey)
		yo, errO := db.GetOrder(order.Nonce(arr32(byO.Nonce)))
		if errA != nil || errO != nil || renderAcct(ya) != renderAcct(byA.build()) ||
			renderOrder(yo) != renderOrder(byO.build()) {
			r.Count("oracle/violation")
			r.Violate("storing a snapshot altered an unrelated account or order", "C10/snap-db-crosstalk",
				c10Case{Kind: "snapdb", Snap: spec})
		}
	}
}

// snapDBFixed replays one snapshot through a fresh database: own orders
// submitted, snapshot stored as pending and read back, finalized and read.
func (c *c10Run) snapDBFixed(spec *c10Snap) {
	r := c.r
	c.nDB++
	path := fmt.Sprintf("%s/x%d", c.dir, c.nDB)
	db := c.openDB(path)
	defer func() { db.Close() }()
	for _, o := range spec.Orders {
		if db.SubmitOrder(o.build()) != nil {
			return
		}
	}
	if db.VerifC10StorePendingBatchSnapshot(spec.build()) != nil {
		return
	}
	r.Evaluations++
	want := renderSnapshot(spec.expected(false).build())
	y, err := db.PendingBatchSnapshot()
	if err != nil || renderSnapshot(y) != want {
		got := fmt.Sprint(err)
		if err == nil {
			got = renderSnapshot(y)
		}
		r.Count("oracle/violation")
		r.Violate("pending snapshot does not read back equal: wrote "+want+" read "+got,
			"C10/pending-snapshot-own-order-extras", c10Case{Kind: "snapdb", Snap: spec})
	}
	var id order.BatchID
	copy(id[:], unhexOr(spec.BatchID))
	if db.VerifC10FinalizeBatchSnapshot(id) != nil {
		return
	}
	y, err = db.GetLocalBatchSnapshot(id)
	if err != nil || renderSnapshot(y) != want {
		r.Count("oracle/violation")
		r.Violate("finalized snapshot does not read back equal", "C10/snap-db-final",
			c10Case{Kind: "snapdb", Snap: spec})
	}
}
