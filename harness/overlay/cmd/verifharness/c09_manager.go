//go:build verif

package main

// C09 at the manager level: the REAL account manager + REAL watcher.Controller
// + REAL expiry watcher (lifecycle_env.go environment) must register the expiry
// of an account at every site that changes it. Called from runC09.
//
// Oracle (C09's statement one level up): after a modification that moves the
// expiry E1 -> E2 (RenewAccount, or DepositAccount / WithdrawAccount with a new
// expiry) no expiry of the account is handled for blocks E1 <= h < E2, and
// exactly one once a block >= E2 has been processed - whether or not the
// modification has confirmed.

import (
	"context"
	"fmt"
	"sync/atomic"
	"time"

	"github.com/btcsuite/btcd/btcutil"
	"github.com/btcsuite/btcd/wire"
	"github.com/lightninglabs/pool/account"
	"github.com/lightningnetwork/lnd/chainntnfs"
	"github.com/lightningnetwork/lnd/lnwallet/chainfee"
)

// c09ManagerScenarios runs, for every operation that can move the expiry of an
// account (renew, deposit, withdraw) and account versions 0..2, the scenario with
// the modification confirming before the old expiry, between the old and the new
// expiry, or never.
func c09ManagerScenarios(r *Run) {
	for _, op := range []string{"renew", "deposit", "withdraw"} {
		for ver := 0; ver <= 2; ver++ {
			for _, confirm := range []string{"never", "before-old-expiry", "between"} {
				c09ModifyScenario(r, op, ver, confirm)
			}
		}
	}
}

func c09ModifyScenario(r *Run, op string, ver int, confirm string) {
	name := fmt.Sprintf("%s v%d confirm=%s", op, ver, confirm)
	bad := func(what string) {
		r.Count("oracle/violation")
		r.Violate("manager scenario "+name+": "+what, "C09/manager-"+op,
			map[string]interface{}{"scenario": op, "version": ver, "confirm": confirm})
	}
	e := newLcEnv(r)
	defer e.close()
	ctx := context.Background()
	if err := e.mgr.Start(); err != nil {
		bad("manager does not start: " + err.Error())
		return
	}
	e.started = true
	if !e.deliverBlock(1001) {
		bad("block epoch not consumed")
		return
	}
	e.height = 1001
	k := e.accts[1]
	e.wallet.nextKey = k.key
	e1 := e.height + 144 + 10
	acct, err := e.mgr.InitAccount(ctx, btcutil.Amount(500000), account.Version(ver), chainfee.FeePerKwFloor, e1, e.height)
	if err != nil {
		bad("InitAccount: " + err.Error())
		return
	}
	deliverConf := func() bool {
		regs := e.notifier.liveRegs(1, true)
		if len(regs) == 0 {
			return false
		}
		rg := regs[len(regs)-1]
		rg.fired = true
		select {
		case rg.confCh <- &chainntnfs.TxConfirmation{BlockHeight: e.height}:
			<-e.confDone
			return true
		case <-time.After(5 * time.Second):
			return false
		}
	}
	if !deliverConf() {
		bad("funding confirmation not watched")
		return
	}
	// renew E1 -> E2 a few blocks before E1
	e.height = e1 - 5
	e.deliverBlock(e.height)
	e2 := e.height + 144 + 500
	before := e.expiryHandled(1)
	if before != 0 {
		bad(fmt.Sprintf("expiry handled %d times before the expiry height %d", before, e1))
		return
	}
	switch op {
	case "renew":
		_, _, err = e.mgr.RenewAccount(ctx, acct.TraderKey.PubKey, e2, chainfee.FeePerKwFloor, e.height, account.Version(ver))
	case "deposit":
		_, _, err = e.mgr.DepositAccount(ctx, acct.TraderKey.PubKey, btcutil.Amount(120000), chainfee.FeePerKwFloor,
			e.height, e2, account.Version(ver))
	case "withdraw":
		outs := []*wire.TxOut{{Value: 150000, PkScript: lcP2WKH}}
		_, _, err = e.mgr.WithdrawAccount(ctx, acct.TraderKey.PubKey, outs, chainfee.FeePerKwFloor, e.height, e2,
			account.Version(ver))
	}
	if err != nil {
		bad(op + ": " + err.Error())
		return
	}
	r.Count("manager/modified-" + op)
	settle := func() {
		// expiry hand-offs spawned by a registration at / below the best height
		e.waitAsync(atomic.LoadInt64(&e.expiryDone) - atomic.LoadInt64(&e.asyncExpected))
	}
	confirmRenewal := func() {
		// the renewal's spend notification arms the conf watcher, then it confirms
		regs := e.notifier.liveRegs(1, false)
		if len(regs) > 0 {
			rec, rerr := e.db.Account(k.key.PubKey)
			if rerr != nil || rec.LatestTx == nil {
				bad(fmt.Sprintf("the renewed account cannot be read back with its transaction: %v", rerr))
				return
			}
			rg := regs[len(regs)-1]
			rg.fired = true
			tx := rec.LatestTx.Copy()
			idx := 0
			for i, in := range tx.TxIn {
				if in.PreviousOutPoint == rg.op {
					idx = i
				}
			}
			select {
			case rg.spendCh <- &chainntnfs.SpendDetail{SpentOutPoint: &rg.op, SpendingTx: tx,
				SpenderInputIndex: uint32(idx), SpendingHeight: int32(e.height)}:
				<-e.spendDone
			case <-time.After(5 * time.Second):
			}
		}
		deliverConf()
		r.Count("manager/renewal-confirmed")
	}
	if confirm == "before-old-expiry" {
		confirmRenewal()
	}
	// blocks E1 .. E2-1 : no expiry may be handled
	for _, h := range []uint32{e1, e1 + 1, e1 + 50, e2 - 1} {
		if confirm == "between" && h == e1+50 {
			confirmRenewal()
		}
		e.height = h
		if !e.deliverBlock(h) {
			bad("block epoch not consumed")
			return
		}
		settle()
		if n := e.expiryHandled(1); n != 0 {
			state := "unreadable"
			if rec, rerr := e.db.Account(k.key.PubKey); rerr == nil {
				state = rec.State.String()
			}
			bad(fmt.Sprintf("account whose expiry was moved from %d to %d was handed to HandleAccountExpiry at height %d (< %d); state now %v",
				e1, e2, h, e2, state))
			return
		}
	}
	// at / after E2: exactly one
	for _, h := range []uint32{e2, e2 + 1, e2 + 7} {
		e.height = h
		if !e.deliverBlock(h) {
			bad("block epoch not consumed")
			return
		}
		settle()
	}
	if n := e.expiryHandled(1); n != 1 {
		bad(fmt.Sprintf("expiry of the modified account (new expiry %d) handled %d times after blocks up to %d, expected exactly once",
			e2, n, e2+7))
		return
	}
	rec, rerr := e.db.Account(k.key.PubKey)
	if rerr != nil {
		bad("the stored record of the expired account cannot be read back: " + rerr.Error())
		return
	}
	want := account.StateExpiredPendingUpdate
	if confirm != "never" {
		want = account.StateExpired
	}
	if rec.State != want {
		bad(fmt.Sprintf("after the new expiry the account is %v, expected %v", rec.State, want))
		return
	}
	r.Count("manager/scenario-ok")
	r.Evaluations++
	r.Distinct(name)
}

// expiryHandled counts the expiry hand-offs the manager received for an account.
func (e *lcEnv) expiryHandled(acct int) int {
	e.logMu.Lock()
	defer e.logMu.Unlock()
	n := 0
	for _, c := range e.expiryCalls {
		if c.acct == acct {
			n++
		}
	}
	return n
}
