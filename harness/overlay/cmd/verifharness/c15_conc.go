//go:build verif

package main

// C15, concurrency part: EncodeToString / DecodeString (and the binary form)
// are called from several goroutines of a daemon at once (every RPC response
// and every negotiation packet carries a ticket string). Shared state inside
// the codec - a pooled or cached buffer - would hand one caller bytes of
// another call. The scenario runs in a CHILD process (this binary re-executed
// with VERIF_C15_CHILD=1, bounded in time): G goroutines encode and decode
// DISTINCT tickets in tight loops; oracle: every string is exactly the string
// the same ticket encodes to sequentially and decodes to exactly the ticket it
// was made from.

import (
	"bufio"
	"bytes"
	"encoding/json"
	"fmt"
	"os"
	"os/exec"
	"strings"
	"sync"
	"time"

	"github.com/lightninglabs/pool/sidecar"
)

const c15ChildEnv = "VERIF_C15_CHILD"

type c15ConcInput struct {
	Goroutines int      `json:"goroutines"`
	Rounds     int      `json:"rounds"`
	Tickets    []string `json:"tickets"` // hex of the binary form
}

type c15ConcOutput struct {
	Calls      int      `json:"calls"`
	Mismatches []string `json:"mismatches"`
}

func init() {
	if os.Getenv(c15ChildEnv) == "" {
		return
	}
	os.Exit(c15ChildMain())
}

func c15ChildMain() int {
	var in c15ConcInput
	if err := json.NewDecoder(bufio.NewReader(os.Stdin)).Decode(&in); err != nil {
		fmt.Fprintln(os.Stderr, "child: bad input:", err)
		return 3
	}
	// sequential reference: ticket objects, their tokens, strings and bytes
	type ref struct {
		t   *sidecar.Ticket
		tok string
		str string
		bin []byte
	}
	var refs []ref
	for _, h := range in.Tickets {
		b := decUnhex(h)
		t, err := sidecar.DeserializeTicket(bytes.NewReader(b))
		if err != nil {
			continue
		}
		s, err := sidecar.EncodeToString(t)
		if err != nil {
			continue
		}
		refs = append(refs, ref{t: t, tok: decFmtTicket(t), str: s, bin: b})
	}
	out := c15ConcOutput{}
	if len(refs) == 0 {
		_ = json.NewEncoder(os.Stdout).Encode(out)
		return 0
	}
	var mu sync.Mutex
	report := func(s string) {
		mu.Lock()
		if len(out.Mismatches) < 10 {
			out.Mismatches = append(out.Mismatches, s)
		}
		mu.Unlock()
	}
	var wg sync.WaitGroup
	start := make(chan struct{})
	deadline := time.Now().Add(25 * time.Second)
	calls := make([]int, in.Goroutines)
	for g := 0; g < in.Goroutines; g++ {
		wg.Add(1)
		go func(g int) {
			defer wg.Done()
			defer func() {
				if p := recover(); p != nil {
					report(fmt.Sprintf("goroutine %d panicked: %v", g, p))
				}
			}()
			<-start
			for round := 0; round < in.Rounds && time.Now().Before(deadline); round++ {
				for k := range refs {
					rf := refs[(k*7+g*13)%len(refs)] // every goroutine its own order
					s, err := sidecar.EncodeToString(rf.t)
					calls[g]++
					switch {
					case err != nil:
						report("EncodeToString failed: " + err.Error())
					case s != rf.str:
						report(fmt.Sprintf("ticket %s encoded to %q, sequentially it encodes to %q", rf.tok, s, rf.str))
					}
					back, err := sidecar.DecodeString(s)
					switch {
					case err != nil:
						report(fmt.Sprintf("string made from ticket %s does not decode: %v (%q)", rf.tok, err, s))
					case decFmtTicket(back) != rf.tok:
						report(fmt.Sprintf("string made from ticket %s decodes to ticket %s", rf.tok, decFmtTicket(back)))
					}
					var buf bytes.Buffer
					if err := sidecar.SerializeTicket(&buf, rf.t); err != nil || !bytes.Equal(buf.Bytes(), rf.bin) {
						report(fmt.Sprintf("ticket %s serialised differently under concurrency", rf.tok))
					}
					mu.Lock()
					stop := len(out.Mismatches) >= 10
					mu.Unlock()
					if stop {
						return
					}
				}
			}
		}(g)
	}
	close(start)
	done := make(chan struct{})
	go func() { wg.Wait(); close(done) }()
	select {
	case <-done:
	case <-time.After(40 * time.Second):
		fmt.Fprintln(os.Stderr, "child: goroutines did not finish in 40 s")
		return 4
	}
	for _, c := range calls {
		out.Calls += c
	}
	if err := json.NewEncoder(os.Stdout).Encode(out); err != nil {
		return 5
	}
	return 0
}

// c15RunConc starts the child and evaluates the oracle.
func c15RunConc(r *Run, in c15ConcInput, kind string) {
	exe, err := os.Executable()
	if err != nil {
		r.Notes = append(r.Notes, "cannot locate own executable: "+err.Error())
		return
	}
	payload, _ := json.Marshal(in)
	cmd := exec.Command(exe)
	cmd.Env = append(os.Environ(), c15ChildEnv+"=1", "GOMEMLIMIT=2GiB")
	cmd.Stdin = bytes.NewReader(payload)
	var stdout, stderr bytes.Buffer
	cmd.Stdout, cmd.Stderr = &stdout, &stderr
	if err := cmd.Start(); err != nil {
		r.Notes = append(r.Notes, "cannot start child: "+err.Error())
		return
	}
	done := make(chan error, 1)
	go func() { done <- cmd.Wait() }()
	var werr error
	select {
	case werr = <-done:
	case <-time.After(60 * time.Second):
		_ = cmd.Process.Kill()
		werr = fmt.Errorf("child killed after 60 s")
	}
	r.Evaluations++
	r.Count("conc/" + kind)
	replay := map[string]interface{}{"kind": "conc", "input": in}
	if werr != nil {
		lines := strings.Split(stderr.String(), "\n")
		if len(lines) > 6 {
			lines = lines[:6]
		}
		r.Count("oracle/violation")
		r.Violate(fmt.Sprintf("%d goroutines encoding / decoding %d tickets at the same time: the process died (%v): %s",
			in.Goroutines, len(in.Tickets), werr, strings.Join(lines, " | ")), "C15/concurrent-codec", replay)
		return
	}
	var out c15ConcOutput
	if err := json.Unmarshal(stdout.Bytes(), &out); err != nil {
		r.Count("oracle/violation")
		r.Violate("concurrent codec: child produced no report", "C15/concurrent-codec", replay)
		return
	}
	r.Hist["conc/calls"] += out.Calls
	if len(out.Mismatches) > 0 {
		r.Count("oracle/violation")
		r.Violate(fmt.Sprintf("%d goroutines encoding / decoding %d distinct tickets at the same time: %s",
			in.Goroutines, len(in.Tickets), out.Mismatches[0]), "C15/concurrent-codec", replay)
		return
	}
	r.Count("conc/child-exited-normally")
}

// c15GenConc: distinct random tickets of different sizes.
func c15GenConc(r *Run) c15ConcInput {
	in := c15ConcInput{Goroutines: 8, Rounds: 40}
	for i := 0; i < 24; i++ {
		t, _ := decRandTicket(r.Rng, func(string) {})
		var buf bytes.Buffer
		if err := sidecar.SerializeTicket(&buf, t); err != nil {
			continue
		}
		in.Tickets = append(in.Tickets, decHex(buf.Bytes()))
	}
	return in
}
