//go:build verif

package main

import (
	"bytes"
	"encoding/json"
	"fmt"
	"os"

	"github.com/btcsuite/btcd/wire"
	"github.com/lightninglabs/pool/clientdb"
	"github.com/lightninglabs/pool/order"
	"github.com/lightninglabs/pool/sidecar"
	"github.com/lightninglabs/pool/terms"
)

// c15DB is a real clientdb (bbolt file in a scratch directory) in which bids
// carrying tickets are stored and taken through the life of a stored order.
type c15DB struct {
	dir string
	db  *clientdb.DB
	n   int
}

func c15OpenDB() (*c15DB, error) {
	dir, err := os.MkdirTemp("", "decode-c15-")
	if err != nil {
		return nil, err
	}
	db, err := clientdb.New(dir, clientdb.DBFilename)
	if err != nil {
		os.RemoveAll(dir)
		return nil, err
	}
	return &c15DB{dir: dir, db: db}, nil
}

func (d *c15DB) close() {
	if d.db != nil {
		d.db.Close()
	}
	os.RemoveAll(d.dir)
}

// lifecycle stores a bid with the ticket and reads the ticket back after every
// step a stored bid goes through: SubmitOrder, UpdateOrder, StorePendingBatch
// (staged), MarkBatchComplete (batch applied), and after closing and reopening
// the database. It returns the first step whose read-back differs.
func (d *c15DB) lifecycle(r *Run, t *sidecar.Ticket, tok string) string {
	var nonce order.Nonce
	r.Rng.Read(nonce[:])
	kit := order.NewKit(nonce)
	kit.Version = order.VersionSidecarChannel
	kit.State = order.StateSubmitted
	kit.FixedRate = uint32(1 + r.Rng.Intn(1000))
	kit.Amt = 1_000_000
	kit.Units = order.NewSupplyFromSats(kit.Amt)
	kit.UnitsUnfulfilled = kit.Units
	kit.MinUnitsMatch = 1
	kit.MaxBatchFeeRate = 253
	kit.LeaseDuration = 2016
	kit.ChannelType = order.ChannelTypeScriptEnforced
	bid := &order.Bid{Kit: *kit, SidecarTicket: t, SelfChanBalance: 7}

	check := func(step string) string {
		got, err := d.db.GetOrder(nonce)
		if err != nil {
			return step + ": GetOrder: " + err.Error()
		}
		b, ok := got.(*order.Bid)
		if !ok {
			return step + ": stored order is not a bid"
		}
		if b.SidecarTicket == nil {
			return step + ": stored bid has no ticket"
		}
		if decFmtTicket(b.SidecarTicket) != tok {
			return step + ": stored bid's ticket differs: " + decFmtTicket(b.SidecarTicket)
		}
		return ""
	}
	if err := d.db.SubmitOrder(bid); err != nil {
		return "SubmitOrder: " + err.Error()
	}
	if bad := check("after SubmitOrder"); bad != "" {
		return bad
	}
	if err := d.db.UpdateOrder(nonce, order.StateModifier(order.StatePartiallyFilled)); err != nil {
		return "UpdateOrder: " + err.Error()
	}
	if bad := check("after UpdateOrder"); bad != "" {
		return bad
	}
	var id order.BatchID
	r.Rng.Read(id[:])
	tx := wire.NewMsgTx(2)
	tx.AddTxOut(&wire.TxOut{Value: 1000, PkScript: []byte{0x51}})
	batch := &order.Batch{
		ID: id, ExecutionFee: terms.NewLinearFeeSchedule(10, 100), BatchTX: tx,
		MatchedOrders: map[order.Nonce][]*order.MatchedOrder{},
	}
	err := d.db.StorePendingBatch(batch, []order.Nonce{nonce},
		[][]order.Modifier{{order.UnitsFulfilledModifier(3)}}, nil, nil)
	if err != nil {
		return "StorePendingBatch: " + err.Error()
	}
	if bad := check("after StorePendingBatch"); bad != "" {
		return bad
	}
	if err := d.db.MarkBatchComplete(); err != nil {
		return "MarkBatchComplete: " + err.Error()
	}
	if bad := check("after MarkBatchComplete"); bad != "" {
		return bad
	}
	d.n++
	if d.n%50 == 1 {
		// close / reopen is the identity on what was stored
		d.db.Close()
		db, err := clientdb.New(d.dir, clientdb.DBFilename)
		if err != nil {
			d.db = nil
			return "reopen: " + err.Error()
		}
		d.db = db
		if bad := check("after close/reopen"); bad != "" {
			return bad
		}
	}
	return ""
}

func init() { props["C15"] = runC15 }

// c15Case is a corpus / replay case: a ticket given by its binary encoding
// (hex), or an arbitrary string / byte input.
type c15Case struct {
	Kind string `json:"kind"` // ticket | bytes | string
	Hex  string `json:"hex"`
	Orig string `json:"orig,omitempty"` // string cases: the unaltered string this one was derived from
	Note string `json:"note,omitempty"`
	// kind "conc": a concurrent scenario (run in a child process)
	Input *c15ConcInput `json:"input,omitempty"`
	// kind "store": a history of the ticket store
	Steps []c15StoreStep `json:"steps,omitempty"`
}

func runC15(r *Run) {
	r.Rule = "random tickets (all states, any subset of recipient / order / execution, optional keys and " +
		"signatures, all flag combinations, extreme amounts): Go bytes and strings vs model bytes and " +
		"strings, model decoding of the Go encodings, and EVERY position of both encodings altered " +
		"(3 xor masks per byte / 3 replacement characters, all 255 / 61 in thorough tier for a subset), " +
		"truncated at every length and extended; non-trivial = distinct ticket with >= 1 optional part"
	mode := 0
	store, err := c15OpenDB()
	if err != nil {
		r.Notes = append(r.Notes, "cannot open a scratch clientdb: "+err.Error())
		r.Violate("scratch clientdb cannot be opened: "+err.Error(), "C15/db-setup", nil)
		return
	}
	defer store.close()

	runTicket := func(t *sidecar.Ticket, wf bool, full bool) {
		tok := decFmtTicket(t)
		r.Evaluations++
		if t.Recipient != nil || t.Order != nil || t.Execution != nil {
			r.Distinct(tok)
		}
		r.Sample(tok)

		// ---- binary form
		var buf bytes.Buffer
		if err := sidecar.SerializeTicket(&buf, t); err != nil {
			r.Emit("C15 ser "+tok, "err "+decErrName(err))
			r.Count("ser/err")
			return
		}
		bin := append([]byte(nil), buf.Bytes()...)
		r.Emit("C15 ser "+tok, "ok "+decHex(bin))
		back := decDeserialize(bin)
		r.Emit("C15 de "+decHex(bin), back.String())
		r.Count("bin/roundtrip=" + back.Class)

		// ---- string form
		str, err := sidecar.EncodeToString(t)
		if err != nil {
			r.Emit("C15 enc "+tok, "err "+decErrName(err))
			return
		}
		r.Emit("C15 enc "+tok, "ok "+decHex([]byte(str)))
		sback := decDecodeString(str)
		r.Emit("C15 dstr "+decHex([]byte(str)), sback.String())
		r.Count("str/roundtrip=" + sback.Class)

		// ---- oracle 1: round trips give an equal ticket
		if wf {
			r.Count("oracle/roundtrip-checked")
			if back.Class != "ok" || decFmtTicket(back.Ticket) != tok {
				r.Count("oracle/violation")
				r.Violate("DeserializeTicket(SerializeTicket(t)) is not t: "+back.String(),
					"C15/binary-roundtrip", c15Case{Kind: "ticket", Hex: decHex(bin), Note: tok})
			}
			if sback.Class != "ok" || decFmtTicket(sback.Ticket) != tok {
				r.Count("oracle/violation")
				r.Violate("DecodeString(EncodeToString(t)) is not t: "+sback.String(),
					"C15/string-roundtrip", c15Case{Kind: "ticket", Hex: decHex(bin), Note: tok})
			}
			// embedded in a stored bid
			bid := &order.Bid{SidecarTicket: t, SelfChanBalance: 5, UnannouncedChannel: t.Offer.UnannouncedChannel}
			got, stored, err := clientdb.VerifC15BidTlvRoundTrip(bid)
			switch {
			case err != nil:
				r.Count("oracle/violation")
				r.Violate("stored bid with the ticket does not read back: "+err.Error(),
					"C15/bid-embedding", c15Case{Kind: "ticket", Hex: decHex(bin), Note: tok})
			case got.SidecarTicket == nil || decFmtTicket(got.SidecarTicket) != tok:
				r.Count("oracle/violation")
				r.Violate("ticket embedded in a stored bid reads back different",
					"C15/bid-embedding", c15Case{Kind: "ticket", Hex: decHex(bin), Note: tok})
			default:
				r.Count("bid-embedding/ok")
				// the same through the real database, incl. a completed batch
				if bad := store.lifecycle(r, t, tok); bad != "" {
					r.Count("oracle/violation")
					r.Violate("ticket embedded in a stored bid: "+bad, "C15/bid-embedding-db",
						c15Case{Kind: "ticket", Hex: decHex(bin), Note: tok})
				} else {
					r.Count("bid-embedding/db-lifecycle-ok")
				}
				// the embedded bytes are the binary form itself
				if !bytes.Contains(stored, bin) {
					r.Notes = append(r.Notes, "stored bid does not contain the ticket's binary form verbatim")
				}
			}
		} else {
			r.Count("ticket/not-wf")
		}
		if !full {
			return
		}

		// ---- every alteration of the binary form
		vb := decBinVariants(mode, bin)
		outB := make([]byte, len(vb))
		for i, v := range vb {
			if decStalled() {
				return
			}
			o := decDeserialize(v)
			outB[i] = decClassify(back, o)
			r.Count("binvar/" + string(outB[i]))
			if outB[i] == 'P' || outB[i] == 'T' {
				r.Count("oracle/violation")
				r.Violate(fmt.Sprintf("DeserializeTicket %s on an altered encoding", o.Class),
					"C15/alter-binary", c15Case{Kind: "bytes", Hex: decHex(v)})
			}
		}
		r.Emit(fmt.Sprintf("C15 mutbin %d %s", mode, decHex(bin)), string(outB))

		// ---- every alteration of the string form: rejected, or the
		// same ticket; a different ticket only on a genuine 4-byte
		// truncated-hash collision
		vs := decStrVariants(mode, str)
		outS := make([]byte, len(vs))
		for i, v := range vs {
			if decStalled() {
				return
			}
			o := decDecodeString(v)
			outS[i] = decClassify(sback, o)
			r.Count("strvar/" + string(outS[i]))
			switch outS[i] {
			case 'P', 'T':
				r.Count("oracle/violation")
				r.Violate(fmt.Sprintf("DecodeString %s on an altered string", o.Class),
					"C15/alter-string", c15Case{Kind: "string", Hex: decHex([]byte(v))})
			case 'D', '=':
				// accepted although altered
				r.Count("oracle/violation")
				r.Violate("altered string accepted: "+o.String(), "C15/alter-string-accepted",
					c15Case{Kind: "string", Hex: decHex([]byte(v)), Orig: decHex([]byte(str))})
			}
		}
		r.Emit(fmt.Sprintf("C15 mutstr %d %s", mode, decHex([]byte(str))), string(outS))
	}

	for _, raw := range r.FixedCases() {
		var c c15Case
		if json.Unmarshal(raw, &c) != nil {
			continue
		}
		r.Count("case/fixed")
		switch c.Kind {
		case "ticket":
			o := decDeserialize(decUnhex(c.Hex))
			if o.Class == "ok" {
				runTicket(o.Ticket, true, true)
			}
		case "conc":
			if c.Input != nil {
				c15RunConc(r, *c.Input, "fixed")
			}
		case "store":
			c15StoreExec(r, c.Steps)
		case "bytes":
			b := decUnhex(c.Hex)
			r.Emit("C15 de "+decHex(b), decDeserialize(b).String())
		case "string":
			b := decUnhex(c.Hex)
			o := decDecodeString(string(b))
			r.Emit("C15 dstr "+decHex(b), o.String())
			// an alteration of a valid string must be rejected
			if c.Orig != "" && c.Orig != c.Hex && o.Class != "err" {
				r.Count("oracle/violation")
				r.Violate("altered string accepted: "+o.String(), "C15/alter-string-accepted",
					c15Case{Kind: "string", Hex: c.Hex, Orig: c.Orig})
			}
		}
	}
	if r.ReplayFile != "" {
		return
	}

	for c := 0; c < r.N && len(r.Violations) < 20 && !decStalled(); c++ {
		t, wf := decRandTicket(r.Rng, r.Count)
		// the alteration sweep is the expensive part: every 4th ticket
		full := c%4 == 0
		mode = 0
		if r.Tier == "thorough" && c%250 == 0 {
			mode = 1
		}
		runTicket(t, wf, full)
	}

	// update histories in the real ticket store
	for g := 0; g < r.N/8 && len(r.Violations) < 20 && !decStalled(); g++ {
		c15StoreExec(r, c15StoreGen(r))
	}

	// concurrent encode / decode (child process), after the sequential cases
	nConc := 1
	if r.Tier == "thorough" {
		nConc = 3
	}
	for k := 0; k < nConc && len(r.Violations) < 20; k++ {
		c15RunConc(r, c15GenConc(r), "generated")
	}
}
