//go:build verif

package main

import (
	"bytes"
	"context"
	"crypto/sha256"
	"encoding/hex"
	"encoding/json"
	"errors"
	"fmt"
	"os"
	"runtime/debug"
	"strings"

	"github.com/btcsuite/btcd/btcec/v2"
	"github.com/btcsuite/btcd/btcec/v2/schnorr"
	"github.com/btcsuite/btcd/btcec/v2/schnorr/musig2"
	"github.com/btcsuite/btcd/btcutil"
	"github.com/btcsuite/btcd/btcutil/psbt"
	"github.com/btcsuite/btcd/btcutil/txsort"
	"github.com/btcsuite/btcd/chaincfg"
	"github.com/btcsuite/btcd/txscript"
	"github.com/btcsuite/btcd/wire"
	"github.com/btcsuite/btcwallet/wtxmgr"
	"github.com/lightninglabs/lndclient"
	"github.com/lightninglabs/pool/account"
	"github.com/lightninglabs/pool/internal/test"
	"github.com/lightninglabs/pool/order"
	"github.com/lightninglabs/pool/poolscript"
	"github.com/lightninglabs/pool/terms"
	"github.com/lightningnetwork/lnd/chainntnfs"
	"github.com/lightningnetwork/lnd/input"
	"github.com/lightningnetwork/lnd/keychain"
	"github.com/lightningnetwork/lnd/lnrpc/signrpc"
	"github.com/lightningnetwork/lnd/lnrpc/verrpc"
	"github.com/lightningnetwork/lnd/lnrpc/walletrpc"
	"github.com/lightningnetwork/lnd/lnwallet/btcwallet"
	"github.com/lightningnetwork/lnd/lnwallet/chainfee"
)

func init() { props["C04"] = runC04 }

// ---------------------------------------------------------------------------
// Case description (replayable)
// ---------------------------------------------------------------------------

// c04Params describes one spend attempt. The output on chain belongs to the
// "chain account" (Trader, Auct, BatchInc, Secret, Expiry, Version); signatures
// are made for the "signing account", which differs from it in the Foreign*
// fields for the foreign-parameter variants.
type c04Params struct {
	Path     string `json:"path"`    // direct | close | renew | batch
	Kind     string `json:"kind"`    // joint | expiry | auctOnly | traderOnlyKey | swapped | otherTx
	Version  uint8  `json:"version"` // account version 0..2
	Trader   string `json:"trader"`  // 32-byte private keys / secrets in hex
	Auct     string `json:"auct"`
	Batch    string `json:"batch"` // private key of the base batch key
	BatchInc int    `json:"batch_inc"`
	Secret   string `json:"secret"`
	Expiry   uint32 `json:"expiry"`
	LockTime uint32 `json:"lock_time"` // tx lock time (direct, batch) / best height (close, renew)
	Sequence uint32 `json:"sequence"`  // direct path only
	Value    int64  `json:"value"`
	// manager paths: force account.State = StateExpired
	StateExpired bool `json:"state_expired"`

	Foreign         string `json:"foreign"` // "" | batchkey | secret | expiry
	ForeignBatchInc int    `json:"foreign_batch_inc"`
	ForeignSecret   string `json:"foreign_secret"`
	ForeignExpiry   uint32 `json:"foreign_expiry"`
	// after building the witness with the signing account's script / control
	// block, substitute the chain account's (so only the signatures are foreign)
	Rescript bool `json:"rescript"`

	// renew / withdraw: version the re-created output is upgraded to
	NewVersion uint8 `json:"new_version"`
	// withdraw: also change the expiry (0 = keep)
	NewExpiryDelta uint32 `json:"new_expiry_delta"`

	// batch path: the trader's accounts taking part in the batch, in the
	// order of Batch.AccountDiffs (all share Auct and Batch)
	Accts        []c04BatchAcct `json:"accts,omitempty"`
	BatchVersion uint32         `json:"batch_version"`

	// mgrbatch path: a full batch proposal (shared C01-C03 generator, honest
	// auctioneer) that goes through order.NewManager(...).Start(),
	// OrderMatchValidate and BatchSign
	MgrCase json.RawMessage `json:"mgr_case,omitempty"`
}

// c04BatchAcct is one account of a batch with the diff the auctioneer sends.
type c04BatchAcct struct {
	Version       uint8  `json:"version"`
	Trader        string `json:"trader"`
	BatchInc      int    `json:"batch_inc"`
	Secret        string `json:"secret"`
	Expiry        uint32 `json:"expiry"`
	Value         int64  `json:"value"`
	NewExpiry     uint32 `json:"new_expiry"`  // AccountDiff.NewExpiry (0 = unchanged)
	NewVersion    uint8  `json:"new_version"` // AccountDiff.NewVersion
	EndingBalance int64  `json:"ending_balance"`
}

type c04Keys struct {
	trader, auct *btcec.PrivateKey
	batchKey     *btcec.PublicKey
	secret       [32]byte
	expiry       uint32
	version      account.Version
	value        btcutil.Amount
}

func c04Priv(h string) *btcec.PrivateKey {
	b, _ := hex.DecodeString(h)
	var k [32]byte
	copy(k[32-len(b):], b)
	p, _ := btcec.PrivKeyFromBytes(k[:])
	return p
}

func c04Secret(h string) [32]byte {
	var s [32]byte
	b, _ := hex.DecodeString(h)
	copy(s[:], b)
	return s
}

func c04BatchKey(base string, inc int) *btcec.PublicKey {
	k := c04Priv(base).PubKey()
	for i := 0; i < inc; i++ {
		k = poolscript.IncrementKey(k)
	}
	return k
}

func (p *c04Params) chainKeys() *c04Keys {
	return &c04Keys{
		trader: c04Priv(p.Trader), auct: c04Priv(p.Auct),
		batchKey: c04BatchKey(p.Batch, p.BatchInc), secret: c04Secret(p.Secret),
		expiry: p.Expiry, version: account.Version(p.Version), value: btcutil.Amount(p.Value),
	}
}

// signExpiry: expiry of the signing account without deriving any keys.
func (p *c04Params) signExpiry() uint32 {
	if p.Foreign == "expiry" {
		return p.ForeignExpiry
	}
	return p.Expiry
}

func (p *c04Params) signKeys() *c04Keys {
	k := p.chainKeys()
	switch p.Foreign {
	case "batchkey":
		k.batchKey = c04BatchKey(p.Batch, p.ForeignBatchInc)
	case "secret":
		k.secret = c04Secret(p.ForeignSecret)
	case "expiry":
		k.expiry = p.ForeignExpiry
	}
	return k
}

var c04TraderLoc = keychain.KeyLocator{Family: poolscript.AccountKeyFamily, Index: 7}

func (k *c04Keys) acct(state account.State) *account.Account {
	return &account.Account{
		Value:  k.value,
		Expiry: k.expiry,
		TraderKey: &keychain.KeyDescriptor{
			KeyLocator: c04TraderLoc, PubKey: k.trader.PubKey(),
		},
		AuctioneerKey: k.auct.PubKey(),
		BatchKey:      k.batchKey,
		Secret:        k.secret,
		State:         state,
		HeightHint:    1,
		OutPoint:      wire.OutPoint{Hash: [32]byte{1, 2, 3}, Index: 2},
		LatestTx:      wire.NewMsgTx(2),
		Version:       k.version,
	}
}

func (k *c04Keys) scriptVersion() poolscript.Version { return k.version.ScriptVersion() }

func (k *c04Keys) pkScript() []byte {
	s, err := poolscript.AccountScript(k.scriptVersion(), k.expiry, k.trader.PubKey(),
		k.auct.PubKey(), k.batchKey, k.secret)
	if err != nil {
		panic(err)
	}
	return s
}

// tweaked keys computed by direct lnd calls (oracle table for the model).
func (k *c04Keys) tweakedTrader() *btcec.PublicKey {
	return input.TweakPubKeyWithTweak(k.trader.PubKey(),
		poolscript.TraderKeyTweak(k.batchKey, k.secret, k.trader.PubKey()))
}
func (k *c04Keys) tweakedAuct() *btcec.PublicKey {
	return input.TweakPubKey(k.auct.PubKey(), k.tweakedTrader())
}
func (k *c04Keys) tweakedTraderPriv() *btcec.PrivateKey {
	return input.TweakPrivKey(k.trader,
		poolscript.TraderKeyTweak(k.batchKey, k.secret, k.trader.PubKey()))
}
func (k *c04Keys) tweakedAuctPriv() *btcec.PrivateKey {
	return input.TweakPrivKey(k.auct, input.SingleTweakBytes(k.tweakedTrader(), k.auct.PubKey()))
}
func (k *c04Keys) witnessScript() []byte {
	s, err := poolscript.AccountWitnessScript(k.expiry, k.trader.PubKey(), k.auct.PubKey(), k.batchKey, k.secret)
	if err != nil {
		panic(err)
	}
	return s
}
func (k *c04Keys) taproot() (*musig2.AggregateKey, *txscript.TapLeaf, []byte) {
	agg, leaf, err := poolscript.TaprootKey(k.scriptVersion(), k.expiry, k.trader.PubKey(),
		k.auct.PubKey(), k.batchKey, k.secret)
	if err != nil {
		panic(err)
	}
	ts := input.TapscriptFullTree(agg.PreTweakedKey, *leaf)
	cb, err := ts.ControlBlock.ToBytes()
	if err != nil {
		panic(err)
	}
	return agg, leaf, cb
}

// ---------------------------------------------------------------------------
// Ideal-signature bookkeeping: who signed what
// ---------------------------------------------------------------------------

type c04SigRec struct {
	sig  []byte // the full witness element
	pk   []byte // key it verifies under (33 bytes v0, 32 bytes x-only taproot)
	ver  int    // 0 BIP143, 1 taproot key path, 2 tapscript
	tx   string // message tag of the signed transaction context
	code []byte // script code / leaf script ("" for key path)
	ht   int    // hash type signed
}

// c04TxTag identifies the transaction context a signature commits to,
// independently of the script engine: the non-witness serialisation, the
// spent amount and (taproot only) the spent pkScript.
func c04TxTag(ver int, tx *wire.MsgTx, amount int64, pkScript []byte) string {
	var buf bytes.Buffer
	_ = tx.SerializeNoWitness(&buf)
	fmt.Fprintf(&buf, "|%d|", amount)
	if ver != 0 {
		buf.Write(pkScript)
	}
	h := sha256.Sum256(buf.Bytes())
	return hex.EncodeToString(h[:8])
}

func c04Hex(b []byte) string {
	if len(b) == 0 {
		return "-"
	}
	return hex.EncodeToString(b)
}

func (s *c04SigRec) String() string {
	code := "-"
	if s.ver != 1 {
		h := sha256.Sum256(s.code)
		code = hex.EncodeToString(h[:])
	}
	return fmt.Sprintf("%s:%s:%d:%s:%s:%d", c04Hex(s.sig), c04Hex(s.pk), s.ver, s.tx, code, s.ht)
}

// ---------------------------------------------------------------------------
// In-process lnd stand-ins (real cryptography, btcec + lnd input package)
// ---------------------------------------------------------------------------

type c04Signer struct {
	lndclient.SignerClient
	priv  *btcec.PrivateKey
	musig *input.MusigSessionManager
}

func newC04Signer(priv *btcec.PrivateKey) *c04Signer {
	s := &c04Signer{priv: priv}
	s.musig = input.NewMusigSessionManager(func(*keychain.KeyDescriptor) (*btcec.PrivateKey, error) {
		return s.priv, nil
	})
	return s
}

// SignOutputRaw mirrors lnd's signer RPC for witness v0 inputs: single tweak,
// BIP143 signature, sighash flag stripped.
func (s *c04Signer) SignOutputRaw(_ context.Context, tx *wire.MsgTx,
	descs []*lndclient.SignDescriptor, _ []*wire.TxOut) ([][]byte, error) {

	var res [][]byte
	for _, d := range descs {
		priv := s.priv
		if len(d.SingleTweak) > 0 {
			priv = input.TweakPrivKey(priv, d.SingleTweak)
		}
		fetcher := txscript.NewCannedPrevOutputFetcher(d.Output.PkScript, d.Output.Value)
		sh := txscript.NewTxSigHashes(tx, fetcher)
		sig, err := txscript.RawTxInWitnessSignature(tx, sh, d.InputIndex, d.Output.Value,
			d.WitnessScript, d.HashType, priv)
		if err != nil {
			return nil, err
		}
		res = append(res, sig[:len(sig)-1])
	}
	return res, nil
}

func (s *c04Signer) MuSig2CreateSession(_ context.Context, version input.MuSig2Version,
	loc *keychain.KeyLocator, signers [][]byte,
	opts ...lndclient.MuSig2SessionOpts) (*input.MuSig2SessionInfo, error) {

	req := &signrpc.MuSig2SessionRequest{}
	for _, o := range opts {
		o(req)
	}
	keys, err := input.MuSig2ParsePubKeys(version, signers)
	if err != nil {
		return nil, err
	}
	tweaks := &input.MuSig2Tweaks{}
	if req.TaprootTweak != nil {
		tweaks.TaprootBIP0086Tweak = req.TaprootTweak.KeySpendOnly
		if !req.TaprootTweak.KeySpendOnly {
			tweaks.TaprootTweak = req.TaprootTweak.ScriptRoot
		}
	}
	var nonces [][musig2.PubNonceSize]byte
	for _, n := range req.OtherSignerPublicNonces {
		var x [musig2.PubNonceSize]byte
		copy(x[:], n)
		nonces = append(nonces, x)
	}
	return s.musig.MuSig2CreateSession(version, *loc, keys, tweaks, nonces, nil)
}

func (s *c04Signer) MuSig2RegisterNonces(_ context.Context, id [32]byte,
	nonces [][66]byte) (bool, error) {
	return s.musig.MuSig2RegisterNonces(id, nonces)
}

func (s *c04Signer) MuSig2Sign(_ context.Context, id [32]byte, msg [32]byte,
	cleanup bool) ([]byte, error) {
	ps, err := s.musig.MuSig2Sign(id, msg, cleanup)
	if err != nil {
		return nil, err
	}
	b, err := input.SerializePartialSignature(ps)
	if err != nil {
		return nil, err
	}
	return b[:], nil
}

func (s *c04Signer) MuSig2CombineSig(_ context.Context, id [32]byte,
	others [][]byte) (bool, []byte, error) {
	var ps []*musig2.PartialSignature
	for _, o := range others {
		p, err := input.DeserializePartialSignature(o)
		if err != nil {
			return false, nil, err
		}
		ps = append(ps, p)
	}
	sig, have, err := s.musig.MuSig2CombineSig(id, ps)
	if err != nil {
		return false, nil, err
	}
	if !have {
		return false, nil, nil
	}
	return true, sig.Serialize(), nil
}

func (s *c04Signer) MuSig2Cleanup(_ context.Context, id [32]byte) error {
	return s.musig.MuSig2Cleanup(id)
}

// c04Wallet: SignPsbt re-implements lnd's BtcWallet.SignPsbt for the one key
// it knows (BIP32 derivation pubkey match, single tweak from the proprietary
// PSBT field, witness v0 / tapscript signing).
type c04Wallet struct {
	lndclient.WalletKitClient
	priv      *btcec.PrivateKey
	published []*wire.MsgTx
	signedTx  *wire.MsgTx
}

func (w *c04Wallet) PublishTransaction(_ context.Context, tx *wire.MsgTx, _ string) error {
	w.published = append(w.published, tx)
	return nil
}

func (w *c04Wallet) SignPsbt(_ context.Context, packet *psbt.Packet) (*psbt.Packet, error) {
	if err := psbt.InputsReadyToSign(packet); err != nil {
		return nil, err
	}
	tx := packet.UnsignedTx
	fetcher := txscript.NewMultiPrevOutFetcher(nil)
	for i, in := range tx.TxIn {
		if packet.Inputs[i].WitnessUtxo != nil {
			fetcher.AddPrevOut(in.PreviousOutPoint, packet.Inputs[i].WitnessUtxo)
		}
	}
	sh := txscript.NewTxSigHashes(tx, fetcher)
	for idx := range tx.TxIn {
		in := &packet.Inputs[idx]
		if in.WitnessUtxo == nil || len(in.FinalScriptWitness) > 0 || len(in.Bip32Derivation) == 0 {
			continue
		}
		if !bytes.Equal(in.Bip32Derivation[0].PubKey, w.priv.PubKey().SerializeCompressed()) {
			continue
		}
		priv := w.priv
		for _, u := range in.Unknowns {
			if bytes.Equal(u.Key, btcwallet.PsbtKeyTypeInputSignatureTweakSingle) {
				priv = input.TweakPrivKey(priv, u.Value)
			}
		}
		switch {
		case txscript.IsPayToWitnessScriptHash(in.WitnessUtxo.PkScript):
			sig, err := txscript.RawTxInWitnessSignature(tx, sh, idx, in.WitnessUtxo.Value,
				in.WitnessScript, in.SighashType, priv)
			if err != nil {
				return nil, err
			}
			in.PartialSigs = append(in.PartialSigs, &psbt.PartialSig{
				PubKey: priv.PubKey().SerializeCompressed(), Signature: sig,
			})
		case txscript.IsPayToTaproot(in.WitnessUtxo.PkScript):
			if len(in.TaprootBip32Derivation) != 1 || len(in.TaprootBip32Derivation[0].LeafHashes) != 1 ||
				len(in.TaprootLeafScript) != 1 {
				return nil, errors.New("c04Wallet: only tapscript spends are signed")
			}
			ls := in.TaprootLeafScript[0]
			leaf := txscript.TapLeaf{LeafVersion: ls.LeafVersion, Script: ls.Script}
			lh := leaf.TapHash()
			if !bytes.Equal(lh[:], in.TaprootBip32Derivation[0].LeafHashes[0]) {
				return nil, errors.New("c04Wallet: leaf hash mismatch")
			}
			sig, err := txscript.RawTxInTapscriptSignature(tx, sh, idx, in.WitnessUtxo.Value,
				in.WitnessUtxo.PkScript, leaf, in.SighashType, priv)
			if err != nil {
				return nil, err
			}
			in.TaprootScriptSpendSig = append(in.TaprootScriptSpendSig, &psbt.TaprootScriptSpendSig{
				XOnlyPubKey: in.TaprootBip32Derivation[0].XOnlyPubKey,
				LeafHash:    lh[:],
				Signature:   sig[:schnorr.SignatureSize],
				SigHash:     in.SighashType,
			})
		default:
			return nil, errors.New("c04Wallet: unsupported input")
		}
	}
	w.signedTx = tx.Copy()
	return packet, nil
}

var c04WalletUtxo = wire.OutPoint{Hash: [32]byte{7, 7}, Index: 3}

const c04WalletUtxoValue = 10_000_000

func (w *c04Wallet) walletScript() []byte {
	s, err := txscript.NewScriptBuilder().AddOp(txscript.OP_0).
		AddData(btcutil.Hash160(w.priv.PubKey().SerializeCompressed())).Script()
	if err != nil {
		panic(err)
	}
	return s
}

// FundPsbt plays lnd's coin selection: one p2wkh wallet input and a change
// output are added to the template.
func (w *c04Wallet) FundPsbt(_ context.Context, req *walletrpc.FundPsbtRequest) (*psbt.Packet, int32,
	[]*walletrpc.UtxoLease, error) {

	tpl, err := psbt.NewFromRawBytes(bytes.NewReader(req.GetPsbt()), false)
	if err != nil {
		return nil, 0, nil, err
	}
	tx := tpl.UnsignedTx.Copy()
	var out int64
	for _, o := range tx.TxOut {
		out += o.Value
	}
	if out+2000 > c04WalletUtxoValue {
		return nil, 0, nil, errors.New("insufficient funds")
	}
	tx.TxIn = append(tx.TxIn, &wire.TxIn{PreviousOutPoint: c04WalletUtxo})
	tx.TxOut = append(tx.TxOut, &wire.TxOut{Value: c04WalletUtxoValue - out - 1000, PkScript: w.walletScript()})
	packet, err := psbt.NewFromUnsignedTx(tx)
	if err != nil {
		return nil, 0, nil, err
	}
	packet.Inputs[0].WitnessUtxo = &wire.TxOut{Value: c04WalletUtxoValue, PkScript: w.walletScript()}
	packet.Inputs[0].SighashType = txscript.SigHashAll
	return packet, int32(len(tx.TxOut) - 1), nil, nil
}

func (w *c04Wallet) ReleaseOutput(context.Context, wtxmgr.LockID, wire.OutPoint) error { return nil }

// FinalizePsbt signs the wallet's own p2wkh inputs and extracts the tx.
func (w *c04Wallet) FinalizePsbt(_ context.Context, packet *psbt.Packet, _ string) (*psbt.Packet,
	*wire.MsgTx, error) {

	tx := packet.UnsignedTx
	fetcher := txscript.NewMultiPrevOutFetcher(nil)
	for i, in := range tx.TxIn {
		if packet.Inputs[i].WitnessUtxo == nil {
			return nil, nil, fmt.Errorf("input %d without utxo", i)
		}
		fetcher.AddPrevOut(in.PreviousOutPoint, packet.Inputs[i].WitnessUtxo)
	}
	sh := txscript.NewTxSigHashes(tx, fetcher)
	for i := range tx.TxIn {
		in := &packet.Inputs[i]
		if len(in.FinalScriptWitness) > 0 {
			continue
		}
		if !bytes.Equal(in.WitnessUtxo.PkScript, w.walletScript()) {
			return nil, nil, fmt.Errorf("input %d is not ours", i)
		}
		wit, err := txscript.WitnessSignature(tx, sh, i, in.WitnessUtxo.Value, in.WitnessUtxo.PkScript,
			txscript.SigHashAll, w.priv, true)
		if err != nil {
			return nil, nil, err
		}
		var buf bytes.Buffer
		if err := psbt.WriteTxWitness(&buf, wit); err != nil {
			return nil, nil, err
		}
		in.FinalScriptWitness = buf.Bytes()
	}
	if err := psbt.MaybeFinalizeAll(packet); err != nil {
		return nil, nil, err
	}
	final, err := psbt.Extract(packet)
	return packet, final, err
}

type c04Store struct {
	acct         *account.Account
	pendingAsked bool
	updated      bool
}

func (s *c04Store) AddAccount(a *account.Account) error { s.acct = a; return nil }
func (s *c04Store) UpdateAccount(a *account.Account, mods ...account.Modifier) error {
	s.updated = true
	for _, m := range mods {
		m(a)
	}
	s.acct = a
	return nil
}
func (s *c04Store) Account(*btcec.PublicKey) (*account.Account, error) {
	return s.acct.Copy(), nil
}
func (s *c04Store) Accounts() ([]*account.Account, error) { return []*account.Account{s.acct}, nil }
func (s *c04Store) PendingBatch() error {
	s.pendingAsked = true
	return account.ErrNoPendingBatch
}
func (s *c04Store) MarkBatchComplete() error       { return nil }
func (s *c04Store) LockID() (wtxmgr.LockID, error) { return wtxmgr.LockID{1}, nil }

// c04Auctioneer co-signs like the auctioneer server: it reconstructs the
// spending transaction from what the trader sends and signs with its own key
// for the account parameters it was handed.
type c04Auctioneer struct {
	// truth (optional): the parameters of the output that is really on chain
	// according to the auctioneer's own records; it signs for those, not for
	// what the trader believes
	truth  *c04Keys
	priv   *btcec.PrivateKey
	signed *wire.MsgTx
	amount int64
	err    error
}

func (a *c04Auctioneer) ReserveAccount(context.Context, btcutil.Amount, uint32,
	*btcec.PublicKey, account.Version) (*account.Reservation, error) {
	return nil, errors.New("unused")
}
func (a *c04Auctioneer) InitAccount(context.Context, *account.Account) error { return nil }
func (a *c04Auctioneer) StartAccountSubscription(context.Context, *keychain.KeyDescriptor) error {
	return nil
}
func (a *c04Auctioneer) Terms(context.Context) (*terms.AuctioneerTerms, error) {
	return &terms.AuctioneerTerms{MaxAccountValue: 10_0000_0000}, nil
}

func (a *c04Auctioneer) ModifyAccount(_ context.Context, traderView *account.Account,
	inputs []*wire.TxIn, outputs []*wire.TxOut, mods []account.Modifier,
	traderNonces []byte, prevOutputs []*wire.TxOut) ([]byte, []byte, error) {

	acct := traderView
	if a.truth != nil {
		acct = traderView.Copy()
		acct.Expiry, acct.BatchKey, acct.Secret = a.truth.expiry, a.truth.batchKey, a.truth.secret
		acct.Version, acct.Value = a.truth.version, a.truth.value
	}
	tx := wire.NewMsgTx(2)
	tx.TxIn = append(tx.TxIn, &wire.TxIn{PreviousOutPoint: acct.OutPoint})
	for _, in := range inputs {
		tx.TxIn = append(tx.TxIn, in)
	}
	tx.TxOut = append(tx.TxOut, outputs...)
	if len(mods) > 0 {
		out, err := acct.Copy(mods...).Output()
		if err != nil {
			return nil, nil, err
		}
		tx.TxOut = append(tx.TxOut, out)
	}
	txsort.InPlaceSort(tx)
	a.signed = tx
	acctOut, err := acct.Output()
	if err != nil {
		return nil, nil, err
	}
	a.amount = acctOut.Value
	idx := 0
	for i, in := range tx.TxIn {
		if in.PreviousOutPoint == acct.OutPoint {
			idx = i
		}
	}

	k := &c04Keys{trader: nil, auct: a.priv, batchKey: acct.BatchKey, secret: acct.Secret,
		expiry: acct.Expiry, version: acct.Version}
	traderPub := acct.TraderKey.PubKey
	if acct.Version >= account.VersionTaprootEnabled {
		// MuSig2: create our session with the trader's nonces, sign.
		signer := newC04Signer(a.priv)
		var nonces poolscript.MuSig2Nonces
		copy(nonces[:], traderNonces)
		sess, _, err := poolscript.TaprootMuSig2SigningSession(context.Background(),
			acct.Version.ScriptVersion(), acct.Expiry, traderPub, acct.BatchKey, acct.Secret,
			a.priv.PubKey(), signer, &keychain.KeyLocator{}, &nonces)
		if err != nil {
			return nil, nil, err
		}
		if len(prevOutputs) != len(tx.TxIn) {
			return nil, nil, fmt.Errorf("prev outputs: %d for %d inputs", len(prevOutputs), len(tx.TxIn))
		}
		prevOutputs = append([]*wire.TxOut{}, prevOutputs...)
		prevOutputs[idx] = acctOut // the auctioneer knows what it co-funded
		ps, err := poolscript.TaprootMuSig2Sign(context.Background(), idx, sess, signer, tx,
			prevOutputs, nil, nil)
		if err != nil {
			return nil, nil, err
		}
		return ps, sess.PublicNonce[:], nil
	}
	_ = k
	tt := input.TweakPubKeyWithTweak(traderPub, poolscript.TraderKeyTweak(acct.BatchKey, acct.Secret, traderPub))
	apriv := input.TweakPrivKey(a.priv, input.SingleTweakBytes(tt, a.priv.PubKey()))
	ws, err := poolscript.AccountWitnessScript(acct.Expiry, traderPub, a.priv.PubKey(), acct.BatchKey, acct.Secret)
	if err != nil {
		return nil, nil, err
	}
	fetcher := txscript.NewCannedPrevOutputFetcher(acctOut.PkScript, acctOut.Value)
	sh := txscript.NewTxSigHashes(tx, fetcher)
	sig, err := txscript.RawTxInWitnessSignature(tx, sh, idx, acctOut.Value, ws, txscript.SigHashAll, apriv)
	if err != nil {
		return nil, nil, err
	}
	return sig, nil, nil
}

// ---------------------------------------------------------------------------
// Building spends
// ---------------------------------------------------------------------------

type c04Spend struct {
	tx       *wire.MsgTx // input 0 spends the account output, witness set
	idx      int
	sigs     []*c04SigRec
	prevOuts []*wire.TxOut // outputs spent by the other inputs (nil = default)
	buildErr string        // Pool refused to build the spend
	poolWit  bool          // the witness was assembled by Pool's Spend* functions
}

const c04Amount = 2_000_000

func c04BaseTx(lockTime, sequence uint32) *wire.MsgTx {
	tx := wire.NewMsgTx(2)
	tx.LockTime = lockTime
	tx.TxIn = []*wire.TxIn{{
		PreviousOutPoint: wire.OutPoint{Hash: [32]byte{1, 2, 3}, Index: 2},
		Sequence:         sequence,
	}}
	tx.TxOut = []*wire.TxOut{{Value: c04Amount - 800, PkScript: append([]byte{0, 20}, make([]byte, 20)...)}}
	return tx
}

// c04SignV0 signs tx input idx with priv over script code `code`.
func c04SignV0(tx *wire.MsgTx, idx int, amount int64, pkScript, code []byte,
	priv *btcec.PrivateKey, ht txscript.SigHashType) *c04SigRec {

	fetcher := txscript.NewCannedPrevOutputFetcher(pkScript, amount)
	sh := txscript.NewTxSigHashes(tx, fetcher)
	sig, err := txscript.RawTxInWitnessSignature(tx, sh, idx, amount, code, ht, priv)
	if err != nil {
		panic(err)
	}
	return &c04SigRec{sig: sig, pk: priv.PubKey().SerializeCompressed(), ver: 0,
		tx: c04TxTag(0, tx, amount, pkScript), code: code, ht: int(ht)}
}

func c04SignTapscript(tx *wire.MsgTx, idx int, amount int64, pkScript []byte,
	leaf txscript.TapLeaf, priv *btcec.PrivateKey) *c04SigRec {

	fetcher := txscript.NewCannedPrevOutputFetcher(pkScript, amount)
	sh := txscript.NewTxSigHashes(tx, fetcher)
	sig, err := txscript.RawTxInTapscriptSignature(tx, sh, idx, amount, pkScript, leaf,
		txscript.SigHashDefault, priv)
	if err != nil {
		panic(err)
	}
	return &c04SigRec{sig: sig, pk: schnorr.SerializePubKey(priv.PubKey()), ver: 2,
		tx: c04TxTag(2, tx, amount, pkScript), code: leaf.Script, ht: 0}
}

// c04MuSig2 runs a full two-party MuSig2 signing through Pool's
// TaprootMuSig2SigningSession / TaprootMuSig2Sign helpers with two in-process
// signers; the result is recorded as a signature of the aggregated output key.
func c04MuSig2(k *c04Keys, tx *wire.MsgTx, idx int, prevOuts []*wire.TxOut) ([]byte, error) {
	ctx := context.Background()
	ts, as := newC04Signer(k.trader), newC04Signer(k.auct)
	tSess, _, err := poolscript.TaprootMuSig2SigningSession(ctx, k.scriptVersion(), k.expiry,
		k.trader.PubKey(), k.batchKey, k.secret, k.auct.PubKey(), ts, &c04TraderLoc, nil)
	if err != nil {
		return nil, err
	}
	var tn poolscript.MuSig2Nonces = tSess.PublicNonce
	aSess, _, err := poolscript.TaprootMuSig2SigningSession(ctx, k.scriptVersion(), k.expiry,
		k.trader.PubKey(), k.batchKey, k.secret, k.auct.PubKey(), as, &keychain.KeyLocator{}, &tn)
	if err != nil {
		return nil, err
	}
	aPart, err := poolscript.TaprootMuSig2Sign(ctx, idx, aSess, as, tx, prevOuts, nil, nil)
	if err != nil {
		return nil, err
	}
	var an poolscript.MuSig2Nonces = aSess.PublicNonce
	var ap [input.MuSig2PartialSigSize]byte
	copy(ap[:], aPart)
	return poolscript.TaprootMuSig2Sign(ctx, idx, tSess, ts, tx, prevOuts, &an, &ap)
}

func c04KeySpendRec(k *c04Keys, sig []byte, tx *wire.MsgTx, amount int64, pkScript []byte) *c04SigRec {
	agg, _, _ := k.taproot()
	return &c04SigRec{sig: sig, pk: schnorr.SerializePubKey(agg.FinalKey), ver: 1,
		tx: c04TxTag(1, tx, amount, pkScript), ht: 0}
}

// c04Direct builds the spend by calling the poolscript functions directly.
func c04Direct(p *c04Params) *c04Spend {
	ck, sk := p.chainKeys(), p.signKeys()
	tx := c04BaseTx(p.LockTime, p.Sequence)
	sp := &c04Spend{tx: tx, poolWit: true}
	amount := int64(c04Amount)
	// what the signer believes it spends
	spk := sk.pkScript()
	signTx := tx
	if p.Kind == "otherTx" {
		signTx = tx.Copy()
		signTx.TxOut[0].Value--
	}

	if p.Version == 0 {
		code := sk.witnessScript()
		tSig := c04SignV0(signTx, 0, amount, spk, code, sk.tweakedTraderPriv(), txscript.SigHashAll)
		aSig := c04SignV0(signTx, 0, amount, spk, code, sk.tweakedAuctPriv(), txscript.SigHashAll)
		ws := code
		if p.Rescript {
			ws = ck.witnessScript()
		}
		switch p.Kind {
		case "joint", "otherTx":
			sp.sigs = []*c04SigRec{tSig, aSig}
			tx.TxIn[0].Witness = poolscript.SpendMultiSig(ws, tSig.sig, aSig.sig)
		case "expiry":
			sp.sigs = []*c04SigRec{tSig}
			tx.TxIn[0].Witness = poolscript.SpendExpiry(ws, tSig.sig)
		case "auctOnly":
			sp.sigs = []*c04SigRec{aSig}
			sp.poolWit = false
			tx.TxIn[0].Witness = wire.TxWitness{aSig.sig, nil, ws}
		case "swapped":
			sp.sigs = []*c04SigRec{tSig, aSig}
			sp.poolWit = false
			tx.TxIn[0].Witness = poolscript.SpendMultiSig(ws, aSig.sig, tSig.sig)
		default:
			panic("kind " + p.Kind)
		}
		return sp
	}

	_, sLeaf, sCb := sk.taproot()
	_, cLeaf, cCb := ck.taproot()
	switch p.Kind {
	case "joint", "otherTx":
		prev := []*wire.TxOut{{Value: amount, PkScript: spk}}
		sig, err := c04MuSig2(sk, signTx, 0, prev)
		if err != nil {
			sp.buildErr = err.Error()
			return sp
		}
		sp.sigs = []*c04SigRec{c04KeySpendRec(sk, sig, signTx, amount, spk)}
		tx.TxIn[0].Witness = poolscript.SpendMuSig2Taproot(sig)
	case "expiry":
		tSig := c04SignTapscript(signTx, 0, amount, spk, *sLeaf, sk.tweakedTraderPriv())
		sp.sigs = []*c04SigRec{tSig}
		script, cb := sLeaf.Script, sCb
		if p.Rescript {
			script, cb = cLeaf.Script, cCb
		}
		tx.TxIn[0].Witness = poolscript.SpendExpiryTaproot(script, tSig.sig, cb)
	case "auctOnly", "traderOnlyKey":
		// a lone party signs the key path with its own (tweaked) key
		priv := sk.auct
		if p.Kind == "traderOnlyKey" {
			priv = sk.tweakedTraderPriv()
		}
		fetcher := txscript.NewCannedPrevOutputFetcher(spk, amount)
		sh := txscript.NewTxSigHashes(tx, fetcher)
		sig, err := txscript.RawTxInTaprootSignature(tx, sh, 0, amount, spk, nil,
			txscript.SigHashDefault, priv)
		if err != nil {
			panic(err)
		}
		pk := txscript.ComputeTaprootKeyNoScript(priv.PubKey())
		sp.sigs = []*c04SigRec{{sig: sig, pk: schnorr.SerializePubKey(pk), ver: 1,
			tx: c04TxTag(1, tx, amount, spk), ht: 0}}
		sp.poolWit = false
		tx.TxIn[0].Witness = poolscript.SpendMuSig2Taproot(sig)
	default:
		panic("kind " + p.Kind)
	}
	return sp
}

// c04Manager builds the spend through account.manager.CloseAccount /
// RenewAccount with in-process wallet, signer and co-signing auctioneer.
func c04Manager(p *c04Params) *c04Spend {
	sk := p.signKeys()
	state := account.StateOpen
	if p.StateExpired {
		state = account.StateExpired
	}
	acct := sk.acct(state)
	store := &c04Store{acct: acct}
	wallet := &c04Wallet{priv: sk.trader}
	auct := &c04Auctioneer{priv: sk.auct}
	signer := newC04Signer(sk.trader)
	mgr := account.NewManager(&account.ManagerConfig{
		Store: store, Auctioneer: auct, Wallet: wallet, Signer: signer,
		TxSource: nil, TxFeeEstimator: nil,
		ChainParams: &chaincfg.TestNet3Params,
		LndVersion:  &verrpc.Version{AppMajor: 0, AppMinor: 15, AppPatch: 1},
	})
	sp := &c04Spend{poolWit: true}
	var (
		tx  *wire.MsgTx
		err error
	)
	feeRate := chainfee.SatPerKWeight(300)
	newVersion := account.Version(p.NewVersion)
	if newVersion < acct.Version {
		newVersion = acct.Version
	}
	switch p.Path {
	case "close":
		tx, err = mgr.CloseAccount(context.Background(), acct.TraderKey.PubKey,
			&account.OutputWithFee{
				PkScript: append([]byte{0, 20}, make([]byte, 20)...), FeeRate: feeRate,
			}, p.LockTime)
	case "renew":
		_, tx, err = mgr.RenewAccount(context.Background(), acct.TraderKey.PubKey,
			p.LockTime+2000, feeRate, p.LockTime, newVersion)
	case "deposit":
		newExpiry := uint32(0)
		if p.NewExpiryDelta != 0 {
			newExpiry = p.LockTime + p.NewExpiryDelta
		}
		_, tx, err = mgr.DepositAccount(context.Background(), acct.TraderKey.PubKey, 250_000, feeRate,
			p.LockTime, newExpiry, newVersion)
	case "withdraw":
		newExpiry := uint32(0)
		if p.NewExpiryDelta != 0 {
			newExpiry = p.LockTime + p.NewExpiryDelta
		}
		_, tx, err = mgr.WithdrawAccount(context.Background(), acct.TraderKey.PubKey,
			[]*wire.TxOut{{Value: 60_000, PkScript: append([]byte{0, 20}, make([]byte, 20)...)}},
			feeRate, p.LockTime, newExpiry, newVersion)
	}
	if err != nil {
		sp.buildErr = err.Error()
		return sp
	}
	sp.tx = tx
	sp.idx = 0
	sp.prevOuts = make([]*wire.TxOut, len(tx.TxIn))
	for i, in := range tx.TxIn {
		if in.PreviousOutPoint == acct.OutPoint {
			sp.idx = i
		} else {
			sp.prevOuts[i] = &wire.TxOut{Value: c04WalletUtxoValue, PkScript: wallet.walletScript()}
		}
	}
	c04Describe(sp, sk, int64(sk.value))
	return sp
}

// c04Describe records which keys signed what for a witness produced by a Pool
// code path for signing account sk: it is derived from the *shape* Pool gave
// the witness and the parameters the signers were handed, never from the
// engine.
func c04Describe(sp *c04Spend, sk *c04Keys, amount int64) {
	w := sp.tx.TxIn[sp.idx].Witness
	spk := sk.pkScript()
	if sk.version == account.VersionInitialNoVersion {
		code := sk.witnessScript()
		tag := c04TxTag(0, sp.tx, amount, spk)
		if len(w) == 3 {
			if len(w[1]) > 0 {
				sp.sigs = append(sp.sigs, &c04SigRec{sig: w[1], pk: sk.tweakedTrader().SerializeCompressed(),
					ver: 0, tx: tag, code: code, ht: int(txscript.SigHashAll)})
			}
			if len(w[0]) > 0 {
				sp.sigs = append(sp.sigs, &c04SigRec{sig: w[0], pk: sk.tweakedAuct().SerializeCompressed(),
					ver: 0, tx: tag, code: code, ht: int(txscript.SigHashAll)})
			}
		}
		return
	}
	agg, leaf, _ := sk.taproot()
	switch len(w) {
	case 1:
		sp.sigs = append(sp.sigs, &c04SigRec{sig: w[0], pk: schnorr.SerializePubKey(agg.FinalKey), ver: 1,
			tx: c04TxTag(1, sp.tx, amount, spk), ht: 0})
	case 3:
		sp.sigs = append(sp.sigs, &c04SigRec{sig: w[0], pk: schnorr.SerializePubKey(sk.tweakedTrader()), ver: 2,
			tx: c04TxTag(2, sp.tx, amount, spk), code: leaf.Script, ht: 0})
	}
}

// c04BPriv finds the private key of a key of the shared batch generator's
// key pool (bKey(i) = pub(sha256("verif-batch-key-i"))).
func c04BPriv(pubHex string) *btcec.PrivateKey {
	for i := 0; i < 400; i++ {
		if bKeyHex(i) == pubHex {
			h := sha256.Sum256([]byte(fmt.Sprintf("verif-batch-key-%d", i)))
			priv, _ := btcec.PrivKeyFromBytes(h[:])
			return priv
		}
	}
	return nil
}

// c04OrderStore: the shared order store mock plus the staging call BatchSign
// makes before it signs (accepted, nothing persisted).
type c04OrderStore struct {
	*bStore
	// staged: the account records as the database holds them once the batch
	// is complete (the staged account modifiers applied)
	staged map[[33]byte]*account.Account
}

func (s *c04OrderStore) StorePendingBatch(_ *order.Batch, _ []order.Nonce, _ [][]order.Modifier,
	accts []*account.Account, mods [][]account.Modifier) error {

	s.staged = map[[33]byte]*account.Account{}
	for i, a := range accts {
		var k [33]byte
		copy(k[:], a.TraderKey.PubKey.SerializeCompressed())
		var ms []account.Modifier
		if i < len(mods) {
			ms = mods[i]
		}
		s.staged[k] = a.Copy(ms...)
	}
	return nil
}

// c04RunMgrBatch sends an honest batch proposal (matched orders, fees, channel
// and re-created account outputs, expiry extensions and version upgrades
// according to the batch version) through the REAL order manager as wired by
// Start(): OrderMatchValidate (verifier) and then BatchSign (signer), with a
// real in-process lnd signer. What BatchSign releases is combined with the
// auctioneer's signatures for the accounts' CURRENT on-chain outputs and
// judged by the engine.
func c04RunMgrBatch(r *Run, p *c04Params) {
	j0 := c04Judged
	defer func() {
		// a case whose spends never reached the engine still counts once
		if c04Judged == j0 {
			r.Evaluations++
		}
	}()
	r.Count("path/mgrbatch")
	var c bCase
	if err := json.Unmarshal(p.MgrCase, &c); err != nil {
		r.Count("mgrbatch/bad-case")
		return
	}
	tSigner := &c04MultiSigner{byPub: map[string]*c04Signer{}}
	s := &bSession{
		store:   &bStore{orders: map[order.Nonce]order.Order{}},
		accts:   &bAcctStore{accts: map[[33]byte]*account.Account{}},
		version: c.Env.Version,
	}
	ln := test.NewMockLightning()
	ln.NodePubkey = c.Env.OurNode
	ostore := &c04OrderStore{bStore: s.store}
	m := order.NewManager(&order.ManagerConfig{
		Store: ostore, AcctStore: s.accts, Lightning: ln, Wallet: &bWallet{}, Signer: tSigner,
		BatchVersion: order.BatchVersion(c.Env.Version),
	})
	if err := m.Start(); err != nil {
		r.Count("mgrbatch/start-error")
		return
	}
	defer m.Stop()
	s.mgr = m
	if err := c.install(s); err != nil {
		r.Count("mgrbatch/bad-case")
		return
	}

	diffOf := map[string]*bDiff{}
	for i := range c.Msg.Diffs {
		d := &c.Msg.Diffs[i]
		if _, dup := diffOf[d.AcctKey]; !dup {
			diffOf[d.AcctKey] = d
		}
	}
	var ents []*c04Ent
	for i := range c.Env.Accounts {
		a := &c.Env.Accounts[i]
		acct, ok := s.accts.accts[bHex33(a.Key)]
		tp, ap := c04BPriv(a.Key), c04BPriv(a.Auctioneer)
		if !ok || tp == nil || ap == nil {
			r.Count("mgrbatch/bad-case")
			return
		}
		h := sha256.Sum256([]byte(a.Key))
		acct.OutPoint = wire.OutPoint{Hash: h, Index: uint32(i)}
		acct.TraderKey.KeyLocator = keychain.KeyLocator{Family: poolscript.AccountKeyFamily, Index: uint32(i)}
		acct.LatestTx = wire.NewMsgTx(2)
		sg := newC04Signer(tp)
		tSigner.byPub[string(tp.PubKey().SerializeCompressed())] = sg
		tSigner.locs = append(tSigner.locs, sg)
		d, charged := diffOf[a.Key]
		if !charged {
			continue
		}
		e := &c04Ent{acct: acct, key: bHex33(a.Key),
			k: &c04Keys{trader: tp, auct: ap, batchKey: acct.BatchKey, secret: acct.Secret, expiry: a.Expiry,
				version: account.Version(a.Version), value: btcutil.Amount(a.Value)},
			a: &c04BatchAcct{Version: a.Version, Trader: hex.EncodeToString(tp.Serialize()), Expiry: a.Expiry,
				Value: a.Value, NewExpiry: d.NewExpiry, NewVersion: uint8(d.NewVersion),
				EndingBalance: int64(d.EndingBalance)}}
		ents = append(ents, e)
		if d.NewExpiry != 0 {
			r.Count("mgrbatch/new-expiry")
		}
		if uint8(d.NewVersion) != a.Version {
			r.Count("mgrbatch/new-version")
		}
	}

	batch, err := order.ParseRPCBatch(c.prepareMsg())
	if err != nil {
		r.Count("mgrbatch/parse-rejected")
		return
	}
	tx := batch.BatchTX
	prevOuts := []*wire.TxOut{{Value: 50_000_000, PkScript: append([]byte{0, 20}, make([]byte, 20)...)}}
	for len(prevOuts) < len(tx.TxIn) {
		prevOuts = append(prevOuts, prevOuts[0])
	}
	idxOf := map[wire.OutPoint]int{}
	aSigners := map[string]*c04Signer{}
	sess := map[[33]byte]*input.MuSig2SessionInfo{}
	batch.ServerNonces = order.AccountNonces{}
	var aSigner *c04Signer
	for _, e := range ents {
		idxOf[e.acct.OutPoint] = len(tx.TxIn)
		tx.AddTxIn(&wire.TxIn{PreviousOutPoint: e.acct.OutPoint})
		prevOuts = append(prevOuts, &wire.TxOut{Value: int64(e.k.value), PkScript: e.k.pkScript()})
		ah := hex.EncodeToString(e.k.auct.Serialize())
		if aSigners[ah] == nil {
			aSigners[ah] = newC04Signer(e.k.auct)
		}
		aSigner = aSigners[ah]
		e.asig = aSigner
	}
	batch.PreviousOutputs = prevOuts
	for _, e := range ents {
		if e.k.version >= account.VersionTaprootEnabled {
			si, _, err := poolscript.TaprootMuSig2SigningSession(context.Background(), e.k.scriptVersion(),
				e.k.expiry, e.k.trader.PubKey(), e.k.batchKey, e.k.secret, e.k.auct.PubKey(), e.asig,
				&keychain.KeyLocator{}, nil)
			if err != nil {
				r.Count("mgrbatch/bad-case")
				return
			}
			sess[e.key] = si
			batch.ServerNonces[e.key] = si.PublicNonce
		}
	}

	var (
		sigs   order.BatchSignature
		nonces order.AccountNonces
		verr   error
		serr   error
	)
	func() {
		defer func() {
			if x := recover(); x != nil {
				verr = fmt.Errorf("panic: %v", x)
			}
		}()
		verr = m.OrderMatchValidate(batch, c.Best)
	}()
	if verr != nil {
		r.Count("mgrbatch/rejected")
		return
	}
	r.Count("mgrbatch/accepted")
	for i := range c.Env.Orders {
		if c.Env.Orders[i].Sidecar != 0 {
			r.Count("mgrbatch/with-sidecar-bid")
			break
		}
	}
	if len(ents) == 0 {
		return
	}
	func() {
		defer func() {
			if x := recover(); x != nil {
				serr = fmt.Errorf("panic: %v", x)
				if os.Getenv("C04_DEBUG") != "" {
					fmt.Fprintf(os.Stderr, "%s\n", debug.Stack())
				}
			}
		}()
		sigs, nonces, serr = m.BatchSign()
	}()
	if serr != nil {
		r.Count("build-error/mgrbatch")
		r.Violate("Pool could not sign the batch it accepted: "+serr.Error(), "C04/build-error", p)
		return
	}
	nViolBefore := len(r.Violations)
	c04FinishBatch(r, p, "mgrbatch", ents, nil, tx, prevOuts, idxOf, sess, aSigner, sigs, nonces)

	// ---- the history continues: the batch confirms, the staged account
	// records become the stored ones, and the trader later spends each
	// re-created output through the account manager with the STORED record
	if len(r.Violations) > nViolBefore {
		return // this case already has its failing input
	}
	for _, e := range ents {
		d := diffOf[hex.EncodeToString(e.key[:])]
		if d == nil || d.EndingState != 0 || d.OutpointIndex < 0 || int(d.OutpointIndex) >= len(tx.TxOut) {
			continue
		}
		stored := ostore.staged[e.key]
		if stored == nil {
			r.Count("oracle/violation")
			r.Violate("BatchSign staged no record for a charged account whose output is re-created",
				"C04/followup-unstaged", p)
			continue
		}
		inc := 9
		if stored.BatchKey.IsEqual(poolscript.IncrementKey(e.k.batchKey)) {
			inc = 1
		} else if stored.BatchKey.IsEqual(e.k.batchKey) {
			inc = 0
		}
		r.Emit(fmt.Sprintf("C04 stage %s %s %d %d %d %d %d %d", c04B(bSupportsExt(c.Msg.Version)),
			c04B(bSupportsUpgrade(c.Msg.Version)), int64(e.k.value), e.k.expiry, e.k.version, d.EndingBalance,
			d.NewExpiry, d.NewVersion), fmt.Sprintf("%d %d %d %d", int64(stored.Value), stored.Expiry,
			stored.Version, inc))
		r.Count("stage")
		out := tx.TxOut[d.OutpointIndex]
		truth := &c04Keys{trader: e.k.trader, auct: e.k.auct, batchKey: poolscript.IncrementKey(e.k.batchKey),
			secret: e.k.secret, expiry: e.k.expiry, version: e.k.version, value: btcutil.Amount(out.Value)}
		if bSupportsExt(c.Msg.Version) && d.NewExpiry != 0 {
			truth.expiry = d.NewExpiry
		}
		if bSupportsUpgrade(c.Msg.Version) && d.NewVersion&0xff > uint32(truth.version) && d.NewVersion&0xff < 3 {
			truth.version = account.Version(d.NewVersion)
		}
		if !bytes.Equal(truth.pkScript(), out.PkScript) {
			r.Count("followup/harness-view-differs")
			continue
		}
		switch {
		case d.NewExpiry == 0:
			r.Count("followup/expiry-unchanged")
		case d.NewExpiry < e.k.expiry:
			r.Count("followup/expiry-lowered")
		case d.NewExpiry == e.k.expiry:
			r.Count("followup/expiry-same")
		default:
			r.Count("followup/expiry-raised")
		}
		c04FollowUp(r, p, stored, truth, tx.TxHash(), uint32(d.OutpointIndex), d.EndingBalance%2 == 0)
	}
}

// c04MinCloseValue: below this an account output cannot pay the fee of its own
// close plus a non-dust output at the harness's fee rate.
const c04MinCloseValue = 2000

// c04FollowUp spends a re-created account output through the account manager
// (CloseAccount, cooperative before expiry or trader-only after it) using the
// record the trader STORED for it, with an auctioneer that signs for what is
// really on chain (truth), and judges the spend against the on-chain output.
func c04FollowUp(r *Run, p *c04Params, stored *account.Account, truth *c04Keys, txid [32]byte, index uint32,
	afterExpiry bool) {

	stored = stored.Copy()
	stored.State = account.StateOpen
	stored.OutPoint = wire.OutPoint{Hash: txid, Index: index}
	if stored.LatestTx == nil {
		stored.LatestTx = wire.NewMsgTx(2)
	}
	best := stored.Expiry
	if truth.expiry < best {
		best = truth.expiry
	}
	best-- // before both expiries: cooperative close
	if afterExpiry {
		best = stored.Expiry
		if truth.expiry > best {
			best = truth.expiry
		}
		best++
	}
	store := &c04Store{acct: stored}
	wallet := &c04Wallet{priv: truth.trader}
	auct := &c04Auctioneer{priv: truth.auct, truth: truth}
	mgr := account.NewManager(&account.ManagerConfig{
		Store: store, Auctioneer: auct, Wallet: wallet, Signer: newC04Signer(truth.trader),
		ChainParams: &chaincfg.TestNet3Params,
		LndVersion:  &verrpc.Version{AppMajor: 0, AppMinor: 15, AppPatch: 1},
	})
	var (
		tx  *wire.MsgTx
		err error
	)
	func() {
		defer func() {
			if x := recover(); x != nil {
				err = fmt.Errorf("panic: %v", x)
			}
		}()
		tx, err = mgr.CloseAccount(context.Background(), stored.TraderKey.PubKey, &account.OutputWithFee{
			PkScript: append([]byte{0, 20}, make([]byte, 20)...), FeeRate: chainfee.SatPerKWeight(300),
		}, best)
	}()
	r.Count("path/followup")
	kind := "followup-coop"
	if afterExpiry {
		kind = "followup-expiry"
	}
	r.Count("kind/" + kind)
	if err != nil && int64(truth.value) < c04MinCloseValue {
		// the re-created output is too small to pay for its own close
		r.Count("followup/too-small-to-close")
		return
	}
	if err != nil {
		r.Count("oracle/violation")
		r.Violate(fmt.Sprintf("Pool cannot spend the account output re-created by the batch it signed, using its stored "+
			"record (stored expiry %d version %d; on chain: expiry %d version %d): %v", stored.Expiry, stored.Version,
			truth.expiry, truth.version, err), "C04/followup", p)
		return
	}
	sp := &c04Spend{tx: tx, poolWit: true}
	for i, in := range tx.TxIn {
		if in.PreviousOutPoint == stored.OutPoint {
			sp.idx = i
		}
	}
	// who signed what: the trader for its stored record, the auctioneer for
	// the on-chain parameters
	sk := &c04Keys{trader: truth.trader, auct: truth.auct, batchKey: stored.BatchKey, secret: stored.Secret,
		expiry: stored.Expiry, version: stored.Version, value: stored.Value}
	w := tx.TxIn[sp.idx].Witness
	amount := int64(truth.value)
	if stored.Version == account.VersionInitialNoVersion && len(w) == 3 {
		if len(w[1]) > 0 {
			sp.sigs = append(sp.sigs, &c04SigRec{sig: w[1], pk: sk.tweakedTrader().SerializeCompressed(), ver: 0,
				tx: c04TxTag(0, tx, int64(stored.Value), sk.pkScript()), code: sk.witnessScript(),
				ht: int(txscript.SigHashAll)})
		}
		if len(w[0]) > 0 && truth.version == account.VersionInitialNoVersion {
			sp.sigs = append(sp.sigs, &c04SigRec{sig: w[0], pk: truth.tweakedAuct().SerializeCompressed(), ver: 0,
				tx: c04TxTag(0, tx, amount, truth.pkScript()), code: truth.witnessScript(),
				ht: int(txscript.SigHashAll)})
		}
	} else {
		c04Describe(sp, sk, int64(stored.Value))
	}
	pj := &c04Params{Path: "followup", Kind: "manager", Version: uint8(truth.version), Expiry: truth.expiry,
		Value: int64(truth.value), LockTime: best}
	c04Judge(r, pj, p, truth, sp, amount, nil)
}

// c04Ent is one account taking part in a batch.
type c04Ent struct {
	asig *c04Signer // the auctioneer's signer holding this account's MuSig2 session (nil = shared one)
	k    *c04Keys
	acct *account.Account
	key  [33]byte
	a    *c04BatchAcct
}

// c04RunBatch builds a batch transaction that spends several accounts of the
// trader (mixed versions, in the order of Batch.AccountDiffs) and re-creates
// them according to their diffs (ending balance, new expiry, new version,
// next batch key). Pool's batchSigner signs for the trader; the harness plays
// the auctioneer, who signs for each account's CURRENT on-chain output, and
// assembles every witness with Pool's Spend* functions. Every account input
// is then judged by the engine against its current on-chain output.
func c04RunBatch(r *Run, p *c04Params) {
	j0 := c04Judged
	defer func() {
		// a case whose spends never reached the engine still counts once
		if c04Judged == j0 {
			r.Evaluations++
		}
	}()
	r.Count("path/batch")
	r.Count(fmt.Sprintf("batch/accounts-%d", len(p.Accts)))
	auct := c04Priv(p.Auct)
	var ents []*c04Ent
	byKey := map[[33]byte]*c04Ent{}
	mixedTapFirst, sawTap := false, false
	for i := range p.Accts {
		a := &p.Accts[i]
		k := &c04Keys{trader: c04Priv(a.Trader), auct: auct, batchKey: c04BatchKey(p.Batch, a.BatchInc),
			secret: c04Secret(a.Secret), expiry: a.Expiry, version: account.Version(a.Version),
			value: btcutil.Amount(a.Value)}
		e := &c04Ent{k: k, acct: k.acct(account.StateOpen), a: a}
		h := sha256.Sum256([]byte(a.Trader))
		e.acct.OutPoint = wire.OutPoint{Hash: h, Index: uint32(i)}
		e.acct.TraderKey.KeyLocator = keychain.KeyLocator{Family: poolscript.AccountKeyFamily, Index: uint32(i)}
		copy(e.key[:], k.trader.PubKey().SerializeCompressed())
		ents = append(ents, e)
		byKey[e.key] = e
		if a.Version > 0 {
			sawTap = true
		} else if sawTap {
			mixedTapFirst = true
		}
		if a.NewExpiry != 0 {
			r.Count("batch/new-expiry")
		}
		if a.NewVersion != a.Version {
			r.Count("batch/new-version")
		}
	}
	if mixedTapFirst {
		r.Count("batch/taproot-before-legacy")
	}

	// the batch transaction
	dummy := append([]byte{0, 20}, make([]byte, 20)...)
	tx := wire.NewMsgTx(2)
	tx.LockTime = p.LockTime
	prevByOp := map[wire.OutPoint]*wire.TxOut{}
	other := wire.OutPoint{Hash: [32]byte{9}, Index: 1}
	tx.TxIn = append(tx.TxIn, &wire.TxIn{PreviousOutPoint: other})
	prevByOp[other] = &wire.TxOut{Value: 700_000, PkScript: dummy}
	var diffs []*order.AccountDiff
	fail := func(msg string) {
		r.Count("build-error/batch")
		r.Violate("Pool could not build the spend: "+msg, "C04/build-error", p)
	}
	for _, e := range ents {
		tx.TxIn = append(tx.TxIn, &wire.TxIn{PreviousOutPoint: e.acct.OutPoint})
		prevByOp[e.acct.OutPoint] = &wire.TxOut{Value: int64(e.k.value), PkScript: e.k.pkScript()}
		mods := []account.Modifier{account.ValueModifier(btcutil.Amount(e.a.EndingBalance)),
			account.IncrementBatchKey()}
		if e.a.NewExpiry != 0 {
			mods = append(mods, account.ExpiryModifier(e.a.NewExpiry))
		}
		if e.a.NewVersion > e.a.Version {
			mods = append(mods, account.VersionModifier(account.Version(e.a.NewVersion)))
		}
		d := &order.AccountDiff{AccountKeyRaw: e.key, AccountKey: e.k.trader.PubKey(),
			EndingBalance: btcutil.Amount(e.a.EndingBalance), NewExpiry: e.a.NewExpiry,
			NewVersion: account.Version(e.a.NewVersion), OutpointIndex: -1}
		if e.a.EndingBalance > 0 {
			out, err := e.acct.Copy(mods...).Output()
			if err != nil {
				fail(err.Error())
				return
			}
			tx.TxOut = append(tx.TxOut, out)
		}
		diffs = append(diffs, d)
	}
	tx.TxOut = append(tx.TxOut, &wire.TxOut{Value: 400_000, PkScript: append([]byte{0, 32}, make([]byte, 32)...)})
	txsort.InPlaceSort(tx)
	prevOuts := make([]*wire.TxOut, len(tx.TxIn))
	idxOf := map[wire.OutPoint]int{}
	for i, in := range tx.TxIn {
		prevOuts[i] = prevByOp[in.PreviousOutPoint]
		idxOf[in.PreviousOutPoint] = i
	}
	batch := &order.Batch{
		Version: order.BatchVersion(p.BatchVersion), AccountDiffs: diffs, BatchTX: tx,
		PreviousOutputs: prevOuts, ServerNonces: order.AccountNonces{}, HeightHint: 100,
	}

	// auctioneer: one MuSig2 session per taproot account, for the parameters
	// of the output that is on chain now
	aSigner := newC04Signer(auct)
	sess := map[[33]byte]*input.MuSig2SessionInfo{}
	for _, e := range ents {
		if e.k.version >= account.VersionTaprootEnabled {
			si, _, err := poolscript.TaprootMuSig2SigningSession(context.Background(), e.k.scriptVersion(),
				e.k.expiry, e.k.trader.PubKey(), e.k.batchKey, e.k.secret, auct.PubKey(), aSigner,
				&keychain.KeyLocator{}, nil)
			if err != nil {
				fail(err.Error())
				return
			}
			sess[e.key] = si
			batch.ServerNonces[e.key] = si.PublicNonce
		}
	}

	// the trader: Pool's batch signer over a signer that knows all its keys
	tSigner := &c04MultiSigner{byPub: map[string]*c04Signer{}}
	for _, e := range ents {
		s := newC04Signer(e.k.trader)
		tSigner.byPub[string(e.key[:])] = s
		tSigner.locs = append(tSigner.locs, s)
	}
	bs := order.VerifC04NewBatchSigner(func(k *btcec.PublicKey) (*account.Account, error) {
		var kk [33]byte
		copy(kk[:], k.SerializeCompressed())
		e, ok := byKey[kk]
		if !ok {
			return nil, errors.New("no such account")
		}
		return e.acct.Copy(), nil
	}, tSigner)
	var (
		sigs   order.BatchSignature
		nonces order.AccountNonces
		err    error
	)
	func() {
		defer func() {
			if x := recover(); x != nil {
				err = fmt.Errorf("panic: %v", x)
			}
		}()
		sigs, nonces, err = bs.Sign(batch)
	}()
	if err != nil {
		fail("batchSigner.Sign: " + err.Error())
		return
	}

	c04FinishBatch(r, p, "batch", ents, auct, tx, prevOuts, idxOf, sess, aSigner, sigs, nonces)
}

// c04FinishBatch: the auctioneer adds its signatures for each account's
// CURRENT on-chain output to what the trader's batch signer released, the
// witnesses are assembled with Pool's Spend* functions and every account
// input is judged by the engine.
func c04FinishBatch(r *Run, p *c04Params, path string, ents []*c04Ent, auct *btcec.PrivateKey, tx *wire.MsgTx,
	prevOuts []*wire.TxOut, idxOf map[wire.OutPoint]int, sess map[[33]byte]*input.MuSig2SessionInfo,
	aSigner *c04Signer, sigs order.BatchSignature, nonces order.AccountNonces) {

	for _, e := range ents {
		idx := idxOf[e.acct.OutPoint]
		amount := int64(e.k.value)
		spk := e.k.pkScript()
		sp := &c04Spend{tx: tx, idx: idx, poolWit: true}
		pj := &c04Params{Path: path, Kind: "joint", Version: e.a.Version, Trader: e.a.Trader, Auct: p.Auct,
			Batch: p.Batch, BatchInc: e.a.BatchInc, Secret: e.a.Secret, Expiry: e.a.Expiry, Value: e.a.Value,
			LockTime: tx.LockTime}
		r.Count(fmt.Sprintf("version/%d", e.a.Version))
		released, ok := sigs[e.key]
		if !ok || len(released) == 0 {
			r.Count("oracle/violation")
			r.Violate(fmt.Sprintf("batch signer released no signature for account input %d (version %d) of the batch",
				idx, e.a.Version), "C04/batch-missing-sig", p)
			continue
		}
		if e.k.version >= account.VersionTaprootEnabled {
			var tn poolscript.MuSig2Nonces = nonces[e.key]
			var tp [input.MuSig2PartialSigSize]byte
			if len(released) != len(tp) {
				r.Count("oracle/violation")
				r.Violate(fmt.Sprintf("signature released for taproot account input %d is %d bytes, not a MuSig2 "+
					"partial signature", idx, len(released)), "C04/batch-sig-shape", p)
				continue
			}
			copy(tp[:], released)
			as := aSigner
			if e.asig != nil {
				as = e.asig
			}
			final, err := poolscript.TaprootMuSig2Sign(context.Background(), idx, sess[e.key], as, tx,
				prevOuts, &tn, &tp)
			if err != nil {
				r.Count("oracle/violation")
				r.Violate(fmt.Sprintf("the trader's MuSig2 partial signature for account input %d (version %d, "+
					"expiry %d, diff new expiry %d) does not combine into a valid signature for the current "+
					"on-chain output: %v", idx, e.a.Version, e.a.Expiry, e.a.NewExpiry, err),
					"C04/batch-musig2", p)
				continue
			}
			tx.TxIn[idx].Witness = poolscript.SpendMuSig2Taproot(final)
			agg, _, _ := e.k.taproot()
			sp.sigs = []*c04SigRec{{sig: final, pk: schnorr.SerializePubKey(agg.FinalKey), ver: 1,
				tx: c04TxTag(1, tx, amount, spk), ht: 0}}
		} else {
			tSig := append(append([]byte{}, released...), byte(txscript.SigHashAll))
			code := e.k.witnessScript()
			aRec := c04SignV0Multi(tx, idx, prevOuts, code, e.k.tweakedAuctPriv())
			tx.TxIn[idx].Witness = poolscript.SpendMultiSig(code, tSig, aRec.sig)
			sp.sigs = []*c04SigRec{aRec, {sig: tSig, pk: e.k.tweakedTrader().SerializeCompressed(), ver: 0,
				tx: c04TxTag(0, tx, amount, spk), code: code, ht: int(txscript.SigHashAll)}}
		}
		c04Judge(r, pj, p, e.k, sp, amount, prevOuts)
	}
}

// c04SignV0Multi: BIP143 signature for input idx of a multi-input tx.
func c04SignV0Multi(tx *wire.MsgTx, idx int, prevOuts []*wire.TxOut, code []byte,
	priv *btcec.PrivateKey) *c04SigRec {

	fetcher := txscript.NewMultiPrevOutFetcher(nil)
	for i, in := range tx.TxIn {
		fetcher.AddPrevOut(in.PreviousOutPoint, prevOuts[i])
	}
	sh := txscript.NewTxSigHashes(tx, fetcher)
	sig, err := txscript.RawTxInWitnessSignature(tx, sh, idx, prevOuts[idx].Value, code, txscript.SigHashAll, priv)
	if err != nil {
		panic(err)
	}
	return &c04SigRec{sig: sig, pk: priv.PubKey().SerializeCompressed(), ver: 0,
		tx: c04TxTag(0, tx, prevOuts[idx].Value, prevOuts[idx].PkScript), code: code, ht: int(txscript.SigHashAll)}
}

// c04MultiSigner routes signer calls to the key named by the key descriptor /
// key locator index (one lnd node holding several account keys).
type c04MultiSigner struct {
	lndclient.SignerClient
	byPub map[string]*c04Signer
	locs  []*c04Signer
	sess  map[[32]byte]*c04Signer
}

func (m *c04MultiSigner) pick(loc keychain.KeyLocator, pub *btcec.PublicKey) (*c04Signer, error) {
	if pub != nil {
		if s, ok := m.byPub[string(pub.SerializeCompressed())]; ok {
			return s, nil
		}
	}
	if int(loc.Index) < len(m.locs) {
		return m.locs[loc.Index], nil
	}
	return nil, errors.New("c04MultiSigner: unknown key")
}

func (m *c04MultiSigner) SignOutputRaw(ctx context.Context, tx *wire.MsgTx,
	descs []*lndclient.SignDescriptor, prev []*wire.TxOut) ([][]byte, error) {

	var res [][]byte
	for _, d := range descs {
		s, err := m.pick(d.KeyDesc.KeyLocator, d.KeyDesc.PubKey)
		if err != nil {
			return nil, err
		}
		x, err := s.SignOutputRaw(ctx, tx, []*lndclient.SignDescriptor{d}, prev)
		if err != nil {
			return nil, err
		}
		res = append(res, x...)
	}
	return res, nil
}

func (m *c04MultiSigner) MuSig2CreateSession(ctx context.Context, version input.MuSig2Version,
	loc *keychain.KeyLocator, signers [][]byte,
	opts ...lndclient.MuSig2SessionOpts) (*input.MuSig2SessionInfo, error) {

	s, err := m.pick(*loc, nil)
	if err != nil {
		return nil, err
	}
	si, err := s.MuSig2CreateSession(ctx, version, loc, signers, opts...)
	if err == nil {
		if m.sess == nil {
			m.sess = map[[32]byte]*c04Signer{}
		}
		m.sess[si.SessionID] = s
	}
	return si, err
}

func (m *c04MultiSigner) of(id [32]byte) (*c04Signer, error) {
	if s, ok := m.sess[id]; ok {
		return s, nil
	}
	return nil, errors.New("c04MultiSigner: unknown session")
}

func (m *c04MultiSigner) MuSig2RegisterNonces(ctx context.Context, id [32]byte, n [][66]byte) (bool, error) {
	s, err := m.of(id)
	if err != nil {
		return false, err
	}
	return s.MuSig2RegisterNonces(ctx, id, n)
}

func (m *c04MultiSigner) MuSig2Sign(ctx context.Context, id [32]byte, msg [32]byte, c bool) ([]byte, error) {
	s, err := m.of(id)
	if err != nil {
		return nil, err
	}
	return s.MuSig2Sign(ctx, id, msg, c)
}

func (m *c04MultiSigner) MuSig2CombineSig(ctx context.Context, id [32]byte, o [][]byte) (bool, []byte, error) {
	s, err := m.of(id)
	if err != nil {
		return false, nil, err
	}
	return s.MuSig2CombineSig(ctx, id, o)
}

func (m *c04MultiSigner) MuSig2Cleanup(ctx context.Context, id [32]byte) error {
	s, err := m.of(id)
	if err != nil {
		return err
	}
	return s.MuSig2Cleanup(ctx, id)
}

// ---------------------------------------------------------------------------
// Engine + oracle
// ---------------------------------------------------------------------------

func c04ErrName(err error) string {
	if err == nil {
		return "ok"
	}
	var se txscript.Error
	if errors.As(err, &se) {
		switch se.ErrorCode {
		case txscript.ErrControlBlockTooSmall, txscript.ErrControlBlockTooLarge,
			txscript.ErrControlBlockInvalidLength:
			return "ErrControlBlock"
		}
		return se.ErrorCode.String()
	}
	return "non-script-error:" + err.Error()
}

func c04Witness(w wire.TxWitness) string {
	if len(w) == 0 {
		return "_"
	}
	parts := make([]string, len(w))
	for i, e := range w {
		parts[i] = c04Hex(e)
	}
	return strings.Join(parts, ",")
}

func c04Classify(w wire.TxWitness) string {
	switch {
	case poolscript.IsExpirySpend(w) || poolscript.IsTaprootExpirySpend(w):
		return "expiry"
	case poolscript.IsMultiSigSpend(w) || poolscript.IsTaprootMultiSigSpend(w):
		return "multisig"
	}
	return "unknown"
}

// c04HandlerClass runs the real manager.HandleAccountSpend on the spend and
// reports which branch of its switch was taken: the cooperative branch is the
// only one that asks the store for a pending batch; an unknown witness is an
// error.
func c04HandlerClass(k *c04Keys, tx *wire.MsgTx, idx int) (class string) {
	store := &c04Store{acct: k.acct(account.StatePendingClosed)}
	mgr := account.NewManager(&account.ManagerConfig{
		Store: store, Auctioneer: &c04Auctioneer{}, Wallet: &c04Wallet{}, Signer: newC04Signer(k.trader),
		ChainParams: &chaincfg.TestNet3Params,
		LndVersion:  &verrpc.Version{AppMajor: 0, AppMinor: 15, AppPatch: 1},
	})
	defer func() {
		if e := recover(); e != nil {
			class = "multisig"
			if !store.pendingAsked {
				class = fmt.Sprintf("panic:%v", e)
			}
		}
	}()
	err := mgr.HandleAccountSpend(k.trader.PubKey(), &chainntnfs.SpendDetail{
		SpendingTx: tx, SpenderInputIndex: uint32(idx), SpendingHeight: 100,
	})
	// which branch was taken is read off the store calls, never off an error
	// text: the cooperative branch is the only one asking for a pending
	// batch; the expiry branch goes straight to the closing update; an
	// unknown witness returns an error without touching the store
	switch {
	case store.pendingAsked:
		return "multisig"
	case store.updated && err == nil:
		return "expiry"
	case err != nil && !store.updated:
		return "unknown"
	}
	return "inconclusive"
}

func c04B(b bool) string {
	if b {
		return "1"
	}
	return "0"
}

// c04Run executes one case: builds the spend, runs the real engine on the
// chain account's output, emits the model op and evaluates the oracle.
func c04Run(r *Run, p *c04Params) {
	if p.Path == "batch" {
		c04RunBatch(r, p)
		return
	}
	if p.Path == "mgrbatch" {
		c04RunMgrBatch(r, p)
		return
	}
	ck := p.chainKeys()
	var sp *c04Spend
	func() {
		defer func() {
			if e := recover(); e != nil {
				sp = &c04Spend{buildErr: fmt.Sprintf("panic: %v", e)}
				if os.Getenv("C04_DEBUG") != "" {
					fmt.Fprintf(os.Stderr, "%s\n", debug.Stack())
				}
			}
		}()
		switch p.Path {
		case "direct":
			sp = c04Direct(p)
		case "close", "renew", "withdraw", "deposit":
			sp = c04Manager(p)
		default:
			sp = &c04Spend{buildErr: "unknown path"}
		}
	}()
	j0 := c04Judged
	defer func() {
		// a case whose spends never reached the engine still counts once
		if c04Judged == j0 {
			r.Evaluations++
		}
	}()
	r.Count("path/" + p.Path)
	r.Count(fmt.Sprintf("version/%d", p.Version))
	if sp.buildErr == "" || ((p.Path == "withdraw" || p.Path == "deposit") && !p.StateExpired &&
		p.LockTime >= p.signExpiry()) {
		// built, or refused where a refusal is the documented behaviour
		c04EmitMgrWT(r, p, sp)
	}
	if sp.buildErr != "" {
		r.Count("build-error/" + p.Path)
		// Pool refusing to build a spend is only acceptable for the cases
		// where it must refuse.
		// (withdrawals from an expired account are documented as unsupported)
		sk := p.signKeys()
		expectRefusal := (p.Path == "withdraw" || p.Path == "deposit") &&
			(p.StateExpired || p.LockTime >= sk.expiry)
		if !expectRefusal {
			r.Violate("Pool could not build the spend: "+sp.buildErr, "C04/build-error", p)
		} else {
			r.Count("refused/" + p.Path + "-expired")
			if !p.StateExpired {
				r.Emit(fmt.Sprintf("C04 mgrlock %d %d %d %d 0", p.Version, account.StateOpen, sk.expiry, p.LockTime), "err")
				r.Count("mgrlock")
			}
		}
		return
	}
	if p.Path == "withdraw" || p.Path == "deposit" {
		sk := p.signKeys()
		r.Emit(fmt.Sprintf("C04 mgrlock %d %d %d %d 0", p.Version, account.StateOpen, sk.expiry, p.LockTime),
			fmt.Sprintf("%d %d", sp.tx.LockTime, sp.tx.TxIn[sp.idx].Sequence))
		r.Count("mgrlock")
	}

	if p.Path == "close" {
		sk := p.signKeys()
		st := account.StateOpen
		if p.StateExpired {
			st = account.StateExpired
		}
		r.Emit(fmt.Sprintf("C04 mgrlock %d %d %d %d 1", p.Version, st, sk.expiry, p.LockTime),
			fmt.Sprintf("%d %d", sp.tx.LockTime, sp.tx.TxIn[sp.idx].Sequence))
		r.Count("mgrlock")
	}

	amount := int64(ck.value)
	if p.Path == "direct" {
		amount = c04Amount
	}
	c04Judge(r, p, p, ck, sp, amount, sp.prevOuts)
}

var c04Methods = map[string]string{"close": "CloseAccount", "renew": "RenewAccount",
	"withdraw": "WithdrawAccount", "deposit": "DepositAccount"}

// c04WitnessShape names the witness type of a witness Pool built for an
// account of the given version, from its shape alone.
func c04WitnessShape(version uint8, w wire.TxWitness) string {
	switch {
	case version == 0 && len(w) == 3 && len(w[0]) == 0:
		return "expiryWitness"
	case version == 0 && len(w) == 3:
		return "multiSigWitness"
	case version > 0 && len(w) == 1:
		return "muSig2Taproot"
	case version > 0 && len(w) == 3:
		return "expiryTaproot"
	}
	return fmt.Sprintf("shape-%d", len(w))
}

// c04EmitMgrWT compares the witness type, lock time and input sequence a
// manager method chose (observed on the transaction it built, or its refusal)
// with the model's tables.
func c04EmitMgrWT(r *Run, p *c04Params, sp *c04Spend) {
	method, ok := c04Methods[p.Path]
	if !ok {
		return
	}
	sk := p.signKeys()
	st := account.StateOpen
	if p.StateExpired {
		st = account.StateExpired
	}
	op := fmt.Sprintf("C04 mgrwt %s %d %d %d %d", method, p.Version, st, sk.expiry, p.LockTime)
	if sp.buildErr != "" {
		if p.StateExpired && p.Path != "close" {
			return // refused before the witness type is chosen (state check)
		}
		name, _, _ := account.VerifC04DetermineWitnessType(account.Version(p.Version), st, sk.expiry, p.LockTime)
		r.Emit(op, name+" err")
	} else {
		r.Emit(op, fmt.Sprintf("%s %d %d", c04WitnessShape(p.Version, sp.tx.TxIn[sp.idx].Witness),
			sp.tx.LockTime, sp.tx.TxIn[sp.idx].Sequence))
	}
	r.Count("mgrwt/" + method)
}

// c04Judged counts the spends handed to c04Judge (see Run.Evaluations).
var c04Judged int

// c04Judge runs the real engine on input sp.idx of sp.tx against the chain
// account's CURRENT on-chain output, emits the model op and evaluates the
// oracle. prevOuts (optional) are the outputs spent by all inputs.
func c04Judge(r *Run, p *c04Params, replay interface{}, ck *c04Keys, sp *c04Spend, amount int64,
	prevOuts []*wire.TxOut) {
	// every spend judged by the engine is one evaluation
	c04Judged++
	r.Evaluations++

	// manager paths with rescript: swap in the chain account's script
	pkScript := ck.pkScript()
	w := sp.tx.TxIn[sp.idx].Witness
	if p.Rescript && p.Path != "direct" {
		if p.Version == 0 && len(w) == 3 {
			w[2] = ck.witnessScript()
		} else if p.Version > 0 && len(w) == 3 {
			_, leaf, cb := ck.taproot()
			w[1], w[2] = leaf.Script, cb
		}
	}

	// the real engine
	prevs := txscript.NewMultiPrevOutFetcher(nil)
	for i, in := range sp.tx.TxIn {
		if i == sp.idx {
			prevs.AddPrevOut(in.PreviousOutPoint, &wire.TxOut{Value: amount, PkScript: pkScript})
		} else if prevOuts != nil {
			prevs.AddPrevOut(in.PreviousOutPoint, prevOuts[i])
		} else {
			prevs.AddPrevOut(in.PreviousOutPoint, &wire.TxOut{Value: 5000,
				PkScript: append([]byte{0, 20}, make([]byte, 20)...)})
		}
	}
	sh := txscript.NewTxSigHashes(sp.tx, prevs)
	var verdict string
	func() {
		defer func() {
			if e := recover(); e != nil {
				verdict = fmt.Sprintf("panic:%v", e)
			}
		}()
		vm, err := txscript.NewEngine(pkScript, sp.tx, sp.idx, txscript.StandardVerifyFlags, nil, sh,
			amount, prevs)
		if err == nil {
			err = vm.Execute()
		}
		verdict = c04ErrName(err)
	}()
	class := c04Classify(w)

	// ---- model op ---------------------------------------------------------
	sigs := "_"
	if len(sp.sigs) > 0 {
		parts := make([]string, len(sp.sigs))
		for i, s := range sp.sigs {
			parts[i] = s.String()
		}
		sigs = strings.Join(parts, ",")
	}
	lockTime, seq := sp.tx.LockTime, sp.tx.TxIn[sp.idx].Sequence
	if p.Version == 0 {
		tag := c04TxTag(0, sp.tx, amount, pkScript)
		r.Emit(fmt.Sprintf("C04 p2wsh %d %d %s %s %s %s", lockTime, seq, c04Hex(pkScript[2:]), tag,
			c04Witness(w), sigs), verdict+" "+class)
	} else {
		// commitments known by construction: the chain account's own leaf
		// and control block
		_, leaf, cb := ck.taproot()
		tag := c04TxTag(1, sp.tx, amount, pkScript)
		r.Emit(fmt.Sprintf("C04 taproot %d %d %s %s %s %s %s:%s", lockTime, seq, c04Hex(pkScript[2:]), tag,
			c04Witness(w), sigs, c04Hex(cb), c04Hex(leaf.Script)), verdict+" "+class)
	}
	r.Count("verdict/" + verdict)
	r.Count("kind/" + p.Kind)
	if p.Foreign != "" {
		r.Count("foreign/" + p.Foreign)
	}

	// ---- oracle: the English statement on the engine's verdicts -------------
	ok := verdict == "ok"
	foreign := p.Foreign != "" && !c04SameParams(p)
	wellTyped := lockTime < txscript.LockTimeThreshold && p.Expiry < txscript.LockTimeThreshold
	isExpiryShape := (p.Version == 0 && len(w) == 3 && len(w[0]) == 0) || (p.Version > 0 && len(w) == 3)
	var expect, what string
	switch {
	case foreign || p.Kind == "otherTx":
		expect, what = "invalid", "a signature made for another batch key / secret / expiry / transaction must be invalid"
	case p.Kind == "auctOnly" || p.Kind == "traderOnlyKey" || p.Kind == "swapped":
		expect, what = "invalid", "a spend without both parties' signatures in the cooperative path must be invalid"
	case isExpiryShape:
		// trader alone: valid iff the lock time has reached the expiry
		if wellTyped && lockTime >= p.Expiry && seq != wire.MaxTxInSequenceNum && p.Expiry != 0 {
			expect, what = "valid", "a trader-only spend whose lock time has reached the expiry must be valid"
		} else {
			expect, what = "invalid", "a trader-only spend with an earlier lock time must be invalid"
		}
	default:
		expect, what = "valid", "a spend signed by trader and auctioneer must be valid at any lock time"
	}
	if (p.Path == "close" || p.Path == "renew" || p.Path == "withdraw" || p.Path == "deposit" ||
		p.Path == "followup") && !foreign && expect == "invalid" &&
		!(p.StateExpired && p.LockTime < p.Expiry) {
		// Pool's own spend of its own account must be valid, except in the
		// stated corner (State == Expired handed a best height below expiry)
		expect, what = "valid", "the spend Pool's account manager builds for its own account must be valid"
	}
	r.Count("expect/" + expect)
	if (expect == "valid") != ok {
		r.Count("oracle/violation")
		r.Violate(fmt.Sprintf("%s; engine verdict %s (path %s, kind %s, version %d, expiry %d, lock time %d)",
			what, verdict, p.Path, p.Kind, p.Version, p.Expiry, lockTime), "C04/spend", replay)
	}
	// classification: a Pool-built witness is classified like the path it takes
	if sp.poolWit && p.Expiry < 1<<23 && p.signExpiry() < 1<<23 {
		want := "multisig"
		if isExpiryShape {
			want = "expiry"
		}
		if hc := c04HandlerClass(ck, sp.tx, sp.idx); hc != class {
			r.Count("oracle/violation")
			r.Violate(fmt.Sprintf("manager.HandleAccountSpend takes the %s branch for a witness the classifiers "+
				"put in %s (version %d, expiry %d)", hc, class, p.Version, p.Expiry), "C04/handler", replay)
		} else {
			r.Count("handler/" + hc)
		}
		if class != want {
			r.Count("oracle/violation")
			r.Violate(fmt.Sprintf("handler classifies a Pool-built %s spend as %s (version %d, expiry %d)",
				want, class, p.Version, p.Expiry), "C04/classification", replay)
		}
		r.Count("class/" + class)
	}
	if ok {
		r.Distinct(fmt.Sprintf("%s|%s|%d|%d|%d|%s", p.Path, p.Kind, p.Version, p.Expiry, lockTime, p.Trader))
	}
	r.Sample(map[string]interface{}{"path": p.Path, "kind": p.Kind, "version": p.Version,
		"expiry": p.Expiry, "lock_time": lockTime, "foreign": p.Foreign, "verdict": verdict, "class": class})
}

// c04SameParams: the "foreign" value happens to equal the real one.
func c04SameParams(p *c04Params) bool {
	switch p.Foreign {
	case "batchkey":
		return p.ForeignBatchInc == p.BatchInc
	case "secret":
		return p.ForeignSecret == p.Secret
	case "expiry":
		return p.ForeignExpiry == p.Expiry
	}
	return true
}

// ---------------------------------------------------------------------------
// Pure-function streams and the generator
// ---------------------------------------------------------------------------

var c04Boundaries = []uint32{1, 2, 15, 16, 17, 18, 126, 127, 128, 129, 255, 256, 257, 32766, 32767, 32768,
	32769, 52560, 65535, 65536, 1<<23 - 2, 1<<23 - 1}

func c04RandHex(r *Run, n int) string {
	b := make([]byte, n)
	r.Rng.Read(b)
	if b[0] == 0 {
		b[0] = 1
	}
	return hex.EncodeToString(b)
}

func c04Expiry(r *Run) uint32 {
	switch r.Rng.Intn(10) {
	case 0, 1, 2, 3, 4, 5:
		return c04Boundaries[r.Rng.Intn(len(c04Boundaries))]
	case 6:
		return uint32(1 + r.Rng.Intn(1<<23-1))
	case 7:
		return uint32(1 + r.Rng.Intn(70000))
	default:
		return uint32(1 + r.Rng.Intn(1<<16))
	}
}

func c04Gen(r *Run) *c04Params {
	p := &c04Params{
		Version: uint8(r.Rng.Intn(3)), Trader: c04RandHex(r, 32), Auct: c04RandHex(r, 32),
		Batch: c04RandHex(r, 32), BatchInc: r.Rng.Intn(201), Secret: c04RandHex(r, 32),
		Expiry: c04Expiry(r), Value: 500_000 + int64(r.Rng.Intn(5_000_000)),
	}
	if r.Rng.Intn(4) == 0 {
		p.BatchInc = []int{0, 1, 200}[r.Rng.Intn(3)]
	}
	lts := []uint32{p.Expiry - 1, p.Expiry, p.Expiry + 1}
	p.LockTime = lts[r.Rng.Intn(3)]
	switch x := r.Rng.Intn(100); {
	case x < 36:
		p.Path = "direct"
	case x < 52:
		p.Path = "close"
	case x < 60:
		p.Path = "renew"
	case x < 66:
		p.Path = "withdraw"
	case x < 72:
		p.Path = "deposit"
	case x < 80:
		p.Path = "mgrbatch"
	default:
		p.Path = "batch"
	}
	switch p.Path {
	case "direct":
		kinds := []string{"joint", "joint", "expiry", "expiry", "expiry", "auctOnly", "otherTx", "swapped", "traderOnlyKey"}
		p.Kind = kinds[r.Rng.Intn(len(kinds))]
		if p.Version == 0 && p.Kind == "traderOnlyKey" {
			p.Kind = "expiry"
		}
		if p.Version > 0 && p.Kind == "swapped" {
			p.Kind = "joint"
		}
		if r.Rng.Intn(12) == 0 {
			p.Sequence = wire.MaxTxInSequenceNum
		} else if r.Rng.Intn(3) == 0 {
			p.Sequence = uint32(r.Rng.Intn(1 << 31))
		}
		if p.Kind == "joint" && r.Rng.Intn(3) == 0 {
			p.LockTime = []uint32{0, uint32(r.Rng.Intn(1 << 24))}[r.Rng.Intn(2)]
		}
	case "close":
		// the manager decides the path from best height / state
		p.Kind = "manager"
		p.StateExpired = r.Rng.Intn(6) == 0
	case "renew":
		p.Kind = "manager"
		p.StateExpired = r.Rng.Intn(4) == 0
		if !p.StateExpired && p.LockTime >= p.Expiry {
			// renew of an Open account at/after expiry takes the same
			// cooperative path; keep some of them
			if r.Rng.Intn(2) == 0 {
				p.LockTime = p.Expiry - 1
			}
		}
	case "withdraw", "deposit":
		p.Kind = "manager"
		if r.Rng.Intn(3) != 0 && p.LockTime >= p.Expiry {
			p.LockTime = p.Expiry - 1
		}
		if r.Rng.Intn(2) == 0 {
			p.NewExpiryDelta = uint32(1000 + r.Rng.Intn(3000))
		}
	case "mgrbatch":
		p.Kind = "joint"
		g := &bGen{rng: r.Rng, prop: "C04"}
		var c *bCase
		for try := 0; try < 10; try++ {
			c = g.genCase(g.pickVersion(), try)
			if len(c.Devs) == 0 {
				break
			}
		}
		// the auctioneer picks the new expiry of one account freely: below,
		// equal to or above the current one (the trader only bounds it from
		// above); everything else is re-settled consistently
		if len(c.Devs) == 0 && len(c.Env.Accounts) > 0 && bSupportsExt(c.Msg.Version) && r.Rng.Intn(2) == 0 {
			ai := r.Rng.Intn(len(c.Env.Accounts))
			cur := c.Env.Accounts[ai].Expiry
			v := cur
			switch r.Rng.Intn(5) {
			case 0, 1:
				if cur > 2 {
					v = cur - uint32(1+r.Rng.Intn(int(min(cur-1, 3000))))
				}
			case 2:
				v = cur
			default:
				v = cur + uint32(1+r.Rng.Intn(3000))
			}
			if uint64(v) <= uint64(c.Best)+uint64(bMaxAccountExpiry) && v != 0 {
				h := &bHostile{expiry: map[int]uint32{ai: v}, version: map[int]uint32{}, dup: -1, keepValues: true}
				g.settle(c, h)
				c.Devs = []string{}
			}
		}
		js, _ := json.Marshal(c)
		p.MgrCase = js
		return p
	case "batch":
		p.Kind = "joint"
		p.LockTime = []uint32{0, 0, uint32(r.Rng.Intn(1 << 20))}[r.Rng.Intn(3)]
		p.BatchVersion = uint32(order.LatestBatchVersion)
		if r.Rng.Intn(8) == 0 {
			p.BatchVersion = uint32([]order.BatchVersion{order.DefaultBatchVersion, order.ExtendAccountBatchVersion,
				order.UpgradeAccountTaprootBatchVersion}[r.Rng.Intn(3)])
		}
		n := 1 + r.Rng.Intn(4)
		for i := 0; i < n; i++ {
			a := c04BatchAcct{Version: uint8(r.Rng.Intn(3)), Trader: c04RandHex(r, 32),
				BatchInc: p.BatchInc, Secret: c04RandHex(r, 32), Expiry: c04Expiry(r),
				Value: 500_000 + int64(r.Rng.Intn(5_000_000))}
			if i == 0 {
				a.Version, a.Expiry = p.Version, p.Expiry
			}
			a.NewVersion = a.Version
			if order.BatchVersion(p.BatchVersion).SupportsAccountTaprootUpgrade() && r.Rng.Intn(3) == 0 {
				a.NewVersion = a.Version + uint8(r.Rng.Intn(int(3-a.Version)))
				if a.NewVersion == 2 && !order.BatchVersion(p.BatchVersion).SupportsAccountTaprootV2Upgrade() {
					a.NewVersion = a.Version
				}
			}
			if order.BatchVersion(p.BatchVersion).SupportsAccountExtension() && r.Rng.Intn(2) == 0 {
				a.NewExpiry = a.Expiry + uint32(1+r.Rng.Intn(4000))
				if x := r.Rng.Intn(5); x == 0 && a.Expiry > 2 {
					a.NewExpiry = a.Expiry - uint32(1+r.Rng.Intn(int(min(a.Expiry-1, 3000))))
				} else if x == 1 {
					a.NewExpiry = a.Expiry
				}
			}
			a.EndingBalance = a.Value - int64(1000+r.Rng.Intn(200_000))
			if r.Rng.Intn(10) == 0 {
				a.EndingBalance = 0
			}
			p.Accts = append(p.Accts, a)
		}
	}
	if p.Path == "renew" || p.Path == "withdraw" || p.Path == "deposit" {
		p.NewVersion = p.Version
		if r.Rng.Intn(3) == 0 {
			p.NewVersion = p.Version + uint8(r.Rng.Intn(int(3-p.Version)))
		}
	}
	if (p.Kind == "joint" || p.Kind == "expiry" || p.Kind == "manager") && p.Path != "batch" && r.Rng.Intn(4) == 0 {
		p.Foreign = []string{"batchkey", "secret", "expiry"}[r.Rng.Intn(3)]
		p.ForeignBatchInc = p.BatchInc + 1 + r.Rng.Intn(3)
		p.ForeignSecret = c04RandHex(r, 32)
		p.ForeignExpiry = p.Expiry + uint32(1+r.Rng.Intn(2))
		if r.Rng.Intn(2) == 0 && p.Expiry > 2 {
			p.ForeignExpiry = p.Expiry - 1
		}
		p.Rescript = r.Rng.Intn(2) == 0
		if p.Foreign == "expiry" && (p.Kind == "expiry" || p.Kind == "manager") {
			// keep the foreign lock time able to satisfy both expiries so
			// that only the signature decides
			if p.LockTime < p.ForeignExpiry {
				p.LockTime = p.ForeignExpiry
			}
		}
	}
	return p
}

func c04Pure(r *Run) {
	// script numbers and AddInt64 opcode selection
	n := uint64(r.Rng.Int63n(1 << 32))
	switch r.Rng.Intn(4) {
	case 0:
		n = uint64(c04Boundaries[r.Rng.Intn(len(c04Boundaries))])
	case 1:
		n = uint64(1)<<uint(r.Rng.Intn(33)) - uint64(r.Rng.Intn(2))
	}
	if n > 1<<32-1 {
		n = 1<<32 - 1
	}
	b := txscript.NewScriptBuilder().AddInt64(int64(n))
	s, err := b.Script()
	out := c04Hex(s)
	if err != nil {
		out = "err"
	}
	r.Emit(fmt.Sprintf("C04 int64 %d", n), out)
	r.Count("pure/int64")

	// MakeScriptNum on the pushed bytes and on mutated encodings
	var v []byte
	if len(s) > 1 {
		v = append([]byte{}, s[1:]...)
	} else if len(s) == 1 && s[0] >= txscript.OP_1 && s[0] <= txscript.OP_16 {
		v = []byte{s[0] - txscript.OP_1 + 1}
	}
	switch r.Rng.Intn(5) {
	case 0:
		v = append(v, 0)
	case 1:
		v = append(v, 0x80)
	case 2:
		if len(v) > 0 {
			v[len(v)-1] |= 0x80
		}
	}
	minimal := r.Rng.Intn(4) != 0
	maxLen := []int{4, 5, 5, 5}[r.Rng.Intn(4)]
	num, err := txscript.MakeScriptNum(v, minimal, maxLen)
	res := fmt.Sprintf("%d", int64(num))
	if err != nil {
		res = c04ErrName(err)
	}
	r.Emit(fmt.Sprintf("C04 mknum %s %s %d", c04Hex(v), c04B(minimal), maxLen), res)
	r.Count("pure/mknum")
}

func c04Scripts(r *Run) {
	k := (&c04Params{Trader: c04RandHex(r, 32), Auct: c04RandHex(r, 32), Batch: c04RandHex(r, 32),
		BatchInc: r.Rng.Intn(5), Secret: c04RandHex(r, 32), Expiry: c04Expiry(r), Version: 1}).chainKeys()
	if r.Rng.Intn(8) == 0 {
		k.expiry = []uint32{0, 1 << 23, 1<<31 - 1, 1 << 31, 1<<32 - 1}[r.Rng.Intn(5)]
	}
	tk, ak := k.tweakedTrader().SerializeCompressed(), k.tweakedAuct().SerializeCompressed()
	r.Emit(fmt.Sprintf("C04 wscript %d %s %s", k.expiry, c04Hex(tk), c04Hex(ak)), c04Hex(k.witnessScript()))
	_, leaf, _ := k.taproot()
	r.Emit(fmt.Sprintf("C04 tscript %d %s", k.expiry, c04Hex(schnorr.SerializePubKey(k.tweakedTrader()))),
		c04Hex(leaf.Script))
	r.Count("pure/scripts")
}

func c04ClassifyOp(r *Run, w wire.TxWitness) {
	out := c04B(poolscript.IsExpirySpend(w)) + c04B(poolscript.IsTaprootExpirySpend(w)) +
		c04B(poolscript.IsMultiSigSpend(w)) + c04B(poolscript.IsTaprootMultiSigSpend(w)) +
		c04B(poolscript.VerifC04HasAnnex(w)) + " " + c04Classify(w)
	r.Emit("C04 classify "+c04Witness(w), out)
	r.Count("pure/classify")
}

// c04RandWitness: malformed / boundary witnesses for the classifiers.
func c04RandWitness(r *Run) wire.TxWitness {
	n := r.Rng.Intn(6)
	w := make(wire.TxWitness, n)
	for i := range w {
		var l int
		switch r.Rng.Intn(8) {
		case 0:
			l = 0
		case 1:
			l = 64
		case 2:
			l = 33
		case 3:
			l = 35 + r.Rng.Intn(6)
		case 4:
			l = 32 + r.Rng.Intn(3)
		default:
			l = r.Rng.Intn(80)
		}
		e := make([]byte, l)
		r.Rng.Read(e)
		if l > 0 {
			switch r.Rng.Intn(6) {
			case 0:
				e[0] = txscript.TaprootAnnexTag
			case 1:
				e[0] = 0xc0 + byte(r.Rng.Intn(3))
			case 2:
				e[0] = txscript.OP_DATA_32
				e[l-1] = txscript.OP_CHECKLOCKTIMEVERIFY
			}
		}
		w[i] = e
	}
	return w
}

func c04WType(r *Run) {
	v := r.Rng.Intn(4)
	if r.Rng.Intn(10) == 0 {
		v = 77
	}
	st := r.Rng.Intn(10)
	e := c04Expiry(r)
	best := []uint32{e - 1, e, e + 1, uint32(r.Rng.Intn(1 << 24))}[r.Rng.Intn(4)]
	wt, isExp, size := account.VerifC04DetermineWitnessType(account.Version(v), account.State(st), e, best)
	r.Emit(fmt.Sprintf("C04 wtype %d %d %d %d", v, st, e, best),
		fmt.Sprintf("%s %s %d", wt, c04B(isExp), size))
	r.Count("pure/wtype")
}

func runC04(r *Run) {
	r.Rule = "random trader/auctioneer/batch keys and secrets, batch key incremented 0..200 times, expiries on " +
		"every script-number length boundary below 2^23, lock time expiry-1/expiry/expiry+1, account versions 0..2; " +
		"spends built by poolscript directly, by account.manager Close/Renew (in-process wallet, MuSig2 signer, " +
		"co-signing auctioneer) and by order.batchSigner; negatives: trader-only early, auctioneer-only, swapped, " +
		"other transaction, foreign batch key / secret / expiry; non-trivial = distinct spend the engine accepts"

	for _, raw := range r.FixedCases() {
		var p c04Params
		if json.Unmarshal(raw, &p) != nil || p.Path == "" {
			continue
		}
		r.Count("case/fixed")
		c04Run(r, &p)
	}
	if r.ReplayFile != "" {
		return
	}
	for c := 0; c < r.N; c++ {
		if len(r.Violations) >= 20 {
			break // enough failing inputs; do not spend the budget on more
		}
		p := c04Gen(r)
		c04Run(r, p)
		// classification of the witness Pool built and of a random one
		c04Pure(r)
		if c%2 == 0 {
			c04Scripts(r)
		}
		c04ClassifyOp(r, c04RandWitness(r))
		c04WType(r)
	}
}
