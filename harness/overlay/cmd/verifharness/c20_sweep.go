//go:build verif

package main

// The REAL auctioneer.Client.RecoverAccounts key sweep against an in-process
// fake auction stream (bufconn gRPC server that performs the 3-way handshake
// and answers each key as unknown / reservation-only / full account).

import (
	"bytes"
	"context"
	"fmt"
	"net"
	"strings"
	"sync"
	"time"

	"github.com/btcsuite/btcd/btcec/v2"
	"github.com/btcsuite/btcd/wire"
	"github.com/lightninglabs/lndclient"
	"github.com/lightninglabs/pool/account"
	"github.com/lightninglabs/pool/auctioneer"
	"github.com/lightninglabs/pool/auctioneerrpc"
	"github.com/lightninglabs/pool/clientdb"
	"github.com/lightninglabs/pool/internal/test"
	"github.com/lightninglabs/pool/order"
	"github.com/lightninglabs/pool/poolscript"
	"github.com/lightningnetwork/lnd/keychain"
	"google.golang.org/grpc"
	"google.golang.org/grpc/test/bufconn"
)

type c20NoBatch struct{}

func (c20NoBatch) PendingBatchSnapshot() (*clientdb.LocalBatchSnapshot, error) {
	return nil, account.ErrNoPendingBatch
}

type c20Answer struct {
	kind byte // 'u' unknown, 'r' reservation only, 'f' full account
	acct *auctioneerrpc.AuctionAccount
}

type c20Server struct {
	auctioneerrpc.UnimplementedChannelAuctioneerServer
	mu         sync.Mutex
	answers    map[string]c20Answer
	handshakes []string // trader keys in the order of their Subscribe messages
	recovers   []string
}

func (s *c20Server) Terms(context.Context, *auctioneerrpc.TermsRequest) (*auctioneerrpc.TermsResponse, error) {
	return &auctioneerrpc.TermsResponse{}, nil
}

func (s *c20Server) SubscribeBatchAuction(st auctioneerrpc.ChannelAuctioneer_SubscribeBatchAuctionServer) error {
	for {
		m, err := st.Recv()
		if err != nil {
			return nil
		}
		switch {
		case m.GetCommit() != nil:
			h := m.GetCommit().CommitHash
			_ = st.Send(&auctioneerrpc.ServerAuctionMessage{Msg: &auctioneerrpc.ServerAuctionMessage_Challenge{
				Challenge: &auctioneerrpc.ServerChallenge{Challenge: bytes.Repeat([]byte{7}, 32), CommitHash: h},
			}})
		case m.GetSubscribe() != nil:
			k := m.GetSubscribe().TraderKey
			s.mu.Lock()
			s.handshakes = append(s.handshakes, string(k))
			a := s.answers[string(k)]
			s.mu.Unlock()
			switch a.kind {
			case 'f':
				_ = st.Send(&auctioneerrpc.ServerAuctionMessage{Msg: &auctioneerrpc.ServerAuctionMessage_Success{
					Success: &auctioneerrpc.SubscribeSuccess{TraderKey: k},
				}})
			case 'r':
				_ = st.Send(&auctioneerrpc.ServerAuctionMessage{Msg: &auctioneerrpc.ServerAuctionMessage_Error{
					Error: &auctioneerrpc.SubscribeError{
						Error: "reservation only", TraderKey: k,
						ErrorCode:          auctioneerrpc.SubscribeError_INCOMPLETE_ACCOUNT_RESERVATION,
						AccountReservation: a.acct,
					},
				}})
			default:
				_ = st.Send(&auctioneerrpc.ServerAuctionMessage{Msg: &auctioneerrpc.ServerAuctionMessage_Error{
					Error: &auctioneerrpc.SubscribeError{
						Error: "account does not exist", TraderKey: k,
						ErrorCode: auctioneerrpc.SubscribeError_ACCOUNT_DOES_NOT_EXIST,
					},
				}})
			}
		case m.GetRecover() != nil:
			k := m.GetRecover().TraderKey
			s.mu.Lock()
			s.recovers = append(s.recovers, string(k))
			a := s.answers[string(k)]
			s.mu.Unlock()
			_ = st.Send(&auctioneerrpc.ServerAuctionMessage{Msg: &auctioneerrpc.ServerAuctionMessage_Account{
				Account: a.acct,
			}})
		}
	}
}

type c20Signer struct {
	lndclient.SignerClient
}

func (c20Signer) SignMessage(context.Context, []byte, keychain.KeyLocator,
	...lndclient.SignMessageOption) ([]byte, error) {

	return bytes.Repeat([]byte{1}, 64), nil
}

func c20Key(i int) *keychain.KeyDescriptor {
	_, pub := test.CreateKey(int32(i + 1))
	return &keychain.KeyDescriptor{
		KeyLocator: keychain.KeyLocator{Family: poolscript.AccountKeyFamily, Index: uint32(i)},
		PubKey:     pub,
	}
}

var (
	c20KeyMu    sync.Mutex
	c20KeyCache []*keychain.KeyDescriptor
)

func c20Keys(n int) []*keychain.KeyDescriptor {
	c20KeyMu.Lock()
	defer c20KeyMu.Unlock()
	for len(c20KeyCache) < n {
		c20KeyCache = append(c20KeyCache, c20Key(len(c20KeyCache)))
	}
	return c20KeyCache[:n]
}

// c20Sweep runs the real key sweep for the given answer string. The account
// the auctioneer reports for key i has value 100000+i and the given version.
func c20Sweep(answers string, version uint32, fundTx *wire.MsgTx) ([]*account.Account, []string, error) {
	keys := c20Keys(len(answers))
	srv := &c20Server{answers: map[string]c20Answer{}}
	for i, c := range []byte(answers) {
		raw := keys[i].PubKey.SerializeCompressed()
		st := auctioneerrpc.AuctionAccountState_STATE_OPEN
		a, _ := lcReported(st, version, fundTx, fundTx)
		a.TraderKey = raw
		a.Value = uint64(100000 + i)
		if c == 'r' {
			// a reservation carries the initial batch key and no outpoint / tx
			a.BatchKey = lcBatchKeyRaw
			a.Outpoint, a.LatestTx = nil, nil
			a.Value = 500000
		}
		srv.answers[string(raw)] = c20Answer{kind: c, acct: a}
	}
	client, stop, err := c20Dial(srv)
	if err != nil {
		return nil, nil, err
	}
	defer stop()
	ctx, cancel := context.WithTimeout(context.Background(), 30*time.Second)
	defer cancel()
	accts, err := client.RecoverAccounts(ctx, keys)
	srv.mu.Lock()
	hs := append([]string(nil), srv.handshakes...)
	srv.mu.Unlock()
	return accts, hs, err
}

// c20Dial starts the fake auction server and a real auctioneer.Client on it.
func c20Dial(srv *c20Server) (*auctioneer.Client, func(), error) {
	lis := bufconn.Listen(1 << 16)
	gs := grpc.NewServer()
	auctioneerrpc.RegisterChannelAuctioneerServer(gs, srv)
	go func() { _ = gs.Serve(lis) }()
	client, err := auctioneer.NewClient(&auctioneer.Config{
		ServerAddress: "passthrough:///verif-c20",
		Insecure:      true,
		DialOpts: []grpc.DialOption{grpc.WithContextDialer(
			func(ctx context.Context, _ string) (net.Conn, error) { return lis.DialContext(ctx) },
		)},
		Signer: c20Signer{}, MinBackoff: time.Millisecond, MaxBackoff: 5 * time.Millisecond,
		BatchSource: c20NoBatch{}, BatchVersion: order.LatestBatchVersion,
	})
	if err != nil {
		gs.Stop()
		return nil, nil, err
	}
	if err := client.Start(); err != nil {
		gs.Stop()
		return nil, nil, err
	}
	return client, func() { _ = client.Stop(); gs.Stop() }, nil
}

func c20KeyIndex(k *btcec.PublicKey) int {
	raw := k.SerializeCompressed()
	c20KeyMu.Lock()
	defer c20KeyMu.Unlock()
	for i, d := range c20KeyCache {
		if bytes.Equal(d.PubKey.SerializeCompressed(), raw) {
			return i
		}
	}
	return -1
}

// c20SweepCases: answer strings that exercise the miss counter.
func c20SweepCases(r *Run) []string {
	rep := func(c string, n int) string { return strings.Repeat(c, n) }
	cases := []string{
		"f", "u", "r", "ufrf", "rrf",
		"f" + rep("u", 50) + "f",
		"f" + rep("u", 51) + "f",
		rep("u", 50) + "f" + rep("u", 50) + "f",
		rep("u", 30) + "f" + rep("u", 25) + "f",                 // 55 burnt keys, gaps <= 50
		rep("u", 20) + "f" + rep("u", 20) + "f" + rep("u", 20) + "r" + rep("u", 5) + "f",
		rep("u", 49) + "r" + rep("u", 1) + "f" + rep("u", 2) + "f", // reservation inside a gap
		rep("u", 25) + "r" + rep("u", 26) + "f",                 // 51 misses around a reservation
		rep("u", 51) + "f",
	}
	n := 12
	if r.Tier != "quick" {
		n = 60
	}
	for i := 0; i < n; i++ {
		var sb strings.Builder
		for sb.Len() < 40+r.Rng.Intn(110) {
			switch x := r.Rng.Intn(10); {
			case x < 6:
				sb.WriteString(rep("u", 1+r.Rng.Intn(30)))
			case x < 7:
				sb.WriteString(rep("u", 45+r.Rng.Intn(10)))
			case x < 9:
				sb.WriteString("f")
			default:
				sb.WriteString("r")
			}
		}
		cases = append(cases, sb.String())
	}
	return cases
}

// runC20Sweeps drives the real sweep, emits the model op and evaluates the
// oracle: every account the auctioneer knows is recovered with the reported
// parameters unless more than MaxUnusedAccountKeyLookup successive unknown
// keys precede it.
func runC20Sweeps(r *Run) {
	for ci, answers := range c20SweepCases(r) {
		ver := uint32(ci % 3)
		accts, hs, err := c20Sweep(answers, ver, nil)
		if err != nil {
			r.Violate("RecoverAccounts failed: "+err.Error(), "C20/sweep-error", answers)
			continue
		}
		var got []string
		byIdx := map[int]*account.Account{}
		for _, a := range accts {
			i := c20KeyIndex(a.TraderKey.PubKey)
			byIdx[i] = a
			kind := "f"
			if answers[i] == 'r' {
				kind = "r"
			}
			got = append(got, fmt.Sprintf("%d%s", i, kind))
		}
		out := "-"
		if len(got) > 0 {
			out = strings.Join(got, ",")
		}
		r.Emit("C20 sweep "+answers, fmt.Sprintf("%d %s", len(hs), out))
		r.Evaluations++
		r.Distinct("sweep " + answers)
		r.Count("sweep/cases")
		// ---- oracle
		misses, over := 0, false
		for i, c := range []byte(answers) {
			switch c {
			case 'u':
				misses++
				if misses > auctioneer.MaxUnusedAccountKeyLookup {
					over = true
				}
			case 'f':
				if !over {
					misses = 0
				}
			}
			if over || c == 'u' {
				if c != 'u' {
					r.Count("sweep/beyond-gap")
				}
				continue
			}
			a := byIdx[i]
			if a == nil {
				r.Count("oracle/violation")
				r.Violate(fmt.Sprintf("key sweep %q: account at key index %d (%c) is known to the auctioneer and no gap of more than %d "+
					"successive unknown keys precedes it, but it was not recovered (%d handshakes)", answers, i, c,
					auctioneer.MaxUnusedAccountKeyLookup, len(hs)), "C20/sweep-missed", answers)
				break
			}
			wantValue := int64(100000 + i)
			if c == 'r' {
				wantValue = 500000
				r.Count("sweep/reservation")
			} else {
				r.Count("sweep/full")
			}
			if int64(a.Value) != wantValue || a.Expiry != 5000 || uint32(a.Version) != ver ||
				!a.AuctioneerKey.IsEqual(lcAuctKey) || a.HeightHint != 900 {
				r.Count("oracle/violation")
				r.Violate(fmt.Sprintf("key sweep %q: account %d (%c) rebuilt as value=%d expiry=%d version=%d hint=%d, the auctioneer "+
					"reported value=%d expiry=5000 version=%d hint=900", answers, i, c, a.Value, a.Expiry, a.Version,
					a.HeightHint, wantValue, ver), "C20/sweep-fields", answers)
				break
			}
		}
		if len(hs) > len(answers) {
			r.Violate("more handshakes than keys", "C20/sweep-requests", answers)
		}
	}
}
