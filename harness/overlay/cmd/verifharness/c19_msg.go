//go:build verif

package main

// C19, auctioneer message part: structured OrderMatchPrepare /
// OrderMatchSignBegin messages with absent sub-messages and malformed fields
// are round-tripped through the protobuf wire format (so every tested shape is
// wire-decodable) and run through the REAL parsers and the REAL
// handleServerMessage of rpcServer and SidecarAcceptor under recover().

import (
	"bytes"
	"context"
	"encoding/hex"
	"fmt"
	"math/rand"
	"net"
	"sort"
	"strings"
	"time"

	"github.com/btcsuite/btcd/wire"
	"github.com/lightninglabs/pool"
	"github.com/lightninglabs/pool/auctioneer"
	"github.com/lightninglabs/pool/auctioneerrpc"
	"github.com/lightninglabs/pool/order"
	"github.com/lightningnetwork/lnd/tor"
	"google.golang.org/grpc/metadata"
	"google.golang.org/protobuf/proto"
)

// c19Stream captures what a handler sends to the auctioneer.
type c19Stream struct {
	sent []*auctioneerrpc.ClientAuctionMessage
}

func (s *c19Stream) Send(m *auctioneerrpc.ClientAuctionMessage) error {
	s.sent = append(s.sent, m)
	return nil
}
func (s *c19Stream) Recv() (*auctioneerrpc.ServerAuctionMessage, error) {
	return nil, fmt.Errorf("not supported")
}
func (s *c19Stream) Header() (metadata.MD, error) { return nil, nil }
func (s *c19Stream) Trailer() metadata.MD         { return nil }
func (s *c19Stream) CloseSend() error             { return nil }
func (s *c19Stream) Context() context.Context     { return context.Background() }
func (s *c19Stream) SendMsg(interface{}) error    { return nil }
func (s *c19Stream) RecvMsg(interface{}) error    { return nil }

// c19Guard runs f under recover() with a watchdog.
func c19Guard(f func() string) string {
	ch := make(chan string, 1)
	go func() {
		defer func() {
			if p := recover(); p != nil {
				ch <- "panic"
			}
		}()
		ch <- f()
	}()
	select {
	case s := <-ch:
		return s
	case <-time.After(5 * time.Second):
		decTimeouts++
		return "timeout"
	}
}

// c19AddrOK is the address oracle bit: the outcome of the resolver calls that
// parseNodeAddrs makes for one address, measured by calling them directly.
func c19AddrOK(a *auctioneerrpc.NodeAddress) bool {
	host, _, err := net.SplitHostPort(a.Addr)
	if err != nil {
		host = a.Addr
	}
	if tor.IsOnionHost(host) {
		_, err = order.VerifC19ParseOnionAddr(a.Addr)
	} else {
		_, err = net.ResolveTCPAddr(a.Network, a.Addr)
	}
	return err == nil
}

func c19TokServerOrder(d *auctioneerrpc.ServerOrder) string {
	if d == nil {
		return "~"
	}
	var addrs []string
	for _, a := range d.NodeAddr {
		addrs = append(addrs, dec01(c19AddrOK(a)))
	}
	return fmt.Sprintf("(%s,%s,(%s),%s,%d)", decHex(d.OrderNonce), decHex(d.NodePub),
		strings.Join(addrs, ","), decHex(d.MultiSigKey), int32(d.ChannelType))
}

// c19TokPrepare renders a decoded prepare message as the model's token. Map
// entries are listed in sorted key order.
func c19TokPrepare(m *auctioneerrpc.OrderMatchPrepare) string {
	return c19TokPrepareEntries(m, nil)
}

// c19Entry is one (nonce, MatchedOrder) map entry with its token.
type c19Entry struct {
	tok string
	mo  *auctioneerrpc.MatchedOrder
}

func c19TokPrepareEntries(m *auctioneerrpc.OrderMatchPrepare, entries *[]c19Entry) string {
	var durs []int
	for d := range m.MatchedMarkets {
		durs = append(durs, int(d))
	}
	sort.Ints(durs)
	var markets []string
	for _, d := range durs {
		mm := m.MatchedMarkets[uint32(d)]
		var keys []string
		for k := range mm.MatchedOrders {
			keys = append(keys, k)
		}
		sort.Strings(keys)
		var orders []string
		for _, k := range keys {
			mo := mm.MatchedOrders[k]
			var asks, bids []string
			for _, a := range mo.MatchedAsks {
				if a.Ask == nil {
					asks = append(asks, "~")
				} else {
					asks = append(asks, fmt.Sprintf("(%s,%d)", c19TokServerOrder(a.Ask.Details),
						a.Ask.LeaseDurationBlocks))
				}
			}
			for _, b := range mo.MatchedBids {
				if b.Bid == nil {
					bids = append(bids, "~")
				} else {
					bids = append(bids, fmt.Sprintf("(%s,%d)", c19TokServerOrder(b.Bid.Details),
						b.Bid.LeaseDurationBlocks))
				}
			}
			entry := fmt.Sprintf("(%s,(%s),(%s))", decHex([]byte(k)),
				strings.Join(asks, ","), strings.Join(bids, ","))
			orders = append(orders, entry)
			if entries != nil {
				*entries = append(*entries, c19Entry{tok: entry, mo: mo})
			}
		}
		markets = append(markets, fmt.Sprintf("(%d,(%s))", d, strings.Join(orders, ",")))
	}
	var diffs []string
	for _, d := range m.ChargedAccounts {
		diffs = append(diffs, decHex(d.TraderKey))
	}
	fee := "~"
	if m.ExecutionFee != nil {
		fee = "f"
	}
	var tx wire.MsgTx
	txOK := tx.Deserialize(bytes.NewReader(m.BatchTransaction)) == nil
	return fmt.Sprintf("((%s),(%s),%s,%s,%s)", strings.Join(markets, ","), strings.Join(diffs, ","),
		fee, dec01(txOK), decHex(m.BatchId))
}

func c19TokSign(m *auctioneerrpc.OrderMatchSignBegin) string {
	var keys []string
	for k := range m.ServerNonces {
		keys = append(keys, k)
	}
	sort.Strings(keys)
	var nonces []string
	for _, k := range keys {
		nonces = append(nonces, fmt.Sprintf("(%s,%s)", decHex([]byte(k)), decHex(m.ServerNonces[k])))
	}
	return fmt.Sprintf("(%s,(%s),%d)", decHex(m.BatchId), strings.Join(nonces, ","), len(m.PrevOutputs))
}

// c19Handle runs one real handler and reports reject:<batch id> / noreject /
// panic / timeout.
func c19Handle(run func(c *auctioneer.Client) error) string {
	st := &c19Stream{}
	cl := auctioneer.VerifC19ClientWithStream(st)
	return c19Guard(func() string {
		_ = run(cl)
		for _, m := range st.sent {
			if rj, ok := m.Msg.(*auctioneerrpc.ClientAuctionMessage_Reject); ok && rj.Reject != nil &&
				rj.Reject.Reason != "" {
				return "reject:" + decHex(rj.Reject.BatchId)
			}
		}
		return "noreject"
	})
}

// c19ExecPrepare runs the real code on a decoded prepare message.
func c19ExecPrepare(r *Run, m *auctioneerrpc.OrderMatchPrepare, classOnly bool, kind string, wireHex string) {
	parse := c19Guard(func() string {
		_, err := order.ParseRPCBatch(m)
		if err != nil {
			return "err"
		}
		return "ok"
	})
	srv, acc := "proceed", "proceed"
	if parse != "ok" {
		// the handlers are only observable up to the reject; after a
		// successful parse they need a full trader daemon
		msg := &auctioneerrpc.ServerAuctionMessage{
			Msg: &auctioneerrpc.ServerAuctionMessage_Prepare{Prepare: m},
		}
		srv = c19Handle(func(c *auctioneer.Client) error { return pool.VerifC19RPCServerHandle(c, nil, msg) })
		acc = c19Handle(func(c *auctioneer.Client) error { return pool.VerifC19AcceptorHandle(c, nil, msg) })
	}
	op := "prep"
	if classOnly {
		op = "prepc"
	}
	var entries []c19Entry
	tok := c19TokPrepareEntries(m, &entries)
	out := parse + " " + srv + " " + acc
	r.Emit("C19 "+op+" "+tok, out)
	// which entry fails is compared without looking at error texts: the
	// exported sub-parser is run on (up to two of) the map entries on its own
	for i, e := range entries {
		if i >= 2 {
			break
		}
		mo := e.mo
		cls := c19Guard(func() string {
			if _, err := order.ParseRPCMatchedOrders(mo); err != nil {
				return "err"
			}
			return "ok"
		})
		r.Emit("C19 mo "+e.tok, cls)
		r.Count("mo/out=" + cls)
	}
	r.Evaluations++
	r.Distinct(tok)
	r.Count("prep/" + kind)
	r.Count("prep/out=" + parse)
	r.Sample(map[string]string{"op": op, "msg": tok, "real_code": out})
	bad := ""
	switch {
	case parse == "panic" || parse == "timeout":
		bad = "ParseRPCBatch " + parse + " on a wire-decodable OrderMatchPrepare"
	case parse != "ok" && !strings.HasPrefix(srv, "reject:"):
		bad = "rpcServer.handleServerMessage answers a prepare message that fails to parse with " + srv +
			" instead of a reject"
	case parse != "ok" && !strings.HasPrefix(acc, "reject:"):
		bad = "SidecarAcceptor.handleServerMessage answers a prepare message that fails to parse with " +
			acc + " instead of a reject"
	}
	if bad != "" {
		r.Count("oracle/violation")
		r.Violate(bad, "C19/prepare", c19Case{Kind: "prep", Hex: wireHex, Note: tok})
	}
}

// c19ExecSign runs the real code on a decoded sign message.
func c19ExecSign(r *Run, m *auctioneerrpc.OrderMatchSignBegin, kind string, wireHex string) {
	parse := c19Guard(func() string {
		_, _, err := order.ParseRPCSign(m)
		if err != nil {
			return "err"
		}
		return "ok"
	})
	msg := &auctioneerrpc.ServerAuctionMessage{Msg: &auctioneerrpc.ServerAuctionMessage_Sign{Sign: m}}
	// no prepare message was accepted before: there is no pending batch
	srvNone := c19Handle(func(c *auctioneer.Client) error { return pool.VerifC19RPCServerHandle(c, nil, msg) })
	accNone := c19Handle(func(c *auctioneer.Client) error { return pool.VerifC19AcceptorHandle(c, nil, msg) })
	// with a pending batch the rpcServer handler is observable up to the
	// reject only
	srvSome := "proceed"
	if parse != "ok" {
		srvSome = c19Handle(func(c *auctioneer.Client) error {
			return pool.VerifC19RPCServerHandle(c, &order.Batch{}, msg)
		})
	}
	tok := c19TokSign(m)
	out := parse + " " + srvNone + " " + srvSome + " " + accNone
	r.Emit("C19 sign "+tok, out)
	r.Evaluations++
	r.Distinct(tok)
	r.Count("sign/" + kind)
	r.Count("sign/out=" + parse)
	bad := ""
	switch {
	case parse == "panic" || parse == "timeout":
		bad = "ParseRPCSign " + parse
	case !strings.HasPrefix(srvNone, "reject:"):
		bad = "rpcServer.handleServerMessage answers a sign message without a pending batch with " + srvNone
	case !strings.HasPrefix(accNone, "reject:"):
		bad = "SidecarAcceptor.handleServerMessage answers a sign message without a pending batch with " + accNone
	case parse != "ok" && !strings.HasPrefix(srvSome, "reject:"):
		bad = "rpcServer.handleServerMessage answers a sign message that fails to parse with " + srvSome
	}
	if bad != "" {
		r.Count("oracle/violation")
		r.Violate(bad, "C19/sign", c19Case{Kind: "sign", Hex: wireHex, Note: tok})
	}
}

// c19RunMsg replays a recorded case: hex = protobuf wire bytes.
func c19RunMsg(r *Run, c c19Case) {
	b := decUnhex(c.Hex)
	switch c.Kind {
	case "prep":
		var m auctioneerrpc.OrderMatchPrepare
		if err := proto.Unmarshal(b, &m); err != nil {
			r.Notes = append(r.Notes, "fixed prepare case does not decode: "+err.Error())
			return
		}
		c19ExecPrepare(r, &m, false, "fixed", c.Hex)
	case "sign":
		var m auctioneerrpc.OrderMatchSignBegin
		if err := proto.Unmarshal(b, &m); err != nil {
			r.Notes = append(r.Notes, "fixed sign case does not decode: "+err.Error())
			return
		}
		c19ExecSign(r, &m, "fixed", c.Hex)
	}
}

// ---------------------------------------------------------------- generator

func c19BadKey(rng *rand.Rand, count func(string)) []byte {
	k := decRandKey(rng)
	switch rng.Intn(8) {
	case 0:
		count("key/empty")
		return nil
	case 1:
		count("key/short")
		return k.SerializeCompressed()[:32]
	case 2:
		count("key/long")
		return append(k.SerializeCompressed(), 0)
	case 3:
		count("key/bad-format")
		b := k.SerializeCompressed()
		b[0] = 5
		return b
	case 4:
		count("key/not-on-curve")
		b := k.SerializeCompressed()
		for i := 0; i < 50; i++ {
			b[32] ^= byte(1 + rng.Intn(255))
			if _, err := order.UnmarshalNodeIDSlice([][]byte{b}); err != nil {
				break
			}
		}
		return b
	case 5:
		count("key/x-overflow")
		b := bytes.Repeat([]byte{0xff}, 33)
		b[0] = 2
		return b
	case 6:
		count("key/uncompressed-bad")
		b := k.SerializeUncompressed()
		b[64] ^= 1
		return b
	default:
		count("key/random")
		return c19RandBytes(rng, 33)
	}
}

func c19GoodKey(rng *rand.Rand, count func(string)) []byte {
	k := decRandKey(rng)
	switch rng.Intn(6) {
	case 0:
		count("key/uncompressed")
		return k.SerializeUncompressed()
	case 1:
		count("key/hybrid")
		b := k.SerializeUncompressed()
		b[0] = 6 | (b[64] & 1)
		return b
	}
	return k.SerializeCompressed()
}

var c19GoodAddrs = [][2]string{
	{"tcp", "127.0.0.1:9735"}, {"tcp", "10.1.2.3:1"}, {"tcp4", "8.8.8.8:65535"}, {"tcp", "[::1]:9735"},
	{"tcp6", "[2001:db8::1]:80"},
	{"tcp", "3g2upl4pq6kufc4m.onion:9735"},
	{"tcp", "vww6ybal4bd7szmgncyruucpgfkqahzddi37ktceo3ah7ngmcopnpyyd.onion"},
}
var c19BadAddrs = [][2]string{
	{"tcp", "nonsense::::"}, {"tcp", "1.2.3.4:99999"}, {"foo", "1.2.3.4:80"}, {"tcp", ""},
	{"udp", "1.2.3.4:80"}, {"tcp", "1.2.3.4"}, {"tcp", "3g2upl4pq6kufc4m.onion:notaport"},
	{"tcp4", "[::1]:9735"},
}

type c19Defects struct {
	rng   *rand.Rand
	count func(string)
	left  int
}

// hit decides whether the next opportunity of kind k is taken.
func (d *c19Defects) hit(k string, oneIn int) bool {
	if d.left > 0 && d.rng.Intn(oneIn) == 0 {
		d.left--
		d.count("defect/" + k)
		return true
	}
	return false
}

func c19GenServerOrder(d *c19Defects, isAsk bool) *auctioneerrpc.ServerOrder {
	rng := d.rng
	if d.hit("details-absent", 12) {
		return nil
	}
	o := &auctioneerrpc.ServerOrder{
		TraderKey: decRandKey(rng).SerializeCompressed(), RateFixed: uint32(rng.Intn(5000)),
		Amt: uint64(100000 * (1 + rng.Intn(50))), OrderNonce: c19RandBytes(rng, 32),
		NodePub: c19GoodKey(rng, d.count), MultiSigKey: c19GoodKey(rng, d.count),
		ChannelType: auctioneerrpc.OrderChannelType(rng.Intn(4)),
	}
	// zero nonce: the parser draws a random one and REPLACES the kit, which
	// resets the lease duration; harmless for asks, a lease error for bids
	if (isAsk && rng.Intn(6) == 0) || (!isAsk && d.hit("bid-zero-nonce", 12)) {
		o.OrderNonce = [][]byte{nil, make([]byte, 32), make([]byte, 40), make([]byte, 7)}[rng.Intn(4)]
	}
	if d.hit("node-pub", 14) {
		o.NodePub = c19BadKey(rng, d.count)
	}
	if d.hit("multisig-key", 14) {
		o.MultiSigKey = c19BadKey(rng, d.count)
	}
	if d.hit("chan-type", 14) {
		o.ChannelType = auctioneerrpc.OrderChannelType([]int32{4, 7, -1, 1 << 30}[rng.Intn(4)])
	}
	n := 1 + rng.Intn(2)
	if !isAsk && rng.Intn(3) == 0 {
		n = 0
	}
	for i := 0; i < n; i++ {
		a := c19GoodAddrs[rng.Intn(len(c19GoodAddrs))]
		if d.hit("addr", 14) {
			a = c19BadAddrs[rng.Intn(len(c19BadAddrs))]
		}
		o.NodeAddr = append(o.NodeAddr, &auctioneerrpc.NodeAddress{Network: a[0], Addr: a[1]})
	}
	if isAsk && d.hit("ask-no-addr", 14) {
		o.NodeAddr = nil
	}
	return o
}

func c19ValidTx(rng *rand.Rand) []byte {
	tx := wire.NewMsgTx(2)
	for i := 0; i <= rng.Intn(3); i++ {
		var h [32]byte
		rng.Read(h[:])
		tx.AddTxIn(&wire.TxIn{PreviousOutPoint: wire.OutPoint{Hash: h, Index: uint32(i)}, Sequence: 0})
	}
	for i := 0; i <= rng.Intn(3); i++ {
		tx.AddTxOut(&wire.TxOut{Value: int64(rng.Intn(1 << 30)), PkScript: c19RandBytes(rng, 34)})
	}
	var buf bytes.Buffer
	_ = tx.Serialize(&buf)
	return buf.Bytes()
}

// c19GenPrepare builds a mostly valid prepare message with up to `nDefects`
// defects. All defects below the market level go into ONE (market, order)
// entry so that Go's random map iteration order cannot change which error is
// met first.
func c19GenPrepare(r *Run, nDefects int) *auctioneerrpc.OrderMatchPrepare {
	rng := r.Rng
	d := &c19Defects{rng: rng, count: r.Count, left: nDefects}
	none := &c19Defects{rng: rng, count: r.Count, left: 0}
	m := &auctioneerrpc.OrderMatchPrepare{
		MatchedMarkets:   map[uint32]*auctioneerrpc.MatchedMarket{},
		BatchTransaction: c19ValidTx(rng),
		ExecutionFee:     &auctioneerrpc.ExecutionFee{BaseFee: 1, FeeRate: 1000},
		BatchId:          decRandKey(rng).SerializeCompressed(),
		BatchVersion:     uint32(rng.Intn(12)),
		FeeRateSatPerKw:  253,
	}
	nMarkets := 1 + rng.Intn(2)
	badMarket, badOrder := rng.Intn(nMarkets), 0
	for mi := 0; mi < nMarkets; mi++ {
		dur := uint32(2016 * (mi + 1))
		mm := &auctioneerrpc.MatchedMarket{
			MatchedOrders:     map[string]*auctioneerrpc.MatchedOrder{},
			ClearingPriceRate: uint32(rng.Intn(1000)),
		}
		nOrders := 1 + rng.Intn(2)
		if mi == badMarket {
			badOrder = rng.Intn(nOrders)
		}
		for oi := 0; oi < nOrders; oi++ {
			dd := none
			if mi == badMarket && oi == badOrder {
				dd = d
			}
			key := hex.EncodeToString(c19RandBytes(rng, 32))
			if dd.hit("nonce-hex", 10) {
				switch rng.Intn(4) {
				case 0:
					key = key[:63]
				case 1:
					key = "zz" + key[2:]
				case 2:
					key = "not hex at all"
				default:
					key = key + "g0"
				}
			} else if rng.Intn(8) == 0 {
				key = key[:rng.Intn(16)*2] // short nonce: accepted, zero padded
			}
			mo := &auctioneerrpc.MatchedOrder{}
			asks := rng.Intn(2) == 0
			n := 1 + rng.Intn(3)
			for i := 0; i < n; i++ {
				lease := dur
				if dd.hit("lease", 16) {
					lease = dur + 1 + uint32(rng.Intn(5))
				}
				if asks {
					a := &auctioneerrpc.MatchedAsk{UnitsFilled: uint32(1 + rng.Intn(10))}
					if !dd.hit("ask-absent", 12) {
						a.Ask = &auctioneerrpc.ServerAsk{
							Details: c19GenServerOrder(dd, true), LeaseDurationBlocks: lease,
							Version: uint32(rng.Intn(8)),
						}
					}
					mo.MatchedAsks = append(mo.MatchedAsks, a)
				} else {
					b := &auctioneerrpc.MatchedBid{UnitsFilled: uint32(1 + rng.Intn(10))}
					if !dd.hit("bid-absent", 12) {
						b.Bid = &auctioneerrpc.ServerBid{
							Details: c19GenServerOrder(dd, false), LeaseDurationBlocks: lease,
							Version: uint32(rng.Intn(8)), SelfChanBalance: uint64(rng.Intn(1000)),
						}
					}
					mo.MatchedBids = append(mo.MatchedBids, b)
				}
			}
			if dd.hit("both-sides", 14) {
				if asks {
					mo.MatchedBids = append(mo.MatchedBids, &auctioneerrpc.MatchedBid{})
				} else {
					mo.MatchedAsks = append(mo.MatchedAsks, &auctioneerrpc.MatchedAsk{})
				}
			}
			if rng.Intn(12) == 0 {
				mo = nil // nil map value: materialised by the wire round trip
				r.Count("shape/nil-map-value")
			}
			mm.MatchedOrders[key] = mo
		}
		if rng.Intn(16) == 0 {
			mm = nil
			r.Count("shape/nil-map-value")
		}
		m.MatchedMarkets[dur] = mm
	}
	for i := rng.Intn(3); i > 0; i-- {
		ad := &auctioneerrpc.AccountDiff{
			TraderKey: decRandKey(rng).SerializeCompressed(), EndingBalance: uint64(rng.Intn(1 << 30)),
			NewExpiry: uint32(rng.Intn(5000)), NewVersion: uint32(rng.Intn(3)),
		}
		if d.hit("trader-key", 10) {
			ad.TraderKey = c19BadKey(rng, r.Count)
		}
		m.ChargedAccounts = append(m.ChargedAccounts, ad)
	}
	if d.hit("tx", 8) {
		switch rng.Intn(4) {
		case 0:
			m.BatchTransaction = nil
		case 1:
			m.BatchTransaction = m.BatchTransaction[:rng.Intn(len(m.BatchTransaction))]
		case 2:
			m.BatchTransaction = c19RandBytes(rng, 1+rng.Intn(60))
		default:
			// absurd input count
			m.BatchTransaction = append([]byte{2, 0, 0, 0, 0xff, 0xff, 0xff, 0xff, 0xff, 0xff, 0xff, 0xff, 0x7f},
				c19RandBytes(rng, 20)...)
		}
	}
	if d.hit("fee-absent", 8) {
		m.ExecutionFee = nil
	}
	if d.hit("batch-id", 8) {
		m.BatchId = c19BadKey(rng, r.Count)
	}
	return m
}

func c19GenSign(r *Run) *auctioneerrpc.OrderMatchSignBegin {
	rng := r.Rng
	m := &auctioneerrpc.OrderMatchSignBegin{
		BatchId:      decRandKey(rng).SerializeCompressed(),
		ServerNonces: map[string][]byte{},
	}
	if rng.Intn(6) == 0 {
		m.BatchId = c19RandBytes(rng, rng.Intn(40))
	}
	for i := rng.Intn(3); i > 0; i-- {
		k := hex.EncodeToString(decRandKey(rng).SerializeCompressed())
		n := c19RandBytes(rng, 66)
		switch rng.Intn(9) {
		case 0:
			k = k[:64]
			r.Count("defect/sign-key-len")
		case 1:
			k = "zz" + k[2:]
			r.Count("defect/sign-key-hex")
		case 2:
			n = n[:rng.Intn(66)]
			r.Count("defect/sign-nonce-len")
		case 3:
			n = nil
			r.Count("defect/sign-nonce-len")
		case 4:
			// boundary keys: empty, one byte, odd length
			k = []string{"", "02", "0", k + "00"}[rng.Intn(4)]
			r.Count("defect/sign-key-boundary")
		}
		m.ServerNonces[k] = n
	}
	for i := rng.Intn(3); i > 0; i-- {
		if rng.Intn(5) == 0 {
			m.PrevOutputs = append(m.PrevOutputs, &auctioneerrpc.TxOut{})
		} else {
			m.PrevOutputs = append(m.PrevOutputs, &auctioneerrpc.TxOut{
				Value: rng.Uint64(), PkScript: c19RandBytes(rng, rng.Intn(40)),
			})
		}
	}
	return m
}

// c19GenMsg generates, wire round-trips and runs one message.
func c19GenMsg(r *Run) {
	rng := r.Rng
	if rng.Intn(5) == 0 {
		m := c19GenSign(r)
		wireB, err := proto.Marshal(m)
		if err != nil {
			return
		}
		var dec auctioneerrpc.OrderMatchSignBegin
		if proto.Unmarshal(wireB, &dec) != nil {
			return
		}
		c19ExecSign(r, &dec, "structured", decHex(wireB))
		return
	}
	nDef := []int{0, 1, 1, 1, 2, 3}[rng.Intn(6)]
	m := c19GenPrepare(r, nDef)
	wireB, err := proto.Marshal(m)
	if err != nil {
		r.Count("prep/unmarshalable")
		return
	}
	kind := fmt.Sprintf("structured/defects<=%d", nDef)
	classOnly := false
	if rng.Intn(8) == 0 {
		// byte-level edits of the wire encoding; kept when it still decodes
		mut := c19Mutate(rng, wireB)
		var probe auctioneerrpc.OrderMatchPrepare
		if proto.Unmarshal(mut, &probe) == nil {
			wireB, kind, classOnly = mut, "wire-mutated", true
		}
	}
	var dec auctioneerrpc.OrderMatchPrepare
	if err := proto.Unmarshal(wireB, &dec); err != nil {
		r.Count("prep/undecodable")
		return
	}
	c19ExecPrepare(r, &dec, classOnly, kind, decHex(wireB))
}
