//go:build verif

package main

func c19RunMsg(r *Run, c c19Case) {}
func c19GenMsg(r *Run)           {}
