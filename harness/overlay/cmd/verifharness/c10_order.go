//go:build verif

package main

import (
	"bytes"
	"fmt"
	"strings"

	"github.com/btcsuite/btcd/btcutil"
	"github.com/lightninglabs/pool/clientdb"
	"github.com/lightninglabs/pool/order"
	"github.com/lightninglabs/pool/sidecar"
	"github.com/lightningnetwork/lnd/keychain"
	"github.com/lightningnetwork/lnd/lnwallet/chainfee"
)

// c10Order is the spec of an ask or a bid with every stored field.
type c10Order struct {
	Bid              bool     `json:"bid"`
	Nonce            string   `json:"nonce"`
	Preimage         string   `json:"preimage"`
	Version          uint32   `json:"version"`
	State            uint8    `json:"state"`
	FixedRate        uint32   `json:"fixed_rate"`
	Amt              int64    `json:"amt"`
	Units            uint64   `json:"units"`
	UnitsUnfulfilled uint64   `json:"units_unfulfilled"`
	Family           uint32   `json:"family"`
	Index            uint32   `json:"index"`
	MaxBatchFeeRate  int64    `json:"max_batch_fee_rate"`
	AcctKey          string   `json:"acct_key"`
	LeaseDuration    uint32   `json:"lease_duration"`
	MinUnitsMatch    uint64   `json:"min_units_match"`
	ChannelType      uint8    `json:"channel_type"`
	Allowed          []string `json:"allowed"`
	NotAllowed       []string `json:"not_allowed"`
	IsPublic         bool     `json:"is_public"`
	AuctionType      uint32   `json:"auction_type"`
	// ask
	Announcement uint8 `json:"announcement"`
	Confirmation uint8 `json:"confirmation"`
	// bid
	MinNodeTier     uint32     `json:"min_node_tier"`
	SelfChanBalance int64      `json:"self_chan_balance"`
	Ticket          *c10Ticket `json:"ticket"` // nil = none
	Unannounced     bool       `json:"unannounced"`
	ZeroConf        bool       `json:"zero_conf"`
}

// c10Ticket is the spec of a sidecar ticket embedded in a bid (built directly,
// never through the ticket decoder).
type c10Ticket struct {
	ID            string `json:"id"`
	Version       uint8  `json:"version"`
	State         uint8  `json:"state"`
	Capacity      int64  `json:"capacity"`
	PushAmt       int64  `json:"push_amt"`
	LeaseDuration uint32 `json:"lease_duration"`
	SignPubKey    string `json:"sign_pub_key"`
	Auto          bool   `json:"auto"`
	Unannounced   bool   `json:"unannounced"`
	ZeroConf      bool   `json:"zero_conf"`
	// recipient part
	HasRecipient bool   `json:"has_recipient"`
	NodePubKey   string `json:"node_pub_key"`
	MultiSigKey  string `json:"multisig_key"`
	MultiSigIdx  uint32 `json:"multisig_idx"`
	// order part
	HasOrder bool   `json:"has_order"`
	BidNonce string `json:"bid_nonce"`
	// execution part
	HasExecution bool   `json:"has_execution"`
	PendingChan  string `json:"pending_chan"`
}

func (t *c10Ticket) build() *sidecar.Ticket {
	if t == nil {
		return nil
	}
	res := &sidecar.Ticket{
		Version: sidecar.Version(t.Version), State: sidecar.State(t.State),
		Offer: sidecar.Offer{
			Capacity: btcutil.Amount(t.Capacity), PushAmt: btcutil.Amount(t.PushAmt),
			LeaseDurationBlocks: t.LeaseDuration, SignPubKey: c10ParseKey(t.SignPubKey),
			Auto: t.Auto, UnannouncedChannel: t.Unannounced, ZeroConfChannel: t.ZeroConf,
		},
	}
	copy(res.ID[:], unhexOr(t.ID))
	if t.HasRecipient {
		res.Recipient = &sidecar.Recipient{
			NodePubKey: c10ParseKey(t.NodePubKey), MultiSigPubKey: c10ParseKey(t.MultiSigKey),
			MultiSigKeyIndex: t.MultiSigIdx,
		}
	}
	if t.HasOrder {
		res.Order = &sidecar.Order{}
		copy(res.Order.BidNonce[:], unhexOr(t.BidNonce))
	}
	if t.HasExecution {
		res.Execution = &sidecar.Execution{}
		copy(res.Execution.PendingChannelID[:], unhexOr(t.PendingChan))
	}
	return res
}

func arr33(s string) (res [33]byte) {
	copy(res[:], unhexOr(s))
	return
}

func arr32(s string) (res [32]byte) {
	copy(res[:], unhexOr(s))
	return
}

func (o *c10Order) build() order.Order {
	kit := order.NewKit(order.Nonce(arr32(o.Nonce)))
	kit.Preimage = arr32(o.Preimage)
	kit.Version = order.Version(o.Version)
	kit.State = order.State(o.State)
	kit.FixedRate = o.FixedRate
	kit.Amt = btcutil.Amount(o.Amt)
	kit.Units = order.SupplyUnit(o.Units)
	kit.UnitsUnfulfilled = order.SupplyUnit(o.UnitsUnfulfilled)
	kit.MultiSigKeyLocator = keychain.KeyLocator{Family: keychain.KeyFamily(o.Family), Index: o.Index}
	kit.MaxBatchFeeRate = chainfee.SatPerKWeight(o.MaxBatchFeeRate)
	kit.AcctKey = arr33(o.AcctKey)
	kit.LeaseDuration = o.LeaseDuration
	kit.MinUnitsMatch = order.SupplyUnit(o.MinUnitsMatch)
	kit.ChannelType = order.ChannelType(o.ChannelType)
	for _, k := range o.Allowed {
		kit.AllowedNodeIDs = append(kit.AllowedNodeIDs, arr33(k))
	}
	for _, k := range o.NotAllowed {
		kit.NotAllowedNodeIDs = append(kit.NotAllowedNodeIDs, arr33(k))
	}
	kit.IsPublic = o.IsPublic
	kit.AuctionType = order.AuctionType(o.AuctionType)
	if !o.Bid {
		return &order.Ask{
			Kit:                     *kit,
			AnnouncementConstraints: order.ChannelAnnouncementConstraints(o.Announcement),
			ConfirmationConstraints: order.ChannelConfirmationConstraints(o.Confirmation),
		}
	}
	b := &order.Bid{
		Kit:                *kit,
		MinNodeTier:        order.NodeTier(o.MinNodeTier),
		SelfChanBalance:    btcutil.Amount(o.SelfChanBalance),
		UnannouncedChannel: o.Unannounced,
		ZeroConfChannel:    o.ZeroConf,
	}
	b.SidecarTicket = o.Ticket.build()
	return b
}

func renderKeys(ks [][33]byte) string {
	if len(ks) == 0 {
		return "."
	}
	var s []string
	for _, k := range ks {
		s = append(s, hx(k[:]))
	}
	return strings.Join(s, "/")
}

func b2s(b bool) string {
	if b {
		return "1"
	}
	return "0"
}

func renderTicket(t *sidecar.Ticket) string {
	if t == nil {
		return "nil"
	}
	var buf bytes.Buffer
	if err := sidecar.SerializeTicket(&buf, t); err != nil {
		return "unserialisable"
	}
	return hx(buf.Bytes())
}

// renderOrder prints every stored field of an order (same format as the
// Lean driver's `renderOrder`).
func renderOrder(o order.Order) string {
	k := o.Details()
	n := o.Nonce()
	head := "ask"
	if o.Type() == order.TypeBid {
		head = "bid"
	}
	s := fmt.Sprintf("%s n=%s pre=%s ver=%d st=%d fr=%d amt=%d u=%d uu=%d kl=%d/%d fee=%d ak=%s ld=%d "+
		"mum=%d ct=%d allow=%s deny=%s pub=%s at=%d", head, hx(n[:]), hx(k.Preimage[:]), uint32(k.Version),
		uint8(k.State), k.FixedRate, uint64(k.Amt), uint64(k.Units), uint64(k.UnitsUnfulfilled),
		uint32(k.MultiSigKeyLocator.Family), k.MultiSigKeyLocator.Index, uint64(k.MaxBatchFeeRate),
		hx(k.AcctKey[:]), k.LeaseDuration, uint64(k.MinUnitsMatch), uint8(k.ChannelType),
		renderKeys(k.AllowedNodeIDs), renderKeys(k.NotAllowedNodeIDs), b2s(k.IsPublic), uint32(k.AuctionType))
	switch t := o.(type) {
	case *order.Ask:
		s += fmt.Sprintf(" ann=%d conf=%d", uint8(t.AnnouncementConstraints), uint8(t.ConfirmationConstraints))
	case *order.Bid:
		s += fmt.Sprintf(" tier=%d scb=%d tk=%s un=%s zc=%s", uint32(t.MinNodeTier), uint64(t.SelfChanBalance),
			renderTicket(t.SidecarTicket), b2s(t.UnannouncedChannel), b2s(t.ZeroConfChannel))
	}
	return s
}

// ---------------------------------------------------------------- generators

// ticket draws a sidecar ticket: every state with any subset of the optional
// parts (no signatures). The only filter is that the real SerializeTicket
// accepts it – whether it reads back is what is being checked.
func (g *c10Gen) ticket() *c10Ticket {
	t := &c10Ticket{
		ID: g.hexN(8), Version: uint8(g.rng.Intn(2)), State: uint8(g.rng.Intn(7)),
		Capacity: g.rng.Int63n(1 << 40), PushAmt: g.rng.Int63n(1 << 30), LeaseDuration: g.u32(),
		SignPubKey: g.key(), Auto: g.rng.Intn(2) == 0, Unannounced: g.rng.Intn(2) == 0,
		ZeroConf:     g.rng.Intn(2) == 0,
		HasRecipient: g.rng.Intn(2) == 0, NodePubKey: g.key(), MultiSigKey: g.key(), MultiSigIdx: g.u32(),
		HasOrder: g.rng.Intn(2) == 0, BidNonce: g.hexN(32),
		HasExecution: g.rng.Intn(3) == 0, PendingChan: g.hexN(32),
	}
	var buf bytes.Buffer
	if err := sidecar.SerializeTicket(&buf, t.build()); err != nil {
		return nil
	}
	return t
}

func (g *c10Gen) keyList() []string {
	switch x := g.rng.Intn(10); {
	case x < 5:
		return nil
	case x < 9:
		var res []string
		for i := 0; i < 1+g.rng.Intn(4); i++ {
			if g.rng.Intn(2) == 0 {
				res = append(res, g.key())
			} else {
				res = append(res, g.hexN(33)) // node ids are raw [33]byte, not parsed
			}
		}
		return res
	default:
		var res []string
		for i := 0; i < 8+g.rng.Intn(3); i++ { // 8*33 = 264 > 0xfc: 3-byte BigSize length
			res = append(res, g.hexN(33))
		}
		return res
	}
}

// small picks a defined enum value most of the time, any byte otherwise.
func (g *c10Gen) small(defined int) uint8 {
	if g.rng.Intn(5) == 0 {
		return uint8(g.rng.Intn(256))
	}
	return uint8(g.rng.Intn(defined))
}

// orderSpec draws a well-formed order: all versions/states, every optional
// term independently present or absent.
func (g *c10Gen) orderSpec(bid bool) *c10Order {
	o := &c10Order{
		Bid: bid, Nonce: g.hexN(32), Preimage: g.hexN(32),
		Version: uint32(g.rng.Intn(7)), State: g.small(7), FixedRate: g.u32(),
		Amt: int64(g.u64()), Units: g.u64(), UnitsUnfulfilled: g.u64(),
		Family: g.u32(), Index: g.u32(), MaxBatchFeeRate: int64(g.u64()),
		AcctKey: g.key(), LeaseDuration: g.u32(), MinUnitsMatch: g.u64(),
		ChannelType: g.small(3), Allowed: g.keyList(), NotAllowed: g.keyList(),
		IsPublic: g.rng.Intn(2) == 0, AuctionType: uint32(g.rng.Intn(2)),
	}
	if g.rng.Intn(6) == 0 {
		o.Version = g.u32()
	}
	if g.rng.Intn(6) == 0 {
		o.AuctionType = uint32(g.rng.Intn(256)) // still within the stored byte
	}
	if g.rng.Intn(4) == 0 {
		o.MinUnitsMatch = uint64(g.rng.Intn(3))
	}
	if !bid {
		o.Announcement = g.small(3)
		o.Confirmation = g.small(3)
		return o
	}
	o.MinNodeTier = uint32(g.rng.Intn(3))
	if g.rng.Intn(5) == 0 {
		o.MinNodeTier = g.u32()
	}
	if g.rng.Intn(2) == 0 {
		o.SelfChanBalance = int64(g.u64())
	}
	if g.rng.Intn(3) == 0 {
		o.Ticket = g.ticket()
	}
	o.Unannounced = g.rng.Intn(2) == 0
	o.ZeroConf = g.rng.Intn(2) == 0
	return o
}

// ---------------------------------------------------------------- real code

type c10OrderRec struct {
	base, minUnits, tlv, tier []byte
}

func optHex(b []byte) string {
	if b == nil {
		return "nil"
	}
	return hx(b)
}

func (rec *c10OrderRec) tokens() string {
	return optHex(rec.base) + " " + optHex(rec.minUnits) + " " + optHex(rec.tlv) + " " + optHex(rec.tier)
}

// goStoreOrder reproduces what SubmitOrder puts under the four keys, using
// the real serialisers.
func goStoreOrder(o order.Order) (rec *c10OrderRec, err error, panicked bool) {
	defer func() {
		if x := recover(); x != nil {
			panicked = true
		}
	}()
	rec = &c10OrderRec{}
	var w bytes.Buffer
	if err = clientdb.SerializeOrder(o, &w); err != nil {
		return
	}
	rec.base = append([]byte{}, w.Bytes()...)
	var t bytes.Buffer
	if err = clientdb.VerifC10SerializeOrderTlvData(&t, o); err != nil {
		return
	}
	rec.tlv = append([]byte{}, t.Bytes()...)
	return
}

func (c *c10Run) countOrder(spec *c10Order, tag string) {
	r := c.r
	kind := "ask"
	if spec.Bid {
		kind = "bid"
	}
	r.Count("order/" + tag)
	r.Count("order/" + kind)
	r.Count(fmt.Sprintf("order/version-%d", minU32(spec.Version, 7)))
	if len(spec.Allowed) > 0 {
		r.Count("order/opt-allowed")
	}
	if len(spec.NotAllowed) > 0 {
		r.Count("order/opt-not-allowed")
	}
	if spec.IsPublic {
		r.Count("order/opt-public")
	}
	if spec.AuctionType != 0 {
		r.Count("order/opt-auction-type")
	}
	if spec.ChannelType != 0 {
		r.Count("order/opt-channel-type")
	}
	if spec.Bid {
		if spec.SelfChanBalance != 0 {
			r.Count("order/opt-self-chan-balance")
		}
		if spec.Ticket != nil {
			r.Count("order/opt-sidecar-ticket")
			r.Count(fmt.Sprintf("order/ticket-state-%d", spec.Ticket.State))
			if !spec.Ticket.HasOrder && spec.Ticket.State >= 3 {
				r.Count("order/ticket-ordered-without-order-part")
			}
		}
		if spec.Unannounced {
			r.Count("order/opt-unannounced")
		}
		if spec.ZeroConf {
			r.Count("order/opt-zero-conf")
		}
		if spec.MinNodeTier != 0 {
			r.Count("order/opt-node-tier")
		}
	} else {
		if spec.Announcement != 0 {
			r.Count("order/opt-announcement")
		}
		if spec.Confirmation != 0 {
			r.Count("order/opt-confirmation")
		}
	}
}

func minU32(a, b uint32) uint32 {
	if a < b {
		return a
	}
	return b
}

// orderDB: several orders through SubmitOrder / UpdateOrder / GetOrder(s) of a
// real clientdb.DB with close/reopen; after every write every stored order is
// read back and compared with what was written under its nonce; the raw
// bucket values go to the model.
func (c *c10Run) orderDB(n int) {
	r := c.r
	c.nDB++
	path := fmt.Sprintf("%s/o%d", c.dir, c.nDB)
	db := c.openDB(path)
	defer func() { db.Close() }()

	shadow := map[string]*c10Order{}
	var nonces []string
	checkAll := func(step, written string) {
		for _, k := range nonces {
			want := shadow[k].build()
			y, err := db.GetOrder(order.Nonce(arr32(k)))
			r.Evaluations++
			if err != nil || renderOrder(y) != renderOrder(want) {
				got := fmt.Sprint(err)
				if err == nil {
					got = renderOrder(y)
				}
				what, key := "order does not read back equal through the database", "C10/order-db-roundtrip"
				if k != written {
					what, key = "writing one order altered another stored order", "C10/order-db-crosstalk"
				}
				r.Count("oracle/violation")
				r.Violate(fmt.Sprintf("%s (%s): wrote %s, read %s", what, step, renderOrder(want), got),
					key, c10Case{Kind: "order", Order: shadow[k]})
			}
			if k == written {
				base, mu, tlvB, tier, ok := db.VerifC10RawOrder(order.Nonce(arr32(k)))
				if !ok {
					continue
				}
				rec := &c10OrderRec{base, mu, tlvB, tier}
				exp := "err"
				if err == nil {
					exp = "ok " + renderOrder(y) + " re=" + b2s(c.goReOrder(y, rec))
				}
				r.Emit("C10 order "+k+" "+rec.tokens(), exp)
				r.Distinct(exp)
			}
		}
		all, err := db.GetOrders()
		if err != nil || len(all) != len(nonces) {
			r.Count("oracle/violation")
			r.Violate(fmt.Sprintf("GetOrders() returned %d orders (err %v), %d stored", len(all), err, len(nonces)),
				"C10/order-db-list", nil)
		}
	}
	for i := 0; i < n; i++ {
		switch x := r.Rng.Intn(10); {
		case x < 6 || len(nonces) == 0:
			spec := c.orderSpecMixed(r.Rng.Intn(2) == 0, "order")
			if err := db.SubmitOrder(spec.build()); err != nil {
				r.Count("order/db-submit-error")
				continue
			}
			shadow[spec.Nonce] = spec
			nonces = append(nonces, spec.Nonce)
			c.countOrder(spec, "db-submit")
			checkAll("submit", spec.Nonce)
		case x < 8:
			// UpdateOrder through a modifier that rewrites the whole kit
			k := nonces[r.Rng.Intn(len(nonces))]
			old := shadow[k]
			spec := c.g.orderSpec(old.Bid)
			spec.Nonce = k
			// fields outside the kit are not reachable by a Modifier
			spec.Announcement, spec.Confirmation = old.Announcement, old.Confirmation
			spec.MinNodeTier, spec.SelfChanBalance, spec.Ticket = old.MinNodeTier, old.SelfChanBalance, old.Ticket
			spec.Unannounced, spec.ZeroConf = old.Unannounced, old.ZeroConf
			nk := *spec.build().Details()
			mod := func(kit *order.Kit) { *kit = nk }
			if err := db.UpdateOrder(order.Nonce(arr32(k)), mod); err != nil {
				r.Count("order/db-update-error")
				continue
			}
			shadow[k] = spec
			c.countOrder(spec, "db-update")
			checkAll("update", k)
		default:
			db.Close()
			db = c.openDB(path)
			r.Count("orderdb/reopen")
			checkAll("reopen", "")
		}
	}
}

// goReOrder: would storing the read-back order reproduce the stored values?
func (c *c10Run) goReOrder(y order.Order, rec *c10OrderRec) bool {
	r2, err, p := goStoreOrder(y)
	if err != nil || p {
		return false
	}
	mu := beU64(uint64(y.Details().MinUnitsMatch))
	var tier []byte
	if b, ok := y.(*order.Bid); ok {
		tier = beU32(uint32(b.MinNodeTier))
	}
	return bytes.Equal(r2.base, rec.base) && bytes.Equal(r2.tlv, rec.tlv) && rec.tlv != nil &&
		bytes.Equal(mu, rec.minUnits) && bytes.Equal(tier, rec.tier) && (tier == nil) == (rec.tier == nil)
}

func beU64(v uint64) []byte {
	b := make([]byte, 8)
	for i := 0; i < 8; i++ {
		b[7-i] = byte(v >> (8 * uint(i)))
	}
	return b
}

func beU32(v uint32) []byte {
	b := make([]byte, 4)
	for i := 0; i < 4; i++ {
		b[3-i] = byte(v >> (8 * uint(i)))
	}
	return b
}

// orderMalformed: damaged base / TLV bytes through the real decoders.
func (c *c10Run) orderMalformed() {
	r := c.r
	spec := c.g.orderSpec(r.Rng.Intn(2) == 0)
	o := spec.build()
	rec, err, p := goStoreOrder(o)
	if err != nil || p {
		return
	}
	r.Evaluations++
	if r.Rng.Intn(2) == 0 {
		raw := c.mutate(rec.base)
		exp := goDeOrderBase(arr32(spec.Nonce), raw)
		r.Emit("C10 ordbase "+spec.Nonce+" "+hx(raw), exp)
		r.Count("malformed/order-base")
		if exp == "err" {
			r.Count("malformed/order-base-rejected")
		}
		return
	}
	raw := c.mutate(rec.tlv)
	if r.Rng.Intn(4) == 0 {
		// unknown odd/even types appended in increasing order
		raw = append(append([]byte{}, rec.tlv...), byte(12+r.Rng.Intn(200)), 2, 0xaa, 0xbb)
	}
	if r.Rng.Intn(12) == 0 {
		// absurd declared length: type 200, BigSize 0xff + 8 bytes >= 2^63
		raw = append(append([]byte{}, rec.tlv...), 200, 0xff, 0x80|byte(r.Rng.Intn(128)), 1, 2, 3, 4, 5, 6, 7)
		r.Count("malformed/order-tlv-huge-length")
	}
	if spec.Bid && hasTicketType(raw) {
		r.Count("malformed/order-tlv-with-ticket")
	}
	kind := "ask"
	if spec.Bid {
		kind = "bid"
	}
	exp := goDeOrderTlv(spec.Bid, raw)
	r.Emit("C10 ordtlv "+kind+" "+hx(raw), exp)
	r.Count("malformed/order-tlv")
	switch exp {
	case "err":
		r.Count("malformed/order-tlv-rejected")
	case "panic":
		r.Count("malformed/order-tlv-panic")
	}
}

// hasTicketType reports whether a (possibly damaged) stream's first record is
// of the sidecar ticket type or a record of type 2 could be parsed: such
// streams reach sidecar.DeserializeTicket, which the model abstracts.
func hasTicketType(raw []byte) bool {
	// walk the stream leniently
	i := 0
	for i < len(raw) {
		t := raw[i]
		if t == 2 {
			return true
		}
		if t >= 0xfd || i+1 >= len(raw) {
			return false
		}
		l := int(raw[i+1])
		if l >= 0xfd {
			return true // give up on long records: be conservative
		}
		i += 2 + l
	}
	return false
}

func goDeOrderBase(nonce [32]byte, raw []byte) (exp string) {
	defer func() {
		if x := recover(); x != nil {
			exp = "panic"
		}
	}()
	rd := bytes.NewReader(raw)
	o, err := clientdb.DeserializeOrder(order.Nonce(nonce), rd)
	if err != nil {
		return "err"
	}
	var w bytes.Buffer
	re := clientdb.SerializeOrder(o, &w) == nil && bytes.Equal(w.Bytes(), raw[:len(raw)-rd.Len()])
	return c10Expect(renderOrder(o), nil, false, rd.Len(), re)
}

func goDeOrderTlv(bid bool, raw []byte) (exp string) {
	defer func() {
		if x := recover(); x != nil {
			exp = "panic"
		}
	}()
	var o order.Order
	kit := order.NewKit(order.Nonce{})
	if bid {
		o = &order.Bid{Kit: *kit}
	} else {
		o = &order.Ask{Kit: *kit}
	}
	if err := clientdb.VerifC10DeserializeOrderTlvData(bytes.NewReader(raw), o); err != nil {
		return "err"
	}
	return "ok " + renderOrder(o)
}

// orderFixed replays one order through a fresh database.
func (c *c10Run) orderFixed(spec *c10Order) {
	r := c.r
	c.nDB++
	path := fmt.Sprintf("%s/f%d", c.dir, c.nDB)
	db := c.openDB(path)
	defer db.Close()
	if err := db.SubmitOrder(spec.build()); err != nil {
		return
	}
	y, err := db.GetOrder(order.Nonce(arr32(spec.Nonce)))
	r.Evaluations++
	if err != nil || renderOrder(y) != renderOrder(spec.build()) {
		r.Count("oracle/violation")
		r.Violate("order does not read back equal through the database", "C10/order-db-roundtrip",
			c10Case{Kind: "order", Order: spec})
	}
}

// orderLargeLists: orders whose allow / deny list is as long as the RPC layer lets it be (no limit there): the stored
// TLV value crosses 65535 bytes at 1986 node ids.  Submitted to a real database, read back, updated and re-read.
func (c *c10Run) orderLargeLists() {
	for _, n := range []int{1985, 1986, 2500} {
		for _, bid := range []bool{false, true} {
			spec := c.g.orderSpec(bid)
			spec.Ticket = nil
			ids := make([]string, n)
			for i := range ids {
				ids[i] = c.g.hexN(33)
			}
			if bid {
				spec.Allowed, spec.NotAllowed = nil, ids
			} else {
				spec.Allowed, spec.NotAllowed = ids, nil
			}
			c.r.Count("order/large-list")
			c.orderFixed(spec)
		}
	}
}
