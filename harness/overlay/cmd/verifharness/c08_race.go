//go:build verif

package main

// Bounded concurrent scenario on the REAL store (clientdb / bbolt): two
// overlapping UpdateAccount calls on one account - what the expiry watcher
// goroutine and an RPC / batch finalisation do when a block arrives at the
// wrong moment. Every accepted update must be persisted: the second writer must
// not write back a record that lacks the first one's change.

import (
	"fmt"
	"sync"

	"github.com/btcsuite/btcd/wire"
	"github.com/lightninglabs/pool/account"
)

func lcStoreRace(r *Run) {
	e := newLcEnv(r)
	defer e.close()
	k := e.accts[1]
	base := &account.Account{
		Value: 500000, Expiry: 5000, TraderKey: k.key, AuctioneerKey: lcAuctKey, BatchKey: lcBatchKey,
		Secret: lcSecret, State: account.StateOpen, HeightHint: 1, Version: account.VersionTaprootEnabled,
	}
	ftx := wire.NewMsgTx(2)
	ftx.AddTxIn(&wire.TxIn{Witness: wire.TxWitness{[]byte{1}, []byte{2}}})
	ftx.AddTxOut(&wire.TxOut{Value: 500000, PkScript: lcP2WKH})
	base.LatestTx = ftx
	base.OutPoint = wire.OutPoint{Hash: ftx.TxHash(), Index: 0}
	if err := e.db.AddAccount(base); err != nil {
		r.Violate("AddAccount: "+err.Error(), "C08/harness", nil)
		return
	}
	rounds := 60
	if r.Tier != "quick" {
		rounds = 300
	}
	for i := 0; i < rounds; i++ {
		cur, err := e.db.Account(k.key.PubKey)
		if err != nil {
			r.Violate("Account: "+err.Error(), "C08/harness", nil)
			return
		}
		// writer 1: the expiry handler marks the account expired; writer 2: a
		// confirmation / modification records a new height hint and value
		a1, a2 := cur.Copy(), cur.Copy()
		st := account.StateExpired
		if i%2 == 1 {
			st = account.StateOpen
		}
		hint, val := uint32(1000+i), cur.Value+1
		var wg sync.WaitGroup
		start := make(chan struct{})
		var err1, err2 error
		wg.Add(2)
		go func() {
			defer wg.Done()
			<-start
			err1 = e.db.UpdateAccount(a1, account.StateModifier(st))
		}()
		go func() {
			defer wg.Done()
			<-start
			err2 = e.db.UpdateAccount(a2, account.HeightHintModifier(hint), account.ValueModifier(val))
		}()
		close(start)
		wg.Wait()
		r.Count("race/rounds")
		if err1 != nil || err2 != nil {
			r.Violate(fmt.Sprintf("UpdateAccount failed: %v / %v", err1, err2), "C08/harness", i)
			return
		}
		got, gerr := e.db.Account(k.key.PubKey)
		if gerr != nil {
			r.Count("oracle/violation")
			r.Violate(fmt.Sprintf("the record written by two overlapping updates (round %d, state %v) cannot be read back: %v",
				i, st, gerr), "C08/record-unreadable", i)
			return
		}
		if got.State != st || got.HeightHint != hint || got.Value != val {
			r.Count("oracle/violation")
			r.Violate(fmt.Sprintf("two overlapping updates of one account (round %d): state:=%v by one writer, "+
				"heightHint:=%d value:=%d by the other; stored record has state=%v heightHint=%d value=%d - an "+
				"accepted update was lost", i, st, hint, val, got.State, got.HeightHint, got.Value),
				"C08/lost-update", map[string]interface{}{"scenario": "store-race", "round": i})
			return
		}
	}
	r.Evaluations++
}
