//go:build verif

package main

import (
	"bytes"
	"context"
	"fmt"

	"github.com/btcsuite/btcd/wire"
	"github.com/lightninglabs/lndclient"
	"github.com/lightninglabs/pool/account"
	"github.com/lightninglabs/pool/auctioneer"
	"github.com/lightninglabs/pool/auctioneerrpc"
	"github.com/lightninglabs/pool/internal/test"
	"github.com/lightninglabs/pool/poolscript"
	"github.com/lightningnetwork/lnd/keychain"
)

func init() { props["C20"] = runC20 }

// runC20 drives the REAL unmarshallServerRecoveredAccount and the REAL
// manager.RecoverAccount (+ controller, bbolt store) for every state the
// auctioneer can report (and two unknown ones) x account version x wallet
// knows / does not know the funding tx x latest tx does / does not carry the
// output, into an empty store.
func runC20(r *Run) {
	r.Rule = "exhaustive grid: reported state 0..8 x version 0..2 x wallet knows funding tx x reported latest tx " +
		"carries the output; each case = unmarshall the auctioneer's AuctionAccount with the real code and recover " +
		"it with the real manager into an empty bbolt store; plus the pure state mapping for states 0..40"
	for srv := 0; srv <= 40; srv++ {
		a, err := lcReported(auctioneerrpc.AuctionAccountState(srv), 0, nil, nil)
		if err != nil {
			r.Violate("cannot build report: "+err.Error(), "C20/harness", srv)
			continue
		}
		e := lcKeyOnly()
		acct, err := auctioneer.VerifLifecycleUnmarshalRecovered(e, a)
		if err != nil {
			r.Emit(fmt.Sprintf("C20 map %d", srv), "error")
			continue
		}
		r.Emit(fmt.Sprintf("C20 map %d", srv), fmt.Sprint(uint8(acct.State)))
		r.Count(fmt.Sprintf("map/%v", acct.State))
	}
	runC20Sweeps(r)
	runC20Rpc(r)
	for ver := 0; ver <= 2; ver++ {
		for knows := 0; knows <= 1; knows++ {
			lcRecoverReservation(r, ver, knows == 1, false)
			// the wallet's transaction listing fails during the recovery
			lcRecoverReservation(r, ver, knows == 1, true)
		}
	}
	rounds := 1
	if r.Tier != "quick" {
		rounds = 3
	}
	for round := 0; round < rounds; round++ {
		for srv := 0; srv <= 8; srv++ {
			for ver := 0; ver <= 2; ver++ {
				for knows := 0; knows <= 1; knows++ {
					for inLatest := 0; inLatest <= 1; inLatest++ {
						lcRecoverCase(r, srv, ver, knows == 1, inLatest == 1, false)
						if srv <= 1 {
							// wallet fault while the funding tx has to be located
							lcRecoverCase(r, srv, ver, knows == 1, inLatest == 1, true)
						}
					}
				}
			}
		}
	}
}

func lcKeyOnly() *keychain.KeyDescriptor {
	_, pub := test.CreateKey(1)
	return &keychain.KeyDescriptor{
		KeyLocator: keychain.KeyLocator{Family: poolscript.AccountKeyFamily, Index: 1}, PubKey: pub,
	}
}

// lcReported builds the auctioneer's report of an account whose output is
// output #1 of fundTx (value 500000, expiry 5000, batch key incremented twice).
func lcReported(st auctioneerrpc.AuctionAccountState, ver uint32, fundTx, latest *wire.MsgTx) (*auctioneerrpc.AuctionAccount, error) {
	if fundTx == nil {
		fundTx = wire.NewMsgTx(2)
		fundTx.AddTxIn(&wire.TxIn{Witness: wire.TxWitness{[]byte{1}, []byte{2}}})
		fundTx.AddTxOut(&wire.TxOut{Value: 1, PkScript: lcP2WKH})
	}
	if latest == nil {
		latest = fundTx
	}
	var buf bytes.Buffer
	if err := latest.Serialize(&buf); err != nil {
		return nil, err
	}
	h := fundTx.TxHash()
	bk := poolscript.IncrementKey(poolscript.IncrementKey(lcBatchKey))
	return &auctioneerrpc.AuctionAccount{
		Value: 500000, Expiry: 5000, AuctioneerKey: lcAuctKeyRaw, BatchKey: bk.SerializeCompressed(),
		State: st, HeightHint: 900, Outpoint: &auctioneerrpc.OutPoint{Txid: h[:], OutputIndex: 1},
		LatestTx: buf.Bytes(), Version: ver,
	}, nil
}

func lcRecoverCase(r *Run, srv, ver int, knows, inLatest, walletFault bool) {
	e := newLcEnv(r)
	defer e.close()
	if err := e.mgr.Start(); err != nil {
		r.Violate("manager does not start: "+err.Error(), "C20/harness", nil)
		return
	}
	e.started = true
	e.deliverBlock(1001)
	e.height = 1001
	k := e.accts[1]
	// the on-chain output of the account
	onChain := &account.Account{
		Value: 500000, Expiry: 5000, TraderKey: k.key, AuctioneerKey: lcAuctKey,
		BatchKey: poolscript.IncrementKey(poolscript.IncrementKey(lcBatchKey)), Secret: lcSecret,
		Version: account.Version(ver),
	}
	out, err := onChain.Output()
	if err != nil {
		r.Violate("no output script: "+err.Error(), "C20/harness", nil)
		return
	}
	fundTx := wire.NewMsgTx(2)
	fundTx.AddTxIn(&wire.TxIn{Witness: wire.TxWitness{[]byte{1}, []byte{2}}})
	fundTx.AddTxOut(&wire.TxOut{Value: 4242, PkScript: lcP2WKH})
	fundTx.AddTxOut(out)
	other := wire.NewMsgTx(2)
	other.AddTxIn(&wire.TxIn{Witness: wire.TxWitness{[]byte{3}, []byte{4}}})
	other.AddTxOut(&wire.TxOut{Value: 777, PkScript: lcP2WKH})
	e.txName(fundTx.TxHash()) // 1
	e.txName(other.TxHash())  // 2
	latest := other
	if inLatest {
		latest = fundTx
	}
	rep, _ := lcReported(auctioneerrpc.AuctionAccountState(srv), uint32(ver), fundTx, latest)
	rep.TraderKey = k.raw[:]
	acct, err := auctioneer.VerifLifecycleUnmarshalRecovered(k.key, rep)
	if err != nil {
		r.Violate("unmarshallServerRecoveredAccount rejects a well-formed report: "+err.Error(), "C20/unmarshal", srv)
		return
	}
	if knows {
		e.wallet.txs = append(e.wallet.txs, lndclient.Transaction{Tx: fundTx})
	}
	reportedState := acct.State
	e.logMu.Lock()
	logFrom := len(e.log)
	e.logMu.Unlock()
	derivesBefore := e.signer.n
	e.wallet.failList = walletFault
	rerr := lcGuard(func() error { return e.mgr.RecoverAccount(context.Background(), acct) })
	e.wallet.failList = false
	line := fmt.Sprintf("recover %d %d %d %d %d", srv, ver, b2i(knows), b2i(inLatest), b2i(walletFault))
	outLine := fmt.Sprintf("%s | %s | %s", lcRes(rerr), e.dump(), e.effects(logFrom))
	r.Emit("C20 "+line, outLine)
	r.Evaluations++
	r.Distinct(line)
	r.Sample(line + " => " + outLine)

	// ---- oracle (property text on the real outputs)
	bad := func(what, key string) {
		r.Count("oracle/violation")
		r.Violate(line+": "+what, key, map[string]interface{}{"srv": srv, "ver": ver, "knows": knows, "in_latest": inLatest})
	}
	if e.wallet.fundCalls != 0 || e.wallet.pubCalls != 0 {
		bad(fmt.Sprintf("recovery called SendOutputs %d / PublishTransaction %d times", e.wallet.fundCalls, e.wallet.pubCalls), "C20/funds-moved")
	}
	rec, err := e.db.Account(k.key.PubKey)
	if err != nil {
		bad("no record stored: "+err.Error(), "C20/no-record")
		return
	}
	r.Count(fmt.Sprintf("recovered/%v", rec.State))
	if rec.Secret != lcSecret || e.signer.n == derivesBefore {
		bad("account secret not re-derived from the signer", "C20/secret")
	}
	viaReport := inLatest && srv != int(auctioneerrpc.AuctionAccountState_STATE_PENDING_OPEN)
	found := knows || viaReport
	recheck := srv == int(auctioneerrpc.AuctionAccountState_STATE_PENDING_OPEN) ||
		srv == int(auctioneerrpc.AuctionAccountState_STATE_OPEN)
	switch {
	case recheck && walletFault && !viaReport:
		// the wallet could not be asked: that is not "funding unknown" - the account
		// must not be written off (it stays as added and recovery reports the error)
		r.Count("case/wallet-fault")
		if rec.State == account.StateCanceledAfterRecovery {
			bad("the wallet's transaction listing failed, yet the account was marked canceled-after-recovery",
				"C20/canceled-on-wallet-fault")
		}
		if rerr == nil {
			bad("the wallet's transaction listing failed but RecoverAccount reported success", "C20/fault-swallowed")
		}
	case recheck && found && rec.State == account.StateCanceledAfterRecovery:
		bad("the funding output is known (wallet or reported latest tx) but the account was marked canceled-after-recovery",
			"C20/canceled-though-known")
	case (srv == int(auctioneerrpc.AuctionAccountState_STATE_PENDING_OPEN) ||
		srv == int(auctioneerrpc.AuctionAccountState_STATE_OPEN)) && !found:
		r.Count("case/unknown-funding")
		if rec.State != account.StateCanceledAfterRecovery {
			bad(fmt.Sprintf("funding tx unknown to the wallet but the account is %v, not canceled", rec.State), "C20/not-canceled")
		}
	case rec.State == account.StateClosed:
		r.Count("case/closed")
	default:
		r.Count("case/live")
		recOut, _ := rec.Output()
		if rec.OutPoint.Hash != fundTx.TxHash() || rec.OutPoint.Index != 1 || int64(rec.Value) != out.Value ||
			recOut == nil || !bytes.Equal(recOut.PkScript, out.PkScript) {
			bad(fmt.Sprintf("stored record %v/%d does not describe the reported on-chain output %v:1/%d",
				rec.OutPoint, rec.Value, fundTx.TxHash(), out.Value), "C20/record-mismatch")
		}
		// C08's I1/I2 on the real store / registrations
		if what, key := e.oracle(lcSnap{state: map[int]account.State{}, rec: map[int]string{}}, logFrom, "", false, nil); what != "" &&
			(reportedState == account.StateInitiated || inLatest) {
			bad("after recovery: "+what, "C20/"+key)
		}
	}
}

// lcRecoverReservation: an account the auctioneer only knows as a reservation
// (the trader lost its data before InitAccount reached the auctioneer) is
// rebuilt by the REAL key sweep (AcctResNotCompletedErrFromRPC,
// incompleteAcctFromErr) and recovered by the REAL manager.
func lcRecoverReservation(r *Run, ver int, knows, walletFault bool) {
	e := newLcEnv(r)
	defer e.close()
	if err := e.mgr.Start(); err != nil {
		r.Violate("manager does not start: "+err.Error(), "C20/harness", nil)
		return
	}
	e.started = true
	e.deliverBlock(1001)
	e.height = 1001
	accts, _, err := c20Sweep("r", uint32(ver), nil)
	if err != nil || len(accts) != 1 {
		r.Violate(fmt.Sprintf("sweep of a reservation-only key failed: %v (%d accounts)", err, len(accts)), "C20/sweep-error", ver)
		return
	}
	acct := accts[0]
	id := e.acctID(acct.TraderKey.PubKey)
	// the output the trader funded for this reservation
	onChain := &account.Account{
		Value: 500000, Expiry: 5000, TraderKey: acct.TraderKey, AuctioneerKey: lcAuctKey,
		BatchKey: lcBatchKey, Secret: lcSecret, Version: account.Version(ver),
	}
	out, err := onChain.Output()
	if err != nil {
		r.Violate("no output script: "+err.Error(), "C20/harness", nil)
		return
	}
	fundTx := wire.NewMsgTx(2)
	fundTx.AddTxIn(&wire.TxIn{Witness: wire.TxWitness{[]byte{1}, []byte{2}}})
	fundTx.AddTxOut(&wire.TxOut{Value: 4242, PkScript: lcP2WKH})
	fundTx.AddTxOut(out)
	e.txName(fundTx.TxHash()) // 1
	if knows {
		e.wallet.txs = append(e.wallet.txs, lndclient.Transaction{Tx: fundTx})
	}
	e.logMu.Lock()
	logFrom := len(e.log)
	e.logMu.Unlock()
	e.wallet.failList = walletFault
	rerr := lcGuard(func() error { return e.mgr.RecoverAccount(context.Background(), acct) })
	e.wallet.failList = false
	line := fmt.Sprintf("recoverres %d %d %d %d", id, ver, b2i(knows), b2i(walletFault))
	outLine := fmt.Sprintf("%s | %s | %s", lcRes(rerr), e.dump(), e.effects(logFrom))
	r.Emit("C20 "+line, outLine)
	r.Evaluations++
	r.Distinct(line)
	bad := func(what, key string) {
		r.Count("oracle/violation")
		r.Violate(line+": "+what, key, map[string]interface{}{"reservation": true, "ver": ver, "knows": knows})
	}
	if e.wallet.fundCalls != 0 || e.wallet.pubCalls != 0 {
		bad("recovery moved funds", "C20/funds-moved")
	}
	rec, err := e.db.Account(acct.TraderKey.PubKey)
	if err != nil {
		bad("no record stored", "C20/no-record")
		return
	}
	r.Count(fmt.Sprintf("reservation/%v", rec.State))
	if walletFault {
		r.Count("case/wallet-fault")
		if rec.State == account.StateCanceledAfterRecovery {
			bad("the wallet's transaction listing failed, yet the reserved account was marked canceled-after-recovery",
				"C20/canceled-on-wallet-fault")
		}
		return
	}
	if !knows {
		if rec.State != account.StateCanceledAfterRecovery {
			bad(fmt.Sprintf("unfunded reservation stored as %v", rec.State), "C20/not-canceled")
		}
		return
	}
	recOut, _ := rec.Output()
	if rec.State != account.StatePendingOpen || rec.OutPoint.Hash != fundTx.TxHash() || rec.OutPoint.Index != 1 ||
		recOut == nil || !bytes.Equal(recOut.PkScript, out.PkScript) {
		bad(fmt.Sprintf("the wallet knows the funding tx of the reserved version-%d account, but the record is %v at %v "+
			"(expected pending open at %v:1 with the funded script)", ver, rec.State, rec.OutPoint, fundTx.TxHash()),
			"C20/reservation-not-recovered")
	}
	if len(e.notifier.liveRegs(id, true)) == 0 {
		bad("recovered reservation is not watched for its confirmation", "C20/i2")
	}
	// the auctioneer only holds a reservation for this key: unless recovery completes it (InitAccount with the
	// located outpoint) the auctioneer never learns the output and cannot co-sign a later cooperative closure
	r.Count("reservation/init-checked")
	if e.auct.inits == 0 || e.auct.lastInit == nil {
		bad(fmt.Sprintf("the reserved version-%d account was recovered (pending open at %v) but the auctioneer was never "+
			"told its outpoint (no InitAccount): the reservation stays incomplete and a cooperative closure cannot be co-signed",
			ver, rec.OutPoint), "C20/reservation-not-completed")
	} else if *e.auct.lastInit != rec.OutPoint {
		bad(fmt.Sprintf("the auctioneer was told outpoint %v for the recovered reservation, the stored record says %v",
			*e.auct.lastInit, rec.OutPoint), "C20/reservation-not-completed")
	}
}
