//go:build verif

package main

import (
	"encoding/json"
	"fmt"
	"strconv"
	"strings"

	"github.com/btcsuite/btcd/btcutil"
	"github.com/lightninglabs/pool/account"
	"github.com/lightninglabs/pool/auctioneerrpc"
	"github.com/lightninglabs/pool/order"
)

func init() { props["C13"] = runC13 }

type c13Diff struct {
	acct, state            int
	bal, idx, expiry, ver  int64
}

func parseDiffs(s string) ([]c13Diff, bool) {
	if s == "_" {
		return nil, true
	}
	var res []c13Diff
	for _, p := range strings.Split(s, "/") {
		var d c13Diff
		if _, err := fmt.Sscanf(p, "%d:%d:%d:%d:%d:%d", &d.acct, &d.state, &d.bal, &d.idx, &d.expiry, &d.ver); err != nil {
			return nil, false
		}
		res = append(res, d)
	}
	return res, true
}

// c13Case runs one history of batches through the real batchStorer on a real
// database and evaluates the C13 oracle.
type c13Case struct {
	r    *Run
	d    *c06DB
	bs   order.BatchStorer
	hist []string
	prev *c06Obs
	bad  string

	init    map[int]c06Ord    // orders as submitted
	done    map[int]uint64    // units of COMPLETED batches per order
	pend    map[int][]uint64  // matches of the batch staged last (nil = nothing staged)
	pendTx  int               // batch transaction (tag) of the batch staged last
	boundary, completes, abandoned int
}

func (c *c13Case) violate(format string, a ...interface{}) {
	if c.bad == "" {
		c.bad = fmt.Sprintf("op #%d %q: ", len(c.hist), c.hist[len(c.hist)-1]) + fmt.Sprintf(format, a...)
	}
}

func (c *c13Case) step(op string) {
	r, d := c.r, c.d
	f := strings.Fields(op)
	if len(f) == 0 {
		return
	}
	c.hist = append(c.hist, op)
	prev := c.prev
	res := ""
	var matched map[int][]uint64
	atoi := func(s string) int { v, _ := strconv.Atoi(s); return v }
	func() {
		defer func() {
			if p := recover(); p != nil {
				res = "panic"
			}
		}()
		switch f[0] {
		case "addacct":
			var v [10]int64
			for i := 0; i < 10; i++ {
				v[i], _ = strconv.ParseInt(f[1+i], 10, 64)
			}
			res = c06ErrName(d.db.AddAccount(d.toAcct(int(v[0]),
				c06Acct{v[1], v[2], v[3], v[4], v[5], v[6], v[7], v[8], v[9]})))
		case "submit":
			n := atoi(f[1])
			rec := c06ParseOrd(f[2:])
			res = c06ErrName(d.db.SubmitOrder(d.toOrder(n, rec)))
			if res == "ok" {
				c.init[n] = rec
			}
		case "bstage":
			id, tx, fee := atoi(f[1]), atoi(f[2]), f[3] == "1"
			mt, _, _ := parseMatches(f[7])
			ds, _ := parseDiffs(f[8])
			matched = mt
			b := d.batch(id, tx, fee, mt)
			b.Version = order.BatchVersion(0)
			if f[4] == "1" {
				b.Version = order.ExtendAccountBatchVersion
			}
			if f[5] == "1" {
				b.Version = order.UpgradeAccountTaprootBatchVersion
			}
			if b.Version.SupportsAccountExtension() != (f[4] == "1" || f[5] == "1") ||
				b.Version.SupportsAccountTaprootUpgrade() != (f[5] == "1") {
				panic("batch version predicates changed")
			}
			b.HeightHint = uint32(atoi(f[6]))
			for _, x := range ds {
				b.AccountDiffs = append(b.AccountDiffs, &order.AccountDiff{
					AccountKeyRaw: c06Ser(d.w.acctKey[x.acct]),
					AccountKey:    d.w.acctKey[x.acct],
					EndingState:   auctioneerrpc.AccountDiff_AccountState(x.state),
					EndingBalance: btcutil.Amount(x.bal),
					OutpointIndex: int32(x.idx),
					NewExpiry:     uint32(x.expiry),
					NewVersion:    account.Version(x.ver),
				})
			}
			res = c06ErrName(c.bs.StorePendingBatch(b))
		case "complete":
			res = c06ErrName(c.bs.MarkBatchComplete())
		case "discard":
			res = c06ErrName(d.db.DeletePendingBatch())
		case "reconnect":
			// a reconnect between sign (staging) and finalize: the real
			// Client.checkPendingBatch on the real database
			res, _ = d.reconnect(f[1], f[2] == "1")
		case "reconn":
			// … through the real client's (re-)connection paths
			res, _ = d.reconnVia(f[1], f[2], f[3] == "1")
		case "reopen":
			d.reopen()
			c.bs = order.VerifStageNewBatchStorer(d.db, d.db.Account)
			res = "ok"
		default:
			res = "bad-op"
		}
	}()
	r.Emit("C13 "+op, res)
	ob := d.observe()
	r.Emit("C13 obs", ob.str())
	c.prev = ob
	if ob.bad != "" {
		c.violate("observer failed: %s", ob.bad)
	}
	if prev == nil {
		return
	}
	ok := res == "ok"
	if f[0] == "reconnect" || f[0] == "reconn" {
		ok = true
	}
	if res == "panic" {
		r.Count("panic/" + f[0])
	}
	if !ok && ob.str() != prev.str() {
		c.violate("failed call (%s) changed observable state", res)
	}
	ordersSame := func() bool {
		for n := 1; n <= 7; n++ {
			a, ina := prev.O[n]
			b, inb := ob.O[n]
			if ina != inb || a != b {
				return false
			}
		}
		return true
	}
	switch f[0] {
	case "bstage":
		if !ok {
			kind := res
			if res == "err" {
				// sub-class for the coverage histogram, from the inputs
				ds, _ := parseDiffs(f[8])
				kind = "feeSched"
				for _, x := range ds {
					if x.state > 3 {
						kind = "endingState"
					}
				}
				for _, x := range ds {
					if _, known := prev.A[x.acct]; !known {
						kind = "getAccount"
					}
				}
				for n := range matched {
					if _, known := prev.O[n]; !known {
						kind = "getOrder"
					}
				}
			}
			r.Count("bstage/fail/" + kind)
			break
		}
		r.Count("bstage/ok")
		if c.pend != nil {
			c.abandoned++
			r.Count("bstage/restage")
		}
		c.pend = matched
		c.pendTx = atoi(f[2])
		if !ordersSame() {
			c.violate("staging through batchStorer changed visible orders")
		}
		// each matched order got exactly one more event, recording the
		// state change and the filled total of the STAGED version
		for n := 1; n <= 7; n++ {
			us, in := matched[n]
			if !in {
				if len(ob.E[n]) != len(prev.E[n]) {
					c.violate("order %d not in the batch got an event", n)
				}
				continue
			}
			o := prev.O[n]
			rem := o.Unfilled
			for _, u := range us {
				rem -= u
			}
			st := int64(order.StatePartiallyFilled)
			if rem == 0 || rem < o.Min {
				st = int64(order.StateExecuted)
			}
			want := fmt.Sprintf("u%d,%d,%d", o.State, st, o.Units-rem)
			if len(ob.E[n]) != len(prev.E[n])+1 || ob.E[n][len(ob.E[n])-1] != want {
				c.violate("order %d: event after staging is %v, want one new %s", n, ob.E[n], want)
			}
			switch {
			case rem == 0:
				r.Count("fill/rem=0")
				c.boundary++
			case rem+1 == o.Min:
				r.Count("fill/rem=min-1")
				c.boundary++
			case rem == o.Min:
				r.Count("fill/rem=min")
				c.boundary++
			case rem < o.Min:
				r.Count("fill/rem<min")
			case rem > o.Unfilled:
				r.Count("fill/wrapped")
			default:
				r.Count("fill/partial")
			}
			if len(us) > 1 {
				r.Count("fill/multi-match")
			}
		}
	case "complete":
		if c.pend == nil {
			r.Count("complete/nopending")
			if res != "noPending" {
				c.violate("complete without staged batch returned %s", res)
			}
			break
		}
		r.Count("complete/ok")
		c.completes++
		if !ok {
			c.violate("complete of staged batch failed: %s", res)
			break
		}
		for n := 1; n <= 7; n++ {
			o, in := prev.O[n]
			if !in {
				continue
			}
			us, m := c.pend[n]
			if !m {
				if ob.O[n] != o {
					c.violate("order %d was not in the completed batch but changed: %v -> %v", n, o, ob.O[n])
				}
				continue
			}
			rem := o.Unfilled
			var sum uint64
			for _, u := range us {
				rem -= u
				sum += u
			}
			c.done[n] += sum
			want := o
			want.Unfilled = rem
			want.State = int64(order.StatePartiallyFilled)
			if rem == 0 || rem < o.Min {
				want.State = int64(order.StateExecuted)
			}
			if ob.O[n] != want {
				c.violate("order %d after completion: got %v want %v (matched %v)", n, ob.O[n], want, us)
			}
			if len(ob.E[n]) != len(prev.E[n]) {
				c.violate("completion wrote events for order %d", n)
			}
		}
		c.pend = nil
	case "discard":
		if c.pend != nil {
			c.abandoned++
			r.Count("discard/pending")
		}
		c.pend = nil
		if !ordersSame() {
			c.violate("discard changed visible orders")
		}
	case "reconnect", "reconn":
		// the staged batch survives unless the auctioneer finalised ANOTHER
		// txid (and cleanup worked); a signed copy of the same transaction is
		// the same batch. Orders are never touched.
		rpc, rm := f[1], f[2]
		if f[0] == "reconn" {
			rpc, rm = f[2], f[3]
		}
		if strings.HasPrefix(res, "hung:") || strings.HasPrefix(res, "panic:") || strings.HasPrefix(res, "setup:") {
			c.violate("reconnect crashed / did not terminate: %s", res)
			break
		}
		if !ordersSame() {
			c.violate("reconnect changed visible orders")
		}
		wantDiscard := false
		if c.pend != nil && strings.HasPrefix(rpc, "fin") {
			t := atoi(rpc[strings.Index(rpc, ":")+1:])
			wantDiscard = t != c.pendTx && rm == "1"
			switch {
			case t == c.pendTx && strings.HasPrefix(rpc, "finw"):
				r.Count("reconnect/same-tx-signed")
			case t == c.pendTx:
				r.Count("reconnect/same-tx-unsigned")
			default:
				r.Count("reconnect/other-tx")
			}
		} else if c.pend != nil {
			r.Count("reconnect/pending-" + rpc)
		}
		if c.pend != nil && !wantDiscard && ob.P == nil {
			c.violate("reconnect (%s) dropped the staged batch although the auctioneer did not finalise another "+
				"transaction: its fills will never reach the orders (%s)", rpc, res)
		}
		if wantDiscard {
			if ob.P != nil {
				c.violate("auctioneer finalised another transaction but the staged batch was kept (%s)", res)
			}
			c.abandoned++
			c.pend = nil
		}
	case "reopen":
		if ob.str() != prev.str() {
			c.violate("reopen changed observable state")
		}
	}
	// across the whole history: unfilled = initial - sum over COMPLETED batches only
	for n, o0 := range c.init {
		if got := ob.O[n].Unfilled; got != o0.Unfilled-c.done[n] {
			c.violate("order %d: unfilled %d, want initial %d - completed %d", n, got, o0.Unfilled, c.done[n])
		}
	}
}

func runC13(r *Run) {
	r.Rule = "random histories (1-3 accounts, 1-6 orders with units 1..40 and min match 1..6, then <=25 ops) of " +
		"stage-through-batchStorer / re-stage / discard / complete / reopen on a real bbolt file; match splits " +
		"(1-3 counterparties) chosen so that the remainder hits 0, min-1, min, min+1 or a random value, rarely " +
		"over-filling (uint64 wrap), with unknown orders/accounts and invalid ending states injected; " +
		"non-trivial = distinct history with >=1 completed batch, >=1 abandoned (re-staged/discarded) batch " +
		"and >=1 boundary remainder"
	w := newC06World()
	runOne := func(ops []string) {
		c := &c13Case{r: r, d: openC06DB(w, "c13"), init: map[int]c06Ord{}, done: map[int]uint64{}}
		c.bs = order.VerifStageNewBatchStorer(c.d.db, c.d.db.Account)
		r.Emit("C13 reset", "ok")
		c.prev = c.d.observe()
		r.Emit("C13 obs", c.prev.str())
		for _, op := range ops {
			c.step(strings.TrimPrefix(op, "C13 "))
		}
		r.Evaluations++
		if c.completes > 0 && c.abandoned > 0 && c.boundary > 0 {
			r.Distinct(strings.Join(c.hist, ";"))
			r.Sample(c.hist)
		}
		if c.bad != "" {
			r.Count("oracle/violation")
			r.Violate(c.bad, "C13/history", c.hist)
		}
		c.d.close()
	}
	for _, raw := range r.FixedCases() {
		var ops []string
		if json.Unmarshal(raw, &ops) != nil {
			continue
		}
		r.Count("case/fixed")
		runOne(ops)
	}
	if r.ReplayFile != "" {
		return
	}
	rng := r.Rng
	g := &c06Gen{r: r}
	ri := func(u uint64) uint64 {
		if u > 1<<30 {
			u = 1 << 30
		}
		return uint64(rng.Intn(int(u) + 1))
	}
	for i := 0; i < r.N; i++ {
		nA, nO := 1+rng.Intn(3), 1+rng.Intn(6)
		var ops []string
		for k := 1; k <= nA; k++ {
			ops = append(ops, fmt.Sprintf("addacct %d %d %d 3 %d %d %d %d %d %d", k, 100000+rng.Intn(900000),
				144+rng.Intn(1000), rng.Intn(5), rng.Intn(8), rng.Intn(3), rng.Intn(500), 1+rng.Intn(7), rng.Intn(2)))
		}
		// model of the fill state kept by the GENERATOR only to aim at boundaries
		unf := map[int]uint64{}
		minm := map[int]uint64{}
		for n := 1; n <= nO; n++ {
			units := uint64(1 + rng.Intn(40))
			u := units
			if rng.Intn(4) == 0 {
				u = uint64(rng.Intn(int(units) + 1))
			}
			mn := uint64(1 + rng.Intn(6))
			st := 0
			if u < units {
				st = 2
			}
			unf[n], minm[n] = u, mn
			ops = append(ops, fmt.Sprintf("submit %d %d %d %d %d %s", n, st, u, units, mn, g.terms()))
		}
		var staged map[int]uint64
		lastTx := 0
		length := 1 + rng.Intn(25)
		for j := 0; j < length; j++ {
			switch x := rng.Intn(100); {
			case x < 55:
				var mt, ds []string
				next := map[int]uint64{}
				perm := rng.Perm(nO)
				cnt := 1 + rng.Intn(nO)
				if rng.Intn(10) == 0 {
					cnt = 0
				}
				for _, pi := range perm[:cnt] {
					n := pi + 1
					u := unf[n]
					var rem uint64
					switch rng.Intn(6) {
					case 0:
						rem = 0
					case 1:
						rem = minm[n] - 1
					case 2:
						rem = minm[n]
					case 3:
						rem = minm[n] + 1
					default:
						rem = ri(u)
					}
					var sum uint64
					if rem <= u {
						sum = u - rem
					} else {
						sum = ri(u)
					}
					if rng.Intn(40) == 0 {
						sum = u + 1 + uint64(rng.Intn(3)) // over-fill: uint64 wrap
					}
					parts := 1 + rng.Intn(3)
					var us []string
					left := sum
					for p := 0; p < parts; p++ {
						v := left
						if p < parts-1 {
							v = ri(left)
						}
						left -= v
						us = append(us, strconv.FormatUint(v, 10))
					}
					if rng.Intn(15) == 0 && !strings.Contains(strings.Join(mt, "/")+"/", "7:") {
						n = 7 // unknown order
					}
					mt = append(mt, fmt.Sprintf("%d:%s", n, strings.Join(us, "+")))
					next[n] = sum
				}
				for k := 1; k <= nA; k++ {
					if rng.Intn(2) == 0 {
						continue
					}
					st := []int{0, 0, 0, 1, 2, 3}[rng.Intn(6)]
					if rng.Intn(20) == 0 {
						st = 4 + rng.Intn(3) // invalid ending state
					}
					kk := k
					if rng.Intn(20) == 0 {
						kk = 5 // unknown account
					}
					ds = append(ds, fmt.Sprintf("%d:%d:%d:%d:%d:%d", kk, st, rng.Intn(1000000), rng.Intn(4),
						[]int{0, 0, 2000 + rng.Intn(100)}[rng.Intn(3)], rng.Intn(3)))
				}
				fee := 1
				if rng.Intn(25) == 0 {
					fee = 0
				}
				ver := rng.Intn(3)
				lastTx = 1 + rng.Intn(7)
				ops = append(ops, fmt.Sprintf("bstage %d %d %d %d %d %d %s %s", 1+rng.Intn(5), lastTx, fee,
					btoi(ver >= 1), btoi(ver >= 2), rng.Intn(1000), joinOr2(mt, "/"), joinOr2(ds, "/")))
				_ = g
				// the generator cannot know whether the call succeeds; it
				// tracks the optimistic case only to aim later batches
				if fee == 1 && !strings.Contains(joinOr2(mt, "/"), "7:") {
					staged = next
				}
			case x < 63 && lastTx > 0:
				// reconnect between sign and finalize; the finalised
				// transaction normally carries witnesses (finw)
				var rpc string
				switch y := rng.Intn(20); {
				case y < 9:
					rpc = fmt.Sprintf("finw:%d", lastTx)
				case y < 11:
					rpc = fmt.Sprintf("fin:%d", lastTx)
				case y < 14:
					rpc = fmt.Sprintf("finw:%d", 1+(lastTx+rng.Intn(6))%7)
				case y < 17:
					rpc = "err1"
				case y < 18:
					rpc = "err0"
				default:
					rpc = "mal"
				}
				rm := 1
				if rng.Intn(8) == 0 {
					rm = 0
				}
				if rng.Intn(3) == 0 {
					ops = append(ops, fmt.Sprintf("reconn %s %s %d", []string{"first", "err", "shut"}[rng.Intn(3)], rpc, rm))
				} else {
					ops = append(ops, fmt.Sprintf("reconnect %s %d", rpc, rm))
				}
			case x < 75:
				ops = append(ops, "complete")
				for n, s := range staged {
					unf[n] -= s
				}
				staged = nil
			case x < 87:
				ops = append(ops, "discard")
				staged = nil
			default:
				ops = append(ops, "reopen")
			}
		}
		runOne(ops)
	}
}

func btoi(b bool) int {
	if b {
		return 1
	}
	return 0
}
