//go:build verif

package main

import (
	"bytes"
	"encoding/hex"
	"encoding/json"
	"fmt"
	"os"
	"path/filepath"

	"github.com/btcsuite/btcd/wire"
	"github.com/lightninglabs/pool/account"
	"github.com/lightninglabs/pool/clientdb"
)

func init() { props["C10"] = runC10 }

// c10Case is one recorded / replayable case.
type c10Case struct {
	Kind string   `json:"kind"` // acct | tx | ...
	Acct *c10Acct `json:"acct,omitempty"`
	// acct-stale: Acct = as first added (the stale caller struct), Acct2 = full overwrite
	// applied next, Acct3 = source of the partial (value/expiry/height hint) update
	Acct2  *c10Acct      `json:"acct2,omitempty"`
	Acct3  *c10Acct      `json:"acct3,omitempty"`
	Tx     *c10Tx        `json:"tx,omitempty"`
	Order  *c10Order     `json:"order,omitempty"`
	Snap   *c10Snap      `json:"snap,omitempty"`
	Batch  *c10BatchCase `json:"batch,omitempty"`
	Conc   *c10ConcCase  `json:"conc,omitempty"`
	Ticket *c10Ticket    `json:"ticket,omitempty"`
	// raw bytes for decode-only (malformed) cases
	Raw string `json:"raw,omitempty"`
}

type c10Run struct {
	r   *Run
	g   *c10Gen
	dir string
	nDB int
}

// expect formats the outcome of a real decode exactly like the Lean driver's
// `renderRes`.
func c10Expect(rendered string, err error, panicked bool, rest int, re bool) string {
	if panicked {
		return "panic"
	}
	if err != nil {
		return "err"
	}
	reS := "0"
	if re {
		reS = "1"
	}
	return fmt.Sprintf("ok %s rest=%d re=%s", rendered, rest, reS)
}

// goSerAcct runs the real serializeAccount.
func goSerAcct(a *account.Account) (b []byte, err error, panicked bool) {
	defer func() {
		if x := recover(); x != nil {
			panicked = true
		}
	}()
	var buf bytes.Buffer
	err = clientdb.VerifC10SerializeAccount(&buf, a)
	return buf.Bytes(), err, false
}

// goDeAcct runs the real deserializeAccount on raw bytes and renders the
// outcome; it also returns the decoded account.
func goDeAcct(raw []byte) (exp string, y *account.Account) {
	var (
		err      error
		panicked bool
		rest     int
		re       bool
	)
	func() {
		defer func() {
			if x := recover(); x != nil {
				panicked = true
			}
		}()
		rd := bytes.NewReader(raw)
		y, err = clientdb.VerifC10DeserializeAccount(rd)
		if err != nil {
			return
		}
		rest = rd.Len()
		b2, err2, p2 := goSerAcct(y)
		re = err2 == nil && !p2 && bytes.Equal(b2, raw[:len(raw)-rest])
	}()
	if err != nil || panicked || y == nil {
		return c10Expect("", err, panicked, 0, false), nil
	}
	return c10Expect(renderAcct(y), nil, false, rest, re), y
}

func goDeTx(raw []byte) string {
	var (
		tx       wire.MsgTx
		err      error
		panicked bool
		rest     int
		re       bool
	)
	func() {
		defer func() {
			if x := recover(); x != nil {
				panicked = true
			}
		}()
		rd := bytes.NewReader(raw)
		err = tx.Deserialize(rd)
		if err != nil {
			return
		}
		rest = rd.Len()
		var buf bytes.Buffer
		re = tx.Serialize(&buf) == nil && bytes.Equal(buf.Bytes(), raw[:len(raw)-rest])
	}()
	if err != nil || panicked {
		return c10Expect("", err, panicked, 0, false)
	}
	return c10Expect(renderTx(&tx), nil, false, rest, re)
}

// acctDirect: real serialisation of a well-formed account, model decode of
// the bytes vs Go's read-back, oracle = read-back equals what was written.
func (c *c10Run) acctDirect(spec *c10Acct, tag string) {
	r := c.r
	a := spec.build()
	b, err, panicked := goSerAcct(a)
	r.Evaluations++
	if err != nil || panicked {
		// outside the encodable domain (the generator only does this on
		// purpose): nothing is stored; nothing to compare.
		r.Count("acct/unencodable")
		return
	}
	exp, y := goDeAcct(b)
	r.Emit("C10 acct "+hx(b), exp)
	r.Count("acct/" + tag)
	r.Count(fmt.Sprintf("acct/state-%d", spec.State))
	if spec.Version > 0 {
		r.Count("acct/versioned")
	} else {
		r.Count("acct/unversioned")
	}
	if spec.Tx != nil {
		r.Count("acct/with-tx")
	} else {
		r.Count("acct/no-tx")
	}
	r.Distinct(exp)
	r.Sample(map[string]interface{}{"kind": "acct", "bytes": len(b), "state": spec.State, "version": spec.Version})
	if y == nil || renderAcct(y) != renderAcct(a) {
		got := "<decode failed>"
		if y != nil {
			got = renderAcct(y)
		}
		r.Count("oracle/violation")
		r.Violate(fmt.Sprintf("account does not read back equal: wrote %s, read %s", renderAcct(a), got),
			"C10/acct-roundtrip", c10Case{Kind: "acct", Acct: spec})
	}
}

func (c *c10Run) txDirect(spec *c10Tx) {
	r := c.r
	tx := spec.build()
	var buf bytes.Buffer
	if err := tx.Serialize(&buf); err != nil {
		return
	}
	exp := goDeTx(buf.Bytes())
	r.Emit("C10 tx "+hx(buf.Bytes()), exp)
	r.Evaluations++
	r.Count("tx/direct")
	if tx.HasWitness() {
		r.Count("tx/witness")
	} else {
		r.Count("tx/legacy")
	}
	want := c10Expect(renderTx(tx), nil, false, 0, true)
	if exp != want {
		r.Count("oracle/violation")
		r.Violate("transaction does not read back equal: wrote "+want+" read "+exp,
			"C10/tx-roundtrip", c10Case{Kind: "tx", Tx: spec})
	}
}

// ---------------------------------------------------------------- real bbolt

func (c *c10Run) openDB(path string) *clientdb.DB {
	db, err := clientdb.New(path, clientdb.DBFilename)
	if err != nil {
		panic(err)
	}
	return db
}

// acctDB: several accounts through a real clientdb.DB in mixed order with
// updates and close/reopen; after every write every stored account is read
// back and compared with what was last written under its key.
func (c *c10Run) acctDB(n int) {
	r := c.r
	c.nDB++
	path := filepath.Join(c.dir, fmt.Sprintf("a%d", c.nDB))
	db := c.openDB(path)
	defer func() { db.Close(); os.RemoveAll(path) }()

	shadow := map[string]*c10Acct{}
	first := map[string]*c10Acct{}
	var order []string
	var staleReplay *c10Case
	checkAll := func(step string, written string) {
		for _, k := range order {
			want := shadow[k].build()
			y, err := db.Account(want.TraderKey.PubKey)
			r.Evaluations++
			if err != nil || renderAcct(y) != renderAcct(want) {
				got := fmt.Sprint(err)
				if err == nil {
					got = renderAcct(y)
				}
				what := "account does not read back equal through the database"
				key := "C10/acct-db-roundtrip"
				if k != written {
					what = "writing one account altered another stored account"
					key = "C10/acct-db-crosstalk"
				}
				r.Count("oracle/violation")
				var rp interface{} = c10Case{Kind: "acct", Acct: shadow[k]}
				if staleReplay != nil && k == written {
					rp = *staleReplay
				}
				r.Violate(fmt.Sprintf("%s (%s): wrote %s, read %s", what, step, renderAcct(want), got),
					key, rp)
			}
			if k == written {
				raw := db.VerifC10RawAccount(unhexOr(k))
				exp := "err"
				if err == nil {
					// `re` as the model computes it: re-encoding of the decoded
					// value equals the stored bytes
					b2, e2, p2 := goSerAcct(y)
					exp = c10Expect(renderAcct(y), nil, false, 0, e2 == nil && !p2 && bytes.Equal(b2, raw))
				}
				r.Emit("C10 acct "+hx(raw), exp)
				r.Distinct(exp)
			}
		}
		all, err := db.Accounts()
		if err != nil || len(all) != len(order) {
			r.Count("oracle/violation")
			r.Violate(fmt.Sprintf("Accounts() returned %d accounts (err %v), %d stored", len(all), err, len(order)),
				"C10/acct-db-list", nil)
		}
	}
	for i := 0; i < n; i++ {
		switch x := r.Rng.Intn(10); {
		case x < 5 || len(order) == 0:
			spec := c.g.acct()
			if _, dup := shadow[spec.TraderKey]; dup {
				continue
			}
			if err := db.AddAccount(spec.build()); err != nil {
				r.Count("acct/db-add-error")
				continue
			}
			shadow[spec.TraderKey] = spec
			first[spec.TraderKey] = spec
			order = append(order, spec.TraderKey)
			r.Count("acctdb/add")
			checkAll("add", spec.TraderKey)
		case x < 8:
			// overwrite every field except the trader key through a modifier
			k := order[r.Rng.Intn(len(order))]
			spec := c.g.acct()
			spec.TraderKey = k
			spec.Family, spec.Index = shadow[k].Family, shadow[k].Index
			nv := spec.build()
			mod := func(a *account.Account) {
				tk := a.TraderKey
				*a = *nv
				a.TraderKey = tk
			}
			cur := shadow[k].build()
			staleReplay = nil
			if r.Rng.Intn(2) == 0 {
				staleReplay = &c10Case{Kind: "acct-stale", Acct: first[k], Acct2: shadow[k], Acct3: spec}
				// a PARTIAL modifier (value, expiry, height hint – as the account manager's
				// modifiers do) issued with a STALE caller struct (the account as it was
				// first added): the stored record is what must be modified, not the
				// caller's copy
				ns := *shadow[k]
				ns.Value, ns.Expiry, ns.HeightHint = spec.Value, spec.Expiry, spec.HeightHint
				spec = &ns
				mod = func(a *account.Account) {
					a.Value, a.Expiry, a.HeightHint = nv.Value, nv.Expiry, nv.HeightHint
				}
				cur = first[k].build()
				r.Count("acctdb/update-partial-stale-struct")
			}
			if err := db.UpdateAccount(cur, mod); err != nil {
				r.Count("acct/db-update-error")
				continue
			}
			shadow[k] = spec
			r.Count("acctdb/update")
			checkAll("update", k)
		default:
			db.Close()
			db = c.openDB(path)
			r.Count("acctdb/reopen")
			checkAll("reopen", "")
		}
	}
}

// acctStaleFixed replays: add Acct; overwrite everything with Acct2 (fresh struct);
// partial update (value, expiry, height hint of Acct3) issued with the stale
// struct Acct; the stored record must be Acct2 with those three fields changed.
func (c *c10Run) acctStaleFixed(cs *c10Case) {
	r := c.r
	c.nDB++
	path := filepath.Join(c.dir, fmt.Sprintf("as%d", c.nDB))
	db := c.openDB(path)
	defer db.Close()
	if db.AddAccount(cs.Acct.build()) != nil {
		return
	}
	v2 := cs.Acct2.build()
	if db.UpdateAccount(cs.Acct.build(), func(a *account.Account) {
		tk := a.TraderKey
		*a = *v2
		a.TraderKey = tk
	}) != nil {
		return
	}
	v3 := cs.Acct3.build()
	if db.UpdateAccount(cs.Acct.build(), func(a *account.Account) {
		a.Value, a.Expiry, a.HeightHint = v3.Value, v3.Expiry, v3.HeightHint
	}) != nil {
		return
	}
	want := *cs.Acct2
	want.TraderKey, want.Family, want.Index = cs.Acct.TraderKey, cs.Acct.Family, cs.Acct.Index
	want.Value, want.Expiry, want.HeightHint = cs.Acct3.Value, cs.Acct3.Expiry, cs.Acct3.HeightHint
	y, err := db.Account(v2.TraderKey.PubKey)
	r.Evaluations++
	if err != nil || renderAcct(y) != renderAcct(want.build()) {
		r.Count("oracle/violation")
		r.Violate("partial update issued with a stale account struct did not modify the stored record",
			"C10/acct-db-roundtrip", *cs)
	}
}

// ---------------------------------------------------------------- malformed

// mutate damages a valid encoding: truncation, byte flips, insertion,
// random tail.
func (c *c10Run) mutate(b []byte) []byte {
	rng := c.r.Rng
	out := append([]byte{}, b...)
	switch rng.Intn(5) {
	case 0:
		if len(out) > 0 {
			out = out[:rng.Intn(len(out))]
		}
	case 1:
		for i := 0; i < 1+rng.Intn(3) && len(out) > 0; i++ {
			out[rng.Intn(len(out))] ^= byte(1 << uint(rng.Intn(8)))
		}
	case 2:
		if len(out) > 0 {
			out[rng.Intn(len(out))] = []byte{0, 1, 0xfc, 0xfd, 0xfe, 0xff, 0x80}[rng.Intn(7)]
		}
	case 3:
		p := 0
		if len(out) > 0 {
			p = rng.Intn(len(out))
		}
		ins := c.g.bytes(1 + rng.Intn(4))
		out = append(out[:p], append(ins, out[p:]...)...)
	default:
		out = append(out, c.g.bytes(1+rng.Intn(6))...)
	}
	return out
}

func (c *c10Run) acctMalformed() {
	r := c.r
	spec := c.g.acct()
	b, err, p := goSerAcct(spec.build())
	if err != nil || p {
		return
	}
	raw := c.mutate(b)
	exp, _ := goDeAcct(raw)
	r.Emit("C10 acct "+hx(raw), exp)
	r.Evaluations++
	r.Count("malformed/acct")
	if exp == "err" {
		r.Count("malformed/acct-rejected")
	} else if exp == "panic" {
		r.Count("malformed/acct-panic")
	} else {
		r.Count("malformed/acct-accepted")
	}
}

func (c *c10Run) txMalformed() {
	r := c.r
	var buf bytes.Buffer
	if err := c.g.tx().build().Serialize(&buf); err != nil {
		return
	}
	raw := c.mutate(buf.Bytes())
	exp := goDeTx(raw)
	r.Emit("C10 tx "+hx(raw), exp)
	r.Evaluations++
	r.Count("malformed/tx")
	if exp == "err" {
		r.Count("malformed/tx-rejected")
	} else {
		r.Count("malformed/tx-accepted")
	}
}

// ---------------------------------------------------------------- runner

func runC10(r *Run) {
	if r.Tier == c10ConcTier {
		runC10ConcChild(r)
		return
	}
	r.Rule = "random well-formed accounts (all 10 states, versions 0/1/2/other, LatestTx iff the state stores it; " +
		"transactions with 1-255 inputs, legacy and witness form, script lengths across the var-int boundaries) " +
		"serialised by the real code and decoded by the model (byte-exact re-encoding), directly and through a " +
		"real bbolt clientdb.DB with updates and close/reopen; plus a damaged-bytes stream; " +
		"non-trivial = distinct decoded value"
	// real bbolt files; tmpfs when available so that fsync does not dominate
	base := ""
	if st, e := os.Stat("/dev/shm"); e == nil && st.IsDir() {
		base = "/dev/shm"
	}
	dir, err := os.MkdirTemp(base, "store-c10-")
	if err != nil {
		panic(err)
	}
	defer os.RemoveAll(dir)
	c := &c10Run{r: r, g: newC10Gen(r.Rng, r.Search), dir: dir}

	for _, raw := range r.FixedCases() {
		var cs c10Case
		if json.Unmarshal(raw, &cs) != nil {
			continue
		}
		r.Count("case/fixed")
		switch cs.Kind {
		case "acct":
			if cs.Acct != nil {
				c.acctDirect(cs.Acct, "fixed")
			}
		case "acct-stale":
			if cs.Acct != nil && cs.Acct2 != nil && cs.Acct3 != nil {
				c.acctStaleFixed(&cs)
			}
		case "tx":
			if cs.Tx != nil {
				c.txDirect(cs.Tx)
			}
		case "snap":
			if cs.Snap != nil {
				c.snapDirect(cs.Snap, "fixed")
			}
		case "template":
			if cs.Order != nil && cs.Ticket != nil {
				c.templateFixed(cs.Ticket, cs.Order)
			}
		case "conc":
			if cs.Conc != nil {
				c.concParent(cs.Conc.Seed)
			}
		case "batch":
			if cs.Batch != nil {
				c.batchDB(cs.Batch)
			}
		case "snapdb":
			if cs.Snap != nil {
				c.snapDBFixed(cs.Snap)
			}
		case "order":
			// replayed through a fresh database
			if cs.Order != nil {
				c.orderFixed(cs.Order)
			}
		case "raw-acct":
			b, _ := hex.DecodeString(cs.Raw)
			exp, _ := goDeAcct(b)
			r.Emit("C10 acct "+hx(b), exp)
		}
	}
	if r.ReplayFile != "" {
		return
	}

	// maximum-size optional terms: allow / deny lists around and beyond 65535 bytes of TLV value (1985 / 1986 ids)
	c.orderLargeLists()

	// readers concurrent with writers on other objects (child process, ~3 s each)
	nConc := 1
	if r.Tier == "thorough" || r.Search {
		nConc = 3
	}
	for i := 0; i < nConc; i++ {
		c.concParent(r.Seed*1000 + int64(i))
	}

	for i := 0; i < r.N; {
		switch x := r.Rng.Intn(100); {
		case x < 22:
			c.acctDirect(c.g.acct(), "direct")
			i++
		case x < 28:
			c.txDirect(c.g.tx())
			i++
		case x < 40:
			n := 4 + r.Rng.Intn(8)
			c.acctDB(n)
			i += n
		case x < 60:
			n := 4 + r.Rng.Intn(8)
			c.orderDB(n)
			i += n
		case x < 63:
			c.batchDB(c.genBatchCase())
			i += 10
		case x < 66:
			n := 4 + r.Rng.Intn(6)
			c.templateDB(n)
			i += n
		case x < 71:
			c.orderMalformed()
			i++
		case x < 78:
			c.snapDirect(c.g.snap(), "direct")
			i += 3
		case x < 82:
			c.snapDB()
			i += 5
		case x < 84:
			c.snapMalformed()
			i++
		case x < 96:
			c.acctMalformed()
			i++
		default:
			c.txMalformed()
			i++
		}
	}
}
