//go:build verif

package main

import (
	"encoding/json"
	"fmt"
	"runtime"
	"sort"
	"strings"
	"sync"
	"time"

	"context"

	"github.com/btcsuite/btcd/btcec/v2"
	"github.com/lightninglabs/lndclient"
	"github.com/lightninglabs/pool/account/watcher"
	"github.com/lightningnetwork/lnd/chainntnfs"
)

func init() { props["C09"] = runC09 }

// c09Handler records expiry hand-offs of the real expiryWatcher.
type c09Handler struct {
	mu   sync.Mutex
	got  []string
	keys map[string]int
	sig  chan struct{}

	// onFire, when set, is called (once) from inside the expiry callback of
	// the given account: the schedule-controlled "re-registration arrives
	// while the account's own expiry is being handled" scenario.
	onFire    func()
	onFireKey int
}

func (h *c09Handler) HandleAccountConf(*btcec.PublicKey,
	*chainntnfs.TxConfirmation) error {
	return nil
}
func (h *c09Handler) HandleAccountSpend(*btcec.PublicKey,
	*chainntnfs.SpendDetail) error {
	return nil
}
func (h *c09Handler) HandleAccountExpiry(k *btcec.PublicKey, height uint32) error {
	h.mu.Lock()
	id := h.keys[string(k.SerializeCompressed())]
	h.got = append(h.got, fmt.Sprintf("%d:%d", id, height))
	hook := h.onFire
	if hook != nil && id == h.onFireKey {
		h.onFire = nil
	} else {
		hook = nil
	}
	h.mu.Unlock()
	if hook != nil {
		hook()
	}
	select {
	case h.sig <- struct{}{}:
	default:
	}
	return nil
}

func (h *c09Handler) drain() []string {
	h.mu.Lock()
	defer h.mu.Unlock()
	g := h.got
	h.got = nil
	return g
}

type c09Ghost struct {
	h      uint32
	wasDue bool
	count  int
}

func c09Key(i int) *btcec.PublicKey {
	var b [32]byte
	b[31] = byte(i)
	b[0] = 0x11
	_, pub := btcec.PrivKeyFromBytes(b[:])
	return pub
}

// runC09 drives the real expiryWatcher with random op sequences. For each op
// it records the sorted list of hand-offs, emits the op for the model, and
// checks the property's ghost oracle (count == wasDue) independently.
func runC09(r *Run) {
	r.Rule = "random sequences (len<=40) of add(k in 1..3, h in 0..12) / " +
		"block(b) with skips, repeats and lowered heights, incl. adds before the " +
		"first block; non-trivial = distinct sequence with >=1 hand-off at a " +
		"block op and >=1 re-registration"
	const nKeys = 3
	keys := make([]*btcec.PublicKey, nKeys+1)
	hd := &c09Handler{keys: map[string]int{}, sig: make(chan struct{}, 1024)}
	for i := 1; i <= nKeys; i++ {
		keys[i] = c09Key(i)
		hd.keys[string(keys[i].SerializeCompressed())] = i
	}

	// exec runs one op list on a fresh real watcher: either the bare
	// expiryWatcher, or (viaCtrl) the watcher.Controller fed by a fake chain
	// notifier, i.e. with the real expiryHandler goroutine delivering blocks.
	exec := func(opsIn []string, viaCtrl bool) {
		var w c09Target
		if viaCtrl {
			r.Count("case/via-controller")
			fn := &c09Notifier{blocks: make(chan int32), errs: make(chan error)}
			ctrl := watcher.NewController(&watcher.CtrlConfig{
				ChainNotifier: fn, Handlers: hd,
			})
			if err := ctrl.Start(); err != nil {
				panic(err)
			}
			defer func() {
				stopped := make(chan struct{})
				go func() { ctrl.Stop(); close(stopped) }()
				select {
				case <-stopped:
				case <-time.After(5 * time.Second):
					r.Count("controller/stop-timeout")
				}
			}()
			cw := &c09Ctrl{ctrl: ctrl, n: fn}
			defer func() {
				if cw.stuck {
					r.Violate("the controller's expiry handler stopped taking block epochs",
						"C09/controller-stuck", map[string]interface{}{"ops": opsIn})
				}
			}()
			w = cw
		} else {
			w = c09Direct{watcher.NewExpiryWatcher(hd)}
		}
		r.Emit("C09 reset", "ok")
		var (
			hist      []string
			best      uint32
			ghost     = map[int]*c09Ghost{}
			blockFire bool
			rereg     bool
			bad       string
		)
		// collect gathers the hand-offs since the last call.
		collect := func() []string {
			runtime.Gosched()
			got := hd.drain()
			sort.Strings(got)
			for len(hd.sig) > 0 {
				<-hd.sig
			}
			return got
		}
		// account records one op with its observed hand-offs: emits the
		// line for the model and advances the independent ghost oracle.
		step := 0
		account := func(op string, isAdd bool, k int, h uint32, got []string) {
			outStr := "-"
			if len(got) > 0 {
				outStr = strings.Join(got, ",")
			}
			hist = append(hist, op+" => "+outStr)
			r.Emit("C09 "+op, outStr)

			cnt := map[int]int{}
			for _, g := range got {
				var gk int
				var gh uint32
				fmt.Sscanf(g, "%d:%d", &gk, &gh)
				cnt[gk]++
				if !isAdd {
					blockFire = true
				}
			}
			if isAdd {
				if _, ok := ghost[k]; ok {
					rereg = true
				}
				ghost[k] = &c09Ghost{h: h, wasDue: h <= best, count: cnt[k]}
			}
			for gk, g := range ghost {
				if !(isAdd && gk == k) {
					g.wasDue = g.wasDue || g.h <= best
					g.count += cnt[gk]
				}
				want := 0
				if g.wasDue {
					want = 1
				}
				if g.count != want && bad == "" {
					bad = fmt.Sprintf("account %d registered at height %d: "+
						"%d notifications since registration, expected %d "+
						"(best=%d) after op #%d", gk, g.h, g.count, want, best, step)
				}
			}
			for gk := range cnt {
				if _, ok := ghost[gk]; !ok && bad == "" {
					bad = fmt.Sprintf("account %d notified but never registered", gk)
				}
			}
			step++
		}
		waitHandOff := func() {
			select {
			case <-hd.sig:
			case <-time.After(300 * time.Millisecond):
			}
		}

		for _, op := range opsIn {
			if bad != "" {
				// the property is already violated in this history
				break
			}
			var k int
			var h, b uint32
			switch {
			case strings.HasPrefix(op, "add "):
				fmt.Sscanf(op, "add %d %d", &k, &h)
				if k < 1 || k > nKeys {
					continue
				}
				r.Count("op/add")
				w.Add(keys[k], h)
				if h <= best {
					// a hand-off goroutine should have been
					// spawned: wait for it (bounded).
					r.Count("add/already-expired")
					waitHandOff()
				}
				account(op, true, k, h, collect())

			case strings.Contains(op, " & add "):
				// "block b & add k h" (h > b): the add is issued by
				// another goroutine from INSIDE k's expiry callback
				// (if it fires), i.e. while NewBlock is still
				// running. Both entry points are atomic, so the only
				// legal outcome is that of "block b" followed by
				// "add k h".
				fmt.Sscanf(op, "block %d & add %d %d", &b, &k, &h)
				if k < 1 || k > nKeys || h <= b {
					continue
				}
				r.Count("op/block+concurrent-add")
				done := make(chan struct{})
				fired := false
				hd.mu.Lock()
				hd.onFireKey = k
				hd.onFire = func() {
					fired = true
					go func() {
						w.Add(keys[k], h)
						close(done)
					}()
					// give the re-registration time to run if
					// the mutex does not hold it back
					time.Sleep(500 * time.Microsecond)
				}
				hd.mu.Unlock()
				w.Block(b)
				best = b
				hd.mu.Lock()
				hd.onFire = nil
				hd.mu.Unlock()
				if fired {
					r.Count("concurrent-add/inside-callback")
					select {
					case <-done:
					case <-time.After(5 * time.Second):
						bad = "re-registration issued during an expiry callback never returned (deadlock)"
					}
				} else {
					w.Add(keys[k], h)
				}
				got := collect()
				account(fmt.Sprintf("block %d", b), false, 0, 0, got)
				account(fmt.Sprintf("add %d %d", k, h), true, k, h, nil)

			default:
				fmt.Sscanf(op, "block %d", &b)
				r.Count("op/block")
				w.Block(b)
				best = b
				account(op, false, 0, 0, collect())
			}
		}
		r.Evaluations++
		if blockFire && rereg {
			r.Distinct(strings.Join(hist, ";"))
		}
		r.Sample(hist)
		if bad != "" {
			r.Count("oracle/violation")
			r.Violate(bad, "C09/history", map[string]interface{}{
				"ops": opsIn, "observed": hist, "via_controller": viaCtrl,
			})
		}
	}

	// recorded cases first (corpus / replay): lists of "add k h" / "block b"
	for _, raw := range r.FixedCases() {
		var c []string
		if json.Unmarshal(raw, &c) != nil {
			var o struct {
				Ops []string `json:"ops"`
			}
			if json.Unmarshal(raw, &o) != nil {
				continue
			}
			c = o.Ops
		}
		for i := range c {
			if j := strings.Index(c[i], " => "); j >= 0 {
				c[i] = c[i][:j]
			}
		}
		r.Count("case/fixed")
		exec(c, false)
		exec(c, true)
	}
	if r.ReplayFile != "" {
		return
	}

	maxH := 13
	if r.Search {
		maxH = 6 // denser collisions of heights
	}
	for c := 0; c < r.N; c++ {
		if len(r.Violations) >= 20 {
			// enough concrete failing histories; do not spend the
			// time budget waiting for hand-offs that never come
			r.Notes = append(r.Notes, "stopped early after 20 violations")
			break
		}
		var ops []string
		var best uint32
		length := 1 + r.Rng.Intn(40)
		next := uint32(r.Rng.Intn(4))
		for i := 0; i < length; i++ {
			if r.Rng.Intn(100) < 55 {
				k := 1 + r.Rng.Intn(nKeys)
				var h uint32
				switch r.Rng.Intn(4) {
				case 0:
					h = uint32(r.Rng.Intn(maxH))
				case 1:
					h = best + uint32(r.Rng.Intn(3))
				default:
					h = best + 1 + uint32(r.Rng.Intn(5))
				}
				ops = append(ops, fmt.Sprintf("add %d %d", k, h))
			} else {
				switch x := r.Rng.Intn(10); {
				case x < 5:
					next++
				case x < 8:
					next += 2 + uint32(r.Rng.Intn(4))
					r.Count("block/skip")
				case x < 9:
					r.Count("block/repeat")
				default:
					if next > 2 {
						next -= 1 + uint32(r.Rng.Intn(2))
					}
					r.Count("block/lower")
				}
				if r.Rng.Intn(6) == 0 {
					// re-registration racing with the block
					ops = append(ops, fmt.Sprintf("block %d & add %d %d", next,
						1+r.Rng.Intn(nKeys), next+1+uint32(r.Rng.Intn(5))))
				} else {
					ops = append(ops, fmt.Sprintf("block %d", next))
				}
				best = next
			}
		}
		exec(ops, c%8 == 7)
	}
	// manager level: the registration sites of account/manager.go (a renewal
	// must re-register the expiry with the real watcher controller: no expiry
	// is handled between the old and the new height, exactly one afterwards);
	// real account manager + real watcher.Controller, see c09_manager.go
	c09ManagerScenarios(r)

	// stray late hand-offs would indicate a missed wait
	time.Sleep(5 * time.Millisecond)
	if s := hd.drain(); len(s) > 0 {
		r.Notes = append(r.Notes, fmt.Sprintf("stray late hand-offs: %v", s))
		r.Violate("stray hand-off after the end of the run", "C09/stray", s)
	}
}

// c09Target abstracts over the two ways the harness reaches the real watcher.
type c09Target interface {
	Add(k *btcec.PublicKey, h uint32)
	Block(b uint32)
}

type c09Direct struct {
	w interface {
		NewBlock(uint32)
		AddAccountExpiration(*btcec.PublicKey, uint32)
	}
}

func (d c09Direct) Add(k *btcec.PublicKey, h uint32) { d.w.AddAccountExpiration(k, h) }
func (d c09Direct) Block(b uint32)                   { d.w.NewBlock(b) }

// c09Notifier is a fake lndclient.ChainNotifierClient that only serves block
// epochs, over an unbuffered channel.
type c09Notifier struct {
	lndclient.ChainNotifierClient
	blocks chan int32
	errs   chan error
}

func (n *c09Notifier) RegisterBlockEpochNtfn(context.Context) (chan int32,
	chan error, error) {

	return n.blocks, n.errs, nil
}

type c09Ctrl struct {
	ctrl interface {
		WatchAccountExpiration(*btcec.PublicKey, uint32)
	}
	n     *c09Notifier
	stuck bool
}

func (c *c09Ctrl) Add(k *btcec.PublicKey, h uint32) { c.ctrl.WatchAccountExpiration(k, h) }

// Block delivers the block to the controller's expiryHandler goroutine. The
// channel is unbuffered and the handler only receives again after NewBlock
// returned, so once the SECOND send of the same height completes the first one
// has been fully processed (a repeated block is a no-op for a correct watcher;
// if it is not, the extra notifications show up as a mismatch).
func (c *c09Ctrl) Block(b uint32) {
	for i := 0; i < 2; i++ {
		select {
		case c.n.blocks <- int32(b):
		case <-time.After(5 * time.Second):
			// the controller's expiry handler no longer takes
			// block epochs (stuck or gone)
			c.stuck = true
			return
		}
	}
}
