//go:build verif

package main

import (
	"bytes"
	"context"
	"encoding/json"
	"errors"
	"fmt"
	"sort"
	"strings"
	"sync/atomic"
	"time"

	"github.com/btcsuite/btcd/btcec/v2"
	"github.com/btcsuite/btcd/btcutil"
	"github.com/btcsuite/btcd/chaincfg/chainhash"
	"github.com/btcsuite/btcd/wire"
	"github.com/lightninglabs/pool/account"
	"github.com/lightninglabs/pool/account/watcher"
	"github.com/lightninglabs/pool/auctioneerrpc"
	"github.com/lightninglabs/pool/clientdb"
	"github.com/lightninglabs/pool/order"
	"github.com/lightninglabs/pool/poolscript"
	"github.com/lightninglabs/pool/terms"
	"github.com/lightningnetwork/lnd/chainntnfs"
	"github.com/lightningnetwork/lnd/lnwallet/chainfee"
)

func init() { props["C08"] = runC08 }

// lcOp is one abstract step of a history (the replay / corpus format).
type lcOp struct {
	Op    string        `json:"op"`
	K     int           `json:"k,omitempty"`
	A     int64         `json:"a,omitempty"`    // value / amount / registration position
	B     int64         `json:"b,omitempty"`    // expiry delta relative to the chain height
	V     int           `json:"v,omitempty"`    // (new) account version
	Kind  string        `json:"kind,omitempty"` // modification kind / spend kind
	Fail  bool          `json:"fail,omitempty"` // wallet cannot fund
	Grid  bool          `json:"grid,omitempty"` // new expiry heights are rounded up to a multiple of 100 (accounts share heights)
	BV    int           `json:"bv,omitempty"`   // batch version
	K2    int           `json:"k2,omitempty"`   // second account of a concurrent delivery
	Kind2 string        `json:"kind2,omitempty"`
	Accts []lcStageAcct `json:"accts,omitempty"`
}

type lcStageAcct struct {
	K       int   `json:"k"`
	Ending  int   `json:"ending"`
	EndBal  int64 `json:"end_bal"`
	NewExp  int64 `json:"new_exp"` // delta, 0 = unchanged
	NewVer  int   `json:"new_ver"`
	OutIdx  int   `json:"-"`
	present bool
}

func (o lcOp) String() string {
	b, _ := json.Marshal(o)
	return string(b)
}

// ------------------------------------------------------------------ dump

func (e *lcEnv) fmtAcct(a *account.Account) string {
	ltx := "-"
	if a.LatestTx != nil {
		ltx = fmt.Sprint(e.txName(a.LatestTx.TxHash()))
	}
	return fmt.Sprintf("%d/%d:%d/%d/%d/%d/%d/%d/%s", uint8(a.State), e.txName(a.OutPoint.Hash),
		a.OutPoint.Index, int64(a.Value), a.Expiry, uint8(a.Version), lcBatchCounter(a.BatchKey),
		a.HeightHint, ltx)
}

func (e *lcEnv) stagedAccounts() map[[33]byte]*account.Account {
	snap, err := e.db.PendingBatchSnapshot()
	if err != nil || snap == nil {
		return nil
	}
	return snap.Accounts
}

func (e *lcEnv) records() (map[int]*account.Account, map[int]*account.Account) {
	main, staged := map[int]*account.Account{}, map[int]*account.Account{}
	st := e.stagedAccounts()
	for i := 1; i <= lcNumAccts; i++ {
		if a, err := e.db.Account(e.accts[i].key.PubKey); err == nil {
			main[i] = a
			e.noteAccount(a)
		}
		if b, ok := st[e.accts[i].raw]; ok {
			staged[i] = b
			e.noteAccount(b)
		}
	}
	return main, staged
}

func (e *lcEnv) dump() string {
	main, staged := e.records()
	var parts []string
	for i := 1; i <= lcNumAccts; i++ {
		a, ok := main[i]
		if !ok {
			continue
		}
		g := "-"
		if b, ok := staged[i]; ok {
			g = e.fmtAcct(b)
		}
		var cs, ss []string
		for _, r := range e.notifier.liveRegs(i, true) {
			cs = append(cs, fmt.Sprintf("%d@%s", e.txName(r.txid), e.scriptName(r.script)))
		}
		for _, r := range e.notifier.liveRegs(i, false) {
			ss = append(ss, fmt.Sprintf("%d:%d@%s", e.txName(r.op.Hash), r.op.Index, e.scriptName(r.script)))
		}
		exp := "-"
		if e.started {
			if x, ok := watcher.VerifLifecycleExpiry(e.ctrl.real, e.accts[i].key.PubKey); ok {
				exp = fmt.Sprint(x)
			}
		}
		parts = append(parts, fmt.Sprintf("%d=%s c[%s] s[%s] e%s g=%s", i, e.fmtAcct(a),
			strings.Join(cs, ","), strings.Join(ss, ","), exp, g))
	}
	return strings.Join(parts, " ; ")
}

func (e *lcEnv) effects(from int) string {
	e.logMu.Lock()
	evs := append([]lcEvent(nil), e.log[from:]...)
	e.logMu.Unlock()
	var parts []string
	for i := 0; i <= lcNumAccts; i++ {
		for _, ev := range evs {
			if ev.Acct != i {
				continue
			}
			switch ev.Kind {
			case 'W':
				t := "-"
				if ev.HasTx {
					t = fmt.Sprint(e.txName(ev.Tx))
				}
				parts = append(parts, fmt.Sprintf("W%d=%d/%s", i, uint8(ev.State), t))
			case 'P':
				parts = append(parts, fmt.Sprintf("P%d=%d", i, e.txName(ev.Tx)))
			case 'F':
				parts = append(parts, fmt.Sprintf("F%d=%d", i, ev.Value))
			}
		}
	}
	if len(parts) == 0 {
		return "-"
	}
	return strings.Join(parts, " ")
}

// ------------------------------------------------------------------ oracle (independent of the model)

// lcLegal is the documented account lifecycle (account/interfaces.go state
// comments, HandleAccount* comments, rpc docs): from -> allowed next states.
var lcLegal = map[account.State][]account.State{
	account.StateInitiated:   {account.StatePendingOpen, account.StateCanceledAfterRecovery, account.StateClosed},
	account.StatePendingOpen: {account.StateOpen, account.StateClosed},
	account.StatePendingUpdate: {account.StateOpen, account.StateExpiredPendingUpdate,
		account.StateClosed},
	account.StatePendingBatch: {account.StateOpen, account.StateExpiredPendingUpdate,
		account.StateClosed, account.StatePendingBatch, account.StatePendingClosed},
	account.StateOpen: {account.StatePendingUpdate, account.StateExpired, account.StatePendingClosed,
		account.StatePendingBatch, account.StateClosed},
	// (an account that expires between the staging and the completion of a batch still takes the batch result)
	account.StateExpired: {account.StatePendingUpdate, account.StatePendingClosed,
		account.StateClosed, account.StatePendingBatch},
	account.StateExpiredPendingUpdate: {account.StateExpired, account.StateClosed,
		account.StatePendingBatch, account.StatePendingClosed},
	account.StatePendingClosed:        {account.StateClosed},
	account.StateClosed:               {},
	account.StateCanceledAfterRecovery: {},
}

func lcIsLegal(from, to account.State) bool {
	for _, t := range lcLegal[from] {
		if t == to {
			return true
		}
	}
	return false
}

type lcSnap struct {
	state  map[int]account.State
	expiry map[int]uint32
	rec    map[int]string
	closed map[int]bool
}

func (e *lcEnv) snapshot() lcSnap {
	main, _ := e.records()
	s := lcSnap{state: map[int]account.State{}, rec: map[int]string{}, expiry: map[int]uint32{}}
	for i, a := range main {
		s.state[i] = a.State
		s.expiry[i] = a.Expiry
		s.rec[i] = e.fmtAcct(a)
	}
	return s
}

// i1 checks record <-> latest transaction consistency of one (stored or
// staged) record.
func (e *lcEnv) i1(i int, a *account.Account, tag string) (string, string) {
	out, err := lcOutput(a)
	if err != nil {
		return fmt.Sprintf("%saccount %d: no output script: %v", tag, i, err), "C08/i1-output"
	}
	switch a.State {
	case account.StatePendingOpen, account.StatePendingUpdate, account.StatePendingBatch,
		account.StateOpen, account.StateExpired, account.StateExpiredPendingUpdate:

		switch {
		case a.LatestTx == nil:
			return fmt.Sprintf("%saccount %d in %v has no latest transaction", tag, i, a.State), "C08/i1-nil"
		case a.LatestTx.TxHash() != a.OutPoint.Hash:
			return fmt.Sprintf("%saccount %d in %v: outpoint %v is not an output of the stored latest tx %v",
				tag, i, a.State, a.OutPoint, a.LatestTx.TxHash()), "C08/i1-hash"
		case int(a.OutPoint.Index) >= len(a.LatestTx.TxOut):
			return fmt.Sprintf("%saccount %d in %v: outpoint index %d out of range", tag, i, a.State,
				a.OutPoint.Index), "C08/i1-index"
		}
		o := a.LatestTx.TxOut[a.OutPoint.Index]
		if o.Value != out.Value || !bytes.Equal(o.PkScript, out.PkScript) {
			return fmt.Sprintf("%saccount %d in %v: stored value/script (%d, batch key #%d) differ from output %d of the latest tx (%d)",
				tag, i, a.State, out.Value, lcBatchCounter(a.BatchKey), a.OutPoint.Index, o.Value), "C08/i1-output"
		}
	case account.StatePendingClosed:
		if a.LatestTx == nil {
			return fmt.Sprintf("%saccount %d pending closed without latest tx", tag, i), "C08/i1-nil"
		}
		found := false
		for _, in := range a.LatestTx.TxIn {
			if in.PreviousOutPoint == a.OutPoint {
				found = true
			}
		}
		if !found {
			return fmt.Sprintf("%saccount %d pending closed: latest tx does not spend the stored outpoint %v",
				tag, i, a.OutPoint), "C08/i1-closing"
		}
	}
	return "", ""
}

// oracle evaluates the property text on the real store / registrations /
// call log after one step. viaBatch marks steps that apply a staged batch.
func (e *lcEnv) oracle(before lcSnap, logFrom int, userOp string, userAccepted bool, hist []string) (string, string) {
	main, stagedRecs := e.records()
	for i := 1; i <= lcNumAccts; i++ {
		// the staged copy of a batch must describe the batch transaction
		if b, ok := stagedRecs[i]; ok {
			if what, key := e.i1(i, b, "staged copy of "); what != "" {
				return what, key
			}
		}
		a, ok := main[i]
		if !ok {
			continue
		}
		if what, key := e.i1(i, a, ""); what != "" {
			return what, key
		}
		// ---- I2: watched for the event the state waits for
		if e.started {
			liveSpend := func(op wire.OutPoint) bool {
				for _, r := range e.notifier.liveRegs(i, false) {
					if r.op == op {
						return true
					}
				}
				return false
			}
			liveConf := func(h chainhash.Hash) bool {
				for _, r := range e.notifier.liveRegs(i, true) {
					if r.txid == h {
						return true
					}
				}
				return false
			}
			switch a.State {
			case account.StateOpen:
				x, ok := watcher.VerifLifecycleExpiry(e.ctrl.real, e.accts[i].key.PubKey)
				if !liveSpend(a.OutPoint) {
					return fmt.Sprintf("account %d open but no live spend watcher on %v", i, a.OutPoint), "C08/i2-open-spend"
				}
				if !ok || x != a.Expiry {
					return fmt.Sprintf("account %d open but expiry %d not tracked (tracked=%v %d)", i, a.Expiry, ok, x), "C08/i2-open-expiry"
				}
			case account.StateExpired, account.StatePendingClosed:
				if !liveSpend(a.OutPoint) {
					return fmt.Sprintf("account %d in %v but no live spend watcher on %v", i, a.State, a.OutPoint),
						"C08/i2-" + strings.ToLower(a.State.String())
				}
			case account.StatePendingOpen, account.StatePendingUpdate, account.StatePendingBatch,
				account.StateExpiredPendingUpdate:

				ok := liveConf(a.OutPoint.Hash)
				if a.LatestTx != nil {
					for _, in := range a.LatestTx.TxIn {
						// the predecessor's spend / confirmation leads to the conf watcher
						if liveSpend(in.PreviousOutPoint) || liveConf(in.PreviousOutPoint.Hash) {
							ok = true
						}
					}
				}
				if !ok {
					return fmt.Sprintf("account %d in %v: neither a conf watcher on %v nor a watcher on its predecessor",
						i, a.State, a.OutPoint.Hash), "C08/i2-" + strings.ToLower(a.State.String())
				}
			}
		}
		// ---- I4: legal transition, closed absorbing
		if prev, ok := before.state[i]; ok {
			e.logMu.Lock()
			chain := []account.State{prev}
			for _, ev := range e.log[logFrom:] {
				if ev.Kind == 'W' && ev.Acct == i {
					chain = append(chain, ev.State)
				}
			}
			e.logMu.Unlock()
			chain = append(chain, a.State)
			for q := 1; q < len(chain); q++ {
				if chain[q-1] != chain[q] && !lcIsLegal(chain[q-1], chain[q]) {
					key := fmt.Sprintf("C08/i4-%d-%d", chain[q-1], chain[q])
					if e.staleApplied {
						key = "C08/stale-staged-batch"
					}
					return fmt.Sprintf("account %d moved %v -> %v which is not in the documented lifecycle",
						i, chain[q-1], chain[q]), key
				}
			}
		}
		// a closed account never changes again (a repeated spend notification may
		// re-record the spending transaction and its height, nothing else)
		if prev, ok := before.state[i]; ok && prev == account.StateClosed {
			cut := func(s string) string { p := strings.Split(s, "/"); return strings.Join(p[:6], "/") }
			if cut(before.rec[i]) != cut(e.fmtAcct(a)) {
				return fmt.Sprintf("closed account %d changed: %s -> %s", i, before.rec[i], e.fmtAcct(a)), "C08/i4-closed-changed"
			}
		}
	}
	// ---- I3: every publish is preceded by the store write of the same transaction
	e.logMu.Lock()
	log := append([]lcEvent(nil), e.log...)
	e.logMu.Unlock()
	for j := logFrom; j < len(log); j++ {
		if log[j].Kind != 'P' {
			continue
		}
		ok := false
		for q := 0; q < j; q++ {
			if log[q].Kind == 'W' && log[q].HasTx && log[q].Tx == log[j].Tx {
				ok = true
			}
		}
		if !ok {
			return fmt.Sprintf("transaction %v was published before any record carrying it was stored", log[j].Tx), "C08/i3"
		}
	}
	// ---- value-changing user actions only on confirmed open (renew / close also expired)
	if userAccepted {
		var k int
		var name string
		fmt.Sscanf(userOp, "%s %d", &name, &k)
		prev, ok := before.state[k]
		good := ok && (prev == account.StateOpen ||
			((name == "renew" || name == "close") && prev == account.StateExpired))
		if !good {
			return fmt.Sprintf("%s accepted on account %d in state %v", name, k, prev),
				fmt.Sprintf("C08/accept-%s-%d", name, prev)
		}
	}
	return "", ""
}

// isAncestor: does the chain of known spenders lead from outpoint op to the stored outpoint of
// account k (in at least one step)?
func (e *lcEnv) isAncestor(k int, op wire.OutPoint) bool {
	a, err := e.db.Account(e.accts[k].key.PubKey)
	if err != nil || a.State == account.StateClosed || a.OutPoint == op {
		return false
	}
	e.logMu.Lock()
	defer e.logMu.Unlock()
	for step := 0; step < 40; step++ {
		tx := e.spenders[op]
		if tx == nil {
			return false
		}
		next, found := wire.OutPoint{}, false
		for i, o := range tx.TxOut {
			if n, ok := e.scripts[string(o.PkScript)]; ok && strings.HasPrefix(n, fmt.Sprintf("%d ", k)) {
				next, found = wire.OutPoint{Hash: tx.TxHash(), Index: uint32(i)}, true
			}
		}
		if !found {
			return false
		}
		if next == a.OutPoint {
			return true
		}
		op = next
	}
	return false
}

// ------------------------------------------------------------------ executing ops

type lcRunner struct {
	r    *Run
	e    *lcEnv
	hist []string
	bad  string
	key  string
	ops  []lcOp
}

func lcRes(err error) string {
	if err == nil {
		return "ok"
	}
	var p *lcPanic
	if errors.As(err, &p) {
		return "panic"
	}
	return "err"
}

// lcPanic is the error lcGuard turns a panic of the code under test into.
type lcPanic struct{ v interface{} }

func (p *lcPanic) Error() string { return fmt.Sprintf("PANIC: %v", p.v) }

func lcGuard(f func() error) (err error) {
	defer func() {
		if p := recover(); p != nil {
			err = &lcPanic{v: p}
		}
	}()
	return f()
}

// quietSince: nothing was written, published or funded since log position from – a call that
// returned an error this way refused its request before acting on it.  Refusals are recognised
// by this outcome (and never by the wording of the error).
func (e *lcEnv) quietSince(from int) bool {
	e.logMu.Lock()
	defer e.logMu.Unlock()
	return len(e.log) == from
}

// lcClearlyValid: a request the account manager has no reason to refuse – the state admits it, the
// expiry / version arguments are admissible and the amounts are far from every limit (the exact
// limits are C07's business; the margins here are wide on purpose).
func lcClearlyValid(kind string, st account.State, known bool, value, amount int64, oldVer, newVer int,
	newExp, oldExp, height uint32) bool {

	if !known {
		return false
	}
	stateOK := st == account.StateOpen || ((kind == "renew" || kind == "close") && st == account.StateExpired)
	if !stateOK || newVer < oldVer {
		return false
	}
	if newExp != 0 && (newExp < height+144+6 || newExp > height+52000) {
		return false
	}
	if kind == "renew" && newExp == 0 {
		return false
	}
	if st == account.StateExpired && kind == "renew" && newExp == 0 {
		return false
	}
	const margin = 50000 // far above any fee at the floor fee rate
	switch kind {
	case "deposit":
		return amount > 0 && amount <= 100000 && value+amount < 500000000
	case "withdraw":
		return amount >= 20000 && value-amount-margin >= int64(account.MinAccountValue)
	case "renew", "close":
		return value-margin >= int64(account.MinAccountValue)
	}
	return false
}

// lcGrid rounds an expiry height up to the next multiple of 100 when the op asks for it, so that
// several accounts come to share one expiry height.
func lcGrid(h uint32, grid bool) uint32 {
	if !grid {
		return h
	}
	return (h + 99) / 100 * 100
}

func lcSigned(tx *wire.MsgTx) int {
	if tx == nil {
		return 0
	}
	for _, in := range tx.TxIn {
		if len(in.Witness) == 0 && len(in.SignatureScript) == 0 {
			return 0
		}
	}
	return 1
}

func b2i(b bool) int {
	if b {
		return 1
	}
	return 0
}

// witnessFor builds an account-input witness of the given shape.
func lcWitness(kind string, v account.Version) wire.TxWitness {
	switch kind {
	case "expiry":
		return wire.TxWitness{nil, bytes.Repeat([]byte{1}, 71), bytes.Repeat([]byte{2}, 80)}
	case "multisig":
		if v >= account.VersionTaprootEnabled {
			return wire.TxWitness{bytes.Repeat([]byte{3}, 64)}
		}
		return wire.TxWitness{bytes.Repeat([]byte{4}, 71), bytes.Repeat([]byte{1}, 71), bytes.Repeat([]byte{2}, 80)}
	}
	return wire.TxWitness{[]byte{1}, []byte{2}}
}

// spendDetail builds the spend notification of the given kind for outpoint op.
func (x *lcRunner) spendDetail(k int, kind string, op wire.OutPoint, h uint32) (*chainntnfs.SpendDetail, int, bool) {
	e := x.e
	main, staged := e.records()
	a := main[k]
	var tx *wire.MsgTx
	ver := account.VersionInitialNoVersion
	if a != nil {
		ver = a.Version
	}
	switch kind {
	case "latest":
		if a == nil || a.LatestTx == nil {
			return nil, 0, false
		}
		tx = a.LatestTx.Copy()
	case "staged":
		b := staged[k]
		if b == nil || b.LatestTx == nil {
			return nil, 0, false
		}
		tx = b.LatestTx.Copy()
	default:
		tx = wire.NewMsgTx(2)
		w := map[string]string{"sweep": "expiry", "foreign": "multisig", "garbage": "garbage"}[kind]
		tx.AddTxIn(&wire.TxIn{PreviousOutPoint: op, Witness: lcWitness(w, ver)})
		tx.AddTxOut(&wire.TxOut{Value: 50000 + int64(len(e.txNames)), PkScript: lcP2WKH})
	}
	if len(tx.TxIn) == 0 {
		return nil, 0, false
	}
	idx, hit := 0, false
	for i, in := range tx.TxIn {
		if in.PreviousOutPoint == op {
			idx, hit = i, true
		}
	}
	if !hit {
		// direct handler call with a transaction that spends an older outpoint of
		// the account: report its account input (the one with an account witness)
		for i, in := range tx.TxIn {
			w := in.Witness
			if poolscript.IsExpirySpend(w) || poolscript.IsMultiSigSpend(w) ||
				poolscript.IsTaprootMultiSigSpend(w) || poolscript.IsTaprootExpirySpend(w) {
				idx = i
				break
			}
		}
	}
	if len(tx.TxIn[idx].Witness) == 0 {
		// an unsigned (batch) transaction as it appears on chain
		tx.TxIn[idx].Witness = lcWitness("multisig", ver)
	}
	return &chainntnfs.SpendDetail{
		SpentOutPoint: &op, SpendingTx: tx, SpenderInputIndex: uint32(idx), SpendingHeight: int32(h),
	}, e.txName(tx.TxHash()), true
}

func (x *lcRunner) exec(o lcOp) {
	e := x.e
	r := x.r
	ctx := context.Background()
	before := e.snapshot()
	e.logMu.Lock()
	logFrom := len(e.log)
	e.logMu.Unlock()
	expBefore := atomic.LoadInt64(&e.expiryDone)
	atomic.StoreInt64(&e.asyncExpected, 0)
	fee := chainfee.FeePerKwFloor
	var (
		line     string
		res      = "ok"
		userOp   string
		accepted bool
		// a request that was refused without any reason the harness can see
		refusedValid string
	)
	key := func(k int) *btcec.PublicKey { return e.accts[k].key.PubKey }
	completes := o.Op == "complete" || o.Op == "finalize" || o.Op == "spend2" || o.Op == "spendc" ||
		((o.Op == "spend" || o.Op == "spendd") && (o.Kind == "latest" || o.Kind == "staged" || o.Kind == "foreign"))
	// an expiry-path spend (sweep, or the account's own expiry close) is not a batch spend: it
	// must close the account and leave a staged batch alone
	expirySpend := false
	if o.Op == "spend" || o.Op == "spendd" {
		switch o.Kind {
		case "sweep":
			expirySpend = true
		case "latest":
			if a, err := e.db.Account(key(o.K)); err == nil && a.LatestTx != nil {
				for _, in := range a.LatestTx.TxIn {
					if in.PreviousOutPoint == a.OutPoint && (poolscript.IsExpirySpend(in.Witness) ||
						poolscript.IsTaprootExpirySpend(in.Witness)) {
						expirySpend = true
					}
				}
			}
		}
	}
	if expirySpend {
		completes = false
	}
	if completes && e.staleBatch && len(e.batchAccts) > 0 {
		if e.allowStale {
			e.staleApplied = true
		} else {
			r.Count("stale/auto-drop")
			x.exec(lcOp{Op: "drop"})
			before = e.snapshot()
			e.logMu.Lock()
			logFrom = len(e.log)
			e.logMu.Unlock()
		}
	}
	// "a spend that re-creates the expected next output keeps the account alive": the
	// accounts whose reported spending transaction carries their next output
	expectAlive := map[int]bool{}
	if o.Op == "spend" || o.Op == "spend2" {
		mainB, stagedB := e.records()
		mark := func(k int, kind string) {
			switch kind {
			case "staged":
				if b := stagedB[k]; b != nil && b.State == account.StatePendingBatch && mainB[k] != nil &&
					mainB[k].State != account.StateClosed {
					expectAlive[k] = true
				}
			case "latest":
				if a := mainB[k]; a != nil && a.LatestTx != nil && a.LatestTx.TxHash() == a.OutPoint.Hash &&
					(a.State == account.StatePendingUpdate || a.State == account.StatePendingBatch ||
						a.State == account.StateExpiredPendingUpdate) {
					expectAlive[k] = true
				}
			}
		}
		mark(o.K, o.Kind)
		if o.Op == "spend2" {
			mark(o.K2, o.Kind2)
		}
	}
	inBatchBefore := e.inBatch(o.K)
	batchBefore := append([]int(nil), e.batchAccts...)
	// fault injection: the auctioneer subscription fails while this event is handled
	subFault := o.Fail && (o.Op == "conf" || o.Op == "confd" || o.Op == "spend" || o.Op == "spendd" ||
		o.Op == "spendc" || o.Op == "spend2")
	if subFault {
		r.Emit("C08 subfail 1", "ok")
		e.auct.failSub = true
		r.Count("fault/subscription")
		defer func() {
			e.auct.failSub = false
			r.Emit("C08 subfail 0", "ok")
		}()
	}
	// a spend reported for an *earlier* outpoint of the account (an ancestor of the stored one)
	// must not close it
	staleSpendOf := 0
	r.Count("op/" + o.Op)
	switch o.Op {
	case "init":
		if _, ok := before.state[o.K]; ok {
			return
		}
		e.wallet.failFunding = o.Fail
		e.wallet.nextKey = e.accts[o.K].key
		expiry := lcGrid(e.height+144+uint32(o.B), o.Grid)
		var acct *account.Account
		err := lcGuard(func() error {
			var err error
			acct, err = e.mgr.InitAccount(ctx, btcutil.Amount(o.A), account.Version(o.V), fee, expiry, e.height)
			return err
		})
		e.wallet.failFunding = false
		res = lcRes(err)
		tx, idx := "-", "-"
		if rec, err := e.db.Account(key(o.K)); err == nil && rec.State != account.StateInitiated {
			tx, idx = fmt.Sprint(e.txName(rec.OutPoint.Hash)), fmt.Sprint(rec.OutPoint.Index)
		}
		_ = acct
		line = fmt.Sprintf("init %d %d %d %d %d %s %s", o.K, o.A, expiry, o.V, e.height, tx, idx)

	case "mod":
		var newExp uint32
		if o.B != 0 {
			newExp = uint32(int64(e.height) + o.B)
			if o.B >= 144 {
				newExp = lcGrid(newExp, o.Grid)
			}
		}
		var err error
		switch o.Kind {
		case "deposit":
			err = lcGuard(func() error {
				_, _, err := e.mgr.DepositAccount(ctx, key(o.K), btcutil.Amount(o.A), fee, e.height, newExp, account.Version(o.V))
				return err
			})
		case "withdraw":
			err = lcGuard(func() error {
				outs := []*wire.TxOut{{Value: o.A, PkScript: lcP2WKH}}
				if o.Kind2 == "own" {
					// a withdrawal output paying to the script the re-created account
					// output will have (new expiry / version applied)
					if a, aerr := e.db.Account(key(o.K)); aerr == nil {
						exp, ver := a.Expiry, a.Version
						if newExp != 0 {
							exp = newExp
						}
						if account.Version(o.V) > ver {
							ver = account.Version(o.V)
						}
						if sc, serr := poolscript.AccountScript(ver.ScriptVersion(), exp, a.TraderKey.PubKey,
							a.AuctioneerKey, poolscript.IncrementKey(a.BatchKey), a.Secret); serr == nil {
							outs[0].PkScript = sc
							r.Count("mod/withdraw-to-own-script")
						}
					}
				}
				_, _, err := e.mgr.WithdrawAccount(ctx, key(o.K), outs, fee, e.height, newExp, account.Version(o.V))
				return err
			})
		case "renew":
			err = lcGuard(func() error {
				_, _, err := e.mgr.RenewAccount(ctx, key(o.K), newExp, fee, e.height, account.Version(o.V))
				return err
			})
		default:
			return
		}
		res = lcRes(err)
		r.Count("mod/" + o.Kind + "/" + res)
		nv, vok, tx, idx, sg := int64(0), 1, 0, uint32(0), 0
		if err == nil {
			if rec, rerr := e.db.Account(key(o.K)); rerr == nil {
				nv, tx, idx, sg = int64(rec.Value), e.txName(rec.OutPoint.Hash), rec.OutPoint.Index, lcSigned(rec.LatestTx)
			}
			accepted = true
		} else if res == "err" && e.quietSince(logFrom) {
			// refused before anything was written, published or funded
			vok = 0
			r.Count("mod/refused-clean")
			rec, rerr := e.db.Account(key(o.K))
			st, known := before.state[o.K]
			if rerr == nil && o.Kind2 != "own" && !e.wallet.failFunding && !e.wallet.failList &&
				lcClearlyValid(o.Kind, st, known, int64(rec.Value), o.A, int(rec.Version), o.V, newExp, rec.Expiry, e.height) {

				amt := o.A
				if o.Kind == "renew" {
					amt = 0
				}
				refusedValid = fmt.Sprintf("%s (amount %d) on account %d (state %v, value %d, expiry %d -> %d, version %d -> %d) "+
					"was refused although nothing speaks against it: %v", o.Kind, amt, o.K, st, rec.Value, rec.Expiry, newExp,
					rec.Version, o.V, err)
			}
		}
		userOp = fmt.Sprintf("%s %d", o.Kind, o.K)
		line = fmt.Sprintf("mod %d %s %d %d %d %d %d %d %d %d", o.K, o.Kind, nv, vok, newExp, o.V, e.height, tx, idx, sg)

	case "close":
		var tx *wire.MsgTx
		err := lcGuard(func() error {
			var err error
			tx, err = e.mgr.CloseAccount(ctx, key(o.K), &account.OutputWithFee{FeeRate: fee}, e.height)
			return err
		})
		res = lcRes(err)
		r.Count("close/" + res)
		ok, name, sg := 1, 0, 0
		if err == nil {
			name, sg = e.txName(tx.TxHash()), lcSigned(tx)
			accepted = true
		} else if res == "err" && e.quietSince(logFrom) {
			ok = 0
			rec, rerr := e.db.Account(key(o.K))
			st, known := before.state[o.K]
			if rerr == nil && lcClearlyValid("close", st, known, int64(rec.Value), 0, 0, 0, 0, rec.Expiry, e.height) {
				refusedValid = fmt.Sprintf("close of account %d (state %v, value %d) was refused although nothing speaks "+
					"against it: %v", o.K, st, rec.Value, err)
			}
		}
		userOp = fmt.Sprintf("close %d", o.K)
		line = fmt.Sprintf("close %d %d %d %d %d", o.K, e.height, name, ok, sg)

	case "bump":
		err := lcGuard(func() error { return e.mgr.BumpAccountFee(ctx, key(o.K), fee*2) })
		res = lcRes(err)
		line = fmt.Sprintf("bump %d", o.K)

	case "conf":
		regs := e.notifier.liveRegs(o.K, true)
		h := e.height + 3
		line = fmt.Sprintf("conf %d %d %d", o.K, o.A, h)
		if int(o.A) >= len(regs) {
			if _, ok := before.state[o.K]; !ok {
				return
			}
			res = "err"
			r.Count("conf/unwatched")
			break
		}
		rg := regs[o.A]
		rg.fired = true
		select {
		case rg.confCh <- &chainntnfs.TxConfirmation{BlockHeight: h}:
			<-e.confDone
		case <-time.After(5 * time.Second):
			x.fail("conf notification not consumed by the controller", "C08/harness")
		}
		r.Count("conf/delivered")

	case "confd":
		h := e.height + 3
		_ = lcGuard(func() error { return e.mgr.HandleAccountConf(key(o.K), &chainntnfs.TxConfirmation{BlockHeight: h}) })
		line = fmt.Sprintf("confd %d %d", o.K, h)

	case "spend":
		regs := e.notifier.liveRegs(o.K, false)
		h := e.height + 1
		if int(o.A) >= len(regs) {
			if _, ok := before.state[o.K]; !ok {
				return
			}
			line = fmt.Sprintf("spend %d %d %s 0 %d", o.K, o.A, o.Kind, h)
			res = "err"
			r.Count("spend/unwatched")
			break
		}
		rg := regs[o.A]
		det, name, ok := x.spendDetail(o.K, o.Kind, rg.op, h)
		line = fmt.Sprintf("spend %d %d %s %d %d", o.K, o.A, o.Kind, name, h)
		if !ok {
			res = "err"
			break
		}
		// the chain only reports transactions that spend the watched outpoint with
		// a witness the account script admits
		if det.SpendingTx.TxIn[det.SpenderInputIndex].PreviousOutPoint != rg.op || o.Kind == "garbage" ||
			!(poolscript.IsExpirySpend(det.SpendingTx.TxIn[det.SpenderInputIndex].Witness) ||
				poolscript.IsMultiSigSpend(det.SpendingTx.TxIn[det.SpenderInputIndex].Witness) ||
				poolscript.IsTaprootMultiSigSpend(det.SpendingTx.TxIn[det.SpenderInputIndex].Witness) ||
				poolscript.IsTaprootExpirySpend(det.SpendingTx.TxIn[det.SpenderInputIndex].Witness)) {
			r.Count("spend/skipped-inapplicable")
			return
		}
		rg.fired = true
		select {
		case rg.spendCh <- det:
			<-e.spendDone
			res = lcRes(e.lastHandlerErr)
			if res == "err" {
				r.Count("spend/handler-error")
			}
		case <-time.After(5 * time.Second):
			x.fail("spend notification not consumed by the controller", "C08/harness")
		}
		r.Count("spend/" + o.Kind)

	case "spendc":
		// the chain reports the transaction that really spent the outpoint of a live
		// registration (any position: also a stale watcher of an earlier outpoint)
		regs := e.notifier.liveRegs(o.K, false)
		if int(o.A) >= len(regs) {
			return
		}
		rg := regs[o.A]
		e.logMu.Lock()
		stx := e.spenders[rg.op]
		e.logMu.Unlock()
		if stx == nil {
			r.Count("spendc/no-spender")
			return
		}
		h := e.height + 1
		tx := stx.Copy()
		idx := 0
		for i, in := range tx.TxIn {
			if in.PreviousOutPoint == rg.op {
				idx = i
			}
		}
		mainB, _ := e.records()
		ver := account.VersionInitialNoVersion
		if a := mainB[o.K]; a != nil {
			ver = a.Version
		}
		if len(tx.TxIn[idx].Witness) == 0 {
			tx.TxIn[idx].Witness = lcWitness("multisig", ver)
		}
		w := tx.TxIn[idx].Witness
		if !(poolscript.IsExpirySpend(w) || poolscript.IsMultiSigSpend(w) ||
			poolscript.IsTaprootMultiSigSpend(w) || poolscript.IsTaprootExpirySpend(w)) {
			return
		}
		if e.isAncestor(o.K, rg.op) {
			staleSpendOf = o.K
			r.Count("spendc/stale-watcher")
		}
		line = fmt.Sprintf("spendc %d %d %d %d", o.K, o.A, e.txName(tx.TxHash()), h)
		rg.fired = true
		select {
		case rg.spendCh <- &chainntnfs.SpendDetail{SpentOutPoint: &rg.op, SpendingTx: tx,
			SpenderInputIndex: uint32(idx), SpendingHeight: int32(h)}:
			<-e.spendDone
			res = lcRes(e.lastHandlerErr)
		case <-time.After(5 * time.Second):
			x.fail("spend notification not consumed by the controller", "C08/harness")
		}
		r.Count("spendc/delivered")

	case "spend2":
		// two spend notifications (e.g. confirmed in the same block) handled by two
		// controller goroutines at the same time
		regsA, regsB := e.notifier.liveRegs(o.K, false), e.notifier.liveRegs(o.K2, false)
		if len(regsA) == 0 || len(regsB) == 0 || o.K == o.K2 {
			return
		}
		h := e.height + 1
		rgA, rgB := regsA[len(regsA)-1], regsB[len(regsB)-1]
		detA, nameA, okA := x.spendDetail(o.K, o.Kind, rgA.op, h)
		detB, nameB, okB := x.spendDetail(o.K2, o.Kind2, rgB.op, h)
		admissible := func(det *chainntnfs.SpendDetail, op wire.OutPoint) bool {
			in := det.SpendingTx.TxIn[det.SpenderInputIndex]
			return in.PreviousOutPoint == op && (poolscript.IsExpirySpend(in.Witness) ||
				poolscript.IsMultiSigSpend(in.Witness) || poolscript.IsTaprootMultiSigSpend(in.Witness) ||
				poolscript.IsTaprootExpirySpend(in.Witness))
		}
		staleMix := (e.inBatch(o.K) && o.Kind == "sweep") || (e.inBatch(o.K2) && o.Kind2 == "sweep")
		if !okA || !okB || !admissible(detA, rgA.op) || !admissible(detB, rgB.op) || (staleMix && !e.allowStale) {
			r.Count("spend2/skipped-inapplicable")
			return
		}
		line = fmt.Sprintf("spend2 %d %d %s %d %d %d %s %d %d", o.K, len(regsA)-1, o.Kind, nameA,
			o.K2, len(regsB)-1, o.Kind2, nameB, h)
		e.barrier = newLcBarrier()
		rgA.fired, rgB.fired = true, true
		doneA := false
		select {
		case rgA.spendCh <- detA:
		case <-time.After(5 * time.Second):
			x.fail("spend notification not consumed by the controller", "C08/harness")
		}
		// wait until handler A is inside the pending-batch section (or has finished)
		select {
		case <-e.barrier.first:
			r.Count("spend2/overlapping")
		case <-e.spendDone:
			doneA = true
			r.Count("spend2/sequential")
		}
		select {
		case rgB.spendCh <- detB:
		case <-time.After(5 * time.Second):
			x.fail("spend notification not consumed by the controller", "C08/harness")
		}
		<-e.spendDone
		if !doneA {
			<-e.spendDone
		}
		e.barrier = nil
		e.logMu.Lock()
		res = lcRes(e.handlerErr[o.K]) + "+" + lcRes(e.handlerErr[o.K2])
		e.logMu.Unlock()

	case "spendd":
		h := e.height + 1
		op := wire.OutPoint{}
		main, _ := e.records()
		if a, ok := main[o.K]; ok {
			op = a.OutPoint
		}
		det, name, ok := x.spendDetail(o.K, o.Kind, op, h)
		line = fmt.Sprintf("spendd %d %s %d %d", o.K, o.Kind, name, h)
		if !ok {
			res = "err"
			break
		}
		err := lcGuard(func() error { return e.mgr.HandleAccountSpend(key(o.K), det) })
		res = lcRes(err)
		r.Count("spendd/" + o.Kind)

	case "block":
		e.height += uint32(o.A)
		if !e.deliverBlock(e.height) {
			x.fail("block epoch not consumed", "C08/harness")
		}
		line = fmt.Sprintf("block %d", e.height)

	case "expd":
		_ = lcGuard(func() error { return e.mgr.HandleAccountExpiry(key(o.K), e.height) })
		line = fmt.Sprintf("expd %d", o.K)

	case "stage":
		line, res = x.stage(o)
		if line == "" {
			return
		}

	case "complete":
		err := lcGuard(func() error { return e.storer.MarkBatchComplete() })
		res = lcRes(err)
		line = "complete"

	case "finalize":
		ks := append([]int(nil), e.batchAccts...)
		err := lcGuard(func() error { return e.storer.MarkBatchComplete() })
		if err == nil {
			var keys []*btcec.PublicKey
			for _, k := range ks {
				keys = append(keys, key(k))
			}
			err = lcGuard(func() error { return e.mgr.WatchMatchedAccounts(ctx, keys) })
		}
		res = lcRes(err)
		line = "finalize"

	case "drop":
		err := e.db.DeletePendingBatch()
		e.dropSpender(e.batchTx)
		e.batchAccts, e.batchTx = nil, nil
		res = lcRes(err)
		line = "drop"

	case "wm":
		err := lcGuard(func() error { return e.mgr.WatchMatchedAccounts(ctx, []*btcec.PublicKey{key(o.K)}) })
		res = lcRes(err)
		line = fmt.Sprintf("wm %d", o.K)

	case "restart":
		line, res = x.restart()

	default:
		return
	}
	if !e.waitAsync(expBefore) {
		x.fail("expiry hand-off did not complete", "C08/harness")
	}
	if n := e.notifier.flushCancels(); n > 0 {
		r.Count("notifier/cancel-errors-delivered")
	}
	if e.taint == nil {
		e.taint = map[int]bool{}
	}
	if len(batchBefore) > 0 && len(e.batchAccts) == 0 && o.Op != "finalize" && o.Op != "drop" && o.Op != "complete" {
		for _, j := range batchBefore {
			if j != o.K && !(o.Op == "spend2" && j == o.K2) {
				e.taint[j] = true
				r.Count("taint/complete-without-rewatch")
			}
		}
	}
	switch o.Op {
	case "restart", "complete":
		e.taint = map[int]bool{}
	case "wm":
		delete(e.taint, o.K)
	case "finalize":
		for _, j := range batchBefore {
			delete(e.taint, j)
		}
	}
	switch {
	case o.Op == "stage" && res == "ok", o.Op == "drop":
		e.staleBatch = false
	case inBatchBefore && accepted,
		inBatchBefore && (o.Op == "spend" || o.Op == "spendd") && o.Kind == "sweep" && res == "ok":
		e.staleBatch = true
	}
	{
		if e.extBy == nil {
			e.extBy = map[int]string{}
		}
		mainA, _ := e.records()
		for k, a := range mainA {
			if old, ok := before.expiry[k]; ok && old != a.Expiry {
				cause := "batch"
				if o.Op == "mod" && o.K == k {
					cause = o.Kind
				}
				e.extBy[k] = cause
				r.Count("expiry-changed/" + cause)
			}
		}
	}
	out := fmt.Sprintf("%s | %s | %s", res, e.dump(), e.effects(logFrom))
	r.Emit("C08 "+line, out)
	x.hist = append(x.hist, line+" => "+out)
	r.Count("res/" + res)
	if o.Op == "spend2" {
		r.Count("spend2/" + o.Kind + "+" + o.Kind2)
	}
	for i, st := range e.snapshot().state {
		if before.state[i] != st || before.rec[i] == "" {
			r.Count(fmt.Sprintf("state/%s", st))
		}
	}
	// every stored record can be read back (a record the store refuses to decode is lost to the
	// manager: it can neither be resumed nor closed)
	if x.bad == "" {
		for k := 1; k <= lcNumAccts; k++ {
			_, rerr := e.db.Account(e.accts[k].key.PubKey)
			if rerr != nil && !errors.Is(rerr, clientdb.ErrAccountNotFound) {
				x.fail(fmt.Sprintf("after op #%d (%s): the stored record of account %d (state before: %v) cannot be read back: %v",
					len(x.hist)-1, line, k, before.state[k], rerr), "C08/record-unreadable")
				break
			}
		}
	}
	// no early expiry: an account is only marked expired once the chain has reached its
	// stored expiry height
	if x.bad == "" && o.Op != "expd" {
		mainA, _ := e.records()
		for k, a := range mainA {
			prev, ok := before.state[k]
			if !ok || prev == a.State {
				continue
			}
			if (a.State == account.StateExpired || a.State == account.StateExpiredPendingUpdate) &&
				prev != account.StateExpiredPendingUpdate && a.Expiry > e.height {
				// (the former open finding C08/expired-early-extension is fixed – af64c47 – so
				// every early expiry is a violation, whatever changed the expiry last)
				key := "C08/expired-early"
				x.fail(fmt.Sprintf("after op #%d (%s): account %d with expiry %d was marked %v at height %d (expiry last changed by: %s)",
					len(x.hist)-1, line, k, a.Expiry, a.State, e.height, e.extBy[k]), key)
			}
		}
	}
	if x.bad == "" && expirySpend && len(batchBefore) > 0 && len(e.batchAccts) == 0 && res == "ok" {
		x.fail(fmt.Sprintf("after op #%d (%s): an expiry-path spend of account %d committed the staged batch of accounts %v",
			len(x.hist)-1, line, o.K, batchBefore), "C08/expiry-spend-completed-batch")
	}
	if x.bad == "" && refusedValid != "" {
		x.fail(fmt.Sprintf("after op #%d (%s): %s", len(x.hist)-1, line, refusedValid), "C08/refused-valid")
	}
	if x.bad == "" && staleSpendOf != 0 {
		after := e.snapshot()
		if after.state[staleSpendOf] == account.StateClosed && before.state[staleSpendOf] != account.StateClosed {
			x.fail(fmt.Sprintf("after op #%d (%s): account %d was closed by the spend of an earlier outpoint although its "+
				"stored outpoint descends from that spend and is unspent", len(x.hist)-1, line, staleSpendOf),
				"C08/closed-by-stale-spend")
		}
	}
	if x.bad == "" && !strings.Contains(res, "err") {
		after := e.snapshot()
		for k := range expectAlive {
			if after.state[k] == account.StateClosed {
				x.fail(fmt.Sprintf("after op #%d (%s): account %d was closed although the spending transaction re-creates its next output",
					len(x.hist)-1, line, k), "C08/recreated-but-closed")
			}
		}
	}
	if x.bad == "" {
		// a bare MarkBatchComplete is the crash point between BatchFinalize and
		// WatchMatchedAccounts in the rpc server: the restart follows at once, the
		// watcher clause is evaluated after it
		started := e.started
		if o.Op == "complete" {
			e.started = false
		}
		what, k := e.oracle(before, logFrom, userOp, accepted, x.hist)
		e.started = started
		if what != "" && strings.HasPrefix(k, "C08/i2-") && len(batchBefore) > 0 && len(e.batchAccts) == 0 &&
			o.Op != "finalize" && o.Op != "drop" {
			// MarkBatchComplete ran for the whole batch (bare completion, or triggered by
			// another account's spend) without re-arming the watchers of this account
			var acc int
			fmt.Sscanf(what, "account %d", &acc)
			for _, j := range batchBefore {
				if j == acc && (o.Op == "complete" || (j != o.K && !(o.Op == "spend2" && j == o.K2))) {
					k = "C08/complete-without-rewatch"
				}
			}
		}
		if what != "" {
			x.fail(fmt.Sprintf("after op #%d (%s): %s", len(x.hist)-1, line, what), k)
		}
	}
}

func (x *lcRunner) fail(what, key string) {
	if x.e.staleApplied && key != "C08/harness" {
		key = "C08/stale-staged-batch"
	}
	// consequences of the open finding: the account's batch was committed by another account's
	// spend handler and its watchers were never re-armed
	if i := strings.Index(what, "account "); i >= 0 && key != "C08/harness" {
		var acc int
		fmt.Sscanf(what[i:], "account %d", &acc)
		if x.e.taint[acc] {
			key = "C08/complete-without-rewatch"
		}
	}
	if x.bad == "" {
		x.bad, x.key = what, key
	}
}

// stage builds a consistent batch for the given accounts and stages it with
// the real batchStorer.
func (x *lcRunner) stage(o lcOp) (string, string) {
	e := x.e
	main, _ := e.records()
	bv := order.BatchVersion(o.BV)
	tx := wire.NewMsgTx(2)
	var diffs []*order.AccountDiff
	var toks []string
	var ks []int
	for _, sa := range o.Accts {
		a, ok := main[sa.K]
		if !ok {
			return "", ""
		}
		// A2: the auctioneer only matches accounts that are open or pending batch
		// (a replayed stage op may find the account in another state)
		if a.State != account.StateOpen && a.State != account.StatePendingBatch && !e.allowStale {
			x.r.Count("stage/skipped-A2")
			return "", ""
		}
		tx.AddTxIn(&wire.TxIn{PreviousOutPoint: a.OutPoint})
		d := &order.AccountDiff{
			AccountKeyRaw: e.accts[sa.K].raw, AccountKey: a.TraderKey.PubKey,
			EndingState: auctioneerrpc.AccountDiff_AccountState(sa.Ending), EndingBalance: btcutil.Amount(sa.EndBal),
			OutpointIndex: -1, NewVersion: account.Version(sa.NewVer),
		}
		if sa.NewExp != 0 {
			d.NewExpiry = lcGrid(uint32(int64(e.height)+sa.NewExp), o.Grid)
		}
		idx := 0
		if d.EndingState == auctioneerrpc.AccountDiff_OUTPUT_RECREATED {
			// the output the auctioneer re-creates for the account
			exp, ver := a.Expiry, a.Version
			if bv.SupportsAccountExtension() && d.NewExpiry != 0 {
				exp = d.NewExpiry
			}
			if bv.SupportsAccountTaprootUpgrade() && d.NewVersion > a.Version {
				ver = d.NewVersion
			}
			script, err := poolscript.AccountScript(ver.ScriptVersion(), exp, a.TraderKey.PubKey,
				a.AuctioneerKey, poolscript.IncrementKey(a.BatchKey), a.Secret)
			if err != nil {
				return "", ""
			}
			// a channel output in front of some account outputs
			if (len(tx.TxOut)+sa.K)%2 == 0 {
				tx.AddTxOut(&wire.TxOut{Value: 100000, PkScript: lcP2WKH})
			}
			idx = len(tx.TxOut)
			tx.AddTxOut(&wire.TxOut{Value: sa.EndBal, PkScript: script})
			d.OutpointIndex = int32(idx)
		}
		diffs = append(diffs, d)
		ks = append(ks, sa.K)
		toks = append(toks, fmt.Sprintf("%d:%d:%d:%d:%d:%d", sa.K, sa.Ending, idx, sa.EndBal, d.NewExpiry, sa.NewVer))
	}
	if len(tx.TxOut) == 0 {
		tx.AddTxOut(&wire.TxOut{Value: 100000 + int64(len(e.txNames)), PkScript: lcP2WKH})
	}
	tx.LockTime = uint32(len(e.txNames)) // distinct batch transactions
	var id order.BatchID
	id[0], id[1], id[2] = 2, byte(len(e.txNames)), byte(len(e.txNames)>>8)
	batch := &order.Batch{
		ID: id, Version: bv, MatchedOrders: map[order.Nonce][]*order.MatchedOrder{},
		AccountDiffs: diffs, ExecutionFee: terms.NewLinearFeeSchedule(1, 1),
		ClearingPrices: map[uint32]order.FixedRatePremium{2016: 100},
		BatchTX:        tx, BatchTxFeeRate: chainfee.FeePerKwFloor, HeightHint: e.height,
	}
	prevBatchTx := e.batchTx
	err := lcGuard(func() error { return e.storer.StorePendingBatch(batch) })
	if err == nil {
		e.dropSpender(prevBatchTx)
		e.batchAccts, e.batchTx = ks, tx
		e.noteSpender(tx)
	}
	return fmt.Sprintf("stage %d %d %d %d %s", e.height, b2i(bv.SupportsAccountExtension()),
		b2i(bv.SupportsAccountTaprootUpgrade()), e.txName(tx.TxHash()), strings.Join(toks, " ")), lcRes(err)
}

// restart stops the manager, reopens the database and starts a new manager.
func (x *lcRunner) restart() (string, string) {
	e := x.e
	before := e.snapshot()
	if e.started {
		e.mgr.Stop()
	}
	e.notifier.mu.Lock()
	e.notifier.dead = true
	e.notifier.mu.Unlock()
	e.db.Close()
	e.openDB()
	e.newManager()
	err := lcGuard(func() error { return e.mgr.Start() })
	e.started = true
	var funds []string
	main, _ := e.records()
	var ids []int
	for i := range main {
		ids = append(ids, i)
	}
	sort.Ints(ids)
	for _, i := range ids {
		a := main[i]
		if before.state[i] == account.StateInitiated && a.State != account.StateInitiated {
			funds = append(funds, fmt.Sprintf("%d:%d:%d", i, e.txName(a.OutPoint.Hash), a.OutPoint.Index))
		}
	}
	return strings.TrimSpace("restart 1 " + strings.Join(funds, " ")), lcRes(err)
}

// ------------------------------------------------------------------ generator

// gen: the state-aware generator plus environment faults.
func (x *lcRunner) gen() lcOp {
	o := x.gen0()
	switch o.Op {
	case "conf", "confd", "spend", "spendc", "spend2":
		// the auctioneer subscription fails while the event is handled
		if x.r.Rng.Intn(8) == 0 {
			o.Fail = true
		}
	}
	return o
}

func (x *lcRunner) gen0() lcOp {
	e := x.e
	rng := x.r.Rng
	main, staged := e.records()
	nAcct := 1 + rng.Intn(lcNumAccts)
	k := 1 + rng.Intn(nAcct)
	a, exists := main[k]
	pick := func(xs ...string) string { return xs[rng.Intn(len(xs))] }
	ver := func() int { return rng.Intn(3) }
	// unexpected / global ops
	switch p := rng.Intn(100); {
	case p < 4:
		return lcOp{Op: "restart"}
	case p < 8:
		return lcOp{Op: "block", A: 1 + int64(rng.Intn(3))}
	case p < 11:
		return lcOp{Op: pick("confd", "expd", "bump", "wm"), K: k}
	case p < 14:
		return lcOp{Op: "spendd", K: k, Kind: pick("latest", "staged", "sweep", "foreign", "garbage")}
	case p < 16:
		return lcOp{Op: pick("conf", "spend"), K: k, A: int64(rng.Intn(2)), Kind: pick("sweep", "foreign", "latest")}
	case p < 18 && len(staged) > 0:
		return lcOp{Op: pick("complete", "drop", "finalize")}
	case p < 40 && len(staged) > 0:
		// the Finalize message arrives
		return lcOp{Op: "finalize"}
	}
	if !exists {
		return lcOp{Op: "init", K: k, A: 100000 + int64(rng.Intn(5))*40000000, B: int64(rng.Intn(3)) * 500,
			V: ver(), Fail: rng.Intn(6) == 0, Grid: rng.Intn(3) != 0}
	}
	modOp := func() lcOp {
		kind := pick("deposit", "withdraw", "renew")
		o := lcOp{Op: "mod", K: k, Kind: kind, V: int(a.Version), Grid: rng.Intn(2) == 0}
		switch rng.Intn(6) {
		case 0:
			o.V = ver()
		case 1:
			if o.V < 2 {
				o.V++
			}
		}
		switch kind {
		case "deposit":
			o.A = 20000 + int64(rng.Intn(5))*30000000
		case "withdraw":
			o.A = 20000 + int64(rng.Intn(4))*int64(a.Value)/3
			if rng.Intn(6) == 0 {
				// to the script of the re-created account output, with an expiry change
				o.Kind2, o.A = "own", 150000
				o.B = 144 + int64(rng.Intn(2000))
				return o
			}
		}
		switch q := rng.Intn(10); {
		case kind == "renew" && q < 8:
			o.B = 144 + int64(rng.Intn(2000))
		case q == 8:
			o.B = int64(rng.Intn(144)) // too early
		case q == 9:
			o.B = 144 + int64(rng.Intn(300))
		}
		return o
	}
	stageOp := func() lcOp {
		o := lcOp{Op: "stage", BV: []int{0, 1, 10, 10, 10}[rng.Intn(5)], Grid: rng.Intn(2) == 0}
		for j := 1; j <= lcNumAccts; j++ {
			b, ok := main[j]
			if !ok || (j != k && rng.Intn(2) == 0) {
				continue
			}
			// the auctioneer only matches accounts that are open or pending batch
			if !(b.State == account.StateOpen || b.State == account.StatePendingBatch) {
				continue
			}
			sa := lcStageAcct{K: j, Ending: 0, EndBal: int64(b.Value) * int64(3+rng.Intn(6)) / 10, NewVer: int(b.Version)}
			if sa.EndBal < 1000 {
				sa.EndBal = 1000
			}
			// the optional features of a re-created output are drawn independently:
			// expiry extension, version upgrade, both, neither
			if rng.Intn(8) == 0 {
				sa.Ending, sa.EndBal = 1+rng.Intn(3), 0
			} else {
				if rng.Intn(4) == 0 {
					sa.NewExp = 144 + int64(rng.Intn(3000))
				}
				if rng.Intn(4) == 0 {
					sa.NewVer = ver()
					if rng.Intn(2) == 0 && sa.NewVer <= int(b.Version) && b.Version < 2 {
						sa.NewVer = int(b.Version) + 1
					}
				}
			}
			o.Accts = append(o.Accts, sa)
		}
		if len(o.Accts) == 0 {
			return lcOp{Op: "bump", K: k}
		}
		return o
	}
	confs := e.notifier.liveRegs(k, true)
	spends := e.notifier.liveRegs(k, false)
	// the chain reports the real spender of a watched outpoint – on any live watcher,
	// stale ones (earlier outpoints) first
	if rng.Intn(100) < 12 {
		type cand struct{ k, pos int }
		var stale, cur []cand
		for j := 1; j <= lcNumAccts; j++ {
			regs := e.notifier.liveRegs(j, false)
			for pos, rg := range regs {
				e.logMu.Lock()
				_, ok := e.spenders[rg.op]
				e.logMu.Unlock()
				if !ok {
					continue
				}
				if pos < len(regs)-1 || e.isAncestor(j, rg.op) {
					stale = append(stale, cand{j, pos})
				} else {
					cur = append(cur, cand{j, pos})
				}
			}
		}
		if len(stale) > 0 {
			c := stale[rng.Intn(len(stale))]
			return lcOp{Op: "spendc", K: c.k, A: int64(c.pos)}
		}
		if len(cur) > 0 && rng.Intn(2) == 0 {
			c := cur[rng.Intn(len(cur))]
			return lcOp{Op: "spendc", K: c.k, A: int64(c.pos)}
		}
	}
	// two transactions confirmed in the same block: concurrent spend handlers
	if rng.Intn(100) < 20 {
		type cand struct {
			k    int
			kind string
		}
		var cs []cand
		for j := 1; j <= lcNumAccts; j++ {
			b, ok := main[j]
			regs := e.notifier.liveRegs(j, false)
			if !ok || len(regs) == 0 {
				continue
			}
			op := regs[len(regs)-1].op
			spendsOp := func(tx *wire.MsgTx) bool {
				if tx == nil {
					return false
				}
				for _, in := range tx.TxIn {
					if in.PreviousOutPoint == op {
						return true
					}
				}
				return false
			}
			switch {
			case staged[j] != nil && spendsOp(staged[j].LatestTx):
				cs = append(cs, cand{j, "staged"})
			case spendsOp(b.LatestTx):
				cs = append(cs, cand{j, "latest"})
			case rng.Intn(3) == 0:
				cs = append(cs, cand{j, pick("sweep", "foreign")})
			}
		}
		if len(cs) >= 2 {
			rng.Shuffle(len(cs), func(i, j int) { cs[i], cs[j] = cs[j], cs[i] })
			return lcOp{Op: "spend2", K: cs[0].k, Kind: cs[0].kind, K2: cs[1].k, Kind2: cs[1].kind}
		}
	}
	spendKind := func(rg *lcReg) string {
		var cands []string
		if a.LatestTx != nil {
			for _, in := range a.LatestTx.TxIn {
				if in.PreviousOutPoint == rg.op {
					cands = append(cands, "latest", "latest", "latest")
				}
			}
		}
		if b, ok := staged[k]; ok && b.LatestTx != nil {
			for _, in := range b.LatestTx.TxIn {
				if in.PreviousOutPoint == rg.op {
					cands = append(cands, "staged", "staged", "staged")
				}
			}
		}
		if len(cands) == 0 || rng.Intn(8) == 0 {
			// (a witness of unknown shape cannot spend an account script: only via spendd)
			cands = append(cands, "sweep", "foreign")
		}
		return cands[rng.Intn(len(cands))]
	}
	switch a.State {
	case account.StateInitiated:
		return lcOp{Op: pick("restart", "close", "wm", "restart"), K: k}
	case account.StatePendingOpen, account.StateExpiredPendingUpdate:
		if len(confs) > 0 && rng.Intn(10) < 8 {
			return lcOp{Op: "conf", K: k, A: int64(len(confs) - 1)}
		}
		if len(spends) > 0 && rng.Intn(10) < 8 {
			rg := spends[len(spends)-1]
			return lcOp{Op: "spend", K: k, A: int64(len(spends) - 1), Kind: spendKind(rg)}
		}
		return lcOp{Op: pick("close", "bump", "restart", "mod"), K: k, Kind: "deposit", A: 30000, V: int(a.Version)}
	case account.StatePendingUpdate, account.StatePendingBatch:
		if x, ok := watcher.VerifLifecycleExpiry(e.ctrl.real, e.accts[k].key.PubKey); ok && e.started &&
			x < a.Expiry && x > e.height && rng.Intn(3) == 0 {
			// the chain reaches the expiry height the watcher still tracks (the
			// account's expiry was extended in the meantime)
			return lcOp{Op: "block", A: int64(x) - int64(e.height) + int64(rng.Intn(2))}
		}
		if a.State == account.StatePendingBatch && len(staged) == 0 && rng.Intn(3) == 0 {
			// the next batch arrives before the previous batch transaction confirmed
			return stageOp()
		}
		switch q := rng.Intn(10); {
		case q < 2 && int64(a.Expiry) > int64(e.height):
			// let the account expire while its update is unconfirmed
			return lcOp{Op: "block", A: int64(a.Expiry) - int64(e.height)}
		case q < 5 && len(confs) > 0:
			return lcOp{Op: "conf", K: k, A: int64(len(confs) - 1)}
		case q < 7 && len(spends) > 0:
			rg := spends[len(spends)-1]
			return lcOp{Op: "spend", K: k, A: int64(len(spends) - 1), Kind: spendKind(rg)}
		case (q == 7 || q == 8) && a.State == account.StatePendingBatch && len(staged) == 0:
			// consecutive batches without a confirmation in between
			return stageOp()
		case q == 8:
			return lcOp{Op: "block", A: int64(a.Expiry) - int64(e.height)}
		case len(staged) > 0:
			return lcOp{Op: pick("finalize", "finalize", "complete")}
		}
		return lcOp{Op: pick("close", "bump", "wm"), K: k}
	case account.StateOpen:
		switch q := rng.Intn(20); {
		case q < 7:
			return modOp()
		case q < 10:
			return lcOp{Op: "close", K: k}
		case q < 14:
			if len(staged) > 0 {
				return lcOp{Op: pick("finalize", "finalize", "finalize", "complete", "drop")}
			}
			return stageOp()
		case q < 16 && int64(a.Expiry) > int64(e.height):
			return lcOp{Op: "block", A: int64(a.Expiry) - int64(e.height) - int64(rng.Intn(2))}
		case q < 19 && len(spends) > 0:
			rg := spends[len(spends)-1]
			return lcOp{Op: "spend", K: k, A: int64(len(spends) - 1), Kind: spendKind(rg)}
		}
		return modOp()
	case account.StateExpired:
		switch q := rng.Intn(10); {
		case q < 3:
			o := modOp()
			o.Kind = "renew"
			o.B = 144 + int64(rng.Intn(2000))
			return o
		case q < 6:
			return lcOp{Op: "close", K: k}
		case q < 9 && len(spends) > 0:
			rg := spends[len(spends)-1]
			return lcOp{Op: "spend", K: k, A: int64(len(spends) - 1), Kind: spendKind(rg)}
		}
		return modOp()
	case account.StatePendingClosed:
		if len(spends) > 0 && rng.Intn(10) < 8 {
			rg := spends[len(spends)-1]
			return lcOp{Op: "spend", K: k, A: int64(len(spends) - 1), Kind: spendKind(rg)}
		}
		return lcOp{Op: pick("close", "bump", "restart", "expd", "confd"), K: k}
	}
	// closed / canceled: everything must be refused or ignored
	switch rng.Intn(8) {
	case 0:
		return modOp()
	case 1:
		return lcOp{Op: "close", K: k}
	case 2:
		return lcOp{Op: "spendd", K: k, Kind: pick("sweep", "foreign", "latest")}
	case 3:
		if len(staged) > 0 {
			return lcOp{Op: "complete"}
		}
		return stageOp()
	}
	return lcOp{Op: pick("confd", "expd", "bump", "wm", "restart"), K: k}
}

// ------------------------------------------------------------------ runner

// at most two recorded violations per key, so that every kind is reported
var lcSeenViol = map[string]int{}

// runHistory executes one op list on a fresh environment; restartAt >= 0
// inserts a restart before that position. gen != nil generates ops online.
func lcRunHistory(r *Run, ops []lcOp, n int, restartAt int, tag string) []lcOp {
	e := newLcEnv(r)
	defer e.close()
	e.allowStale = tag == "fixed-stale"
	x := &lcRunner{r: r, e: e}
	r.Emit("C08 reset", "ok")
	if err := e.mgr.Start(); err != nil {
		r.Violate("manager does not start on an empty store: "+err.Error(), "C08/harness", nil)
		return nil
	}
	e.started = true
	x.exec(lcOp{Op: "block", A: 1})
	var done []lcOp
	step := func(o lcOp) {
		x.exec(o)
		done = append(done, o)
		if o.Op == "complete" {
			x.exec(lcOp{Op: "restart"})
		}
		if o.Op == "restart" || o.Op == "complete" {
			// lnd sends the current block right after the registration
			x.exec(lcOp{Op: "block", A: 1})
		}
	}
	if ops != nil {
		for i, o := range ops {
			if i == restartAt {
				step(lcOp{Op: "restart"})
			}
			step(o)
		}
		if restartAt == len(ops) {
			step(lcOp{Op: "restart"})
		}
	} else {
		for i := 0; i < n; i++ {
			step(x.gen())
		}
	}
	r.Evaluations++
	r.Distinct(strings.Join(x.hist, ";"))
	if tag == "base" {
		r.Sample(x.hist)
	}
	if x.bad != "" {
		r.Count("oracle/violation")
		r.Count("viol/" + x.key)
		if lcSeenViol[x.key] >= 2 {
			return done
		}
		lcSeenViol[x.key]++
		r.Violate(x.bad, x.key, map[string]interface{}{"ops": done, "trace": x.hist})
	}
	return done
}

func runC08(r *Run) {
	r.Rule = "random histories (len<=25) of init/deposit/withdraw/renew/close/bump, conf/spend(own, batch, sweep, " +
		"foreign, garbage)/block, direct handler calls in arbitrary states, stage/complete/finalize/drop, " +
		"watch-matched and restart over 1-3 accounts of versions 0-2 on the real manager + controller + bbolt " +
		"store; every history is re-run with a restart inserted at every position; non-trivial = distinct trace"
	for _, raw := range r.FixedCases() {
		var c struct {
			Ops        []lcOp `json:"ops"`
			AllowStale bool   `json:"allow_stale"`
		}
		if json.Unmarshal(raw, &c) != nil || len(c.Ops) == 0 {
			continue
		}
		r.Count("case/fixed")
		tag := "fixed"
		if c.AllowStale {
			tag = "fixed-stale"
		}
		lcRunHistory(r, c.Ops, 0, -1, tag)
	}
	if r.ReplayFile != "" {
		return
	}
	// overlapping store updates, and the expiry registration sites (manager level)
	lcStoreRace(r)
	c09ManagerScenarios(r)
	for c := 0; c < r.N; c++ {
		n := 5 + r.Rng.Intn(21)
		ops := lcRunHistory(r, nil, n, -1, "base")
		if ops == nil {
			continue
		}
		// a restart (new manager over the same store) at every position
		stride := 1
		if r.Tier == "quick" && !r.Search {
			stride = 1
		}
		for p := 0; p <= len(ops); p += stride {
			r.Count("restart/inserted")
			lcRunHistory(r, ops, 0, p, "restart")
		}
	}
}
