//go:build verif

package main

import (
	"context"
	"crypto/sha256"
	"encoding/binary"
	"encoding/hex"
	"encoding/json"
	"fmt"
	"math/big"
	"math/rand"
	"strings"

	"github.com/btcsuite/btcd/btcec/v2"
	"github.com/btcsuite/btcd/btcec/v2/ecdsa"
	"github.com/btcsuite/btcd/btcutil"
	"github.com/btcsuite/btcd/chaincfg/chainhash"
	"github.com/lightninglabs/lndclient"
	"github.com/lightninglabs/pool"
	"github.com/lightninglabs/pool/account"
	"github.com/lightninglabs/pool/clientdb"
	"github.com/lightninglabs/pool/internal/test"
	"github.com/lightninglabs/pool/order"
	"github.com/lightninglabs/pool/sidecar"
	"github.com/lightningnetwork/lnd/keychain"
	"github.com/lightningnetwork/lnd/lnwire"
)

func init() { props["C14"] = runC14 }

// ------------------------------------------------------------------ keys / signer

// c14Keys is a table of real secp256k1 key pairs derived from a seed; the
// model sees a key only as its table index.
type c14Keys struct {
	priv []*btcec.PrivateKey
	pub  []*btcec.PublicKey
	ids  map[string]int
	next int
}

func newC14Keys(seed int64, n int) *c14Keys {
	k := &c14Keys{ids: map[string]int{}, next: 1000}
	k.priv = append(k.priv, nil)
	k.pub = append(k.pub, nil)
	for i := 1; i <= n; i++ {
		var b [16]byte
		binary.BigEndian.PutUint64(b[:8], uint64(seed))
		binary.BigEndian.PutUint64(b[8:], uint64(i))
		h := sha256.Sum256(append([]byte("verif-c14-key"), b[:]...))
		priv, pub := btcec.PrivKeyFromBytes(h[:])
		k.priv = append(k.priv, priv)
		k.pub = append(k.pub, pub)
		k.ids[string(pub.SerializeCompressed())] = i
	}
	return k
}

// id returns the model's name of a public key ("-" = nil). Keys the table
// does not know (derived by the wallet mock) get fresh numbers.
func (k *c14Keys) id(p *btcec.PublicKey) string {
	if p == nil {
		return "-"
	}
	s := string(p.SerializeCompressed())
	if i, ok := k.ids[s]; ok {
		return fmt.Sprint(i)
	}
	k.next++
	k.ids[s] = k.next
	return fmt.Sprint(k.next)
}

// c14Signer is an lndclient.SignerClient doing real ECDSA with the table's
// keys: the key locator's index selects the key. It records who signed what,
// which is the "ideal" view of a signature handed to the model.
type c14Signer struct {
	lndclient.SignerClient
	keys *c14Keys
	log  map[string]string

	// last message / key locator handed to SignMessage (C12)
	lastMsg []byte
	lastLoc keychain.KeyLocator
}

func (s *c14Signer) SignMessage(_ context.Context, msg []byte,
	loc keychain.KeyLocator, _ ...lndclient.SignMessageOption) ([]byte, error) {

	k := int(loc.Index)
	s.lastMsg, s.lastLoc = append([]byte(nil), msg...), loc
	var priv *btcec.PrivateKey
	if k >= 1 && k < len(s.keys.priv) {
		priv = s.keys.priv[k]
	} else {
		// a locator outside the table (e.g. a wallet-derived multisig key):
		// some other key of the same wallet signs
		h := sha256.Sum256([]byte(fmt.Sprintf("verif-foreign-key/%d/%d", loc.Family, loc.Index)))
		priv, _ = btcec.PrivKeyFromBytes(h[:])
		k = 900000 + int(loc.Index)
	}
	sig := ecdsa.Sign(priv, chainhash.HashB(msg))
	s.log[hex.EncodeToString(sig.Serialize())] = fmt.Sprintf("%d.%s", k, c14Hex(msg))
	// pool parses the result with lnwire.NewSigFromECDSARawSignature, i.e.
	// it expects the DER encoding lnd's signer RPC returns
	return sig.Serialize(), nil
}

func (s *c14Signer) VerifyMessage(_ context.Context, msg, sig []byte,
	pubkey [33]byte, _ ...lndclient.VerifyMessageOption) (bool, error) {

	c14Trace.verifyCalls++
	c14Trace.lastVerify = false
	pk, err := btcec.ParsePubKey(pubkey[:])
	if err != nil {
		return false, err
	}
	parsed, err := ecdsa.ParseDERSignature(sig)
	if err != nil {
		return false, nil
	}
	c14Trace.lastVerify = parsed.Verify(chainhash.HashB(msg), pk)
	return c14Trace.lastVerify, nil
}

// c14Trace is the call trace of the signer proxy during the current guarded
// call: outcomes are classified by WHICH call failed, never by error texts.
var c14Trace struct {
	verifyCalls int
	lastVerify  bool
}

func (s *c14Signer) sigTok(sig *ecdsa.Signature) string {
	if sig == nil {
		return "-"
	}
	if v, ok := s.log[hex.EncodeToString(sig.Serialize())]; ok {
		return v
	}
	return "0.-"
}

func c14Hex(b []byte) string {
	if len(b) == 0 {
		return "-"
	}
	return hex.EncodeToString(b)
}

func c14B(b bool) string {
	if b {
		return "1"
	}
	return "0"
}

// ------------------------------------------------------------------ tokens

type c14Env struct {
	keys   *c14Keys
	signer *c14Signer
	ctx    context.Context
}

func (e *c14Env) tok(t *sidecar.Ticket) string {
	if t == nil {
		return "nil"
	}
	rc := "-"
	if t.Recipient != nil {
		rc = fmt.Sprintf("%s/%s/%d", e.keys.id(t.Recipient.NodePubKey),
			e.keys.id(t.Recipient.MultiSigPubKey), t.Recipient.MultiSigKeyIndex)
	}
	od := "-"
	if t.Order != nil {
		od = c14Hex(t.Order.BidNonce[:]) + "/" + e.signer.sigTok(t.Order.SigOrderDigest)
	}
	return strings.Join([]string{
		c14Hex(t.ID[:]), fmt.Sprint(uint8(t.Version)), fmt.Sprint(uint8(t.State)),
		fmt.Sprint(int64(t.Offer.Capacity)), fmt.Sprint(int64(t.Offer.PushAmt)),
		fmt.Sprint(t.Offer.LeaseDurationBlocks), e.keys.id(t.Offer.SignPubKey),
		e.signer.sigTok(t.Offer.SigOfferDigest), c14B(t.Offer.Auto),
		c14B(t.Offer.UnannouncedChannel), c14B(t.Offer.ZeroConfChannel), rc, od,
	}, ",")
}

func c14Clone(t *sidecar.Ticket) *sidecar.Ticket {
	if t == nil {
		return nil
	}
	c := *t
	if t.Recipient != nil {
		r := *t.Recipient
		c.Recipient = &r
	}
	if t.Order != nil {
		o := *t.Order
		c.Order = &o
	}
	if t.Execution != nil {
		x := *t.Execution
		c.Execution = &x
	}
	return &c
}

// c14Err classifies an outcome for the correspondence with the model WITHOUT
// looking at error texts: ok, err/sig (the last signature verification the
// signer was asked for failed) or err/pre (refused before / apart from that).
func c14Err(err error) string {
	if err == nil {
		return "ok"
	}
	if c14Trace.verifyCalls > 0 && !c14Trace.lastVerify {
		return "err/sig"
	}
	return "err/pre"
}

// c14Kind names the error by its text — informational histogram buckets only
// (never compared with the model, never a floor).
func c14Kind(err error) string {
	if err == nil {
		return "ok"
	}
	m := err.Error()
	for _, p := range [][2]string{
		{"unknown version", "digest-version"},
		{"invalid state for order digest", "digest-state"},
		{"signature not valid for public key", "badsig"},
		{"ticket is in invalid state", "state"},
		{"not in expected state to be signed", "offer-state"},
		{"offer in ticket is not signed", "unsigned"},
		{"order in ticket is not signed", "order-unsigned"},
		{"nonce in order part of ticket is empty", "nonce-empty"},
		{"invalid sidecar ticket state", "ticket-state"},
		{"sidecar ticket in state", "ticket-state"},
		{"missing recipient", "recipient"},
		{"not offered by us", "not-ours"},
		{"market does not support sidecar tickets", "market"},
		{"channel capacity must be positive multiple", "capacity"},
		{"self channel balance must be smaller than", "push"},
		{"self balance must be a positive multiple", "push-out"},
		{"invalid bid amount", "bid-amt"},
		{"invalid min units match", "min-units"},
		{"must match sidecar ticket's lease duration", "bid-lease"},
		{"must match sidecar ticket's push amount", "bid-push"},
		{"invalid unannounced channel flag", "bid-unannounced"},
		{"invalid zero conf channel flag", "bid-zeroconf"},
		{"already exists", "exists"},
		{"error looking up sidecar order", "unknown"},
	} {
		if strings.Contains(m, p[0]) {
			return "err:" + p[1]
		}
	}
	return "err:other:" + strings.ReplaceAll(m, " ", "_")
}

// guard runs f and maps a Go panic to the outcome "err:panic".
func c14Guard(f func() error) (res string) {
	defer func() {
		if x := recover(); x != nil {
			res = "err:panic"
		}
	}()
	c14Trace.verifyCalls, c14Trace.lastVerify = 0, false
	err := f()
	c14LastKind = c14Kind(err)
	return c14Err(err)
}

// c14LastKind: text-derived kind of the last guarded call (histogram only).
var c14LastKind string

// ------------------------------------------------------------------ cases

type c14Base struct {
	ID          string `json:"id"`
	Version     uint8  `json:"version"`
	State       uint8  `json:"state"`
	Capacity    int64  `json:"capacity"`
	Push        int64  `json:"push"`
	Lease       uint32 `json:"lease"`
	Auto        bool   `json:"auto"`
	Unannounced bool   `json:"unannounced"`
	ZeroConf    bool   `json:"zeroconf"`
	SignKey     int    `json:"signkey"`
	Nonce       string `json:"nonce"`
}

// c14Case is the replayable form of one "honest ticket, one field changed"
// evaluation.
type c14Case struct {
	Op       string  `json:"op"`
	KeySeed  int64   `json:"keyseed"`
	Base     c14Base `json:"base"`
	Mutation string  `json:"mutation"`
	MSeed    int64   `json:"mseed"`
}

var c14Mutations = []string{"none", "id", "version", "versionUnknown", "capacity", "pushAmt", "auto",
	"unannounced", "zeroConf", "bidNonce", "signKey", "lease", "state", "recipient",
	"swapSigs", "junkOfferSig", "junkOrderSig"}

const c14NKeys = 4

// honest builds the ticket the way the real flow does: the provider signs the
// offer with the key named in the offer (real SignOffer), the recipient
// registers, the provider signs the order (real SignOrder).
func (e *c14Env) honest(b c14Base) (*sidecar.Ticket, error) {
	t := &sidecar.Ticket{Version: sidecar.Version(b.Version), State: sidecar.StateOffered}
	id, _ := hex.DecodeString(b.ID)
	copy(t.ID[:], id)
	t.Offer = sidecar.Offer{
		Capacity: btcutil.Amount(b.Capacity), PushAmt: btcutil.Amount(b.Push),
		LeaseDurationBlocks: b.Lease, SignPubKey: e.keys.pub[b.SignKey], Auto: b.Auto,
		UnannouncedChannel: b.Unannounced, ZeroConfChannel: b.ZeroConf,
	}
	loc := keychain.KeyLocator{Family: 220, Index: uint32(b.SignKey)}
	if err := sidecar.SignOffer(e.ctx, t, loc, e.signer); err != nil {
		return t, err
	}
	t.State = sidecar.StateRegistered
	t.Recipient = &sidecar.Recipient{
		NodePubKey: e.keys.pub[1+b.SignKey%c14NKeys], MultiSigPubKey: e.keys.pub[1+(b.SignKey+1)%c14NKeys],
		MultiSigKeyIndex: 7,
	}
	var nonce [32]byte
	nb, _ := hex.DecodeString(b.Nonce)
	copy(nonce[:], nb)
	if err := sidecar.SignOrder(e.ctx, t, nonce, loc, e.signer); err != nil {
		return t, err
	}
	t.State = sidecar.State(b.State)
	return t, nil
}

func (e *c14Env) junkSig(rng *rand.Rand) *ecdsa.Signature {
	return test.NewSignatureFromInt(1+uint32(rng.Int31()), 1+uint32(rng.Int31()))
}

// mutate changes exactly one field of the (signed) ticket.
func (e *c14Env) mutate(t *sidecar.Ticket, m string, rng *rand.Rand) {
	switch m {
	case "id":
		t.ID[rng.Intn(8)] ^= byte(1 << uint(rng.Intn(8)))
	case "version":
		t.Version ^= 1
	case "versionUnknown":
		// a version byte no current client writes (DeserializeTicket accepts any)
		t.Version = sidecar.Version(2 + rng.Intn(254))
	case "capacity":
		if rng.Intn(2) == 0 {
			t.Offer.Capacity += btcutil.Amount(100000 * (1 + rng.Intn(9)))
		} else {
			t.Offer.Capacity ^= btcutil.Amount(int64(1) << uint(rng.Intn(63)))
		}
	case "pushAmt":
		if rng.Intn(2) == 0 {
			t.Offer.PushAmt += btcutil.Amount(1 + rng.Intn(1000))
		} else {
			t.Offer.PushAmt ^= btcutil.Amount(int64(1) << uint(rng.Intn(63)))
		}
	case "auto":
		t.Offer.Auto = !t.Offer.Auto
	case "unannounced":
		t.Offer.UnannouncedChannel = !t.Offer.UnannouncedChannel
	case "zeroConf":
		t.Offer.ZeroConfChannel = !t.Offer.ZeroConfChannel
	case "bidNonce":
		if t.Order != nil {
			t.Order.BidNonce[rng.Intn(32)] ^= byte(1 << uint(rng.Intn(8)))
			if t.Order.BidNonce == [32]byte{} {
				t.Order.BidNonce[0] = 1
			}
		}
	case "signKey":
		cur := e.keys.ids[string(t.Offer.SignPubKey.SerializeCompressed())]
		t.Offer.SignPubKey = e.keys.pub[1+(cur+rng.Intn(c14NKeys-1))%c14NKeys]
	case "lease":
		t.Offer.LeaseDurationBlocks += 1 + uint32(rng.Intn(5000))
	case "state":
		// another state in which the same verifications are attempted
		if t.State >= sidecar.StateOrdered {
			t.State = sidecar.StateOrdered + (t.State-sidecar.StateOrdered+1+sidecar.State(rng.Intn(3)))%4
		}
	case "recipient":
		if t.Recipient != nil {
			t.Recipient.MultiSigKeyIndex++
			t.Recipient.NodePubKey, t.Recipient.MultiSigPubKey =
				t.Recipient.MultiSigPubKey, t.Recipient.NodePubKey
		}
	case "swapSigs":
		// present the offer signature as the order signature
		if t.Order != nil {
			t.Order.SigOrderDigest = t.Offer.SigOfferDigest
		}
	case "junkOfferSig":
		t.Offer.SigOfferDigest = e.junkSig(rng)
	case "junkOrderSig":
		if t.Order != nil {
			t.Order.SigOrderDigest = e.junkSig(rng)
		}
	}
}

func c14Covered(kind, m string, version uint8) bool {
	switch m {
	case "id", "version", "versionUnknown", "capacity", "pushAmt", "signKey":
		return true
	case "auto", "junkOfferSig":
		return kind == "offer"
	case "bidNonce", "junkOrderSig", "swapSigs":
		return kind == "order"
	case "unannounced", "zeroConf":
		return version >= 1
	}
	return false
}

// flip evaluates one case on the real code: digests, VerifyOffer and
// VerifyOrder of the changed ticket are emitted for the model, and the
// property's text is evaluated on the real results.
func (e *c14Env) flip(r *Run, c c14Case) {
	t, err := e.honest(c.Base)
	if err != nil {
		r.Count("flip/base-not-signable")
		return
	}
	e.mutate(t, c.Mutation, rand.New(rand.NewSource(c.MSeed)))
	tok := e.tok(t)
	vOffer := c14Guard(func() error { return sidecar.VerifyOffer(e.ctx, c14Clone(t), e.signer) })
	vOrder := c14Guard(func() error { return sidecar.VerifyOrder(e.ctx, c14Clone(t), e.signer) })
	r.Emit("C14 verifyoffer "+tok, vOffer)
	r.Emit("C14 verifyorder "+tok, vOrder)
	e.digests(r, t)
	r.Evaluations++
	r.Distinct(c.Mutation + tok)
	v := c.Base.Version
	r.Count(fmt.Sprintf("flip/%s/v%d", c.Mutation, v))
	r.Count("flip/state/" + sidecar.State(c.Base.State).String())
	r.Count("flip/offer/" + vOffer)
	r.Count("flip/order/" + vOrder)
	if len(r.Samples) < 3 {
		r.Sample(map[string]interface{}{"case": c, "ticket": tok, "verifyoffer": vOffer, "verifyorder": vOrder})
	}
	e.acceptorFlow(r, c)
	st := sidecar.State(c.Base.State)
	bad := func(what, kind string) {
		r.Count("oracle/violation")
		r.Violate(what+" (ticket "+tok+")",
			fmt.Sprintf("C14/%s-sig/%s/v%d", kind, c.Mutation, v), c)
	}
	switch {
	case c.Mutation == "none":
		if st >= sidecar.StateOffered && vOffer != "ok" {
			bad("unmodified ticket signed by the offer key: VerifyOffer = "+vOffer, "offer")
		}
		if st >= sidecar.StateOrdered && vOrder != "ok" {
			bad("unmodified ticket signed by the offer key: VerifyOrder = "+vOrder, "order")
		}
	default:
		if c14Covered("offer", c.Mutation, v) && vOffer == "ok" {
			bad("offer signature still verifies after changing "+c.Mutation, "offer")
		}
		if c14Covered("order", c.Mutation, v) && vOrder == "ok" {
			bad("order signature still verifies after changing "+c.Mutation, "order")
		}
	}
}

// c14MapStore is a sidecar.Store that really stores tickets, keyed like the
// client database by (ID, offer signing key).
type c14MapStore struct {
	m map[string]*sidecar.Ticket
}

func c14StoreKey(id [8]byte, pk *btcec.PublicKey) string {
	k := string(id[:])
	if pk != nil {
		k += string(pk.SerializeCompressed())
	}
	return k
}
func (s *c14MapStore) AddSidecar(t *sidecar.Ticket) error {
	s.m[c14StoreKey(t.ID, t.Offer.SignPubKey)] = c14Clone(t)
	return nil
}
func (s *c14MapStore) UpdateSidecar(t *sidecar.Ticket) error { return s.AddSidecar(t) }
func (s *c14MapStore) Sidecar(id [8]byte, pk *btcec.PublicKey) (*sidecar.Ticket, error) {
	if t, ok := s.m[c14StoreKey(id, pk)]; ok {
		return c14Clone(t), nil
	}
	return nil, clientdb.ErrNoSidecar
}
func (s *c14MapStore) Sidecars() ([]*sidecar.Ticket, error) { return nil, nil }

// acceptorFlow replays the recipient's history on the real code: the offered
// ticket is registered through the real SidecarAcceptor.RegisterSidecar (which
// stores it), the provider signs the order, then ONE field of the ordered
// ticket is changed and the changed ticket is presented to the real
// validateOrderedTicket with the database of the registration. Oracle: an
// accepted ticket carries offer AND order signatures that verify for the ticket
// as presented, is in the ordered state and was registered.
func (e *c14Env) acceptorFlow(r *Run, c c14Case) {
	b := c.Base
	t := &sidecar.Ticket{Version: sidecar.Version(b.Version), State: sidecar.StateOffered}
	id, _ := hex.DecodeString(b.ID)
	copy(t.ID[:], id)
	t.Offer = sidecar.Offer{
		Capacity: btcutil.Amount(b.Capacity), PushAmt: btcutil.Amount(b.Push),
		LeaseDurationBlocks: b.Lease, SignPubKey: e.keys.pub[b.SignKey], Auto: b.Auto,
		UnannouncedChannel: b.Unannounced, ZeroConfChannel: b.ZeroConf,
	}
	loc := keychain.KeyLocator{Family: 220, Index: uint32(b.SignKey)}
	if sidecar.SignOffer(e.ctx, t, loc, e.signer) != nil {
		return
	}
	var nonce [32]byte
	nb, _ := hex.DecodeString(b.Nonce)
	copy(nonce[:], nb)
	if b.Auto && c.MSeed%2 == 0 {
		// an automatically negotiated ticket names the nonce of its bid
		// template from the offer on: it is registered with an (unsigned)
		// order part
		t.Order = &sidecar.Order{BidNonce: nonce}
		r.Count("flow/registered-with-nonce")
	}
	store := &c14MapStore{m: map[string]*sidecar.Ticket{}}
	acc := pool.NewSidecarAcceptor(&pool.SidecarAcceptorConfig{
		SidecarDB: store, Signer: e.signer, Wallet: test.NewMockWalletKit(),
		NodePubKey: e.keys.pub[1+b.SignKey%c14NKeys],
	})
	reg, err := acc.RegisterSidecar(e.ctx, *t)
	if err != nil {
		r.Count("flow/register-failed")
		return
	}
	if sidecar.SignOrder(e.ctx, reg, nonce, loc, e.signer) != nil {
		return
	}
	e.mutate(reg, c.Mutation, rand.New(rand.NewSource(c.MSeed)))
	_, lerr := store.Sidecar(reg.ID, reg.Offer.SignPubKey)
	known := lerr == nil
	tok := e.tok(reg)
	res := c14Guard(func() error {
		return pool.VerifC14ValidateOrderedTicket(e.ctx, c14Clone(reg), e.signer, store)
	})
	r.Emit(fmt.Sprintf("C14 validateordered %s %s", tok, c14B(known)), res)
	r.Count("flow/validateordered/" + res)
	r.Count("flow/" + c.Mutation + "/" + res[:min(len(res), 3)])
	violate := func(what string) {
		r.Count("oracle/violation")
		r.Violate(what+" (presented ticket "+tok+")",
			fmt.Sprintf("C14/validate-ordered/%s/v%d", c.Mutation, b.Version), c)
	}
	if res == "ok" {
		var why []string
		d1, e1 := reg.OfferDigest()
		if e1 != nil || !c14SigOK(reg.Offer.SignPubKey, d1, reg.Offer.SigOfferDigest) {
			why = append(why, "the offer signature does not verify for the ticket as presented")
		}
		d2, e2 := reg.OrderDigest()
		if e2 != nil || reg.Order == nil || !c14SigOK(reg.Offer.SignPubKey, d2, reg.Order.SigOrderDigest) {
			why = append(why, "the order signature does not verify for the ticket as presented")
		}
		if reg.State != sidecar.StateOrdered {
			why = append(why, "ticket not in the ordered state")
		}
		if !known {
			why = append(why, "ticket was never registered")
		}
		if len(why) > 0 {
			violate("validateOrderedTicket accepted a ticket after changing " + c.Mutation + " although " +
				strings.Join(why, "; "))
		}
	} else if c.Mutation == "none" {
		violate("validateOrderedTicket rejected the unmodified registered and ordered ticket: " + res)
	}
}

// digests emits the real OfferDigest/OrderDigest bytes for the model.
func (e *c14Env) digests(r *Run, t *sidecar.Ticket) {
	tok := e.tok(t)
	dig := func(f func() ([32]byte, error)) (out string) {
		defer func() {
			if x := recover(); x != nil {
				out = "err:panic"
			}
		}()
		d, err := f()
		if err != nil {
			return "err/pre"
		}
		return "ok:" + hex.EncodeToString(d[:])
	}
	o1 := dig(t.OfferDigest)
	o2 := dig(t.OrderDigest)
	r.Emit("C14 offerdigest "+tok, o1)
	r.Emit("C14 orderdigest "+tok, o2)
	r.Count("digest/offer/" + strings.SplitN(o1, ":", 2)[0])
	r.Count("digest/order/" + strings.SplitN(o2, ":", 2)[0])
	if t.Version > 1 {
		r.Count("digest/unknown-version")
	}
}

func c14Tail(s string) string {
	if strings.HasPrefix(s, "err") {
		return ":" + s[3:]
	}
	return ""
}

// ------------------------------------------------------------------ generators

func c14RandBase(rng *rand.Rand) c14Base {
	var id [8]byte
	var nonce [32]byte
	rng.Read(id[:])
	rng.Read(nonce[:])
	capUnits := int64(1 + rng.Intn(1000))
	b := c14Base{
		ID: hex.EncodeToString(id[:]), Version: uint8(rng.Intn(2)), State: uint8(rng.Intn(7)),
		Capacity: capUnits * 100000, Lease: uint32(rng.Intn(400000)), Auto: rng.Intn(2) == 0,
		SignKey: 1 + rng.Intn(c14NKeys), Nonce: hex.EncodeToString(nonce[:]),
	}
	if rng.Intn(3) > 0 {
		b.Push = rng.Int63n(b.Capacity + 1)
	}
	if rng.Intn(3) == 0 {
		b.State = uint8(3 + rng.Intn(4))
	}
	// flags can be set in either version (NewTicket picks v1 when they are
	// set, but a received ticket is just a struct)
	b.Unannounced = rng.Intn(2) == 0
	b.ZeroConf = rng.Intn(2) == 0
	return b
}

func c14RandAmount(rng *rand.Rand) int64 {
	switch rng.Intn(8) {
	case 0:
		return 0
	case 1:
		return -int64(rng.Intn(1000000))
	case 2:
		return int64(rng.Uint64())
	case 3:
		return int64(1+rng.Intn(500))*100000 + int64(1+rng.Intn(99999))
	default:
		return int64(1+rng.Intn(500)) * 100000
	}
}

// randTicket produces an arbitrary (mostly plausible) ticket: any state and
// version, nil parts, honest / foreign / junk signatures.
func (e *c14Env) randTicket(rng *rand.Rand) *sidecar.Ticket {
	t := &sidecar.Ticket{}
	rng.Read(t.ID[:])
	switch x := rng.Intn(10); {
	case x < 8:
		t.Version = sidecar.Version(rng.Intn(2))
	case x < 9:
		t.Version = sidecar.Version(2 + rng.Intn(3))
	default:
		t.Version = sidecar.Version(rng.Intn(256))
	}
	if rng.Intn(10) < 9 {
		t.State = sidecar.State(rng.Intn(7))
	} else {
		t.State = sidecar.State(rng.Intn(256))
	}
	t.Offer.Capacity = btcutil.Amount(c14RandAmount(rng))
	switch rng.Intn(4) {
	case 0:
		t.Offer.PushAmt = btcutil.Amount(c14RandAmount(rng))
	case 1:
		if t.Offer.Capacity > 0 {
			t.Offer.PushAmt = btcutil.Amount(rng.Int63n(int64(t.Offer.Capacity) + 1))
		}
	}
	t.Offer.LeaseDurationBlocks = rng.Uint32()
	t.Offer.Auto = rng.Intn(2) == 0
	t.Offer.UnannouncedChannel = rng.Intn(2) == 0
	t.Offer.ZeroConfChannel = rng.Intn(2) == 0
	signKey := 1 + rng.Intn(c14NKeys)
	if rng.Intn(8) > 0 {
		t.Offer.SignPubKey = e.keys.pub[signKey]
	}
	sign := func(k int, digest func() ([32]byte, error)) *ecdsa.Signature {
		d, err := digest()
		if err != nil {
			return e.junkSig(rng)
		}
		raw, err := e.signer.SignMessage(e.ctx, d[:], keychain.KeyLocator{Index: uint32(k)})
		if err != nil {
			return nil
		}
		ws, _ := lnwire.NewSigFromECDSARawSignature(raw)
		s, _ := ws.ToSignature()
		return s.(*ecdsa.Signature)
	}
	switch x := rng.Intn(10); {
	case x < 6:
		t.Offer.SigOfferDigest = sign(signKey, t.OfferDigest)
	case x < 7:
		t.Offer.SigOfferDigest = sign(1+signKey%c14NKeys, t.OfferDigest)
	case x < 8:
		t.Offer.SigOfferDigest = e.junkSig(rng)
	}
	if rng.Intn(10) < 7 {
		t.Recipient = &sidecar.Recipient{MultiSigKeyIndex: uint32(rng.Intn(100))}
		if rng.Intn(8) > 0 {
			t.Recipient.NodePubKey = e.keys.pub[1+rng.Intn(c14NKeys)]
		}
		if rng.Intn(8) > 0 {
			t.Recipient.MultiSigPubKey = e.keys.pub[1+rng.Intn(c14NKeys)]
		}
	}
	if rng.Intn(10) < 6 {
		t.Order = &sidecar.Order{}
		if rng.Intn(8) > 0 {
			rng.Read(t.Order.BidNonce[:])
		}
		orderDigest := func() ([32]byte, error) {
			c := c14Clone(t)
			c.State = sidecar.StateOrdered
			return c.OrderDigest()
		}
		switch x := rng.Intn(10); {
		case x < 6:
			t.Order.SigOrderDigest = sign(signKey, orderDigest)
		case x < 7:
			t.Order.SigOrderDigest = sign(1+signKey%c14NKeys, orderDigest)
		case x < 8:
			t.Order.SigOrderDigest = e.junkSig(rng)
		}
	}
	return t
}

// c14Store is a sidecar.Store that either knows every ticket or none.
type c14Store struct {
	known  bool
	added  int
	stored *sidecar.Ticket // what a lookup returns (the registered ticket)
}

func (s *c14Store) AddSidecar(*sidecar.Ticket) error    { s.added++; return nil }
func (s *c14Store) UpdateSidecar(*sidecar.Ticket) error { return nil }
func (s *c14Store) Sidecar([8]byte, *btcec.PublicKey) (*sidecar.Ticket, error) {
	if s.known {
		if s.stored != nil {
			return c14Clone(s.stored), nil
		}
		return &sidecar.Ticket{}, nil
	}
	return nil, clientdb.ErrNoSidecar
}
func (s *c14Store) Sidecars() ([]*sidecar.Ticket, error) { return nil, nil }

// sigOK is the oracle's own ECDSA check (no pool code involved).
func c14SigOK(pub *btcec.PublicKey, digest [32]byte, sig *ecdsa.Signature) bool {
	return pub != nil && sig != nil && sig.Verify(chainhash.HashB(digest[:]), pub)
}

// provider runs manager.validateAndSignTicketForOrder on a registered ticket
// with one optional deviation and checks "signs only if".
func (e *c14Env) provider(r *Run, rng *rand.Rand) {
	b := c14RandBase(rng)
	b.State = uint8(sidecar.StateRegistered)
	if rng.Intn(4) == 0 {
		b.Push = 0
	}
	t := &sidecar.Ticket{Version: sidecar.Version(b.Version), State: sidecar.StateOffered}
	id, _ := hex.DecodeString(b.ID)
	copy(t.ID[:], id)
	t.Offer = sidecar.Offer{
		Capacity: btcutil.Amount(b.Capacity), PushAmt: btcutil.Amount(b.Push),
		LeaseDurationBlocks: b.Lease, SignPubKey: e.keys.pub[b.SignKey], Auto: b.Auto,
		UnannouncedChannel: b.Unannounced, ZeroConfChannel: b.ZeroConf,
	}
	loc := keychain.KeyLocator{Family: 220, Index: uint32(b.SignKey)}
	_ = sidecar.SignOffer(e.ctx, t, loc, e.signer)
	t.State = sidecar.StateRegistered
	t.Recipient = &sidecar.Recipient{
		NodePubKey: e.keys.pub[1+rng.Intn(c14NKeys)], MultiSigPubKey: e.keys.pub[1+rng.Intn(c14NKeys)],
		MultiSigKeyIndex: uint32(rng.Intn(50)),
	}
	auctionType := order.BTCInboundLiquidity
	bidAmt := t.Offer.Capacity
	minUnits := uint64(b.Capacity / 100000)
	acctKey, locKey := b.SignKey, b.SignKey
	// the bid repeats the channel parameters of the offer (CheckOfferMatchesBid)
	if rng.Intn(6) == 0 {
		b.Lease = 0
		t.Offer.LeaseDurationBlocks = 0
		t.Offer.SigOfferDigest = nil
		_ = sidecar.SignOffer(e.ctx, t, loc, e.signer)
	}
	bidLease, bidUnann, bidZC := b.Lease, b.Unannounced, b.ZeroConf
	if b.Lease == 0 {
		bidLease = uint32(1 + rng.Intn(5000))
	}
	bidSCB := int64(-1 << 62) // "same as the offer's push amount", resolved below
	var nonce [32]byte
	rng.Read(nonce[:])
	// an automatically negotiated ticket carries the nonce of its bid template
	// from the moment it is offered: the order part is often already present
	presetOrder := (b.Auto && rng.Intn(2) == 0) || rng.Intn(6) == 0
	devs := []string{"state", "recipient-nil", "recipient-nokey", "offer-unsigned", "offer-badsig",
		"offer-changed", "not-ours", "outbound", "market-other", "cap-zero", "cap-odd", "push-over",
		"bid-amt", "min-units", "min-units-wrap", "version", "order-present", "zero-nonce", "signer-other",
		"bid-lease", "bid-push", "bid-unannounced", "bid-zeroconf"}
	// none, one, or two cooperating deviations
	var chosen []string
	switch x := rng.Intn(10); {
	case x < 3:
	case x < 8:
		chosen = []string{devs[rng.Intn(len(devs))]}
	default:
		a, c := devs[rng.Intn(len(devs))], devs[rng.Intn(len(devs))]
		chosen = []string{a}
		if c != a {
			chosen = append(chosen, c)
		}
	}
	dev := "none"
	if len(chosen) > 0 {
		dev = strings.Join(chosen, "+")
	}
	wrap := false
	for _, d := range chosen {
		if d == "min-units-wrap" {
			wrap = true
		}
		e.providerDeviation(d, rng, t, b, loc, &auctionType, &bidAmt, &minUnits, &acctKey, &locKey, &nonce,
			&bidLease, &bidSCB, &bidUnann, &bidZC)
	}
	if presetOrder && t.Order == nil {
		t.Order = &sidecar.Order{BidNonce: nonce}
		if rng.Intn(4) == 0 {
			t.Order.BidNonce[rng.Intn(32)] ^= 1
		}
	}
	if presetOrder {
		r.Count("provider/preset-order")
	}
	if b.Auto {
		r.Count("provider/auto")
	}
	if bidSCB == int64(-1<<62) {
		bidSCB = int64(t.Offer.PushAmt)
	}
	kit := order.NewKit(order.Nonce(nonce))
	kit.AuctionType = auctionType
	kit.Amt = bidAmt
	kit.MinUnitsMatch = order.SupplyUnit(minUnits)
	kit.Version = order.VersionChannelType
	kit.LeaseDuration = bidLease
	bid := &order.Bid{Kit: *kit, SelfChanBalance: btcutil.Amount(bidSCB),
		UnannouncedChannel: bidUnann, ZeroConfChannel: bidZC}
	acct := &account.Account{TraderKey: &keychain.KeyDescriptor{
		KeyLocator: keychain.KeyLocator{Family: 220, Index: uint32(locKey)},
		PubKey:     e.keys.pub[acctKey],
	}}
	in := c14Clone(t)
	inTok := e.tok(in)
	cfg := &order.ManagerConfig{Signer: e.signer}
	res := c14Guard(func() error {
		return order.VerifC14ValidateAndSignTicket(e.ctx, cfg, t, bid, acct)
	})
	out := res + " " + e.tok(t)
	r.Emit(fmt.Sprintf("C14 provider %s %d %d %d %s %d %d %d %d %s %s", inTok, uint32(auctionType),
		int64(bidAmt), minUnits, c14Hex(nonce[:]), acctKey, locKey, bidLease, bidSCB, c14B(bidUnann),
		c14B(bidZC)), out)
	r.Evaluations++
	r.Distinct("provider" + inTok + dev)
	r.Count("provider/dev/" + dev)
	r.Count("provider/" + res)
	r.Count("provider/kind/" + c14LastKind)

	// ---- oracle: "signs an order into a ticket only if …" ----
	signed := res == "ok"
	if !signed && in.Order == nil && t.Order != nil && t.Order.SigOrderDigest != nil {
		signed = true
	}
	if signed {
		var why []string
		d, derr := in.OfferDigest()
		if derr != nil || !c14SigOK(in.Offer.SignPubKey, d, in.Offer.SigOfferDigest) {
			why = append(why, "ticket does not carry a valid offer signature")
		}
		if derr != nil || !c14SigOK(acct.TraderKey.PubKey, d, in.Offer.SigOfferDigest) {
			why = append(why, "the offer signature does not verify under the provider's own account key")
		}
		if in.Offer.SignPubKey == nil || !in.Offer.SignPubKey.IsEqual(acct.TraderKey.PubKey) {
			why = append(why, "offer was not made by the provider's own key")
		}
		if in.State != sidecar.StateRegistered || in.Recipient == nil ||
			in.Recipient.NodePubKey == nil || in.Recipient.MultiSigPubKey == nil {

			why = append(why, "no registered recipient with node and funding keys")
		}
		if int64(in.Offer.Capacity) != int64(bidAmt) {
			why = append(why, "offer capacity differs from the bid amount")
		}
		mm := new(big.Int).Mul(new(big.Int).SetUint64(minUnits), big.NewInt(100000))
		if !wrap && mm.Cmp(big.NewInt(int64(in.Offer.Capacity))) != 0 {
			why = append(why, "offer capacity differs from the bid's minimum match")
		}
		if t.Order == nil || t.Order.BidNonce != nonce {
			why = append(why, "signed ticket does not carry the bid nonce")
		}
		if len(why) > 0 {
			r.Count("oracle/violation")
			r.Violate("provider signed an order into a ticket although: "+strings.Join(why, "; "),
				"C14/provider/"+dev, map[string]interface{}{"op": "provider", "ticket": inTok,
					"auctionType": uint32(auctionType), "bidAmt": int64(bidAmt), "minUnits": minUnits,
					"acctKey": acctKey, "signerKey": locKey, "result": out})
		}
	}
}

// providerDeviation applies one deviation from the honest provider scenario.
func (e *c14Env) providerDeviation(dev string, rng *rand.Rand, t *sidecar.Ticket, b c14Base,
	loc keychain.KeyLocator, auctionType *order.AuctionType, bidAmt *btcutil.Amount, minUnits *uint64,
	acctKey, locKey *int, nonce *[32]byte, bidLease *uint32, bidSCB *int64, bidUnann, bidZC *bool) {

	switch dev {
	case "state":
		t.State = sidecar.State((int(t.State) + 1 + rng.Intn(6)) % 7)
	case "recipient-nil":
		t.Recipient = nil
	case "recipient-nokey":
		if t.Recipient == nil {
			break
		}
		if rng.Intn(2) == 0 {
			t.Recipient.NodePubKey = nil
		} else {
			t.Recipient.MultiSigPubKey = nil
		}
	case "offer-unsigned":
		t.Offer.SigOfferDigest = nil
	case "offer-badsig":
		t.Offer.SigOfferDigest = e.junkSig(rng)
	case "offer-changed":
		ms := []string{"id", "capacity", "pushAmt", "auto", "version"}
		e.mutate(t, ms[rng.Intn(len(ms))], rng)
		(*bidAmt) = t.Offer.Capacity
		(*minUnits) = uint64(t.Offer.Capacity / 100000)
	case "not-ours":
		(*acctKey) = 1 + b.SignKey%c14NKeys
		(*locKey) = (*acctKey)
	case "outbound":
		(*auctionType) = order.BTCOutboundLiquidity
	case "market-other":
		(*auctionType) = order.AuctionType(2 + rng.Intn(5))
	case "cap-zero":
		t.Offer.Capacity, t.Offer.PushAmt, (*bidAmt), (*minUnits) = 0, 0, 0, 0
		t.Offer.SigOfferDigest = nil
		_ = sidecar.SignOffer(e.ctx, t, loc, e.signer)
	case "cap-odd":
		t.Offer.Capacity += btcutil.Amount(1 + rng.Intn(99999))
		(*bidAmt) = t.Offer.Capacity
		t.Offer.SigOfferDigest = nil
		_ = sidecar.SignOffer(e.ctx, t, loc, e.signer)
	case "push-over":
		t.Offer.PushAmt = t.Offer.Capacity + btcutil.Amount(1+rng.Intn(1000))
		t.Offer.SigOfferDigest = nil
		_ = sidecar.SignOffer(e.ctx, t, loc, e.signer)
	case "bid-amt":
		(*bidAmt) += btcutil.Amount(100000 * (1 + rng.Intn(3)))
	case "min-units":
		if (*minUnits) > 1 && (*minUnits) < 1<<62 && rng.Intn(2) == 0 {
			(*minUnits) = uint64(rng.Int63n(int64((*minUnits))))
		} else {
			(*minUnits) += 1 + uint64(rng.Intn(5))
		}
	case "min-units-wrap":
		// outside the domain guard of the theorem: the int64 product wraps
		(*minUnits) += uint64(1+rng.Intn(31)) << 59
	case "version":
		t.Version = sidecar.Version(2 + rng.Intn(3))
	case "order-present":
		t.Order = &sidecar.Order{SigOrderDigest: e.junkSig(rng)}
		rng.Read(t.Order.BidNonce[:])
	case "zero-(*nonce)":
		(*nonce) = [32]byte{}
	case "signer-other":
		(*locKey) = 1 + b.SignKey%c14NKeys
	case "bid-lease":
		if t.Offer.LeaseDurationBlocks != 0 {
			(*bidLease) += 1 + uint32(rng.Intn(2016))
		}
	case "bid-push":
		(*bidSCB) = int64(t.Offer.PushAmt) + 1 + int64(rng.Intn(1000))
	case "bid-unannounced":
		(*bidUnann) = !(*bidUnann)
	case "bid-zeroconf":
		(*bidZC) = !(*bidZC)
	}
}

// randomOps exercises the guards of every modelled function on arbitrary
// tickets (incl. nil) and compares outcome and resulting ticket.
func (e *c14Env) randomOps(r *Run, rng *rand.Rand) {
	var t *sidecar.Ticket
	if rng.Intn(25) > 0 {
		t = e.randTicket(rng)
	}
	tok := e.tok(t)
	r.Evaluations++
	r.Distinct("rand" + tok)
	if t != nil {
		e.digests(r, t)
	}
	for _, op := range []string{"verifyoffer", "verifyorder"} {
		c := c14Clone(t)
		res := c14Guard(func() error {
			if op == "verifyoffer" {
				return sidecar.VerifyOffer(e.ctx, c, e.signer)
			}
			return sidecar.VerifyOrder(e.ctx, c, e.signer)
		})
		r.Emit("C14 "+op+" "+tok, res)
		r.Count("rand/" + op + "/" + res)
	}
	k := 1 + rng.Intn(c14NKeys)
	loc := keychain.KeyLocator{Index: uint32(k)}
	{
		c := c14Clone(t)
		res := c14Guard(func() error { return sidecar.SignOffer(e.ctx, c, loc, e.signer) })
		out := res
		if res == "ok" {
			out += " " + e.tok(c)
			// oracle: a ticket signed by the offer key verifies
			if c.Offer.SignPubKey.IsEqual(e.keys.pub[k]) {
				if v := c14Err(sidecar.VerifyOffer(e.ctx, c14Clone(c), e.signer)); v != "ok" {
					r.Violate("SignOffer by the offer key, then VerifyOffer = "+v,
						"C14/honest-offer", map[string]interface{}{"op": "signoffer", "ticket": tok, "key": k})
				}
				r.Count("rand/signoffer/honest-verified")
			}
		}
		r.Emit(fmt.Sprintf("C14 signoffer %s %d", tok, k), out)
		r.Count("rand/signoffer/" + res)
	}
	{
		c := c14Clone(t)
		var nonce [32]byte
		if rng.Intn(10) > 0 {
			rng.Read(nonce[:])
		}
		res := c14Guard(func() error { return sidecar.SignOrder(e.ctx, c, nonce, loc, e.signer) })
		out := res + " " + e.tok(c)
		if res == "ok" && c.Offer.SignPubKey.IsEqual(e.keys.pub[k]) && nonce != [32]byte{} {
			if v := c14Err(sidecar.VerifyOrder(e.ctx, c14Clone(c), e.signer)); v != "ok" {
				r.Violate("SignOrder by the offer key, then VerifyOrder = "+v,
					"C14/honest-order", map[string]interface{}{"op": "signorder", "ticket": tok, "key": k})
			}
			r.Count("rand/signorder/honest-verified")
		}
		r.Emit(fmt.Sprintf("C14 signorder %s %s %d", tok, c14Hex(nonce[:]), k), out)
		r.Count("rand/signorder/" + res)
	}
	if t == nil {
		return
	}
	// sidecar acceptor guards
	{
		known := rng.Intn(4) > 0
		c := c14Clone(t)
		if rng.Intn(2) == 0 {
			c.State = sidecar.StateOrdered
		}
		ctok := e.tok(c)
		res := c14Guard(func() error {
			// the database holds the ticket as it was registered: same
			// offer part and signature, no order part yet
			st := c14Clone(c)
			st.State = sidecar.StateRegistered
			if st.Order != nil && rng.Intn(2) == 0 {
				// registered as an auto ticket: nonce known, no signature yet
				st.Order.SigOrderDigest = nil
			} else {
				st.Order = nil
			}
			if rng.Intn(3) == 0 {
				st = nil
			}
			return pool.VerifC14ValidateOrderedTicket(e.ctx, c, e.signer, &c14Store{known: known, stored: st})
		})
		r.Emit(fmt.Sprintf("C14 validateordered %s %s", ctok, c14B(known)), res)
		r.Count("rand/validateordered/" + res)
		if res == "ok" {
			d1, e1 := c.OfferDigest()
			d2, e2 := c.OrderDigest()
			if e1 != nil || e2 != nil || !c14SigOK(c.Offer.SignPubKey, d1, c.Offer.SigOfferDigest) ||
				!c14SigOK(c.Offer.SignPubKey, d2, c.Order.SigOrderDigest) || !known {

				r.Violate("validateOrderedTicket accepted a ticket without valid offer+order signatures",
					"C14/validate-ordered", map[string]interface{}{"op": "validateordered", "ticket": ctok})
			}
		}
	}
	{
		known := rng.Intn(4) == 0
		store := &c14Store{known: known}
		nodeKey := 1 + rng.Intn(c14NKeys)
		acc := pool.NewSidecarAcceptor(&pool.SidecarAcceptorConfig{
			SidecarDB: store, Signer: e.signer, Wallet: test.NewMockWalletKit(),
			NodePubKey: e.keys.pub[nodeKey],
		})
		var outT *sidecar.Ticket
		res := c14Guard(func() error {
			var err error
			outT, err = acc.RegisterSidecar(e.ctx, *c14Clone(t))
			return err
		})
		out := res
		msKey, idx := "0", uint32(0)
		if res == "ok" {
			out += " " + e.tok(outT)
			msKey = e.keys.id(outT.Recipient.MultiSigPubKey)
			idx = outT.Recipient.MultiSigKeyIndex
			d, derr := t.OfferDigest()
			if derr != nil || !c14SigOK(t.Offer.SignPubKey, d, t.Offer.SigOfferDigest) || store.added != 1 {
				r.Violate("RegisterSidecar registered a ticket without a valid offer signature",
					"C14/register", map[string]interface{}{"op": "register", "ticket": tok})
			}
		}
		r.Emit(fmt.Sprintf("C14 register %s %s %d %s %d", tok, c14B(known), nodeKey, msKey, idx), out)
		r.Count("rand/register/" + res)
	}
	// CheckOfferParams on its own
	{
		at := order.AuctionType(rng.Intn(3))
		capv, push := c14RandAmount(rng), c14RandAmount(rng)
		if rng.Intn(2) == 0 && capv > 0 {
			push = rng.Int63n(capv + 1)
		}
		res := c14Guard(func() error {
			return order.CheckOfferParams(at, btcutil.Amount(capv), btcutil.Amount(push), order.BaseSupplyUnit)
		})
		r.Emit(fmt.Sprintf("C14 checkoffer %d %d %d", uint32(at), capv, push), res)
		r.Count("rand/checkoffer/" + res)
	}
}

func runC14(r *Run) {
	r.Rule = "per case: one honest ticket (random id/capacity/push/flags/nonce/key, version 0|1, state 0..6) " +
		"signed through the real SignOffer/SignOrder with real ECDSA keys, then EVERY field changed " +
		"individually (16 mutations incl. other key, swapped and junk signatures) and re-verified; plus " +
		"arbitrary tickets (nil parts, unknown versions/states, foreign/junk signatures) through all " +
		"sign/verify/acceptor functions, and validateAndSignTicketForOrder with single deviations; " +
		"non-trivial = distinct (ticket, mutation/deviation)"
	ctx := context.Background()
	mkEnv := func(seed int64) *c14Env {
		keys := newC14Keys(seed, c14NKeys)
		return &c14Env{keys: keys, ctx: ctx, signer: &c14Signer{keys: keys, log: map[string]string{}}}
	}
	for _, raw := range r.FixedCases() {
		var c c14Case
		if json.Unmarshal(raw, &c) != nil || c.Op != "flip" {
			continue
		}
		r.Count("case/fixed")
		mkEnv(c.KeySeed).flip(r, c)
	}
	if r.ReplayFile != "" {
		return
	}
	e := mkEnv(r.Seed)
	for c := 0; c < r.N && len(r.Violations) < 20; c++ {
		b := c14RandBase(r.Rng)
		if r.Search {
			// densest where it matters: states that allow both verifications
			b.State = uint8(3 + r.Rng.Intn(4))
		}
		for _, m := range c14Mutations {
			e.flip(r, c14Case{Op: "flip", KeySeed: r.Seed, Base: b, Mutation: m, MSeed: r.Rng.Int63()})
		}
		for i := 0; i < 4; i++ {
			e.randomOps(r, r.Rng)
		}
		for i := 0; i < 6; i++ {
			e.provider(r, r.Rng)
		}
	}
}
