//go:build verif

package main

// Helpers shared by the C15 and C19 runners: canonical ticket tokens, error
// classes, guarded execution of the real decoders, ticket generators and the
// deterministic enumeration of alterations (mirrors lean/PoolModel/Dec/Mut.lean).

import (
	"bytes"
	"crypto/sha256"
	"encoding/binary"
	"encoding/hex"
	"errors"
	"fmt"
	"io"
	"math/rand"
	"strings"
	"time"

	"github.com/btcsuite/btcd/btcec/v2"
	"github.com/btcsuite/btcd/btcec/v2/ecdsa"
	"github.com/btcsuite/btcd/btcutil"
	"github.com/btcsuite/btcd/btcutil/base58"
	"github.com/decred/dcrd/dcrec/secp256k1/v4"
	secpecdsa "github.com/decred/dcrd/dcrec/secp256k1/v4/ecdsa"
	"github.com/lightninglabs/pool/sidecar"
	"github.com/lightningnetwork/lnd/tlv"
)

func decHex(b []byte) string {
	if len(b) == 0 {
		return "-"
	}
	return hex.EncodeToString(b)
}

func decUnhex(s string) []byte {
	if s == "-" || s == "" {
		return nil
	}
	b, err := hex.DecodeString(s)
	if err != nil {
		panic("bad hex in case: " + s)
	}
	return b
}

func decPk(k *btcec.PublicKey) string {
	if k == nil {
		return "~"
	}
	return hex.EncodeToString(k.SerializeCompressed())
}

func decSig(s *ecdsa.Signature) string {
	if s == nil {
		return "~"
	}
	r, ss := s.R(), s.S()
	rb, sb := r.Bytes(), ss.Bytes()
	return hex.EncodeToString(rb[:]) + hex.EncodeToString(sb[:])
}

func dec01(b bool) string {
	if b {
		return "1"
	}
	return "0"
}

// decFmtTicket is the canonical token of a ticket (same layout as
// Pool.Dec.fmtTicket).
func decFmtTicket(t *sidecar.Ticket) string {
	f := []string{
		decHex(t.ID[:]), fmt.Sprint(uint8(t.Version)), fmt.Sprint(uint8(t.State)),
		fmt.Sprint(uint64(t.Offer.Capacity)), fmt.Sprint(uint64(t.Offer.PushAmt)),
		fmt.Sprint(t.Offer.LeaseDurationBlocks),
		decPk(t.Offer.SignPubKey), decSig(t.Offer.SigOfferDigest),
		dec01(t.Offer.Auto), dec01(t.Offer.UnannouncedChannel), dec01(t.Offer.ZeroConfChannel),
	}
	if t.Recipient == nil {
		f = append(f, "~")
	} else {
		f = append(f, decPk(t.Recipient.NodePubKey)+";"+decPk(t.Recipient.MultiSigPubKey)+";"+
			fmt.Sprint(t.Recipient.MultiSigKeyIndex))
	}
	if t.Order == nil {
		f = append(f, "~")
	} else {
		f = append(f, decHex(t.Order.BidNonce[:])+";"+decSig(t.Order.SigOrderDigest))
	}
	if t.Execution == nil {
		f = append(f, "~")
	} else {
		f = append(f, decHex(t.Execution.PendingChannelID[:]))
	}
	return strings.Join(f, ",")
}

// decErrName maps a Go error of the ticket decoders to the model's classes.
func decErrName(err error) string {
	var (
		td tlv.ErrTypeForDecoding
		te tlv.ErrTypeForEncoding
		pe secp256k1.Error
		se secpecdsa.Error
	)
	switch {
	case errors.Is(err, tlv.ErrStreamNotCanonical):
		return "stream"
	case errors.Is(err, tlv.ErrVarIntNotCanonical):
		return "varint"
	case errors.Is(err, tlv.ErrRecordTooLarge):
		return "toolarge"
	case errors.Is(err, io.ErrUnexpectedEOF), errors.Is(err, io.EOF):
		return "eof"
	case errors.As(err, &td), errors.As(err, &te):
		return "badlen"
	case errors.As(err, &pe):
		return "pubkey"
	case errors.As(err, &se):
		return "untyped"
	}
	// every other error (codec.go's fmt.Errorf, btcec's signature parser) has no
	// sentinel or type: one class, never told apart by message text
	return "untyped"
}

var decErrChars = map[string]byte{
	"eof": 'f', "varint": 'v', "stream": 's', "badlen": 'l', "toolarge": 'L', "pubkey": 'k',
	"untyped": 'u',
}

// decOutcome is what one guarded call of a real decoder produced.
type decOutcome struct {
	Class  string // ok | err | panic | timeout
	Ticket *sidecar.Ticket
	Err    string // error class
	Panic  string
}

func (o decOutcome) String() string {
	switch o.Class {
	case "ok":
		return "ok " + decFmtTicket(o.Ticket)
	case "err":
		return "err " + o.Err
	}
	return o.Class
}

// decGuard runs f with recover() and a watchdog, so that neither a panic nor
// a non-terminating call takes the harness down.
func decGuard(f func() (*sidecar.Ticket, error)) decOutcome {
	ch := make(chan decOutcome, 1)
	go func() {
		defer func() {
			if p := recover(); p != nil {
				ch <- decOutcome{Class: "panic", Panic: fmt.Sprint(p)}
			}
		}()
		t, err := f()
		if err != nil {
			ch <- decOutcome{Class: "err", Err: decErrName(err)}
			return
		}
		if t == nil {
			ch <- decOutcome{Class: "err", Err: "other"}
			return
		}
		ch <- decOutcome{Class: "ok", Ticket: t}
	}()
	select {
	case o := <-ch:
		return o
	case <-time.After(5 * time.Second):
		decTimeouts++
		return decOutcome{Class: "timeout"}
	}
}

// decTimeouts counts watchdog expiries; a tree on which decoding hangs must
// not cost 5 s per case for thousands of cases: the runners stop generating
// once decStalled() holds.
var decTimeouts int

func decStalled() bool { return decTimeouts >= 3 }

// decRisky reports whether b contains, at any offset, a BigSize integer in
// [2^27, 2^63): if an uncapped decoder took it for a record length it would
// request that much memory from the OS, which can end in a fatal (not
// recoverable) out-of-memory error. Values >= 2^63 are a recoverable makeslice
// panic and are not filtered.
func decRisky(b []byte) bool {
	for i := range b {
		switch {
		case b[i] == 0xfe && i+4 < len(b):
			if binary.BigEndian.Uint32(b[i+1:]) >= 1<<27 {
				return true
			}
		case b[i] == 0xff && i+8 < len(b):
			if v := binary.BigEndian.Uint64(b[i+1:]); v >= 1<<27 && v < 1<<63 {
				return true
			}
		}
	}
	return false
}

var decTreeCapped *bool

// decSkip: on a tree whose ticket decoders are not size-capped, inputs that
// could make the process die of memory exhaustion are not run (Class
// "skipped"); the defect itself is still shown by the >= 2^63 lengths.
func decSkip(b []byte) bool {
	if decTreeCapped == nil {
		decTreeCapped = new(bool) // set before the probe, which is harmless
		*decTreeCapped = true
		c := decCapped()
		*decTreeCapped = c
	}
	return !*decTreeCapped && decRisky(b)
}

func decDeserialize(b []byte) decOutcome {
	if decSkip(b) {
		return decOutcome{Class: "skipped"}
	}
	return decGuard(func() (*sidecar.Ticket, error) {
		return sidecar.DeserializeTicket(bytes.NewReader(b))
	})
}

func decDecodeString(s string) decOutcome {
	if len(s) > 7 && decSkip(base58.Decode(s[7:])) {
		return decOutcome{Class: "skipped"}
	}
	return decGuard(func() (*sidecar.Ticket, error) {
		return sidecar.DecodeString(s)
	})
}

// decCapped probes whether the tree decodes tickets with the size-capped tlv
// variants: a record of a known type declaring 65536 bytes is then "too large"
// instead of an EOF. Generators avoid allocation bombs (declared lengths
// between 2^32 and 2^63) on an uncapped tree so that the box survives; lengths
// >= 2^63 are a recoverable makeslice panic and are always generated.
func decCapped() bool {
	tooLarge := func(b []byte) bool {
		o := decDeserialize(b)
		return o.Class == "err" && o.Err == "toolarge"
	}
	if !tooLarge([]byte{10, 0xfe, 0x00, 0x01, 0x00, 0x00}) {
		return false
	}
	// the nested streams have their own decoder: an unknown record declaring
	// 65536 bytes inside each of the four nested parts
	for _, outer := range []byte{10, 20, 30, 40} {
		if !tooLarge([]byte{outer, 6, 99, 0xfe, 0x00, 0x01, 0x00, 0x00}) {
			return false
		}
	}
	return true
}

// ---------------------------------------------------------------- generators

func decRandKey(rng *rand.Rand) *btcec.PublicKey {
	var b [32]byte
	rng.Read(b[:])
	b[0] &= 0x7f
	b[31] |= 1
	_, pub := btcec.PrivKeyFromBytes(b[:])
	return pub
}

// decRandSig makes a signature object: kind 0 = well formed (non-zero, low S),
// 1 = high S, 2 = tiny scalars.
func decRandSig(rng *rand.Rand, kind int) *ecdsa.Signature {
	var rb, sb [32]byte
	rng.Read(rb[:])
	rng.Read(sb[:])
	rb[0] &= 0x7f
	sb[0] &= 0x3f // < N/2
	var r, s secp256k1.ModNScalar
	switch kind {
	case 2:
		r.SetInt(uint32(1 + rng.Intn(3)))
		s.SetInt(uint32(1 + rng.Intn(3)))
	default:
		r.SetByteSlice(rb[:])
		s.SetByteSlice(sb[:])
		if r.IsZero() {
			r.SetInt(1)
		}
		if s.IsZero() {
			s.SetInt(1)
		}
	}
	if kind == 1 {
		s.Negate() // high S
	}
	return ecdsa.NewSignature(&r, &s)
}

func decRandAmt(rng *rand.Rand) btcutil.Amount {
	switch rng.Intn(6) {
	case 0:
		return 0
	case 1:
		return btcutil.Amount(int64(-1) - int64(rng.Intn(1000)))
	case 2:
		return btcutil.Amount(rng.Int63())
	}
	return btcutil.Amount(rng.Intn(1 << 30))
}

// decRandTicket builds a random ticket with any subset of optional parts.
// wf reports whether it is well formed in the sense of the property (every
// signature object non-zero with low S, as a signer produces them).
func decRandTicket(rng *rand.Rand, count func(string)) (t *sidecar.Ticket, wf bool) {
	wf = true
	t = &sidecar.Ticket{}
	rng.Read(t.ID[:])
	switch rng.Intn(4) {
	case 0:
		t.Version = sidecar.Version(rng.Intn(256))
	default:
		t.Version = sidecar.Version(rng.Intn(3))
	}
	if rng.Intn(8) == 0 {
		t.State = sidecar.State(rng.Intn(256))
	} else {
		t.State = sidecar.State(rng.Intn(8))
	}
	count(fmt.Sprintf("ticket/state=%d", min(int(t.State), 8)))
	sig := func() *ecdsa.Signature {
		switch x := rng.Intn(20); {
		case x < 6:
			count("ticket/sig=nil")
			return nil
		case x < 17:
			count("ticket/sig=wf")
			return decRandSig(rng, 0)
		case x < 19:
			count("ticket/sig=tiny")
			return decRandSig(rng, 2)
		default:
			count("ticket/sig=highS")
			wf = false
			return decRandSig(rng, 1)
		}
	}
	key := func() *btcec.PublicKey {
		if rng.Intn(4) == 0 {
			return nil
		}
		return decRandKey(rng)
	}
	t.Offer = sidecar.Offer{
		Capacity: decRandAmt(rng), PushAmt: decRandAmt(rng),
		LeaseDurationBlocks: rng.Uint32() >> uint(rng.Intn(32)),
		SignPubKey:          key(), SigOfferDigest: sig(),
		Auto: rng.Intn(2) == 0, UnannouncedChannel: rng.Intn(2) == 0, ZeroConfChannel: rng.Intn(2) == 0,
	}
	parts := ""
	if rng.Intn(3) > 0 {
		parts += "R"
		t.Recipient = &sidecar.Recipient{
			NodePubKey: key(), MultiSigPubKey: key(),
			MultiSigKeyIndex: rng.Uint32() >> uint(rng.Intn(32)),
		}
	}
	if rng.Intn(3) > 0 {
		parts += "O"
		t.Order = &sidecar.Order{SigOrderDigest: sig()}
		if rng.Intn(5) > 0 {
			rng.Read(t.Order.BidNonce[:])
		}
	}
	if rng.Intn(3) > 0 {
		parts += "E"
		t.Execution = &sidecar.Execution{}
		if rng.Intn(5) > 0 {
			rng.Read(t.Execution.PendingChannelID[:])
		}
	}
	count("ticket/parts=" + parts)
	return t, wf
}

// ---------------------------------------------------------------- variants

const b58Alphabet = "123456789ABCDEFGHJKLMNPQRSTUVWXYZabcdefghijkmnopqrstuvwxyz"

func decMasks(mode int) []byte {
	if mode == 0 {
		return []byte{0x01, 0x80, 0xff}
	}
	m := make([]byte, 255)
	for i := range m {
		m[i] = byte(i + 1)
	}
	return m
}

var decBinExt = [][]byte{
	{0x00}, {0x01}, {0xff}, {0x2a}, {99, 0},
	{99, 0xff, 0xff, 0xff, 0xff, 0xff, 0xff, 0xff, 0xff, 0xff},
	{99, 0xfe, 0x00, 0x01, 0x00, 0x00}, {99, 0xfd, 0xff, 0xff},
}

// decBinVariants mirrors Pool.Dec.binVariants.
func decBinVariants(mode int, b []byte) [][]byte {
	var res [][]byte
	for i := range b {
		for _, m := range decMasks(mode) {
			v := append([]byte(nil), b...)
			v[i] ^= m
			res = append(res, v)
		}
	}
	for n := 0; n < len(b); n++ {
		res = append(res, append([]byte(nil), b[:n]...))
	}
	for _, e := range decBinExt {
		res = append(res, append(append([]byte(nil), b...), e...))
	}
	return res
}

func decStrRepl(mode int, c byte) []byte {
	idx := strings.IndexByte(b58Alphabet, c)
	if idx < 0 {
		idx = 0
	}
	// c^0x20 is the same letter in the other case
	if mode == 0 {
		return []byte{b58Alphabet[(idx+1)%58], b58Alphabet[(idx+29)%58], 0x30, c ^ 0x20, c + 1}
	}
	var r []byte
	for k := 0; k < 57; k++ {
		r = append(r, b58Alphabet[(idx+1+k)%58])
	}
	return append(r, 0x30, 0x6c, 0x20, 0xc3, c^0x20, c+1, c-1)
}

// decStrVariants mirrors Pool.Dec.strVariants.
func decStrVariants(mode int, s string) []string {
	var res []string
	b := []byte(s)
	for i := range b {
		for _, r := range decStrRepl(mode, b[i]) {
			v := append([]byte(nil), b...)
			v[i] = r
			res = append(res, string(v))
		}
	}
	for n := 0; n < len(b); n++ {
		res = append(res, s[:n])
	}
	for _, e := range []byte{0x31, 0x32, 0x7a, 0x30} {
		res = append(res, s+string([]byte{e}))
	}
	// single-character insertions ('1' = a leading zero byte in base58, 'z') and deletions, at every position
	// around the prefix / version boundary and at every 16th position after it
	for i := range b {
		if !decStrEditPos(i) {
			continue
		}
		for _, e := range []byte{0x31, 0x7a} {
			res = append(res, s[:i]+string([]byte{e})+s[i:])
		}
		res = append(res, s[:i]+s[i+1:])
	}
	return res
}

// decStrEditPos mirrors Pool.Dec.strEditPos.
func decStrEditPos(i int) bool { return i < 12 || i%16 == 0 }

// decClassify mirrors Pool.Dec.classify.
func decClassify(orig, r decOutcome) byte {
	switch r.Class {
	case "panic":
		return 'P'
	case "timeout":
		return 'T'
	case "skipped":
		return 'S'
	case "err":
		return decErrChars[r.Err]
	}
	if orig.Class == "ok" && decFmtTicket(orig.Ticket) == decFmtTicket(r.Ticket) {
		return '='
	}
	return 'D'
}

// decEncodePayload builds the string form around arbitrary payload bytes with
// a correct checksum (independent re-implementation of the format: prefix +
// base58(version || payload || sha256(prefix || 0 || payload)[:4])).
func decEncodePayload(payload []byte, otherVersion bool, v byte) string {
	h := sha256.Sum256(append([]byte("sidecar\x00"), payload...))
	ver := byte(0)
	if otherVersion {
		ver = v
	}
	raw := append(append([]byte{ver}, payload...), h[:4]...)
	return "sidecar" + base58.Encode(raw)
}

// decSkipString: decSkip for the string form.
func decSkipString(s string) bool {
	return len(s) > 7 && decSkip(base58.Decode(s[7:]))
}

// decDeserializeRaw / decDecodeStringRaw run the real decoders in the calling
// goroutine (the caller recovers) and return the outcome class.
func decDeserializeRaw(b []byte) string {
	t, err := sidecar.DeserializeTicket(bytes.NewReader(b))
	if err != nil {
		return "err:" + decErrName(err)
	}
	return "ok:" + decFmtTicket(t)[:16]
}

func decDecodeStringRaw(s string) string {
	t, err := sidecar.DecodeString(s)
	if err != nil {
		return "err:" + decErrName(err)
	}
	return "ok:" + decFmtTicket(t)[:16]
}
