//go:build verif

// Command verifharness runs the real pool code on generated inputs / op
// sequences, writes the op stream for the Lean model driver together with the
// outputs observed from the real code, and evaluates each property's
// independent Go oracle. It is compiled into /repo virtually through
// `go build -overlay` and never copied there.
package main

import (
	"bufio"
	"encoding/json"
	"flag"
	"fmt"
	"hash/fnv"
	"math/rand"
	"os"
	"path/filepath"
	"sort"
	"time"
)

// Violation is a concrete failing input found by a Go oracle.
type Violation struct {
	Property string      `json:"property"`
	What     string      `json:"what"`
	Key      string      `json:"key"`
	Replay   interface{} `json:"replay"`
}

// Run collects everything one harness invocation produces.
type Run struct {
	Prop   string
	Seed   int64
	N      int
	Tier   string
	Rng    *rand.Rand
	OutDir string

	CorpusDir  string
	Search     bool
	ReplayFile string

	ops *bufio.Writer
	exp *bufio.Writer

	Lines       int
	Evaluations int
	distinct    map[uint64]struct{}
	Hist        map[string]int
	Samples     []interface{}
	Violations  []Violation
	Rule        string
	Notes       []string
	files       []*os.File
}

// Emit writes one op line for the model driver and the canonical output the
// real code produced for it.
func (r *Run) Emit(op, expected string) {
	fmt.Fprintln(r.ops, op)
	fmt.Fprintln(r.exp, expected)
	r.Lines++
}

// Count bumps a histogram bucket (branch / error kind / op kind).
func (r *Run) Count(bucket string) { r.Hist[bucket]++ }

// Distinct records a non-trivial case by its canonical string.
func (r *Run) Distinct(canon string) {
	h := fnv.New64a()
	h.Write([]byte(canon))
	r.distinct[h.Sum64()] = struct{}{}
}

// Sample keeps up to 5 example cases for the evidence file.
func (r *Run) Sample(s interface{}) {
	if len(r.Samples) < 5 {
		r.Samples = append(r.Samples, s)
	}
}

// Violate records a failing input found by the Go oracle.
func (r *Run) Violate(what, key string, replay interface{}) {
	if len(r.Violations) < 20 {
		r.Violations = append(r.Violations, Violation{
			Property: r.Prop, What: what, Key: key, Replay: replay,
		})
	}
}

type propFn func(r *Run)

var props = map[string]propFn{}

func main() {
	prop := flag.String("prop", "", "property id")
	seed := flag.Int64("seed", 1, "PRNG seed")
	n := flag.Int("n", 100, "number of cases")
	tier := flag.String("tier", "quick", "tier")
	out := flag.String("out", "", "output directory")
	corpus := flag.String("corpus", "", "corpus directory (cases run first)")
	search := flag.Bool("search", false, "failing-input search mode (wider/boundary generator)")
	replay := flag.String("replay", "", "replay file written by ./check (only its cases are run)")
	flag.Parse()

	fn, ok := props[*prop]
	if !ok {
		var ids []string
		for id := range props {
			ids = append(ids, id)
		}
		sort.Strings(ids)
		fmt.Fprintf(os.Stderr, "unknown property %q; have %v\n", *prop, ids)
		os.Exit(2)
	}
	if err := os.MkdirAll(*out, 0o755); err != nil {
		panic(err)
	}
	opsF, err := os.Create(filepath.Join(*out, "ops.txt"))
	if err != nil {
		panic(err)
	}
	expF, err := os.Create(filepath.Join(*out, "go.out"))
	if err != nil {
		panic(err)
	}
	r := &Run{
		Prop: *prop, Seed: *seed, N: *n, Tier: *tier, OutDir: *out,
		CorpusDir: *corpus, Search: *search, ReplayFile: *replay,
		Rng:      rand.New(rand.NewSource(*seed)),
		ops:      bufio.NewWriterSize(opsF, 1<<20),
		exp:      bufio.NewWriterSize(expF, 1<<20),
		distinct: map[uint64]struct{}{},
		Hist:     map[string]int{},
	}
	start := time.Now()
	fn(r)
	r.ops.Flush()
	r.exp.Flush()
	opsF.Close()
	expF.Close()

	rep := map[string]interface{}{
		"property":            r.Prop,
		"seed":                r.Seed,
		"tier":                r.Tier,
		"lines":               r.Lines,
		"evaluations":         r.Evaluations,
		"distinct_nontrivial": len(r.distinct),
		"rule":                r.Rule,
		"histogram":           r.Hist,
		"samples":             r.Samples,
		"violations":          r.Violations,
		"notes":               r.Notes,
		"wall_s":              time.Since(start).Seconds(),
	}
	b, _ := json.MarshalIndent(rep, "", " ")
	if err := os.WriteFile(filepath.Join(*out, "report.json"), b, 0o644); err != nil {
		panic(err)
	}
}

// FixedCases returns the recorded cases to run before any generated ones:
// the replay file's cases when replaying (then nothing else is run), else
// every corpus/<Cxx>/*.json file. A case is an arbitrary JSON value whose
// shape the property's runner defines (e.g. a list of op strings).
func (r *Run) FixedCases() []json.RawMessage {
	var res []json.RawMessage
	if r.ReplayFile != "" {
		b, err := os.ReadFile(r.ReplayFile)
		if err != nil {
			panic(err)
		}
		var f struct {
			Violations []struct {
				Replay json.RawMessage `json:"replay"`
			} `json:"violations"`
			Cases []json.RawMessage `json:"cases"`
		}
		if err := json.Unmarshal(b, &f); err != nil {
			panic(err)
		}
		for _, v := range f.Violations {
			res = append(res, v.Replay)
		}
		res = append(res, f.Cases...)
		return res
	}
	if r.CorpusDir == "" {
		return nil
	}
	files, _ := filepath.Glob(filepath.Join(r.CorpusDir, "*.json"))
	sort.Strings(files)
	for _, fn := range files {
		b, err := os.ReadFile(fn)
		if err != nil {
			continue
		}
		var f struct {
			Cases []json.RawMessage `json:"cases"`
		}
		if err := json.Unmarshal(b, &f); err == nil {
			res = append(res, f.Cases...)
		}
	}
	return res
}
