//go:build verif

package main

import (
	"context"
	"encoding/hex"
	"encoding/json"
	"errors"
	"fmt"
	"math"
	"math/big"
	"sort"
	"strings"

	"github.com/btcsuite/btcd/blockchain"
	"github.com/btcsuite/btcd/btcec/v2"
	"github.com/btcsuite/btcd/btcutil"
	"github.com/lightninglabs/pool"
	"github.com/lightninglabs/pool/account"
	"github.com/lightninglabs/pool/auctioneerrpc"
	"github.com/lightninglabs/pool/internal/test"
	"github.com/lightninglabs/pool/order"
	"github.com/lightninglabs/pool/poolrpc"
	"github.com/lightninglabs/pool/poolscript"
	"github.com/lightninglabs/pool/terms"
	"github.com/lightningnetwork/lnd/input"
	"github.com/lightningnetwork/lnd/keychain"
	"github.com/lightningnetwork/lnd/lnwallet/chainfee"
)

func init() { props["C11"] = runC11 }

// c11Order holds the order terms that enter the reserve and validateOrder.
type c11Order struct {
	IsBid    bool   `json:"bid"`
	Auction  uint32 `json:"auction"`
	Version  uint32 `json:"version"`
	State    uint8  `json:"state"`
	Rate     uint32 `json:"rate"`
	Amt      int64  `json:"amt"`
	Units    uint64 `json:"units"`
	Unfilled uint64 `json:"unfilled"`
	MinUnits uint64 `json:"min_units"`
	MaxFee   int64  `json:"max_fee"`
	Dur      uint32 `json:"dur"`
	Self     int64  `json:"self"`
	Acct     int    `json:"acct"`
}

func (o c11Order) token() string {
	b := 0
	if o.IsBid {
		b = 1
	}
	return fmt.Sprintf("%d,%d,%d,%d,%d,%d,%d,%d,%d,%d,%d,%d,%d", b, o.Auction, o.Version, o.State, o.Rate,
		o.Amt, o.Units, o.Unfilled, o.MinUnits, o.MaxFee, o.Dur, o.Self, o.Acct)
}

var c11Keys [4]*btcec.PublicKey
var c11KeyRaw [4][33]byte

func c11InitKeys() {
	for i := range c11Keys {
		var b [32]byte
		b[0], b[31] = 0x22, byte(i+1)
		_, c11Keys[i] = btcec.PrivKeyFromBytes(b[:])
		copy(c11KeyRaw[i][:], c11Keys[i].SerializeCompressed())
	}
}

// real builds the real order.Order.
func (o c11Order) real(nonce int) order.Order {
	var n order.Nonce
	n[0], n[1], n[2], n[3] = 0xC1, byte(nonce>>16), byte(nonce>>8), byte(nonce)
	kit := order.NewKit(n)
	kit.AuctionType = order.AuctionType(o.Auction)
	kit.Version = order.Version(o.Version)
	kit.State = order.State(o.State)
	kit.FixedRate = o.Rate
	kit.Amt = btcutil.Amount(o.Amt)
	kit.Units = order.SupplyUnit(o.Units)
	kit.UnitsUnfulfilled = order.SupplyUnit(o.Unfilled)
	kit.MinUnitsMatch = order.SupplyUnit(o.MinUnits)
	kit.MaxBatchFeeRate = chainfee.SatPerKWeight(o.MaxFee)
	kit.LeaseDuration = o.Dur
	kit.AcctKey = c11KeyRaw[o.Acct%len(c11KeyRaw)]
	if o.IsBid {
		return &order.Bid{Kit: *kit, SelfChanBalance: btcutil.Amount(o.Self)}
	}
	return &order.Ask{Kit: *kit}
}

// c11Fill is one match of the order: units, clearing price, chain fee rate of
// the batch, and for an ask in the outbound market the bid's self balance.
type c11Fill struct {
	Units     uint64 `json:"units"`
	Price     uint32 `json:"price"`
	FeeRate   int64  `json:"fee_rate"`
	OtherSelf int64  `json:"other_self"`
}

// c11Case is the replay / corpus shape.
type c11Case struct {
	Kind    string     `json:"kind"` // "fills" | "validate"
	Order   c11Order   `json:"order"`
	BaseFee int64      `json:"base_fee"`
	FeePPM  int64      `json:"fee_ppm"`
	Ver     uint8      `json:"acct_version"`
	Fills   []c11Fill  `json:"fills,omitempty"`
	OneTx   bool       `json:"one_batch,omitempty"`
	Stored  []c11Order `json:"stored,omitempty"`
	Value   int64      `json:"acct_value,omitempty"`
	Buckets []uint32   `json:"buckets,omitempty"`
	Note    string     `json:"note,omitempty"`
	// Pending (kind "validate-pending"): an honest batch proposal (generator of the C01-C03 stream). Its orders
	// and accounts are the content of the stores, and it is accepted by the real OrderMatchValidate before the
	// new order is validated, so the manager holds it as its pending batch.
	Pending *bCase `json:"pending,omitempty"`
	// Expect = "exceeds": a witness outside the property's guards for which the debit exceeds the reserve
	// (the Lean counter-example theorems); the run only records whether the real code reproduces it.
	Expect string `json:"expect,omitempty"`
	// FeeBump (kind "verified-batch"): the stored orders' MaxBatchFeeRate is the proposal's fee rate plus this.
	FeeBump int64 `json:"fee_bump,omitempty"`
}

// c11Archived is the property's text: executed, canceled, expired and failed
// orders are archived.
func c11Archived(s uint8) bool {
	return s == uint8(order.StateExecuted) || s == uint8(order.StateCanceled) ||
		s == uint8(order.StateExpired) || s == uint8(order.StateFailed)
}

var (
	c11Two48e9 = new(big.Int).Mul(new(big.Int).Lsh(big.NewInt(1), 48), big.NewInt(1_000_000_000))
)

// c11InDomain is the stated domain D of the property check (see notes/C11.md):
// a box on the inputs plus the premium-magnitude guard.
func c11InDomain(o c11Order, base, ppm int64) bool {
	if o.Unfilled > 1e7 || o.MinUnits > 1e7 || o.Units > 1e7 || o.Amt < 0 || o.Amt > 1e12 ||
		o.Self < 0 || o.Self > 1e11 || base < 0 || base > 1e9 || ppm < 0 || ppm > 1e6 ||
		o.MaxFee < 0 || o.MaxFee > 1e8 {
		return false
	}
	n := uint64(0)
	if o.MinUnits > 0 {
		n = o.Unfilled / o.MinUnits
	}
	rd := new(big.Int).Mul(big.NewInt(int64(o.Rate)), big.NewInt(int64(o.Dur)))
	a := new(big.Int).SetUint64(o.Unfilled * 100000)
	a.Add(a, new(big.Int).Mul(new(big.Int).SetUint64(n), big.NewInt(o.Self)))
	if a.Mul(a, rd).Cmp(c11Two48e9) > 0 {
		return false
	}
	b := new(big.Int).SetUint64(o.Unfilled*100000 + 2*o.MinUnits*100000)
	b.Add(b, big.NewInt(o.Self))
	return b.Mul(b, rd).Cmp(c11Two48e9) <= 0
}

// c11Debit computes what the real verifier tallies for one batch in which our
// order is matched `fills` (one channel each): validateMatchedOrder per match,
// NumChansCreated++, then ChainFees — the statements of batchVerifier.Verify.
func c11Debit(o c11Order, ours order.Order, fs terms.FeeSchedule, ver uint8, fills []c11Fill) (debit int64, err error) {
	defer func() {
		if p := recover(); p != nil {
			err = fmt.Errorf("panic: %v", p)
		}
	}()
	var tally order.AccountTally
	for i, f := range fills {
		other := c11Order{IsBid: !o.IsBid, Auction: o.Auction, Version: o.Version, Rate: o.Rate, Dur: o.Dur,
			Unfilled: f.Units, MinUnits: 1, Units: f.Units, Amt: int64(f.Units) * 100000, Acct: 3, MaxFee: 253}
		if !o.IsBid {
			other.Self = f.OtherSelf
		}
		mo := &order.MatchedOrder{Order: other.real(1<<20 + i), UnitsFilled: order.SupplyUnit(f.Units)}
		mo.NodeKey[0] = 2
		if e := order.VerifC11MatchTally(&tally, ours, mo, fs, order.FixedRatePremium(f.Price)); e != nil {
			return 0, e
		}
		tally.NumChansCreated++
	}
	tally.ChainFees(chainfee.SatPerKWeight(fills[0].FeeRate), account.Version(ver))
	return -int64(tally.EndingBalance), nil
}

// c11Safe runs a call into the real code and turns a panic into an outcome.
func c11Safe(f func()) (panicMsg string) {
	defer func() {
		if p := recover(); p != nil {
			panicMsg = fmt.Sprint(p)
			if panicMsg == "" {
				panicMsg = "panic"
			}
		}
	}()
	f()
	return ""
}

// c11TraderFee calls the real EstimateTraderFee; a panic is reported as -1.
func c11TraderFee(k uint32, fee int64, ver uint8) (v int64) {
	if c11Safe(func() {
		v = int64(order.EstimateTraderFee(k, chainfee.SatPerKWeight(fee), account.Version(ver)))
	}) != "" {
		return -1
	}
	return v
}

// c11Reserved calls the real ReservedValue.
func c11Reserved(ours order.Order, fs terms.FeeSchedule, ver uint8) (v int64, panicked bool) {
	defer func() {
		if p := recover(); p != nil {
			panicked = true
		}
	}()
	return int64(ours.ReservedValue(fs, account.Version(ver))), false
}

// c11Store is a minimal in-memory order.Store.
type c11Store struct {
	order.Store
	orders []order.Order
}

func (s *c11Store) GetOrders() ([]order.Order, error) { return s.orders, nil }
func (s *c11Store) SubmitOrder(o order.Order) error   { s.orders = append(s.orders, o); return nil }

func c11ErrEnum(err error, panicked bool) string {
	switch {
	case panicked:
		return "panic"
	case err == nil:
		return "ok"
	case errors.Is(err, order.ErrInsufficientBalance):
		return "err-insufficient"
	}
	// every other error of validateOrder is one of its formal checks; which one is decided by c11Refine from the
	// order's terms and the real ValidateSelfChanBalance – never from the error text
	return "err-formal"
}

// c11Refine names the formal check an "err-formal" outcome stands for: the first of validateOrder's three formal
// conditions that the order violates (duration bucket, fee floor, self channel balance rules – the last one decided
// by the real Bid.ValidateSelfChanBalance). An "err-formal" that none of them explains stays as it is and shows up
// as a disagreement with the model.
func c11Refine(res string, o c11Order, tm *terms.AuctioneerTerms) string {
	if res != "err-formal" {
		return res
	}
	if _, ok := tm.LeaseDurationBuckets[o.Dur]; !ok {
		return "err-duration"
	}
	if o.MaxFee < int64(chainfee.FeePerKwFloor) {
		return "err-fee-floor"
	}
	if bid, ok := o.real(1).(*order.Bid); ok && bid.SelfChanBalance > 0 {
		var verr error
		if c11Safe(func() { verr = bid.ValidateSelfChanBalance() }) == "" && verr != nil {
			return "err-self-chan"
		}
	}
	return res
}

func runC11(r *Run) {
	r.Rule = "streams: (1) 2N premium triples (random incl. massive rates + boundary/rounding-tie directed) compared " +
		"byte-exactly with LumpSumPremium; (2) N random orders (units 0..1e7, min match 0..>units, rates to 2^32-1, " +
		"durations, fee schedules, max fee rates incl. below floor, account versions 0..255, self balance, auction " +
		"types 0..2, states 0..255) through the real Ask/Bid.ReservedValue, plus sampled fill sequences checked by the " +
		"oracle; (3) exhaustive fill partitions for every (units<=Umax, min match) through the real " +
		"validateMatchedOrder+ChainFees tally, summed and checked against ReservedValue+2*#fills; (4) N/10 " +
		"validateOrder/PrepareOrder cases over random stored orders on 3 accounts with the balance placed around " +
		"the threshold; (5) available-balance sums. non-trivial = in-domain, non-archived order with >=1 possible fill"
	c11InitKeys()
	ctx := context.Background()

	// ---- constants as evaluated by the Go compiler (cross-check of the regenerated facts) ----
	arch := []string{}
	for s := 0; s < 256; s++ {
		if order.State(s).Archived() {
			arch = append(arch, fmt.Sprint(s))
		}
	}
	tapv := []string{}
	for v := 0; v < 256; v++ {
		if order.EstimateTraderFee(0, 1000_000, account.Version(v)) != order.EstimateTraderFee(0, 1000_000, account.Version(200)) {
			tapv = append(tapv, fmt.Sprint(v))
		}
	}
	r.Emit("C11 consts", fmt.Sprintf("bsu=%d frtp=%d arch=%s out=%d in=%d vscb=%d p2wsh=%d inp=%d wsf=%d floor=%d msw=%d tmsw=%d tapv=%s efd=%d",
		int64(order.BaseSupplyUnit), int64(order.FeeRateTotalParts), strings.Join(arch, "/"),
		order.BTCOutboundLiquidity, order.BTCInboundLiquidity, order.VersionSelfChanBalance,
		input.P2WSHOutputSize, input.InputSize, blockchain.WitnessScaleFactor, int64(chainfee.FeePerKwFloor),
		poolscript.MultiSigWitnessSize, poolscript.TaprootMultiSigWitnessSize, strings.Join(tapv, "/"),
		1_000_000_000_000/int64(terms.NewLinearFeeSchedule(0, 1).ExecutionFee(1_000_000_000_000))))

	runFills := func(c c11Case, fromGen bool) {
		c11RunFills(r, c, fromGen)
	}
	runValidate := func(c c11Case) {
		c11RunValidate(r, ctx, c)
	}

	for _, raw := range r.FixedCases() {
		var c c11Case
		if json.Unmarshal(raw, &c) != nil {
			continue
		}
		r.Count("case/fixed")
		switch c.Kind {
		case "fills":
			runFills(c, false)
		case "validate":
			runValidate(c)
		case "validate-pending":
			c11RunValidatePending(r, c)
		case "verified-batch":
			c11RunVerifiedBatch(r, c)
		}
	}
	if r.ReplayFile != "" {
		return
	}

	// ---- State.Archived over the whole uint8 range ----
	for s := 0; s < 256; s++ {
		var got bool
		if pm := c11Safe(func() { got = order.State(s).Archived() }); pm != "" {
			r.Violate(fmt.Sprintf("State(%d).Archived() panicked: %s", s, pm), "C11/archived", s)
		}
		r.Emit(fmt.Sprintf("C11 arch %d", s), fmt.Sprint(got))
		if got != c11Archived(uint8(s)) {
			r.Violate(fmt.Sprintf("State(%d).Archived() = %v", s, got), "C11/archived", s)
		}
	}

	// ---- (1) premium ----
	c11PremiumStream(r, 2*r.N+r.N/8)

	// ---- EstimateTraderFee ----
	for i := 0; i < r.N/20+50; i++ {
		k := uint32(r.Rng.Intn(50))
		if r.Rng.Intn(10) == 0 {
			k = r.Rng.Uint32()
		}
		fr := int64(r.Rng.Intn(100000))
		if r.Rng.Intn(5) == 0 {
			fr = r.Rng.Int63n(1e8)
		}
		v := uint8(r.Rng.Intn(4))
		if r.Rng.Intn(8) == 0 {
			v = uint8(r.Rng.Intn(256))
		}
		r.Emit(fmt.Sprintf("C11 tf %d %d %d", k, fr, v),
			fmt.Sprint(c11TraderFee(k, fr, v)))
		r.Count("tf")
	}

	// ---- (3) exhaustive fill partitions ----
	umax := 11
	if r.Tier == "thorough" || r.Search {
		umax = 14
	}
	c11Partitions(r, umax)

	// ---- (2) random orders ----
	for i := 0; i < r.N; i++ {
		o, base, ppm, ver := c11GenOrder(r)
		c := c11Case{Kind: "fills", Order: o, BaseFee: base, FeePPM: ppm, Ver: ver}
		c.Fills = c11SampleFills(r, o)
		c.OneTx = r.Rng.Intn(4) == 0
		runFills(c, true)
	}

	// ---- (4) validateOrder / PrepareOrder ----
	for i := 0; i < r.N/10+20; i++ {
		runValidate(c11GenValidate(r))
	}

	// ---- informational: beyond the premium-magnitude guard (float error no longer below half a satoshi) ----
	c11BeyondGuard(r, r.N/20)

	// ---- (4b) validateOrder on a manager that holds a pending batch ----
	g := &bGen{rng: r.Rng, search: false, prop: "C11"} // honest proposals wanted, also when searching
	for i := 0; i < r.N/40+20 && len(r.Violations) < 20; i++ {
		c11RunValidatePending(r, c11GenValidatePending(r, g, i))
	}

	// ---- (4c) what batches accepted by the real verifier debit, incl. orders partially filled earlier ----
	for i := 0; i < r.N/25+20 && len(r.Violations) < 20; i++ {
		c11RunVerifiedBatch(r, c11GenVerifiedBatch(r, g, i))
	}
}

// c11PremiumStream compares LumpSumPremium byte-exactly on random and
// boundary-directed triples.
func c11PremiumStream(r *Run, n int) {
	emit := func(amt int64, rate, dur uint32) {
		var f float64
		var lump int64
		if pm := c11Safe(func() {
			f = order.PerBlockPremium(btcutil.Amount(amt), rate) * float64(dur)
			lump = int64(order.FixedRatePremium(rate).LumpSumPremium(btcutil.Amount(amt), dur))
		}); pm != "" {
			r.Violate("LumpSumPremium panicked: "+pm, "C11/premium-panic", []int64{amt, int64(rate), int64(dur)})
			f = math.Inf(1)
		}
		exp := "ood"
		if amt >= 0 && f < 9223372036854775808.0 {
			exp = fmt.Sprint(lump)
			r.Count("prem/in-range")
			if f >= 1<<53 {
				r.Count("prem/above-2^53")
			}
		} else {
			r.Count("prem/ood")
		}
		r.Emit(fmt.Sprintf("C11 prem %d %d %d", amt, rate, dur), exp)
		r.Evaluations++
		// the total Int-valued variant used by other models: any int64 amount; outside the int64 range of the
		// result the model follows the amd64 back end (compared, not claimed)
		if r.Rng.Intn(4) == 0 || exp == "ood" {
			a2 := amt
			if r.Rng.Intn(2) == 0 {
				a2 = -amt
			}
			var l2 int64
			if c11Safe(func() { l2 = int64(order.FixedRatePremium(rate).LumpSumPremium(btcutil.Amount(a2), dur)) }) == "" {
				r.Emit(fmt.Sprintf("C11 premi %d %d %d", a2, rate, dur), fmt.Sprint(l2))
				r.Count("premi")
				if a2 < 0 {
					r.Count("premi/negative")
				}
			}
		}
	}
	// boundary triples
	for _, a := range []int64{0, 1, 2, 99999, 100000, 100001, 1 << 24, 1<<53 - 1, 1 << 53, 1<<53 + 1, 1<<62 + 12345, math.MaxInt64, 2_100_000_000_000_000} {
		for _, rt := range []uint32{0, 1, 2, 3, 999, 1000, 1_000_000_000, 999_999_999, math.MaxUint32} {
			for _, d := range []uint32{0, 1, 2, 144, 2016, 1_000_000_000, math.MaxUint32} {
				emit(a, rt, d)
			}
		}
	}
	for i := 0; i < n; i++ {
		var amt int64
		var rate, dur uint32
		switch r.Rng.Intn(8) {
		case 0, 1, 2: // realistic
			amt = int64(1+r.Rng.Intn(100000)) * 100000
			rate = uint32(1 + r.Rng.Intn(200000))
			dur = []uint32{144, 1008, 2016, 4032, 8064, 52416}[r.Rng.Intn(6)]
		case 3: // arbitrary sat amounts (self balances make non-unit amounts)
			amt = r.Rng.Int63n(2_100_000_000_000_000)
			rate = uint32(r.Rng.Intn(10_000_000))
			dur = uint32(r.Rng.Intn(100000))
		case 4: // massive
			amt = r.Rng.Int63n(1 << uint(1+r.Rng.Intn(62)))
			rate = r.Rng.Uint32() >> uint(r.Rng.Intn(32))
			dur = r.Rng.Uint32() >> uint(r.Rng.Intn(32))
		case 5: // exact products around integers: amt*rate*dur = k*1e9 + small
			k := int64(1 + r.Rng.Intn(1000000))
			rate = uint32(1 + r.Rng.Intn(1000))
			dur = uint32(1 + r.Rng.Intn(5000))
			amt = (k*1_000_000_000)/(int64(rate)*int64(dur)) + int64(r.Rng.Intn(3)) - 1
			if amt < 0 {
				amt = 0
			}
		case 6: // rounding ties / huge mantissas
			amt = int64(1)<<uint(40+r.Rng.Intn(23)) + int64(r.Rng.Intn(5)) - 2
			rate = uint32(1)<<uint(r.Rng.Intn(32)) + uint32(r.Rng.Intn(3))
			dur = uint32(1) << uint(r.Rng.Intn(20))
		default:
			amt = int64(r.Rng.Intn(1 << 20))
			rate = r.Rng.Uint32()
			dur = uint32(r.Rng.Intn(1 << 16))
		}
		emit(amt, rate, dur)
	}
}

func c11PickDur(r *Run) uint32 {
	switch r.Rng.Intn(10) {
	case 0:
		return uint32(1 + r.Rng.Intn(100000))
	case 1:
		return r.Rng.Uint32()
	}
	return []uint32{144, 1008, 2016, 4032, 8064, 52416}[r.Rng.Intn(6)]
}

// c11GenOrder draws an order, a fee schedule and an account version.
func c11GenOrder(r *Run) (c11Order, int64, int64, uint8) {
	var o c11Order
	o.IsBid = r.Rng.Intn(2) == 0
	switch x := r.Rng.Intn(20); {
	case x < 14:
		o.Auction = 0
	case x < 19:
		o.Auction = 1
	default:
		o.Auction = 2
	}
	o.Version = uint32(r.Rng.Intn(7))
	switch x := r.Rng.Intn(20); {
	case x < 15:
		o.State = uint8(r.Rng.Intn(3))
	case x < 19:
		o.State = uint8(r.Rng.Intn(7))
	default:
		o.State = uint8(r.Rng.Intn(256))
	}
	switch x := r.Rng.Intn(100); {
	case x < 40:
		o.Unfilled = uint64(1 + r.Rng.Intn(20))
	case x < 80:
		o.Unfilled = uint64(1 + r.Rng.Intn(1000))
	case x < 94:
		o.Unfilled = uint64(1 + r.Rng.Intn(10_000_000))
	case x < 97:
		o.Unfilled = 0
	default:
		o.Unfilled = 10_000_001 + uint64(r.Rng.Intn(1000))
	}
	switch x := r.Rng.Intn(100); {
	case x < 30:
		o.MinUnits = 1
	case x < 80:
		o.MinUnits = 1 + uint64(r.Rng.Int63n(int64(o.Unfilled)+1))
	case x < 90:
		o.MinUnits = o.Unfilled
	case x < 96:
		o.MinUnits = o.Unfilled + 1 + uint64(r.Rng.Intn(5))
	default:
		o.MinUnits = 0
	}
	// what batchStorer leaves behind after a partial fill: the remainder is below the minimum match, the order
	// is archived as executed but keeps its unfilled units; or fully filled with nothing left
	if x := r.Rng.Intn(100); x < 4 {
		o.State = uint8(order.StateExecuted)
		o.MinUnits = 2 + uint64(r.Rng.Intn(50))
		o.Unfilled = 1 + uint64(r.Rng.Int63n(int64(o.MinUnits)-1))
		if r.Rng.Intn(4) == 0 {
			o.MinUnits = 0 // unvalidated terms of an archived order must not matter either
		}
		r.Count("gen/executed-with-leftover")
	} else if x < 6 {
		o.State = uint8(order.StateExecuted)
		o.Unfilled = 0
		r.Count("gen/executed-fully")
	}
	o.Units = o.Unfilled + uint64(r.Rng.Intn(3))*uint64(r.Rng.Intn(50))
	if o.Units > 10_000_000 && o.Unfilled <= 10_000_000 {
		o.Units = o.Unfilled
	}
	o.Amt = int64(o.Units) * 100000
	switch x := r.Rng.Intn(100); {
	case x < 60:
		o.Rate = uint32(1 + r.Rng.Intn(100000))
	case x < 80:
		o.Rate = uint32(r.Rng.Intn(10_000_000))
	case x < 90:
		o.Rate = uint32(r.Rng.Intn(1_000_000_001)) // up to 100 % per block
	default:
		o.Rate = r.Rng.Uint32()
	}
	o.Dur = c11PickDur(r)
	switch x := r.Rng.Intn(100); {
	case x < 70:
		o.MaxFee = 253 + int64(r.Rng.Intn(100000))
	case x < 76:
		o.MaxFee = int64(r.Rng.Intn(253))
	case x < 97:
		o.MaxFee = r.Rng.Int63n(100_000_001)
	default:
		o.MaxFee = 100_000_001 + r.Rng.Int63n(1000)
	}
	if o.IsBid {
		switch x := r.Rng.Intn(10); {
		case x < 5:
			o.Self = 0
		case x < 8:
			o.Self = int64(1+r.Rng.Intn(50)) * 100000
		case x < 9:
			o.Self = r.Rng.Int63n(100_000_000_001)
		default:
			o.Self = int64(o.MinUnits) * 100000
		}
		if o.Auction == 1 && o.Self == 0 && r.Rng.Intn(4) != 0 {
			o.Self = 100000
		}
	}
	o.Acct = r.Rng.Intn(3)

	// massive rates/durations mostly leave the domain; pull a share of them back inside by shrinking the duration
	if o.MinUnits > 0 && r.Rng.Intn(3) != 0 && !c11InDomain(o, 0, 0) {
		n := o.Unfilled / o.MinUnits
		a := new(big.Int).SetUint64(o.Unfilled*100000 + 2*o.MinUnits*100000)
		a.Add(a, new(big.Int).Mul(new(big.Int).SetUint64(n+1), big.NewInt(o.Self)))
		a.Mul(a, big.NewInt(int64(o.Rate)+1))
		q := new(big.Int).Quo(c11Two48e9, a)
		if q.IsUint64() && q.Uint64() >= 1 {
			m := q.Uint64()
			if m > math.MaxUint32 {
				m = math.MaxUint32
			}
			o.Dur = uint32(1 + r.Rng.Int63n(int64(m)))
			r.Count("gen/massive-rate-pulled-in")
		}
	}

	var base, ppm int64
	switch x := r.Rng.Intn(10); {
	case x < 1:
		base = 0
	case x < 8:
		base = int64(r.Rng.Intn(2000))
	case x < 9:
		base = r.Rng.Int63n(1_000_000_001)
	default:
		base = int64(r.Rng.Intn(3))
	}
	switch x := r.Rng.Intn(10); {
	case x < 1:
		ppm = 0
	case x < 8:
		ppm = int64(r.Rng.Intn(10000))
	case x < 9:
		ppm = r.Rng.Int63n(1_000_001)
	default:
		ppm = 1_000_001 + int64(r.Rng.Intn(100))
	}
	ver := uint8(r.Rng.Intn(4))
	if r.Rng.Intn(10) == 0 {
		ver = uint8(r.Rng.Intn(256))
	}
	return o, base, ppm, ver
}

// c11SampleFills draws a fill sequence inside the property's quantifier:
// every fill >= min match, total <= unfilled, prices on the order's side of
// its rate, batch fee rates <= max.
func c11SampleFills(r *Run, o c11Order) []c11Fill {
	if o.MinUnits == 0 || o.Unfilled < o.MinUnits {
		return nil
	}
	var sizes []uint64
	left := o.Unfilled
	n := o.Unfilled / o.MinUnits
	mode := r.Rng.Intn(6)
	if n > 3000 && mode != 1 {
		mode = 1 // keep long sequences out of the hot loop
	}
	switch mode {
	case 0: // all minimum
		for left >= o.MinUnits {
			sizes = append(sizes, o.MinUnits)
			left -= o.MinUnits
		}
	case 1: // one fill of everything
		sizes = []uint64{left}
	case 2: // n-1 minimum + remainder
		for left >= 2*o.MinUnits {
			sizes = append(sizes, o.MinUnits)
			left -= o.MinUnits
		}
		sizes = append(sizes, left)
	default: // random
		for left >= o.MinUnits && r.Rng.Intn(12) != 0 {
			s := o.MinUnits + uint64(r.Rng.Int63n(int64(left-o.MinUnits)/int64(1+r.Rng.Intn(4))+1))
			sizes = append(sizes, s)
			left -= s
		}
	}
	worst := r.Rng.Intn(2) == 0
	fills := make([]c11Fill, len(sizes))
	for i, s := range sizes {
		f := c11Fill{Units: s, Price: o.Rate, FeeRate: o.MaxFee}
		if !worst {
			if o.IsBid {
				f.Price = uint32(r.Rng.Int63n(int64(o.Rate) + 1))
			} else {
				f.Price = o.Rate + uint32(r.Rng.Int63n(int64(math.MaxUint32-o.Rate)/int64(1+r.Rng.Intn(1000))+1))
			}
			if o.MaxFee > 0 {
				f.FeeRate = r.Rng.Int63n(o.MaxFee + 1)
			}
		}
		if !o.IsBid && o.Auction == 1 && r.Rng.Intn(2) == 0 {
			f.OtherSelf = int64(1+r.Rng.Intn(20)) * 100000
		}
		fills[i] = f
	}
	return fills
}

// c11AskGuard is the property's guard for asks: the premium at the ask's own
// rate does not exceed the leased amount, i.e. rate*duration <= 1e9 parts.
func c11AskGuard(o c11Order) bool {
	return uint64(o.Rate)*uint64(o.Dur) <= 1_000_000_000
}

// c11RunFills: ReservedValue of the real order (compared with the model) and,
// inside the property's domain, the oracle "sum of real debits over the fill
// sequence <= reserved + 2*#fills".
func c11RunFills(r *Run, c c11Case, fromGen bool) {
	o := c.Order
	ours := o.real(1)
	fs := terms.NewLinearFeeSchedule(btcutil.Amount(c.BaseFee), btcutil.Amount(c.FeePPM))
	in := c11InDomain(o, c.BaseFee, c.FeePPM)
	op := fmt.Sprintf("C11 rv %s %d %d %d", o.token(), c.BaseFee, c.FeePPM, c.Ver)
	rv, panicked := c11Reserved(ours, fs, c.Ver)
	r.Evaluations++
	kind := "bid"
	if !o.IsBid {
		kind = "ask"
	}
	if c.Expect == "exceeds" && !in && !panicked && len(c.Fills) > 0 {
		// a guard witness outside the domain (premium guard): only record whether the real code reproduces it
		total := big.NewInt(0)
		for _, f := range c.Fills {
			d, err := c11Debit(o, ours, fs, c.Ver, []c11Fill{f})
			if err != nil {
				return
			}
			total.Add(total, big.NewInt(d))
		}
		if total.Cmp(new(big.Int).Add(big.NewInt(rv), big.NewInt(2*int64(len(c.Fills))))) > 0 {
			r.Count("witness/guard-needed-reproduced")
		} else {
			r.Count("witness/guard-needed-NOT-reproduced")
		}
		return
	}
	switch {
	case c11Archived(o.State):
		// archived orders reserve nothing – whatever the other terms are
		r.Count("rv/archived")
		if panicked || rv != 0 {
			r.Violate(fmt.Sprintf("archived order (state %d) reserves %d (panic=%v)", o.State, rv, panicked),
				"C11/archived-reserve", c)
		}
		r.Emit(op, c11Out(rv, panicked))
		return
	case o.MinUnits == 0:
		r.Count("rv/panic-min-zero")
		r.Emit(op, c11Out(rv, panicked))
		return
	case !in:
		r.Count("rv/ood")
		r.Emit(op, "ood")
		return
	}
	r.Emit(op, c11Out(rv, panicked))
	r.Count("rv/in-domain/" + kind)
	if panicked {
		r.Violate("ReservedValue panicked inside the domain", "C11/reserve-panic", c)
		return
	}
	if o.Unfilled%o.MinUnits != 0 && o.Unfilled >= o.MinUnits {
		r.Count("rv/branch-remainder")
	} else if o.Unfilled >= o.MinUnits {
		r.Count("rv/branch-exact")
	} else {
		r.Count("rv/branch-unfilled-below-min")
	}
	if rv == 0 {
		r.Count("rv/zero")
	}
	if o.Auction == 1 {
		r.Count("rv/outbound")
	}
	if uint64(o.Rate)*uint64(o.Dur) > 1_000_000_000 {
		r.Count("rv/rate-above-100pct")
	}
	if rv < 0 {
		r.Violate(fmt.Sprintf("negative reserved value %d", rv), "C11/reserve-negative", c)
	}

	// ---- fills: model comparison of the per-batch debit + oracle ----
	if len(c.Fills) == 0 {
		return
	}
	var batches [][]c11Fill
	if c.OneTx {
		// one batch: one price, one fee rate
		fl := make([]c11Fill, len(c.Fills))
		for i, f := range c.Fills {
			f.Price, f.FeeRate = c.Fills[0].Price, c.Fills[0].FeeRate
			if !o.IsBid {
				f.OtherSelf = c.Fills[0].OtherSelf
			}
			fl[i] = f
		}
		batches = [][]c11Fill{fl}
	} else {
		for _, f := range c.Fills {
			batches = append(batches, []c11Fill{f})
		}
	}
	// Go's float->int conversion is only defined below 2^63 (possible for asks at clearing prices far above
	// the ask's rate); the model claims nothing there
	for _, f := range c.Fills {
		base := int64(f.Units)*100000 + f.OtherSelf
		if o.IsBid && o.Auction == 1 {
			base = int64(f.Units)*100000 + o.Self
		}
		var pf float64
		if c11Safe(func() { pf = order.PerBlockPremium(btcutil.Amount(base), f.Price) * float64(o.Dur) }) != "" ||
			pf >= 9223372036854775808.0 {
			r.Count("fills/premium-out-of-int64")
			return
		}
	}
	total := big.NewInt(0)
	nFills := 0
	for bi, b := range batches {
		d, err := c11Debit(o, ours, fs, c.Ver, b)
		if err != nil {
			r.Count("fills/verifier-rejects")
			r.Notes = append(r.Notes, "verifier rejected generated match: "+err.Error())
			return
		}
		total.Add(total, big.NewInt(d))
		nFills += len(b)
		if bi < 3 || c.OneTx { // model comparison of the batch debit (bounded per case)
			us := make([]string, len(b))
			for i, f := range b {
				us[i] = fmt.Sprint(f.Units)
			}
			if len(b) <= 400 {
				r.Emit(fmt.Sprintf("C11 bd %s %d %d %d %d %d %d %s", o.token(), c.BaseFee, c.FeePPM,
					b[0].FeeRate, c.Ver, b[0].Price, b[0].OtherSelf, strings.Join(us, ",")), fmt.Sprint(d))
				r.Count("bd/" + kind)
			}
		}
	}
	if c.Expect == "exceeds" {
		if total.Cmp(new(big.Int).Add(big.NewInt(rv), big.NewInt(2*int64(nFills)))) > 0 {
			r.Count("witness/guard-needed-reproduced")
		} else {
			r.Count("witness/guard-needed-NOT-reproduced")
			r.Notes = append(r.Notes, fmt.Sprintf("guard witness no longer exceeds: debit %v reserved %d", total, rv))
		}
		return
	}
	// the property's quantifier
	if o.MaxFee < int64(chainfee.FeePerKwFloor) {
		// such an order is never admitted (validateOrder); the 2-sat-per-match tolerance needs a non-zero
		// per-match fee, see notes/C11.md
		r.Count("fills/max-fee-below-floor")
		return
	}
	if !o.IsBid && !c11AskGuard(o) {
		r.Count("fills/ask-outside-guard")
		return
	}
	r.Count("fills/oracle/" + kind)
	if c.OneTx {
		r.Count("fills/one-batch")
	}
	r.Distinct(op + fmt.Sprint(c.Fills))
	if fromGen {
		r.Sample(c)
	}
	bound := new(big.Int).Add(big.NewInt(rv), big.NewInt(2*int64(nFills)))
	if total.Cmp(bound) > 0 {
		r.Count("oracle/violation")
		r.Violate(fmt.Sprintf("%s: verified batches debit %v over %d fills but ReservedValue is %d (+%d tolerance)",
			kind, total, nFills, rv, 2*nFills), "C11/reserve-below-debit", c)
	}
}

func c11Out(v int64, panicked bool) string {
	if panicked {
		return "panic"
	}
	return fmt.Sprint(v)
}

// c11Partitions enumerates, for every unit count U <= umax and min match m,
// ALL multisets of fills (each >= m, total <= U), computes the real debit of
// each fill size once through the real verifier tally and checks the property
// for every partition; each fill in its own batch and all fills in one batch.
func c11Partitions(r *Run, umax int) {
	for U := 1; U <= umax; U++ {
		for m := 1; m <= U; m++ {
			reps := 12
			if r.Tier == "thorough" || r.Search {
				reps = 30
			}
			for rep := 0; rep < reps; rep++ {
				o, base, ppm, ver := c11GenOrder(r)
				o.Unfilled, o.MinUnits = uint64(U), uint64(m)
				o.Units = o.Unfilled
				o.Amt = int64(o.Units) * 100000
				o.State = uint8(r.Rng.Intn(3))
				if o.MaxFee < 253 || o.MaxFee > 1e8 {
					o.MaxFee = 253 + int64(r.Rng.Intn(5000))
				}
				if rep%3 == 0 { // adversarial for rounding: no base fee, lowest fee rate
					base, o.MaxFee = 0, 253
				}
				if ppm > 1e6 {
					ppm = 1e6
				}
				if !o.IsBid && !c11AskGuard(o) {
					o.Rate = uint32(r.Rng.Intn(1_000_000_000/int(o.Dur%100000+1) + 1))
					o.Dur = o.Dur%100000 + 1
				}
				if !c11InDomain(o, base, ppm) {
					o.Rate, o.Dur = uint32(1+r.Rng.Intn(5000)), 2016
				}
				if !c11InDomain(o, base, ppm) {
					continue
				}
				ours := o.real(1)
				fs := terms.NewLinearFeeSchedule(btcutil.Amount(base), btcutil.Amount(ppm))
				rv, panicked := c11Reserved(ours, fs, ver)
				r.Emit(fmt.Sprintf("C11 rv %s %d %d %d", o.token(), base, ppm, ver), c11Out(rv, panicked))
				// worst-case price/fee rate and one random admissible price/fee rate
				for variant := 0; variant < 2; variant++ {
					price, fee := o.Rate, o.MaxFee
					if variant == 1 {
						if o.IsBid {
							price = uint32(r.Rng.Int63n(int64(o.Rate) + 1))
						} else {
							price = o.Rate + uint32(r.Rng.Intn(1000))
						}
						fee = r.Rng.Int63n(o.MaxFee + 1)
					}
					d1 := make([]int64, U+1) // debit of a fill of s units in its own batch
					dm := make([]int64, U+1) // match part only (no chain fee)
					ok := true
					for s := m; s <= U; s++ {
						f := c11Fill{Units: uint64(s), Price: price, FeeRate: fee}
						d, err := c11Debit(o, ours, fs, ver, []c11Fill{f})
						if err != nil {
							ok = false
							break
						}
						d1[s] = d
						dm[s] = d - c11TraderFee(1, fee, ver)
						r.Emit(fmt.Sprintf("C11 bd %s %d %d %d %d %d 0 %d", o.token(), base, ppm, fee, ver, price, s),
							fmt.Sprint(d))
					}
					if !ok {
						r.Count("part/verifier-rejects")
						continue
					}
					var rec func(minPart, left int, sum1, sumM int64, parts []int)
					rec = func(minPart, left int, sum1, sumM int64, parts []int) {
						if len(parts) > 0 {
							r.Evaluations++
							r.Count("part/partitions")
							k := len(parts)
							oneTx := sumM + c11TraderFee(uint32(k), fee, ver)
							for which, tot := range []int64{sum1, oneTx} {
								if tot > rv+2*int64(k) {
									fl := make([]c11Fill, k)
									for i, p := range parts {
										fl[i] = c11Fill{Units: uint64(p), Price: price, FeeRate: fee}
									}
									r.Count("oracle/violation")
									r.Violate(fmt.Sprintf("partition %v of %d units (min %d): debit %d > reserved %d + %d",
										parts, U, m, tot, rv, 2*k), "C11/reserve-below-debit",
										c11Case{Kind: "fills", Order: o, BaseFee: base, FeePPM: ppm, Ver: ver, Fills: fl, OneTx: which == 1})
								}
							}
						}
						for p := minPart; p <= left; p++ {
							rec(p, left-p, sum1+d1[p], sumM+dm[p], append(parts, p))
						}
					}
					rec(m, U, 0, 0, nil)
					r.Count("part/param-sets")
					r.Distinct(fmt.Sprintf("part %s %d %d %d %d %d", o.token(), base, ppm, ver, price, fee))
				}
			}
		}
	}
}

// c11GenValidate draws a validateOrder case: stored orders on 3 accounts,
// a new order, and the account balance placed around the acceptance threshold.
func c11GenValidate(r *Run) c11Case {
	gen := func() (c11Order, int64, int64, uint8) {
		for {
			o, b, p, v := c11GenOrder(r)
			if o.Unfilled > 2000 {
				o.Unfilled = uint64(1 + r.Rng.Intn(2000))
				o.MinUnits = 1 + uint64(r.Rng.Int63n(int64(o.Unfilled)))
				o.Units = o.Unfilled
				o.Amt = int64(o.Units) * 100000
			}
			if o.MaxFee > 1e8 {
				o.MaxFee = 1000
			}
			if c11Archived(o.State) || o.MinUnits == 0 || c11InDomain(o, 2000, 10000) {
				return o, b, p, v
			}
		}
	}
	o, _, _, ver := gen()
	base, ppm := int64(r.Rng.Intn(2000)), int64(r.Rng.Intn(10000))
	c := c11Case{Kind: "validate", Order: o, BaseFee: base, FeePPM: ppm, Ver: ver}
	if o.MinUnits == 0 && r.Rng.Intn(3) != 0 {
		c.Order.MinUnits = 1
	}
	// mostly formally valid new orders
	if r.Rng.Intn(10) != 0 && c.Order.MaxFee < 253 {
		c.Order.MaxFee = 253 + int64(r.Rng.Intn(1000))
	}
	if c.Order.IsBid && c.Order.Self > 0 && r.Rng.Intn(4) != 0 {
		// satisfy ValidateSelfChanBalance
		c.Order.Version = 3 + uint32(r.Rng.Intn(3))
		c.Order.MinUnits = c.Order.Units
		c.Order.Unfilled = c.Order.Units
		if c.Order.Units == 0 {
			c.Order.Units, c.Order.Unfilled, c.Order.MinUnits = 5, 5, 5
		}
		c.Order.Amt = int64(c.Order.Units) * 100000
		c.Order.Self = int64(1+r.Rng.Int63n(int64(c.Order.Units))) * 100000
		if c.Order.Auction == 2 {
			c.Order.Auction = 0
		}
	}
	c.Buckets = []uint32{144, 2016, c.Order.Dur}
	if r.Rng.Intn(12) == 0 {
		c.Buckets = []uint32{c.Order.Dur + 1, 2016 + c.Order.Dur}
	}
	nStored := r.Rng.Intn(6)
	for i := 0; i < nStored; i++ {
		s, _, _, _ := gen()
		if s.MinUnits == 0 && r.Rng.Intn(4) != 0 {
			s.MinUnits = 1
		}
		c.Stored = append(c.Stored, s)
	}
	// balance around the threshold of the account's own orders
	fs := terms.NewLinearFeeSchedule(btcutil.Amount(base), btcutil.Amount(ppm))
	sum := int64(0)
	for i, s := range append([]c11Order{c.Order}, c.Stored...) {
		if s.Acct == c.Order.Acct && c11InDomain(s, base, ppm) {
			v, _ := c11Reserved(s.real(100+i), fs, ver)
			if sum+v > sum {
				sum += v
			}
		}
	}
	switch r.Rng.Intn(6) {
	case 0:
		c.Value = sum
	case 1:
		c.Value = sum - 1
	case 2:
		c.Value = sum + int64(r.Rng.Intn(1000))
	case 3:
		c.Value = sum - 1 - int64(r.Rng.Intn(1000))
	case 4:
		c.Value = r.Rng.Int63n(sum + 1)
	default:
		c.Value = sum + r.Rng.Int63n(1_000_000_000)
	}
	if c.Value < 0 {
		c.Value = 0
	}
	return c
}

// c11RunValidate runs the real validateOrder (and PrepareOrder) and the
// property's oracle: accepted only if the balance covers the reserved values
// of that account's active orders incl. the new one; other accounts' orders do
// not count; archived orders reserve nothing.
func c11RunValidate(r *Run, ctx context.Context, c c11Case) {
	o := c.Order
	acct := &account.Account{
		Value:     btcutil.Amount(c.Value),
		Version:   account.Version(c.Ver),
		TraderKey: &keychain.KeyDescriptor{PubKey: c11Keys[o.Acct%len(c11Keys)]},
		State:     account.StateOpen,
	}
	tm := &terms.AuctioneerTerms{
		OrderExecBaseFee:     btcutil.Amount(c.BaseFee),
		OrderExecFeeRate:     btcutil.Amount(c.FeePPM),
		LeaseDurationBuckets: map[uint32]auctioneerrpc.DurationBucketState{},
	}
	for _, b := range c.Buckets {
		tm.LeaseDurationBuckets[b] = auctioneerrpc.DurationBucketState_MARKET_OPEN
	}
	mkStore := func(skipOther bool) *c11Store {
		st := &c11Store{}
		for i, s := range c.Stored {
			if skipOther && s.Acct != o.Acct {
				continue
			}
			st.orders = append(st.orders, s.real(10+i))
		}
		return st
	}
	call := func(st *c11Store, prepare bool) (res string) {
		mgr := order.NewManager(&order.ManagerConfig{
			Store: st, Wallet: test.NewMockWalletKit(), Lightning: test.NewMockLightning(),
			Signer: test.NewMockSigner(), BatchVersion: order.LatestBatchVersion,
		})
		defer func() {
			if p := recover(); p != nil {
				res = "panic"
			}
		}()
		if prepare {
			_, err := mgr.PrepareOrder(ctx, o.real(1), acct, tm)
			return c11Refine(c11ErrEnum(err, false), o, tm)
		}
		return c11Refine(c11ErrEnum(order.VerifC11ValidateOrder(mgr, o.real(1), acct, tm), false), o, tm)
	}
	st := mkStore(false)
	got := call(st, false)
	r.Evaluations++
	r.Count("val/" + strings.SplitN(got, ":", 2)[0])

	// expected line for the model: `ood` when an evaluated order is outside the domain
	fs := terms.NewLinearFeeSchedule(btcutil.Amount(c.BaseFee), btcutil.Amount(c.FeePPM))
	toks := []string{fmt.Sprintf("C11 val %d,%d,%d %d,%d,%s", o.Acct, c.Value, c.Ver, c.BaseFee, c.FeePPM, c11Join(c.Buckets)), o.token()}
	for _, s := range c.Stored {
		toks = append(toks, s.token())
	}
	formal := got == "err-duration" || got == "err-fee-floor" || got == "err-self-chan"
	ood := false
	sum := big.NewInt(0)
	anyPanic := false
	archBad := false
	nSame, nOther, nArch := 0, 0, 0
	for i, s := range append([]c11Order{o}, c.Stored...) {
		if s.Acct != o.Acct {
			nOther++
			continue
		}
		if i > 0 {
			nSame++
		}
		if c11Archived(s.State) {
			nArch++
			// archived orders reserve nothing – whatever their other terms are
			if v, pnk := c11Reserved(s.real(100+i), fs, c.Ver); pnk || v != 0 {
				r.Count("oracle/violation")
				r.Violate(fmt.Sprintf("archived order (state %d, %d units left, min match %d) of the account reserves %s "+
					"instead of nothing", s.State, s.Unfilled, s.MinUnits, c11Out(v, pnk)), "C11/archived-reserve", c)
				archBad = true
			}
			continue
		}
		if s.MinUnits == 0 {
			anyPanic = true
			continue
		}
		if !c11InDomain(s, c.BaseFee, c.FeePPM) {
			ood = true
			continue
		}
		v, _ := c11Reserved(s.real(100+i), fs, c.Ver)
		sum.Add(sum, big.NewInt(v))
	}
	if c.Value >= 1<<62 || sum.BitLen() > 62 {
		ood = true
	}
	exp := got
	if !formal && ood {
		exp = "ood"
	}
	r.Emit(strings.Join(toks, " "), exp)
	if ood || formal {
		if formal {
			return
		}
		r.Count("val/ood")
		return
	}
	// ---- oracle (property text, from the real per-order ReservedValue outputs) ----
	if nOther > 0 {
		r.Count("val/with-other-accounts")
	}
	if nSame > 0 {
		r.Count("val/with-same-account")
	}
	if nArch > 0 {
		r.Count("val/with-archived")
	}
	r.Distinct(strings.Join(toks, " "))
	covered := sum.Cmp(big.NewInt(c.Value)) <= 0
	switch {
	case anyPanic:
		if got != "panic" {
			r.Violate("expected the MinUnitsMatch=0 division panic, got "+got, "C11/validate-panic", c)
		}
		return
	case got == "ok" && !covered:
		r.Count("oracle/violation")
		r.Violate(fmt.Sprintf("order accepted although account value %d < reserved %v of the account's active orders incl. the new one",
			c.Value, sum), "C11/accepted-uncovered", c)
	case got == "err-insufficient" && covered:
		r.Count("oracle/violation")
		r.Violate(fmt.Sprintf("order rejected with ErrInsufficientBalance although account value %d >= reserved %v "+
			"(orders of other accounts must not count)", c.Value, sum), "C11/rejected-covered", c)
	case got == "panic":
		r.Count("oracle/violation")
		r.Violate("validateOrder panicked although every active order of the account has a non-zero minimum match "+
			"(archived orders must reserve nothing)", "C11/validate-panic", c)
		return
	case got != "ok" && got != "err-insufficient":
		r.Violate("unexpected validateOrder result "+got, "C11/validate-unexpected", c)
	}
	_ = archBad
	if got == "ok" {
		r.Count("val/accept")
	} else {
		r.Count("val/reject-insufficient")
	}
	// other accounts' orders are not counted: same verdict without them
	if nOther > 0 {
		if g2 := call(mkStore(true), false); g2 != got {
			r.Count("oracle/violation")
			r.Violate(fmt.Sprintf("verdict %s changes to %s when the orders of other accounts are removed", got, g2),
				"C11/other-accounts-counted", c)
		}
	}
	// the real entry point gives the same verdict and stores the order iff accepted
	if (r.Rng.Intn(3) == 0 || r.ReplayFile != "") && o.Version <= uint32(order.VersionChannelType) {
		st2 := mkStore(false)
		before := len(st2.orders)
		g3 := call(st2, true)
		r.Count("val/prepare-order")
		if g3 != got || (got == "ok") != (len(st2.orders) == before+1) {
			r.Violate(fmt.Sprintf("PrepareOrder: %s (stored %d) vs validateOrder: %s", g3, len(st2.orders)-before, got),
				"C11/prepare-order", c)
		}
	}

	// ---- available balance (MarshallAccountsWithAvailableBalance) ----
	if !anyPanic {
		var accts []*account.Account
		var atok []string
		want := map[int]uint64{}
		for a := 0; a < 3; a++ {
			val := c.Value + int64(a)*1000
			ver := (c.Ver + uint8(a)) % 3
			accts = append(accts, &account.Account{Value: btcutil.Amount(val), Version: account.Version(ver),
				TraderKey: &keychain.KeyDescriptor{PubKey: c11Keys[a]}, State: account.StateOpen})
			atok = append(atok, fmt.Sprintf("%d:%d:%d", a, val, ver))
			s := uint64(0)
			for i, so := range c.Stored {
				if so.Acct == a && !c11Archived(so.State) {
					if so.MinUnits == 0 || !c11InDomain(so, c.BaseFee, c.FeePPM) {
						return
					}
					v, _ := c11Reserved(so.real(200+i), fs, ver)
					s += uint64(v)
				}
			}
			want[a] = uint64(val) - s
		}
		var res []*poolrpc.Account
		var err error
		if pm := c11Safe(func() { res, err = pool.VerifC11AvailableBalances(st.orders, tm, accts) }); pm != "" {
			r.Count("oracle/violation")
			r.Violate("MarshallAccountsWithAvailableBalance panicked ("+pm+") although every active stored order has a "+
				"non-zero minimum match", "C11/available-balance-panic", c)
			return
		}
		if err != nil {
			r.Violate("MarshallAccountsWithAvailableBalance: "+err.Error(), "C11/avail-error", c)
			return
		}
		var outs []string
		for a, ra := range res {
			outs = append(outs, fmt.Sprint(ra.AvailableBalance))
			if ra.AvailableBalance != want[a] {
				r.Count("oracle/violation")
				r.Violate(fmt.Sprintf("account %d: available balance %d, expected value - sum of its own orders' reserves = %d",
					a, ra.AvailableBalance, want[a]), "C11/available-balance", c)
			}
		}
		line := []string{fmt.Sprintf("C11 avail %d %d %s", c.BaseFee, c.FeePPM, strings.Join(atok, ";"))}
		for _, s := range c.Stored {
			line = append(line, s.token())
		}
		r.Emit(strings.Join(line, " "), strings.Join(outs, ","))
		r.Count("avail")
	}
}

func c11Join(b []uint32) string {
	if len(b) == 0 {
		return "-"
	}
	s := make([]string, len(b))
	for i, x := range b {
		s[i] = fmt.Sprint(x)
	}
	sort.Strings(s)
	return strings.Join(s, "/")
}


// ---------------------------------------------------------------- validateOrder while a batch is pending

// c11PStore is the order store of a manager that also verifies batches: GetOrder for the verifier, GetOrders for
// validateOrder. The content is the map the batch case installs.
type c11PStore struct {
	*bStore
}

func (s *c11PStore) GetOrders() ([]order.Order, error) {
	keys := make([]string, 0, len(s.orders))
	for n := range s.orders {
		keys = append(keys, string(n[:]))
	}
	sort.Strings(keys)
	res := make([]order.Order, 0, len(keys))
	for _, k := range keys {
		var n order.Nonce
		copy(n[:], k)
		res = append(res, s.orders[n])
	}
	return res, nil
}

// c11FromStored describes a stored real order by the terms that enter the reserve.
func c11FromStored(o order.Order, acct int) c11Order {
	d := o.Details()
	t := c11Order{IsBid: o.Type() == order.TypeBid, Auction: uint32(d.AuctionType), Version: uint32(d.Version),
		State: uint8(d.State), Rate: d.FixedRate, Amt: int64(d.Amt), Units: uint64(d.Units),
		Unfilled: uint64(d.UnitsUnfulfilled), MinUnits: uint64(d.MinUnitsMatch), MaxFee: int64(d.MaxBatchFeeRate),
		Dur: d.LeaseDuration, Acct: acct}
	if b, ok := o.(*order.Bid); ok {
		t.Self = int64(b.SelfChanBalance)
	}
	return t
}

// c11PendingSession installs the batch case into fresh stores and returns a started real manager over them.
func c11PendingSession(p *bCase) (*bSession, *c11PStore, error) {
	bs := &bStore{orders: map[order.Nonce]order.Order{}}
	as := &bAcctStore{accts: map[[33]byte]*account.Account{}}
	st := &c11PStore{bStore: bs}
	ln := test.NewMockLightning()
	ln.NodePubkey = bKeyHex(bKeyNodeOurs)
	mgr := order.NewManager(&order.ManagerConfig{
		Store: st, AcctStore: as, Lightning: ln, Wallet: &bWallet{}, Signer: test.NewMockSigner(),
		BatchVersion: order.BatchVersion(p.Env.Version),
	})
	if err := mgr.Start(); err != nil {
		return nil, nil, err
	}
	sess := &bSession{mgr: mgr, store: bs, accts: as, version: p.Env.Version}
	if err := p.install(sess); err != nil {
		mgr.Stop()
		return nil, nil, err
	}
	return sess, st, nil
}

// c11GenValidatePending: an honest batch proposal, a new order on the account of one of the matched orders, and
// the balance placed around the threshold of that account's stored orders.
func c11GenValidatePending(r *Run, g *bGen, i int) c11Case {
	base := c11GenValidate(r)
	c := c11Case{Kind: "validate-pending", Order: base.Order, BaseFee: base.BaseFee, FeePPM: base.FeePPM,
		Ver: base.Ver, Buckets: base.Buckets}
	p := g.genCase(g.pickVersion(), i)
	for try := 0; try < 6 && len(p.Devs) > 0; try++ { // prefer proposals without a seeded deviation
		p = g.genCase(g.pickVersion(), i)
	}
	c.Pending = p
	if len(p.Env.Orders) == 0 || len(p.Env.Accounts) == 0 {
		return c
	}
	// the account of a matched order
	want := p.Env.Orders[r.Rng.Intn(len(p.Env.Orders))].AcctKey
	for a := range p.Env.Accounts {
		if p.Env.Accounts[a].Key == want {
			c.Order.Acct = a
		}
	}
	// threshold from the terms of the stored orders (NewKit defaults as installed by the batch case)
	fs := terms.NewLinearFeeSchedule(btcutil.Amount(c.BaseFee), btcutil.Amount(c.FeePPM))
	sum := int64(0)
	if c11InDomain(c.Order, c.BaseFee, c.FeePPM) && !c11Archived(c.Order.State) && c.Order.MinUnits > 0 {
		v, _ := c11Reserved(c.Order.real(1), fs, c.Ver)
		sum += v
	}
	seen := map[string]bool{}
	for _, o := range p.Env.Orders {
		if seen[o.Nonce] || o.AcctKey != want {
			continue
		}
		seen[o.Nonce] = true
		t := c11Order{IsBid: !o.IsAsk, Auction: o.AuctionType, Version: 2, Rate: o.Rate, Unfilled: o.UnitsUnfulfilled,
			Units: o.UnitsUnfulfilled, MinUnits: o.MinUnitsMatch, Dur: o.Duration, Self: o.SelfChanBalance}
		if t.MinUnits > 0 && c11InDomain(t, c.BaseFee, c.FeePPM) {
			v, _ := c11Reserved(t.real(2), fs, c.Ver)
			sum += v
		}
	}
	switch r.Rng.Intn(6) {
	case 0:
		c.Value = sum
	case 1:
		c.Value = sum - 1
	case 2:
		c.Value = sum + int64(r.Rng.Intn(1000))
	case 3:
		c.Value = sum - 1 - int64(r.Rng.Intn(1000))
	case 4:
		c.Value = r.Rng.Int63n(sum + 1)
	default:
		c.Value = sum + r.Rng.Int63n(1_000_000_000)
	}
	if c.Value < 0 {
		c.Value = 0
	}
	return c
}

// c11RunValidatePending: the stores hold the orders/accounts of an honest batch proposal; the new order is validated
// once before and once after the real OrderMatchValidate accepted the proposal (the manager then has a pending
// batch; nothing is written to accounts or orders before BatchFinalize). Oracle: accepted only if the balance
// covers the reserved values of all of the account's stored active orders incl. the new one – matched in the pending
// batch or not – and the verdict does not depend on the pending batch.
func c11RunValidatePending(r *Run, c c11Case) {
	p := c.Pending
	if p == nil || len(p.Env.Accounts) == 0 {
		return
	}
	sess, st, err := c11PendingSession(p)
	if err != nil {
		r.Count("valp/install-failed")
		return
	}
	mgr := sess.mgr
	defer mgr.Stop()
	o := c.Order
	ai := o.Acct % len(p.Env.Accounts)
	acctKey, err := bParseKey(p.Env.Accounts[ai].Key)
	if err != nil {
		return
	}
	acct := &account.Account{
		Value: btcutil.Amount(c.Value), Version: account.Version(c.Ver),
		TraderKey: &keychain.KeyDescriptor{PubKey: acctKey}, State: account.StateOpen,
	}
	tm := &terms.AuctioneerTerms{
		OrderExecBaseFee: btcutil.Amount(c.BaseFee), OrderExecFeeRate: btcutil.Amount(c.FeePPM),
		LeaseDurationBuckets: map[uint32]auctioneerrpc.DurationBucketState{},
	}
	for _, b := range c.Buckets {
		tm.LeaseDurationBuckets[b] = auctioneerrpc.DurationBucketState_MARKET_OPEN
	}
	validate := func() (res string) {
		if pm := c11Safe(func() {
			res = c11Refine(c11ErrEnum(order.VerifC11ValidateOrder(mgr.(order.Manager), o.real(1), acct, tm), false), o, tm)
		}); pm != "" {
			return "panic"
		}
		return res
	}
	before := validate()

	// the real OrderMatchValidate (real batchVerifier.Verify) must accept the proposal
	var batch *order.Batch
	var verr error
	if pm := c11Safe(func() {
		batch, verr = order.ParseRPCBatch(p.prepareMsg())
		if verr == nil {
			verr = mgr.OrderMatchValidate(batch, p.Best)
		}
	}); pm != "" || verr != nil || !mgr.HasPendingBatch() {
		r.Count("valp/batch-not-accepted")
		if verr != nil {
			r.Count("valp/batch-not-accepted/" + strings.SplitN(bClassify(verr), ":", 2)[0])
		}
		return
	}
	got := validate()
	r.Evaluations++
	r.Count("valp/" + strings.SplitN(got, ":", 2)[0])

	// stored orders in store order, described by their terms; the oracle uses the real objects
	acctIdx := map[[33]byte]int{}
	for a := range p.Env.Accounts {
		acctIdx[bHex33(p.Env.Accounts[a].Key)] = a
	}
	stored, _ := st.GetOrders()
	fs := terms.NewLinearFeeSchedule(btcutil.Amount(c.BaseFee), btcutil.Amount(c.FeePPM))
	toks := []string{fmt.Sprintf("C11 val %d,%d,%d %d,%d,%s", ai, c.Value, c.Ver, c.BaseFee, c.FeePPM, c11Join(c.Buckets))}
	oTok := o
	oTok.Acct = ai
	toks = append(toks, oTok.token())
	formal := got == "err-duration" || got == "err-fee-floor" || got == "err-self-chan"
	ood, anyPanic := false, false
	sum := big.NewInt(0)
	nMatched := 0
	add := func(t c11Order, real order.Order) {
		if c11Archived(t.State) {
			return
		}
		if t.MinUnits == 0 {
			anyPanic = true
			return
		}
		if !c11InDomain(t, c.BaseFee, c.FeePPM) {
			ood = true
			return
		}
		v, _ := c11Reserved(real, fs, c.Ver)
		sum.Add(sum, big.NewInt(v))
	}
	add(oTok, o.real(1))
	for _, so := range stored {
		idx, ok := acctIdx[so.Details().AcctKey]
		if !ok {
			idx = 9
		}
		t := c11FromStored(so, idx)
		if t.Amt < 0 || t.Self < 0 || t.MaxFee < 0 {
			// terms the model's line format (non-negative decimals) cannot carry: outside the domain anyway
			r.Count("valp/skip-negative-terms")
			return
		}
		toks = append(toks, t.token())
		if idx != ai {
			continue
		}
		add(t, so)
		if _, m := batch.MatchedOrders[so.Nonce()]; m && !c11Archived(t.State) {
			nMatched++
		}
	}
	if c.Value >= 1<<62 || sum.BitLen() > 62 {
		ood = true
	}
	exp := got
	if !formal && ood {
		exp = "ood"
	}
	r.Emit(strings.Join(toks, " "), exp)
	if formal || ood || anyPanic {
		return
	}
	r.Count("valp/oracle")
	if nMatched > 0 {
		r.Count("valp/account-has-orders-in-pending-batch")
	}
	r.Distinct(strings.Join(toks, " "))
	covered := sum.Cmp(big.NewInt(c.Value)) <= 0
	switch {
	case got == "ok" && !covered:
		r.Count("oracle/violation")
		r.Violate(fmt.Sprintf("while a batch is pending (%d of the account's orders matched in it, nothing finalized): order "+
			"accepted although account value %d < reserved %v of the account's active orders incl. the new one",
			nMatched, c.Value, sum), "C11/accepted-uncovered-pending-batch", c)
	case got == "err-insufficient" && covered:
		r.Count("oracle/violation")
		r.Violate(fmt.Sprintf("while a batch is pending: order rejected although account value %d >= reserved %v",
			c.Value, sum), "C11/rejected-covered-pending-batch", c)
	case got != "ok" && got != "err-insufficient":
		r.Count("oracle/violation")
		r.Violate("unexpected validateOrder result while a batch is pending: "+got, "C11/validate-unexpected", c)
	}
	if got == "ok" {
		r.Count("valp/accept")
	} else if got == "err-insufficient" {
		r.Count("valp/reject-insufficient")
	}
	if before != got {
		r.Count("oracle/violation")
		r.Violate(fmt.Sprintf("verdict %s before the batch was accepted, %s while it is pending – stored orders and the "+
			"account only change at BatchFinalize", before, got), "C11/pending-batch-changes-verdict", c)
	}
}


// c11BeyondGuard probes bids whose premium is far above 2^48 sat (outside the domain of the theorems, inside int64):
// there the accumulated float rounding can exceed the two-satoshi tolerance. Nothing is reported; the counts document
// that the premium guard of the theorems is not an artefact.
func c11BeyondGuard(r *Run, n int) {
	for i := 0; i < n; i++ {
		var o c11Order
		o.IsBid = true
		o.Version, o.State = 2, 0
		o.MinUnits = 1000 + uint64(r.Rng.Intn(100000))
		o.Unfilled = o.MinUnits * uint64(3+2*r.Rng.Intn(3))
		o.Units, o.Amt = o.Unfilled, int64(o.Unfilled)*100000
		o.MaxFee = 253
		o.Rate = uint32(1_000_000_000 + r.Rng.Intn(3_000_000_000))
		// premium of the whole order between 2^53 and 2^61
		target := new(big.Int).Lsh(big.NewInt(1), uint(55+r.Rng.Intn(8)))
		target.Mul(target, big.NewInt(1_000_000_000))
		target.Quo(target, big.NewInt(o.Amt))
		target.Quo(target, big.NewInt(int64(o.Rate)))
		if !target.IsInt64() || target.Int64() < 1 || target.Int64() > math.MaxUint32 {
			continue
		}
		o.Dur = uint32(target.Int64())
		fs := terms.NewLinearFeeSchedule(0, 0)
		ours := o.real(1)
		rv, pnk := c11Reserved(ours, fs, 0)
		if pnk {
			continue
		}
		one, err := c11Debit(o, ours, fs, 0, []c11Fill{{Units: o.Unfilled, Price: o.Rate, FeeRate: 253}})
		if err != nil {
			continue
		}
		r.Count("info/beyond-guard")
		if one > rv+2 {
			r.Count("info/beyond-guard/single-fill-exceeds-reserve+2")
			if len(r.Notes) < 3 {
				r.Notes = append(r.Notes, fmt.Sprintf("beyond premium guard: %s single fill debit %d > reserved %d + 2", o.token(), one, rv))
			}
		}
	}
}


// ---------------------------------------------------------------- debit of batches accepted by the real verifier

// c11MatchedUnits sums, per nonce, the units a proposal matches (nil if a nonce occurs in two markets).
func c11MatchedUnits(p *bCase) map[string]uint64 {
	res := map[string]uint64{}
	for _, mk := range p.Msg.Markets {
		for _, mo := range mk.Orders {
			if _, dup := res[mo.Nonce]; dup {
				return nil
			}
			t := uint64(0)
			for _, a := range mo.Asks {
				t += uint64(a.UnitsFilled)
			}
			for _, b := range mo.Bids {
				t += uint64(b.UnitsFilled)
			}
			res[mo.Nonce] = t
		}
	}
	return res
}

// c11GenVerifiedBatch: an honest proposal of the batch generator whose own orders are, as a regular part of the
// stream, orders that earlier batches already filled partially (original size > remaining units). In ~40 % of the
// cases one matched order has FEWER units left than the proposal matches (but not fewer than ... its original size
// allows): a verifier that accepts such a batch lets it debit more than the order reserves.
func c11GenVerifiedBatch(r *Run, g *bGen, i int) c11Case {
	p := g.genCase(g.pickVersion(), i)
	for try := 0; try < 6 && len(p.Devs) > 0; try++ {
		p = g.genCase(g.pickVersion(), i)
	}
	c := c11Case{Kind: "verified-batch", Pending: p, FeeBump: int64(r.Rng.Intn(3)) * int64(r.Rng.Intn(5000))}
	matched := c11MatchedUnits(p)
	if matched == nil {
		return c
	}
	// earlier partial fills: original size above the remaining units
	for k := range p.Env.Orders {
		o := &p.Env.Orders[k]
		if r.Rng.Intn(2) == 0 {
			o.Units = o.UnitsUnfulfilled + uint64(1+r.Rng.Intn(20))
		}
	}
	if r.Rng.Intn(10) < 4 && len(p.Env.Orders) > 0 {
		o := &p.Env.Orders[r.Rng.Intn(len(p.Env.Orders))]
		if t := matched[o.Nonce]; t >= 2 {
			orig := o.UnitsUnfulfilled
			if o.Units > orig {
				orig = o.Units
			}
			if orig < t {
				orig = t
			}
			switch r.Rng.Intn(3) {
			case 0:
				o.UnitsUnfulfilled = t - 1 // boundary: one unit short
			case 1:
				o.UnitsUnfulfilled = 1 + uint64(r.Rng.Int63n(int64(t-1)))
			default:
				o.UnitsUnfulfilled = (t + 1) / 2
			}
			o.Units = orig + uint64(r.Rng.Intn(2))*uint64(r.Rng.Intn(10))
			c.Note = "matched beyond the remaining units of a partially filled order"
		}
	}
	return c
}

// c11RunVerifiedBatch installs the proposal, raises the stored orders' MaxBatchFeeRate to at least the proposal's fee
// rate (the property's quantifier), runs the real OrderMatchValidate (real batchVerifier.Verify) and, if the batch is
// ACCEPTED, evaluates the property on what it debits: per account, starting balance minus the verified ending balance
// must not exceed the reserved values of the account's matched orders plus two satoshis per match, and no order may be
// matched for more units than it has left.
func c11RunVerifiedBatch(r *Run, c c11Case) {
	p := c.Pending
	if p == nil || len(p.Env.Accounts) == 0 {
		return
	}
	sess, st, err := c11PendingSession(p)
	if err != nil {
		r.Count("vb/install-failed")
		return
	}
	defer sess.mgr.Stop()
	overfill := false
	matchedUnits := c11MatchedUnits(p)
	for _, so := range st.orders {
		d := so.Details()
		d.MaxBatchFeeRate = chainfee.SatPerKWeight(int64(p.Msg.FeeRate) + c.FeeBump)
		if d.MaxBatchFeeRate < chainfee.FeePerKwFloor {
			d.MaxBatchFeeRate = chainfee.FeePerKwFloor
		}
		if d.Units > d.UnitsUnfulfilled {
			d.State = order.StatePartiallyFilled
			r.Count("vb/stored-partially-filled")
		}
		n := so.Nonce()
		if matchedUnits != nil && matchedUnits[hex.EncodeToString(n[:])] > uint64(d.UnitsUnfulfilled) {
			overfill = true
		}
	}
	var batch *order.Batch
	var verr error
	if pm := c11Safe(func() {
		batch, verr = order.ParseRPCBatch(p.prepareMsg())
		if verr == nil {
			verr = sess.mgr.OrderMatchValidate(batch, p.Best)
		}
	}); pm != "" {
		r.Count("vb/panic")
		return
	}
	r.Evaluations++
	if overfill {
		r.Count("vb/proposal-beyond-remaining-units")
	}
	// model comparison of the verifier's unit checks: a proposal the generator left undisturbed is accepted only
	// if every matched order passes them (outcome only – no error text)
	if len(p.Devs) == 0 && matchedUnits != nil && batch != nil {
		var toks []string
		okTerms := true
		for _, o := range p.Env.Orders {
			var n order.Nonce
			nb, _ := hex.DecodeString(o.Nonce)
			copy(n[:], nb)
			so, ok := st.orders[n]
			u, m := matchedUnits[o.Nonce]
			if !ok || !m {
				continue
			}
			t := c11FromStored(so, 0)
			if t.Amt < 0 || t.Self < 0 {
				okTerms = false
			}
			toks = append(toks, t.token(), fmt.Sprint(u))
		}
		// only for accepted batches: a rejection can have other reasons, which must not be read from error texts
		if okTerms && len(toks) > 0 && len(toks) == 2*len(matchedUnits) && verr == nil {
			r.Emit("C11 vu "+strings.Join(toks, " "), "ok")
			r.Count("vb/vu-ok")
		}
	}
	if verr != nil || batch == nil {
		r.Count("vb/rejected")
		if overfill {
			r.Count("vb/beyond-remaining-units-rejected")
		}
		return
	}
	r.Count("vb/accepted")
	fs := batch.ExecutionFee
	base, ppm := int64(p.Msg.ExecBase), int64(p.Msg.ExecRate)
	acctIdx := map[[33]byte]int{}
	for a := range p.Env.Accounts {
		acctIdx[bHex33(p.Env.Accounts[a].Key)] = a
	}
	for _, diff := range batch.AccountDiffs {
		acct, ok := sess.accts.accts[diff.AccountKeyRaw]
		if !ok {
			continue
		}
		reserved := big.NewInt(0)
		k := 0
		inside := true
		var lines [][2]string
		var over string
		for nonce, ms := range batch.MatchedOrders {
			so, ok := st.orders[nonce]
			if !ok || so.Details().AcctKey != diff.AccountKeyRaw {
				continue
			}
			t := c11FromStored(so, acctIdx[diff.AccountKeyRaw])
			total := uint64(0)
			for _, m := range ms {
				total += uint64(m.UnitsFilled)
				if uint64(m.UnitsFilled) < t.MinUnits {
					inside = false // a fill below the minimum match: outside the property's quantifier
				}
			}
			if c11Archived(t.State) || t.MinUnits == 0 || t.Amt < 0 || !c11InDomain(t, base, ppm) ||
				(!t.IsBid && !c11AskGuard(t)) || t.MaxFee < int64(batch.BatchTxFeeRate) {
				inside = false
			}
			if !inside {
				break
			}
			if total > t.Unfilled {
				over = fmt.Sprintf("order %x… with %d of %d units left is matched for %d units", nonce[:4], t.Unfilled, t.Units, total)
			}
			rv, pnk := c11Reserved(so, fs, uint8(acct.Version))
			if pnk {
				inside = false
				break
			}
			reserved.Add(reserved, big.NewInt(rv))
			k += len(ms)
			lines = append(lines, [2]string{fmt.Sprintf("C11 rv %s %d %d %d", t.token(), base, ppm, uint8(acct.Version)), fmt.Sprint(rv)})
		}
		if !inside || k == 0 {
			r.Count("vb/account-outside-quantifier")
			continue
		}
		sort.Slice(lines, func(i, j int) bool { return lines[i][0] < lines[j][0] })
		for _, l := range lines {
			r.Emit(l[0], l[1])
		}
		r.Count("vb/oracle")
		r.Distinct(fmt.Sprint(lines))
		debit := int64(acct.Value) - int64(diff.EndingBalance)
		bound := new(big.Int).Add(reserved, big.NewInt(2*int64(k)))
		if big.NewInt(debit).Cmp(bound) > 0 {
			r.Count("oracle/violation")
			what := fmt.Sprintf("a batch accepted by the real verifier debits %d from account %x… (balance %d -> %d) but the "+
				"%d matched order(s) of the account reserve only %v (+%d tolerance)", debit, diff.AccountKeyRaw[:4],
				int64(acct.Value), int64(diff.EndingBalance), len(lines), reserved, 2*k)
			if over != "" {
				what += "; " + over
			}
			r.Violate(what, "C11/verified-batch-debits-more-than-reserved", c)
			return
		}
		if over != "" {
			r.Count("oracle/violation")
			r.Violate("accepted batch fills more than remains: "+over+" (the reserve only covers the remaining units)",
				"C11/verified-overfill", c)
			return
		}
	}
}
