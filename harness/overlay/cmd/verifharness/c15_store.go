//go:build verif

package main

// C15, ticket store part (clientdb/sidecar.go): update HISTORIES on the same
// (id, offer key) with parts added and removed between writes, read back via
// Sidecar / SidecarsByID / Sidecars after each write, with close / reopen.
// Oracle (independent of the model): what is read is what was written last.

import (
	"bytes"
	"errors"
	"fmt"
	"os"
	"sort"
	"strings"

	"github.com/btcsuite/btcd/btcec/v2"
	"github.com/lightninglabs/pool/clientdb"
	"github.com/lightninglabs/pool/order"
	"github.com/lightninglabs/pool/sidecar"
)

func c15StoreErr(err error) string {
	switch {
	case err == nil:
		return "ok -"
	case errors.Is(err, clientdb.ErrNoSidecar):
		return "err nosidecar"
	}
	// refused write (no offer key / key occupied) or codec error: no
	// sentinel, one class
	return "err refused"
}

func c15FmtTickets(ts []*sidecar.Ticket) string {
	if len(ts) == 0 {
		return "-"
	}
	var s []string
	for _, t := range ts {
		s = append(s, decFmtTicket(t))
	}
	return strings.Join(s, "|")
}

// c15WFTicket: a random well-formed ticket (signature objects as a signer
// produces them), the domain of the read-equals-written oracle.
func c15WFTicket(r *Run) *sidecar.Ticket {
	for {
		if t, wf := decRandTicket(r.Rng, func(string) {}); wf {
			return t
		}
	}
}

// c15Vary derives the next version of a ticket for the same key: parts are
// added and removed, state and signatures change; ID and offer key stay.
func c15Vary(r *Run, prev *sidecar.Ticket) *sidecar.Ticket {
	rng := r.Rng
	t := c15WFTicket(r)
	t.ID = prev.ID
	t.Offer.SignPubKey = prev.Offer.SignPubKey
	// keep some parts of the previous version, drop / replace others
	if rng.Intn(2) == 0 {
		t.Recipient = prev.Recipient
	}
	if rng.Intn(2) == 0 {
		t.Order = prev.Order
	}
	switch rng.Intn(3) {
	case 0:
		t.Execution = prev.Execution
	case 1:
		t.Execution = nil
	}
	// updates into a terminal state (completed / canceled) keep the order
	// part, so that a bid template stored with the ticket is cleaned up
	if prev.Order != nil && rng.Intn(3) == 0 {
		t.Order = prev.Order
		t.State = []sidecar.State{sidecar.StateCompleted, sidecar.StateCanceled}[rng.Intn(2)]
		r.Count("store/terminal-update")
	}
	switch {
	case prev.Execution != nil && t.Execution == nil:
		r.Count("store/execution-removed")
	case prev.Execution == nil && t.Execution != nil:
		r.Count("store/execution-added")
	}
	switch {
	case prev.Recipient != nil && t.Recipient == nil:
		r.Count("store/recipient-removed")
	case prev.Order != nil && t.Order == nil:
		r.Count("store/order-removed")
	}
	return t
}

// c15StoreStep is one step of a store history (also the replay format).
type c15StoreStep struct {
	Op  string `json:"op"`            // add | addbid | upd | reopen
	Hex string `json:"hex,omitempty"` // binary form of the ticket
	// NoKey: the ticket is written without its offer sign key (refused)
	NoKey bool `json:"nokey,omitempty"`
	// Nonce (addbid): nonce of the bid whose template is stored with the ticket
	Nonce string `json:"nonce,omitempty"`
}

// c15MakeBid builds a storable bid with the given nonce.
func c15MakeBid(nonce order.Nonce) *order.Bid {
	kit := order.NewKit(nonce)
	kit.Version = order.VersionSidecarChannel
	kit.State = order.StateSubmitted
	kit.FixedRate = 100
	kit.Amt = 1_000_000
	kit.Units = order.NewSupplyFromSats(kit.Amt)
	kit.UnitsUnfulfilled = kit.Units
	kit.MinUnitsMatch = 1
	kit.MaxBatchFeeRate = 253
	kit.LeaseDuration = 2016
	kit.ChannelType = order.ChannelTypeScriptEnforced
	return &order.Bid{Kit: *kit}
}

// c15StoreGen generates one history: two ids x two offer keys, 6-13 writes.
func c15StoreGen(r *Run) []c15StoreStep {
	rng := r.Rng
	keys := []*btcec.PublicKey{decRandKey(rng), decRandKey(rng)}
	var ids [2][8]byte
	rng.Read(ids[0][:])
	rng.Read(ids[1][:])
	cur := map[string]*sidecar.Ticket{}
	var steps []c15StoreStep
	bin := func(t *sidecar.Ticket) string {
		var buf bytes.Buffer
		if err := sidecar.SerializeTicket(&buf, t); err != nil {
			panic(err)
		}
		return decHex(buf.Bytes())
	}
	for s, n := 0, 6+rng.Intn(8); s < n; s++ {
		id := ids[rng.Intn(2)]
		key := keys[rng.Intn(2)]
		k := decHex(id[:]) + "|" + decPk(key)
		prev := cur[k]
		var t *sidecar.Ticket
		if prev == nil {
			t = c15WFTicket(r)
			t.ID = id
			t.Offer.SignPubKey = key
			if rng.Intn(4) > 0 && t.Execution == nil {
				t.Execution = &sidecar.Execution{PendingChannelID: [32]byte{byte(s), 1}}
			}
		} else {
			t = c15Vary(r, prev)
		}
		op := "upd"
		switch {
		case prev == nil && rng.Intn(8) > 0:
			op = "add"
			if rng.Intn(3) == 0 {
				op = "addbid" // ticket stored together with a bid template
			}
		case prev != nil && rng.Intn(10) == 0:
			op = "add" // refused: exists
		}
		nonceHex := ""
		if op == "addbid" {
			var n order.Nonce
			rng.Read(n[:])
			nonceHex = decHex(n[:])
			// what the store keeps: the order part is replaced
			t.Order = &sidecar.Order{BidNonce: n}
		}
		if rng.Intn(12) == 0 {
			steps = append(steps, c15StoreStep{Op: op, Hex: bin(t), NoKey: true, Nonce: nonceHex})
		}
		steps = append(steps, c15StoreStep{Op: op, Hex: bin(t), Nonce: nonceHex})
		if (op != "upd") == (prev == nil) {
			cur[k] = t // the write succeeds
		}
		if rng.Intn(6) == 0 {
			steps = append(steps, c15StoreStep{Op: "reopen"})
		}
	}
	return steps
}

// c15StoreExec runs a history on a fresh real database, emits every operation
// for the model and evaluates the oracle after every step.
func c15StoreExec(r *Run, steps []c15StoreStep) {
	rng := r.Rng
	dir, err := os.MkdirTemp("", "decode-c15s-")
	if err != nil {
		r.Notes = append(r.Notes, "no scratch dir: "+err.Error())
		return
	}
	defer os.RemoveAll(dir)
	db, err := clientdb.New(dir, clientdb.DBFilename)
	if err != nil {
		r.Violate("scratch clientdb cannot be opened: "+err.Error(), "C15/db-setup", nil)
		return
	}
	defer func() { db.Close() }()
	r.Emit("C15 sdb reset", "ok")

	var hist []string
	last := map[string]*sidecar.Ticket{} // key (id|pubkey) -> last written
	keyOf := func(t *sidecar.Ticket) string {
		return decHex(t.ID[:]) + "|" + decPk(t.Offer.SignPubKey)
	}
	bad := func(what string) {
		r.Count("oracle/violation")
		r.Violate("ticket store: "+what+" (history: "+strings.Join(hist, " ; ")+")", "C15/ticket-store",
			map[string]interface{}{"kind": "store", "steps": steps})
	}
	emit := func(op, out string) {
		if i := strings.IndexByte(op, ' '); i > 0 && len(op) > 60 {
			hist = append(hist, op[:i]+" "+op[i+1:i+17]+"… => "+strings.Fields(out)[0])
		} else {
			hist = append(hist, op+" => "+strings.Fields(out)[0])
		}
		r.Emit("C15 sdb "+op, out)
	}
	// reads + oracle after a write of t
	readBack := func(t *sidecar.Ticket) bool {
		id := t.ID
		got, err := db.Sidecar(id, t.Offer.SignPubKey)
		out := "ok "
		if err != nil {
			out = c15StoreErr(err)
		} else {
			out += decFmtTicket(got)
		}
		emit("get "+decHex(id[:])+" "+decPk(t.Offer.SignPubKey), out)
		want := last[keyOf(t)]
		if want != nil && (err != nil || decFmtTicket(got) != decFmtTicket(want)) {
			bad(fmt.Sprintf("Sidecar(%x, key) returns %s, last written was %s", id, out, decFmtTicket(want)))
			return false
		}
		byID, err := db.SidecarsByID(id)
		out = "ok " + c15FmtTickets(byID)
		if err != nil {
			out = c15StoreErr(err)
		}
		emit("byid "+decHex(id[:]), out)
		var wantByID []string
		for k, w := range last {
			if strings.HasPrefix(k, decHex(id[:])+"|") {
				wantByID = append(wantByID, decFmtTicket(w))
			}
		}
		var gotByID []string
		for _, g := range byID {
			gotByID = append(gotByID, decFmtTicket(g))
		}
		sort.Strings(wantByID)
		sort.Strings(gotByID)
		if err != nil || strings.Join(wantByID, "|") != strings.Join(gotByID, "|") {
			bad(fmt.Sprintf("SidecarsByID(%x) does not return the tickets last written for that id", id))
			return false
		}
		if rng.Intn(3) == 0 {
			all, err := db.Sidecars()
			out = "ok " + c15FmtTickets(all)
			if err != nil {
				out = c15StoreErr(err)
			}
			emit("all", out)
			var wantAll, gotAll []string
			for _, w := range last {
				wantAll = append(wantAll, decFmtTicket(w))
			}
			for _, g := range all {
				gotAll = append(gotAll, decFmtTicket(g))
			}
			sort.Strings(wantAll)
			sort.Strings(gotAll)
			if err != nil || strings.Join(wantAll, "|") != strings.Join(gotAll, "|") {
				bad("Sidecars() does not return exactly the tickets last written")
				return false
			}
		}
		return true
	}

	var lastT *sidecar.Ticket
	for _, st := range steps {
		if st.Op == "reopen" {
			db.Close()
			db, err = clientdb.New(dir, clientdb.DBFilename)
			if err != nil {
				bad("reopen failed: " + err.Error())
				return
			}
			r.Count("store/reopen")
			if lastT != nil && !readBack(lastT) {
				return
			}
			continue
		}
		t, err := sidecar.DeserializeTicket(bytes.NewReader(decUnhex(st.Hex)))
		if err != nil {
			continue
		}
		if st.NoKey {
			t.Offer.SignPubKey = nil
		}
		opLine := st.Op + " " + decFmtTicket(t)
		switch st.Op {
		case "add":
			err = db.AddSidecar(t)
		case "addbid":
			var n order.Nonce
			copy(n[:], decUnhex(st.Nonce))
			opLine += " " + decHex(n[:])
			err = db.AddSidecarWithBid(t, c15MakeBid(n)) // replaces t.Order
			if err == nil {
				r.Count("store/addbid=ok")
				if tpl, terr := db.SidecarBidTemplate(t); terr != nil || tpl == nil {
					bad("the bid template stored with AddSidecarWithBid cannot be read back")
					return
				}
			}
		default:
			err = db.UpdateSidecar(t)
			if err == nil && t.State.IsTerminal() && t.Order != nil {
				r.Count("store/terminal-update-ok")
			}
		}
		emit(opLine, c15StoreErr(err))
		r.Count("store/" + st.Op + "=" + strings.Fields(c15StoreErr(err))[0])
		if st.NoKey {
			continue
		}
		if err == nil {
			last[keyOf(t)] = t
		}
		lastT = t
		if !readBack(t) {
			return
		}
	}
	r.Evaluations++
	r.Count("store/history-ok")
}
