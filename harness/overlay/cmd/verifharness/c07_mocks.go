//go:build verif

package main

import (
	"bytes"
	"context"
	"errors"
	"fmt"
	"sync"

	"github.com/btcsuite/btcd/btcec/v2"
	"github.com/btcsuite/btcd/btcec/v2/schnorr"
	"github.com/btcsuite/btcd/btcutil"
	"github.com/btcsuite/btcd/btcutil/psbt"
	"github.com/btcsuite/btcd/chaincfg"
	"github.com/btcsuite/btcd/chaincfg/chainhash"
	"github.com/btcsuite/btcd/txscript"
	"github.com/btcsuite/btcd/wire"
	"github.com/btcsuite/btcwallet/wtxmgr"
	"github.com/lightninglabs/lndclient"
	"github.com/lightninglabs/pool/account"
	"github.com/lightninglabs/pool/terms"
	"github.com/lightningnetwork/lnd/input"
	"github.com/lightningnetwork/lnd/keychain"
	"github.com/lightningnetwork/lnd/lnrpc"
	"github.com/lightningnetwork/lnd/lnrpc/walletrpc"
	"github.com/lightningnetwork/lnd/lnwallet/chainfee"
)

// A slim re-implementation of account/mock_test.go (which is not importable)
// that additionally records, in program order, everything that leaves the
// manager: ModifyAccount requests, store writes and published transactions.

type c07Event struct {
	kind string // "M", "S", "P"

	// M
	inputs   []*wire.TxIn
	outputs  []*wire.TxOut
	modified *account.Account // nil for a close

	// S
	stored *account.Account

	// P
	tx *wire.MsgTx
}

type c07World struct {
	mu     sync.Mutex
	events []c07Event

	failAuct, failStore, failPublish, failTerms bool

	acct     account.Account
	maxValue btcutil.Amount

	// lastFault names the collaborator call that returned an injected fault
	// (the refusal class is "which call failed", never an error text)
	lastFault string

	fundHook func(*psbt.Packet) (*psbt.Packet, int32, bool)
	fundFail bool
	fundReq  *walletrpc.FundPsbtRequest
	released int

	// input leases handed out by FundPsbt and the releases observed
	leases   []*walletrpc.UtxoLease
	releases []string // "<lockid hex>@<outpoint>"

	walletWKH, walletTR btcutil.Address
}

func (w *c07World) add(e c07Event) {
	w.mu.Lock()
	w.events = append(w.events, e)
	w.mu.Unlock()
}

// ---- store -----------------------------------------------------------------

type c07Store struct {
	account.Store
	w *c07World
}

func (s *c07Store) Account(*btcec.PublicKey) (*account.Account, error) {
	a := s.w.acct
	return &a, nil
}

func (s *c07Store) UpdateAccount(a *account.Account,
	modifiers ...account.Modifier) error {

	if s.w.failStore {
		s.w.lastFault = "storeFail"
		return errors.New("verif-store-fault")
	}
	for _, m := range modifiers {
		m(a)
	}
	s.w.acct = *a
	cp := *a
	s.w.add(c07Event{kind: "S", stored: &cp})
	return nil
}

func (s *c07Store) LockID() (wtxmgr.LockID, error) {
	return wtxmgr.LockID{1}, nil
}

// ---- auctioneer ------------------------------------------------------------

type c07Auctioneer struct {
	account.Auctioneer
	w *c07World
}

func (a *c07Auctioneer) ModifyAccount(_ context.Context, acct *account.Account,
	inputs []*wire.TxIn, outputs []*wire.TxOut, modifiers []account.Modifier,
	_ []byte, _ []*wire.TxOut) ([]byte, []byte, error) {

	ev := c07Event{kind: "M", inputs: inputs, outputs: outputs}
	if modifiers != nil {
		ev.modified = acct.Copy(modifiers...)
	}
	a.w.add(ev)
	if a.w.failAuct {
		a.w.lastFault = "auctioneerFail"
		return nil, nil, errors.New("verif-auctioneer-fault")
	}
	return []byte("auctioneer sig"), make([]byte, 66), nil
}

func (a *c07Auctioneer) Terms(context.Context) (*terms.AuctioneerTerms, error) {
	if a.w.failTerms {
		a.w.lastFault = "termsFail"
		return nil, errors.New("verif-terms-fault")
	}
	return &terms.AuctioneerTerms{MaxAccountValue: a.w.maxValue}, nil
}

// ---- wallet ----------------------------------------------------------------

type c07Wallet struct {
	lndclient.WalletKitClient
	w *c07World
}

func (w *c07Wallet) PublishTransaction(_ context.Context, tx *wire.MsgTx,
	_ string) error {

	w.w.add(c07Event{kind: "P", tx: tx.Copy()})
	if w.w.failPublish {
		w.w.lastFault = "publishFail"
		return errors.New("verif-publish-fault")
	}
	return nil
}

func (w *c07Wallet) EstimateFeeRate(context.Context, int32) (chainfee.SatPerKWeight, error) {
	return chainfee.FeePerKwFloor, nil
}

func (w *c07Wallet) EstimateFeeToP2WSH(context.Context, btcutil.Amount, int32) (btcutil.Amount, error) {
	return 253, nil
}

func (w *c07Wallet) NextAddr(_ context.Context, _ string,
	t walletrpc.AddressType, _ bool) (btcutil.Address, error) {

	if t == walletrpc.AddressType_TAPROOT_PUBKEY {
		return w.w.walletTR, nil
	}
	return w.w.walletWKH, nil
}

func (w *c07Wallet) ReleaseOutput(_ context.Context, id wtxmgr.LockID,
	op wire.OutPoint) error {

	w.w.mu.Lock()
	w.w.released++
	w.w.releases = append(w.w.releases, fmt.Sprintf("%x@%v", id[:], op))
	w.w.mu.Unlock()
	return nil
}

func (w *c07Wallet) FundPsbt(_ context.Context,
	req *walletrpc.FundPsbtRequest) (*psbt.Packet, int32,
	[]*walletrpc.UtxoLease, error) {

	w.w.fundReq = req
	if w.w.fundFail || w.w.fundHook == nil {
		w.w.lastFault = "fundFail"
		return nil, 0, nil, errors.New("verif-fund-fault")
	}
	tpl, err := psbt.NewFromRawBytes(
		bytes.NewReader(req.GetPsbt()), false,
	)
	if err != nil {
		return nil, 0, nil, err
	}
	p, idx, ok := w.w.fundHook(tpl)
	if !ok {
		w.w.lastFault = "fundFail"
		return nil, 0, nil, errors.New("verif-fund-fault")
	}
	// like lnd: every selected input is leased under a lock ID
	var leases []*walletrpc.UtxoLease
	for i, in := range p.UnsignedTx.TxIn {
		id := make([]byte, 32)
		id[0], id[1] = 0x4c, byte(i+1)
		h := in.PreviousOutPoint.Hash
		leases = append(leases, &walletrpc.UtxoLease{
			Id: id,
			Outpoint: &lnrpc.OutPoint{
				TxidBytes:   h[:],
				TxidStr:     h.String(),
				OutputIndex: in.PreviousOutPoint.Index,
			},
			Expiration: 1,
		})
	}
	w.w.leases = leases
	return p, idx, leases, nil
}

// lockOutcome canonicalises what happened to the leased inputs: "none" (FundPsbt
// handed out nothing), "held:k" (k leases, none released), "released:k" (each
// lease released exactly once under its lock ID), else "partial:<released>/<k>".
func (w *c07World) lockOutcome() string {
	k := len(w.leases)
	if k == 0 {
		return "none"
	}
	if len(w.releases) == 0 {
		return fmt.Sprintf("held:%d", k)
	}
	want := map[string]int{}
	for _, l := range w.leases {
		h, _ := chainhash.NewHash(l.Outpoint.TxidBytes)
		want[fmt.Sprintf("%x@%v", l.Id, wire.OutPoint{Hash: *h, Index: l.Outpoint.OutputIndex})]++
	}
	ok := len(w.releases) == k
	for _, r := range w.releases {
		want[r]--
	}
	for _, c := range want {
		if c != 0 {
			ok = false
		}
	}
	if ok {
		return fmt.Sprintf("released:%d", k)
	}
	return fmt.Sprintf("partial:%d/%d", len(w.releases), k)
}

func (w *c07Wallet) SignPsbt(_ context.Context,
	packet *psbt.Packet) (*psbt.Packet, error) {

	for idx := range packet.Inputs {
		packet.Inputs[idx].PartialSigs = []*psbt.PartialSig{{
			Signature: []byte{33, 44, 55, 66, byte(txscript.SigHashAll)},
		}}
		packet.Inputs[idx].TaprootScriptSpendSig = []*psbt.TaprootScriptSpendSig{{
			Signature: bytes.Repeat([]byte{7}, 64),
			SigHash:   txscript.SigHashDefault,
		}}
	}
	return packet, nil
}

func (w *c07Wallet) FinalizePsbt(_ context.Context, packet *psbt.Packet,
	_ string) (*psbt.Packet, *wire.MsgTx, error) {

	tx := packet.UnsignedTx
	for idx := range tx.TxIn {
		pIn := &packet.Inputs[idx]
		if len(pIn.RedeemScript) > 0 {
			b := txscript.NewScriptBuilder()
			b.AddData(pIn.RedeemScript)
			tx.TxIn[idx].SignatureScript, _ = b.Script()
		}
		switch {
		case len(pIn.FinalScriptWitness) > 0:
			r := bytes.NewReader(pIn.FinalScriptWitness)
			n, err := wire.ReadVarInt(r, 0)
			if err != nil {
				return nil, nil, err
			}
			tx.TxIn[idx].Witness = make(wire.TxWitness, n)
			for j := uint64(0); j < n; j++ {
				wit, err := wire.ReadVarBytes(
					r, 0, txscript.MaxScriptSize, "witness",
				)
				if err != nil {
					return nil, nil, err
				}
				tx.TxIn[idx].Witness[j] = wit
			}
		default:
			tx.TxIn[idx].Witness = [][]byte{{1, 2, 3}}
		}
	}
	return packet, tx, nil
}

// ---- signer (MuSig2 part, as account/mock_test.go) --------------------------

type c07Signer struct {
	lndclient.SignerClient
	sync.Mutex
	sessions map[input.MuSig2SessionID]*input.MuSig2SessionInfo
	ctr      byte
	combined *btcec.PublicKey
}

func (s *c07Signer) MuSig2CreateSession(_ context.Context,
	version input.MuSig2Version, _ *keychain.KeyLocator, _ [][]byte,
	_ ...lndclient.MuSig2SessionOpts) (*input.MuSig2SessionInfo, error) {

	s.Lock()
	defer s.Unlock()
	s.ctr++
	var id [32]byte
	id[0] = s.ctr
	var nonce [66]byte
	nonce[0] = s.ctr
	info := &input.MuSig2SessionInfo{
		SessionID: id, PublicNonce: nonce, CombinedKey: s.combined,
		Version: version,
	}
	s.sessions[id] = info
	return info, nil
}

func (s *c07Signer) MuSig2RegisterNonces(context.Context, [32]byte,
	[][66]byte) (bool, error) {

	return true, nil
}

func (s *c07Signer) MuSig2Sign(context.Context, [32]byte, [32]byte,
	bool) ([]byte, error) {

	return make([]byte, input.MuSig2PartialSigSize), nil
}

func (s *c07Signer) MuSig2CombineSig(context.Context, [32]byte,
	[][]byte) (bool, []byte, error) {

	return true, bytes.Repeat([]byte{9}, schnorr.SignatureSize), nil
}

func (s *c07Signer) MuSig2Cleanup(context.Context, [32]byte) error {
	return nil
}

type c07Notifier struct {
	lndclient.ChainNotifierClient
}

var c07Params = &chaincfg.MainNetParams
