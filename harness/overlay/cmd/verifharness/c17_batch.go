//go:build verif

package main

import (
	"bytes"
	"crypto/sha256"
	"encoding/hex"
	"fmt"
	"math/rand"
	"net"
	"sort"
	"strings"
	"time"

	"github.com/btcsuite/btcd/btcutil"
	"github.com/btcsuite/btcd/wire"
	"github.com/lightninglabs/pool/auctioneer"
	"github.com/lightninglabs/pool/auctioneerrpc"
	"github.com/lightninglabs/pool/clientdb"
	"github.com/lightninglabs/pool/internal/test"
	"github.com/lightninglabs/pool/order"
	"github.com/lightninglabs/pool/sidecar"
	"github.com/lightningnetwork/lnd/keychain"
	"github.com/lightningnetwork/lnd/lnrpc"
	"google.golang.org/protobuf/proto"
)

// c17BatchCase is a whole batch: several bids of one taker, each matched with
// several asks of one or two maker nodes. It is generated deterministically
// from its seed, so the seed is the replay.
type c17BatchCase struct {
	Kind string `json:"kind"` // "batch"
	Seed int64  `json:"seed"`
}

type c17BOrder struct {
	ask    *order.Ask
	bid    *order.Bid
	params *order.ServerOrderParams
	owner  int // asks: index of the maker
	rpc    *auctioneerrpc.ServerSubmitOrderRequest
	// provider-only sidecar bid: the taker's node is not the recipient
	providerOnly bool
}

type c17BPair struct {
	ask, bid int
	units    uint32
	script   []byte
	commit   lnrpc.CommitmentType
}

func c17ShimCols(s *lnrpc.ChanPointShim) string {
	return fmt.Sprintf("%d:%s:%d:%s:%d:%d:%s:%d:%s", s.Amt, c17Hex(s.ChanPoint.GetFundingTxidBytes()),
		s.ChanPoint.OutputIndex, c17Hex(s.LocalKey.RawKeyBytes), s.LocalKey.KeyLoc.KeyFamily,
		s.LocalKey.KeyLoc.KeyIndex, c17Hex(s.RemoteKey), s.ThawHeight, c17b(s.Musig2))
}

func c17JoinOrDash(sep string, xs []string) string {
	if len(xs) == 0 {
		return "-"
	}
	return strings.Join(xs, sep)
}

// multiBatch plays the auctioneer for one trader: all its matched orders in
// one OrderMatchPrepare, over the protobuf wire, through the real ParseRPCBatch.
func (f *c17Funding) multiBatch(entries map[order.Nonce]*auctioneerrpc.MatchedOrder, lease uint32,
	tx *wire.MsgTx, hint uint32) (*order.Batch, error) {

	mo := map[string]*auctioneerrpc.MatchedOrder{}
	for n, e := range entries {
		mo[hex.EncodeToString(n[:])] = e
	}
	var buf bytes.Buffer
	if err := tx.Serialize(&buf); err != nil {
		return nil, err
	}
	msg := &auctioneerrpc.OrderMatchPrepare{
		MatchedMarkets: map[uint32]*auctioneerrpc.MatchedMarket{
			lease: {MatchedOrders: mo, ClearingPriceRate: 100},
		},
		ExecutionFee:     &auctioneerrpc.ExecutionFee{BaseFee: 1, FeeRate: 1},
		BatchTransaction: buf.Bytes(),
		FeeRateSatPerKw:  253,
		BatchId:          f.batchID,
		BatchVersion:     uint32(order.DefaultBatchVersion),
		BatchHeightHint:  hint,
	}
	wireBytes, err := proto.Marshal(msg)
	if err != nil {
		return nil, err
	}
	var got auctioneerrpc.OrderMatchPrepare
	if err := proto.Unmarshal(wireBytes, &got); err != nil {
		return nil, err
	}
	return order.ParseRPCBatch(&got)
}

// execBatch runs the real PrepChannelFunding of the taker and the real
// BatchChannelSetup of every maker over one whole batch.
func (f *c17Funding) execBatch(c *c17BatchCase) {
	r := f.r
	rng := rand.New(rand.NewSource(c.Seed))
	r.Evaluations++
	r.Count("batch/cases")
	unit := int64(order.BaseSupplyUnit)
	taker := c17NewParty("taker", 2, f.db)
	makers := []*c17Party{c17NewParty("makerA", 1, f.db), c17NewParty("makerB", 3, f.db)}
	lease := []uint32{144, 2016, 4032, rng.Uint32()}[rng.Intn(4)]
	hint := []uint32{0, 700000 + uint32(rng.Intn(300000)), rng.Uint32()}[rng.Intn(3)]
	acctKey := f.acctKey.SerializeCompressed()

	newKit := func(idx uint32) *order.Kit {
		var n order.Nonce
		rng.Read(n[:])
		k := order.NewKit(n)
		k.LeaseDuration = lease
		k.ChannelType = order.ChannelType(rng.Intn(3))
		k.MultiSigKeyLocator = keychain.KeyLocator{Family: keychain.KeyFamilyMultiSig, Index: idx}
		k.Amt = btcutil.Amount(100 * unit)
		k.Units = 100
		k.UnitsUnfulfilled = 100
		k.MinUnitsMatch = 1
		k.FixedRate = 100
		k.MaxBatchFeeRate = 253
		k.Version = order.VersionChannelType
		copy(k.AcctKey[:], acctKey)
		return k
	}
	// ---- orders
	var asks, bids []*c17BOrder
	nA := 1 + rng.Intn(3)
	nB := rng.Intn(3)
	for i := 0; i < nA+nB; i++ {
		owner := 0
		if i >= nA {
			owner = 1
		}
		k := newKit(uint32(100 + i + 10*rng.Intn(50)))
		o := &c17BOrder{ask: &order.Ask{Kit: *k}, owner: owner}
		o.params = &order.ServerOrderParams{NodePubkey: makers[owner].node33, Addrs: []net.Addr{f.addr}}
		copy(o.params.MultiSigKey[:], c17KeyFor(makers[owner].wallet.seed, 0, k.MultiSigKeyLocator.Index).SerializeCompressed())
		asks = append(asks, o)
	}
	nBids := 1 + rng.Intn(3)
	for j := 0; j < nBids; j++ {
		k := newKit(uint32(500 + j + 10*rng.Intn(50)))
		b := &order.Bid{Kit: *k, UnannouncedChannel: rng.Intn(2) == 0, ZeroConfChannel: rng.Intn(2) == 0}
		if rng.Intn(2) == 0 {
			b.SelfChanBalance = btcutil.Amount(unit * int64(1+rng.Intn(5)))
		}
		o := &c17BOrder{bid: b}
		o.params = &order.ServerOrderParams{NodePubkey: taker.node33}
		copy(o.params.MultiSigKey[:], c17KeyFor(taker.wallet.seed, 0, k.MultiSigKeyLocator.Index).SerializeCompressed())
		if rng.Intn(6) == 0 {
			// a sidecar bid the taker only provides: channel goes elsewhere
			b.Kit.ChannelType = order.ChannelTypePeerDependent
			t, _ := sidecar.NewTicket(100*btcutil.Amount(unit), b.SelfChanBalance, lease, f.acctKey, false,
				b.UnannouncedChannel, b.ZeroConfChannel)
			t.State = sidecar.StateOrdered
			t.Offer.SigOfferDigest = test.NewSignatureFromInt(3, 5)
			t.Recipient = &sidecar.Recipient{NodePubKey: c17KeyFor(7, 0xffff, 0),
				MultiSigPubKey: c17KeyFor(7, 0, uint32(j)), MultiSigKeyIndex: uint32(j)}
			t.Order = &sidecar.Order{BidNonce: b.Nonce()}
			b.SidecarTicket = t
			copy(o.params.NodePubkey[:], t.Recipient.NodePubKey.SerializeCompressed())
			copy(o.params.MultiSigKey[:], t.Recipient.MultiSigPubKey.SerializeCompressed())
			o.providerOnly = true
			r.Count("batch/provider-bid")
		}
		bids = append(bids, o)
	}
	for _, o := range asks {
		o.rpc, _ = auctioneer.VerifC17SubmitCapture(o.ask, o.params)
	}
	for _, o := range bids {
		o.rpc, _ = auctioneer.VerifC17SubmitCapture(o.bid, o.params)
	}
	// ---- matches: every bid is matched with 1..3 distinct asks
	var pairs []c17BPair
	for j := range bids {
		perm := rng.Perm(len(asks))
		n := 1 + rng.Intn(3)
		if n > len(asks) {
			n = len(asks)
		}
		for _, i := range perm[:n] {
			p := c17BPair{ask: i, bid: j, units: uint32(1 + rng.Intn(20))}
			p.commit = c17ExpectedCommit(uint8(asks[i].ask.ChannelType), uint8(bids[j].bid.ChannelType))
			w, t := c17Scripts(asks[i].params.MultiSigKey[:], bids[j].params.MultiSigKey[:], int64(p.units)*unit)
			sh := w
			if p.commit == lnrpc.CommitmentType_SIMPLE_TAPROOT {
				sh = t
			}
			p.script, _ = hex.DecodeString(sh)
			pairs = append(pairs, p)
		}
	}
	// ---- batch tx: all funding outputs + fillers, shuffled
	tx := wire.NewMsgTx(2)
	tx.AddTxIn(&wire.TxIn{PreviousOutPoint: wire.OutPoint{Index: uint32(c.Seed)}})
	var outs []*wire.TxOut
	for _, p := range pairs {
		outs = append(outs, wire.NewTxOut(int64(p.units)*unit+int64(bids[p.bid].bid.SelfChanBalance), p.script))
	}
	for i := 0; i < rng.Intn(3); i++ {
		outs = append(outs, wire.NewTxOut(int64(1000+i), []byte{0x00, 0x14, byte(i), 2, 3, 4, 5, 6, 7, 8, 9, 10, 11, 12, 13, 14, 15, 16, 17, 18, 19, 20}))
	}
	rng.Shuffle(len(outs), func(a, b int) { outs[a], outs[b] = outs[b], outs[a] })
	for _, o := range outs {
		tx.AddTxOut(o)
	}
	txid := tx.TxHash()
	txStr := c17FmtTx(tx)

	// ---- the taker's and the makers' prepare messages
	takerEntries := map[order.Nonce]*auctioneerrpc.MatchedOrder{}
	makerEntries := []map[order.Nonce]*auctioneerrpc.MatchedOrder{{}, {}}
	for _, p := range pairs {
		bn, an := bids[p.bid].bid.Nonce(), asks[p.ask].ask.Nonce()
		if takerEntries[bn] == nil {
			takerEntries[bn] = &auctioneerrpc.MatchedOrder{}
		}
		takerEntries[bn].MatchedAsks = append(takerEntries[bn].MatchedAsks,
			&auctioneerrpc.MatchedAsk{Ask: asks[p.ask].rpc.GetAsk(), UnitsFilled: p.units})
		me := makerEntries[asks[p.ask].owner]
		if me[an] == nil {
			me[an] = &auctioneerrpc.MatchedOrder{}
		}
		me[an].MatchedBids = append(me[an].MatchedBids,
			&auctioneerrpc.MatchedBid{Bid: bids[p.bid].rpc.GetBid(), UnitsFilled: p.units})
	}
	batchT, err := f.multiBatch(takerEntries, lease, tx, hint)
	if err != nil {
		r.Count("batch/parse-error")
		return
	}

	// model-side encoding of a parsed batch from one trader's view
	encode := func(b *order.Batch, own func(order.Nonce) order.Order) (string, [][2]interface{}) {
		var nonces []order.Nonce
		for n := range b.MatchedOrders {
			nonces = append(nonces, n)
		}
		sort.Slice(nonces, func(i, j int) bool { return bytes.Compare(nonces[i][:], nonces[j][:]) < 0 })
		var sb strings.Builder
		var all [][2]interface{}
		fmt.Fprintf(&sb, "%d", len(nonces))
		for _, n := range nonces {
			o := own(n)
			ms := b.MatchedOrders[n]
			fmt.Fprintf(&sb, " %s %d", c17FmtOrder(o), len(ms))
			for _, m := range ms {
				fmt.Fprintf(&sb, " %s", c17FmtMatched(m))
				all = append(all, [2]interface{}{o, m})
			}
		}
		return sb.String(), all
	}
	envFor := func(p *c17Party, all [][2]interface{}) string {
		var dk, fs []string
		seenDK := map[string]bool{}
		for _, e := range all {
			o, m := e[0].(order.Order), e[1].(*order.MatchedOrder)
			loc := o.Details().MultiSigKeyLocator
			key := c17KeyFor(p.wallet.seed, uint32(loc.Family), loc.Index).SerializeCompressed()
			d := fmt.Sprintf("%d/%d/%s", uint32(loc.Family), loc.Index, c17Hex(key))
			if !seenDK[d] {
				seenDK[d] = true
				dk = append(dk, d)
			}
			w, t := c17Scripts(key, m.MultiSigKey[:], int64(m.UnitsFilled.ToSatoshis()))
			fs = append(fs, fmt.Sprintf("0/%s/%s/%s", c17Hex(key), c17Hex(m.MultiSigKey[:]), w),
				fmt.Sprintf("1/%s/%s/%s", c17Hex(key), c17Hex(m.MultiSigKey[:]), t))
		}
		return c17Env(dk, fs, nil)
	}

	// ---- taker: PrepChannelFunding over the whole batch
	bidByNonce := map[order.Nonce]*order.Bid{}
	for _, o := range bids {
		bidByNonce[o.bid.Nonce()] = o.bid
	}
	taker.base.peers = [][33]byte{makers[0].node33, makers[1].node33}
	wantConns := map[[33]byte]bool{}
	nRegPairs := 0
	for _, p := range pairs {
		if !bids[p.bid].providerOnly {
			wantConns[makers[asks[p.ask].owner].node33] = true
			nRegPairs++
		}
	}
	takerOut := "err"
	func() {
		defer func() {
			if e := recover(); e != nil {
				takerOut = "panic"
			}
		}()
		err := taker.mgr.PrepChannelFunding(batchT, func(n order.Nonce) (order.Order, error) {
			if b, ok := bidByNonce[n]; ok {
				return b, nil
			}
			return nil, clientdb.ErrNoOrder
		})
		if err != nil {
			return
		}
		// connection attempts run in goroutines: give them a moment
		deadline := time.Now().Add(500 * time.Millisecond)
		for len(taker.ln.Connections()) < len(wantConns) && time.Now().Before(deadline) {
			time.Sleep(200 * time.Microsecond)
		}
		var conns []string
		for k := range taker.ln.Connections() {
			conns = append(conns, c17Hex(k[:]))
		}
		sort.Strings(conns)
		if len(taker.base.shims) != len(taker.regs) {
			takerOut = fmt.Sprintf("inconsistent shims=%d regs=%d", len(taker.base.shims), len(taker.regs))
			return
		}
		var es []string
		for i, sh := range taker.base.shims {
			s, g := sh.GetChanPointShim(), taker.regs[i]
			n := g.bid.Nonce()
			es = append(es, fmt.Sprintf("%s:%s:%s:%s:%d:%d:%s:%s", c17Hex(g.pid[:]), c17Hex(s.PendingChanId), c17ShimCols(s),
				c17Hex(n[:]), int64(g.bid.SelfChanBalance), uint8(g.bid.ChannelType), c17b(g.bid.UnannouncedChannel),
				c17b(g.bid.ZeroConfChannel)))
		}
		sort.Strings(es)
		takerOut = fmt.Sprintf("ok conns=%s n=%d %s", c17JoinOrDash(",", conns), len(es), c17JoinOrDash(";", es))
	}()
	encT, allT := encode(batchT, func(n order.Nonce) order.Order { return bidByNonce[n] })
	r.Emit(fmt.Sprintf("C17 prepb %s %s %d %s %s", c17Hex(taker.node33[:]), txStr, hint, envFor(taker, allT), encT), takerOut)
	r.Count("prepb/" + strings.Fields(takerOut)[0])

	// ---- makers: BatchChannelSetup over their whole batch
	for mi, mk := range makers {
		if len(makerEntries[mi]) == 0 {
			continue
		}
		askByNonce := map[order.Nonce]*order.Ask{}
		for _, o := range asks {
			if o.owner == mi {
				askByNonce[o.ask.Nonce()] = o.ask
				_ = f.db.SubmitOrder(o.ask)
			}
		}
		batchM, err := f.multiBatch(makerEntries[mi], lease, tx, hint)
		if err != nil {
			r.Count("batch/parse-error")
			continue
		}
		out := "err"
		func() {
			defer func() {
				if e := recover(); e != nil {
					out = "panic"
				}
			}()
			if _, err := mk.mgr.BatchChannelSetup(batchM); err != nil {
				return
			}
			var es []string
			for _, q := range mk.base.opens {
				s := q.FundingShim.GetChanPointShim()
				es = append(es, fmt.Sprintf("%s:%s:%d:%d:%d:%s:%s:%s", c17Hex(s.PendingChanId), c17Hex(q.NodePubkey),
					q.LocalFundingAmount, q.PushSat, int32(q.CommitmentType), c17b(q.Private), c17b(q.ZeroConf), c17ShimCols(s)))
			}
			sort.Strings(es)
			out = fmt.Sprintf("ok n=%d %s", len(es), c17JoinOrDash(";", es))
		}()
		encM, allM := encode(batchM, func(n order.Nonce) order.Order { return askByNonce[n] })
		r.Emit(fmt.Sprintf("C17 openb %s %d %s %s", txStr, hint, envFor(mk, allM), encM), out)
		r.Count("openb/" + strings.Fields(out)[0])
	}

	// ================= oracle: one registration per matched pair, equal to what the maker opens =================
	var bad []string
	chk := func(ok bool, format string, a ...interface{}) {
		if !ok {
			bad = append(bad, fmt.Sprintf(format, a...))
		}
	}
	sameNode := map[[2]int]int{}
	for pi, p := range pairs {
		a, b := asks[p.ask], bids[p.bid]
		an, bn := a.ask.Nonce(), b.bid.Nonce()
		pid := sha256.Sum256(append(append([]byte{}, an[:]...), bn[:]...))
		tag := fmt.Sprintf("pair#%d(ask %d of maker %d, bid %d)", pi, p.ask, a.owner, p.bid)
		sameNode[[2]int{p.bid, a.owner}]++
		var opens []*lnrpc.OpenChannelRequest
		for _, q := range makers[a.owner].base.opens {
			if bytes.Equal(q.FundingShim.GetChanPointShim().PendingChanId, pid[:]) {
				opens = append(opens, q)
			}
		}
		var shims []*lnrpc.ChanPointShim
		for _, s := range taker.base.shims {
			if bytes.Equal(s.GetChanPointShim().PendingChanId, pid[:]) {
				shims = append(shims, s.GetChanPointShim())
			}
		}
		var regs []c17Reg
		for _, g := range taker.regs {
			if g.pid == pid {
				regs = append(regs, g)
			}
		}
		chk(len(opens) == 1, "%s: maker sent %d open requests for the pending id", tag, len(opens))
		if b.providerOnly {
			chk(len(shims) == 0 && len(regs) == 0, "%s: sidecar provider registered %d shims / %d acceptor expectations",
				tag, len(shims), len(regs))
			continue
		}
		chk(len(shims) == 1, "%s: taker registered %d funding shims for the pending id the maker opens", tag, len(shims))
		chk(len(regs) == 1, "%s: taker's acceptor was told %d times about the pending id the maker opens", tag, len(regs))
		if len(opens) != 1 || len(shims) != 1 || len(regs) != 1 {
			continue
		}
		q, sb, g := opens[0], shims[0], regs[0]
		sa := q.FundingShim.GetChanPointShim()
		wantCap := int64(p.units)*unit + int64(b.bid.SelfChanBalance)
		chk(bytes.Equal(sa.ChanPoint.GetFundingTxidBytes(), txid[:]) && bytes.Equal(sb.ChanPoint.GetFundingTxidBytes(), txid[:]) &&
			sa.ChanPoint.OutputIndex == sb.ChanPoint.OutputIndex && int(sa.ChanPoint.OutputIndex) < len(tx.TxOut) &&
			bytes.Equal(tx.TxOut[sa.ChanPoint.OutputIndex].PkScript, p.script), "%s: funding outpoint differs / is not the funding output", tag)
		chk(sa.Amt == wantCap && sb.Amt == wantCap && q.LocalFundingAmount == wantCap, "%s: capacity maker %d taker %d want %d", tag, sa.Amt, sb.Amt, wantCap)
		chk(bytes.Equal(sa.LocalKey.RawKeyBytes, sb.RemoteKey) && bytes.Equal(sa.RemoteKey, sb.LocalKey.RawKeyBytes), "%s: keys not mirrored", tag)
		chk(sa.ThawHeight == sb.ThawHeight, "%s: thaw height maker %d taker %d", tag, sa.ThawHeight, sb.ThawHeight)
		chk(sa.Musig2 == sb.Musig2 && q.CommitmentType == p.commit, "%s: commitment type %v / musig2 %v %v", tag, q.CommitmentType, sa.Musig2, sb.Musig2)
		chk(q.PushSat == int64(b.bid.SelfChanBalance) && q.Private == b.bid.UnannouncedChannel && q.ZeroConf == b.bid.ZeroConfChannel,
			"%s: push/private/zero-conf of the request are not the bid's", tag)
		chk(bytes.Equal(q.NodePubkey, taker.node33[:]), "%s: channel opened to another node", tag)
		chk(g.bid.Nonce() == bn && g.bid.SelfChanBalance == b.bid.SelfChanBalance &&
			g.bid.UnannouncedChannel == b.bid.UnannouncedChannel && g.bid.ZeroConfChannel == b.bid.ZeroConfChannel &&
			g.bid.ChannelType == b.bid.ChannelType, "%s: acceptor expectation is not the bid", tag)
	}
	chk(takerOut == "err" || takerOut == "panic" || len(taker.base.shims) == nRegPairs,
		"taker registered %d shims for %d matched pairs", len(taker.base.shims), nRegPairs)
	if strings.HasPrefix(takerOut, "ok ") {
		got := taker.ln.Connections()
		okc := len(got) == len(wantConns)
		for k := range wantConns {
			if _, ok := got[k]; !ok {
				okc = false
			}
		}
		chk(okc, "connection attempts to %d nodes, want the %d distinct maker nodes", len(got), len(wantConns))
	}
	multi := false
	for _, n := range sameNode {
		if n >= 2 {
			multi = true
		}
	}
	if multi {
		r.Count("batch/bid-with-2-asks-of-one-node")
	}
	if len(pairs) > len(bids) {
		r.Count("batch/multi-match")
	}
	if len(bad) > 0 {
		f.r.Count("oracle/violation")
		f.r.Violate("whole batch: "+strings.Join(bad, "; "), "C17/batch-pair", c)
	} else {
		r.Count("batch/agree")
		r.Distinct(fmt.Sprintf("batch|%d|%d|%d|%d", c.Seed, len(pairs), len(bids), len(asks)))
		if multi {
			r.Sample(map[string]interface{}{"batch_seed": c.Seed, "pairs": len(pairs), "bids": len(bids), "asks": len(asks),
				"prep": takerOut[:min(len(takerOut), 300)]})
		}
	}
}
