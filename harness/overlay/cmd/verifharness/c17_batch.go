//go:build verif

package main

import (
	"bytes"
	"crypto/sha256"
	"encoding/hex"
	"fmt"
	"math/rand"
	"net"
	"sort"
	"strings"
	"time"

	"github.com/btcsuite/btcd/btcutil"
	"github.com/btcsuite/btcd/wire"
	"github.com/lightninglabs/pool/auctioneer"
	"github.com/lightninglabs/pool/auctioneerrpc"
	"github.com/lightninglabs/pool/clientdb"
	"github.com/lightninglabs/pool/internal/test"
	"github.com/lightninglabs/pool/order"
	"github.com/lightninglabs/pool/sidecar"
	"github.com/lightningnetwork/lnd/keychain"
	"github.com/lightningnetwork/lnd/lnrpc"
	"google.golang.org/protobuf/proto"
)

// c17BatchCase is a whole batch: several bids of one taker, each matched with
// several asks of one or two maker nodes. It is generated deterministically
// from its seed, so the seed is the replay.
type c17BatchCase struct {
	Kind string `json:"kind"` // "batch"
	Seed int64  `json:"seed"`
}

type c17BOrder struct {
	ask    *order.Ask
	bid    *order.Bid
	params *order.ServerOrderParams
	owner  int // asks: index of the maker
	rpc    *auctioneerrpc.ServerSubmitOrderRequest
	// provider-only sidecar bid: the taker's node is not the recipient
	providerOnly bool
}

type c17BPair struct {
	ask, bid int
	units    uint32
	script   []byte
	commit   lnrpc.CommitmentType
}

func c17ShimCols(s *lnrpc.ChanPointShim) string {
	return fmt.Sprintf("%d:%s:%d:%s:%d:%d:%s:%d:%s", s.Amt, c17Hex(s.ChanPoint.GetFundingTxidBytes()),
		s.ChanPoint.OutputIndex, c17Hex(s.LocalKey.RawKeyBytes), s.LocalKey.KeyLoc.KeyFamily,
		s.LocalKey.KeyLoc.KeyIndex, c17Hex(s.RemoteKey), s.ThawHeight, c17b(s.Musig2))
}

func c17JoinOrDash(sep string, xs []string) string {
	if len(xs) == 0 {
		return "-"
	}
	return strings.Join(xs, sep)
}

// multiBatch plays the auctioneer for one trader: all its matched orders in
// one OrderMatchPrepare, over the protobuf wire, through the real ParseRPCBatch.
func (f *c17Funding) multiBatch(entries map[order.Nonce]*auctioneerrpc.MatchedOrder, lease uint32,
	tx *wire.MsgTx, hint uint32) (*order.Batch, error) {

	mo := map[string]*auctioneerrpc.MatchedOrder{}
	for n, e := range entries {
		mo[hex.EncodeToString(n[:])] = e
	}
	var buf bytes.Buffer
	if err := tx.Serialize(&buf); err != nil {
		return nil, err
	}
	msg := &auctioneerrpc.OrderMatchPrepare{
		MatchedMarkets: map[uint32]*auctioneerrpc.MatchedMarket{
			lease: {MatchedOrders: mo, ClearingPriceRate: 100},
		},
		ExecutionFee:     &auctioneerrpc.ExecutionFee{BaseFee: 1, FeeRate: 1},
		BatchTransaction: buf.Bytes(),
		FeeRateSatPerKw:  253,
		BatchId:          f.batchID,
		BatchVersion:     uint32(order.DefaultBatchVersion),
		BatchHeightHint:  hint,
	}
	wireBytes, err := proto.Marshal(msg)
	if err != nil {
		return nil, err
	}
	var got auctioneerrpc.OrderMatchPrepare
	if err := proto.Unmarshal(wireBytes, &got); err != nil {
		return nil, err
	}
	return order.ParseRPCBatch(&got)
}

// c17Market is one taker with some bids, two maker nodes with some asks and
// the matched pairs; a proposal is one batch transaction + height hint for it.
type c17Market struct {
	f      *c17Funding
	taker  *c17Party
	makers []*c17Party
	lease  uint32
	asks   []*c17BOrder
	bids   []*c17BOrder
	pairs  []c17BPair

	bidByNonce map[order.Nonce]*order.Bid
}

type c17Proposal struct {
	pairs  []c17BPair // subset of the market's pairs
	tx     *wire.MsgTx
	txStr  string
	hint   uint32
	batchT *order.Batch
	batchM []*order.Batch // per maker, nil when the maker has no match
}

func (f *c17Funding) newMarket(rng *rand.Rand, maxBids int, sidecars bool) *c17Market {
	unit := int64(order.BaseSupplyUnit)
	m := &c17Market{f: f, bidByNonce: map[order.Nonce]*order.Bid{}}
	m.taker = c17NewParty("taker", 2, f.db)
	m.makers = []*c17Party{c17NewParty("makerA", 1, f.db), c17NewParty("makerB", 3, f.db)}
	m.lease = []uint32{144, 2016, 4032, rng.Uint32()}[rng.Intn(4)]
	acctKey := f.acctKey.SerializeCompressed()
	versions := []order.Version{order.VersionChannelType, order.VersionChannelType, order.VersionChannelType,
		order.VersionSidecarChannel, order.VersionSelfChanBalance, order.VersionDefault}
	newKit := func(idx uint32) *order.Kit {
		var n order.Nonce
		rng.Read(n[:])
		k := order.NewKit(n)
		k.LeaseDuration = m.lease
		k.ChannelType = order.ChannelType(rng.Intn(3))
		k.MultiSigKeyLocator = keychain.KeyLocator{Family: keychain.KeyFamilyMultiSig, Index: idx}
		k.Amt = btcutil.Amount(100 * unit)
		k.Units = 100
		k.UnitsUnfulfilled = 100
		k.MinUnitsMatch = 1
		k.FixedRate = 100
		k.MaxBatchFeeRate = 253
		k.Version = versions[rng.Intn(len(versions))]
		copy(k.AcctKey[:], acctKey)
		return k
	}
	nA := 1 + rng.Intn(3)
	nB := rng.Intn(3)
	for i := 0; i < nA+nB; i++ {
		owner := 0
		if i >= nA {
			owner = 1
		}
		k := newKit(uint32(100 + i + 10*rng.Intn(50)))
		o := &c17BOrder{ask: &order.Ask{Kit: *k}, owner: owner}
		o.params = &order.ServerOrderParams{NodePubkey: m.makers[owner].node33, Addrs: []net.Addr{f.addr}}
		copy(o.params.MultiSigKey[:], c17KeyFor(m.makers[owner].wallet.seed, 0, k.MultiSigKeyLocator.Index).SerializeCompressed())
		m.asks = append(m.asks, o)
	}
	nBids := 1 + rng.Intn(maxBids)
	for j := 0; j < nBids; j++ {
		k := newKit(uint32(500 + j + 10*rng.Intn(50)))
		b := &order.Bid{Kit: *k, UnannouncedChannel: rng.Intn(2) == 0, ZeroConfChannel: rng.Intn(2) == 0}
		if rng.Intn(2) == 0 {
			b.SelfChanBalance = btcutil.Amount(unit * int64(1+rng.Intn(5)))
		}
		o := &c17BOrder{bid: b}
		o.params = &order.ServerOrderParams{NodePubkey: m.taker.node33}
		copy(o.params.MultiSigKey[:], c17KeyFor(m.taker.wallet.seed, 0, k.MultiSigKeyLocator.Index).SerializeCompressed())
		if sidecars && rng.Intn(6) == 0 {
			// a sidecar bid the taker only provides: channel goes elsewhere
			b.Kit.ChannelType = order.ChannelTypePeerDependent
			t, _ := sidecar.NewTicket(100*btcutil.Amount(unit), b.SelfChanBalance, m.lease, f.acctKey, false,
				b.UnannouncedChannel, b.ZeroConfChannel)
			t.State = sidecar.StateOrdered
			t.Offer.SigOfferDigest = test.NewSignatureFromInt(3, 5)
			t.Recipient = &sidecar.Recipient{NodePubKey: c17KeyFor(7, 0xffff, 0),
				MultiSigPubKey: c17KeyFor(7, 0, uint32(j)), MultiSigKeyIndex: uint32(j)}
			t.Order = &sidecar.Order{BidNonce: b.Nonce()}
			b.SidecarTicket = t
			copy(o.params.NodePubkey[:], t.Recipient.NodePubKey.SerializeCompressed())
			copy(o.params.MultiSigKey[:], t.Recipient.MultiSigPubKey.SerializeCompressed())
			o.providerOnly = true
			f.r.Count("batch/provider-bid")
		}
		m.bids = append(m.bids, o)
		m.bidByNonce[b.Nonce()] = b
	}
	for _, o := range m.asks {
		o.rpc, _ = auctioneer.VerifC17SubmitCapture(o.ask, o.params)
		_ = f.db.SubmitOrder(o.ask)
	}
	for _, o := range m.bids {
		o.rpc, _ = auctioneer.VerifC17SubmitCapture(o.bid, o.params)
	}
	// every bid is matched with 1..3 distinct asks
	for j := range m.bids {
		perm := rng.Perm(len(m.asks))
		n := 1 + rng.Intn(3)
		if n > len(m.asks) {
			n = len(m.asks)
		}
		for _, i := range perm[:n] {
			p := c17BPair{ask: i, bid: j, units: uint32(1 + rng.Intn(20))}
			p.commit = c17ExpectedCommit(uint8(m.asks[i].ask.ChannelType), uint8(m.bids[j].bid.ChannelType))
			w, t := c17Scripts(m.asks[i].params.MultiSigKey[:], m.bids[j].params.MultiSigKey[:], int64(p.units)*unit)
			sh := w
			if p.commit == lnrpc.CommitmentType_SIMPLE_TAPROOT {
				sh = t
			}
			p.script, _ = hex.DecodeString(sh)
			m.pairs = append(m.pairs, p)
		}
	}
	m.taker.base.peers = [][33]byte{m.makers[0].node33, m.makers[1].node33}
	return m
}

// propose builds one proposal of the batch: a transaction with all funding
// outputs (and fillers) in random order and the prepare message of each
// trader, parsed by the real ParseRPCBatch.
func (m *c17Market) propose(rng *rand.Rand, pairs []c17BPair, hint uint32, salt uint32) (*c17Proposal, error) {
	unit := int64(order.BaseSupplyUnit)
	p := &c17Proposal{pairs: pairs, hint: hint}
	tx := wire.NewMsgTx(2)
	tx.AddTxIn(&wire.TxIn{PreviousOutPoint: wire.OutPoint{Index: salt}})
	var outs []*wire.TxOut
	for _, pr := range pairs {
		outs = append(outs, wire.NewTxOut(int64(pr.units)*unit+int64(m.bids[pr.bid].bid.SelfChanBalance), pr.script))
	}
	for i := 0; i < rng.Intn(3); i++ {
		outs = append(outs, wire.NewTxOut(int64(1000+i), []byte{0x00, 0x14, byte(i), byte(salt), 3, 4, 5, 6, 7, 8, 9, 10, 11, 12, 13, 14, 15, 16, 17, 18, 19, 20}))
	}
	rng.Shuffle(len(outs), func(a, b int) { outs[a], outs[b] = outs[b], outs[a] })
	for _, o := range outs {
		tx.AddTxOut(o)
	}
	p.tx, p.txStr = tx, c17FmtTx(tx)
	takerEntries := map[order.Nonce]*auctioneerrpc.MatchedOrder{}
	makerEntries := []map[order.Nonce]*auctioneerrpc.MatchedOrder{{}, {}}
	for _, pr := range pairs {
		bn, an := m.bids[pr.bid].bid.Nonce(), m.asks[pr.ask].ask.Nonce()
		if takerEntries[bn] == nil {
			takerEntries[bn] = &auctioneerrpc.MatchedOrder{}
		}
		takerEntries[bn].MatchedAsks = append(takerEntries[bn].MatchedAsks,
			&auctioneerrpc.MatchedAsk{Ask: m.asks[pr.ask].rpc.GetAsk(), UnitsFilled: pr.units})
		me := makerEntries[m.asks[pr.ask].owner]
		if me[an] == nil {
			me[an] = &auctioneerrpc.MatchedOrder{}
		}
		me[an].MatchedBids = append(me[an].MatchedBids,
			&auctioneerrpc.MatchedBid{Bid: m.bids[pr.bid].rpc.GetBid(), UnitsFilled: pr.units})
	}
	var err error
	if p.batchT, err = m.f.multiBatch(takerEntries, m.lease, tx, hint); err != nil {
		return nil, err
	}
	p.batchM = make([]*order.Batch, len(m.makers))
	for mi := range m.makers {
		if len(makerEntries[mi]) == 0 {
			continue
		}
		if p.batchM[mi], err = m.f.multiBatch(makerEntries[mi], m.lease, tx, hint); err != nil {
			return nil, err
		}
	}
	return p, nil
}

// encode renders a parsed batch from one trader's view for the model.
func c17EncodeBatch(b *order.Batch, own func(order.Nonce) order.Order) (string, [][2]interface{}) {
	var nonces []order.Nonce
	for n := range b.MatchedOrders {
		nonces = append(nonces, n)
	}
	sort.Slice(nonces, func(i, j int) bool { return bytes.Compare(nonces[i][:], nonces[j][:]) < 0 })
	var sb strings.Builder
	var all [][2]interface{}
	fmt.Fprintf(&sb, "%d", len(nonces))
	for _, n := range nonces {
		o := own(n)
		ms := b.MatchedOrders[n]
		fmt.Fprintf(&sb, " %s %d", c17FmtOrder(o), len(ms))
		for _, mo := range ms {
			fmt.Fprintf(&sb, " %s", c17FmtMatched(mo))
			all = append(all, [2]interface{}{o, mo})
		}
	}
	return sb.String(), all
}

func c17EnvFor(p *c17Party, all [][2]interface{}) string {
	var dk, fs []string
	seenDK := map[string]bool{}
	for _, e := range all {
		o, mo := e[0].(order.Order), e[1].(*order.MatchedOrder)
		loc := o.Details().MultiSigKeyLocator
		key := c17KeyFor(p.wallet.seed, uint32(loc.Family), loc.Index).SerializeCompressed()
		d := fmt.Sprintf("%d/%d/%s", uint32(loc.Family), loc.Index, c17Hex(key))
		if !seenDK[d] {
			seenDK[d] = true
			dk = append(dk, d)
		}
		w, t := c17Scripts(key, mo.MultiSigKey[:], int64(mo.UnitsFilled.ToSatoshis()))
		fs = append(fs, fmt.Sprintf("0/%s/%s/%s", c17Hex(key), c17Hex(mo.MultiSigKey[:]), w),
			fmt.Sprintf("1/%s/%s/%s", c17Hex(key), c17Hex(mo.MultiSigKey[:]), t))
	}
	return c17Env(dk, fs, nil)
}

func (m *c17Market) fetchBid(n order.Nonce) (order.Order, error) {
	if b, ok := m.bidByNonce[n]; ok {
		return b, nil
	}
	return nil, clientdb.ErrNoOrder
}

func c17HeldStr(held map[[32]byte]*lnrpc.ChanPointShim) string {
	var es []string
	for pid, s := range held {
		es = append(es, fmt.Sprintf("%s:%s", c17Hex(pid[:]), c17ShimCols(s)))
	}
	sort.Strings(es)
	return "held=" + c17JoinOrDash(";", es)
}

// runTaker runs the real PrepChannelFunding of the taker on a proposal and
// returns the canonical result (registrations of THIS call).
func (m *c17Market) runTaker(p *c17Proposal) (string, bool) {
	taker := m.taker
	shims0, regs0 := len(taker.base.shims), len(taker.regs)
	taker.ln.ResetConns()
	wantConns := map[[33]byte]bool{}
	for _, pr := range p.pairs {
		if !m.bids[pr.bid].providerOnly {
			wantConns[m.makers[m.asks[pr.ask].owner].node33] = true
		}
	}
	out := "err"
	accepted := false
	func() {
		defer func() {
			if e := recover(); e != nil {
				out = "panic"
			}
		}()
		if err := taker.mgr.PrepChannelFunding(p.batchT, m.fetchBid); err != nil {
			return
		}
		accepted = true
		// connection attempts run in goroutines: give them a (bounded) moment
		wait := 300 * time.Millisecond
		if m.f.connTimeouts > 3 {
			wait = 3 * time.Millisecond // a tree that never connects must not stall the run
		}
		deadline := time.Now().Add(wait)
		for len(taker.ln.Connections()) < len(wantConns) && time.Now().Before(deadline) {
			time.Sleep(200 * time.Microsecond)
		}
		if len(taker.ln.Connections()) < len(wantConns) {
			m.f.connTimeouts++
		}
		var conns []string
		for k := range taker.ln.Connections() {
			conns = append(conns, c17Hex(k[:]))
		}
		sort.Strings(conns)
		shims, regs := taker.base.shims[shims0:], taker.regs[regs0:]
		if len(shims) != len(regs) {
			// accepted although lnd took fewer shims than the acceptor was told about
			out = fmt.Sprintf("accepted-inconsistent shims=%d regs=%d", len(shims), len(regs))
			return
		}
		var es []string
		for i, sh := range shims {
			s, g := sh.GetChanPointShim(), regs[i]
			n := g.bid.Nonce()
			es = append(es, fmt.Sprintf("%s:%s:%s:%s:%d:%d:%s:%s", c17Hex(g.pid[:]), c17Hex(s.PendingChanId), c17ShimCols(s),
				c17Hex(n[:]), int64(g.bid.SelfChanBalance), uint8(g.bid.ChannelType), c17b(g.bid.UnannouncedChannel),
				c17b(g.bid.ZeroConfChannel)))
		}
		sort.Strings(es)
		out = fmt.Sprintf("ok conns=%s n=%d %s", c17JoinOrDash(",", conns), len(es), c17JoinOrDash(";", es))
	}()
	return out, accepted
}

// runMakers runs the real BatchChannelSetup of every maker on a proposal.
func (m *c17Market) runMakers(p *c17Proposal) {
	r := m.f.r
	for mi, mk := range m.makers {
		if p.batchM[mi] == nil {
			continue
		}
		mk.base.opens = nil
		askByNonce := map[order.Nonce]*order.Ask{}
		for _, o := range m.asks {
			if o.owner == mi {
				askByNonce[o.ask.Nonce()] = o.ask
			}
		}
		out := "err"
		func() {
			defer func() {
				if e := recover(); e != nil {
					out = "panic"
				}
			}()
			if _, err := mk.mgr.BatchChannelSetup(p.batchM[mi]); err != nil {
				return
			}
			var es []string
			for _, q := range mk.base.opens {
				s := q.FundingShim.GetChanPointShim()
				es = append(es, fmt.Sprintf("%s:%s:%d:%d:%d:%s:%s:%s", c17Hex(s.PendingChanId), c17Hex(q.NodePubkey),
					q.LocalFundingAmount, q.PushSat, int32(q.CommitmentType), c17b(q.Private), c17b(q.ZeroConf), c17ShimCols(s)))
			}
			sort.Strings(es)
			out = fmt.Sprintf("ok n=%d %s", len(es), c17JoinOrDash(";", es))
		}()
		encM, allM := c17EncodeBatch(p.batchM[mi], func(n order.Nonce) order.Order { return askByNonce[n] })
		r.Emit(fmt.Sprintf("C17 openb %s %d %s %s", p.txStr, p.hint, c17EnvFor(mk, allM), encM), out)
		r.Count("openb/" + strings.Fields(out)[0])
	}
}

// comparePairs is the oracle on one proposal: for every matched pair exactly
// one open request of the maker, and (non provider-only) exactly one shim that
// lnd holds for the pending id + one acceptor expectation, all agreeing.
// `lndHeld` = what the taker's lnd holds registered now; `regs` = acceptor
// notifications to look at (nil: skip the acceptor part).
func (m *c17Market) comparePairs(p *c17Proposal, lndHeld map[[32]byte]*lnrpc.ChanPointShim, regs []c17Reg,
	checkRegs bool) []string {

	unit := int64(order.BaseSupplyUnit)
	txid := p.tx.TxHash()
	var bad []string
	chk := func(ok bool, format string, a ...interface{}) {
		if !ok {
			bad = append(bad, fmt.Sprintf(format, a...))
		}
	}
	for pi, pr := range p.pairs {
		a, b := m.asks[pr.ask], m.bids[pr.bid]
		an, bn := a.ask.Nonce(), b.bid.Nonce()
		pid := sha256.Sum256(append(append([]byte{}, an[:]...), bn[:]...))
		tag := fmt.Sprintf("pair#%d(ask %d of maker %d, bid %d)", pi, pr.ask, a.owner, pr.bid)
		var opens []*lnrpc.OpenChannelRequest
		for _, q := range m.makers[a.owner].base.opens {
			if bytes.Equal(q.FundingShim.GetChanPointShim().PendingChanId, pid[:]) {
				opens = append(opens, q)
			}
		}
		sb, held := lndHeld[pid]
		var rs []c17Reg
		for _, g := range regs {
			if g.pid == pid {
				rs = append(rs, g)
			}
		}
		chk(len(opens) == 1, "%s: maker sent %d open requests for the pending id", tag, len(opens))
		if b.providerOnly {
			chk(!held && len(rs) == 0, "%s: sidecar provider registered a shim / %d acceptor expectations", tag, len(rs))
			continue
		}
		chk(held, "%s: the taker's lnd holds no funding shim for the pending id the maker opens", tag)
		if checkRegs {
			chk(len(rs) == 1, "%s: taker's acceptor was told %d times about the pending id the maker opens", tag, len(rs))
		}
		if len(opens) != 1 || !held {
			continue
		}
		q := opens[0]
		sa := q.FundingShim.GetChanPointShim()
		wantCap := int64(pr.units)*unit + int64(b.bid.SelfChanBalance)
		chk(bytes.Equal(sa.ChanPoint.GetFundingTxidBytes(), txid[:]) && int(sa.ChanPoint.OutputIndex) < len(p.tx.TxOut) &&
			bytes.Equal(p.tx.TxOut[sa.ChanPoint.OutputIndex].PkScript, pr.script), "%s: maker's outpoint is not the funding output", tag)
		chk(bytes.Equal(sb.ChanPoint.GetFundingTxidBytes(), sa.ChanPoint.GetFundingTxidBytes()) &&
			sa.ChanPoint.OutputIndex == sb.ChanPoint.OutputIndex,
			"%s: funding outpoint: maker %x:%d, shim held by the taker's lnd %x:%d", tag, sa.ChanPoint.GetFundingTxidBytes()[:4],
			sa.ChanPoint.OutputIndex, sb.ChanPoint.GetFundingTxidBytes()[:4], sb.ChanPoint.OutputIndex)
		chk(sa.Amt == wantCap && sb.Amt == wantCap && q.LocalFundingAmount == wantCap, "%s: capacity maker %d taker %d want %d", tag, sa.Amt, sb.Amt, wantCap)
		chk(bytes.Equal(sa.LocalKey.RawKeyBytes, sb.RemoteKey) && bytes.Equal(sa.RemoteKey, sb.LocalKey.RawKeyBytes), "%s: keys not mirrored", tag)
		chk(sa.ThawHeight == sb.ThawHeight, "%s: thaw height maker %d, shim held by the taker's lnd %d", tag, sa.ThawHeight, sb.ThawHeight)
		chk(sa.Musig2 == sb.Musig2 && q.CommitmentType == pr.commit, "%s: commitment type %v (orders imply %v) / musig2 %v %v", tag,
			q.CommitmentType, pr.commit, sa.Musig2, sb.Musig2)
		chk(q.PushSat == int64(b.bid.SelfChanBalance) && q.Private == b.bid.UnannouncedChannel && q.ZeroConf == b.bid.ZeroConfChannel,
			"%s: push/private/zero-conf of the request are not the bid's", tag)
		chk(bytes.Equal(q.NodePubkey, m.taker.node33[:]), "%s: channel opened to another node", tag)
		if checkRegs && len(rs) == 1 {
			g := rs[0]
			chk(g.bid.Nonce() == bn && g.bid.SelfChanBalance == b.bid.SelfChanBalance &&
				g.bid.UnannouncedChannel == b.bid.UnannouncedChannel && g.bid.ZeroConfChannel == b.bid.ZeroConfChannel &&
				g.bid.ChannelType == b.bid.ChannelType, "%s: acceptor expectation is not the bid", tag)
		}
	}
	return bad
}

// execBatch runs the real PrepChannelFunding of the taker and the real
// BatchChannelSetup of every maker over one whole batch.
func (f *c17Funding) execBatch(c *c17BatchCase) {
	r := f.r
	rng := rand.New(rand.NewSource(c.Seed))
	r.Evaluations++
	r.Count("batch/cases")
	m := f.newMarket(rng, 3, true)
	hint := []uint32{0, 700000 + uint32(rng.Intn(300000)), rng.Uint32()}[rng.Intn(3)]
	p, err := m.propose(rng, m.pairs, hint, uint32(c.Seed))
	if err != nil {
		r.Count("batch/parse-error")
		return
	}
	takerOut, _ := m.runTaker(p)
	encT, allT := c17EncodeBatch(p.batchT, func(n order.Nonce) order.Order { return m.bidByNonce[n] })
	r.Emit(fmt.Sprintf("C17 prepb %s %s %d %s %s", c17Hex(m.taker.node33[:]), p.txStr, hint, c17EnvFor(m.taker, allT), encT), takerOut)
	r.Count("prepb/" + strings.Fields(takerOut)[0])
	m.runMakers(p)

	bad := m.comparePairs(p, m.taker.base.held, m.taker.regs, true)
	nRegPairs, sameNode := 0, map[[2]int]int{}
	wantConns := map[[33]byte]bool{}
	for _, pr := range p.pairs {
		sameNode[[2]int{pr.bid, m.asks[pr.ask].owner}]++
		if !m.bids[pr.bid].providerOnly {
			nRegPairs++
			wantConns[m.makers[m.asks[pr.ask].owner].node33] = true
		}
	}
	if strings.HasPrefix(takerOut, "ok ") {
		if len(m.taker.base.shims) != nRegPairs {
			bad = append(bad, fmt.Sprintf("taker registered %d shims for %d matched pairs", len(m.taker.base.shims), nRegPairs))
		}
		got := m.taker.ln.Connections()
		okc := len(got) == len(wantConns)
		for k := range wantConns {
			if _, ok := got[k]; !ok {
				okc = false
			}
		}
		if !okc {
			bad = append(bad, fmt.Sprintf("connection attempts to %d nodes, want the %d distinct maker nodes", len(got), len(wantConns)))
		}
	} else {
		bad = append(bad, "taker refused an honest first proposal: "+takerOut)
	}
	multi := false
	for _, n := range sameNode {
		if n >= 2 {
			multi = true
		}
	}
	if multi {
		r.Count("batch/bid-with-2-asks-of-one-node")
	}
	if len(p.pairs) > len(m.bids) {
		r.Count("batch/multi-match")
	}
	if len(bad) > 0 {
		r.Count("oracle/violation")
		r.Violate("whole batch: "+strings.Join(bad, "; "), "C17/batch-pair", c)
	} else {
		r.Count("batch/agree")
		r.Distinct(fmt.Sprintf("batch|%d|%d|%d|%d", c.Seed, len(p.pairs), len(m.bids), len(m.asks)))
		if multi {
			r.Sample(map[string]interface{}{"batch_seed": c.Seed, "pairs": len(p.pairs), "bids": len(m.bids), "asks": len(m.asks),
				"prep": takerOut[:min(len(takerOut), 300)]})
		}
	}
}

// c17ReproCase: a batch is proposed, cleaned up (RemovePendingBatchArtifacts,
// possibly with failing / skipped shim cancels) and proposed again with
// another transaction and height hint. Generated from its seed.
type c17ReproCase struct {
	Kind string `json:"kind"` // "repro"
	Seed int64  `json:"seed"`
}

func (f *c17Funding) execRepro(c *c17ReproCase) {
	r := f.r
	rng := rand.New(rand.NewSource(c.Seed))
	r.Evaluations++
	r.Count("repro/cases")
	m := f.newMarket(rng, 2, false)
	taker := m.taker
	for _, o := range m.bids {
		_ = f.db.SubmitOrder(o.bid) // RemovePendingBatchArtifacts reads our orders from the DB
	}
	encOf := func(p *c17Proposal) (string, string) {
		enc, all := c17EncodeBatch(p.batchT, func(n order.Nonce) order.Order { return m.bidByNonce[n] })
		return enc, c17EnvFor(taker, all)
	}
	r.Emit("C17 lreset", "ok")

	hint := 700000 + uint32(rng.Intn(300000))
	cur := m.pairs
	rounds := 2 + rng.Intn(2)
	var hist []string
	for round := 1; round <= rounds; round++ {
		p, err := m.propose(rng, cur, hint, uint32(c.Seed)+uint32(round)*7919)
		if err != nil {
			r.Count("batch/parse-error")
			return
		}
		out, accepted := m.runTaker(p)
		enc, env := encOf(p)
		real := out
		if strings.HasPrefix(out, "ok ") {
			real = out + " " + c17HeldStr(taker.base.held)
		}
		r.Emit(fmt.Sprintf("C17 lprepb %s %s %d %s %s", c17Hex(taker.node33[:]), p.txStr, p.hint, env, enc), real)
		r.Count(fmt.Sprintf("repro/round%d/%s", min(round, 2), strings.Fields(out)[0]))
		hist = append(hist, fmt.Sprintf("proposal %d (hint %d, %d pairs): %s", round, p.hint, len(p.pairs), strings.Fields(out)[0]))
		if !accepted {
			// the bidder rejects this proposal: nothing has to agree. (What a
			// failed PrepChannelFunding leaves registered depends on Go's
			// map order, so the sequence ends here.)
			if round == 1 {
				r.Violate("taker refused an honest first proposal: "+out, "C17/repro", c)
			}
			r.Count("repro/rejected-after-stale-shim")
			return
		}
		// the bidder accepted: what its lnd holds now must be what the makers open
		m.runMakers(p)
		if bad := m.comparePairs(p, taker.base.held, taker.regs, false); len(bad) > 0 {
			r.Count("oracle/violation")
			r.Violate(fmt.Sprintf("re-proposed batch accepted by the bidder (%s) but ", strings.Join(hist, ", "))+
				strings.Join(bad, "; "), "C17/repro", c)
			return
		}
		r.Count("repro/accepted-agree")
		if round == rounds {
			break
		}
		// ---- between two proposals: cleanup of the pending batch
		taker.base.cancelFail = map[[32]byte]bool{}
		mode := rng.Intn(4)
		switch mode {
		case 0: // every cancel succeeds
			r.Count("repro/cleanup-ok")
		case 1, 2: // some cancels fail (RPC error, only logged)
			r.Count("repro/cleanup-cancel-fault")
			for pid := range taker.base.held {
				if rng.Intn(2) == 0 || len(taker.base.cancelFail) == 0 {
					taker.base.cancelFail[pid] = true
				}
			}
		case 3: // cleanup skipped altogether
			r.Count("repro/cleanup-skipped")
		}
		if mode != 3 {
			if err := taker.mgr.RemovePendingBatchArtifacts(p.batchT.MatchedOrders, p.batchT.BatchTX); err != nil {
				r.Count("repro/cleanup-error")
			}
			var fails []string
			for pid := range taker.base.cancelFail {
				fails = append(fails, c17Hex(pid[:]))
			}
			sort.Strings(fails)
			r.Emit(fmt.Sprintf("C17 lcancel %s %s", c17JoinOrDash(",", fails), enc), "ok "+c17HeldStr(taker.base.held))
			hist = append(hist, fmt.Sprintf("cleanup with %d failing shim cancels", len(fails)))
		} else {
			hist = append(hist, "cleanup skipped")
		}
		taker.base.cancelFail = nil
		// the next proposal: maybe one pair dropped, new tx, later hint
		if len(cur) > 1 && rng.Intn(3) == 0 {
			cur = cur[:len(cur)-1]
		}
		hint += uint32(1 + rng.Intn(6))
	}
	r.Distinct(fmt.Sprintf("repro|%d", c.Seed))
}
