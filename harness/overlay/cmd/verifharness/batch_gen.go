//go:build verif

package main

// Proposal generator of the C01/C02/C03 stream: honest auctioneer simulation,
// hostile-but-consistent knobs, and a catalogue of single-field deviations.

import (
	"crypto/sha256"
	"encoding/hex"
	"encoding/json"
	"fmt"
	"math/big"
	"math/rand"

	"github.com/lightninglabs/pool/order"
	"github.com/lightninglabs/pool/poolscript"
)

type bGen struct {
	rng    *rand.Rand
	search bool
	prop   string
	serial int
}

var bVersions = []uint32{0, 1, 2, 10, 11, 10 | 0x10, 10 | 0x20, 10 | 0x30, 10 | 0x30, 10 | 0x30, 2 | 0x20, 0x30}

func (g *bGen) pickVersion() uint32 { return bVersions[g.rng.Intn(len(bVersions))] }

var bDurations = []uint32{144, 1008, 2016, 4032, 8064, 52560}

func (g *bGen) nonce() string {
	g.serial++
	h := sha256.Sum256([]byte(fmt.Sprintf("nonce-%d-%d", g.serial, g.rng.Int63())))
	return hex.EncodeToString(h[:])
}

// hostile knobs: the proposal stays self-consistent (scripts / balances are
// recomputed), so only the property's oracle can object.
type bHostile struct {
	expiry  map[int]uint32 // account index -> new expiry sent by the auctioneer
	version map[int]uint32 // account index -> new version sent
	dup     int            // account index whose diff is duplicated with a second fee (-1 none)
	// re-proposals: keep the accounts' stored values; send no expiry / version change
	keepValues bool
	noChange   bool
}

func (g *bGen) genCase(version uint32, idx int) *bCase {
	rng := g.rng
	c := &bCase{Devs: []string{}}
	best := uint32(1000 + rng.Intn(800_000))
	c.Best = best
	c.Env.OurNode = bKeyHex(bKeyNodeOurs)
	c.Env.Version = version
	c.Env.MinNoDust = int64(order.MinNoDustAccountSize)
	c.Msg.ID = bKeyHex(bKeyBatchID + rng.Intn(64))
	c.Msg.Version = version
	c.Msg.HeightHint = uint32(int64(best) + int64(rng.Intn(7)) - 3)
	c.Msg.ExecBase = uint64(rng.Intn(3000))
	c.Msg.ExecRate = uint64(rng.Intn(3000))
	if rng.Intn(10) == 0 {
		c.Msg.ExecBase, c.Msg.ExecRate = 0, 0
	}
	c.Msg.FeeRate = uint64(253 + rng.Intn(20000))
	if rng.Intn(8) == 0 {
		c.Msg.FeeRate = 253
	}

	// markets
	nMk := 1 + rng.Intn(3)
	perm := rng.Perm(len(bDurations))
	for i := 0; i < nMk; i++ {
		price := uint32(1 + rng.Intn(20000))
		switch rng.Intn(8) {
		case 0:
			price = uint32(1 + rng.Intn(50))
		case 1:
			price = uint32(100000 + rng.Intn(2_000_000))
		}
		c.Msg.Markets = append(c.Msg.Markets, bMarket{Duration: bDurations[perm[i]], Price: price, Orders: []bMatched{}})
	}

	// accounts
	nAcct := 1 + rng.Intn(4)
	aperm := rng.Perm(6)
	for i := 0; i < nAcct; i++ {
		k := aperm[i]
		sec := sha256.Sum256([]byte(fmt.Sprintf("secret-%d", k)))
		c.Env.Accounts = append(c.Env.Accounts, bAcct{
			Key:        bKeyHex(bKeyAcct + k),
			Value:      0, // fixed below
			Expiry:     best + uint32(144+rng.Intn(52000)),
			Version:    uint8(rng.Intn(3)),
			Auctioneer: bKeyHex(bKeyAcct + 10 + k),
			BatchKey:   bKeyHex(bKeyAcct + 20 + rng.Intn(8)),
			Secret:     hex.EncodeToString(sec[:]),
		})
	}

	// own orders with their matches
	nOrd := 1 + rng.Intn(6)
	for i := 0; i < nOrd; i++ {
		mk := &c.Msg.Markets[rng.Intn(len(c.Msg.Markets))]
		o := bOurs{
			Nonce:         g.nonce(),
			IsAsk:         rng.Intn(2) == 0,
			AcctKey:       c.Env.Accounts[rng.Intn(nAcct)].Key,
			AcctKeyParses: true,
			Duration:      mk.Duration,
			ChanType:      uint8(rng.Intn(3)),
			KeyIndex:      uint32(bKeyOurMulti + rng.Intn(12)),
			Allowed:       []string{},
			NotAllowed:    []string{},
		}
		if rng.Intn(5) == 0 {
			o.AuctionType = 1
		}
		if o.IsAsk {
			o.Rate = uint32(rng.Int63n(int64(mk.Price) + 1))
			if rng.Intn(4) == 0 {
				o.Rate = mk.Price
			}
		} else {
			o.Rate = mk.Price + uint32(rng.Intn(5000))
			if rng.Intn(4) == 0 {
				o.Rate = mk.Price
			}
			switch {
			case o.AuctionType == 1:
				o.SelfChanBalance = int64(100_000 * (1 + rng.Intn(20)))
			case rng.Intn(4) == 0:
				o.SelfChanBalance = int64(rng.Intn(40)) * 50_000
			}
			if rng.Intn(5) == 0 {
				o.Sidecar = 2
				o.SidecarKey = bKeyHex(bKeySidecar + rng.Intn(4))
				// the recipient is another node (rarely our own, sometimes unknown)
				switch rng.Intn(8) {
				case 0:
					o.SidecarNodeKey = ""
				case 1:
					o.SidecarNodeKey = bKeyHex(bKeyNodeOurs)
				default:
					o.SidecarNodeKey = bKeyHex(bKeyTheirNode + 24 + rng.Intn(4))
				}
			}
		}
		nMatch := 1 + rng.Intn(4)
		if o.AuctionType == 1 && rng.Intn(3) > 0 {
			nMatch = 1
		}
		mo := bMatched{Nonce: o.Nonce, Asks: []bTheir{}, Bids: []bTheir{}}
		var total uint64
		var nodes []string
		for m := 0; m < nMatch; m++ {
			t := bTheir{
				Nonce:       g.nonce(),
				AuctionType: o.AuctionType,
				Duration:    o.Duration,
				ChanType:    int32(rng.Intn(4)),
				NodeKey:     bKeyHex(bKeyTheirNode + rng.Intn(16)),
				MultiSigKey: bKeyHex(bKeyTheirMS + rng.Intn(16)),
				UnitsFilled: uint32(1 + rng.Intn(20)),
				Version:     6,
			}
			// half of the counterparty orders were created by older software
			if rng.Intn(2) == 0 {
				t.Version = uint32(rng.Intn(7))
			}
			// keys may arrive in any valid SEC encoding
			if rng.Intn(6) == 0 {
				t.NodeKeyEnc = 1 + rng.Intn(2)
			}
			if rng.Intn(6) == 0 {
				t.MultiSigKeyEnc = 1 + rng.Intn(2)
			}
			if o.AuctionType == 1 {
				t.UnitsFilled = 1
			}
			if rng.Intn(12) == 0 {
				t.UnitsFilled = uint32(1 + rng.Intn(3000))
			}
			if o.IsAsk {
				t.Rate = o.Rate + uint32(rng.Intn(3000))
				if rng.Intn(4) == 0 {
					t.Rate = o.Rate
				}
				switch {
				case o.AuctionType == 1:
					t.SelfChanBalance = uint64(100_000 * (1 + rng.Intn(20)))
				case rng.Intn(4) == 0:
					t.SelfChanBalance = uint64(rng.Intn(40)) * 50_000
				}
				mo.Bids = append(mo.Bids, t)
			} else {
				t.Rate = uint32(rng.Int63n(int64(o.Rate) + 1))
				if rng.Intn(4) == 0 {
					t.Rate = o.Rate
				}
				mo.Asks = append(mo.Asks, t)
			}
			total += uint64(t.UnitsFilled)
			nodes = append(nodes, t.NodeKey)
		}
		o.UnitsUnfulfilled = total + uint64(rng.Intn(3))*uint64(rng.Intn(10))
		// half of the orders were partially filled by earlier batches
		o.Units = o.UnitsUnfulfilled
		if rng.Intn(2) == 0 {
			o.Units += uint64(1 + rng.Intn(30))
		}
		if o.Sidecar != 0 {
			// the ticket's offer is independent of the bid's own fields
			o.TicketCapacity = int64(o.Units) * 100_000
			o.TicketPushAmt = o.SelfChanBalance
			if rng.Intn(2) == 0 {
				o.TicketPushAmt = int64(rng.Intn(6)) * 50_000
			}
		}
		o.MinUnitsMatch = 1 + uint64(rng.Int63n(int64(total)))
		if rng.Intn(3) == 0 {
			o.MinUnitsMatch = total
		}
		if o.AuctionType == 1 && rng.Intn(2) == 0 {
			o.MinUnitsMatch = total + uint64(rng.Intn(5)) // not enforced in the outbound market
		}
		switch rng.Intn(6) {
		case 0:
			o.Allowed = append(append([]string{}, nodes...), bKeyHex(bKeyTheirNode+20))
		case 1:
			o.NotAllowed = []string{bKeyHex(bKeyTheirNode + 20), bKeyHex(bKeyTheirNode + 21)}
		}
		c.Env.Orders = append(c.Env.Orders, o)
		mk.Orders = append(mk.Orders, mo)
	}
	// occasionally an outbound order without any match (accepted by Verify)
	if rng.Intn(25) == 0 {
		mk := &c.Msg.Markets[0]
		o := bOurs{Nonce: g.nonce(), IsAsk: false, AcctKey: c.Env.Accounts[0].Key, AcctKeyParses: true,
			AuctionType: 1, Duration: mk.Duration, Rate: mk.Price, UnitsUnfulfilled: 1, MinUnitsMatch: 1,
			KeyIndex: uint32(bKeyOurMulti), Allowed: []string{}, NotAllowed: []string{}, SelfChanBalance: 100_000}
		c.Env.Orders = append(c.Env.Orders, o)
		mk.Orders = append(mk.Orders, bMatched{Nonce: o.Nonce, Asks: []bTheir{}, Bids: []bTheir{}})
	}

	// hostile-but-consistent knobs (C02 focus)
	h := bHostile{expiry: map[int]uint32{}, version: map[int]uint32{}, dup: -1}
	pHost := 12
	if g.prop == "C02" {
		pHost = 5
	}
	if g.search {
		pHost = 2
	}
	// (only in the C02 stream: these proposals are decided differently by the code
	// as found and the repaired code, and C01/C03 do not depend on that repair)
	if g.prop == "C02" && rng.Intn(pHost) == 0 {
		ai := rng.Intn(nAcct)
		switch rng.Intn(4) {
		case 3:
			c.PremiumAlt = 1 + rng.Intn(4)
			c.Devs = append(c.Devs, fmt.Sprintf("hostile-premium-formula-%d", c.PremiumAlt))
		case 0:
			max := uint64(best) + uint64(bMaxAccountExpiry)
			vals := []uint64{max + 1, max + 2, max + 1000, 0xffffffff, max, max - 1, uint64(best), 1}
			v := vals[rng.Intn(len(vals))]
			if v > 0xffffffff {
				v = 0xffffffff
			}
			h.expiry[ai] = uint32(v)
			c.Devs = append(c.Devs, "hostile-expiry")
		case 1:
			vals := []uint32{3, 4, 77, 255, 256 + 3, 2, 1, 256 + 1}
			h.version[ai] = vals[rng.Intn(len(vals))]
			c.Devs = append(c.Devs, "hostile-version")
		case 2:
			h.dup = ai
			c.Devs = append(c.Devs, "hostile-dup-diff")
		}
	}

	g.settle(c, &h)

	// single-field deviations
	nDev := 0
	switch x := rng.Intn(100); {
	case x < 42:
		nDev = 0
	case x < 85:
		nDev = 1
	default:
		nDev = 2
	}
	if g.search && nDev == 0 {
		nDev = 1
	}
	for i := 0; i < nDev; i++ {
		g.deviate(c)
	}
	// a fraction of the cases keeps its orders in a real clientdb store (not with sidecar
	// tickets, whose partial mock tickets the store cannot serialise; nor with duplicates)
	pReal := 10
	for _, d := range c.Devs {
		switch d {
		case "our-min-match", "our-unfulfilled", "their-units", "drop-match", "extra-match":
			// the stored size terms decide these cases: more often against the real store
			pReal = 2
		}
	}
	if rng.Intn(pReal) == 0 {
		ok := true
		seen := map[string]bool{}
		for _, o := range c.Env.Orders {
			if o.Sidecar != 0 || seen[o.Nonce] {
				ok = false
			}
			seen[o.Nonce] = true
		}
		c.RealStore = ok
	}
	return c
}

// reproposal: another prepare message for the same batch ID, as the auctioneer
// sends when a batch needs adjustment – on the same manager, possibly after the
// trader's database changed in between.
func (g *bGen) reproposal(prev *bCase) *bCase {
	rng := g.rng
	js, _ := json.Marshal(prev)
	c := &bCase{}
	if err := json.Unmarshal(js, c); err != nil {
		panic(err)
	}
	c.Visit, c.MarketOrder = nil, nil
	if len(c.Env.Accounts) == 0 || len(c.Env.Orders) == 0 || len(c.Msg.Markets) == 0 {
		c.Devs = []string{"reproposal-resend"}
		return c
	}
	h := &bHostile{expiry: map[int]uint32{}, version: map[int]uint32{}, dup: -1, keepValues: true}
	switch rng.Intn(7) {
	case 6:
		// same batch key, another new expiry in the diff, but the account output still
		// pays to the script of the previously proposed expiry
		c.Devs = []string{"reproposal-stale-expiry-script"}
		changed := false
		for i := range c.Msg.Diffs {
			d := &c.Msg.Diffs[i]
			if bSupportsExt(c.Msg.Version) && d.OutpointIndex >= 0 {
				if d.NewExpiry == 0 {
					d.NewExpiry = c.Best + uint32(144+rng.Intn(int(bMaxAccountExpiry)-144))
				} else {
					d.NewExpiry = c.Best + 144 + (d.NewExpiry-c.Best+uint32(1+rng.Intn(1000)))%(bMaxAccountExpiry-144)
				}
				changed = true
			}
		}
		if !changed {
			c.Devs = []string{"reproposal-resend"}
		}
	case 0:
		c.Devs = []string{"reproposal-resend"}
	case 1:
		// settled as if the previous proposal's account changes were already applied
		c.Devs = []string{"reproposal-as-if-applied"}
		saved := append([]bAcct{}, c.Env.Accounts...)
		for i := range c.Env.Accounts {
			a := &c.Env.Accounts[i]
			for _, d := range prev.Msg.Diffs {
				if d.AcctKey != a.Key {
					continue
				}
				if bSupportsExt(prev.Msg.Version) && d.NewExpiry != 0 {
					a.Expiry = d.NewExpiry
				}
				if bSupportsUpgrade(prev.Msg.Version) && d.NewVersion&0xff > uint32(a.Version) && d.NewVersion&0xff < 3 {
					a.Version = uint8(d.NewVersion)
				}
			}
		}
		h.noChange = true
		g.settle(c, h)
		for i := range c.Env.Accounts {
			c.Env.Accounts[i].Expiry, c.Env.Accounts[i].Version = saved[i].Expiry, saved[i].Version
		}
	case 2:
		// the same proposal again although the stored account changed meanwhile
		c.Devs = []string{"reproposal-db-changed-resend"}
		a := &c.Env.Accounts[rng.Intn(len(c.Env.Accounts))]
		switch rng.Intn(3) {
		case 0:
			a.Value += int64(1 + rng.Intn(100_000))
		case 1:
			a.Version = uint8((int(a.Version) + 1) % 3)
		default:
			a.Expiry += uint32(1 + rng.Intn(1000))
		}
	case 3:
		// the stored account changed and the auctioneer follows
		c.Devs = []string{"reproposal-db-changed-resettled"}
		a := &c.Env.Accounts[rng.Intn(len(c.Env.Accounts))]
		a.Value += int64(1 + rng.Intn(100_000))
		if rng.Intn(2) == 0 {
			a.Version = uint8((int(a.Version) + 1) % 3)
		}
		g.settle(c, h)
	case 4:
		// the same matches, this time without any expiry / version change
		c.Devs = []string{"reproposal-without-account-change"}
		h.noChange = true
		g.settle(c, h)
	default:
		// freshly settled (new random expiry extension / upgrade choices)
		c.Devs = []string{"reproposal-resettled"}
		g.settle(c, h)
	}
	if rng.Intn(4) == 0 {
		g.deviate(c)
	}
	return c
}

// settle plays the honest auctioneer for everything not fixed yet: account
// values, ending balances, account and channel outputs, diffs.
func (g *bGen) settle(c *bCase, h *bHostile) {
	rng := g.rng
	minNoDust := int64(order.MinNoDustAccountSize)
	var outs []bTxOut
	// channel outputs
	for _, m := range c.allMatches() {
		o, t := m.o, m.t
		if o == nil {
			continue // (re-proposals of deviated cases) unknown order: nothing to fund
		}
		self := int64(0)
		if !o.IsAsk {
			self = o.SelfChanBalance
		} else {
			self = int64(t.SelfChanBalance)
		}
		ourKey := bKeyHex(int(o.KeyIndex & 0xff))
		if !o.IsAsk && o.Sidecar == 2 {
			ourKey = o.SidecarKey
		}
		taproot := o.ChanType == 2 && t.ChanType == 3
		s := bFundScriptOf(taproot, ourKey, t.MultiSigKey)
		if s == nil {
			continue
		}
		outs = append(outs, bTxOut{Value: int64(t.UnitsFilled)*100_000 + self, Script: *s})
	}
	// accounts: choose the starting value so that the ending balance lands
	// where we want it (well above, just above, just below dust, zero)
	type pend struct {
		d      bDiff
		script string
	}
	var diffs []pend
	for ai := range c.Env.Accounts {
		a := &c.Env.Accounts[ai]
		keep := a.Value
		a.Value = 0
		prem := bSpecPremium
		if c.PremiumAlt != 0 {
			kind := c.PremiumAlt
			prem = func(amt int64, rate, dur uint32) int64 { return bAltPremium(kind, amt, rate, dur) }
		}
		end0, _, involved := c.endingBalanceWith(a, prem)
		if !involved {
			a.Value = int64(100_000 + rng.Intn(10_000_000))
			if h.keepValues {
				a.Value = keep
			}
			continue
		}
		// end0 = -(total cost)
		cost := new(big.Int).Neg(end0).Int64()
		var rem int64
		switch rng.Intn(10) {
		case 0:
			rem = 0
		case 1:
			rem = minNoDust - 1
		case 2:
			rem = minNoDust
		case 3:
			rem = int64(rng.Intn(int(2 * minNoDust)))
		default:
			rem = minNoDust + int64(rng.Intn(50_000_000))
		}
		if cost+rem < 0 {
			rem = -cost + minNoDust + 5
		}
		a.Value = cost + rem
		if h.keepValues {
			a.Value = keep
		}
		end, n, _ := c.endingBalanceWith(a, prem)
		ending := end.Int64()
		d := bDiff{AcctKey: a.Key, EndingBalance: uint64(ending), OutpointIndex: -1, NewVersion: uint32(a.Version)}
		// expiry extension / version upgrade as an honest auctioneer does
		newExp, newVer := a.Expiry, uint32(a.Version)
		if bSupportsExt(c.Msg.Version) && rng.Intn(2) == 0 && !h.noChange {
			d.NewExpiry = c.Best + uint32(144+rng.Intn(int(bMaxAccountExpiry)-144))
		}
		if bSupportsUpgrade(c.Msg.Version) && a.Version < 2 && rng.Intn(2) == 0 && !h.noChange {
			d.NewVersion = uint32(a.Version) + 1
			if c.Msg.Version&0x20 != 0 && rng.Intn(2) == 0 {
				d.NewVersion = 2
			}
		}
		if v, ok := h.expiry[ai]; ok {
			d.NewExpiry = v
		}
		if v, ok := h.version[ai]; ok {
			d.NewVersion = v
		}
		if bSupportsExt(c.Msg.Version) && d.NewExpiry != 0 {
			newExp = d.NewExpiry
		}
		if bSupportsUpgrade(c.Msg.Version) && d.NewVersion&0xff > newVer {
			newVer = d.NewVersion & 0xff
		}
		script := ""
		asDust := ending < minNoDust
		// hostile at the threshold: a balance of exactly the threshold presented as
		// dust, or one satoshi below presented as a re-created output
		if (ending == minNoDust || ending == minNoDust-1) && rng.Intn(3) == 0 {
			asDust = !asDust
			c.Devs = append(c.Devs, "hostile-dust-boundary")
		}
		if !asDust {
			d.EndingState = 0
			script, _ = a.nextScript(bScriptVersion(uint8(newVer)), newExp)
		} else {
			d.EndingState = int32(1 + rng.Intn(3))
		}
		diffs = append(diffs, pend{d, script})
		if h.dup == ai {
			// a second diff for the same account: Verify subtracts the
			// chain fee a second time
			fee := specChainFee(n, c.Msg.FeeRate, a.Version).Int64()
			d2 := d
			d2.EndingBalance = uint64(ending - fee)
			if ending-fee >= minNoDust {
				d2.EndingState = 0
			} else {
				d2.EndingState = 2
				script = ""
			}
			diffs = append(diffs, pend{d2, script})
		}
	}
	// account outputs, then shuffle all outputs and fix the indexes
	type tagged struct {
		out  bTxOut
		diff int
	}
	var all []tagged
	for _, o := range outs {
		all = append(all, tagged{o, -1})
	}
	for i, p := range diffs {
		if p.script != "" {
			all = append(all, tagged{bTxOut{Value: int64(p.d.EndingBalance), Script: p.script}, i})
		}
	}
	rng.Shuffle(len(all), func(i, j int) { all[i], all[j] = all[j], all[i] })
	c.Msg.TxOuts = []bTxOut{}
	for i, t := range all {
		c.Msg.TxOuts = append(c.Msg.TxOuts, t.out)
		if t.diff >= 0 {
			diffs[t.diff].d.OutpointIndex = int32(i)
		}
	}
	c.Msg.Diffs = []bDiff{}
	for _, p := range diffs {
		c.Msg.Diffs = append(c.Msg.Diffs, p.d)
	}
}

// ---------------------------------------------------------------- deviations

func pm1(rng *rand.Rand) int64 {
	if rng.Intn(2) == 0 {
		return 1
	}
	return -1
}

func flipHex(rng *rand.Rand, s string) string {
	if len(s) < 4 {
		return "51"
	}
	b, _ := hex.DecodeString(s)
	b[len(b)-1-rng.Intn(len(b)/2)] ^= byte(1 << uint(rng.Intn(8)))
	return hex.EncodeToString(b)
}

// deviate applies one deviation from the catalogue; its name goes to c.Devs.
func (g *bGen) deviate(c *bCase) {
	rng := g.rng
	type site struct {
		name string
		fn   func() bool
	}
	if len(c.Env.Orders) == 0 || len(c.Env.Accounts) == 0 || len(c.Msg.Markets) == 0 {
		return
	}
	pickOrder := func() *bOurs { return &c.Env.Orders[rng.Intn(len(c.Env.Orders))] }
	pickMatched := func() (*bMarket, *bMatched) {
		var cands [][2]int
		for i := range c.Msg.Markets {
			for j := range c.Msg.Markets[i].Orders {
				cands = append(cands, [2]int{i, j})
			}
		}
		if len(cands) == 0 {
			return nil, nil
		}
		p := cands[rng.Intn(len(cands))]
		return &c.Msg.Markets[p[0]], &c.Msg.Markets[p[0]].Orders[p[1]]
	}
	pickTheir := func() (*bMatched, *bTheir, bool) {
		_, mo := pickMatched()
		if mo == nil {
			return nil, nil, false
		}
		if len(mo.Asks) > 0 {
			return mo, &mo.Asks[rng.Intn(len(mo.Asks))], true
		}
		if len(mo.Bids) > 0 {
			return mo, &mo.Bids[rng.Intn(len(mo.Bids))], false
		}
		return mo, nil, false
	}
	pickDiff := func() *bDiff {
		if len(c.Msg.Diffs) == 0 {
			return nil
		}
		return &c.Msg.Diffs[rng.Intn(len(c.Msg.Diffs))]
	}
	pickOut := func() *bTxOut {
		if len(c.Msg.TxOuts) == 0 {
			return nil
		}
		return &c.Msg.TxOuts[rng.Intn(len(c.Msg.TxOuts))]
	}
	sumUnits := func(mo *bMatched) uint64 {
		var s uint64
		for _, t := range mo.Asks {
			s += uint64(t.UnitsFilled)
		}
		for _, t := range mo.Bids {
			s += uint64(t.UnitsFilled)
		}
		return s
	}
	otherDuration := func(d uint32) uint32 {
		for {
			x := bDurations[rng.Intn(len(bDurations))]
			if x != d {
				return x
			}
		}
	}

	sites := []site{
		// ---- batch level
		{"batch-version", func() bool {
			c.Msg.Version = bVersions[rng.Intn(len(bVersions))]
			return true
		}},
		{"batch-version-flag", func() bool { c.Msg.Version ^= 1 << uint(rng.Intn(7)); return true }},
		{"height-hint-edge", func() bool {
			offs := []int64{-4, -3, 3, 4, -5, 5, 100}
			c.Msg.HeightHint = uint32(int64(c.Best) + offs[rng.Intn(len(offs))])
			return true
		}},
		{"height-wrap", func() bool {
			switch rng.Intn(4) {
			case 0:
				c.Best, c.Msg.HeightHint = uint32(rng.Intn(3)), uint32(rng.Intn(6))
			case 1:
				c.Best, c.Msg.HeightHint = 0xffffffff-uint32(rng.Intn(3)), 0xffffffff-uint32(rng.Intn(6))
			case 2:
				c.Best, c.Msg.HeightHint = uint32(rng.Intn(8)), 0xffffffff-uint32(rng.Intn(3))
			default:
				c.Best, c.Msg.HeightHint = 0xffffffff-uint32(rng.Intn(3)), uint32(rng.Intn(3))
			}
			return true
		}},
		{"fee-rate", func() bool { c.Msg.FeeRate = uint64(int64(c.Msg.FeeRate) + pm1(rng)); return true }},
		{"exec-base", func() bool { c.Msg.ExecBase++; return true }},
		{"exec-rate", func() bool { c.Msg.ExecRate++; return true }},
		{"clearing-price", func() bool {
			mk := &c.Msg.Markets[rng.Intn(len(c.Msg.Markets))]
			switch rng.Intn(3) {
			case 0:
				mk.Price = uint32(int64(mk.Price) + pm1(rng))
			case 1:
				mk.Price = uint32(rng.Intn(30000))
			default:
				// just across one of our orders' rates
				o := pickOrder()
				mk2 := c.market(o.Duration)
				if mk2 == nil {
					return false
				}
				if o.IsAsk {
					if o.Rate == 0 {
						return false
					}
					mk2.Price = o.Rate - 1
				} else {
					mk2.Price = o.Rate + 1
				}
			}
			return true
		}},
		{"market-duration", func() bool {
			mk := &c.Msg.Markets[rng.Intn(len(c.Msg.Markets))]
			d := otherDuration(mk.Duration)
			if c.market(d) != nil {
				return false
			}
			mk.Duration = d
			return true
		}},
		{"move-order-to-other-market", func() bool {
			if len(c.Msg.Markets) < 2 {
				return false
			}
			i := rng.Intn(len(c.Msg.Markets))
			j := (i + 1 + rng.Intn(len(c.Msg.Markets)-1)) % len(c.Msg.Markets)
			if len(c.Msg.Markets[i].Orders) == 0 {
				return false
			}
			k := rng.Intn(len(c.Msg.Markets[i].Orders))
			mo := c.Msg.Markets[i].Orders[k]
			c.Msg.Markets[i].Orders = append(c.Msg.Markets[i].Orders[:k:k], c.Msg.Markets[i].Orders[k+1:]...)
			if rng.Intn(2) == 0 {
				// and pretend their orders have the new duration
				for x := range mo.Asks {
					mo.Asks[x].Duration = c.Msg.Markets[j].Duration
				}
				for x := range mo.Bids {
					mo.Bids[x].Duration = c.Msg.Markets[j].Duration
				}
			}
			c.Msg.Markets[j].Orders = append(c.Msg.Markets[j].Orders, mo)
			return true
		}},
		{"same-nonce-in-two-markets", func() bool {
			// the entry of one of our orders appears a second time in another market
			// (their orders relabelled to that market's duration so that the bucket
			// check passes): which copy ParseRPCBatch keeps depends on Go's map order
			if len(c.Msg.Markets) < 2 {
				return false
			}
			i := rng.Intn(len(c.Msg.Markets))
			j := (i + 1 + rng.Intn(len(c.Msg.Markets)-1)) % len(c.Msg.Markets)
			if len(c.Msg.Markets[i].Orders) == 0 {
				return false
			}
			src := c.Msg.Markets[i].Orders[rng.Intn(len(c.Msg.Markets[i].Orders))]
			for _, mo := range c.Msg.Markets[j].Orders {
				if mo.Nonce == src.Nonce {
					return false
				}
			}
			cp := bMatched{Nonce: src.Nonce, Asks: append([]bTheir{}, src.Asks...), Bids: append([]bTheir{}, src.Bids...)}
			for x := range cp.Asks {
				cp.Asks[x].Duration = c.Msg.Markets[j].Duration
			}
			for x := range cp.Bids {
				cp.Bids[x].Duration = c.Msg.Markets[j].Duration
			}
			if rng.Intn(2) == 0 && len(cp.Asks)+len(cp.Bids) > 1 {
				if len(cp.Asks) > 0 {
					cp.Asks = cp.Asks[:len(cp.Asks)-1]
				} else {
					cp.Bids = cp.Bids[:len(cp.Bids)-1]
				}
			}
			c.Msg.Markets[j].Orders = append(c.Msg.Markets[j].Orders, cp)
			return true
		}},
		// ---- our stored order
		{"our-rate", func() bool {
			o := pickOrder()
			mk := c.market(o.Duration)
			switch rng.Intn(3) {
			case 0:
				o.Rate = uint32(int64(o.Rate) + pm1(rng))
			case 1:
				if mk == nil {
					return false
				}
				o.Rate = uint32(int64(mk.Price) + pm1(rng))
			default:
				o.Rate = uint32(rng.Intn(30000))
			}
			return true
		}},
		{"our-duration", func() bool { o := pickOrder(); o.Duration = otherDuration(o.Duration); return true }},
		{"our-auction-type", func() bool { o := pickOrder(); o.AuctionType ^= 1; return true }},
		{"our-side", func() bool { o := pickOrder(); o.IsAsk = !o.IsAsk; return true }},
		{"our-unfulfilled", func() bool {
			_, mo := pickMatched()
			if mo == nil {
				return false
			}
			o := c.ours(mo.Nonce)
			if o == nil {
				return false
			}
			s := sumUnits(mo)
			vals := []uint64{s - 1, s, s + 1, 0}
			o.UnitsUnfulfilled = vals[rng.Intn(len(vals))]
			return true
		}},
		{"our-min-match", func() bool {
			_, mo := pickMatched()
			if mo == nil {
				return false
			}
			o := c.ours(mo.Nonce)
			if o == nil {
				return false
			}
			s := sumUnits(mo)
			vals := []uint64{s - 1, s, s + 1, s + 100}
			o.MinUnitsMatch = vals[rng.Intn(len(vals))]
			return true
		}},
		{"our-chan-type", func() bool { o := pickOrder(); o.ChanType = uint8((int(o.ChanType) + 1 + rng.Intn(2)) % 3); return true }},
		{"our-self-balance", func() bool {
			o := pickOrder()
			if o.IsAsk {
				return false
			}
			o.SelfChanBalance += pm1(rng) * int64(1+rng.Intn(2)*99_999)
			return true
		}},
		{"our-key-index", func() bool {
			o := pickOrder()
			if rng.Intn(3) == 0 {
				o.KeyIndex = 0xffff
			} else {
				o.KeyIndex = uint32(bKeyOurMulti + (int(o.KeyIndex)-bKeyOurMulti+1+rng.Intn(11))%12)
			}
			return true
		}},
		{"our-sidecar", func() bool {
			o := pickOrder()
			if o.IsAsk {
				return false
			}
			if rng.Intn(2) == 0 {
				// a ticket the recipient has not registered yet
				o.Sidecar = 1
				return true
			}
			switch o.Sidecar {
			case 0:
				o.Sidecar, o.SidecarKey = 2, bKeyHex(bKeySidecar+rng.Intn(4))
			case 2:
				if rng.Intn(2) == 0 {
					o.Sidecar = 1
				} else {
					o.Sidecar = 0
				}
			default:
				o.Sidecar = 0
			}
			return true
		}},
		{"our-acct-key", func() bool {
			o := pickOrder()
			switch rng.Intn(3) {
			case 0: // not a curve point
				o.AcctKey = "05" + o.AcctKey[2:]
				o.AcctKeyParses = false
			case 1: // an account we do not have
				o.AcctKey = bKeyHex(bKeyAcct + 30)
			default: // another of our accounts
				o.AcctKey = c.Env.Accounts[rng.Intn(len(c.Env.Accounts))].Key
			}
			return true
		}},
		{"our-order-missing", func() bool {
			if len(c.Env.Orders) == 0 {
				return false
			}
			i := rng.Intn(len(c.Env.Orders))
			c.Env.Orders = append(c.Env.Orders[:i:i], c.Env.Orders[i+1:]...)
			if len(c.Env.Orders) == 0 {
				c.Env.Orders = []bOurs{}
			}
			return true
		}},
		{"allow-list", func() bool {
			_, t, _ := pickTheir()
			o := pickOrder()
			switch rng.Intn(4) {
			case 0:
				o.Allowed = []string{bKeyHex(bKeyTheirNode + 22)}
			case 1:
				if t == nil {
					return false
				}
				o.Allowed = []string{t.NodeKey}
			case 2:
				if len(o.Allowed) == 0 {
					return false
				}
				o.Allowed = o.Allowed[1:]
			default:
				o.Allowed = append(o.Allowed, bKeyHex(bKeyTheirNode+23))
			}
			return true
		}},
		{"deny-list", func() bool {
			mo, t, _ := pickTheir()
			if t == nil {
				return false
			}
			o := c.ours(mo.Nonce)
			if o == nil {
				return false
			}
			o.NotAllowed = append(o.NotAllowed, t.NodeKey)
			t.NodeKeyEnc = rng.Intn(3)
			if rng.Intn(3) == 0 {
				// both lists set: the allow list wins
				o.Allowed = append(o.Allowed, t.NodeKey)
			}
			return true
		}},
		// ---- their orders
		{"their-side", func() bool {
			_, mo := pickMatched()
			if mo == nil {
				return false
			}
			switch rng.Intn(3) {
			case 0:
				mo.Asks, mo.Bids = mo.Bids, mo.Asks
			case 1:
				if len(mo.Asks) > 0 {
					mo.Bids = append(mo.Bids, mo.Asks[0])
				} else if len(mo.Bids) > 0 {
					mo.Asks = append(mo.Asks, mo.Bids[0])
				} else {
					return false
				}
			default:
				mo.Asks, mo.Bids = []bTheir{}, []bTheir{}
			}
			return true
		}},
		{"their-order-version", func() bool {
			_, t, _ := pickTheir()
			if t == nil {
				return false
			}
			t.Version = uint32(rng.Intn(8))
			return true
		}},
		{"their-duration-old-version", func() bool {
			// another lease duration on an order of a version that pre-dates duration buckets
			_, t, _ := pickTheir()
			if t == nil {
				return false
			}
			t.Version = uint32(rng.Intn(2))
			if rng.Intn(4) == 0 {
				t.Duration = 0
			} else {
				t.Duration = otherDuration(t.Duration)
			}
			return true
		}},
		{"their-duration", func() bool {
			_, t, _ := pickTheir()
			if t == nil {
				return false
			}
			t.Duration = otherDuration(t.Duration)
			return true
		}},
		{"their-auction-type", func() bool {
			_, t, _ := pickTheir()
			if t == nil {
				return false
			}
			t.AuctionType ^= 1
			return true
		}},
		{"their-rate", func() bool {
			mo, t, isAsk := pickTheir()
			if t == nil {
				return false
			}
			o := c.ours(mo.Nonce)
			if o == nil || rng.Intn(3) == 0 {
				t.Rate = uint32(int64(t.Rate) + pm1(rng))
				return true
			}
			if isAsk {
				t.Rate = o.Rate + 1
			} else {
				if o.Rate == 0 {
					return false
				}
				t.Rate = o.Rate - 1
			}
			return true
		}},
		{"their-node-key", func() bool {
			mo, t, _ := pickTheir()
			// half of the time aim at a match of one of our sidecar bids
			if rng.Intn(2) == 0 {
				for _, m := range c.allMatches() {
					if m.o != nil && !m.o.IsAsk && m.o.Sidecar == 2 {
						t = m.t
						for i := range c.Msg.Markets {
							for j := range c.Msg.Markets[i].Orders {
								if c.Msg.Markets[i].Orders[j].Nonce == m.o.Nonce {
									mo = &c.Msg.Markets[i].Orders[j]
								}
							}
						}
						break
					}
				}
			}
			if t == nil {
				return false
			}
			t.NodeKeyEnc = rng.Intn(3)
			switch rng.Intn(4) {
			case 0, 1:
				t.NodeKey = c.Env.OurNode
			case 2:
				// the node the channel of a sidecar order is really opened with
				if o := c.ours(mo.Nonce); o != nil && o.SidecarNodeKey != "" {
					t.NodeKey = o.SidecarNodeKey
				} else {
					t.NodeKey = c.Env.OurNode
				}
			default:
				t.NodeKey = bKeyHex(bKeyTheirNode + 16 + rng.Intn(4))
			}
			return true
		}},
		{"their-multisig-key", func() bool {
			_, t, _ := pickTheir()
			if t == nil {
				return false
			}
			t.MultiSigKey = bKeyHex(bKeyTheirMS + 16 + rng.Intn(4))
			return true
		}},
		{"their-units", func() bool {
			_, t, _ := pickTheir()
			if t == nil {
				return false
			}
			switch rng.Intn(4) {
			case 0:
				t.UnitsFilled = uint32(int64(t.UnitsFilled) + pm1(rng))
			case 1:
				t.UnitsFilled = 0
			case 2:
				t.UnitsFilled = 0xffffffff
			default:
				t.UnitsFilled = uint32(rng.Intn(100))
			}
			return true
		}},
		{"their-chan-type", func() bool {
			_, t, _ := pickTheir()
			if t == nil {
				return false
			}
			if rng.Intn(6) == 0 {
				t.ChanType = int32(4 + rng.Intn(3)) // unhandled by the parser
			} else {
				t.ChanType = (t.ChanType + 1 + int32(rng.Intn(3))) % 4
			}
			return true
		}},
		{"their-self-balance", func() bool {
			_, t, isAsk := pickTheir()
			if t == nil || isAsk {
				return false
			}
			switch rng.Intn(3) {
			case 0:
				t.SelfChanBalance = uint64(int64(t.SelfChanBalance) + 1)
			case 1:
				t.SelfChanBalance = 1 << 63
			default:
				t.SelfChanBalance += 100_000
			}
			return true
		}},
		{"extra-match", func() bool {
			mo, t, isAsk := pickTheir()
			if t == nil {
				return false
			}
			t2 := *t
			t2.Nonce = g.nonce()
			if rng.Intn(2) == 0 {
				t2.UnitsFilled = 1
			}
			if isAsk {
				mo.Asks = append(mo.Asks, t2)
			} else {
				mo.Bids = append(mo.Bids, t2)
			}
			return true
		}},
		{"repeat-match-same-nonce", func() bool {
			// the same counter order listed a second time for our order (no further output,
			// numbers consistent with the first entry only); the copy may differ in units / key
			mo, t, isAsk := pickTheir()
			if t == nil {
				return false
			}
			t2 := *t
			switch rng.Intn(3) {
			case 0:
				t2.UnitsFilled++
			case 1:
				t2.MultiSigKey = bKeyHex(bKeyTheirMS + 16 + rng.Intn(4))
			}
			if isAsk {
				mo.Asks = append(mo.Asks, t2)
			} else {
				mo.Bids = append(mo.Bids, t2)
			}
			return true
		}},
		{"drop-match", func() bool {
			mo, t, isAsk := pickTheir()
			if t == nil {
				return false
			}
			if isAsk {
				mo.Asks = mo.Asks[:len(mo.Asks)-1]
			} else {
				mo.Bids = mo.Bids[:len(mo.Bids)-1]
			}
			return true
		}},
		{"unknown-our-nonce", func() bool {
			_, mo := pickMatched()
			if mo == nil {
				return false
			}
			mo.Nonce = g.nonce()
			return true
		}},
		// ---- account diffs
		{"diff-balance", func() bool {
			d := pickDiff()
			if d == nil {
				return false
			}
			switch rng.Intn(4) {
			case 0, 1:
				d.EndingBalance = uint64(int64(d.EndingBalance) + pm1(rng))
			case 2:
				d.EndingBalance = uint64(rng.Int63n(1_000_000))
			default:
				d.EndingBalance = 1<<64 - 1
			}
			return true
		}},
		{"diff-balance-and-output", func() bool {
			d := pickDiff()
			if d == nil || d.OutpointIndex < 0 || int(d.OutpointIndex) >= len(c.Msg.TxOuts) {
				return false
			}
			x := pm1(rng)
			d.EndingBalance = uint64(int64(d.EndingBalance) + x)
			c.Msg.TxOuts[d.OutpointIndex].Value += x
			return true
		}},
		{"diff-state", func() bool {
			d := pickDiff()
			if d == nil {
				return false
			}
			vals := []int32{0, 1, 2, 3, 4, -1}
			d.EndingState = vals[rng.Intn(len(vals))]
			return true
		}},
		{"diff-index", func() bool {
			d := pickDiff()
			if d == nil {
				return false
			}
			vals := []int32{-1, 0, int32(len(c.Msg.TxOuts)), int32(len(c.Msg.TxOuts)) - 1, d.OutpointIndex + 1, d.OutpointIndex - 1, -2147483648, 2147483647}
			d.OutpointIndex = vals[rng.Intn(len(vals))]
			return true
		}},
		{"diff-new-expiry", func() bool {
			d := pickDiff()
			if d == nil {
				return false
			}
			max := uint64(c.Best) + uint64(bMaxAccountExpiry)
			vals := []uint64{0, uint64(d.NewExpiry) + 1, uint64(d.NewExpiry) - 1, max, max + 1, 0xffffffff, 1}
			d.NewExpiry = uint32(vals[rng.Intn(len(vals))])
			return true
		}},
		{"diff-new-version", func() bool {
			d := pickDiff()
			if d == nil {
				return false
			}
			vals := []uint32{0, 1, 2, 3, 77, 255, 256, 257}
			d.NewVersion = vals[rng.Intn(len(vals))]
			return true
		}},
		{"diff-acct-key", func() bool {
			d := pickDiff()
			if d == nil {
				return false
			}
			if rng.Intn(2) == 0 {
				d.AcctKey = bKeyHex(bKeyAcct + 31)
			} else {
				d.AcctKey = c.Env.Accounts[rng.Intn(len(c.Env.Accounts))].Key
			}
			return true
		}},
		{"diff-drop", func() bool {
			if len(c.Msg.Diffs) == 0 {
				return false
			}
			i := rng.Intn(len(c.Msg.Diffs))
			c.Msg.Diffs = append(c.Msg.Diffs[:i:i], c.Msg.Diffs[i+1:]...)
			if len(c.Msg.Diffs) == 0 {
				c.Msg.Diffs = []bDiff{}
			}
			return true
		}},
		{"diff-duplicate-plain", func() bool {
			d := pickDiff()
			if d == nil {
				return false
			}
			c.Msg.Diffs = append(c.Msg.Diffs, *d)
			return true
		}},
		{"diff-uninvolved-account", func() bool {
			// a diff for one of our accounts that has no order in the batch
			for i := range c.Env.Accounts {
				a := &c.Env.Accounts[i]
				if _, _, inv := c.specEndingBalance(a); !inv {
					s, _ := a.nextScript(bScriptVersion(a.Version), a.Expiry)
					// charged the chain fee of an account without channels (or an arbitrary amount)
					end := a.Value - specChainFee(0, c.Msg.FeeRate, a.Version).Int64()
					if rng.Intn(4) == 0 {
						end = a.Value - 500
					}
					c.Msg.TxOuts = append(c.Msg.TxOuts, bTxOut{Value: end, Script: s})
					c.Msg.Diffs = append(c.Msg.Diffs, bDiff{AcctKey: a.Key, EndingBalance: uint64(end),
						OutpointIndex: int32(len(c.Msg.TxOuts) - 1), NewVersion: uint32(a.Version)})
					return true
				}
			}
			return false
		}},
		// ---- stored account
		{"acct-value", func() bool {
			a := &c.Env.Accounts[rng.Intn(len(c.Env.Accounts))]
			a.Value += pm1(rng)
			return true
		}},
		{"acct-version", func() bool {
			a := &c.Env.Accounts[rng.Intn(len(c.Env.Accounts))]
			a.Version = uint8((int(a.Version) + 1 + rng.Intn(2)) % 3)
			return true
		}},
		{"acct-expiry", func() bool {
			a := &c.Env.Accounts[rng.Intn(len(c.Env.Accounts))]
			a.Expiry = uint32(int64(a.Expiry) + pm1(rng))
			return true
		}},
		{"acct-batch-key", func() bool {
			a := &c.Env.Accounts[rng.Intn(len(c.Env.Accounts))]
			a.BatchKey = bKeyHex(bKeyAcct + 28 + rng.Intn(2))
			return true
		}},
		{"acct-secret", func() bool {
			a := &c.Env.Accounts[rng.Intn(len(c.Env.Accounts))]
			a.Secret = flipHex(rng, a.Secret)
			return true
		}},
		{"acct-auctioneer-key", func() bool {
			a := &c.Env.Accounts[rng.Intn(len(c.Env.Accounts))]
			a.Auctioneer = bKeyHex(bKeyAcct + 18 + rng.Intn(2))
			return true
		}},
		{"acct-missing", func() bool {
			if len(c.Env.Accounts) < 2 {
				return false
			}
			i := rng.Intn(len(c.Env.Accounts))
			c.Env.Accounts = append(c.Env.Accounts[:i:i], c.Env.Accounts[i+1:]...)
			return true
		}},
		// ---- transaction outputs
		{"out-value-alt-balance", func() bool {
			// a channel output funded with another plausible balance than the bid's
			// self channel balance (ticket push amount, the other side's field, none)
			ms := c.allMatches()
			if len(ms) == 0 {
				return false
			}
			m := ms[rng.Intn(len(ms))]
			idx, self := c.matchOutput(m)
			if idx < 0 {
				return false
			}
			alts := []int64{0, m.o.TicketPushAmt, m.o.SelfChanBalance, int64(m.t.SelfChanBalance), self + 100_000}
			rng.Shuffle(len(alts), func(i, j int) { alts[i], alts[j] = alts[j], alts[i] })
			for _, a := range alts {
				if a != self {
					c.Msg.TxOuts[idx].Value += a - self
					return true
				}
			}
			return false
		}},
		{"out-script-related-keys", func() bool {
			// the funding script over keys related to, but different from, the advertised
			// ones: negated points (same x coordinate), roles kept
			ms := c.allMatches()
			if len(ms) == 0 {
				return false
			}
			m := ms[rng.Intn(len(ms))]
			idx, _ := c.matchOutput(m)
			if idx < 0 {
				return false
			}
			neg := func(k string) string {
				if len(k) < 2 {
					return k
				}
				if k[:2] == "02" {
					return "03" + k[2:]
				}
				return "02" + k[2:]
			}
			ourKey, theirKey := m.ourKey(), m.t.MultiSigKey
			switch rng.Intn(5) {
			case 3, 4:
				// the first 33 bytes of a 65-byte encoding of the counterparty key taken for a key
				if m.t.MultiSigKeyEnc == 0 {
					m.t.MultiSigKeyEnc = 1 + rng.Intn(2)
				}
				theirKey = hex.EncodeToString(bWireKey(m.t.MultiSigKey, m.t.MultiSigKeyEnc)[:33])
				sp := bFundScriptOf(false, ourKey, theirKey)
				if sp == nil || *sp == c.Msg.TxOuts[idx].Script {
					return false
				}
				c.Msg.TxOuts[idx].Script = *sp
				return true
			case 0:
				ourKey = neg(ourKey)
			case 1:
				theirKey = neg(theirKey)
			default:
				ourKey, theirKey = neg(ourKey), neg(theirKey)
			}
			sp := bFundScriptOf(m.taproot(), ourKey, theirKey)
			if sp == nil || *sp == c.Msg.TxOuts[idx].Script {
				return false
			}
			c.Msg.TxOuts[idx].Script = *sp
			return true
		}},
		{"out-value", func() bool {
			o := pickOut()
			if o == nil {
				return false
			}
			switch rng.Intn(3) {
			case 0, 1:
				o.Value += pm1(rng)
			default:
				o.Value = int64(rng.Intn(1_000_000))
			}
			return true
		}},
		{"out-script", func() bool {
			o := pickOut()
			if o == nil {
				return false
			}
			o.Script = flipHex(rng, o.Script)
			return true
		}},
		{"out-swap-scripts", func() bool {
			if len(c.Msg.TxOuts) < 2 {
				return false
			}
			i, j := rng.Intn(len(c.Msg.TxOuts)), rng.Intn(len(c.Msg.TxOuts))
			if i == j {
				return false
			}
			c.Msg.TxOuts[i].Script, c.Msg.TxOuts[j].Script = c.Msg.TxOuts[j].Script, c.Msg.TxOuts[i].Script
			return true
		}},
		{"out-drop", func() bool {
			if len(c.Msg.TxOuts) == 0 {
				return false
			}
			i := rng.Intn(len(c.Msg.TxOuts))
			c.Msg.TxOuts = append(c.Msg.TxOuts[:i:i], c.Msg.TxOuts[i+1:]...)
			if len(c.Msg.TxOuts) == 0 {
				c.Msg.TxOuts = []bTxOut{}
			}
			return true
		}},
		{"out-wrong-script-kind", func() bool {
			// replace a channel output's script by the other funding script kind,
			// or an account output's script by another version / batch key / expiry
			o := pickOut()
			if o == nil {
				return false
			}
			for _, m := range c.allMatches() {
				if m.o == nil {
					continue
				}
				ourKey := bKeyHex(int(m.o.KeyIndex & 0xff))
				for _, tap := range []bool{false, true} {
					if s := bFundScriptOf(tap, ourKey, m.t.MultiSigKey); s != nil && *s == o.Script {
						if alt := bFundScriptOf(!tap, ourKey, m.t.MultiSigKey); alt != nil {
							o.Script = *alt
							return true
						}
					}
				}
			}
			for i := range c.Env.Accounts {
				a := &c.Env.Accounts[i]
				for _, d := range c.Msg.Diffs {
					if d.AcctKey != a.Key || d.OutpointIndex < 0 || int(d.OutpointIndex) >= len(c.Msg.TxOuts) ||
						&c.Msg.TxOuts[d.OutpointIndex] != o {
						continue
					}
					switch rng.Intn(3) {
					case 0:
						o.Script, _ = a.nextScript(poolscript.Version(rng.Intn(3)), a.Expiry)
					case 1:
						o.Script, _ = a.nextScript(bScriptVersion(a.Version), a.Expiry+1)
					default:
						// not rotated: current batch key instead of the next one
						b := *a
						b.BatchKey = bKeyHex(bKeyAcct + 29)
						o.Script, _ = b.nextScript(bScriptVersion(a.Version), a.Expiry)
					}
					return true
				}
			}
			return false
		}},
	}
	// half of the deviations come from the sites closest to the property under check
	focus := map[string][]string{
		"C01": {"batch-version", "batch-version-flag", "height-hint-edge", "height-wrap", "clearing-price",
			"market-duration", "move-order-to-other-market", "same-nonce-in-two-markets", "our-rate", "our-duration", "our-auction-type",
			"our-side", "our-unfulfilled", "our-min-match", "allow-list", "deny-list", "their-side",
			"their-duration", "their-duration-old-version", "their-order-version", "their-auction-type", "their-rate", "their-node-key", "their-units", "extra-match",
			"drop-match", "repeat-match-same-nonce", "unknown-our-nonce"},
		"C02": {"fee-rate", "exec-base", "exec-rate", "clearing-price", "our-self-balance", "their-self-balance",
			"their-units", "diff-balance", "diff-balance-and-output", "diff-state", "diff-index", "diff-new-expiry",
			"diff-new-version", "diff-acct-key", "diff-drop", "diff-duplicate-plain", "diff-uninvolved-account",
			"acct-value", "acct-version", "acct-expiry", "acct-batch-key", "acct-secret", "acct-auctioneer-key",
			"out-value", "out-script", "out-wrong-script-kind", "our-acct-key", "repeat-match-same-nonce"},
		"C03": {"their-order-version", "out-value-alt-balance", "out-script-related-keys", "our-chan-type", "their-chan-type", "our-key-index", "our-sidecar", "their-multisig-key",
			"our-self-balance", "their-self-balance", "their-units", "out-value", "out-script", "out-swap-scripts",
			"out-drop", "out-wrong-script-kind", "extra-match", "repeat-match-same-nonce", "their-node-key"},
	}
	pick := func() site {
		if f := focus[g.prop]; len(f) > 0 && rng.Intn(2) == 0 {
			name := f[rng.Intn(len(f))]
			for _, s := range sites {
				if s.name == name {
					return s
				}
			}
		}
		return sites[rng.Intn(len(sites))]
	}
	c02only := map[string]bool{"diff-new-expiry": true, "diff-new-version": true, "diff-duplicate-plain": true,
		"diff-acct-key": true}
	for try := 0; try < 20; try++ {
		s := pick()
		if g.prop != "C02" && c02only[s.name] {
			continue
		}
		if s.fn() {
			if s.name == "height-wrap" && g.prop != "C02" {
				// the honest new expiries were chosen for the old height
				for i := range c.Msg.Diffs {
					c.Msg.Diffs[i].NewExpiry = 0
				}
			}
			c.Devs = append(c.Devs, s.name)
			return
		}
	}
}
