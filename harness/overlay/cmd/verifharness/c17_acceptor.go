//go:build verif

package main

import (
	"encoding/hex"
	"fmt"
	"math"
	"strings"

	"github.com/btcsuite/btcd/btcutil"
	"github.com/lightninglabs/lndclient"
	pool "github.com/lightninglabs/pool"
	"github.com/lightninglabs/pool/order"
	"github.com/lightningnetwork/lnd/lnwallet"
	"github.com/lightningnetwork/lnd/lnwire"
)

type c17Exp struct {
	Nonce   order.Nonce
	SelfBal int64
	ChanTyp uint8
	Unann   bool
	ZC      bool
}

// c17AccReq is the replayable form of one acceptor request together with the
// registry history that precedes it.
type c17AccCase struct {
	Kind    string   `json:"kind"` // "acceptor"
	History []string `json:"history"`
	Request string   `json:"request"`
}

func c17b(b bool) string {
	if b {
		return "1"
	}
	return "0"
}

// c17Acceptor drives a real ChannelAcceptor. One case = a registry history
// (ShimRegistered / ShimRemoved) followed by an exhaustive sweep of the
// discrete request fields with several push amounts per combination.
type c17Acceptor struct {
	r     *Run
	acc   *pool.ChannelAcceptor
	ghost map[[32]byte]c17Exp // oracle's own registry: last registration not removed since
	hist  []string
}

func (a *c17Acceptor) reset() {
	a.acc = pool.NewChannelAcceptor(nil)
	a.ghost = map[[32]byte]c17Exp{}
	a.hist = nil
	a.r.Emit("C17 areset", "ok")
}

func (a *c17Acceptor) reg(pid [32]byte, e c17Exp) {
	bid := &order.Bid{
		Kit:                *order.NewKit(e.Nonce),
		SelfChanBalance:    btcutil.Amount(e.SelfBal),
		UnannouncedChannel: e.Unann,
		ZeroConfChannel:    e.ZC,
	}
	bid.Kit.ChannelType = order.ChannelType(e.ChanTyp)
	a.acc.ShimRegistered(bid, pid)
	a.ghost[pid] = e
	op := fmt.Sprintf("reg %x %x %d %d %s %s", pid[:], e.Nonce[:], e.SelfBal, e.ChanTyp, c17b(e.Unann), c17b(e.ZC))
	a.hist = append(a.hist, op)
	a.r.Emit("C17 "+op, fmt.Sprintf("ok %d", a.acc.VerifC17Expected()))
	a.r.Count("acc/reg")
	if n := a.acc.VerifC17Expected(); n != len(a.ghost) {
		a.r.Violate(fmt.Sprintf("registry holds %d pending ids, history says %d", n, len(a.ghost)),
			"C17/registry", c17AccCase{Kind: "acceptor", History: a.hist})
	}
}

func (a *c17Acceptor) rm(n order.Nonce) {
	a.acc.ShimRemoved(&order.Bid{Kit: *order.NewKit(n)})
	for pid, e := range a.ghost {
		if e.Nonce == n {
			delete(a.ghost, pid)
		}
	}
	op := fmt.Sprintf("rm %x", n[:])
	a.hist = append(a.hist, op)
	a.r.Emit("C17 "+op, fmt.Sprintf("ok %d", a.acc.VerifC17Expected()))
	a.r.Count("acc/rm")
	if n := a.acc.VerifC17Expected(); n != len(a.ghost) {
		a.r.Violate(fmt.Sprintf("registry holds %d pending ids, history says %d", n, len(a.ghost)),
			"C17/registry", c17AccCase{Kind: "acceptor", History: a.hist})
	}
}

// request runs one acceptor request on the real code, emits it for the model
// and evaluates the English property on the real response.
func (a *c17Acceptor) request(pid [32]byte, pushMsat int64, ct *int, flags uint32, wantsZC bool) {
	req := &lndclient.AcceptorRequest{
		PendingChanID: pid,
		PushAmt:       btcutil.Amount(pushMsat),
		ChannelFlags:  flags,
		WantsZeroConf: wantsZC,
	}
	ctStr := "-"
	if ct != nil {
		c := lnwallet.CommitmentType(*ct)
		req.CommitmentType = &c
		ctStr = fmt.Sprint(*ct)
	}
	op := fmt.Sprintf("acc %x %d %s %d %s", pid[:], pushMsat, ctStr, flags, c17b(wantsZC))
	var (
		out      string
		accept   bool
		zc       bool
		panicked bool
	)
	func() {
		defer func() {
			if p := recover(); p != nil {
				panicked = true
				out = "panic"
			}
		}()
		resp, err := a.acc.VerifC17Accept(req)
		if err != nil || resp == nil {
			out = "error"
			return
		}
		accept, zc = resp.Accept, resp.ZeroConf
		// the error TEXT of a rejection is not part of the comparison (it may be
		// reworded freely); only that a rejection carries one
		out = fmt.Sprintf("accept=%s zc=%s depth=%d err=%s", c17b(resp.Accept), c17b(resp.ZeroConf),
			resp.MinAcceptDepth, c17b(resp.Error != ""))
	}()
	a.r.Emit("C17 "+op, out)
	a.r.Evaluations++

	// ---- oracle: the property's English text on the real response ----
	// admitted = lnd lets the funding flow continue: the acceptor accepts and,
	// if the opener's channel type carries the zero-conf bit, also marks the
	// channel zero-conf (otherwise lnd fails the flow).
	admitted := accept && (!wantsZC || zc) && !panicked
	exp, registered := a.ghost[pid]
	want := true
	why := "unregistered pending id must be admitted"
	if registered {
		a.r.Count("acc/registered")
		pushOK := pushMsat >= 0 && pushMsat/1000 == exp.SelfBal
		ctOK := false
		switch order.ChannelType(exp.ChanTyp) {
		case order.ChannelTypePeerDependent:
			ctOK = true
		case order.ChannelTypeScriptEnforced:
			ctOK = ct != nil && lnwallet.CommitmentType(*ct) == lnwallet.CommitmentTypeScriptEnforcedLease
		case order.ChannelTypeSimpleTaproot:
			ctOK = ct != nil && lnwallet.CommitmentType(*ct) == lnwallet.CommitmentTypeSimpleTaproot
		}
		announced := lnwire.FundingFlag(flags)&lnwire.FFAnnounceChannel != 0
		annOK := announced == !exp.Unann
		zcOK := wantsZC == exp.ZC
		want = pushOK && ctOK && annOK && zcOK
		switch {
		case want:
			a.r.Count("acc/why/all-as-demanded")
		case !pushOK:
			a.r.Count("acc/why/push")
		case !ctOK && order.ChannelType(exp.ChanTyp) > order.ChannelTypeSimpleTaproot:
			a.r.Count("acc/why/unknown-bid-type")
		case !ctOK && ct == nil:
			a.r.Count("acc/why/implicit-negotiation")
		case !ctOK:
			a.r.Count("acc/why/commit-type")
		case !annOK:
			a.r.Count("acc/why/announce")
		default:
			a.r.Count("acc/why/zeroconf")
		}
		why = fmt.Sprintf("registered bid demands push=%d sat chanType=%d unannounced=%v zeroConf=%v; request matches: "+
			"push=%v commitType=%v announce=%v zeroConf=%v", exp.SelfBal, exp.ChanTyp, exp.Unann, exp.ZC,
			pushOK, ctOK, annOK, zcOK)
		if want {
			a.r.Count("acc/registered-admitted")
			a.r.Distinct(op + "|" + fmt.Sprint(exp))
		} else {
			nFail := 0
			for _, ok := range []bool{pushOK, ctOK, annOK, zcOK} {
				if !ok {
					nFail++
				}
			}
			if nFail == 1 {
				// the interesting rejections: exactly one demand violated
				a.r.Count("acc/one-field-off")
				a.r.Distinct(op + "|" + fmt.Sprint(exp))
			}
		}
	} else {
		// "always admits channels it did not register": the acceptor itself
		// must accept, with the neutral response (no zero-conf mark), i.e.
		// behave exactly as if pool's acceptor were not there. (lnd on its
		// own refuses zero-conf opens nobody opted in to.)
		a.r.Count("acc/unregistered")
		admitted = accept && !zc && !panicked
	}
	if admitted != want {
		a.r.Count("oracle/violation")
		a.r.Violate(fmt.Sprintf("acceptor admitted=%v but expected %v: %s (response %q)", admitted, want, why, out),
			"C17/acceptor", c17AccCase{Kind: "acceptor", History: append([]string(nil), a.hist...), Request: op})
	}
}

// replay re-runs a recorded acceptor case.
func (a *c17Acceptor) replay(c c17AccCase) {
	a.reset()
	for _, h := range append(append([]string(nil), c.History...), c.Request) {
		f := strings.Fields(h)
		if len(f) == 0 {
			continue
		}
		switch {
		case f[0] == "reg" && len(f) == 7:
			var pid [32]byte
			var e c17Exp
			b, _ := hex.DecodeString(f[1])
			copy(pid[:], b)
			b, _ = hex.DecodeString(f[2])
			copy(e.Nonce[:], b)
			fmt.Sscan(f[3], &e.SelfBal)
			var ct int
			fmt.Sscan(f[4], &ct)
			e.ChanTyp = uint8(ct)
			e.Unann, e.ZC = f[5] == "1", f[6] == "1"
			a.reg(pid, e)
		case f[0] == "rm" && len(f) == 2:
			var n order.Nonce
			b, _ := hex.DecodeString(f[1])
			copy(n[:], b)
			a.rm(n)
		case f[0] == "acc" && len(f) == 6:
			var pid [32]byte
			b, _ := hex.DecodeString(f[1])
			copy(pid[:], b)
			var push int64
			fmt.Sscan(f[2], &push)
			var ct *int
			if f[3] != "-" {
				c := 0
				fmt.Sscan(f[3], &c)
				ct = &c
			}
			var flags uint32
			fmt.Sscan(f[4], &flags)
			a.request(pid, push, ct, flags, f[5] == "1")
		}
	}
}

// sweep generates one registry history and sweeps the request space.
func (a *c17Acceptor) sweep() {
	rng := a.r.Rng
	a.reset()
	var pids [4][32]byte
	for i := range pids {
		rng.Read(pids[i][:])
	}
	var nonces [3]order.Nonce
	for i := range nonces {
		rng.Read(nonces[i][:])
	}
	balances := []int64{0, 1, int64(order.BaseSupplyUnit), 1 + rng.Int63n(1_000_000_000), rng.Int63n(21e14)}
	chanTypes := []uint8{0, 1, 2, 0, 1, 2, 3, uint8(rng.Intn(256))}
	nReg := 1 + rng.Intn(4)
	for i := 0; i < nReg; i++ {
		a.reg(pids[rng.Intn(3)], c17Exp{
			Nonce:   nonces[rng.Intn(len(nonces))],
			SelfBal: balances[rng.Intn(len(balances))],
			ChanTyp: chanTypes[rng.Intn(len(chanTypes))],
			Unann:   rng.Intn(2) == 0,
			ZC:      rng.Intn(2) == 0,
		})
		if rng.Intn(5) == 0 {
			a.rm(nonces[rng.Intn(len(nonces))])
		}
		if rng.Intn(4) == 0 {
			// re-register the same pending id with another bid (map overwrite)
			a.reg(pids[rng.Intn(3)], c17Exp{
				Nonce:   nonces[rng.Intn(len(nonces))],
				SelfBal: balances[rng.Intn(len(balances))],
				ChanTyp: chanTypes[rng.Intn(len(chanTypes))],
				Unann:   rng.Intn(2) == 0,
				ZC:      rng.Intn(2) == 0,
			})
		}
	}
	if rng.Intn(2) == 0 {
		// one bid matched with two asks: two pending ids carry the same bid
		// nonce; removing the bid must drop both expectations
		e := c17Exp{
			Nonce:   nonces[rng.Intn(len(nonces))],
			SelfBal: balances[rng.Intn(len(balances))],
			ChanTyp: chanTypes[rng.Intn(3)],
			Unann:   rng.Intn(2) == 0,
			ZC:      rng.Intn(2) == 0,
		}
		a.reg(pids[0], e)
		a.reg(pids[1], e)
		a.r.Count("acc/multi-pid-bid")
		if rng.Intn(2) == 0 {
			a.rm(e.Nonce)
			a.r.Count("acc/multi-pid-bid-removed")
		}
	}
	cts := []*int{nil}
	for c := 0; c <= 6; c++ {
		c := c
		cts = append(cts, &c)
	}
	flagSet := []uint32{0, 1, 2, 3, 256, 257, rng.Uint32()}
	for _, pid := range pids { // pids[3] is never registered
		var pushes []int64
		if e, ok := a.ghost[pid]; ok {
			sb := e.SelfBal
			pushes = []int64{sb * 1000, sb*1000 + int64(rng.Intn(1000)), sb*1000 + 1000, sb*1000 - 1}
		} else {
			pushes = []int64{0, rng.Int63n(1e12), 1000 * rng.Int63n(1e9)}
		}
		switch rng.Intn(3) {
		case 0:
			pushes = append(pushes, rng.Int63())
		case 1:
			pushes = append(pushes, -1-rng.Int63n(1e15))
		default:
			pushes = append(pushes, math.MinInt64+rng.Int63n(1000))
		}
		for _, ct := range cts {
			for _, fl := range flagSet {
				for _, wz := range []bool{false, true} {
					for _, p := range pushes {
						a.request(pid, p, ct, fl, wz)
					}
				}
			}
		}
	}
}
