//go:build verif

package main

import (
	"bytes"
	"context"
	"crypto/sha256"
	"encoding/hex"
	"encoding/json"
	"errors"
	"fmt"
	"os"
	"runtime"
	"strconv"
	"strings"
	"sync"
	"sync/atomic"
	"time"

	"github.com/btcsuite/btcd/btcec/v2"
	"github.com/btcsuite/btcd/btcec/v2/ecdsa"
	"github.com/btcsuite/btcd/btcutil"
	"github.com/lightninglabs/lndclient"
	"github.com/lightninglabs/pool"
	"github.com/lightninglabs/pool/account"
	"github.com/lightninglabs/pool/auctioneer"
	"github.com/lightninglabs/pool/auctioneerrpc"
	"github.com/lightninglabs/pool/clientdb"
	"github.com/lightninglabs/pool/internal/test"
	"github.com/lightninglabs/pool/order"
	"github.com/lightninglabs/pool/sidecar"
	"github.com/lightninglabs/pool/terms"
	"github.com/lightningnetwork/lnd/keychain"
	"google.golang.org/grpc"
)

func init() { props["C16"] = runC16 }

// ---------------------------------------------------------------- keys / signer

// c16Signer is a real ECDSA signer/verifier behind lndclient.SignerClient
// (SignMessage / VerifyMessage only).
type c16Signer struct {
	lndclient.SignerClient
	keys map[keychain.KeyLocator]*btcec.PrivateKey
}

func (s *c16Signer) SignMessage(_ context.Context, msg []byte,
	loc keychain.KeyLocator, _ ...lndclient.SignMessageOption) ([]byte, error) {

	priv, ok := s.keys[loc]
	if !ok {
		return nil, fmt.Errorf("no key for %v", loc)
	}
	h := sha256.Sum256(msg)
	return ecdsa.Sign(priv, h[:]).Serialize(), nil
}

func (s *c16Signer) VerifyMessage(_ context.Context, msg, sig []byte,
	pubkey [33]byte, _ ...lndclient.VerifyMessageOption) (bool, error) {

	pk, err := btcec.ParsePubKey(pubkey[:])
	if err != nil {
		return false, err
	}
	ps, err := ecdsa.ParseDERSignature(sig)
	if err != nil {
		return false, err
	}
	h := sha256.Sum256(msg)
	return ps.Verify(h[:], pk), nil
}

type c16Wallet struct {
	lndclient.WalletKitClient
	pub *btcec.PublicKey
}

func (w *c16Wallet) DeriveNextKey(context.Context, int32) (*keychain.KeyDescriptor, error) {
	return &keychain.KeyDescriptor{
		KeyLocator: keychain.KeyLocator{Family: keychain.KeyFamilyMultiSig, Index: 7},
		PubKey:     w.pub,
	}, nil
}

// c16Keys holds everything that is fixed for a harness run.
type c16Keys struct {
	signer   *c16Signer
	provPriv *btcec.PrivateKey
	provPub  *btcec.PublicKey
	provLoc  keychain.KeyLocator
	nodePub  *btcec.PublicKey
	msPub    *btcec.PublicKey
	baseID   [8]byte
	otherID  [8]byte
	bidNonce order.Nonce
	otherNon [32]byte
	acct     *account.Account
	terms    *terms.AuctioneerTerms
	offered  []byte // serialized offered ticket (id 0), order nonce set
	capacity btcutil.Amount
	badSig   *ecdsa.Signature
}

func newC16Keys() *c16Keys {
	k := &c16Keys{}
	k.provPriv, k.provPub = test.CreateKey(11)
	_, k.nodePub = test.CreateKey(12)
	_, k.msPub = test.CreateKey(13)
	k.provLoc = keychain.KeyLocator{Family: 220, Index: 3}
	k.signer = &c16Signer{keys: map[keychain.KeyLocator]*btcec.PrivateKey{k.provLoc: k.provPriv}}
	k.baseID = [8]byte{1, 6, 1, 6, 1, 6, 1, 6}
	k.otherID = [8]byte{9, 9, 9, 9, 9, 9, 9, 9}
	k.bidNonce = order.Nonce{0xb1, 0xd0, 1, 6}
	k.otherNon = [32]byte{0x77, 0x77}
	k.capacity = 1_000_000
	k.badSig = test.NewSignatureFromInt(44, 22)
	k.acct = &account.Account{
		Value: 500_000_000,
		TraderKey: &keychain.KeyDescriptor{
			KeyLocator: k.provLoc, PubKey: k.provPub,
		},
		State:   account.StateOpen,
		Version: account.VersionInitialNoVersion,
	}
	k.terms = &terms.AuctioneerTerms{
		MaxAccountValue:  10_000_000_000,
		OrderExecBaseFee: 1,
		OrderExecFeeRate: 100,
		LeaseDurationBuckets: map[uint32]auctioneerrpc.DurationBucketState{
			2016: auctioneerrpc.DurationBucketState_MARKET_OPEN,
		},
		NextBatchFeeRate: 253,
	}
	// the offer as funding.Manager.OfferSidecar + rpcServer.OfferSidecar build it
	t, err := sidecar.NewTicket(k.capacity, 0, 2016, k.provPub, true, false, false)
	if err != nil {
		panic(err)
	}
	t.ID = k.baseID
	if err := sidecar.SignOffer(context.Background(), t, k.provLoc, k.signer); err != nil {
		panic(err)
	}
	t.Order = &sidecar.Order{BidNonce: k.bidNonce}
	var buf bytes.Buffer
	if err := sidecar.SerializeTicket(&buf, t); err != nil {
		panic(err)
	}
	k.offered = buf.Bytes()
	return k
}

// withID returns the keys for a negotiation about a ticket with the given ID
// (the offer is signed again for it).
func (k *c16Keys) withID(id [8]byte) *c16Keys {
	c := *k
	c.baseID = id
	if c.otherID == id {
		c.otherID[7] ^= 0x55
	}
	t, err := sidecar.NewTicket(c.capacity, 0, 2016, c.provPub, true, false, false)
	if err != nil {
		panic(err)
	}
	t.ID = id
	if err := sidecar.SignOffer(context.Background(), t, c.provLoc, c.signer); err != nil {
		panic(err)
	}
	t.Order = &sidecar.Order{BidNonce: c.bidNonce}
	var buf bytes.Buffer
	if err := sidecar.SerializeTicket(&buf, t); err != nil {
		panic(err)
	}
	c.offered = buf.Bytes()
	return &c
}

// c16RandomID draws a ticket ID from the full range (tickets get random IDs),
// with the neighbourhood of the key of the nested "sidecar-bids" bucket of the
// sidecars bucket as boundary values.
func c16RandomID(r *Run) [8]byte {
	var id [8]byte
	for i := range id {
		id[i] = byte(r.Rng.Intn(256))
	}
	switch r.Rng.Intn(8) {
	case 0:
		copy(id[:], "sidecar-")
	case 1:
		copy(id[:], "sidecar.")
	case 2:
		copy(id[:], "sidecar,")
	case 3:
		id[0] = 0x73
	case 4:
		id[0] = 0x74
	case 5:
		id[0] = 0xff
	}
	return id
}

func (k *c16Keys) newBid() *order.Bid {
	kit := order.NewKit(k.bidNonce)
	kit.Version = order.VersionSidecarChannel
	kit.AuctionType = order.BTCInboundLiquidity
	kit.FixedRate = 10
	kit.Amt = k.capacity
	kit.Units = order.NewSupplyFromSats(k.capacity)
	kit.UnitsUnfulfilled = kit.Units
	kit.MinUnitsMatch = kit.Units
	kit.MaxBatchFeeRate = 1000
	kit.LeaseDuration = 2016
	copy(kit.AcctKey[:], k.provPub.SerializeCompressed())
	return &order.Bid{Kit: *kit, MinNodeTier: order.NodeTier0}
}

func c16Copy(t *sidecar.Ticket) *sidecar.Ticket {
	var buf bytes.Buffer
	if err := sidecar.SerializeTicket(&buf, t); err != nil {
		panic(err)
	}
	c, err := sidecar.DeserializeTicket(&buf)
	if err != nil {
		panic(err)
	}
	return c
}

func (k *c16Keys) base() *sidecar.Ticket {
	t, err := sidecar.DeserializeTicket(bytes.NewReader(k.offered))
	if err != nil {
		panic(err)
	}
	return t
}

// ---------------------------------------------------------------- canonical ticket tokens

func (k *c16Keys) sigClass(sig *ecdsa.Signature, digest [32]byte, derr error) string {
	if sig == nil {
		return "n"
	}
	if derr != nil {
		return "x"
	}
	h := sha256.Sum256(digest[:])
	if sig.Verify(h[:], k.provPub) {
		return "v"
	}
	return "x"
}

// tok renders a ticket the way the Lean driver does: id.state.offerSig.rcp.ord
func (k *c16Keys) tok(t *sidecar.Ticket) string {
	if t == nil {
		return "nil"
	}
	id := 1
	if t.ID == k.baseID {
		id = 0
	}
	od, oerr := t.OfferDigest()
	rcp := 0
	if t.Recipient != nil {
		rcp = 1
	}
	ord := "-"
	if t.Order != nil {
		n := 2
		if t.Order.BidNonce == [32]byte{} {
			n = 0
		} else if order.Nonce(t.Order.BidNonce) == k.bidNonce {
			n = 1
		}
		c := *t
		if c.State < sidecar.StateOrdered {
			c.State = sidecar.StateOrdered
		}
		dd, derr := c.OrderDigest()
		ord = fmt.Sprintf("%d%s", n, k.sigClass(t.Order.SigOrderDigest, dd, derr))
	}
	return fmt.Sprintf("%d.%d.%s.%d.%s", id, uint8(t.State),
		k.sigClass(t.Offer.SigOfferDigest, od, oerr), rcp, ord)
}

func (k *c16Keys) sign(d [32]byte) *ecdsa.Signature {
	h := sha256.Sum256(d[:])
	return ecdsa.Sign(k.provPriv, h[:])
}

// mk builds a real ticket from a token.
func (k *c16Keys) mk(tok string) *sidecar.Ticket {
	if tok == "nil" {
		return nil
	}
	f := strings.Split(tok, ".")
	t := k.base()
	if f[0] != "0" {
		t.ID = k.otherID
	}
	st, _ := strconv.Atoi(f[1])
	t.State = sidecar.State(st)
	switch f[2] {
	case "n":
		t.Offer.SigOfferDigest = nil
	case "x":
		t.Offer.SigOfferDigest = k.badSig
	case "y":
		// the signature the recipient stored at registration, but a signed
		// offer field changed afterwards (the version-0 order digest does
		// not cover it, so an order signature can stay valid)
		t.Offer.Auto = !t.Offer.Auto
	default:
		d, _ := t.OfferDigest()
		t.Offer.SigOfferDigest = k.sign(d)
	}
	if f[3] == "1" {
		t.Recipient = &sidecar.Recipient{NodePubKey: k.nodePub, MultiSigPubKey: k.msPub, MultiSigKeyIndex: 7}
	} else {
		t.Recipient = nil
	}
	if f[4] == "-" {
		t.Order = nil
	} else {
		o := &sidecar.Order{}
		switch f[4][0] {
		case '1':
			o.BidNonce = k.bidNonce
		case '2':
			o.BidNonce = k.otherNon
		}
		t.Order = o
		switch f[4][1] {
		case 'x':
			o.SigOrderDigest = k.badSig
		case 'v':
			c := *t
			c.State = sidecar.StateOrdered
			d, err := c.OrderDigest()
			if err != nil {
				panic(err)
			}
			o.SigOrderDigest = k.sign(d)
		}
	}
	return t
}

// ---------------------------------------------------------------- driver / mailbox wrappers

var errC16Dead = errors.New("process is dead")

// c16Gen is one negotiator incarnation ("process"). When it is dead every
// driver / mailbox call fails without touching anything, which is how a crash
// after k calls of a handler is simulated.
type c16Gen struct {
	dead       atomic.Bool
	calls      int
	crashAfter int // -1: never
	blockAt    int // >0: the blockAt-th call of the handler waits for release
	blocked    chan struct{}
	release    chan struct{}
}

type c16Side struct {
	w          *c16World
	prov       bool
	db         *clientdb.DB
	neg        *pool.SidecarNegotiator
	gen        *c16Gen
	registered bool              // entry in SidecarAcceptor.negotiators
	rpc        *pool.VerifC16RPC // minimal real rpcServer + acceptor registry of this node
	afterErr   int32
	initFail   int32 // the next mailbox (re-)initialisation fails
	started    int32 // the reader's first RecvSidecarPkt was seen
	// scripted answers (single-step tests); nil = the real driver
	script *c16Script
}

type c16Script struct {
	sendOk   bool
	updOk    bool
	submit   string // ok|exists|other|real0|real1
	validate string // 0|1|real
	expect   string // 0|1|realN|realP
}

func (s *c16Side) name() string {
	if s.prov {
		return "P"
	}
	return "R"
}

// enter counts a call of the current handler; true = the process is dead.
func (s *c16Side) enter() bool {
	g := s.gen
	if g == nil {
		return false
	}
	if g.dead.Load() {
		return true
	}
	s.w.mu.Lock()
	defer s.w.mu.Unlock()
	if g.crashAfter >= 0 && g.calls >= g.crashAfter {
		g.dead.Store(true)
		return true
	}
	g.calls++
	if g.blockAt > 0 && g.calls == g.blockAt {
		g.blockAt = 0
		s.w.mu.Unlock()
		close(g.blocked)
		<-g.release
		s.w.mu.Lock()
	}
	return false
}

func (s *c16Side) eff(e string) {
	s.w.mu.Lock()
	s.w.effs = append(s.w.effs, s.name()+"."+e)
	s.w.mu.Unlock()
}

func b01(b bool) string {
	if b {
		return "1"
	}
	return "0"
}

// --- SidecarDriver

func (s *c16Side) ValidateOrderedTicket(t *sidecar.Ticket) error {
	if s.enter() {
		return errC16Dead
	}
	tk := s.w.k.tok(t)
	var err error
	switch {
	case s.script != nil && s.script.validate == "1":
	case s.script != nil && s.script.validate == "0":
		err = errors.New("scripted validate failure")
	default:
		// the real thing: real signer, real store
		err = pool.VerifC16ValidateOrderedTicket(context.Background(), t, s.w.k.signer, s.db)
	}
	s.eff("val:" + tk + ":" + b01(err == nil))
	return err
}

// ExpectChannel mirrors SidecarAcceptor.ExpectChannel up to (not including)
// the auctioneer account subscription.
func (s *c16Side) ExpectChannel(_ context.Context, t *sidecar.Ticket) error {
	if s.enter() {
		return errC16Dead
	}
	err := func() error {
		if s.script != nil && s.script.expect == "1" {
			t.State = sidecar.StateExpectingChannel
			return nil
		}
		if s.script != nil && s.script.expect == "0" {
			return errors.New("scripted expect failure")
		}
		if t.Order == nil {
			return fmt.Errorf("order in sidecar ticket is missing")
		}
		pend := s.w.pendingR
		if s.script != nil {
			pend = map[[32]byte]*sidecar.Ticket{}
			if s.script.expect == "realP" {
				pend[s.w.k.bidNonce] = t
			}
		}
		if _, ok := pend[t.Order.BidNonce]; ok {
			return fmt.Errorf("sidecar with order nonce is already registered")
		}
		t.State = sidecar.StateExpectingChannel
		if err := s.db.UpdateSidecar(t); err != nil {
			return fmt.Errorf("error updating sidecar: %v", err)
		}
		pend[t.Order.BidNonce] = t
		return nil
	}()
	s.eff("exp:" + s.w.k.tok(t) + ":" + b01(err == nil))
	if err == nil {
		s.w.mu.Lock()
		s.w.expected = append(s.w.expected, c16Copy(t))
		s.w.mu.Unlock()
	}
	return err
}

func (s *c16Side) UpdateSidecar(t *sidecar.Ticket) error {
	if s.enter() {
		return errC16Dead
	}
	var err error
	if s.script != nil {
		if !s.script.updOk {
			err = errors.New("scripted update failure")
		}
	} else {
		err = s.db.UpdateSidecar(t)
	}
	s.eff("upd:" + s.w.k.tok(t) + ":" + b01(err == nil))
	if err == nil && s.script == nil {
		s.w.mu.Lock()
		s.w.writes[s.name()] = append(s.w.writes[s.name()], uint8(t.State))
		s.w.mu.Unlock()
	}
	return err
}

// SubmitSidecarOrder mirrors SidecarAcceptor.SubmitSidecarOrder: the REAL
// order.Manager.PrepareOrder over the real clientdb order store, then the
// auctioneer submission (counted).
func (s *c16Side) SubmitSidecarOrder(t *sidecar.Ticket, bid *order.Bid,
	acct *account.Account) (*sidecar.Ticket, error) {

	if s.enter() {
		return nil, errC16Dead
	}
	k := s.w.k
	var (
		res *sidecar.Ticket
		err error
		cls = "ok"
	)
	mode := "real"
	if s.script != nil {
		mode = s.script.submit
	}
	switch mode {
	case "ok":
		// like the repo's mockDriver, but with a real order signature
		t.Order = &sidecar.Order{BidNonce: k.bidNonce}
		t.State = sidecar.StateOrdered
		d, derr := t.OrderDigest()
		if derr != nil {
			panic(derr)
		}
		t.Order.SigOrderDigest = k.sign(d)
		res = t
	case "exists":
		err = clientdb.ErrOrderExists
		cls = "exists"
	case "other":
		err = errors.New("scripted submit failure")
		cls = "other"
	default:
		db := s.db
		if mode == "real0" {
			db = s.w.freshOrderDB()
		} else if mode == "real1" {
			db = s.w.storedOrderDB()
		}
		mgr := order.NewManager(&order.ManagerConfig{Store: db, Signer: k.signer})
		bid.SidecarTicket = t
		_, err = mgr.PrepareOrder(context.Background(), bid, acct, k.terms)
		if err != nil {
			cls = "other"
			if errors.Is(err, clientdb.ErrOrderExists) {
				cls = "exists"
			}
		} else {
			s.w.mu.Lock()
			s.w.bids++
			s.w.mu.Unlock()
			res = bid.SidecarTicket
		}
	}
	s.eff("sub:" + k.tok(t) + ":" + cls)
	return res, err
}

// --- MailBox

func (s *c16Side) SendSidecarPkt(_ context.Context, pkt *sidecar.Ticket, provider bool) error {
	if s.enter() {
		return errC16Dead
	}
	// the real mailbox serialises the ticket first
	var buf bytes.Buffer
	if err := sidecar.SerializeTicket(&buf, pkt); err != nil {
		atomic.StoreInt32(&s.w.sendRejected, 1)
		return err
	}
	ok := s.script == nil || s.script.sendOk
	to := "R"
	if provider {
		to = "P"
	}
	s.eff("snd:" + to + ":" + s.w.k.tok(pkt) + ":" + b01(ok))
	if !ok {
		return errors.New("scripted send failure")
	}
	s.w.mu.Lock()
	if provider {
		s.w.toP = append(s.w.toP, buf.Bytes())
	} else {
		s.w.toR = append(s.w.toR, buf.Bytes())
	}
	s.w.mu.Unlock()
	return nil
}

// c16FakeAuct is the auctioneer side of plain request/response RPCs: order
// cancellations are accepted.
type c16FakeAuct struct {
	auctioneerrpc.ChannelAuctioneerClient
}

func (c16FakeAuct) CancelOrder(context.Context, *auctioneerrpc.ServerCancelOrderRequest,
	...grpc.CallOption) (*auctioneerrpc.ServerCancelOrderResponse, error) {

	return &auctioneerrpc.ServerCancelOrderResponse{}, nil
}

type c16Msg struct {
	data []byte
	err  error
}

func (s *c16Side) RecvSidecarPkt(ctx context.Context, _ *sidecar.Ticket, provider bool) (*sidecar.Ticket, error) {
	if s.gen.dead.Load() {
		return nil, errC16Dead
	}
	ch := s.w.inCh[b01(provider)]
	atomic.StoreInt32(s.w.waiting[b01(provider)], 1)
	select {
	case m := <-ch:
		if m.err != nil {
			return nil, m.err
		}
		return sidecar.DeserializeTicket(bytes.NewReader(m.data))
	case <-ctx.Done():
		atomic.StoreInt32(s.w.waiting[b01(provider)], 0)
		return nil, fmt.Errorf("mailbox shutting down")
	}
}

func (s *c16Side) initMailbox() error {
	if s.gen.dead.Load() {
		return errC16Dead
	}
	// only the re-initialisation after a receive error is an observable
	// step of a run (the one at start-up belongs to Start)
	if atomic.CompareAndSwapInt32(&s.afterErr, 1, 0) {
		s.eff("init")
	}
	if atomic.CompareAndSwapInt32(&s.initFail, 1, 0) {
		// the hashmail server is still unreachable (a plain error, not
		// AlreadyExists)
		return errors.New("hashmail server unreachable")
	}
	return nil
}
func (s *c16Side) InitSidecarMailbox([64]byte, *sidecar.Ticket) error { return s.initMailbox() }
func (s *c16Side) InitAcctMailbox([64]byte, *keychain.KeyDescriptor) error {
	return s.initMailbox()
}
func (s *c16Side) DelSidecarMailbox([64]byte, *sidecar.Ticket) error {
	if s.enter() {
		return errC16Dead
	}
	s.eff("del")
	return nil
}
func (s *c16Side) DelAcctMailbox([64]byte, *keychain.KeyDescriptor) error {
	if s.enter() {
		return errC16Dead
	}
	s.eff("del")
	return nil
}

// ---------------------------------------------------------------- world

type c16World struct {
	r   *Run
	k   *c16Keys
	dir string
	mu  sync.Mutex

	p, rc        *c16Side
	pendingR     map[[32]byte]*sidecar.Ticket
	sendRejected int32
	bids         int
	toP, toR     [][]byte
	effs         []string
	inCh         map[string]chan c16Msg
	waiting      map[string]*int32

	// oracle material
	expected []*sidecar.Ticket
	writes   map[string][]uint8
	regOffer []byte

	fresh, stored *clientdb.DB
	dbDirs        []string
}

var (
	c16Tmp string
	c16NDB int
)

func (w *c16World) newDB(tag string) *clientdb.DB {
	c16NDB++
	d := fmt.Sprintf("%s/%s-%d", w.dir, tag, c16NDB)
	w.dbDirs = append(w.dbDirs, d)
	db, err := clientdb.New(d, "pool.db")
	if err != nil {
		panic(err)
	}
	return db
}

// freshOrderDB returns an order store that does not hold the bid yet.
func (w *c16World) freshOrderDB() *clientdb.DB {
	if w.fresh != nil {
		if os, _ := w.fresh.GetOrders(); len(os) == 0 {
			return w.fresh
		}
		w.fresh.Close()
	}
	w.fresh = w.newDB("fresh")
	return w.fresh
}

// storedOrderDB returns an order store that already holds the bid.
func (w *c16World) storedOrderDB() *clientdb.DB {
	if w.stored == nil {
		w.stored = w.newDB("stored")
		b := w.k.newBid()
		if err := w.stored.SubmitOrder(b); err != nil {
			panic(err)
		}
	}
	return w.stored
}

func newC16World(r *Run, k *c16Keys) *c16World {
	w := &c16World{r: r, k: k, dir: c16Tmp, pendingR: map[[32]byte]*sidecar.Ticket{},
		writes:  map[string][]uint8{},
		inCh:    map[string]chan c16Msg{"0": make(chan c16Msg), "1": make(chan c16Msg)},
		waiting: map[string]*int32{"0": new(int32), "1": new(int32)}}
	w.p = &c16Side{w: w, prov: true}
	w.rc = &c16Side{w: w, prov: false}
	return w
}

func (w *c16World) side(prov bool) *c16Side {
	if prov {
		return w.p
	}
	return w.rc
}

func (w *c16World) takeEffs() string {
	w.mu.Lock()
	defer w.mu.Unlock()
	e := w.effs
	w.effs = nil
	if len(e) == 0 {
		return "-"
	}
	return strings.Join(e, ",")
}

// ---------------------------------------------------------------- quiescence (goroutine inspection)

type c16G struct {
	state string
	top   string
	body  string
}

func c16Goroutines() []c16G {
	buf := make([]byte, 1<<18)
	for {
		n := runtime.Stack(buf, true)
		if n < len(buf) {
			buf = buf[:n]
			break
		}
		buf = make([]byte, 2*len(buf))
	}
	var res []c16G
	for _, blk := range strings.Split(string(buf), "\n\n") {
		lines := strings.Split(blk, "\n")
		if len(lines) < 2 || !strings.HasPrefix(lines[0], "goroutine ") {
			continue
		}
		st := ""
		if i := strings.Index(lines[0], "["); i >= 0 {
			st = strings.TrimSuffix(lines[0][i+1:], "]:")
			if j := strings.Index(st, ","); j >= 0 {
				st = st[:j]
			}
		}
		top := ""
		for _, l := range lines[1:] {
			if strings.HasPrefix(l, "\t") || strings.HasPrefix(l, "runtime.") {
				continue
			}
			top = l
			break
		}
		res = append(res, c16G{state: st, top: top, body: blk})
	}
	return res
}

const (
	c16ProvMain   = "github.com/lightninglabs/pool.(*SidecarNegotiator).autoSidecarProvider("
	c16RecvMain   = "github.com/lightninglabs/pool.(*SidecarNegotiator).autoSidecarReceiver("
	c16TExec      = "github.com/lightninglabs/pool.(*SidecarNegotiator).TicketExecuted("
	c16StepPrefix = "github.com/lightninglabs/pool.(*SidecarNegotiator).stateStep"
)

// parked reports whether the main loop of the side is parked in its select
// with nothing to do (or gone), no TicketExecuted goroutine is in flight and
// the reader is back in RecvSidecarPkt (or gone). alive = main loop exists.
func (w *c16World) parked(prov bool) (quiet, alive bool) {
	quiet, alive, _ = w.parked3(prov)
	return
}

// readerGone: the main loop runs but its mailbox reader goroutine has ended.
func (w *c16World) readerGone(prov bool) bool {
	_, alive, reader := w.parked3(prov)
	return alive && !reader && w.readerShouldRun(prov)
}

// readerShouldRun: the negotiator was started and nobody asked it to stop.
func (w *c16World) readerShouldRun(prov bool) bool {
	s := w.side(prov)
	return atomic.LoadInt32(&s.started) == 1 && s.neg != nil && !s.neg.VerifC16QuitClosed()
}

func (w *c16World) parked3(prov bool) (quiet, alive, reader bool) {
	mainFn := c16RecvMain
	if prov {
		mainFn = c16ProvMain
	}
	readerFn := "\n" + mainFn[:len(mainFn)-1] + ".func"
	quiet = true
	for _, g := range c16Goroutines() {
		if strings.Contains(g.body, readerFn) {
			reader = true
		}
		if (strings.Contains(g.body, c16TExec) && !strings.Contains(g.body, "main.(*c16World)")) ||
			strings.Contains(g.body, "created by "+c16StepPrefix) {
			// (a goroutine spawned by a step function that has not run yet
			// still shows only its go-wrapper frame)
			// an internally spawned TicketExecuted (the harness's own
			// synchronous calls are excluded)
			quiet = false
		}
		if strings.HasPrefix(g.top, mainFn) {
			alive = true
			if g.state != "select" {
				quiet = false
			}
		} else if strings.Contains(g.body, "\n"+mainFn) {
			// main loop goroutine somewhere below a callee
			alive = true
			quiet = false
		}
	}
	dead := w.side(prov).gen != nil && w.side(prov).gen.dead.Load()
	if alive && !dead && atomic.LoadInt32(w.waiting[b01(prov)]) == 0 {
		quiet = false
		if !reader && w.readerShouldRun(prov) {
			// the reader has ended for good: nothing more will happen
			quiet = true
		}
	}
	return
}

// settle waits until the side is quiescent.
func (w *c16World) settle(prov bool) (alive bool, ok bool) {
	deadline := time.Now().Add(5 * time.Second)
	for i := 0; ; i++ {
		q, a := w.parked(prov)
		if q {
			// confirm (a goroutine may be between two states)
			runtime.Gosched()
			q2, a2 := w.parked(prov)
			if q2 && a2 == a {
				return a, true
			}
		}
		if time.Now().After(deadline) {
			return a, false
		}
		if i < 50 {
			runtime.Gosched()
		} else {
			time.Sleep(50 * time.Microsecond)
		}
	}
}

// ---------------------------------------------------------------- whole-run operations

func (w *c16World) persisted(prov bool) *sidecar.Ticket {
	t, err := w.side(prov).db.Sidecar(w.k.baseID, w.k.provPub)
	if err != nil {
		return nil
	}
	return t
}

func (w *c16World) summary() string {
	part := func(prov bool) string {
		s := w.side(prov)
		cur := "-"
		if _, alive := w.parked(prov); alive && s.neg != nil {
			cur = strconv.Itoa(int(s.neg.CurrentState()))
		}
		return cur + "/" + w.k.tok(w.persisted(prov))
	}
	gone := ""
	for _, pv := range []bool{true, false} {
		if w.readerGone(pv) {
			gone += " READER-GONE(" + w.side(pv).name() + ")"
		}
	}
	return fmt.Sprintf("P=%s R=%s bids=%d%s", part(true), part(false), w.bids, gone)
}

// startNegotiator mirrors CoordinateSidecar / AutoAcceptSidecar (first start)
// and the resume rules of SidecarAcceptor.Start (restart; tied to the source by
// the regenerated resumeRemap / resumePackets facts).
func (w *c16World) startNegotiator(prov bool, first bool) {
	s := w.side(prov)
	s.gen = &c16Gen{crashAfter: -1}
	s.neg = nil
	s.registered = false
	s.rpc = pool.VerifC16NewRPC(s.db, auctioneer.VerifC16ClientWith(c16FakeAuct{}))
	tickets, err := s.db.Sidecars()
	if err != nil {
		panic(err)
	}
	for _, ticket := range tickets {
		if !(ticket.Offer.Auto && !ticket.State.IsTerminal()) {
			continue
		}
		cfg := pool.AutoAcceptorConfig{Provider: prov, Driver: s, MailBox: s}
		state := ticket.State
		if prov {
			if state == sidecar.StateOffered && !first {
				state = sidecar.StateCreated
			}
			bid, err := s.db.SidecarBidTemplate(ticket)
			if err != nil {
				panic(err)
			}
			cfg.ProviderBid = bid
			cfg.ProviderAccount = w.k.acct
		}
		cfg.StartingPkt = &pool.SidecarPacket{
			CurrentState: state, ReceiverTicket: ticket, ProviderTicket: ticket,
		}
		s.neg = pool.NewSidecarNegotiator(cfg)
		s.registered = true
		if err := s.rpc.Register(ticket, s.neg); err != nil {
			panic(err)
		}
		atomic.StoreInt32(w.waiting[b01(prov)], 0)
		atomic.StoreInt32(&s.started, 0)
		if err := s.neg.Start(); err != nil {
			panic(err)
		}
		// the main loop spawns its reader before it enters the select
		// loop: wait for the reader's first RecvSidecarPkt
		for j := 0; j < 200000 && atomic.LoadInt32(w.waiting[b01(prov)]) == 0; j++ {
			time.Sleep(10 * time.Microsecond)
		}
		atomic.StoreInt32(&s.started, 1)
	}
}

// reset builds both parties: the provider offers (AddSidecarWithBid), the
// recipient registers through the REAL SidecarAcceptor.RegisterSidecar, both
// start negotiating.
func (w *c16World) reset() string {
	k := w.k
	w.p.db = w.newDB("prov")
	w.rc.db = w.newDB("recp")
	offered := k.base()
	offered.Order = nil
	bid := k.newBid()
	if err := w.p.db.AddSidecarWithBid(offered, bid); err != nil {
		panic(err)
	}
	offered.Order = &sidecar.Order{BidNonce: bid.Nonce()}
	str, err := sidecar.EncodeToString(offered)
	if err != nil {
		panic(err)
	}
	forRecipient, err := sidecar.DecodeString(str)
	if err != nil {
		panic(err)
	}
	acc := pool.NewSidecarAcceptor(&pool.SidecarAcceptorConfig{
		SidecarDB: w.rc.db, Signer: k.signer, Wallet: &c16Wallet{pub: k.msPub}, NodePubKey: k.nodePub,
	})
	reg, err := acc.RegisterSidecar(context.Background(), *forRecipient)
	if err != nil {
		panic(err)
	}
	var ob bytes.Buffer
	_ = sidecar.SerializeTicket(&ob, &sidecar.Ticket{ID: reg.ID, Version: reg.Version, Offer: reg.Offer})
	w.regOffer = ob.Bytes()

	w.startNegotiator(true, true)
	w.settleOrNote(true)
	w.startNegotiator(false, true)
	w.settleOrNote(false)
	return w.takeEffs() + "|" + w.summary()
}

func (w *c16World) settleOrNote(prov bool) bool {
	_, ok := w.settle(prov)
	if !ok {
		w.effs = append(w.effs, "HANG")
	}
	return ok
}

func (w *c16World) msgs(prov bool) [][]byte {
	w.mu.Lock()
	defer w.mu.Unlock()
	if prov {
		return w.toP
	}
	return w.toR
}

// hand gives one message (or a receive error) to the side's reader.
func (w *c16World) hand(prov bool, m c16Msg) bool {
	// the reader counts as busy from now until it is back in RecvSidecarPkt
	for j := 0; j < 100000 && atomic.LoadInt32(w.waiting[b01(prov)]) == 0; j++ {
		time.Sleep(10 * time.Microsecond)
	}
	atomic.StoreInt32(w.waiting[b01(prov)], 0)
	select {
	case w.inCh[b01(prov)] <- m:
		return true
	case <-time.After(time.Second):
		return false
	}
}

func (w *c16World) alive(prov bool) bool {
	_, a := w.parked(prov)
	return a && w.side(prov).neg != nil
}

func (w *c16World) deliver(prov bool, i int) string {
	ms := w.msgs(prov)
	if i >= len(ms) || !w.alive(prov) {
		return "not-enabled"
	}
	if w.readerGone(prov) {
		return "UNDELIVERABLE|" + w.summary()
	}
	if !w.hand(prov, c16Msg{data: ms[i]}) {
		return "HANG-deliver"
	}
	w.settleOrNote(prov)
	return w.takeEffs() + "|" + w.summary()
}

func (w *c16World) recvErr(prov bool, reinitFails bool) string {
	if !w.alive(prov) || w.readerGone(prov) {
		return "not-enabled"
	}
	atomic.StoreInt32(&w.side(prov).afterErr, 1)
	if reinitFails {
		atomic.StoreInt32(&w.side(prov).initFail, 1)
	}
	if !w.hand(prov, c16Msg{err: errors.New("injected receive error")}) {
		return "HANG-rerr"
	}
	w.settleOrNote(prov)
	return w.takeEffs() + "|" + w.summary()
}

func (w *c16World) stop(prov bool) {
	s := w.side(prov)
	if s.neg != nil {
		s.neg.Stop()
	}
	if !prov {
		w.pendingR = map[[32]byte]*sidecar.Ticket{}
	}
}

func (w *c16World) restart(prov bool) string {
	w.stop(prov)
	w.startNegotiator(prov, false)
	w.settleOrNote(prov)
	return w.takeEffs() + "|" + w.summary()
}

func (w *c16World) crash(prov bool, i, k int) string {
	ms := w.msgs(prov)
	if i >= len(ms) || !w.alive(prov) {
		return "not-enabled"
	}
	s := w.side(prov)
	w.mu.Lock()
	s.gen.calls = 0
	s.gen.crashAfter = k
	w.mu.Unlock()
	if !w.hand(prov, c16Msg{data: ms[i]}) {
		return "HANG-deliver"
	}
	w.settleOrNote(prov)
	s.gen.dead.Store(true)
	w.stop(prov)
	w.startNegotiator(prov, false)
	w.settleOrNote(prov)
	return w.takeEffs() + "|" + w.summary()
}

func (w *c16World) finalize(prov bool, st int) string {
	if !w.alive(prov) {
		return "not-enabled"
	}
	done := make(chan struct{})
	go func() {
		w.side(prov).neg.TicketExecuted(sidecar.State(st), false)
		close(done)
	}()
	select {
	case <-done:
	case <-time.After(5 * time.Second):
		return "HANG-fin"
	}
	w.settleOrNote(prov)
	return w.takeEffs() + "|" + w.summary()
}

// dbWrite is a store write done by the RPC server (not by the negotiator).
func (w *c16World) dbWrite(prov bool, t *sidecar.Ticket) error {
	s := w.side(prov)
	err := s.db.UpdateSidecar(t)
	if err == nil {
		w.mu.Lock()
		w.writes[s.name()] = append(w.writes[s.name()], uint8(t.State))
		w.mu.Unlock()
	}
	return err
}

// bounded runs f with a time limit (a mutant must never stall the harness).
func (w *c16World) bounded(f func() error) (error, bool) {
	done := make(chan error, 1)
	go func() { done <- f() }()
	select {
	case err := <-done:
		return err, true
	case <-time.After(5 * time.Second):
		w.effs = append(w.effs, "HANG")
		return nil, false
	}
}

// cancelRPC calls the REAL rpcServer.CancelSidecar (incl. the real CancelOrder
// and setTicketStateForOrder) of a minimal rpcServer over the node's real
// database and a real SidecarAcceptor registry; only the auctioneer's answer
// to the order cancellation is faked. An RPC that fails without having done
// anything is reported as not-enabled.
func (w *c16World) cancelRPC(prov bool) string {
	s := w.side(prov)
	before := w.k.tok(w.persisted(prov))
	err, _ := w.bounded(func() error { return s.rpc.CancelSidecar(w.k.baseID[:]) })
	w.settleOrNote(prov)
	effs := w.takeEffs()
	if err != nil && effs == "-" && before == w.k.tok(w.persisted(prov)) {
		return "not-enabled"
	}
	return effs + "|" + w.summary()
}

// completeRPC mirrors what happens on a node when the batch containing the
// sidecar channel is finalized: the provider's rpcServer marks the ticket of
// the executed order completed (setTicketStateForOrder), the recipient's
// SidecarAcceptor.matchFinalize marks the pending ticket completed; both then
// tell the negotiator.
func (w *c16World) completeRPC(prov bool) string {
	s := w.side(prov)
	pt := w.persisted(prov)
	if pt == nil || pt.State.IsTerminal() {
		return "not-enabled"
	}
	if prov {
		if _, err := s.db.GetOrder(w.k.bidNonce); err != nil {
			return "not-enabled"
		}
		// rpcServer, on the finalization of the batch the order was in
		w.bounded(func() error { return s.rpc.SetTicketStateForOrder(sidecar.StateCompleted, w.k.bidNonce) })
	} else {
		ticket, ok := w.pendingR[w.k.bidNonce]
		if !ok {
			return "not-enabled"
		}
		ticket.State = sidecar.StateCompleted
		_ = w.dbWrite(false, ticket)
		delete(w.pendingR, w.k.bidNonce)
		// SidecarAcceptor.matchFinalize -> finalizeTicketIfExists (real registry)
		w.bounded(func() error { s.rpc.Acc.FinalizeTicket(ticket); return nil })
	}
	w.settleOrNote(prov)
	return w.takeEffs() + "|" + w.summary()
}

// race: ticket a is delivered and its handler is held at its last driver /
// mailbox call (nCalls, learnt from a scratch replay); meanwhile ticket b
// reaches packetChan and a local TicketExecuted(st,false) waits for the
// hand-off. On release the main loop's select picks between b and the
// finalization (Go runtime coin). The observed order is reported:
// "bf" = b handled, then finalization; "fb" = finalization first.
func (w *c16World) race(prov bool, a, b, st, nCalls int) (string, string) {
	ms := w.msgs(prov)
	if a >= len(ms) || b >= len(ms) || !w.alive(prov) || nCalls <= 0 {
		return "not-enabled", ""
	}
	s := w.side(prov)
	g := s.gen
	w.mu.Lock()
	g.calls = 0
	g.blockAt = nCalls
	g.blocked = make(chan struct{})
	g.release = make(chan struct{})
	w.mu.Unlock()
	if !w.hand(prov, c16Msg{data: ms[a]}) {
		return "HANG-deliver", ""
	}
	select {
	case <-g.blocked:
	case <-time.After(3 * time.Second):
		w.mu.Lock()
		g.blockAt = 0
		w.mu.Unlock()
		return "HANG-block", ""
	}
	// b into packetChan (the main loop is busy, so it stays buffered)
	if !w.hand(prov, c16Msg{data: ms[b]}) {
		close(g.release)
		return "HANG-deliver-b", ""
	}
	for j := 0; j < 100000 && atomic.LoadInt32(w.waiting[b01(prov)]) == 0; j++ {
		time.Sleep(10 * time.Microsecond)
	}
	done := make(chan struct{})
	go func() {
		s.neg.TicketExecuted(sidecar.State(st), false)
		close(done)
	}()
	// wait until TicketExecuted is parked on the hand-off
	for j := 0; j < 100000; j++ {
		parked := false
		for _, gr := range c16Goroutines() {
			if strings.HasPrefix(gr.top, c16TExec) && gr.state == "select" {
				parked = true
			}
		}
		if parked {
			break
		}
		time.Sleep(10 * time.Microsecond)
	}
	close(g.release)
	select {
	case <-done:
	case <-time.After(5 * time.Second):
		return "HANG-fin", ""
	}
	w.settleOrNote(prov)
	effs := w.takeEffs()
	// which came first after the held handler: the finalization's store
	// write (state st) or something else?
	order := "bf"
	n := 0
	for _, e := range strings.Split(effs, ",") {
		if !strings.HasPrefix(e, s.name()+".") {
			continue
		}
		n++
		if n <= nCalls {
			continue
		}
		if strings.HasPrefix(e, s.name()+".upd:") && strings.Contains(e, fmt.Sprintf(".%d.", st)) &&
			strings.Split(strings.TrimPrefix(e, s.name()+".upd:"), ".")[1] == strconv.Itoa(st) {
			order = "fb"
		}
		break
	}
	return effs + "|" + w.summary(), order
}

func (w *c16World) close() {
	w.stop(true)
	w.stop(false)
	for _, db := range []*clientdb.DB{w.p.db, w.rc.db, w.fresh, w.stored} {
		if db != nil {
			db.Close()
		}
	}
	for _, d := range w.dbDirs {
		os.RemoveAll(d)
	}
}

// ---------------------------------------------------------------- the oracle (English statement on real traces)

type c16Oracle struct {
	w          *c16World
	lastState  map[string]uint8
	ended      map[string]bool // a cancellation ended this side
	bad        string
	callsAtEnd map[string]int
	calls      map[string]int
}

func c16Rank(s uint8) int { return int(s) }

func (o *c16Oracle) fail(format string, a ...interface{}) {
	if o.bad == "" {
		o.bad = fmt.Sprintf(format, a...)
	}
}

// afterOp evaluates the safety clauses after one harness operation.
func (o *c16Oracle) afterOp(op string, out string) {
	w := o.w
	// (0) liveness / cancel-ends-both precondition: a running negotiator
	// keeps reading its mailbox, whatever receive errors happened
	if strings.Contains(out, "READER-GONE") || strings.HasPrefix(out, "UNDELIVERABLE") {
		o.fail("the mailbox reader of a running negotiator has ended (after %q: %s): no ticket sent to this side - "+
			"neither the ordered ticket nor a cancellation - can ever be delivered, without any restart", op, out)
	}
	// (1) at most one bid
	if w.bids > 1 {
		o.fail("provider submitted %d bids for one ticket (after %q)", w.bids, op)
	}
	if os, err := w.p.db.GetOrders(); err == nil && len(os) > 1 {
		o.fail("%d orders stored for one ticket", len(os))
	}
	// (2) expecting only for a validly signed order over the registered offer
	w.mu.Lock()
	exp := w.expected
	w.expected = nil
	w.mu.Unlock()
	for _, t := range exp {
		var ob bytes.Buffer
		_ = sidecar.SerializeTicket(&ob, &sidecar.Ticket{ID: t.ID, Version: t.Version, Offer: t.Offer})
		okSig := false
		if t.Order != nil && t.Order.SigOrderDigest != nil && t.Order.BidNonce != [32]byte{} {
			c := *t
			c.State = sidecar.StateOrdered
			if d, err := c.OrderDigest(); err == nil {
				h := sha256.Sum256(d[:])
				okSig = t.Order.SigOrderDigest.Verify(h[:], w.k.provPub)
			}
		}
		if !okSig {
			o.fail("recipient expects a channel for a ticket without the provider's valid order signature (after %q)", op)
		}
		if !bytes.Equal(ob.Bytes(), w.regOffer) {
			o.fail("recipient expects a channel for an offer other than the one it registered (after %q)", op)
		}
	}
	// (3) persisted state never moves backwards; terminal states are final.
	// Every successful store write of the negotiators is checked, and the
	// stored ticket after the op.
	for _, side := range []string{"P", "R"} {
		w.mu.Lock()
		ws := w.writes[side]
		w.writes[side] = nil
		w.mu.Unlock()
		if pt := w.persisted(side == "P"); pt != nil {
			ws = append(ws, uint8(pt.State))
		}
		for _, st := range ws {
			last, seen := o.lastState[side]
			if seen {
				term := last == uint8(sidecar.StateCompleted) || last == uint8(sidecar.StateCanceled)
				if term && st != last {
					o.fail("%s: persisted ticket left the terminal state %d for %d (after %q)", side, last, st, op)
				}
				if !term && st != uint8(sidecar.StateCanceled) && c16Rank(st) < c16Rank(last) {
					o.fail("%s: persisted ticket state moved backwards %d -> %d (after %q)", side, last, st, op)
				}
			}
			o.lastState[side] = st
		}
	}
	// (4) a cancellation ends the side: once ended, no driver/mailbox call
	for _, e := range strings.Split(strings.SplitN(out, "|", 2)[0], ",") {
		if len(e) > 2 && (e[0] == 'P' || e[0] == 'R') && e[1] == '.' {
			o.calls[e[:1]]++
		}
	}
	for _, side := range []string{"P", "R"} {
		if o.ended[side] && o.calls[side] != o.callsAtEnd[side] {
			o.fail("%s: made %d driver/mailbox calls after its cancellation had ended it (after %q: %s)",
				side, o.calls[side]-o.callsAtEnd[side], op, out)
			o.callsAtEnd[side] = o.calls[side]
		}
	}
}

// ended marks a side as ended by a cancellation; checks its final state.
func (o *c16Oracle) markEnded(prov bool, op string) {
	side := "R"
	if prov {
		side = "P"
	}
	w := o.w
	if _, alive := w.parked(prov); alive {
		o.fail("%s: negotiator still running after the cancellation (%q)", side, op)
	}
	if pt := w.persisted(prov); pt == nil || pt.State != sidecar.StateCanceled {
		o.fail("%s: persisted ticket is not canceled after the cancellation (%q)", side, op)
	}
	o.ended[side] = true
	o.callsAtEnd[side] = o.calls[side]
}

// ---------------------------------------------------------------- running a schedule

type c16Result struct {
	lines [][2]string
	bad   string
	hang  bool
	final string
	extra string // not in the summary: pending expectation, stored order
	id    string // the ticket ID of the run (hex)
}

// runSchedule executes ops on a fresh pair of real negotiators.
func c16RunSchedule(r *Run, k *c16Keys, ops []string) c16Result {
	id := c16RandomID(r)
	if len(ops) > 0 && strings.HasPrefix(ops[0], "id ") {
		// a recorded case names its ticket ID
		if b, err := hex.DecodeString(strings.TrimPrefix(ops[0], "id ")); err == nil && len(b) == 8 {
			copy(id[:], b)
		}
		ops = ops[1:]
	}
	k = k.withID(id)
	if id[0] > 0x73 {
		r.Count("run/id-after-bids-bucket")
	} else {
		r.Count("run/id-before-bids-bucket")
	}
	w := newC16World(r, k)
	defer w.close()
	o := &c16Oracle{w: w, lastState: map[string]uint8{}, ended: map[string]bool{},
		callsAtEnd: map[string]int{}, calls: map[string]int{}}
	var res c16Result
	emit := func(op, out string) {
		res.lines = append(res.lines, [2]string{"C16 " + op, out})
		if strings.Contains(out, "HANG") {
			res.hang = true
		}
		o.afterOp(op, out)
	}
	emit("reset", w.reset())
	for _, op := range ops {
		if o.bad != "" || res.hang {
			break // stop the case at its first violation
		}
		f := strings.Fields(op)
		if len(f) < 2 {
			continue
		}
		prov := f[1] == "P"
		var out string
		atoi := func(i int) int {
			if i >= len(f) {
				return 0
			}
			n, _ := strconv.Atoi(f[i])
			return n
		}
		switch f[0] {
		case "dlv":
			var cancelMsg bool
			if ms := w.msgs(prov); atoi(2) < len(ms) {
				if t, err := sidecar.DeserializeTicket(bytes.NewReader(ms[atoi(2)])); err == nil {
					cancelMsg = t.State == sidecar.StateCanceled
				}
			}
			out = w.deliver(prov, atoi(2))
			emit(op, out)
			if cancelMsg && out != "not-enabled" {
				o.markEnded(prov, op)
				r.Count("run/cancel-delivered")
			}
			continue
		case "rerr":
			out = w.recvErr(prov, false)
		case "outage":
			// receive error while the server stays unreachable for the
			// first reconnect attempt, then comes back
			out = w.recvErr(prov, true)
		case "restart", "crash":
			if f[0] == "restart" {
				out = w.restart(prov)
			} else {
				out = w.crash(prov, atoi(2), atoi(3))
			}
			emit(op, out)
			// a restart resumes every non-terminal auto ticket from the store
			if pt := w.persisted(prov); out != "not-enabled" && pt != nil && !pt.State.IsTerminal() && !w.alive(prov) {
				o.fail("%s was restarted with a stored ticket in the non-terminal state %d but no negotiator was "+
					"resumed for it: the negotiation (and any cancellation by the other side) can never continue (%q)",
					f[1], pt.State, op)
			}
			continue
		case "fin":
			out = w.finalize(prov, atoi(2))
			emit(op, out)
			if atoi(2) == int(sidecar.StateCanceled) && out != "not-enabled" {
				o.markEnded(prov, op)
			}
			continue
		case "cancel", "complete":
			curBefore := -1
			if w.alive(prov) {
				curBefore = int(w.side(prov).neg.CurrentState())
			}
			if f[0] == "cancel" {
				out = w.cancelRPC(prov)
			} else {
				out = w.completeRPC(prov)
			}
			emit(op, out)
			if f[0] == "cancel" && out != "not-enabled" {
				o.markEnded(prov, op)
				r.Count("run/cancel-own")
				// the other side must be told whenever one may be listening
				if curBefore >= 0 && (!prov || curBefore >= int(sidecar.StateRegistered)) {
					to := ":P:"
					if prov {
						to = ":R:"
					}
					told := false
					for _, e := range strings.Split(strings.SplitN(out, "|", 2)[0], ",") {
						if strings.Contains(e, ".snd"+to) && strings.HasSuffix(e, ":1") &&
							strings.Split(strings.Split(e, ":")[2], ".")[1] == "6" {
							told = true
						}
					}
					if !told {
						o.fail("%s canceled the ticket while its negotiator was running (state %d) but no "+
							"cancel message was sent to the other side: the cancellation cannot end both (%q: %s)",
							f[1], curBefore, op, out)
					}
				}
			}
			continue
		case "race":
			// race X a b st nCalls
			var ord string
			out, ord = w.race(prov, atoi(2), atoi(3), atoi(4), atoi(5))
			if ord != "" {
				r.Count("race/" + ord)
				op = fmt.Sprintf("race %s %d %d %d %s", f[1], atoi(2), atoi(3), atoi(4), ord)
			} else {
				op = fmt.Sprintf("race %s %d %d %d bf", f[1], atoi(2), atoi(3), atoi(4))
				if atoi(5) <= 0 {
					continue
				}
			}
			emit(op, out)
			if atoi(4) == int(sidecar.StateCanceled) && out != "not-enabled" {
				o.markEnded(prov, op)
			}
			continue
		default:
			continue
		}
		emit(op, out)
	}
	res.bad = o.bad
	res.final = w.summary()
	res.extra = fmt.Sprintf("pend=%d", len(w.pendingR))
	res.id = hex.EncodeToString(id[:])
	return res
}

// c16Enabled lists the ops worth trying next, from the state visible in the
// last output (message counts are tracked by replaying, so the caller passes
// the number of distinct messages per direction).
type c16Sched struct {
	ops []string
}

// ---------------------------------------------------------------- single steps

// c16ErrClass classifies a failed step by WHICH proxy call failed (the call
// trace of the driver / mailbox wrappers), never by the error text: the step
// functions return right after the first failing call.
func c16ErrClass(effs string, sendRejected bool) int {
	if effs != "-" {
		parts := strings.Split(effs, ",")
		last := parts[len(parts)-1]
		f := strings.Split(last, ":")
		failed := f[len(f)-1] == "0" || f[len(f)-1] == "other" || f[len(f)-1] == "exists"
		if failed {
			switch f[0] {
			case "snd":
				return 1
			case "upd":
				return 2
			case "sub":
				return 3
			case "val":
				return 4
			case "exp":
				return 5
			}
		}
	}
	if sendRejected {
		// the mailbox refused the ticket before sending (nil ticket)
		return 1
	}
	// no call failed: the step did not know what to do with the packet
	return 6
}

// c16Step runs ONE real stateStepProvider / stateStepRecipient call.
func c16Step(w *c16World, prov bool, cur int, recvTok, provTok string, sc *c16Script) string {
	k := w.k
	s := w.side(prov)
	s.script = sc
	s.gen = &c16Gen{crashAfter: -1}
	recv, pv := k.mk(recvTok), k.mk(provTok)
	atomic.StoreInt32(&w.sendRejected, 0)
	pkt := &pool.SidecarPacket{CurrentState: sidecar.State(cur), ReceiverTicket: recv, ProviderTicket: pv}
	neg := pool.NewSidecarNegotiator(pool.AutoAcceptorConfig{
		Provider: prov, StartingPkt: pkt, Driver: s, MailBox: s,
		ProviderBid: k.newBid(), ProviderAccount: k.acct,
	})
	var (
		out      *pool.SidecarPacket
		err      error
		panicked bool
	)
	func() {
		defer func() {
			if rec := recover(); rec != nil {
				panicked = true
			}
		}()
		if prov {
			out, err = neg.VerifC16StepProvider(context.Background(), pkt, k.newBid(), k.acct)
		} else {
			out, err = neg.VerifC16StepRecipient(context.Background(), pkt)
		}
	}()
	effs := w.takeEffs()
	if panicked {
		return "panic"
	}
	strip := func(e string) string {
		if e == "-" {
			return e
		}
		parts := strings.Split(e, ",")
		for i := range parts {
			parts[i] = parts[i][2:]
		}
		return strings.Join(parts, ",")
	}
	effs = strip(effs)
	if err == nil && out.CurrentState == sidecar.StateCanceled {
		// the clause spawned `go a.TicketExecuted(StateCanceled, true)`
		st, other, ok := neg.VerifC16TakeFinalization(2 * time.Second)
		if ok && st == sidecar.StateCanceled && other {
			if effs == "-" {
				effs = "spawn"
			} else {
				effs += ",spawn"
			}
		}
		neg.Stop()
	}
	var head string
	if err != nil {
		head = fmt.Sprintf("err %d", c16ErrClass(effs, atomic.SwapInt32(&w.sendRejected, 0) == 1))
	} else {
		head = fmt.Sprintf("ok %d %s %s", uint8(out.CurrentState), k.tok(out.ReceiverTicket), k.tok(out.ProviderTicket))
	}
	return head + "|prov=" + k.tok(pv) + "|" + effs
}

var c16States = []int{0, 1, 2, 3, 4, 5, 6}

func c16RandTicket(r *Run, mostlyValid bool) string {
	if r.Rng.Intn(14) == 0 {
		return "nil"
	}
	pick := func(xs ...string) string { return xs[r.Rng.Intn(len(xs))] }
	st := c16States[r.Rng.Intn(7)]
	if r.Rng.Intn(40) == 0 {
		st = 7 + r.Rng.Intn(3)
	}
	if mostlyValid {
		// shapes that occur in honest runs, with the state varied
		switch r.Rng.Intn(4) {
		case 0:
			return fmt.Sprintf("0.%d.v.0.1n", st)
		case 1:
			return fmt.Sprintf("0.%d.v.1.1n", st)
		default:
			if r.Rng.Intn(12) == 0 {
				return fmt.Sprintf("0.%d.y.1.1v", st)
			}
			return fmt.Sprintf("0.%d.v.1.1v", st)
		}
	}
	id := pick("0", "0", "0", "1")
	return fmt.Sprintf("%s.%d.%s.%s.%s", id, st, pick("v", "v", "v", "x", "n", "y"), pick("0", "1", "1"),
		pick("-", "1n", "1v", "1v", "1x", "0v", "2v", "2n"))
}

// c16Situation returns (state, receiver ticket, provider ticket) as they meet
// in honest runs, with one ticket field deviating in 60% of the cases.
func c16Situation(r *Run, prov bool) (int, string, string) {
	type sit struct {
		cur      int
		recv, pv string
	}
	const (
		off = "0.1.v.0.1n"
		reg = "0.2.v.1.1n"
		ord = "0.3.v.1.1v"
		exp = "0.4.v.1.1v"
		can = "0.6.v.1.1v"
	)
	var sits []sit
	if prov {
		// receiver ticket = incoming, provider ticket = local
		sits = []sit{{0, off, off}, {1, reg, off}, {2, reg, reg}, {3, reg, ord}, {4, reg, exp},
			{2, can, reg}, {4, can, exp}, {4, exp, exp}, {2, reg, ord}}
	} else {
		// receiver ticket = local, provider ticket = incoming
		sits = []sit{{2, reg, reg}, {2, reg, ord}, {2, reg, ord}, {4, exp, ord}, {2, reg, off}, {4, exp, off},
			{2, reg, can}, {4, exp, can}, {4, exp, exp}}
	}
	st := sits[r.Rng.Intn(len(sits))]
	if r.Rng.Intn(10) < 6 {
		which := &st.pv
		if r.Rng.Intn(3) == 0 {
			which = &st.recv
		}
		f := strings.Split(*which, ".")
		pick := func(xs ...string) string { return xs[r.Rng.Intn(len(xs))] }
		switch r.Rng.Intn(5) {
		case 0:
			f[0] = "1"
		case 1:
			f[1] = strconv.Itoa(r.Rng.Intn(8))
		case 2:
			f[2] = pick("x", "n", "y", "y")
		case 3:
			f[3] = pick("0", "1")
		default:
			f[4] = pick("-", "1n", "1x", "0v", "0n", "2v", "2n", "1v")
		}
		*which = strings.Join(f, ".")
	}
	return st.cur, st.recv, st.pv
}

func c16RunSteps(r *Run, k *c16Keys, n int) {
	w := newC16World(r, k)
	// a recipient store that knows ticket 0 (for the real validate/expect)
	w.rc.db = w.newDB("step-recp")
	reg := k.mk("0.2.v.1.1n")
	if err := w.rc.db.AddSidecar(reg); err != nil {
		panic(err)
	}
	w.p.db = w.newDB("step-prov")
	defer w.close()
	pick := func(xs ...string) string { return xs[r.Rng.Intn(len(xs))] }
	for c := 0; c < n; c++ {
		prov := r.Rng.Intn(2) == 0
		cur := c16States[r.Rng.Intn(7)]
		mostly := r.Rng.Intn(4) != 0
		recv, pv := c16RandTicket(r, mostly), c16RandTicket(r, mostly)
		if r.Rng.Intn(3) == 0 {
			// a situation of an honest run, with at most one field of one
			// of the two tickets changed
			cur, recv, pv = c16Situation(r, prov)
			r.Count("step/situation")
		}
		sc := &c16Script{sendOk: r.Rng.Intn(8) != 0, updOk: r.Rng.Intn(8) != 0}
		var op string
		if prov {
			sc.submit = pick("ok", "ok", "exists", "other", "real0", "real0", "real1")
			op = fmt.Sprintf("stepP %d %s %s %s %s %s", cur, recv, pv, b01(sc.sendOk), b01(sc.updOk), sc.submit)
		} else {
			sc.validate = pick("real", "real", "real", "1", "0")
			sc.expect = pick("realN", "realN", "realP", "1", "0")
			op = fmt.Sprintf("stepR %d %s %s %s %s %s", cur, recv, pv, b01(sc.sendOk), sc.validate, sc.expect)
		}
		out := c16Step(w, prov, cur, recv, pv, sc)
		r.Emit("C16 "+op, out)
		r.Evaluations++
		side := "R"
		if prov {
			side = "P"
		}
		switch {
		case out == "panic":
			r.Count("step/" + side + "/panic")
		case strings.HasPrefix(out, "err"):
			r.Count("step/" + side + "/" + strings.SplitN(out, "|", 2)[0])
		default:
			f := strings.Fields(out)
			r.Count("step/" + side + "/ok->" + f[1])
			r.Distinct(op)
		}
		// step oracle (independent of the model): with the real validation a
		// recipient in state registered starts expecting only for a ticket
		// with valid offer and order signatures over a non-zero nonce that
		// its store knows
		if !prov && sc.validate == "real" && cur == 2 && strings.Contains(out, "exp:") &&
			strings.HasSuffix(strings.SplitN(out, "|", 3)[2], ":1") {
			f := strings.Split(pv, ".")
			if !(len(f) == 5 && f[0] == "0" && f[2] == "v" && len(f[4]) == 2 && f[4][1] == 'v' && f[4][0] != '0') {
				r.Count("oracle/violation")
				r.Violate("recipient started expecting a channel for ticket "+pv+" that does not carry valid "+
					"offer/order signatures of the provider for a ticket it registered", "C16/safety", []string{op})
			}
		}
		// the ticket the provider hands back after a real, successful bid
		// submission carries its valid order signature for THAT bid
		if prov && strings.HasPrefix(sc.submit, "real") && strings.HasPrefix(out, "ok 3 ") {
			tk := strings.SplitN(strings.Fields(out)[3], "|", 2)[0]
			ft := strings.Split(tk, ".")
			if !(len(ft) == 5 && ft[4] == "1v") {
				r.Count("oracle/violation")
				r.Violate("provider submitted the bid but the ordered ticket "+tk+
					" does not carry its valid order signature over the nonce of the submitted bid",
					"C16/safety", []string{op})
			}
		}
		if strings.Contains(out, "sub:") && strings.Contains(out, ":exists") && strings.HasPrefix(sc.submit, "real") {
			r.Violate("the real order manager now reports ErrOrderExists in a way errors.Is matches; "+
				"stateStepProvider then continues with a nil ticket", "C16/errexists-branch-live", op)
		}
	}
	w.bids = 0
}

// c16DBSeq runs a sequence of real clientdb UpdateSidecar calls on a store
// prepared with AddSidecarWithBid ("bid"), AddSidecar ("plain") or nothing.
func c16DBSeq(r *Run, k *c16Keys, w *c16World, kind string, items []string) string {
	db := w.newDB("dbseq")
	defer db.Close()
	t := k.base()
	switch kind {
	case "bid":
		t.Order = nil
		if err := db.AddSidecarWithBid(t, k.newBid()); err != nil {
			panic(err)
		}
	case "plain":
		if err := db.AddSidecar(t); err != nil {
			panic(err)
		}
	}
	var outs []string
	for _, it := range items {
		st, _ := strconv.Atoi(it[:len(it)-1])
		u := k.base()
		u.State = sidecar.State(st)
		switch it[len(it)-1] {
		case 'n':
			u.Order = nil
		case 'z':
			u.Order = &sidecar.Order{}
		default:
			u.Order = &sidecar.Order{BidNonce: k.bidNonce}
		}
		outs = append(outs, b01(db.UpdateSidecar(u) == nil))
	}
	return strings.Join(outs, ",")
}

func c16RunDBSeqs(r *Run, k *c16Keys, n int) {
	w := newC16World(r, k)
	defer w.close()
	for c := 0; c < n; c++ {
		kind := []string{"bid", "bid", "plain", "none"}[r.Rng.Intn(4)]
		var items []string
		for i := 0; i < 1+r.Rng.Intn(5); i++ {
			st := []int{1, 2, 4, 5, 6, 5, 6}[r.Rng.Intn(7)]
			items = append(items, fmt.Sprintf("%d%c", st, "nzbbb"[r.Rng.Intn(5)]))
		}
		out := c16DBSeq(r, k, w, kind, items)
		r.Emit("C16 db "+kind+" "+strings.Join(items, ","), out)
		r.Evaluations++
		r.Count("db/" + kind)
		if kind != "none" && strings.Contains(out, "0") {
			r.Count("oracle/violation")
			r.Violate("UpdateSidecar of a stored ticket failed ("+kind+": "+strings.Join(items, ",")+" -> "+out+
				"): a side can no longer persist its (final) ticket state", "C16/safety",
				[]string{"db " + kind + " " + strings.Join(items, ",")})
		}
	}
}

// c16ReplayStep re-runs one recorded single-step op.
func c16ReplayStep(r *Run, k *c16Keys, op string) {
	f := strings.Fields(op)
	if len(f) != 7 {
		return
	}
	w := newC16World(r, k)
	w.rc.db = w.newDB("step-recp")
	if err := w.rc.db.AddSidecar(k.mk("0.2.v.1.1n")); err != nil {
		panic(err)
	}
	w.p.db = w.newDB("step-prov")
	defer w.close()
	cur, _ := strconv.Atoi(f[1])
	prov := f[0] == "stepP"
	sc := &c16Script{sendOk: f[4] == "1"}
	if prov {
		sc.updOk, sc.submit = f[5] == "1", f[6]
	} else {
		sc.updOk, sc.validate, sc.expect = true, f[5], f[6]
	}
	out := c16Step(w, prov, cur, f[2], f[3], sc)
	r.Emit("C16 "+op, out)
	r.Evaluations++
	if !prov && sc.validate == "real" && cur == 2 && strings.Contains(out, "exp:") &&
		strings.HasSuffix(strings.SplitN(out, "|", 3)[2], ":1") {
		t := strings.Split(f[3], ".")
		if !(len(t) == 5 && t[0] == "0" && t[2] == "v" && len(t[4]) == 2 && t[4][1] == 'v' && t[4][0] != '0') {
			r.Violate("recipient started expecting a channel for an unvalidated ticket "+f[3], "C16/safety", []string{op})
		}
	}
}

// ---------------------------------------------------------------- schedule generation

// c16Explore enumerates schedules breadth-first on the REAL system: from every
// distinct observable state every enabled delivery (one per distinct ticket,
// duplicates included), every crash point inside the handler of that delivery,
// restart, cancellation and completion of either side is tried; states already
// seen (negotiator states, persisted tickets, tickets in flight, bids) are not
// expanded again.
func c16Explore(r *Run, k *c16Keys, maxDepth int, budget int, run func(ops []string) c16Result) {
	type node struct {
		ops []string
		res c16Result
	}
	seen := map[string]bool{}
	root := run(nil)
	seen[c16StateKey(root)] = true
	frontier := []node{{nil, root}}
	for depth := 1; depth <= maxDepth && len(frontier) > 0 && budget > 0; depth++ {
		var next []node
		for _, n := range frontier {
			if budget <= 0 {
				break
			}
			try := func(op string) c16Result {
				budget--
				ops := append(append([]string{}, n.ops...), op)
				res := run(ops)
				if key := c16StateKey(res); !seen[key] && !res.hang && res.bad == "" {
					seen[key] = true
					next = append(next, node{ops, res})
				}
				return res
			}
			toP, toR := c16Sent(n.res)
			for _, dir := range []struct {
				side string
				ms   []string
			}{{"P", toP}, {"R", toR}} {
				done := map[string]bool{}
				for i, tok := range dir.ms {
					if done[tok] || budget <= 0 {
						continue
					}
					done[tok] = true
					res := try(fmt.Sprintf("dlv %s %d", dir.side, i))
					last := res.lines[len(res.lines)-1][1]
					calls := 0
					if es := strings.SplitN(last, "|", 2)[0]; es != "-" && es != "not-enabled" {
						calls = len(strings.Split(es, ","))
					}
					for kk := 0; kk < calls && budget > 0; kk++ {
						try(fmt.Sprintf("crash %s %d %d", dir.side, i, kk))
					}
				}
			}
			for _, op := range []string{"restart P", "restart R", "cancel P", "cancel R", "complete P", "complete R"} {
				if budget > 0 {
					try(op)
				}
			}
		}
		r.Hist[fmt.Sprintf("explore/depth%d-states", depth)] += len(next)
		frontier = next
	}
}

// c16StateKey identifies the observable state after a run.
func c16StateKey(res c16Result) string {
	toP, toR := c16Sent(res)
	set := func(xs []string) string {
		m := map[string]bool{}
		var u []string
		for _, x := range xs {
			if !m[x] {
				m[x] = true
				u = append(u, x)
			}
		}
		return strings.Join(u, ",")
	}
	return res.final + "|" + set(toP) + "|" + set(toR) + "|" + res.extra
}

// c16Sent lists the tokens of the tickets sent to each side so far (from
// the effects of the real run).
func c16Sent(res c16Result) (toP, toR []string) {
	for _, l := range res.lines {
		for _, e := range strings.Split(strings.SplitN(l[1], "|", 2)[0], ",") {
			f := strings.Split(e, ":")
			if len(f) == 4 && strings.HasSuffix(f[0], ".snd") && f[3] == "1" {
				if f[1] == "P" {
					toP = append(toP, f[2])
				} else {
					toR = append(toR, f[2])
				}
			}
		}
	}
	return
}

func c16CountMsgs(res c16Result) (int, int) {
	a, b := c16Sent(res)
	return len(a), len(b)
}

func c16RandomSchedule(r *Run, length int, noRestart bool) []string {
	var ops []string
	nP, nR := 1, 0 // lower bounds; out-of-range deliveries are "not-enabled" on both sides
	for i := 0; i < length; i++ {
		side := "P"
		if r.Rng.Intn(2) == 0 {
			side = "R"
		}
		x := r.Rng.Intn(100)
		idx := r.Rng.Intn(4)
		switch {
		case x < 55:
			ops = append(ops, fmt.Sprintf("dlv %s %d", side, idx))
		case noRestart:
			ops = append(ops, fmt.Sprintf("dlv %s %d", side, r.Rng.Intn(2)))
		case x < 70:
			ops = append(ops, "restart "+side)
		case x < 85:
			ops = append(ops, fmt.Sprintf("crash %s %d %d", side, idx, r.Rng.Intn(4)))
		case x < 90:
			ops = append(ops, "cancel "+side)
		case x < 93:
			ops = append(ops, "complete "+side)
		default:
			ops = append(ops, "restart "+side)
		}
	}
	_ = nP
	_ = nR
	return ops
}

// ---------------------------------------------------------------- entry point

func runC16(r *Run) {
	r.Rule = "(a) single calls of the real stateStepProvider/stateStepRecipient on random packets (nil tickets, all states, " +
		"bad/missing signatures, scripted and real driver answers); (b) whole runs of two real SidecarNegotiators over " +
		"real clientdb stores, a real ECDSA signer and the real order manager, driven in lock-step: all schedules of " +
		"deliveries (incl. duplicates) / restarts / crash points / cancellations up to a depth, plus random deeper ones " +
		"with receive errors and cancel-vs-delivery races; (c) no-restart runs with fair delivery (liveness clause). " +
		"non-trivial = a run in which a bid was submitted or a cancellation was delivered"
	var err error
	c16Tmp, err = os.MkdirTemp("/dev/shm", "sidecar-c16-")
	if err != nil {
		c16Tmp, err = os.MkdirTemp("", "sidecar-c16-")
		if err != nil {
			panic(err)
		}
	}
	defer os.RemoveAll(c16Tmp)
	k := newC16Keys()

	record := func(ops []string, res c16Result, kind string) {
		for _, l := range res.lines {
			r.Emit(l[0], l[1])
			f := strings.Fields(l[0])
			r.Count("op/" + f[1])
			if strings.Contains(l[1], "not-enabled") {
				r.Count("op/not-enabled")
			}
		}
		r.Evaluations++
		all := ""
		for _, l := range res.lines {
			all += l[1] + ";"
		}
		if strings.Contains(all, ":ok") || strings.Contains(all, "spawn") || strings.Contains(all, ".6.") {
			r.Distinct(strings.Join(ops, ";") + all)
		}
		if strings.Contains(all, "sub:") && strings.Contains(all, ":other") {
			r.Count("run/resubmit-rejected")
		}
		if strings.Contains(res.final, "P=4/") && strings.Contains(res.final, " R=4/") {
			r.Count("run/both-expecting")
		}
		r.Count("run/" + kind)
		r.Sample(map[string]interface{}{"ops": ops, "final": res.final})
		if res.hang {
			r.Count("run/hang")
			r.Violate("the real negotiators did not become quiescent within 5s", "C16/hang", ops)
		}
		if res.bad != "" {
			r.Count("oracle/violation")
			r.Violate(res.bad, "C16/safety", append([]string{"id " + res.id}, ops...))
		}
	}
	runRec := func(kind string) func(ops []string) c16Result {
		return func(ops []string) c16Result {
			if len(r.Violations) >= 20 {
				// enough failing inputs: do not run any more cases
				return c16Result{lines: [][2]string{{"C16 skipped", "-"}}, hang: true, final: "skipped"}
			}
			t0 := time.Now()
			res := c16RunSchedule(r, k, ops)
			r.Hist["ms/"+kind] += int(time.Since(t0).Milliseconds())
			record(ops, res, kind)
			return res
		}
	}

	// recorded cases first: lists of ops
	for _, raw := range r.FixedCases() {
		var c []string
		if json.Unmarshal(raw, &c) != nil {
			continue
		}
		r.Count("case/fixed")
		if len(c) == 1 && strings.HasPrefix(c[0], "db ") {
			f := strings.Fields(c[0])
			if len(f) == 3 {
				w := newC16World(r, k)
				out := c16DBSeq(r, k, w, f[1], strings.Split(f[2], ","))
				w.close()
				r.Emit("C16 "+c[0], out)
				r.Evaluations++
				if f[1] != "none" && strings.Contains(out, "0") {
					r.Violate("UpdateSidecar of a stored ticket failed: "+out, "C16/safety", []string{c[0]})
				}
			}
			continue
		}
		if len(c) == 1 && strings.HasPrefix(c[0], "step") {
			c16ReplayStep(r, k, c[0])
			continue
		}
		// a race is a coin flip in the Go runtime: try it several times
		tries := 1
		for _, op := range c {
			if strings.HasPrefix(op, "race") {
				tries = 12
			}
		}
		for t := 0; t < tries; t++ {
			res := runRec("fixed")(c)
			if res.bad != "" {
				break
			}
		}
	}
	if r.ReplayFile != "" {
		return
	}

	// (a) single steps
	nSteps := r.N * 20
	t0 := time.Now()
	c16RunSteps(r, k, nSteps)
	r.Hist["ms/steps"] += int(time.Since(t0).Milliseconds())
	c16RunDBSeqs(r, k, 40+r.N/10)

	// (b) exhaustive shallow schedules + random deep ones
	depth := 5
	budget := r.N * 3
	if r.Tier == "thorough" {
		depth = 8
	}
	if r.Search {
		depth = 4
		budget = r.N * 2
	}
	c16Explore(r, k, depth, budget, runRec("enumerated"))
	nRand := r.N / 4
	for c := 0; c < nRand; c++ {
		ops := c16RandomSchedule(r, 4+r.Rng.Intn(12), false)
		if c%25 == 0 {
			ops = append(ops, "rerr P", "rerr R")
		}
		runRec("random")(ops)
	}
	// directed schedules: crash between bid submission and the ticket
	// update (the re-submission must be rejected), cancellations that are
	// delivered to the other side
	directed := [][]string{
		{"crash P 0 2", "dlv P 0"},
		{"crash P 0 3", "dlv P 0", "restart R", "dlv P 1"},
		{"crash P 0 2", "restart R", "dlv P 1", "dlv P 0"},
		{"dlv P 0", "dlv R 0", "cancel P", "dlv R 1"},
		{"dlv P 0", "cancel R", "dlv P 1"},
		{"dlv P 0", "dlv R 0", "complete P", "complete R", "restart P", "restart R"},
		{"restart P", "dlv R 0", "dlv P 0", "dlv P 1", "cancel P", "dlv R 2", "dlv R 1"},
	}
	// a mailbox outage (receive error + failing reconnect) on either side,
	// then the negotiation / a cancellation must still get through
	directed = append(directed,
		[]string{"outage R", "dlv P 0", "dlv R 0", "cancel P", "dlv R 1"},
		[]string{"outage P", "dlv P 0", "dlv R 0"},
		[]string{"dlv P 0", "outage R", "outage P", "dlv R 0", "dlv P 0", "cancel P", "dlv R 2"},
		[]string{"outage P", "outage R", "cancel R", "dlv P 1"})
	// a cancellation by either side at every point the provider can be
	// resumed from (crash after k driver/mailbox calls of its first handler)
	for kk := 0; kk <= 4; kk++ {
		directed = append(directed,
			[]string{fmt.Sprintf("crash P 0 %d", kk), "cancel R", "dlv P 1", "dlv P 2"},
			[]string{fmt.Sprintf("crash P 0 %d", kk), "cancel P", "dlv R 0", "dlv R 1", "dlv R 2"},
			[]string{fmt.Sprintf("crash P 0 %d", kk), "dlv R 0", "complete P", "complete R"})
	}
	for c := 0; c < len(directed)+6; c++ {
		ops := append([]string{}, directed[c%len(directed)]...)
		if c >= len(directed) {
			ops = append(ops, c16RandomSchedule(r, 2, false)...)
		}
		runRec("directed")(ops)
	}

	// cancel-vs-delivery races: a ticket sits in packetChan when a local
	// cancellation / completion is handed to the main loop
	prefixes := [][]string{{}, {"dlv P 0"}, {"dlv P 0", "dlv R 0"}, {"restart P"}, {"dlv P 0", "restart R"},
		{"dlv P 0", "dlv R 0", "dlv P 0"}, {"restart P", "dlv R 0"}}
	nRace := 16 + r.N/20
	for c := 0; c < nRace; c++ {
		prefix := prefixes[r.Rng.Intn(len(prefixes))]
		if c%3 == 2 {
			prefix = c16RandomSchedule(r, 1+r.Rng.Intn(5), true)
		}
		side := "P"
		if c%2 == 1 {
			side = "R"
		}
		if c < 4 {
			// the provider before it has seen the registered ticket
			prefix, side = prefixes[0], "P"
		}
		probe := c16RunSchedule(r, k, prefix)
		toP, toR := c16Sent(probe)
		ms := toR
		if side == "P" {
			ms = toP
		}
		if len(ms) == 0 || probe.hang || probe.bad != "" {
			continue
		}
		a, b := r.Rng.Intn(len(ms)), r.Rng.Intn(len(ms))
		if strings.Split(ms[a], ".")[1] == "6" || strings.Split(ms[b], ".")[1] == "6" {
			continue
		}
		scratch := runRec("race-probe")(append(append([]string{}, prefix...), fmt.Sprintf("dlv %s %d", side, a)))
		last := scratch.lines[len(scratch.lines)-1][1]
		n := 0
		if es := strings.SplitN(last, "|", 2)[0]; es != "-" && es != "not-enabled" {
			n = len(strings.Split(es, ","))
		}
		if n == 0 {
			continue
		}
		st := 6
		if r.Rng.Intn(4) == 0 {
			st = 5
		}
		runRec("race")(append(append([]string{}, prefix...), fmt.Sprintf("race %s %d %d %d %d", side, a, b, st, n)))
	}

	// (c) liveness clause: no restarts, every sent ticket eventually delivered
	for c := 0; c < r.N/10+5; c++ {
		ops := c16RandomSchedule(r, r.Rng.Intn(8), true)
		// mailbox receive errors, with and without a failing reconnect, on
		// either side at random points of the prefix (the clause is
		// quantified over them)
		if c%2 == 0 {
			faults := []string{"rerr P", "rerr R", "outage P", "outage R", "outage R", "outage P"}
			for k := 0; k < 1+r.Rng.Intn(2); k++ {
				at := r.Rng.Intn(len(ops) + 1)
				f := faults[r.Rng.Intn(len(faults))]
				ops = append(ops[:at], append([]string{f}, ops[at:]...)...)
			}
		}
		// fair suffix: deliver every ticket sent so far, repeatedly
		for round := 0; round < 3; round++ {
			for i := 0; i < 6; i++ {
				ops = append(ops, fmt.Sprintf("dlv P %d", i), fmt.Sprintf("dlv R %d", i))
			}
		}
		res := runRec("fair")(ops)
		if res.final == "skipped" {
			break
		}
		if res.bad == "" && !(strings.Contains(res.final, "P=4/") && strings.Contains(res.final, " R=4/")) {
			r.Count("oracle/violation")
			r.Violate("no restarts and every ticket delivered, but the parties did not both reach expecting-channel: "+res.final,
				"C16/liveness", ops)
		}
	}
}
