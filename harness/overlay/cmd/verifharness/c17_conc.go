//go:build verif

package main

import (
	"crypto/sha256"
	"fmt"
	"math/rand"
	"strings"
	"sync"

	"github.com/btcsuite/btcd/btcutil"
	"github.com/btcsuite/btcd/wire"
	"github.com/lightninglabs/pool/order"
	"github.com/lightningnetwork/lnd/keychain"
)

// c17ConcCase: the daemon's single funding.Manager is driven by several
// goroutines at once (rpcServer batch handler, SidecarAcceptor stream, cleanup
// of a replaced batch). G goroutines derive the shims / pending ids of G
// different pairs simultaneously through the real code; every result must be
// what the same call returns when made alone.
type c17ConcCase struct {
	Kind  string `json:"kind"` // "conc"
	Seed  int64  `json:"seed"`
	Iters int    `json:"iters"`
}

func (f *c17Funding) execConcurrent(c *c17ConcCase) {
	r := f.r
	rng := rand.New(rand.NewSource(c.Seed))
	r.Evaluations++
	r.Count("conc/cases")
	const G = 8
	iters := c.Iters
	if iters <= 0 {
		iters = 300
	}
	p := c17NewParty("daemon", 2, f.db)
	type job struct {
		our   order.Order
		m     *order.MatchedOrder
		tx    *wire.MsgTx
		hint  uint32
		an    order.Nonce
		bn    order.Nonce
		pid   [32]byte
		alone string // the real result of the call made alone
		op    string
		got   string // a result observed while the others were running
		bad   string
	}
	jobs := make([]*job, G)
	derive := func(j *job) (out string) {
		defer func() {
			if e := recover(); e != nil {
				out = fmt.Sprintf("panic: %v", e)
			}
		}()
		shim, pid, err := p.mgr.VerifC17DeriveFundingShim(j.our, j.m, j.tx, j.hint)
		if err != nil {
			return "err"
		}
		return fmt.Sprintf("ok %s ret=%s", c17FmtShim(shim.GetChanPointShim()), c17Hex(pid[:]))
	}
	for g := range jobs {
		j := &job{hint: 700000 + uint32(rng.Intn(1000))}
		rng.Read(j.an[:])
		rng.Read(j.bn[:])
		ak, bk := order.NewKit(j.an), order.NewKit(j.bn)
		ak.LeaseDuration, bk.LeaseDuration = 2016, 2016
		ak.ChannelType, bk.ChannelType = order.ChannelType(rng.Intn(3)), order.ChannelType(rng.Intn(3))
		bk.MultiSigKeyLocator = keychain.KeyLocator{Family: keychain.KeyFamilyMultiSig, Index: uint32(10 + g)}
		j.m = &order.MatchedOrder{UnitsFilled: order.SupplyUnit(1 + rng.Intn(20)), NodeKey: f.asker.node33}
		if g%2 == 0 {
			// we are the bidder of this pair
			j.our = &order.Bid{Kit: *bk, SelfChanBalance: btcutil.Amount(rng.Intn(3)) * order.BaseSupplyUnit}
			j.m.Order = &order.Ask{Kit: *ak}
		} else {
			// we are the asker (other locator)
			ak.MultiSigKeyLocator = keychain.KeyLocator{Family: keychain.KeyFamilyMultiSig, Index: uint32(50 + g)}
			j.our = &order.Ask{Kit: *ak}
			j.m.Order = &order.Bid{Kit: *bk, SelfChanBalance: btcutil.Amount(rng.Intn(3)) * order.BaseSupplyUnit}
		}
		copy(j.m.MultiSigKey[:], c17KeyFor(1, 0, uint32(100+g)).SerializeCompressed())
		j.pid = sha256.Sum256(append(append([]byte{}, j.an[:]...), j.bn[:]...))
		env := c17CallEnv(p, j.our, j.m)
		j.tx = wire.NewMsgTx(2)
		j.tx.AddTxOut(wire.NewTxOut(1, []byte{0x51, byte(g)}))
		for _, e := range strings.Fields(env) {
			if strings.HasPrefix(e, "FS=") && e != "FS=-" {
				parts := strings.Split(strings.Split(e[3:], ";")[0], "/")
				if len(parts) == 4 && parts[3] != "err" {
					var scr []byte
					fmt.Sscanf(parts[3], "%x", &scr)
					j.tx.AddTxOut(wire.NewTxOut(2, scr))
				}
			}
		}
		j.op = fmt.Sprintf("C17 derive %s %s %s %d %s", c17FmtOrder(j.our), c17FmtMatched(j.m), c17FmtTx(j.tx), j.hint, env)
		j.alone = derive(j)
		jobs[g] = j
	}
	var wg sync.WaitGroup
	start := make(chan struct{})
	for g := range jobs {
		wg.Add(1)
		go func(j *job) {
			defer wg.Done()
			<-start
			for i := 0; i < iters && j.bad == ""; i++ {
				j.got = derive(j)
				if j.got != j.alone {
					j.bad = fmt.Sprintf("deriveFundingShim run concurrently returned %.200s, alone %.200s", j.got, j.alone)
					return
				}
				// the cleanup paths call PendingChanKey directly
				var pid [32]byte
				func() {
					defer func() {
						if e := recover(); e != nil {
							j.bad = fmt.Sprintf("PendingChanKey panicked: %v", e)
						}
					}()
					pid = order.PendingChanKey(j.an, j.bn)
				}()
				if j.bad == "" && pid != j.pid {
					j.bad = fmt.Sprintf("PendingChanKey(ask %x.., bid %x..) = %x.., not sha256(ask||bid) = %x..",
						j.an[:4], j.bn[:4], pid[:6], j.pid[:6])
				}
			}
		}(jobs[g])
	}
	close(start)
	wg.Wait() // bounded: every goroutine runs a fixed number of iterations
	var bad []string
	for _, j := range jobs {
		// the model derives each pair on its own; the line carries what the
		// real code returned while the other goroutines were running
		r.Emit(j.op, j.got)
		if !strings.Contains(j.alone, c17Hex(j.pid[:])) && strings.HasPrefix(j.alone, "ok ") {
			bad = append(bad, "pending id of the call made alone is not sha256(ask||bid)")
		}
		if j.bad != "" {
			bad = append(bad, j.bad)
		}
	}
	if len(bad) > 0 {
		r.Count("oracle/violation")
		c.Iters = 20 * iters
		r.Violate(fmt.Sprintf("%d goroutines deriving different pairs at once: %s", G, strings.Join(bad, "; ")), "C17/concurrent", c)
		return
	}
	r.Count("conc/agree")
	r.Distinct(fmt.Sprintf("conc|%d", c.Seed))
}
